#!/bin/sh
# usage: ./check.sh <property-id> [quick|thorough] [--replay <path>]
# Rebuilds the engine for the property against the CURRENT working tree of
# /repo (or $VERIF_REPO when set: used only for testing seeded changes in a
# scratch worktree) with -tags verif, then runs it.
set -u
cd "$(dirname "$0")" || exit 2
VERIF_DIR=$(pwd); export VERIF_DIR
prop=${1:?property id}; shift
tier=${1:-${VERIF_TIER:-quick}}; [ $# -gt 0 ] && shift
case "$prop" in
  C01|C02|C03|C04|C17) eng=chain ;;
  C05) eng=ffldb ;;
  C06) eng=script ;;
  C07) eng=sighash ;;
  C08) eng=wire ;;
  C09) eng=pow ;;
  C10|C12) eng=mempool ;;
  C11) eng=secp ;;
  C13) eng=accounting ;;
  C14) eng=versionbits ;;
  C15) eng=records ;;
  C16) eng=addr ;;
  C18) eng=peer ;;
  C19) eng=v2 ;;
  C20) eng=filters ;;
  X01) eng=connmgr ;;  # supplementary specification (no listed property): connection manager
  *) echo "unknown property $prop" >&2; exit 2 ;;
esac
export GOFLAGS=-mod=mod GOPROXY=off
REPO=${VERIF_REPO:-/repo}; export VERIF_REPO="$REPO"
mkdir -p bin
modflag=""
if [ "$REPO" != "/repo" ]; then
  md=$(mktemp -d /tmp/verif-mod-XXXXXX)
  sed "s#=> /repo#=> $REPO#" harness/go.mod > "$md/go.mod"
  cp harness/go.sum "$md/go.sum"
  modflag="-modfile=$md/go.mod"
fi
out="bin/$eng.$$"
( cd harness && go build $modflag -tags verif -o "../$out" "./cmd/$eng" ) || { echo "build failed for $eng" >&2; rm -f "$out"; [ -n "$modflag" ] && rm -rf "$md"; exit 2; }
[ -n "$modflag" ] && rm -rf "$md"
"./$out" "$prop" --tier "$tier" "$@"
rc=$?
rm -f "$out"
exit $rc
