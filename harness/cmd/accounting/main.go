// Command accounting is the engine for property C13 (spec/accounting).
package main

import (
	"verif/harness/internal/accounting"
	"verif/harness/internal/vrun"
)

func main() {
	vrun.Main(map[string]vrun.Check{
		"C13": {Level: "model_checking", Run: accounting.Run},
	})
}
