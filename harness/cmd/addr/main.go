// Command addr is the engine for property C16 (spec/addr).
package main

import (
	"verif/harness/internal/addr"
	"verif/harness/internal/vrun"
)

func main() {
	vrun.Main(map[string]vrun.Check{
		"C16": {Level: "model_checking", Run: addr.Run},
	})
}
