// Command chain decides C01, C02, C03, C17 (and C04) with spec/chain.
package main

import (
	"verif/harness/internal/chainh"
	"verif/harness/internal/vrun"
)

func main() {
	vrun.Main(map[string]vrun.Check{
		"C01": {Level: "model_checking", Run: func(c *vrun.Ctx) error { return chainh.Run(c, "C01") }},
		"C02": {Level: "model_checking", Run: func(c *vrun.Ctx) error { return chainh.Run(c, "C02") }},
		"C03": {Level: "model_checking", Run: func(c *vrun.Ctx) error { return chainh.Run(c, "C03") }},
		"C04": {Level: "model_checking", Run: func(c *vrun.Ctx) error { return chainh.Run(c, "C04") }},
		"C17": {Level: "model_checking", Run: func(c *vrun.Ctx) error { return chainh.Run(c, "C17") }},
	})
}
