// Command connmgr is the engine of the supplementary specification X01
// (spec/connmgr): the connection manager.
//
//	connmgr X01 --tier quick|thorough    run the check
//	connmgr --drive <scenarios.json> <traces.ndjson>
//	                                     driver mode (spawned by the check; in the
//	                                     thorough tier a race-instrumented build)
//	connmgr --tla <traces.ndjson>        print TraceData.tla (development aid)
package main

import (
	"os"

	"verif/harness/internal/connmgr"
	"verif/harness/internal/vrun"
)

func main() {
	if len(os.Args) == 4 && os.Args[1] == "--drive" {
		os.Exit(connmgr.DriveMain(os.Args[2], os.Args[3]))
	}
	if len(os.Args) == 3 && os.Args[1] == "--tla" {
		os.Exit(connmgr.TLAMain(os.Args[2]))
	}
	vrun.Main(map[string]vrun.Check{
		"X01": {Level: "model_checking", Run: connmgr.RunX01},
	})
}
