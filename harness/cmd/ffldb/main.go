// Command ffldb is the engine for property C05 (database/ffldb: atomic,
// isolated, prefix-durable, byte-faithful block/metadata store).
package main

import (
	"verif/harness/internal/ffldb"
	"verif/harness/internal/vrun"
)

func main() {
	vrun.Main(map[string]vrun.Check{
		"C05": {Level: "model_checking", Run: ffldb.RunC05},
	})
}
