// Command filters is the engine for property C20 (spec/filters).
package main

import (
	"verif/harness/internal/filters"
	"verif/harness/internal/vrun"
)

func main() {
	vrun.Main(map[string]vrun.Check{
		"C20": {Level: "model_checking", Run: filters.Run},
	})
}
