// Command mempool is the engine for C10 (mempool consistency) and C12 (block
// template validity): spec/mempool/{Mempool,Mining}.tla bound to the real
// mempool.TxPool, netsync.SyncManager and mining.BlkTmplGenerator.
package main

import (
	"os"
	"runtime/debug"
	"runtime/pprof"

	"verif/harness/internal/mempool"
	"verif/harness/internal/vrun"
)

func main() {
	// every replayed path opens a fresh ffldb/leveldb instance whose 4 MiB write
	// buffers dominate allocation; a lazier collector avoids re-faulting them
	debug.SetGCPercent(300)
	debug.SetMemoryLimit(8 << 30)
	stop := func() {}
	if p := os.Getenv("VERIF_CPUPROFILE"); p != "" {
		if f, err := os.Create(p); err == nil {
			pprof.StartCPUProfile(f)
			stop = func() { pprof.StopCPUProfile(); f.Close() }
		}
	}
	wrap := func(run func(*vrun.Ctx) error) func(*vrun.Ctx) error {
		return func(c *vrun.Ctx) error { defer stop(); return run(c) }
	}
	vrun.Main(map[string]vrun.Check{
		"C10": {Level: "model_checking", Run: wrap(mempool.RunC10)},
		"C12": {Level: "model_checking", Run: wrap(mempool.RunC12)},
		// internal: the race-detector child of the C10 thorough tier (this command built with -race)
		"C10-stress": {Level: "other", Run: mempool.RunStressChild},
	})
}
