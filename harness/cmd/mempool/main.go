// Command mempool is the engine for C10 (mempool consistency) and C12 (block
// template validity): spec/mempool/{Mempool,Mining}.tla bound to the real
// mempool.TxPool, netsync.SyncManager and mining.BlkTmplGenerator.
package main

import (
	"verif/harness/internal/mempool"
	"verif/harness/internal/vrun"
)

func main() {
	vrun.Main(map[string]vrun.Check{
		"C10": {Level: "model_checking", Run: mempool.RunC10},
		"C12": {Level: "model_checking", Run: mempool.RunC12},
	})
}
