// Command peer is the engine for property C18 (spec/peer).
//
//	peer C18 --tier quick|thorough     run the check
//	peer --drive <scenarios.json> <traces.ndjson>
//	                                   driver mode (spawned by the check as a
//	                                   race-instrumented build of this binary)
package main

import (
	"os"

	"verif/harness/internal/peer"
	"verif/harness/internal/vrun"
)

func main() {
	if len(os.Args) == 4 && os.Args[1] == "--drive" {
		os.Exit(peer.DriveMain(os.Args[2], os.Args[3]))
	}
	if len(os.Args) == 3 && os.Args[1] == "--tla" {
		os.Exit(peer.TLAMain(os.Args[2]))
	}
	vrun.Main(map[string]vrun.Check{
		"C18": {Level: "model_checking", Run: peer.RunC18},
	})
}
