package main

import (
	"fmt"
	"net"
	"os"
	"runtime"
	"strings"
	"time"

	"github.com/btcsuite/btcd/chaincfg/v2"
	"github.com/btcsuite/btcd/peer"
	"github.com/btcsuite/btcd/wire/v2"
)

type wconn struct {
	net.Conn
	raddr net.Addr
}

func (c *wconn) RemoteAddr() net.Addr { return c.raddr }

func peerGoroutines() string {
	buf := make([]byte, 1<<20)
	n := runtime.Stack(buf, true)
	var out []string
	for _, g := range strings.Split(string(buf[:n]), "\n\n") {
		if strings.Contains(g, "btcd/peer.") {
			out = append(out, g)
		}
	}
	return strings.Join(out, "\n\n")
}

func main() {
	local, remote := net.Pipe()
	gate := make(chan struct{})
	armed := make(chan struct{}, 1)
	nread := 0
	cfg := &peer.Config{
		ChainParams: &chaincfg.SimNetParams,
		Listeners: peer.MessageListeners{
			OnRead: func(p *peer.Peer, n int, msg wire.Message, err error) {
				nread++
				if _, ok := msg.(*wire.MsgPing); ok {
					armed <- struct{}{}
					<-gate
				}
			},
		},
	}
	p := peer.NewInboundPeer(cfg)
	p.AssociateConnection(&wconn{local, &net.TCPAddr{IP: net.ParseIP("10.0.0.1"), Port: 8333}})
	// remote: reader
	go func() {
		for {
			m, _, err := wire.ReadMessage(remote, wire.ProtocolVersion, wire.SimNet)
			if err != nil {
				fmt.Println("remote read err", err)
				return
			}
			fmt.Println("remote got", m.Command())
		}
	}()
	me := wire.NewNetAddressIPPort(net.ParseIP("10.0.0.1"), 8333, 0)
	you := wire.NewNetAddressIPPort(net.ParseIP("10.0.0.2"), 8333, 0)
	v := wire.NewMsgVersion(me, you, 12345, 0)
	v.ProtocolVersion = int32(wire.ProtocolVersion)
	wire.WriteMessage(remote, v, wire.ProtocolVersion, wire.SimNet)
	wire.WriteMessage(remote, wire.NewMsgVerAck(), wire.ProtocolVersion, wire.SimNet)
	time.Sleep(100 * time.Millisecond)
	go wire.WriteMessage(remote, wire.NewMsgPing(7), wire.ProtocolVersion, wire.SimNet)
	<-armed
	p.Disconnect()
	p.WaitForDisconnect()
	time.Sleep(300 * time.Millisecond)
	fmt.Println("--- before release:\n" + peerGoroutines())
	close(gate)
	time.Sleep(2 * time.Second)
	fmt.Println("--- after release (2s):\n" + peerGoroutines())
	os.Exit(0)
}
