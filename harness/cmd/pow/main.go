// Command pow is the engine for property C09 (spec/pow).
package main

import (
	"verif/harness/internal/pow"
	"verif/harness/internal/vrun"
)

func main() {
	vrun.Main(map[string]vrun.Check{
		"C09": {Level: "model_checking", Run: pow.Run},
	})
}
