// Command records is the engine for property C15 (spec/records).
package main

import (
	"verif/harness/internal/records"
	"verif/harness/internal/vrun"
)

func main() {
	vrun.Main(map[string]vrun.Check{
		"C15": {Level: "model_checking", Run: records.Run},
	})
}
