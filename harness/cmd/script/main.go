// Command script is the engine for property C06 (spec/script).
package main

import (
	"verif/harness/internal/script"
	"verif/harness/internal/vrun"
)

func main() {
	vrun.Main(map[string]vrun.Check{
		"C06": {Level: "model_checking", Run: script.Run},
	})
}
