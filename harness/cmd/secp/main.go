// Command secp is the engine for property C11 (secp256k1: ECDSA, BIP340,
// MuSig2, key and signature encodings, key agreement).
package main

import (
	"verif/harness/internal/secp"
	"verif/harness/internal/vrun"
)

func main() {
	vrun.Main(map[string]vrun.Check{
		"C11": {Level: "model_checking", Run: secp.Run},
	})
}
