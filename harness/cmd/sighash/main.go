// Command sighash is the engine for property C07 (spec/sighash).
package main

import (
	"verif/harness/internal/sighash"
	"verif/harness/internal/vrun"
)

func main() {
	vrun.Main(map[string]vrun.Check{
		"C07": {Level: "model_checking", Run: sighash.Run},
	})
}
