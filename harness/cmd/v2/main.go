// Command v2 is the engine for property C19 (BIP324 encrypted transport).
package main

import (
	"verif/harness/internal/v2"
	"verif/harness/internal/vrun"
)

func main() {
	vrun.Main(map[string]vrun.Check{
		"C19": {Level: "model_checking", Run: v2.Run},
	})
}
