// Command versionbits runs the check of property C14 (soft-fork deployment
// state follows the BIP9 state machine on every history).
package main

import (
	"verif/harness/internal/versionbits"
	"verif/harness/internal/vrun"
)

func main() {
	vrun.Main(map[string]vrun.Check{
		"C14": {Level: "model_checking", Run: versionbits.Run},
	})
}
