// Command wire is the engine for property C08 (spec/wire).
package main

import (
	"verif/harness/internal/vrun"
	wireh "verif/harness/internal/wire"
)

func main() {
	if wireh.IsChild() {
		wireh.ChildMain() // replays one shard of cases and exits
	}
	vrun.Main(map[string]vrun.Check{
		"C08": {Level: "model_checking", Run: wireh.Run},
	})
}
