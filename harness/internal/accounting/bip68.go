package accounting

import (
	"encoding/binary"
	"fmt"
	"os"
	"path/filepath"
	"sort"
	"strings"
	"sync"
	"time"

	"github.com/btcsuite/btcd/blockchain"
	"github.com/btcsuite/btcd/btcutil/v2"
	"github.com/btcsuite/btcd/chaincfg/v2"
	"github.com/btcsuite/btcd/chainhash/v2"
	"github.com/btcsuite/btcd/database"
	_ "github.com/btcsuite/btcd/database/ffldb"
	"github.com/btcsuite/btcd/wire/v2"

	"verif/harness/internal/chainh"
	"verif/harness/internal/tla"
	"verif/harness/internal/vrun"
)

const (
	mempoolHeight = 0x7fffffff
	cbOutputs     = 4
	cbValue       = 12_5000_0000
)

// liveChain is a real BlockChain on its own database whose blocks carry the
// timestamps of one history of Bip68.tla.
type liveChain struct {
	dir    string
	db     database.DB
	chain  *blockchain.BlockChain
	params *chaincfg.Params
	blocks []*btcutil.Block // by height
	times  []int64
}

func scratchRoot() string {
	if st, err := os.Stat("/dev/shm"); err == nil && st.IsDir() {
		return "/dev/shm"
	}
	return os.TempDir()
}

func newLiveChain(genesisTime int64, csvHeight int) (*liveChain, error) {
	p := chainh.NewParams(time.Unix(genesisTime, 0), chainh.NetOpts{Maturity: 1, BIP34: false})
	// one difficulty throughout, whatever the timestamps
	p.PoWNoRetargeting = true
	p.ReduceMinDifficulty = false
	p.Deployments[chaincfg.DeploymentCSV].AlwaysActiveHeight = uint32(csvHeight)
	dir, err := os.MkdirTemp(scratchRoot(), "verif-acct-")
	if err != nil {
		return nil, err
	}
	db, err := database.Create("ffldb", filepath.Join(dir, "db"), p.Net)
	if err != nil {
		os.RemoveAll(dir)
		return nil, err
	}
	chain, err := blockchain.New(&blockchain.Config{DB: db, ChainParams: p,
		TimeSource: &chainh.FixedTime{T: time.Unix(genesisTime+50_000_000, 0)}})
	if err != nil {
		db.Close()
		os.RemoveAll(dir)
		return nil, err
	}
	g := btcutil.NewBlock(p.GenesisBlock)
	g.SetHeight(0)
	return &liveChain{dir: dir, db: db, chain: chain, params: p, blocks: []*btcutil.Block{g}, times: []int64{genesisTime}}, nil
}

func (l *liveChain) close() {
	l.db.Close()
	os.RemoveAll(l.dir)
}

func (l *liveChain) tip() int { return len(l.blocks) - 1 }

func (l *liveChain) coinbase(height int) *wire.MsgTx { return coinbaseFor(height, 0x42) }

// coinbaseFor makes the coinbase of a block at the given height; tag tells
// branches apart (two branches may carry equal timestamps).
func coinbaseFor(height int, tag byte) *wire.MsgTx {
	cb := wire.NewMsgTx(1)
	script := make([]byte, 0, 10)
	script = append(script, 4)
	script = binary.LittleEndian.AppendUint32(script, uint32(height))
	script = append(script, 1, tag)
	cb.AddTxIn(wire.NewTxIn(wire.NewOutPoint(&chainhash.Hash{}, wire.MaxPrevOutIndex), script, nil))
	for k := 0; k < cbOutputs; k++ {
		cb.AddTxOut(wire.NewTxOut(cbValue, []byte{0x51}))
	}
	return cb
}

func solveHeader(h *wire.BlockHeader) {
	target := blockchain.CompactToBig(h.Bits)
	for n := uint32(0); ; n++ {
		h.Nonce = n
		hash := h.BlockHash()
		if blockchain.HashToBig(&hash).Cmp(target) <= 0 {
			return
		}
	}
}

// candidate makes a block on the tip with the given time and extra transactions.
func (l *liveChain) candidate(ts int64, extra []*wire.MsgTx, solve bool) *btcutil.Block {
	return blockOn(l.blocks[l.tip()], l.tip()+1, l.params.PowLimitBits, ts, 0x42, extra, solve)
}

// blockOn makes a block of the given height on prev.
func blockOn(prev *btcutil.Block, height int, bits uint32, ts int64, tag byte, extra []*wire.MsgTx, solve bool) *btcutil.Block {
	// without retargeting every block after the genesis block carries the proof-of-work limit
	blk := &wire.MsgBlock{Header: wire.BlockHeader{Version: 0x20000000, PrevBlock: *prev.Hash(),
		Bits: bits, Timestamp: time.Unix(ts, 0)}}
	blk.AddTransaction(coinbaseFor(height, tag))
	for _, tx := range extra {
		blk.AddTransaction(tx)
	}
	utxs := make([]*btcutil.Tx, len(blk.Transactions))
	for i, tx := range blk.Transactions {
		utxs[i] = btcutil.NewTx(tx)
	}
	blk.Header.MerkleRoot = blockchain.CalcMerkleRoot(utxs, false)
	if solve {
		solveHeader(&blk.Header)
	}
	b := btcutil.NewBlock(blk)
	b.SetHeight(int32(height))
	return b
}

// mine extends the real chain by one block with the given timestamp.
func (l *liveChain) mine(ts int64) error {
	b := l.candidate(ts, nil, true)
	isMain, isOrphan, err := l.chain.ProcessBlock(btcutil.NewBlock(b.MsgBlock()), blockchain.BFNone)
	if err != nil {
		return fmt.Errorf("block %d (time %d) refused: %w", l.tip()+1, ts, err)
	}
	if !isMain || isOrphan {
		return fmt.Errorf("block %d (time %d) not on the main chain (main=%v orphan=%v)", l.tip()+1, ts, isMain, isOrphan)
	}
	l.blocks = append(l.blocks, b)
	l.times = append(l.times, ts)
	return nil
}

// compact forms of the rows of a history state (the dumps of the thorough
// tier are too large to keep as parsed values)
type seqIn struct {
	hi, lo uint32
	h      int32 // height of the spent output, -1 = mempool
}

type lockRow struct {
	version int32
	mp, cb  bool
	ins     []seqIn
	secs    int64
	height  int32
	met     bool
}

type blockRow struct {
	version int32
	ins     []seqIn
	ok      bool
}

type histNode struct {
	pre       int
	chain     []int64
	tip       int
	mtp       int64
	csv, next bool
	locks     []lockRow
	blocks    []blockRow
	isLeaf    bool
}

func insOf(v tla.Value) []seqIn {
	out := make([]seqIn, 0, v.Len())
	for _, in := range v.Seq() {
		out = append(out, seqIn{uint32(in.At(1).I), uint32(in.At(2).I), int32(in.At(3).I)})
	}
	return out
}

func (s seqIn) seq() uint32 { return s.hi<<16 | s.lo }

func insString(ins []seqIn) string {
	var sb strings.Builder
	sb.WriteString("<<")
	for i, in := range ins {
		if i > 0 {
			sb.WriteString(", ")
		}
		fmt.Fprintf(&sb, "<<%d, %d, %d>>", in.hi, in.lo, in.h)
	}
	sb.WriteString(">>")
	return sb.String()
}

func (r lockRow) String() string {
	return fmt.Sprintf("<<version %d, mempool %v, coinbase %v, inputs %s, seconds %d, height %d, met %v>>", r.version, r.mp, r.cb, insString(r.ins), r.secs, r.height, r.met)
}

func (r blockRow) String() string {
	return fmt.Sprintf("<<version %d, inputs %s, allowed %v>>", r.version, insString(r.ins), r.ok)
}

func nodeOf(s tla.State) *histNode {
	ex := s["expect"]
	n := &histNode{pre: s["pre"].Int(), tip: ex.F("tip").Int(), mtp: ex.F("mtp").I, csv: ex.F("csv").Bool(), next: ex.F("csvNext").Bool()}
	for _, v := range s["chain"].Seq() {
		n.chain = append(n.chain, v.I)
	}
	for _, r := range ex.F("locks").Set() {
		n.locks = append(n.locks, lockRow{int32(r.At(1).I), r.At(2).Bool(), r.At(3).Bool(), insOf(r.At(4)), r.At(5).I, int32(r.At(6).I), r.At(7).Bool()})
	}
	for _, r := range ex.F("blocks").Set() {
		n.blocks = append(n.blocks, blockRow{int32(r.At(1).I), insOf(r.At(2)), r.At(3).Bool()})
	}
	return n
}

// chainKey names a history state: the preamble length (which fixes the
// deployment height) and the block times.
func chainKey(pre int, ts []int64) string {
	var sb strings.Builder
	fmt.Fprintf(&sb, "%d:", pre)
	for _, t := range ts {
		fmt.Fprintf(&sb, "%d,", t)
	}
	return sb.String()
}

func runBip68(c *vrun.Ctx) error {
	// a history is its own path: the tree is rebuilt from the states
	byKey := map[string]*histNode{}
	var nodes []*histNode
	var forks []*forkCase
	err := model(c, "Bip68", 4, []string{"Mine", "MineSide"}, func(s tla.State) error {
		if s["side"].Len() > 0 {
			if f := forkOf(s); f != nil {
				forks = append(forks, f)
			}
			return nil
		}
		n := nodeOf(s)
		n.isLeaf = true
		byKey[chainKey(n.pre, n.chain)] = n
		nodes = append(nodes, n)
		return nil
	})
	if err != nil {
		return err
	}
	var leaves []*histNode
	for _, n := range nodes {
		if len(n.chain) > n.pre+1 {
			p := byKey[chainKey(n.pre, n.chain[:len(n.chain)-1])]
			if p == nil {
				return fmt.Errorf("Bip68.tla: history %v has no parent state in the dump", n.chain)
			}
			p.isLeaf = false
		}
	}
	for _, n := range nodes {
		if n.isLeaf {
			leaves = append(leaves, n)
		}
	}
	sort.Slice(leaves, func(i, j int) bool {
		return chainKey(leaves[i].pre, leaves[i].chain) < chainKey(leaves[j].pre, leaves[j].chain)
	})
	st := newStats()
	var fe firstErr
	done := map[*histNode]bool{}
	var doneMu sync.Mutex
	claim := func(n *histNode) bool {
		doneMu.Lock()
		defer doneMu.Unlock()
		if done[n] {
			return false
		}
		done[n] = true
		return true
	}
	// one real chain per leaf history; every state on the way is checked once
	c.Parallel(len(leaves), func(i int) {
		leaf := leaves[i]
		pre := leaf.pre
		lc, err := newLiveChain(leaf.chain[0], pre+2)
		if err != nil {
			fe.set(err)
			return
		}
		defer lc.close()
		c.AddTraces(1)
		for h := 0; h < len(leaf.chain); h++ {
			if h == 0 {
				if pre > 0 {
					continue
				}
			} else if err := lc.mine(leaf.chain[h]); err != nil {
				// a valid history of the specification must be a valid chain
				c.Violation("bip68:history-refused", fmt.Sprintf("a block history of the specification is refused by the real chain: %v", err), map[string]any{"chain": leaf.chain})
				return
			}
			if h < pre {
				continue
			}
			n := byKey[chainKey(pre, leaf.chain[:h+1])]
			if n == nil {
				fe.set(fmt.Errorf("Bip68.tla: no state for history %v", leaf.chain[:h+1]))
				return
			}
			if claim(n) {
				st.add("history-states")
				if err := checkHistoryState(c, lc, n, st); err != nil {
					fe.set(err)
					return
				}
			}
		}
	})
	if fe.err != nil {
		return fe.err
	}
	if c.Violations() == 0 {
		for _, n := range nodes {
			if !done[n] {
				return fmt.Errorf("Bip68.tla: state %v was not reached by any replayed history", n.chain)
			}
		}
	}
	if err := replayForks(c, forks, st); err != nil {
		return err
	}
	c.Logf("Bip68 histories replayed: %d leaf histories, %d forks, %s", len(leaves), len(forks), st)
	ex := st.export()
	ex["leaf-histories"] = len(leaves)
	c.SetExtra("bip68_cases", ex)
	return nil
}

func checkHistoryState(c *vrun.Ctx, lc *liveChain, n *histNode, st *stats) error {
	tip := n.tip
	if tip != lc.tip() {
		return fmt.Errorf("Bip68: state tip %d, real chain tip %d", tip, lc.tip())
	}
	snap := lc.chain.BestSnapshot()
	hist := map[string]any{"chain": n.chain, "pre": n.pre}
	c.AddEval(1)
	if snap.Height != int32(tip) {
		return fmt.Errorf("Bip68: real best height %d, expected %d", snap.Height, tip)
	}
	if got, want := snap.MedianTime.Unix(), n.mtp; got != want {
		c.Violation("bip68:median-time", fmt.Sprintf("median time past of the tip at height %d is %d, the definition gives %d (block times %v)", tip, got, want, n.chain), hist)
	}
	c.Distinct(fmt.Sprintf("hist/pre=%d/tip=%d/csv=%v/mtp-rank=%d", n.pre, tip, n.csv, mtpRank(n.chain, n.mtp)))

	// the transaction-level table
	for _, r := range n.locks {
		tx := wire.NewMsgTx(r.version)
		view := blockchain.NewUtxoViewpoint()
		for k, in := range r.ins {
			h := chainhash.Hash{0xcc, byte(k + 1)}
			op := wire.NewOutPoint(&h, uint32(k))
			if r.cb {
				op = wire.NewOutPoint(&chainhash.Hash{}, wire.MaxPrevOutIndex)
			}
			ti := wire.NewTxIn(op, nil, nil)
			ti.Sequence = in.seq()
			tx.AddTxIn(ti)
			ih := in.h
			if ih < 0 {
				ih = mempoolHeight
			}
			view.Entries()[*op] = blockchain.NewUtxoEntry(wire.NewTxOut(1000, []byte{0x51}), ih, false)
		}
		tx.AddTxOut(wire.NewTxOut(1, []byte{0x51}))
		replay := map[string]any{"history": hist, "row": r.String(), "note": "input = <<hi, lo, height of the spent output (-1 = mempool)>>, sequence number = hi*65536+lo"}
		st.add("lock-queries")
		c.AddEval(2)
		var lock *blockchain.SequenceLock
		var err error
		if p := guard(func() { lock, err = lc.chain.CalcSequenceLock(btcutil.NewTx(tx), view, r.mp) }); p != nil {
			c.Violation("bip68:calc-panics", fmt.Sprintf("CalcSequenceLock panics (row %s): %v", r, p), replay)
			continue
		}
		if err != nil {
			c.Violation("bip68:calc-error", fmt.Sprintf("CalcSequenceLock fails on available inputs (row %s): %v", r, err), replay)
			continue
		}
		if lock.Seconds != r.secs || lock.BlockHeight != r.height {
			kind := "height"
			if lock.Seconds != r.secs {
				kind = "seconds"
			}
			c.Violation("bip68:lock:"+kind, fmt.Sprintf("CalcSequenceLock(version %d, mempool=%v, coinbase=%v, inputs %s) on the chain with times %v = (seconds %d, height %d), the definition gives (%d, %d)",
				r.version, r.mp, r.cb, insString(r.ins), n.chain, lock.Seconds, lock.BlockHeight, r.secs, r.height), replay)
			continue
		}
		if got := blockchain.SequenceLockActive(lock, int32(tip)+1, snap.MedianTime); got != r.met {
			c.Violation("bip68:lock-met", fmt.Sprintf("SequenceLockActive(lock (%d, %d), height %d, median time %d) = %v, the definition says %v", lock.Seconds, lock.BlockHeight, tip+1, snap.MedianTime.Unix(), got, r.met), replay)
		}
	}

	// the block-level table: the next block with one locked transaction,
	// through the whole validation path (no state is changed)
	for _, r := range n.blocks {
		tx := wire.NewMsgTx(r.version)
		used := map[int]int{}
		total := int64(0)
		for _, in := range r.ins {
			ih := int(in.h)
			if ih < 1 || ih > tip {
				return fmt.Errorf("Bip68.tla: block query spends height %d with tip %d", ih, tip)
			}
			cbh := lc.blocks[ih].MsgBlock().Transactions[0].TxHash()
			ti := wire.NewTxIn(wire.NewOutPoint(&cbh, uint32(used[ih])), nil, nil)
			used[ih]++
			ti.Sequence = in.seq()
			tx.AddTxIn(ti)
			total += cbValue
		}
		tx.AddTxOut(wire.NewTxOut(total, []byte{0x51}))
		cand := lc.candidate(n.mtp+1, []*wire.MsgTx{tx}, false)
		replay := map[string]any{"history": hist, "row": r.String(), "note": "input = <<hi, lo, height of the spent coinbase>>"}
		st.add("block-queries")
		c.AddEval(1)
		var err error
		if p := guard(func() { err = lc.chain.CheckConnectBlockTemplate(cand) }); p != nil {
			c.Violation("bip68:block-panics", fmt.Sprintf("CheckConnectBlockTemplate panics (row %s): %v", r, p), replay)
			continue
		}
		switch {
		case r.ok && err != nil:
			c.Violation("bip68:block-refused", fmt.Sprintf("a block at height %d with a version %d transaction, inputs %s, is refused (%v) on the chain with times %v although its relative locks are met (deployment active for it: %v)",
				tip+1, r.version, insString(r.ins), err, n.chain, n.next), replay)
		case !r.ok && err == nil:
			c.Violation("bip68:block-accepted", fmt.Sprintf("a block at height %d with a version %d transaction, inputs %s, is accepted on the chain with times %v although a relative lock is not met", tip+1, r.version, insString(r.ins), n.chain), replay)
		case !r.ok:
			if code, ok := ruleCode(err); !ok || code != blockchain.ErrUnfinalizedTx {
				c.Violation("bip68:block-error-class", fmt.Sprintf("a block with an unmet relative lock is refused with %v instead of the unfinalized-transaction rule", err), replay)
			}
		}
	}
	if tip >= 2 && tip <= 3 {
		c.Sample(map[string]any{"kind": "bip68-history", "block_times": n.chain, "mtp": n.mtp, "lock_rows": len(n.locks), "block_rows": len(n.blocks)})
	}
	return nil
}

// mtpRank tells where in the sorted window the tip's own time sits relative
// to the median (a coarse class of the history's shape).
func mtpRank(chain []int64, mtp int64) int {
	r := 0
	lo := len(chain) - 11
	if lo < 0 {
		lo = 0
	}
	for _, t := range chain[lo:] {
		if t < mtp {
			r++
		}
	}
	return r
}
