package accounting

import (
	"fmt"

	"github.com/btcsuite/btcd/blockchain"
	"github.com/btcsuite/btcd/btcutil/v2"
	"github.com/btcsuite/btcd/wire/v2"

	"verif/harness/internal/tla"
	"verif/harness/internal/vrun"
)

// forkRow is one row of a complete fork state: a transaction in the last
// side-branch block, whether the definition allows it there, and the lock
// the definition gives (from the side branch's OWN ancestors).
type forkRow struct {
	version int32
	ins     []seqIn
	ok      bool
	secs    int64
	height  int32
}

func (r forkRow) String() string {
	return fmt.Sprintf("<<version %d, inputs %s, allowed %v, lock seconds %d, lock height %d>>", r.version, insString(r.ins), r.ok, r.secs, r.height)
}

// forkCase is a complete fork: main = preamble + main branch, side = the side
// branch on the last preamble block, one block longer than the main branch.
type forkCase struct {
	pre    int
	main   []int64
	side   []int64
	parent int
	rows   []forkRow
}

func forkOf(s tla.State) *forkCase {
	ex := s["expect"]
	if ex.F("fork").Str() != "complete" {
		return nil
	}
	f := &forkCase{pre: s["pre"].Int(), parent: ex.F("parent").Int()}
	for _, v := range s["chain"].Seq() {
		f.main = append(f.main, v.I)
	}
	for _, v := range s["side"].Seq() {
		f.side = append(f.side, v.I)
	}
	for _, r := range ex.F("rows").Set() {
		f.rows = append(f.rows, forkRow{int32(r.At(1).I), insOf(r.At(2)), r.At(3).Bool(), r.At(4).I, int32(r.At(5).I)})
	}
	return f
}

const sideTag = 0x53

// forkBlocks are the real blocks of a fork, built once and delivered to a
// fresh node per attempt.
type forkBlocks struct {
	f    *forkCase
	bits uint32
	main []*btcutil.Block // heights 1..len(main)-1
	side []*btcutil.Block // all but the last side block, heights pre+1..
	own  []*btcutil.Block // by height: the last side block's own ancestors (index 0 unused)
}

func buildFork(f *forkCase) (*forkBlocks, error) {
	lc, err := newLiveChain(f.main[0], f.pre+2)
	if err != nil {
		return nil, err
	}
	defer lc.close()
	fb := &forkBlocks{f: f, bits: lc.params.PowLimitBits}
	for h := 1; h < len(f.main); h++ {
		if err := lc.mine(f.main[h]); err != nil {
			return nil, fmt.Errorf("main branch of a fork: %w", err)
		}
	}
	fb.main = lc.blocks[1:]
	fb.own = append(fb.own, lc.blocks[:f.pre+1]...)
	prev := lc.blocks[f.pre]
	for k := 0; k < len(f.side)-1; k++ {
		b := blockOn(prev, f.pre+1+k, fb.bits, f.side[k], sideTag, nil, true)
		fb.side = append(fb.side, b)
		fb.own = append(fb.own, b)
		prev = b
	}
	return fb, nil
}

// node delivers the main chain and the side branch short of its last block
// to a fresh chain.
func (fb *forkBlocks) node() (*liveChain, error) {
	lc, err := newLiveChain(fb.f.main[0], fb.f.pre+2)
	if err != nil {
		return nil, err
	}
	for _, b := range fb.main {
		isMain, _, err := lc.chain.ProcessBlock(btcutil.NewBlock(b.MsgBlock()), blockchain.BFNone)
		if err != nil || !isMain {
			lc.close()
			return nil, fmt.Errorf("fork: main branch block refused (main=%v): %v", isMain, err)
		}
	}
	for _, b := range fb.side {
		isMain, isOrphan, err := lc.chain.ProcessBlock(btcutil.NewBlock(b.MsgBlock()), blockchain.BFNone)
		if err != nil || isMain || isOrphan {
			lc.close()
			return nil, fmt.Errorf("fork: side branch block not stored as a side block (main=%v orphan=%v): %v", isMain, isOrphan, err)
		}
	}
	return lc, nil
}

// last makes the last side block with the row's transaction in it.
func (fb *forkBlocks) last(r forkRow) (*btcutil.Block, error) {
	f := fb.f
	tx := wire.NewMsgTx(r.version)
	used := map[int]int{}
	total := int64(0)
	for _, in := range r.ins {
		ih := int(in.h)
		if ih < 1 || ih > f.parent || ih >= len(fb.own) {
			return nil, fmt.Errorf("Bip68.tla: fork query spends height %d, parent at %d", ih, f.parent)
		}
		cbh := fb.own[ih].MsgBlock().Transactions[0].TxHash()
		ti := wire.NewTxIn(wire.NewOutPoint(&cbh, uint32(used[ih])), nil, nil)
		used[ih]++
		ti.Sequence = in.seq()
		tx.AddTxIn(ti)
		total += cbValue
	}
	tx.AddTxOut(wire.NewTxOut(total, []byte{0x51}))
	return blockOn(fb.own[f.parent], f.parent+1, fb.bits, f.side[len(f.side)-1], sideTag, []*wire.MsgTx{tx}, true), nil
}

// replayForks delivers, for every complete fork of the specification, the
// main branch and the side branch to a real chain; the last side block makes
// the side branch the longer one, so the node validates the whole side branch
// while the main branch is still its best chain.  The block carries a
// transaction whose relative lock sits on the boundary computed from the side
// branch's own median times.
func replayForks(c *vrun.Ctx, forks []*forkCase, st *stats) error {
	var fe firstErr
	c.Parallel(len(forks), func(i int) {
		f := forks[i]
		fb, err := buildFork(f)
		if err != nil {
			fe.set(err)
			return
		}
		c.AddTraces(1)
		st.add("forks")
		c.Distinct(fmt.Sprintf("fork/pre=%d/main=%v/side=%v", f.pre, diffs(f.main[f.pre:]), diffs(append([]int64{f.main[f.pre]}, f.side...))))
		hist := map[string]any{"pre": f.pre, "main_chain": f.main, "side_branch": f.side, "fork_height": f.pre}
		// rows the definition refuses first: they leave the node on the main branch
		rows := append([]forkRow(nil), f.rows...)
		for a, b := 0, len(rows)-1; a < b; {
			switch {
			case !rows[a].ok:
				a++
			case rows[b].ok:
				b--
			default:
				rows[a], rows[b] = rows[b], rows[a]
			}
		}
		var lc *liveChain
		defer func() {
			if lc != nil {
				lc.close()
			}
		}()
		for _, r := range rows {
			if lc == nil {
				if lc, err = fb.node(); err != nil {
					fe.set(err)
					return
				}
			}
			blk, err := fb.last(r)
			if err != nil {
				fe.set(err)
				return
			}
			replay := map[string]any{"fork": hist, "row": r.String(), "note": "input = <<hi, lo, height of the spent coinbase on the side branch's own chain>>; the transaction sits in the last side-branch block"}
			st.add("fork-rows")
			c.AddEval(1)
			var isMain bool
			var perr error
			if p := guard(func() { isMain, _, perr = lc.chain.ProcessBlock(btcutil.NewBlock(blk.MsgBlock()), blockchain.BFNone) }); p != nil {
				c.Violation("bip68:fork-panics", fmt.Sprintf("ProcessBlock panics on the last side-branch block (row %s): %v", r, p), replay)
				lc.close()
				lc = nil
				continue
			}
			onSide := lc.chain.BestSnapshot().Hash == *blk.Hash()
			switch {
			case r.ok && (perr != nil || !isMain || !onSide):
				c.Violation("bip68:fork-refused", fmt.Sprintf("the side branch %v (forking the chain %v at height %d) is refused (%v) because of a version %d transaction with inputs %s in its last block, although the relative lock, anchored to the side branch's own median times, is met (lock seconds %d, height %d; parent median time is what decides)",
					f.side, f.main, f.pre, perr, r.version, insString(r.ins), r.secs, r.height), replay)
			case !r.ok && perr == nil && onSide:
				c.Violation("bip68:fork-accepted", fmt.Sprintf("the side branch %v (forking the chain %v at height %d) becomes the best chain with a version %d transaction, inputs %s, in its last block whose relative lock, anchored to the side branch's own median times, is not met (lock seconds %d, height %d)",
					f.side, f.main, f.pre, r.version, insString(r.ins), r.secs, r.height), replay)
			case !r.ok && perr == nil:
				c.Violation("bip68:fork-no-verdict", fmt.Sprintf("the last side-branch block neither reorganises the chain nor is refused (main=%v)", isMain), replay)
			case !r.ok:
				if code, ok := ruleCode(perr); !ok || code != blockchain.ErrUnfinalizedTx {
					c.Violation("bip68:fork-error-class", fmt.Sprintf("a side branch with an unmet relative lock is refused with %v instead of the unfinalized-transaction rule", perr), replay)
				}
			}
			// a node that reorganised (or may have) is not reused
			if perr == nil || onSide {
				lc.close()
				lc = nil
			}
		}
	})
	return fe.err
}

func diffs(ts []int64) []int64 {
	var out []int64
	for i := 1; i < len(ts); i++ {
		out = append(out, ts[i]-ts[i-1])
	}
	return out
}
