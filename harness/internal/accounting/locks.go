package accounting

import (
	"fmt"
	"time"

	"github.com/btcsuite/btcd/blockchain"
	"github.com/btcsuite/btcd/btcutil/v2"
	"github.com/btcsuite/btcd/chainhash/v2"
	"github.com/btcsuite/btcd/wire/v2"

	"verif/harness/internal/tla"
	"verif/harness/internal/vrun"
)

func coinbaseWithScript(script []byte) *btcutil.Tx {
	tx := wire.NewMsgTx(1)
	tx.AddTxIn(wire.NewTxIn(wire.NewOutPoint(&chainhash.Hash{}, wire.MaxPrevOutIndex), script, nil))
	tx.AddTxOut(wire.NewTxOut(50, []byte{0x51}))
	return btcutil.NewTx(tx)
}

func runLocks(c *vrun.Ctx) error {
	st := newStats()
	bt := &batcher{c: c, size: 4000}
	bt.work = func(i int, s tla.State) {
		cs, ex := s["case"], s["expect"]
		switch cs.F("kind").Str() {
		case "final":
			st.add("final")
			checkFinal(c, cs.F("c"), ex)
		case "active":
			st.add("active")
			cc := cs.F("c")
			lock := &blockchain.SequenceLock{Seconds: cc.F("seconds").I, BlockHeight: int32(cc.F("minHeight").I)}
			h, mtp := int32(cc.F("height").I), cc.F("mtp").I
			replay := map[string]any{"case": cc.Go(), "expect": ex.Go()}
			c.AddTraces(1)
			c.AddEval(1)
			c.Distinct("active/" + cc.String())
			got := blockchain.SequenceLockActive(lock, h, time.Unix(mtp, 0))
			if want := ex.F("active").Bool(); got != want {
				c.Violation("locks:sequence-lock-active", fmt.Sprintf("SequenceLockActive(seconds=%d, height=%d; block height %d, median time %d) = %v, the definition says %v",
					lock.Seconds, lock.BlockHeight, h, mtp, got, want), replay)
			}
		case "l2s":
			st.add("l2s")
			cc := cs.F("c")
			isSec, v := cc.F("isSeconds").Bool(), uint32(cc.F("v").I)
			replay := map[string]any{"case": cc.Go(), "expect": ex.Go()}
			c.AddTraces(1)
			c.AddEval(1)
			c.Distinct("l2s/" + cc.String())
			got := blockchain.LockTimeToSequence(isSec, v)
			if want := uint32(word(ex.F("seq"))); got != want {
				c.Violation("locks:lock-time-to-sequence", fmt.Sprintf("LockTimeToSequence(seconds=%v, %d) = %#x, the definition gives %#x", isSec, v, got, want), replay)
			}
		case "cbheight":
			st.add("cbheight")
			checkCbHeight(c, bytesOf(cs.F("s")), ex)
		}
	}
	if err := model(c, "Locks", 2, []string{"Group", "Pick"}, func(s tla.State) error { bt.add(s); return nil }); err != nil {
		return err
	}
	bt.flush()
	c.Logf("Locks cases replayed: %s", st)
	c.SetExtra("locks_cases", st.export())
	return nil
}

func checkFinal(c *vrun.Ctx, cc, ex tla.Value) {
	tx := wire.NewMsgTx(1)
	lt := word(cc.F("lt"))
	tx.LockTime = uint32(lt)
	var seqs []uint32
	for k, sq := range cc.F("seqs").Seq() {
		h := chainhash.Hash{0xbb, byte(k)}
		in := wire.NewTxIn(wire.NewOutPoint(&h, 0), nil, nil)
		in.Sequence = uint32(word(sq))
		seqs = append(seqs, in.Sequence)
		tx.AddTxIn(in)
	}
	tx.AddTxOut(wire.NewTxOut(1, []byte{0x51}))
	height := int32(cc.F("height").I)
	bt := word(cc.F("time"))
	replay := map[string]any{"lockTime": lt, "height": height, "blockTime": bt, "sequences": seqs, "expect": ex.Go()}
	c.AddTraces(1)
	c.AddEval(1)
	c.Distinct(fmt.Sprintf("final/lt=%d/h=%d/t=%d/%v", lt, height, bt, seqs))
	var got bool
	if p := guard(func() { got = blockchain.IsFinalizedTransaction(btcutil.NewTx(tx), height, time.Unix(bt, 0)) }); p != nil {
		c.Violation("locks:final-panics", fmt.Sprintf("IsFinalizedTransaction panics: %v", p), replay)
		return
	}
	if want := ex.F("final").Bool(); got != want {
		c.Violation("locks:is-finalized", fmt.Sprintf("IsFinalizedTransaction(lockTime=%d, sequences=%x; height %d, time %d) = %v, the definition says %v", lt, seqs, height, bt, got, want), replay)
	}
}

func checkCbHeight(c *vrun.Ctx, script []byte, ex tla.Value) {
	tx := coinbaseWithScript(script)
	replay := map[string]any{"script": fmt.Sprintf("%x", script), "expect": ex.Go()}
	c.AddTraces(1)
	c.AddEval(1)
	c.Distinct(fmt.Sprintf("cbheight/%x", script[:min(len(script), 6)]))
	var h int32
	var err error
	if p := guard(func() { h, err = blockchain.ExtractCoinbaseHeight(tx) }); p != nil {
		c.Violation("cbheight:panics", fmt.Sprintf("ExtractCoinbaseHeight panics on script %x: %v", script, p), replay)
		return
	}
	wantOK, wantH := ex.F("ok").Bool(), int32(ex.F("h").I)
	switch {
	case wantOK && err != nil:
		c.Violation("cbheight:refused", fmt.Sprintf("ExtractCoinbaseHeight(script %x) fails (%v), the script begins with the canonical push of height %d", script, err, wantH), replay)
	case !wantOK && err == nil && h < 0:
		c.Violation("cbheight:negative-height-accepted", fmt.Sprintf("ExtractCoinbaseHeight(script %x) = %d without an error: a negative number is returned as the block height", script, h), replay)
	case !wantOK && err == nil:
		c.Violation("cbheight:accepted", fmt.Sprintf("ExtractCoinbaseHeight(script %x) = %d, but the script does not begin with the canonical push of any height", script, h), replay)
	case wantOK && h != wantH:
		c.Violation("cbheight:value", fmt.Sprintf("ExtractCoinbaseHeight(script %x) = %d, the definition gives %d", script, h, wantH), replay)
	case !wantOK:
		if _, ok := ruleCode(err); !ok {
			c.Violation("cbheight:error-class", fmt.Sprintf("ExtractCoinbaseHeight(script %x) fails with a non-rule error %v", script, err), replay)
		}
	}
	for _, chk := range ex.F("checks").Set() {
		want := int32(chk.F("want").I)
		c.AddEval(1)
		var cerr error
		if p := guard(func() { cerr = blockchain.CheckSerializedHeight(tx, want) }); p != nil {
			c.Violation("cbheight:panics", fmt.Sprintf("CheckSerializedHeight panics on script %x: %v", script, p), replay)
			return
		}
		if ok := chk.F("ok").Bool(); (cerr == nil) != ok {
			c.Violation("cbheight:check", fmt.Sprintf("CheckSerializedHeight(script %x, height %d) passes=%v, the definition says %v", script, want, cerr == nil, ok), replay)
		}
	}
}
