package accounting

import (
	"bytes"
	"errors"
	"fmt"
	"math/rand"

	"github.com/btcsuite/btcd/blockchain"
	"github.com/btcsuite/btcd/btcutil/v2"
	"github.com/btcsuite/btcd/chainhash/v2"
	"github.com/btcsuite/btcd/wire/v2"

	"verif/harness/internal/tla"
	"verif/harness/internal/vrun"
)

// hashEnv is the abstract -> concrete hash map of one case: T(i)/W(i) are the
// txid / wtxid of real transaction i, Z is 32 zero bytes, N(v) 32 bytes of
// value v, and H(l, r) is evaluated with SHA-256 along the term, i.e. along
// the tree shape the specification wrote down.
type hashEnv struct {
	txid  func(i int) ([32]byte, error)
	wtxid func(i int) ([32]byte, error)
	memo  map[string][32]byte
	nodes int
}

func (e *hashEnv) eval(t tla.Value) ([32]byte, error) {
	var zero [32]byte
	if t.Kind != tla.KSeq || len(t.Elems) == 0 {
		return zero, fmt.Errorf("not a hash term: %s", t)
	}
	switch t.Elems[0].Str() {
	case "Z":
		return zero, nil
	case "T":
		return e.txid(t.Elems[1].Int())
	case "W":
		return e.wtxid(t.Elems[1].Int())
	case "N":
		var out [32]byte
		for i := range out {
			out[i] = byte(t.Elems[1].Int())
		}
		return out, nil
	case "H":
		key := t.String()
		if v, ok := e.memo[key]; ok {
			return v, nil
		}
		l, err := e.eval(t.Elems[1])
		if err != nil {
			return zero, err
		}
		r, err := e.eval(t.Elems[2])
		if err != nil {
			return zero, err
		}
		var cat [64]byte
		copy(cat[:32], l[:])
		copy(cat[32:], r[:])
		v := sha256d(cat[:])
		e.memo[key] = v
		e.nodes++
		return v, nil
	}
	return zero, fmt.Errorf("unknown hash term: %s", t)
}

// txPool holds the real transactions the tree cases map their leaves to.
type txPool struct {
	txs []*wire.MsgTx // index i-1
}

func newTxPool(rng *rand.Rand, n int) *txPool {
	p := &txPool{}
	for i := 1; i <= n; i++ {
		p.txs = append(p.txs, randomTx(rng, i, i%3 != 1))
	}
	return p
}

// randomTx makes a transaction with a unique content; withWitness gives it
// witness data so that its wtxid differs from its txid.
func randomTx(rng *rand.Rand, tag int, withWitness bool) *wire.MsgTx {
	tx := wire.NewMsgTx(int32(1 + rng.Intn(2)))
	nin := 1 + rng.Intn(2)
	for k := 0; k < nin; k++ {
		var h chainhash.Hash
		rng.Read(h[:])
		in := wire.NewTxIn(wire.NewOutPoint(&h, uint32(rng.Intn(4))), randBytes(rng, rng.Intn(30)), nil)
		in.Sequence = rng.Uint32()
		if withWitness && k == 0 {
			in.Witness = wire.TxWitness{randBytes(rng, 1+rng.Intn(72)), randBytes(rng, 33)}
		}
		tx.AddTxIn(in)
	}
	nout := 1 + rng.Intn(2)
	for k := 0; k < nout; k++ {
		tx.AddTxOut(wire.NewTxOut(int64(tag)*1000+int64(rng.Intn(1000)), randBytes(rng, 1+rng.Intn(30))))
	}
	tx.LockTime = uint32(tag)
	return tx
}

func randBytes(rng *rand.Rand, n int) []byte {
	b := make([]byte, n)
	rng.Read(b)
	return b
}

func hashOf(h chainhash.Hash) [32]byte { return [32]byte(h) }

func runMerkle(c *vrun.Ctx) error {
	st := newStats()
	rng := c.Rand("merkle-txs")
	pool := newTxPool(rng, 40)
	// blob tables published by the commit groups: (ntx, v) -> terms; a group
	// state precedes its cases in the dump
	blobs := map[string]tla.Value{}
	var fe firstErr
	seed := c.Seed
	bt := &batcher{c: c, size: 4000}
	bt.work = func(i int, s tla.State) {
		cs, ex := s["case"], s["expect"]
		switch cs.F("kind").Str() {
		case "tree":
			st.add("tree")
			fe.set(checkTree(c, pool, cs.F("c"), ex))
		case "commit":
			st.add("commit")
			cc := cs.F("c")
			v := 7
			if cc.F("nonce").Len() > 0 {
				v = cc.F("nonce").At(1).F("v").Int()
			}
			tb, ok := blobs[fmt.Sprintf("%d/%d", cc.F("ntx").Int(), v)]
			if !ok {
				fe.set(fmt.Errorf("Merkle.tla: no blob table for ntx=%d v=%d", cc.F("ntx").Int(), v))
				return
			}
			fe.set(checkCommit(c, rand.New(rand.NewSource(seed*1000003+int64(i))), cc, tb, ex))
		}
	}
	err := model(c, "Merkle", 3, []string{"Group", "Pick"}, func(s tla.State) error {
		if s["case"].F("kind").Str() == "group" {
			if s["expect"].Has("blobs") {
				bt.flush() // no worker reads the table while it is written
				blobs[fmt.Sprintf("%d/%d", s["expect"].F("ntx").Int(), s["expect"].F("v").Int())] = s["expect"].F("blobs")
			}
			return nil
		}
		bt.add(s)
		return fe.err
	})
	if err != nil {
		return err
	}
	bt.flush()
	if fe.err != nil {
		return fe.err
	}
	c.Logf("Merkle cases replayed: %s", st)
	c.SetExtra("merkle_cases", st.export())
	return nil
}

func checkTree(c *vrun.Ctx, pool *txPool, cs, ex tla.Value) error {
	ids := cs.F("ids").Ints()
	w := cs.F("w").Bool()
	txs := make([]*btcutil.Tx, len(ids))
	for k, id := range ids {
		txs[k] = btcutil.NewTx(pool.txs[id-1])
	}
	env := &hashEnv{memo: map[string][32]byte{},
		txid:  func(i int) ([32]byte, error) { return hashOf(pool.txs[i-1].TxHash()), nil },
		wtxid: func(i int) ([32]byte, error) { return hashOf(pool.txs[i-1].WitnessHash()), nil }}
	want, err := env.eval(ex.F("root"))
	if err != nil {
		return err
	}
	replay := map[string]any{"case": cs.Go(), "expect_root_term": clip(ex.F("root").String(), 400), "expect_root": fmt.Sprintf("%x", want)}
	c.AddTraces(1)
	c.Distinct(fmt.Sprintf("tree/n=%d/d=%d/w=%v", cs.F("n").Int(), cs.F("d").Int(), w))
	if len(ids) <= 3 {
		c.Sample(map[string]any{"kind": "tree", "ids": ids, "witness": w, "root_term": ex.F("root").String(), "root": fmt.Sprintf("%x", want)})
	}

	// path 2: CalcMerkleRoot
	var got chainhash.Hash
	if p := guard(func() { got = blockchain.CalcMerkleRoot(txs, w) }); p != nil {
		key := "merkle:calc-root-panics"
		if len(ids) == 0 {
			key = "merkle:empty-list-panics" // the root of no leaves is the zero hash
		}
		c.Violation(key, fmt.Sprintf("CalcMerkleRoot panics on %d leaves: %v", len(ids), p), replay)
	} else if hashOf(got) != want {
		c.Violation("merkle:calc-root", fmt.Sprintf("CalcMerkleRoot(ids=%v, witness=%v) = %x, the definition gives %x", ids, w, hashOf(got), want), replay)
	}
	c.AddEval(1)

	// path 1: BuildMerkleTreeStore, every slot
	var store []*chainhash.Hash
	if p := guard(func() { store = blockchain.BuildMerkleTreeStore(txs, w) }); p != nil {
		key := "merkle:store-panics"
		if len(ids) == 0 {
			key = "merkle:empty-list-panics" // the store of no leaves is the zero root alone
		}
		c.Violation(key, fmt.Sprintf("BuildMerkleTreeStore panics on %d leaves: %v", len(ids), p), replay)
	} else {
		exs := ex.F("store").Seq()
		if len(store) != len(exs) {
			c.Violation("merkle:store-size", fmt.Sprintf("BuildMerkleTreeStore(ids=%v) has %d slots, the definition %d", ids, len(store), len(exs)), replay)
		} else {
			for k, t := range exs {
				c.AddEval(1)
				if t.Elems[0].Str() == "nil" {
					if store[k] != nil {
						c.Violation("merkle:store-slot", fmt.Sprintf("BuildMerkleTreeStore(ids=%v, witness=%v) slot %d holds %x, the definition leaves it empty", ids, w, k, store[k][:]), replay)
					}
					continue
				}
				wv, err := env.eval(t)
				if err != nil {
					return err
				}
				if store[k] == nil || hashOf(*store[k]) != wv {
					c.Violation("merkle:store-slot", fmt.Sprintf("BuildMerkleTreeStore(ids=%v, witness=%v) slot %d differs from the definition's %x", ids, w, k, wv), replay)
				}
			}
		}
	}
	if len(ids) == 0 {
		return nil
	}

	// path 3: the rolling store itself: peaks after adding the leaves, then
	// its own root computation (with size hints that differ from the count)
	leaves := ex.F("store").Seq()[:len(ids)]
	for _, hint := range []uint64{0, uint64(len(ids)), uint64(len(ids)) + 5} {
		rs := blockchain.NewVerifRollingMerkle(hint)
		if p := guard(func() {
			for _, lt := range leaves {
				lv, err := env.eval(lt)
				if err != nil {
					panic(err)
				}
				rs.Add(chainhash.Hash(lv))
			}
		}); p != nil {
			c.Violation("merkle:rolling-add-panics", fmt.Sprintf("rolling store add panics on %d leaves: %v", len(ids), p), replay)
			continue
		}
		peaks := ex.F("peaks").Seq()
		roots := rs.Roots()
		c.AddEval(1)
		bad := len(roots) != len(peaks) || rs.NumLeaves() != uint64(len(ids))
		for k := 0; !bad && k < len(peaks); k++ {
			pv, err := env.eval(peaks[k])
			if err != nil {
				return err
			}
			bad = hashOf(roots[k]) != pv
		}
		if bad {
			c.Violation("merkle:rolling-peaks", fmt.Sprintf("rolling store after adding %d leaves (witness=%v) holds %d roots / %d leaves that differ from the definition's %d peaks", len(ids), w, len(roots), rs.NumLeaves(), len(peaks)), replay)
		}
		rs2 := blockchain.NewVerifRollingMerkle(hint)
		var r2 chainhash.Hash
		if p := guard(func() { r2 = rs2.CalcMerkleRoot(txs, w) }); p != nil {
			c.Violation("merkle:rolling-root-panics", fmt.Sprintf("rolling store calcMerkleRoot panics on %d leaves: %v", len(ids), p), replay)
		} else if hashOf(r2) != want {
			c.Violation("merkle:rolling-root", fmt.Sprintf("rolling store calcMerkleRoot(ids=%v, witness=%v, hint=%d) = %x, the definition gives %x", ids, w, hint, hashOf(r2), want), replay)
		}
		c.AddEval(1)
	}
	return nil
}

// atomsToBytes concretises a script of byte atoms: 0..255 a byte, 256*k+j
// byte j of blob k.
func atomsToBytes(atoms []tla.Value, blob func(k int) ([32]byte, error)) ([]byte, error) {
	out := make([]byte, len(atoms))
	for i, a := range atoms {
		v := a.Int()
		if v < 256 {
			out[i] = byte(v)
			continue
		}
		k, j := v/256, v%256
		if j >= 32 {
			return nil, fmt.Errorf("bad atom %d", v)
		}
		b, err := blob(k)
		if err != nil {
			return nil, err
		}
		out[i] = b[j]
	}
	return out, nil
}

func ruleCode(err error) (blockchain.ErrorCode, bool) {
	var re blockchain.RuleError
	if errors.As(err, &re) {
		return re.ErrorCode, true
	}
	return 0, false
}

func checkCommit(c *vrun.Ctx, rng *rand.Rand, cs, blobTerms, ex tla.Value) error {
	ntx := cs.F("ntx").Int()
	wit := map[int]bool{}
	for _, w := range cs.F("wit").Set() {
		wit[w.Int()] = true
	}
	// the other transactions first: the commitment depends on their wtxids only
	msgs := make([]*wire.MsgTx, ntx+1)
	for i := 2; i <= ntx; i++ {
		msgs[i] = randomTx(rng, i, wit[i])
	}
	env := &hashEnv{memo: map[string][32]byte{},
		txid: func(i int) ([32]byte, error) {
			return [32]byte{}, fmt.Errorf("commitment term refers to txid %d", i)
		},
		wtxid: func(i int) ([32]byte, error) {
			if i < 2 || i > ntx {
				return [32]byte{}, fmt.Errorf("commitment term refers to wtxid %d of %d", i, ntx)
			}
			return hashOf(msgs[i].WitnessHash()), nil
		}}
	blob := func(k int) ([32]byte, error) {
		if k < 1 || k > blobTerms.Len() {
			return [32]byte{}, fmt.Errorf("no blob %d", k)
		}
		return env.eval(blobTerms.At(k))
	}
	cb := wire.NewMsgTx(1)
	op := wire.NewOutPoint(&chainhash.Hash{}, wire.MaxPrevOutIndex)
	if !cs.F("coinbase").Bool() {
		var h chainhash.Hash
		rng.Read(h[:])
		op = wire.NewOutPoint(&h, 0)
	}
	in := wire.NewTxIn(op, []byte{0x51, 0x51}, nil)
	for _, it := range cs.F("nonce").Seq() {
		in.Witness = append(in.Witness, bytes.Repeat([]byte{byte(it.F("v").Int())}, it.F("len").Int()))
	}
	cb.AddTxIn(in)
	for _, o := range cs.F("outs").Seq() {
		atoms := o.Seq()
		for p := 0; p < len(atoms) && p < 6; p++ {
			if atoms[p].Int() >= 256 {
				return fmt.Errorf("Merkle.tla: symbolic byte inside the magic prefix of layout %s", cs.F("layout"))
			}
		}
		script, err := atomsToBytes(atoms, blob)
		if err != nil {
			return err
		}
		cb.AddTxOut(wire.NewTxOut(0, script))
	}
	msgs[1] = cb
	blk := &wire.MsgBlock{Header: wire.BlockHeader{Version: 0x20000000}}
	for i := 1; i <= ntx; i++ {
		blk.AddTransaction(msgs[i])
	}
	ublk := btcutil.NewBlock(blk)
	replay := map[string]any{"case": map[string]any{"ntx": ntx, "wit": cs.F("wit").Go(), "coinbase": cs.F("coinbase").Bool(),
		"layout": cs.F("layout").Go(), "nonce": cs.F("nonce").Go()}, "expect": ex.Go()}
	var raw bytes.Buffer
	if err := blk.Serialize(&raw); err == nil {
		replay["block_hex"] = fmt.Sprintf("%x", raw.Bytes())
	}
	c.AddTraces(1)
	c.Distinct(fmt.Sprintf("commit/%s/nonce=%s/found=%v/%s", cs.F("layout"), cs.F("nonce"), ex.F("found").Bool(), ex.F("verdict").Str()))

	// extraction
	gotC, gotF := blockchain.ExtractWitnessCommitment(ublk.Transactions()[0])
	c.AddEval(1)
	wantF := ex.F("found").Bool()
	if gotF != wantF {
		c.Violation("commit:found", fmt.Sprintf("ExtractWitnessCommitment(layout %s, coinbase=%v) found=%v, the definition says %v", cs.F("layout"), cs.F("coinbase").Bool(), gotF, wantF), replay)
	} else if wantF {
		wantC, err := atomsToBytes(ex.F("commit").Seq(), blob)
		if err != nil {
			return err
		}
		if !bytes.Equal(gotC, wantC) {
			c.Violation("commit:bytes", fmt.Sprintf("ExtractWitnessCommitment(layout %s) = %x, the definition gives %x (the LAST matching output)", cs.F("layout"), gotC, wantC), replay)
		}
	}

	// validation
	var verr error
	if p := guard(func() { verr = blockchain.ValidateWitnessCommitment(ublk) }); p != nil {
		c.Violation("commit:validate-panics", fmt.Sprintf("ValidateWitnessCommitment panics: %v", p), replay)
		return nil
	}
	c.AddEval(1)
	got := "ok"
	if verr != nil {
		code, ok := ruleCode(verr)
		switch {
		case !ok:
			got = "internal-error"
		case code == blockchain.ErrUnexpectedWitness:
			got = "unexpected-witness"
		case code == blockchain.ErrInvalidWitnessCommitment:
			got = "bad-nonce"
		case code == blockchain.ErrWitnessCommitmentMismatch:
			got = "mismatch"
		default:
			got = "other-rule:" + code.String()
		}
	}
	if want := ex.F("verdict").Str(); got != want {
		c.Violation("commit:verdict:"+want+"->"+got, fmt.Sprintf("ValidateWitnessCommitment(ntx=%d, witness txs=%s, layout %s, nonce %s) = %s, the definition says %s", ntx, cs.F("wit"), cs.F("layout"), cs.F("nonce"), got, want), replay)
	}
	if len(cs.F("layout").Seq()) == 2 && wantF {
		c.Sample(map[string]any{"kind": "commit", "layout": cs.F("layout").Go(), "nonce": cs.F("nonce").Go(), "ntx": ntx, "verdict": ex.F("verdict").Str()})
	}
	return nil
}
