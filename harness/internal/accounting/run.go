package accounting

import (
	"os"
	"strings"

	"verif/harness/internal/vrun"
)

// Run is the C13 check: the five specifications of spec/accounting are model
// checked and replayed side by side.
func Run(c *vrun.Ctx) error {
	c.Ev.Coverage.Rule = "TLC enumerates the cases of Merkle.tla (leaf lists with duplicated tails, txid and wtxid form; coinbase output layouts x witness nonce shapes x blocks), " +
		"Weight.tla (transaction and block shapes at the compact-size boundaries), SigOps.tla (every byte string up to the tier's length over the bytes that matter, token sequences, " +
		"P2SH and witness spends, transactions against an output view), Locks.tla (lock-time table, coinbase height scripts) and every block-time history of Bip68.tla up to the tier's depth, including forks (a side branch with its own timestamps, one block longer than the main branch, validated while the main branch is the best chain); " +
		"each state carries the definition's answer and is replayed into the exported btcd functions (the merkle root is recomputed with SHA-256 along the specification's tree term). " +
		"distinct_nontrivial counts distinct inputs (tree shape, layout/nonce/verdict, shape, script prefix class, input kinds and flags, table row, history class)."
	c.Assume("TLC evaluates the specification's operators correctly; the three merkle constructions, the decode/encode pair of the coinbase height and the lock laws are cross-checked inside TLC as invariants")
	c.Assume("SHA-256 is injective on the inputs used (the abstract hash is a free term algebra); witness-commitment layouts never place a hash byte where the magic prefix is looked for")
	c.Assume("CalcSequenceLock with mempool=false is asked about the tip block itself as far as the deployment state goes (that is what the exported call evaluates); the consensus path is covered through CheckConnectBlockTemplate on the next block")
	c.Assume("UTXO views for sigop and sequence-lock queries are built from NewUtxoEntry with the enumerated heights; the block-level BIP68 rows spend real coinbase outputs of the replayed chain")
	all := []struct {
		name string
		f    func(*vrun.Ctx) error
	}{{"merkle", runMerkle}, {"weight", runWeight}, {"sigops", runSigOps}, {"locks", runLocks}, {"bip68", runBip68}}
	var subs []func(*vrun.Ctx) error
	// development aid: VERIF_C13_PARTS=merkle,locks runs only those parts (the
	// evidence then says so and does not claim the whole property)
	parts := os.Getenv("VERIF_C13_PARTS")
	for _, p := range all {
		if parts == "" || strings.Contains(","+parts+",", ","+p.name+",") {
			subs = append(subs, p.f)
		}
	}
	if parts != "" {
		c.Assume("PARTIAL RUN (VERIF_C13_PARTS=" + parts + "): only the named specifications were checked")
	}
	errs := make(chan error, len(subs))
	for _, f := range subs {
		go func(f func(*vrun.Ctx) error) { errs <- f(c) }(f)
	}
	var first error
	for range subs {
		if err := <-errs; err != nil && first == nil {
			first = err
		}
	}
	if first != nil {
		return first
	}
	c.Ev.Coverage.Exhaustive = parts == ""
	c.Ev.Coverage.Explanation = "exhaustive means: TLC enumerated the complete state space of the five specifications for the tier's constants and every one of those states was replayed into the btcd code. " +
		"It does not mean all transactions, scripts or histories: the bounds are the case sets written in the specifications."
	return nil
}
