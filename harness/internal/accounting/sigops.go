package accounting

import (
	"fmt"

	"github.com/btcsuite/btcd/blockchain"
	"github.com/btcsuite/btcd/btcutil/v2"
	"github.com/btcsuite/btcd/chainhash/v2"
	"github.com/btcsuite/btcd/txscript/v2"
	"github.com/btcsuite/btcd/wire/v2"

	"verif/harness/internal/tla"
	"verif/harness/internal/vrun"
)

func witnessOf(v tla.Value) wire.TxWitness {
	var w wire.TxWitness
	for _, it := range v.Seq() {
		w = append(w, bytesOf(it))
	}
	return w
}

// scriptClass names the shape of a counted script for the distinct-case count.
func scriptClass(s []byte) string {
	n := len(s)
	if n > 6 {
		n = 6
	}
	return fmt.Sprintf("len%d/%x", len(s), s[:n])
}

func runSigOps(c *vrun.Ctx) error {
	st := newStats()
	// the tx cases name their inputs; the table of named inputs is a case of
	// its own, so tx cases wait until it has been read
	var inKinds tla.Value
	var waiting []tla.State
	bt := &batcher{c: c, size: 8000}
	bt.work = func(i int, s tla.State) {
		cs, ex := s["case"], s["expect"]
		switch cs.F("kind").Str() {
		case "count":
			st.add("count")
			checkCount(c, bytesOf(cs.F("s")), ex)
		case "p2sh":
			st.add("p2sh")
			cc := cs.F("c")
			sig, pk := bytesOf(cc.F("sig")), bytesOf(cc.F("pk"))
			replay := map[string]any{"sigScript": fmt.Sprintf("%x", sig), "pkScript": fmt.Sprintf("%x", pk), "expect": ex.Go()}
			c.AddTraces(1)
			c.AddEval(1)
			c.Distinct(fmt.Sprintf("p2sh/%x/%x", pk[:min(len(pk), 3)], sig[:min(len(sig), 8)]))
			var got int
			if p := guard(func() { got = txscript.GetPreciseSigOpCount(sig, pk, true) }); p != nil {
				c.Violation("sigops:precise-panics", fmt.Sprintf("GetPreciseSigOpCount panics: %v", p), replay)
				return
			}
			if want := ex.F("n").Int(); got != want {
				c.Violation("sigops:p2sh", fmt.Sprintf("GetPreciseSigOpCount(sigScript=%x, pkScript=%x) = %d, the definition gives %d", sig, pk, got, want), replay)
			}
		case "witness":
			st.add("witness")
			cc := cs.F("c")
			sig, pk, wit := bytesOf(cc.F("sig")), bytesOf(cc.F("pk")), witnessOf(cc.F("wit"))
			replay := map[string]any{"sigScript": fmt.Sprintf("%x", sig), "pkScript": fmt.Sprintf("%x", pk), "witness": fmt.Sprintf("%x", [][]byte(wit)), "expect": ex.Go()}
			c.AddTraces(1)
			c.AddEval(1)
			c.Distinct(fmt.Sprintf("witness/%x/%x/%d", pk[:min(len(pk), 3)], sig[:min(len(sig), 4)], len(wit)))
			var got int
			if p := guard(func() { got = txscript.GetWitnessSigOpCount(sig, pk, wit) }); p != nil {
				c.Violation("sigops:witness-panics", fmt.Sprintf("GetWitnessSigOpCount panics: %v", p), replay)
				return
			}
			if want := ex.F("n").Int(); got != want {
				c.Violation("sigops:witness", fmt.Sprintf("GetWitnessSigOpCount(sigScript=%x, pkScript=%x, witness=%x) = %d, the definition gives %d", sig, pk, [][]byte(wit), got, want), replay)
			}
		case "tx":
			st.add("tx")
			checkSigOpTx(c, cs.F("t"), inKinds, ex)
		}
	}
	err := model(c, "SigOps", 3, []string{"Group", "Pick"}, func(s tla.State) error {
		switch s["case"].F("kind").Str() {
		case "inkinds":
			bt.flush()
			inKinds = s["expect"]
			for _, w := range waiting {
				bt.add(w)
			}
			waiting = nil
		case "tx":
			if inKinds.Kind != tla.KRec {
				waiting = append(waiting, s)
				return nil
			}
			bt.add(s)
		default:
			bt.add(s)
		}
		return nil
	})
	if err != nil {
		return err
	}
	if inKinds.Kind != tla.KRec {
		return fmt.Errorf("SigOps.tla: no table of input kinds in the dump")
	}
	bt.flush()
	c.Logf("SigOps cases replayed: %s", st)
	c.SetExtra("sigops_cases", st.export())
	return nil
}

func checkCount(c *vrun.Ctx, s []byte, ex tla.Value) {
	replay := map[string]any{"script": fmt.Sprintf("%x", s), "expect": ex.Go()}
	c.AddTraces(1)
	c.Distinct("count/" + scriptClass(s))
	var quick, precise int
	var pushOnly, parses bool
	if p := guard(func() {
		quick = txscript.GetSigOpCount(s)
		precise = txscript.GetPreciseSigOpCount(nil, s, true)
		pushOnly = txscript.IsPushOnlyScript(s)
		tk := txscript.MakeScriptTokenizer(0, s)
		for tk.Next() {
		}
		parses = tk.Err() == nil
	}); p != nil {
		c.Violation("sigops:count-panics", fmt.Sprintf("sigop counting panics on script %x: %v", s, p), replay)
		return
	}
	c.AddEval(4)
	if want := ex.F("quick").Int(); quick != want {
		c.Violation("sigops:quick", fmt.Sprintf("GetSigOpCount(%x) = %d, the definition gives %d", s, quick, want), replay)
	}
	// a script of the P2SH form is counted through the signature script by
	// GetPreciseSigOpCount: with an empty signature script that is 0, and the
	// form itself holds no counted opcode
	if want := ex.F("precise").Int(); precise != want {
		c.Violation("sigops:precise", fmt.Sprintf("GetPreciseSigOpCount(nil, %x) = %d, the definition gives %d", s, precise, want), replay)
	}
	if want := ex.F("pushOnly").Bool(); pushOnly != want {
		c.Violation("sigops:push-only", fmt.Sprintf("IsPushOnlyScript(%x) = %v, the definition says %v", s, pushOnly, want), replay)
	}
	if want := ex.F("parses").Bool(); parses != want {
		c.Violation("sigops:parses", fmt.Sprintf("script %x parses = %v, the definition says %v", s, parses, want), replay)
	}
}

func checkSigOpTx(c *vrun.Ctx, t, inKinds, ex tla.Value) {
	tx := wire.NewMsgTx(2)
	view := blockchain.NewUtxoViewpoint()
	names := t.F("names").Strs()
	for k, name := range names {
		in := inKinds.F(name)
		h := chainhash.Hash{0xaa, byte(k + 1)}
		op := wire.NewOutPoint(&h, uint32(k))
		if in.F("avail").Str() == "null" {
			op = wire.NewOutPoint(&chainhash.Hash{}, wire.MaxPrevOutIndex)
		}
		ti := wire.NewTxIn(op, bytesOf(in.F("sig")), witnessOf(in.F("wit")))
		tx.AddTxIn(ti)
		switch in.F("avail").Str() {
		case "unspent":
			view.Entries()[*op] = blockchain.NewUtxoEntry(wire.NewTxOut(1000, bytesOf(in.F("pk"))), 10, false)
		case "spent":
			e := blockchain.NewUtxoEntry(wire.NewTxOut(1000, bytesOf(in.F("pk"))), 10, false)
			e.Spend()
			view.Entries()[*op] = e
		}
	}
	for _, o := range t.F("outs").Seq() {
		tx.AddTxOut(wire.NewTxOut(1, bytesOf(o)))
	}
	utx := btcutil.NewTx(tx)
	cb, bip16, segwit := t.F("coinbase").Bool(), t.F("bip16").Bool(), t.F("segwit").Bool()
	replay := map[string]any{"case": t.Go(), "expect": ex.Go()}
	c.AddTraces(1)
	c.Distinct(fmt.Sprintf("tx/%v/%d/cb=%v/bip16=%v/segwit=%v", names, t.F("outs").Len(), cb, bip16, segwit))

	c.AddEval(3)
	var legacy int
	if p := guard(func() { legacy = blockchain.CountSigOps(utx) }); p != nil {
		c.Violation("sigops:tx-panics", fmt.Sprintf("CountSigOps panics: %v", p), replay)
		return
	}
	if want := ex.F("legacy").Int(); legacy != want {
		c.Violation("sigops:legacy", fmt.Sprintf("CountSigOps(inputs %v) = %d, the definition gives %d", names, legacy, want), replay)
	}

	var p2sh int
	var perr error
	if p := guard(func() { p2sh, perr = blockchain.CountP2SHSigOps(utx, cb, view) }); p != nil {
		c.Violation("sigops:tx-panics", fmt.Sprintf("CountP2SHSigOps panics: %v", p), replay)
		return
	}
	if wantErr := ex.F("p2shErr").Bool(); (perr != nil) != wantErr {
		c.Violation("sigops:p2sh-error", fmt.Sprintf("CountP2SHSigOps(inputs %v, coinbase=%v) error=%v, the definition says error=%v", names, cb, perr, wantErr), replay)
	} else if !wantErr {
		if want := ex.F("p2sh").Int(); p2sh != want {
			c.Violation("sigops:p2sh-tx", fmt.Sprintf("CountP2SHSigOps(inputs %v, coinbase=%v) = %d, the definition gives %d", names, cb, p2sh, want), replay)
		}
	} else if code, ok := ruleCode(perr); !ok || code != blockchain.ErrMissingTxOut {
		c.Violation("sigops:p2sh-error-class", fmt.Sprintf("CountP2SHSigOps(inputs %v) fails with %v, expected the missing-output rule error", names, perr), replay)
	}

	var cost int
	var cerr error
	if p := guard(func() { cost, cerr = blockchain.GetSigOpCost(utx, cb, view, bip16, segwit) }); p != nil {
		c.Violation("sigops:tx-panics", fmt.Sprintf("GetSigOpCost panics: %v", p), replay)
		return
	}
	wantErr := ex.F("err").Bool()
	switch {
	case wantErr && cerr == nil:
		key := "sigops:cost-missing-input-no-error"
		if bip16 {
			// the P2SH pass is the one that meets the missing output first
			key = "sigops:cost-missing-input-error-swallowed"
		}
		c.Violation(key, fmt.Sprintf("GetSigOpCost(inputs %v, coinbase=%v, bip16=%v, segwit=%v) = (%d, nil) although a spent output is not available; the cost is undefined there and an error is the only correct answer", names, cb, bip16, segwit, cost), replay)
	case wantErr:
		if code, ok := ruleCode(cerr); !ok || code != blockchain.ErrMissingTxOut {
			c.Violation("sigops:cost-error-class", fmt.Sprintf("GetSigOpCost(inputs %v) fails with %v, expected the missing-output rule error", names, cerr), replay)
		}
	case !wantErr && cerr != nil:
		c.Violation("sigops:cost-error", fmt.Sprintf("GetSigOpCost(inputs %v, coinbase=%v, bip16=%v, segwit=%v) fails with %v, the definition gives %d", names, cb, bip16, segwit, cerr, ex.F("cost").Int()), replay)
	case !wantErr:
		if want := ex.F("cost").Int(); cost != want {
			c.Violation("sigops:cost", fmt.Sprintf("GetSigOpCost(inputs %v, %d outputs, coinbase=%v, bip16=%v, segwit=%v) = %d, the definition gives 4*(legacy %d + P2SH %d) + witness = %d",
				names, t.F("outs").Len(), cb, bip16, segwit, cost, ex.F("legacy").Int(), ex.F("p2sh").Int(), want), replay)
		}
	}
	if len(names) == 2 && bip16 && segwit && !cb && !wantErr && ex.F("cost").Int() > 40 {
		c.Sample(map[string]any{"kind": "sigopcost", "inputs": names, "outs": t.F("outs").Len(), "cost": ex.F("cost").Int()})
	}
}
