// Package accounting binds spec/accounting/*.tla (property C13) to the real
// consensus accounting primitives of btcd: TLC enumerates the cases of each
// "case machine" (and the block histories of Bip68.tla), every state carries
// the answer the definitions give, and the binder feeds the case to the
// exported functions and compares.
package accounting

import (
	"bufio"
	"crypto/sha256"
	"fmt"
	"io"
	"os"
	"path/filepath"
	"sort"
	"strings"
	"sync"
	"time"

	"verif/harness/internal/tla"
	"verif/harness/internal/tlc"
	"verif/harness/internal/vrun"
)

// dotStates streams the node labels of a "-dump dot" file (the harness graph
// reader keeps the whole graph in memory and these dumps only need states).
func dotStates(path string, fn func(st tla.State, init bool) error) (int, error) {
	f, err := os.Open(path)
	if err != nil {
		return 0, err
	}
	defer f.Close()
	br := bufio.NewReaderSize(f, 1<<20)
	n := 0
	for {
		line, rerr := br.ReadString('\n')
		if len(line) > 0 {
			st, init, ok, perr := parseDotNode(strings.TrimRight(line, "\n"))
			if perr != nil {
				return n, perr
			}
			if ok {
				n++
				if err := fn(st, init); err != nil {
					return n, err
				}
			}
		}
		if rerr == io.EOF {
			break
		}
		if rerr != nil {
			return n, rerr
		}
	}
	return n, nil
}

func parseDotNode(line string) (tla.State, bool, bool, error) {
	if len(line) == 0 || !(line[0] == '-' || (line[0] >= '0' && line[0] <= '9')) {
		return nil, false, false, nil
	}
	sp := strings.IndexByte(line, ' ')
	if sp < 0 {
		return nil, false, false, nil
	}
	rest := line[sp+1:]
	if !strings.HasPrefix(rest, `[label="`) {
		return nil, false, false, nil
	}
	body := rest[8:]
	var sb strings.Builder
	sb.Grow(len(body))
	end := -1
	for i := 0; i < len(body); i++ {
		c := body[i]
		if c == '\\' && i+1 < len(body) {
			i++
			switch body[i] {
			case 'n':
				sb.WriteByte('\n')
			case '"':
				sb.WriteByte('"')
			case '\\':
				sb.WriteByte('\\')
			default:
				sb.WriteByte('\\')
				sb.WriteByte(body[i])
			}
			continue
		}
		if c == '"' {
			end = i
			break
		}
		sb.WriteByte(c)
	}
	if end < 0 {
		return nil, false, false, fmt.Errorf("dot: unterminated label")
	}
	st, err := tla.ParseState(sb.String())
	if err != nil {
		return nil, false, false, err
	}
	return st, strings.HasPrefix(body[end+1:], ",style = filled"), true, nil
}

// model runs TLC on one module of spec/accounting with a state dump and
// streams the states (in the order TLC found them: a state comes after the
// state it was generated from) to fn. actions lists the actions that must have
// been taken (checked in the thorough tier, where coverage is collected).
func model(c *vrun.Ctx, module string, workers int, actions []string, fn func(st tla.State) error) error {
	cfg := module + "_quick.cfg"
	if c.Thorough {
		cfg = module + "_thorough.cfg"
		workers += 2
	}
	dump := filepath.Join(c.Scratch, module+"-graph")
	res, err := tlc.Run(tlc.Opts{SpecDir: c.SpecDir("accounting"), Module: module, Config: cfg, Workers: workers,
		Timeout: 25 * time.Minute, Coverage: c.Thorough, Scratch: c.Scratch, HeapGB: 4,
		Extra: []string{"-dump", "dot,actionlabels", dump}})
	if err != nil {
		return err
	}
	if !res.OK {
		return fmt.Errorf("%s.tla: TLC reports %s %s on the specification itself (not a verdict about btcd)", module, res.ErrKind, res.ErrName)
	}
	c.Logf("%s.tla: %d distinct states, %d generated, %.1fs", module, res.Distinct, res.Generated, res.WallS)
	c.AddModel(res.Distinct, res.Generated)
	c.SetExtra("tlc_"+strings.ToLower(module), map[string]any{"distinct": res.Distinct, "generated": res.Generated, "wall_s": res.WallS})
	if c.Thorough {
		for _, a := range actions {
			if res.ActionCount[a] == 0 {
				return fmt.Errorf("%s.tla: action %s never taken (coverage %v)", module, a, res.ActionCount)
			}
		}
	}
	defer os.Remove(dump + ".dot")
	n, err := dotStates(dump+".dot", func(st tla.State, init bool) error { return fn(st) })
	if err != nil {
		return fmt.Errorf("%s.tla dump: %w", module, err)
	}
	if int64(n) != res.Distinct {
		return fmt.Errorf("%s.tla: dump has %d states, TLC reported %d", module, n, res.Distinct)
	}
	return nil
}

// batcher hands the streamed states to a worker pool in slices, so that a
// large dump is never held in memory as a whole.
type batcher struct {
	c     *vrun.Ctx
	size  int
	items []tla.State
	work  func(i int, st tla.State)
	n     int
}

func (b *batcher) add(st tla.State) {
	b.items = append(b.items, st)
	if len(b.items) >= b.size {
		b.flush()
	}
}

func (b *batcher) flush() {
	items, base := b.items, b.n
	b.c.Parallel(len(items), func(i int) { b.work(base+i, items[i]) })
	b.n += len(items)
	b.items = nil
}

// stats counts cases per kind.
type stats struct {
	mu sync.Mutex
	m  map[string]int
}

func newStats() *stats { return &stats{m: map[string]int{}} }

func (s *stats) add(k string) {
	s.mu.Lock()
	s.m[k]++
	s.mu.Unlock()
}

func (s *stats) String() string {
	s.mu.Lock()
	defer s.mu.Unlock()
	ks := make([]string, 0, len(s.m))
	for k := range s.m {
		ks = append(ks, k)
	}
	sort.Strings(ks)
	var sb strings.Builder
	for i, k := range ks {
		if i > 0 {
			sb.WriteString(" ")
		}
		fmt.Fprintf(&sb, "%s=%d", k, s.m[k])
	}
	return sb.String()
}

func (s *stats) export() map[string]int {
	s.mu.Lock()
	defer s.mu.Unlock()
	out := map[string]int{}
	for k, v := range s.m {
		out[k] = v
	}
	return out
}

// firstErr keeps the first infrastructure error of parallel workers.
type firstErr struct {
	mu  sync.Mutex
	err error
}

func (f *firstErr) set(err error) {
	if err == nil {
		return
	}
	f.mu.Lock()
	if f.err == nil {
		f.err = err
	}
	f.mu.Unlock()
}

// guard turns a panic of the code under test into a value.
func guard(f func()) (p any) {
	defer func() { p = recover() }()
	f()
	return nil
}

func bytesOf(v tla.Value) []byte {
	out := make([]byte, len(v.Elems))
	for i, e := range v.Elems {
		if e.I < 0 || e.I > 255 {
			panic(fmt.Sprintf("not a byte: %d in %s", e.I, v))
		}
		out[i] = byte(e.I)
	}
	return out
}

func sha256d(b []byte) [32]byte {
	a := sha256.Sum256(b)
	return sha256.Sum256(a[:])
}

// word converts [hi, lo] to the number hi*65536+lo.
func word(v tla.Value) int64 { return v.F("hi").I*65536 + v.F("lo").I }

func clip(s string, n int) string {
	if len(s) > n {
		return s[:n] + "..."
	}
	return s
}
