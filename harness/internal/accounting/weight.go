package accounting

import (
	"fmt"

	"github.com/btcsuite/btcd/blockchain"
	"github.com/btcsuite/btcd/btcutil/v2"
	"github.com/btcsuite/btcd/chainhash/v2"
	"github.com/btcsuite/btcd/wire/v2"

	"verif/harness/internal/tla"
	"verif/harness/internal/vrun"
)

// shapeTx builds a real transaction with the counts and lengths of a shape
// (run-length encoded lists of [x, count]).
func shapeTx(shape tla.Value, fill byte) *wire.MsgTx {
	tx := wire.NewMsgTx(2)
	n := uint32(0)
	for _, run := range shape.F("ins").Seq() {
		in := run.F("x")
		for k := 0; k < run.F("count").Int(); k++ {
			h := chainhash.Hash{fill, byte(n), byte(n >> 8)}
			ti := wire.NewTxIn(wire.NewOutPoint(&h, n), make([]byte, in.F("ss").Int()), nil)
			for _, wr := range in.F("wit").Seq() {
				for j := 0; j < wr.F("count").Int(); j++ {
					ti.Witness = append(ti.Witness, make([]byte, wr.F("x").Int()))
				}
			}
			tx.AddTxIn(ti)
			n++
		}
	}
	for _, run := range shape.F("outs").Seq() {
		for k := 0; k < run.F("count").Int(); k++ {
			tx.AddTxOut(wire.NewTxOut(int64(k), make([]byte, run.F("x").Int())))
		}
	}
	return tx
}

func runWeight(c *vrun.Ctx) error {
	st := newStats()
	bt := &batcher{c: c, size: 4000}
	bt.work = func(i int, s tla.State) {
		cs, ex := s["case"], s["expect"]
		switch cs.F("kind").Str() {
		case "tx":
			st.add("tx")
			shape := cs.F("t")
			msg := shapeTx(shape, 1)
			replay := map[string]any{"shape": shape.Go(), "expect": ex.Go()}
			c.AddTraces(1)
			c.AddEval(1)
			c.Distinct("txweight/" + shape.String())
			var got int64
			if p := guard(func() { got = blockchain.GetTransactionWeight(btcutil.NewTx(msg)) }); p != nil {
				c.Violation("weight:tx-panics", fmt.Sprintf("GetTransactionWeight panics: %v", p), replay)
				return
			}
			if want := ex.F("weight").I; got != want {
				c.Violation("weight:tx", fmt.Sprintf("GetTransactionWeight(%s) = %d, the definition gives 3*%d + %d = %d (serialised sizes of the real transaction: stripped %d, total %d)",
					clip(shape.String(), 300), got, ex.F("stripped").I, ex.F("total").I, want, msg.SerializeSizeStripped(), msg.SerializeSize()), replay)
			}
			if ex.F("witness").Bool() && i%997 == 0 {
				c.Sample(map[string]any{"kind": "txweight", "shape": shape.Go(), "weight": ex.F("weight").I})
			}
		case "block":
			st.add("block")
			runs := cs.F("r")
			blk := &wire.MsgBlock{Header: wire.BlockHeader{Version: 0x20000000}}
			for ri, run := range runs.Seq() {
				msg := shapeTx(run.F("x"), byte(2+ri))
				for k := 0; k < run.F("count").Int(); k++ {
					blk.AddTransaction(msg)
				}
			}
			replay := map[string]any{"runs": runs.Go(), "expect": ex.Go()}
			c.AddTraces(1)
			c.AddEval(1)
			c.Distinct("blockweight/" + runs.String())
			var got int64
			if p := guard(func() { got = blockchain.GetBlockWeight(btcutil.NewBlock(blk)) }); p != nil {
				c.Violation("weight:block-panics", fmt.Sprintf("GetBlockWeight panics: %v", p), replay)
				return
			}
			if want := ex.F("weight").I; got != want {
				c.Violation("weight:block", fmt.Sprintf("GetBlockWeight(%d transactions) = %d, the definition gives 3*%d + %d = %d (serialised sizes of the real block: stripped %d, total %d)",
					ex.F("ntx").I, got, ex.F("stripped").I, ex.F("total").I, want, blk.SerializeSizeStripped(), blk.SerializeSize()), replay)
			}
		}
	}
	if err := model(c, "Weight", 2, []string{"Group", "Pick"}, func(s tla.State) error { bt.add(s); return nil }); err != nil {
		return err
	}
	bt.flush()
	c.Logf("Weight cases replayed: %s", st)
	c.SetExtra("weight_cases", st.export())
	return nil
}
