package addr

import (
	"crypto/sha256"
	"encoding/hex"
	"math/big"
	"strings"
)

// The abstraction functions: from a concrete string to the attributes the
// specification's decision tables are written over.  They use their own
// arithmetic (BIP173 reference polymod, math/big base-58, crypto/sha256, plain
// big-integer curve equation), not the packages under test.

// bechAbs mirrors the record BechStr of AddrCases.tla.
type bechAbs struct {
	Hrp     string `json:"hrp"`
	Defect  string `json:"defect"`
	Case    string `json:"case"`
	Ck      string `json:"ck"`
	Ver     int    `json:"ver"`
	Ng      int    `json:"ng"`
	PadZero bool   `json:"padzero"`
	Anchor  bool   `json:"anchor"`
}

// b58Abs mirrors B58Str.
type b58Abs struct {
	V         int    `json:"v"`
	Plen      int    `json:"plen"`
	Ck        string `json:"ck"`
	Defect    string `json:"defect"`
	SegPrefix bool   `json:"segprefix"`
}

// pkHexAbs mirrors the abstract hex public key.
type pkHexAbs struct {
	NChars  int  `json:"nchars"`
	HexOK   bool `json:"hexok"`
	Prefix  int  `json:"prefix"`
	OnCurve bool `json:"oncurve"`
	Parity  bool `json:"parity"`
}

const b32charset = "qpzry9x8gf2tvdw0s3jn54khce6mua7l"
const b58alphabet = "123456789ABCDEFGHJKLMNPQRSTUVWXYZabcdefghijkmnopqrstuvwxyz"

var b32gen = [5]uint32{0x3b6a57b2, 0x26508e6d, 0x1ea119fa, 0x3d4233dd, 0x2a1462b3}

// refPolymod is the reference implementation of BIP173.
func refPolymod(values []byte) uint32 {
	chk := uint32(1)
	for _, v := range values {
		top := chk >> 25
		chk = (chk&0x1ffffff)<<5 ^ uint32(v)
		for i := 0; i < 5; i++ {
			if (top>>uint(i))&1 == 1 {
				chk ^= b32gen[i]
			}
		}
	}
	return chk
}

func refHrpExpand(hrp string) []byte {
	out := make([]byte, 0, 2*len(hrp)+1)
	for i := 0; i < len(hrp); i++ {
		out = append(out, hrp[i]>>5)
	}
	out = append(out, 0)
	for i := 0; i < len(hrp); i++ {
		out = append(out, hrp[i]&31)
	}
	return out
}

// segPrefix: the text up to and including the last '1' is a registered segwit
// prefix, whatever the case of its letters.
func (w *world) segPrefix(s string) bool {
	sep := strings.LastIndexByte(s, '1')
	return sep >= 1 && w.regPrefix[strings.ToLower(s[:sep+1])]
}

// formOf is FormOf of AddrCodec.tla: the dispatch of DecodeAddress.
func (w *world) formOf(s string) string {
	if w.segPrefix(s) {
		return "bech"
	}
	if len(s) == 66 || len(s) == 130 {
		return "pkhex"
	}
	return "b58"
}

// abstractBech computes the attributes of a string of the bech32 form (the last
// '1' exists).  The returned program is meaningful when there is no defect.
func abstractBech(s string) (bechAbs, []byte) {
	sep := strings.LastIndexByte(s, '1')
	a := bechAbs{Hrp: strings.ToLower(s[:sep]), Defect: "none", Case: "lower", Ck: "bad", Ver: -1, PadZero: true}
	canon := func(defect string) (bechAbs, []byte) {
		return bechAbs{Hrp: a.Hrp, Defect: defect, Case: "lower", Ck: "bad", Ver: -1, PadZero: true}, nil
	}
	if len(s) < 8 {
		return canon("tooshort")
	}
	if len(s) > 90 {
		return canon("toolong")
	}
	lower, upperc := false, false
	for i := 0; i < len(s); i++ {
		if s[i] < 33 || s[i] > 126 {
			return canon("nonascii")
		}
		if s[i] >= 'a' && s[i] <= 'z' {
			lower = true
		}
		if s[i] >= 'A' && s[i] <= 'Z' {
			upperc = true
		}
	}
	if lower && upperc {
		return bechAbs{Hrp: a.Hrp, Defect: "none", Case: "mixed", Ck: "bad", Ver: -1, PadZero: true}, nil
	}
	if upperc {
		a.Case = "upper"
	}
	ls := strings.ToLower(s)
	if sep+7 > len(ls) {
		return canon("seplate")
	}
	data := make([]byte, 0, len(ls)-sep-1)
	for i := sep + 1; i < len(ls); i++ {
		k := strings.IndexByte(b32charset, ls[i])
		if k < 0 {
			return canon("badchar")
		}
		data = append(data, byte(k))
	}
	switch refPolymod(append(refHrpExpand(a.Hrp), data...)) {
	case 1:
		a.Ck = "b32"
	case 0x2bc830a3:
		a.Ck = "b32m"
	}
	payload := data[:len(data)-6]
	if len(payload) == 0 {
		return a, nil
	}
	a.Ver = int(payload[0])
	groups := payload[1:]
	a.Ng = len(groups)
	// regroup 5 -> 8
	var prog []byte
	acc, bits := 0, 0
	for _, g := range groups {
		acc = acc<<5 | int(g)
		bits += 5
		for bits >= 8 {
			prog = append(prog, byte(acc>>(bits-8)))
			bits -= 8
			acc &= (1 << bits) - 1
		}
	}
	if bits >= 1 {
		a.PadZero = acc == 0
	}
	a.Anchor = a.Ng == 4 && len(prog) == 2 && prog[0] == 0x4e && prog[1] == 0x73
	if a.Ng > 67 {
		a.Ng, a.PadZero, a.Anchor = 67, true, false
	}
	return a, prog
}

func sha256d(b []byte) []byte {
	h1 := sha256.Sum256(b)
	h2 := sha256.Sum256(h1[:])
	return h2[:]
}

// refB58Decode converts with math/big; ok is false when a symbol is outside the
// alphabet.
func refB58Decode(s string) (out []byte, ok bool) {
	n := new(big.Int)
	r := big.NewInt(58)
	for i := 0; i < len(s); i++ {
		k := strings.IndexByte(b58alphabet, s[i])
		if k < 0 {
			return nil, false
		}
		n.Mul(n, r)
		n.Add(n, big.NewInt(int64(k)))
	}
	zeros := 0
	for zeros < len(s) && s[zeros] == '1' {
		zeros++
	}
	return append(make([]byte, zeros), n.Bytes()...), true
}

// refB58Encode is the inverse (used to build strings with chosen defects
// without going through the package under test is NOT its purpose: strings are
// built with the package; this is for cross-checking only).
func refB58Encode(b []byte) string {
	n := new(big.Int).SetBytes(b)
	r := big.NewInt(58)
	m := new(big.Int)
	var out []byte
	for n.Sign() > 0 {
		n.DivMod(n, r, m)
		out = append(out, b58alphabet[m.Int64()])
	}
	for _, x := range b {
		if x != 0 {
			break
		}
		out = append(out, '1')
	}
	for i, j := 0, len(out)-1; i < j; i, j = i+1, j-1 {
		out[i], out[j] = out[j], out[i]
	}
	return string(out)
}

// abstractB58 computes the attributes of a string of the Base58Check form; ids
// is the set of version bytes the specification's table lists.
func abstractB58(s string, ids map[int]bool, segprefix bool) (b58Abs, []byte) {
	raw, ok := refB58Decode(s)
	if !ok {
		return b58Abs{V: -1, Ck: "bad", Defect: "badchar"}, nil
	}
	if len(raw) < 5 {
		return b58Abs{V: -1, Ck: "bad", Defect: "short"}, nil
	}
	a := b58Abs{V: int(raw[0]), Plen: len(raw) - 5, Ck: "bad", Defect: "none", SegPrefix: segprefix}
	if !ids[a.V] {
		a.V = -1
	}
	sum := sha256d(raw[:len(raw)-4])
	if string(sum[:4]) == string(raw[len(raw)-4:]) {
		a.Ck = "ok"
	}
	return a, raw[1 : len(raw)-4]
}

var (
	curveP, _ = new(big.Int).SetString("fffffffffffffffffffffffffffffffffffffffffffffffffffffffefffffc2f", 16)
	curveN, _ = new(big.Int).SetString("fffffffffffffffffffffffffffffffebaaedce6af48a03bbfd25e8cd0364141", 16)
)

// curveY returns a square root of x^3+7 mod p, or nil.
func curveY(x *big.Int) *big.Int {
	if x.Cmp(curveP) >= 0 {
		return nil
	}
	rhs := new(big.Int).Exp(x, big.NewInt(3), curveP)
	rhs.Add(rhs, big.NewInt(7)).Mod(rhs, curveP)
	// p = 3 mod 4
	e := new(big.Int).Add(curveP, big.NewInt(1))
	e.Rsh(e, 2)
	y := new(big.Int).Exp(rhs, e, curveP)
	if new(big.Int).Exp(y, big.NewInt(2), curveP).Cmp(rhs) != 0 {
		return nil
	}
	return y
}

func onCurve(x, y *big.Int) bool {
	if x.Cmp(curveP) >= 0 || y.Cmp(curveP) >= 0 {
		return false
	}
	l := new(big.Int).Exp(y, big.NewInt(2), curveP)
	r := new(big.Int).Exp(x, big.NewInt(3), curveP)
	r.Add(r, big.NewInt(7)).Mod(r, curveP)
	return l.Cmp(r) == 0
}

// abstractPkHex computes the attributes of a 66/130 character string.
func abstractPkHex(s string) (pkHexAbs, []byte) {
	a := pkHexAbs{NChars: len(s), OnCurve: true, Parity: true}
	raw, err := hex.DecodeString(s)
	if err != nil {
		return a, nil
	}
	a.HexOK = true
	switch raw[0] {
	case 2, 3, 4, 6, 7:
		a.Prefix = int(raw[0])
	default:
		return a, raw
	}
	x := new(big.Int).SetBytes(raw[1:33])
	if len(raw) == 33 {
		a.OnCurve = curveY(x) != nil
		return a, raw
	}
	y := new(big.Int).SetBytes(raw[33:65])
	a.OnCurve = onCurve(x, y)
	if a.Prefix == 6 || a.Prefix == 7 {
		a.Parity = int(y.Bit(0)) == a.Prefix-6
	}
	return a, raw
}
