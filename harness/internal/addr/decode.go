package addr

import (
	"bytes"
	"encoding/hex"
	"fmt"
	"sort"
	"strings"
	"sync"

	"github.com/btcsuite/btcd/address/v2"

	"verif/harness/internal/vrun"
)

// decision mirrors the records DecideBech / DecideB58 / DecidePkHex return.
type decision struct {
	Accept    bool     `json:"accept"`
	Kind      string   `json:"kind"`
	Ver       int      `json:"ver"`
	Plen      int      `json:"plen"`
	Hrp       string   `json:"hrp"`
	V         int      `json:"v"`
	Format    string   `json:"format"`
	Reencodes bool     `json:"reencodes"`
	ForNets   []string `json:"fornets"`
}

func (d decision) String() string {
	if !d.Accept {
		return "reject"
	}
	switch d.Kind {
	case "p2pkh", "p2sh":
		return fmt.Sprintf("accept %s id=%d", d.Kind, d.V)
	case "p2pk":
		return fmt.Sprintf("accept p2pk %s", d.Format)
	}
	return fmt.Sprintf("accept %s v%d len %d hrp %s", d.Kind, d.Ver, d.Plen, d.Hrp)
}

type bechRow struct {
	D    decision `json:"d"`
	Impl decision `json:"impl"`
}

// tables are the decision tables TLC emitted.
type tables struct {
	w       *world
	bech    map[string]bechRow // key: bechKey without prefix
	b58     map[string]bechRow // key: b58Key + default network
	pkhex   map[string]decision
	b58ids  map[int]bool
	b58lens map[int]bool
	hasUp   bool // the bech table lists upper-case rows

	mu        sync.Mutex
	lookups   int64
	collision int64 // edited strings that are valid addresses in their own right
}

func bechKey(a bechAbs) string {
	return fmt.Sprintf("%s|%s|%s|%d|%d|%t|%t", a.Defect, a.Case, a.Ck, a.Ver, a.Ng, a.PadZero, a.Anchor)
}
func b58Key(a b58Abs, dn string) string {
	return fmt.Sprintf("%s|%s|%d|%d|%t|%s", a.Defect, a.Ck, a.V, a.Plen, a.SegPrefix, dn)
}
func pkhexKey(a pkHexAbs, dn string) string {
	return fmt.Sprintf("%d|%t|%d|%t|%t|%s", a.NChars, a.HexOK, a.Prefix, a.OnCurve, a.Parity, dn)
}

func newTables(w *world) *tables {
	return &tables{w: w, bech: map[string]bechRow{}, b58: map[string]bechRow{}, pkhex: map[string]decision{},
		b58ids: map[int]bool{}, b58lens: map[int]bool{}}
}

func (t *tables) load(cases []rawCase) error {
	for _, rc := range cases {
		switch rc.kind {
		case "bech":
			var cs struct {
				S bechAbs `json:"s"`
			}
			var ex bechRow
			if err := rc.decode(&cs, &ex); err != nil {
				return err
			}
			if cs.S.Case == "upper" {
				t.hasUp = true
			}
			t.bech[bechKey(cs.S)] = ex
		case "b58":
			var cs struct {
				S  b58Abs `json:"s"`
				Dn string `json:"dn"`
			}
			var ex bechRow
			if err := rc.decode(&cs, &ex); err != nil {
				return err
			}
			t.b58[b58Key(cs.S, cs.Dn)] = ex
			if cs.S.Defect == "none" {
				if cs.S.V >= 0 {
					t.b58ids[cs.S.V] = true
				}
				t.b58lens[cs.S.Plen] = true
			}
		case "pkhex":
			var cs struct {
				S  pkHexAbs `json:"s"`
				Dn string   `json:"dn"`
			}
			var ex struct {
				D decision `json:"d"`
			}
			if err := rc.decode(&cs, &ex); err != nil {
				return err
			}
			t.pkhex[pkhexKey(cs.S, cs.Dn)] = ex.D
		}
	}
	if len(t.bech) == 0 || len(t.b58) == 0 || len(t.pkhex) == 0 {
		return fmt.Errorf("decision tables missing from the TLC output (bech %d, b58 %d, pkhex %d rows)", len(t.bech), len(t.b58), len(t.pkhex))
	}
	return nil
}

// abstraction of an arbitrary string
type absString struct {
	form    string // the form the dispatch of DecodeAddress selects
	bech    bechAbs
	b58     b58Abs
	pkhex   pkHexAbs
	payload []byte
	// a string of the bech32 form read as Base58Check (base-58 uses the same
	// letters): its attributes and payload
	alt        *b58Abs
	altPayload []byte
}

func (t *tables) abstract(s string) absString {
	a := absString{form: t.w.formOf(s)}
	switch a.form {
	case "bech":
		a.bech, a.payload = abstractBech(s)
		if alt, pl := abstractB58(s, t.b58ids, true); alt.Defect == "none" && alt.Ck == "ok" {
			a.alt, a.altPayload = &alt, pl
		}
	case "pkhex":
		a.pkhex, a.payload = abstractPkHex(s)
	default:
		a.b58, a.payload = abstractB58(s, t.b58ids, false)
	}
	return a
}

func (t *tables) canonB58(k b58Abs) b58Abs {
	if k.Defect == "none" && !t.b58lens[k.Plen] { // CanonB58
		if k.Plen > 20 {
			k.Plen = 40
		} else {
			k.Plen = 0
		}
	}
	return k
}

// lookup returns the property-layer and implementation-layer decisions of the
// specification for the abstracted string under default network dn.
func (t *tables) lookup(a absString, dn string) (d, impl decision, err error) {
	switch a.form {
	case "bech":
		if a.alt != nil {
			// the text is also a Base58Check string with a valid checksum: if that
			// reading is an address, the property wants it accepted
			if row, ok := t.b58[b58Key(t.canonB58(*a.alt), t.w.b58like[dn])]; ok && row.D.Accept {
				return row.D, row.Impl, nil
			}
		}
		k := a.bech
		if k.Case == "upper" && !t.hasUp {
			k.Case = "lower" // BechLaws: the upper-case form decides the same
		}
		row, ok := t.bech[bechKey(k)]
		if !ok && k.Ver > 17 {
			k.Ver = 17 // CanonBech: the rows of 17 stand for the versions the tier does not list
			row, ok = t.bech[bechKey(k)]
		}
		if !ok {
			return d, impl, fmt.Errorf("no row for abstract bech32 string %+v", a.bech)
		}
		d, impl = row.D, row.Impl
		// the table is written for one prefix (BechLaws: the prefix names the networks)
		// and the code's registry may never match the prefix (ImplDecodable)
		if d.Accept {
			d.Hrp, d.ForNets = a.bech.Hrp, t.w.hrpNets[a.bech.Hrp]
		}
		if !t.w.implDecodable[a.bech.Hrp] {
			impl = decision{}
		} else if impl.Accept {
			impl.Hrp, impl.ForNets = a.bech.Hrp, t.w.implHrpNets[a.bech.Hrp]
		}
		return d, impl, nil
	case "pkhex":
		row, ok := t.pkhex[pkhexKey(a.pkhex, t.w.b58like[dn])]
		if !ok {
			return d, impl, fmt.Errorf("no row for abstract hex key %+v under %s", a.pkhex, dn)
		}
		return row, row, nil
	default:
		row, ok := t.b58[b58Key(t.canonB58(a.b58), t.w.b58like[dn])]
		if !ok {
			return d, impl, fmt.Errorf("no row for abstract base58 string %+v under %s", a.b58, dn)
		}
		return row.D, row.Impl, nil
	}
}

// observed is what DecodeAddress answered, in the vocabulary of the decisions.
type observed struct {
	want     decision // the specification's (property layer) decision, filled by checkDecode
	panicked string
	d        decision
	addr     address.Address
	payload  []byte
	reenc    string
}

func kindOfAddress(a address.Address) string {
	switch a.(type) {
	case *address.AddressPubKeyHash:
		return "p2pkh"
	case *address.AddressScriptHash:
		return "p2sh"
	case *address.AddressPubKey:
		return "p2pk"
	case *address.AddressWitnessPubKeyHash:
		return "p2wpkh"
	case *address.AddressWitnessScriptHash:
		return "p2wsh"
	case *address.AddressTaproot:
		return "p2tr"
	case *address.AddressPayToAnchor:
		return "p2a"
	}
	return fmt.Sprintf("%T", a)
}

// safely runs f; a panic inside the code under test is returned as text.
func safely(f func()) (panicked string) {
	defer func() {
		if r := recover(); r != nil {
			panicked = fmt.Sprint(r)
		}
	}()
	f()
	return ""
}

func (t *tables) observe(s, dn string) (o observed) {
	p := t.w.params[dn]
	var a address.Address
	var err error
	if pn := safely(func() { a, err = address.DecodeAddress(s, p) }); pn != "" {
		return observed{panicked: pn}
	}
	if err != nil || a == nil {
		return observed{}
	}
	o = observed{addr: a, payload: a.ScriptAddress(), reenc: a.EncodeAddress()}
	o.d.Accept = true
	o.d.Kind = kindOfAddress(a)
	for _, n := range t.w.names {
		if a.IsForNet(t.w.params[n]) {
			o.d.ForNets = append(o.d.ForNets, n)
		}
	}
	switch x := a.(type) {
	case *address.AddressPubKeyHash:
		o.d.V = int(versionByteOf(o.reenc))
	case *address.AddressScriptHash:
		o.d.V = int(versionByteOf(o.reenc))
	case *address.AddressWitnessPubKeyHash:
		o.d.Ver, o.d.Plen, o.d.Hrp = int(x.WitnessVersion()), len(x.WitnessProgram()), x.Hrp()
	case *address.AddressWitnessScriptHash:
		o.d.Ver, o.d.Plen, o.d.Hrp = int(x.WitnessVersion()), len(x.WitnessProgram()), x.Hrp()
	case *address.AddressTaproot:
		o.d.Ver, o.d.Plen, o.d.Hrp = int(x.WitnessVersion()), len(x.WitnessProgram()), x.Hrp()
	case *address.AddressPayToAnchor:
		// no accessors: version and prefix show in the re-encoded string
		o.d.Ver, o.d.Plen = 1, len(x.ScriptAddress())
		if i := strings.LastIndexByte(o.reenc, '1'); i > 0 {
			o.d.Hrp = o.reenc[:i]
		}
	case *address.AddressPubKey:
		if x.Format() == address.PKFCompressed {
			o.d.Format = "compressed"
		} else {
			o.d.Format = "uncompressed"
		}
		o.reenc = x.String()
	}
	return o
}

// versionByteOf reads the version byte of a Base58Check string with the
// binder's own decoder.
func versionByteOf(s string) byte {
	raw, ok := refB58Decode(s)
	if !ok || len(raw) == 0 {
		return 0xff
	}
	return raw[0]
}

func sameSet(a, b []string) bool {
	x := append([]string(nil), a...)
	y := append([]string(nil), b...)
	sort.Strings(x)
	sort.Strings(y)
	return strings.Join(x, ",") == strings.Join(y, ",")
}

// agrees compares an observation with a decision of the specification; s is the
// string that was decoded and a its abstraction.
func agrees(o observed, d decision, s string, a absString, strict bool) (bool, string) {
	if o.d.Accept != d.Accept {
		return false, fmt.Sprintf("decoder says %s, specification says %s", o.d, d)
	}
	if !d.Accept {
		return true, ""
	}
	if o.d.Kind != d.Kind {
		return false, fmt.Sprintf("decoder says %s, specification says %s", o.d, d)
	}
	if !sameSet(o.d.ForNets, d.ForNets) {
		return false, fmt.Sprintf("IsForNet holds for %v, specification: %v", o.d.ForNets, d.ForNets)
	}
	switch d.Kind {
	case "p2pkh", "p2sh":
		if o.d.V != d.V {
			return false, fmt.Sprintf("address carries identifier %d, specification: %d", o.d.V, d.V)
		}
		if a.form == "bech" {
			a.payload = a.altPayload
		}
		if !bytes.Equal(o.payload, a.payload) {
			return false, fmt.Sprintf("decoded hash %x differs from the string's payload %x", o.payload, a.payload)
		}
		if o.reenc != s {
			return false, fmt.Sprintf("re-encoded as %q", o.reenc)
		}
	case "p2pk":
		if o.d.Format != d.Format {
			return false, fmt.Sprintf("key format %s, specification: %s", o.d.Format, d.Format)
		}
		want := strings.ToLower(s)
		if !d.Reencodes {
			// hybrid key: kept as the uncompressed serialisation of the same point
			want = "04" + strings.ToLower(s)[2:]
		}
		if o.reenc != want {
			return false, fmt.Sprintf("String() gives %q, expected %q", o.reenc, want)
		}
		if hex.EncodeToString(o.payload) != want {
			return false, fmt.Sprintf("ScriptAddress() is %x, expected %s", o.payload, want)
		}
	default:
		if o.d.Ver != d.Ver || o.d.Plen != d.Plen || o.d.Hrp != d.Hrp {
			return false, fmt.Sprintf("decoder says %s, specification says %s", o.d, d)
		}
		if !bytes.Equal(o.payload, a.payload) {
			return false, fmt.Sprintf("decoded program %x differs from the string's program %x", o.payload, a.payload)
		}
		if strict && o.reenc != strings.ToLower(s) {
			return false, fmt.Sprintf("re-encoded as %q, expected the lower-case input", o.reenc)
		}
	}
	return true, ""
}

const keyV1Len20 = "decode:v1-program20-returned-as-v0-p2wpkh"
const keyHrpUpper = "hrp:upper-case-registration-never-matched"
const keyB58SegPrefix = "decode:base58-address-starting-like-a-segwit-prefix-rejected"

// checkDecode offers s to DecodeAddress under default network dn and compares
// with the specification's table.  what describes where s came from (for the
// violation text); shape is a short stable name of that origin.
func (t *tables) checkDecode(c *vrun.Ctx, s, dn, shape, what string, replay any) (absString, observed, error) {
	a := t.abstract(s)
	d, impl, err := t.lookup(a, dn)
	if err != nil {
		return a, observed{}, fmt.Errorf("%s %q: %w", what, s, err)
	}
	o := t.observe(s, dn)
	o.want = d
	c.AddEval(1)
	if o.panicked != "" {
		c.Violation("decode:"+shape+":panic", fmt.Sprintf("DecodeAddress(%q, %s) [%s] panics: %s", s, dn, what, o.panicked),
			map[string]any{"string": s, "default_net": dn, "origin": what, "case": replay})
		return a, o, nil
	}
	t.mu.Lock()
	t.lookups++
	t.mu.Unlock()
	if ok, why := agrees(o, d, s, a, true); !ok {
		rp := map[string]any{"string": s, "default_net": dn, "origin": what, "abstract": a.describe(), "specification": d.String(),
			"decoder": o.d.String(), "case": replay}
		if okImpl, _ := agrees(o, impl, s, a, false); okImpl && a.form == "bech" && a.alt != nil && d.Accept && !impl.Accept {
			c.Violation(keyB58SegPrefix, fmt.Sprintf("DecodeAddress(%q, %s): %s (a valid Base58Check %s address whose text begins with the registered segwit prefix %q followed by its only later '1' is handed to the bech32 decoder and refused)",
				s, dn, why, d.Kind, s[:strings.LastIndexByte(s, '1')]), rp)
		} else if okImpl && a.form == "bech" && d.Accept && !impl.Accept && !t.w.implDecodable[a.bech.Hrp] {
			how := "is registered in upper case: chaincfg.Register stores the text as given, IsBech32SegwitPrefix lower-cases the query only"
			c.Violation(keyHrpUpper, fmt.Sprintf("DecodeAddress(%q, %s): %s (the prefix %q of a registered network %s, so its own segwit addresses are never taken for segwit addresses)", s, dn, why, a.bech.Hrp, how), rp)
		} else if okImpl && a.form == "bech" && a.bech.Ver == 1 && d.String() != impl.String() {
			c.Violation(keyV1Len20, fmt.Sprintf("DecodeAddress(%q): %s (bech32m string of a witness v1 program of 20 bytes comes back as a v0 P2WPKH address, which encodes to a different string and pays to a different script)", s, why), rp)
		} else {
			c.Violation("decode:"+shape+":"+divergence(o.d, d), fmt.Sprintf("DecodeAddress(%q, %s) [%s]: %s", s, dn, what, why), rp)
		}
	}
	return a, o, nil
}

func divergence(got, want decision) string {
	switch {
	case got.Accept && !want.Accept:
		return "accepted-must-reject"
	case !got.Accept && want.Accept:
		return "rejected-must-accept"
	}
	return "wrong-answer"
}

func (a absString) describe() any {
	switch a.form {
	case "bech":
		if a.alt != nil {
			return map[string]any{"form": "bech", "s": a.bech, "as_base58check": *a.alt}
		}
		return map[string]any{"form": "bech", "s": a.bech}
	case "pkhex":
		return map[string]any{"form": "pkhex", "s": a.pkhex}
	}
	return map[string]any{"form": "b58", "s": a.b58}
}
