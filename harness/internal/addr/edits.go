package addr

import (
	"bytes"
	"fmt"
	"math/rand"
	"strings"

	"github.com/btcsuite/btcd/address/v2"
	"github.com/btcsuite/btcd/address/v2/base58"
	"github.com/btcsuite/btcd/address/v2/bech32"
	"github.com/btcsuite/btcd/btcec/v2/schnorr"

	"verif/harness/internal/vrun"
)

// newAddress makes an address of a kind of the specification on a network,
// with a random payload, through the package's constructors.
func (b *builder) newAddress(kind, net string) (address.Address, error) {
	p := b.t.w.params[net]
	switch kind {
	case "p2pkh":
		return address.NewAddressPubKeyHash(randBytes(b.rng, 20), p)
	case "p2sh":
		if b.rng.Intn(2) == 0 {
			return address.NewAddressScriptHash(randBytes(b.rng, 1+b.rng.Intn(40)), p)
		}
		return address.NewAddressScriptHashFromHash(randBytes(b.rng, 20), p)
	case "p2pk-c":
		return address.NewAddressPubKey(randKey(b.rng).PubKey().SerializeCompressed(), p)
	case "p2pk-u":
		return address.NewAddressPubKey(randKey(b.rng).PubKey().SerializeUncompressed(), p)
	case "p2pk-h":
		return address.NewAddressPubKey(hybridBytes(randKey(b.rng).PubKey()), p)
	case "p2wpkh":
		return address.NewAddressWitnessPubKeyHash(randBytes(b.rng, 20), p)
	case "p2wsh":
		return address.NewAddressWitnessScriptHash(randBytes(b.rng, 32), p)
	case "p2tr":
		return address.NewAddressTaproot(schnorr.SerializePubKey(randKey(b.rng).PubKey()), p)
	case "p2a":
		return address.NewAddressPayToAnchor(p)
	}
	return nil, fmt.Errorf("unknown address kind %s", kind)
}

// sameAbs compares an abstraction with the specification's abstract string
// (decoded generically from JSON).
func sameAbs(a absString, form string, s map[string]any) bool {
	if form == "b58" && a.form == "bech" && a.alt != nil {
		// a Base58Check string that starts like a segwit prefix
		a = absString{form: "b58", b58: *a.alt}
	}
	if a.form != form {
		return false
	}
	num := func(k string) int { f, _ := s[k].(float64); return int(f) }
	str := func(k string) string { x, _ := s[k].(string); return x }
	bl := func(k string) bool { x, _ := s[k].(bool); return x }
	switch form {
	case "bech":
		want := bechAbs{Hrp: str("hrp"), Defect: str("defect"), Case: str("case"), Ck: str("ck"), Ver: num("ver"), Ng: num("ng"),
			PadZero: bl("padzero"), Anchor: bl("anchor")}
		return a.bech == want
	case "b58":
		want := b58Abs{V: num("v"), Plen: num("plen"), Ck: str("ck"), Defect: str("defect")}
		got := a.b58
		got.SegPrefix = false // an accident of the payload, not of the kind
		return got == want
	}
	return false
}

const printable = "!\"#$%&'()*+,-./0123456789:;<=>?@ABCDEFGHIJKLMNOPQRSTUVWXYZ[\\]^_`abcdefghijklmnopqrstuvwxyz{|}~"
const hrpAlphabet = "abcdefghijklmnopqrstuvwxyz023456789"

// region bounds [lo, hi) of the string
func regionOf(s, form, region string) (int, int) {
	if form != "bech" {
		return 0, len(s)
	}
	sep := strings.LastIndexByte(s, '1')
	switch region {
	case "hrp":
		return 0, sep
	case "data":
		return sep + 1, len(s) - 6
	case "checksum":
		return len(s) - 6, len(s)
	}
	return 0, len(s)
}

func alphabetAt(s, form string, pos int) string {
	if form != "bech" {
		return b58alphabet
	}
	sep := strings.LastIndexByte(s, '1')
	if pos < sep {
		return hrpAlphabet
	}
	return b32charset
}

// applyEdit performs k edits of a type inside a region; the result differs
// from s.  For type "sub" the k positions are distinct (exactly k substituted
// symbols).
func applyEdit(r *rand.Rand, s, form, typ, region string, k int) string {
	orig := s
	for attempt := 0; attempt < 50; attempt++ {
		s = orig
		used := map[int]bool{}
		for e := 0; e < k; e++ {
			t := typ
			if t == "mix" {
				t = []string{"sub", "subany", "ins", "del", "swap"}[r.Intn(5)]
			}
			lo, hi := regionOf(s, form, region)
			if hi <= lo {
				break
			}
			switch t {
			case "sub", "subany":
				pos := lo + r.Intn(hi-lo)
				for tries := 0; used[pos] && tries < 100; tries++ {
					pos = lo + r.Intn(hi-lo)
				}
				if used[pos] {
					continue
				}
				used[pos] = true
				alpha := printable
				if t == "sub" {
					alpha = alphabetAt(s, form, pos)
					if s[pos] == '1' && form == "bech" && pos == strings.LastIndexByte(s, '1') {
						alpha = b32charset // the separator itself replaced by a data symbol
					}
				}
				s = s[:pos] + string(otherChar(r, alpha, s[pos])) + s[pos+1:]
			case "ins":
				pos := lo + r.Intn(hi-lo+1)
				alpha := alphabetAt(s, form, min(pos, len(s)-1))
				s = s[:pos] + string(alpha[r.Intn(len(alpha))]) + s[pos:]
			case "del":
				pos := lo + r.Intn(hi-lo)
				s = s[:pos] + s[pos+1:]
			case "swap":
				if hi-lo < 2 {
					continue
				}
				pos := lo + r.Intn(hi-lo-1)
				for tries := 0; s[pos] == s[pos+1] && tries < 20; tries++ {
					pos = lo + r.Intn(hi-lo-1)
				}
				bs := []byte(s)
				bs[pos], bs[pos+1] = bs[pos+1], bs[pos]
				s = string(bs)
			}
		}
		if s != orig {
			return s
		}
	}
	return s
}

// runEdit samples concrete edits of one class on fresh valid addresses.
func (b *builder) runEdit(c *vrun.Ctx, rc rawCase, samples int) error {
	var cs struct {
		Base   string `json:"base"`
		Net    string `json:"net"`
		K      int    `json:"k"`
		Type   string `json:"type"`
		Region string `json:"region"`
	}
	var ex struct {
		Orig struct {
			Form string         `json:"form"`
			S    map[string]any `json:"s"`
		} `json:"orig"`
		OrigDecision decision `json:"origdecision"`
		Guaranteed   bool     `json:"guaranteed"`
	}
	if err := rc.decode(&cs, &ex); err != nil {
		return err
	}
	perAddr := 25
	for done := 0; done < samples; {
		ad, err := b.newAddress(cs.Base, cs.Net)
		if err != nil {
			return err
		}
		s := ad.EncodeAddress()
		a0, o0, err := b.t.checkDecode(c, s, cs.Net, "valid-address", "valid "+cs.Base+" address", rc.replay())
		if err != nil {
			return err
		}
		c.AddEval(2)
		if !sameAbs(a0, ex.Orig.Form, ex.Orig.S) {
			c.Violation("encode:"+cs.Base+":unexpected-string-form",
				fmt.Sprintf("%s address on %s encodes as %q = %v, the specification expects %v", cs.Base, cs.Net, s, a0.describe(), ex.Orig.S), rc.replay())
		}
		if o0.want.Accept != ex.OrigDecision.Accept || o0.want.Kind != ex.OrigDecision.Kind {
			return fmt.Errorf("valid %s address %q on %s: the decision table says %s, the edit case says %s", cs.Base, s, cs.Net, o0.want, ex.OrigDecision)
		}
		for j := 0; j < perAddr && done < samples; j++ {
			done++
			e := applyEdit(b.rng, s, ex.Orig.Form, cs.Type, cs.Region, cs.K)
			if e == s {
				continue
			}
			what := fmt.Sprintf("%d %s edit(s) in region %s of valid %s address %q", cs.K, cs.Type, cs.Region, cs.Base, s)
			a, o, err := b.t.checkDecode(c, e, cs.Net, "edited", what, rc.replay())
			if err != nil {
				return err
			}
			if ex.Guaranteed {
				// BCH guarantee, checked with the binder's own polymod
				c.AddEval(1)
				if a.form == "bech" && a.bech.Defect == "none" && a.bech.Case != "mixed" && a.bech.Ck == a0.bech.Ck {
					return fmt.Errorf("BCH guarantee broken by the binder's arithmetic: %q (from %q by %d substitutions) verifies as %s", e, s, cs.K, a.bech.Ck)
				}
			}
			if o.d.Accept {
				b.t.mu.Lock()
				b.t.collision++
				b.t.mu.Unlock()
			}
		}
	}
	c.AddTraces(1)
	c.Distinct(fmt.Sprintf("edit/%s/%s/%d/%s/%s", cs.Base, cs.Net, cs.K, cs.Type, cs.Region))
	return nil
}

// runVec32: TLC computed the address strings of a concrete program with the
// BIP173 arithmetic; the library must produce the same strings and decide them
// as the table says.
func (b *builder) runVec32(c *vrun.Ctx, rc rawCase) error {
	var cs struct {
		Hrp     string `json:"hrp"`
		Ver     int    `json:"ver"`
		Prog    []int  `json:"prog"`
		Pattern string `json:"pattern"`
	}
	var ex struct {
		Good       string  `json:"good"`
		Wrong      string  `json:"wrong"`
		GoodAbs    bechAbs `json:"goodabs"`
		WrongAbs   bechAbs `json:"wrongabs"`
		GoodDec    bechRow `json:"gooddec"`
		WrongDec   bechRow `json:"wrongdec"`
		Registered bool    `json:"registered"`
	}
	if err := rc.decode(&cs, &ex); err != nil {
		return err
	}
	prog := ints2bytes(cs.Prog)
	conv, err := bech32.ConvertBits(prog, 8, 5, true)
	if err != nil {
		return err
	}
	data := append([]byte{byte(cs.Ver)}, conv...)
	enc0, err0 := bech32.Encode(cs.Hrp, data)
	encM, errM := bech32.EncodeM(cs.Hrp, data)
	if err0 != nil || errM != nil {
		return fmt.Errorf("bech32 encoders failed: %v %v", err0, errM)
	}
	good, wrong := encM, enc0
	if cs.Ver == 0 {
		good, wrong = enc0, encM
	}
	c.AddEval(2)
	if good != ex.Good || wrong != ex.Wrong {
		c.Violation("bech32-encode:string-differs-from-bip173",
			fmt.Sprintf("hrp %s version %d program %x: library encodes %q / %q, the specification's BIP173 arithmetic gives %q / %q", cs.Hrp, cs.Ver, prog, good, wrong, ex.Good, ex.Wrong), rc.replay())
	}
	// round trip through the bare codec
	hrp, dec, ver, err := bech32.DecodeGeneric(ex.Good)
	if len(ex.Good) > 90 {
		// beyond the length of a bech32 string: the length-agnostic decoder
		hrp, dec, ver, err = bech32.DecodeNoLimitWithVersion(ex.Good)
	}
	c.AddEval(1)
	wantVer := bech32.VersionM
	if cs.Ver == 0 {
		wantVer = bech32.Version0
	}
	if err != nil || hrp != cs.Hrp || !bytes.Equal(dec, data) || ver != wantVer {
		c.Violation("bech32-decode:round-trip", fmt.Sprintf("DecodeGeneric(%q) = %q %x %v %v", ex.Good, hrp, dec, ver, err), rc.replay())
	}
	if len(dec) > 0 {
		back, err := bech32.ConvertBits(dec[1:], 5, 8, false)
		c.AddEval(1)
		if err != nil || !bytes.Equal(back, prog) {
			c.Violation("bech32-convertbits:round-trip", fmt.Sprintf("ConvertBits 5->8 of %x gives %x (%v), program %x", dec[1:], back, err, prog), rc.replay())
		}
	}
	// the encoder lower-cases the prefix it is given
	if up, err := bech32.Encode(strings.ToUpper(cs.Hrp), data); err != nil || up != enc0 {
		c.Violation("bech32-encode:upper-case-prefix", fmt.Sprintf("Encode(%q, ...) = %q (%v), expected %q", strings.ToUpper(cs.Hrp), up, err, enc0), rc.replay())
	}
	// the specification's strings through DecodeAddress
	for _, s := range []string{ex.Good, ex.Wrong, strings.ToUpper(ex.Good)} {
		dn := b.t.w.names[b.rng.Intn(len(b.t.w.names))]
		a, _, err := b.t.checkDecode(c, s, dn, "bip173-string", "string computed by the specification", rc.replay())
		if err != nil {
			return err
		}
		if ex.Registered {
			want := ex.GoodAbs
			if s == ex.Wrong {
				want = ex.WrongAbs
			}
			if s != ex.Good && s != ex.Wrong && want.Defect == "none" {
				want.Case = "upper"
			}
			c.AddEval(1)
			if a.form != "bech" || a.bech != want {
				return fmt.Errorf("binder's abstraction of %q is %v, the specification says %+v", s, a.describe(), want)
			}
		}
	}
	// constructors of the address package produce the same string
	if p := b.paramsForHrp(cs.Hrp); p != "" && len(ex.Good) <= 90 {
		var ad address.Address
		pp := b.t.w.params[p]
		switch {
		case cs.Ver == 0 && len(prog) == 20:
			ad, err = address.NewAddressWitnessPubKeyHash(prog, pp)
		case cs.Ver == 0 && len(prog) == 32:
			ad, err = address.NewAddressWitnessScriptHash(prog, pp)
		case cs.Ver == 1 && len(prog) == 32:
			ad, err = address.NewAddressTaproot(prog, pp)
		case cs.Ver == 1 && cs.Pattern == "anchor":
			ad, err = address.NewAddressPayToAnchor(pp)
		}
		if ad != nil || err != nil {
			c.AddEval(1)
			if err != nil || ad.EncodeAddress() != ex.Good {
				got := ""
				if ad != nil {
					got = ad.EncodeAddress()
				}
				c.Violation("address-encode:string-differs-from-bip173",
					fmt.Sprintf("address constructor for hrp %s v%d program %x encodes %q (%v), specification %q", cs.Hrp, cs.Ver, prog, got, err, ex.Good), rc.replay())
			}
		}
	}
	c.AddTraces(1)
	c.Distinct(fmt.Sprintf("vec32/v%d/len%d/%s", cs.Ver, len(prog), cs.Pattern))
	return nil
}

func (b *builder) paramsForHrp(hrp string) string {
	for _, r := range b.t.w.rows {
		if r.Hrp == hrp {
			return r.Name
		}
	}
	return ""
}

func (b *builder) runVec58(c *vrun.Ctx, rc rawCase) error {
	var cs struct {
		Bytes []int `json:"bytes"`
	}
	var ex struct {
		Str string `json:"str"`
	}
	if err := rc.decode(&cs, &ex); err != nil {
		return err
	}
	raw := ints2bytes(cs.Bytes)
	got := base58.Encode(raw)
	c.AddEval(3)
	if got != ex.Str {
		c.Violation("base58-encode:string-differs", fmt.Sprintf("base58.Encode(%x) = %q, specification %q", raw, got, ex.Str), rc.replay())
	}
	back := base58.Decode(ex.Str)
	if !bytes.Equal(back, raw) {
		c.Violation("base58-decode:bytes-differ", fmt.Sprintf("base58.Decode(%q) = %x, specification %x", ex.Str, back, raw), rc.replay())
	}
	if refB58Encode(raw) != ex.Str {
		return fmt.Errorf("binder's base-58 arithmetic disagrees with the specification on %x", raw)
	}
	// the checked form round trips with every version byte class
	v := byte(b.rng.Intn(256))
	chk := base58.CheckEncode(raw, v)
	res, ver, err := base58.CheckDecode(chk)
	c.AddEval(1)
	if err != nil || ver != v || !bytes.Equal(res, raw) {
		c.Violation("base58check:round-trip", fmt.Sprintf("CheckDecode(CheckEncode(%x, %d)) = %x %d %v", raw, v, res, ver, err), rc.replay())
	}
	// layout of the checked form: version, payload, first four bytes of sha256d
	full, ok := refB58Decode(chk)
	want := append(append([]byte{v}, raw...), sha256d(append([]byte{v}, raw...))[:4]...)
	c.AddEval(1)
	if !ok || !bytes.Equal(full, want) {
		c.Violation("base58check:layout", fmt.Sprintf("CheckEncode(%x, %d) decodes to %x, expected %x", raw, v, full, want), rc.replay())
	}
	c.AddTraces(1)
	c.Distinct(fmt.Sprintf("vec58/len%d", len(raw)))
	return nil
}
