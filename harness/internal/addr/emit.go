package addr

import (
	"bufio"
	"encoding/json"
	"fmt"
	"strings"
)

const casePrefix = `"[\"CASE\",`

// rawCase is one emitted state of AddrCases.tla: the JSON text TLC printed.
type rawCase struct {
	kind   string
	cs     json.RawMessage // the `case` variable
	expect json.RawMessage // the `expect` variable
}

// parseEmitted extracts the states TLC printed through EmitCase (one JSON
// array per line, printed as a TLA+ string).
func parseEmitted(output string) ([]rawCase, error) {
	var out []rawCase
	sc := bufio.NewScanner(strings.NewReader(output))
	sc.Buffer(make([]byte, 1<<20), 1<<30)
	for sc.Scan() {
		l := sc.Text()
		if !strings.HasPrefix(l, casePrefix) {
			continue
		}
		if !strings.HasSuffix(l, `"`) {
			return nil, fmt.Errorf("emitted state %d is cut short", len(out))
		}
		l = l[1 : len(l)-1]
		l = strings.ReplaceAll(l, `\"`, `"`)
		l = strings.ReplaceAll(l, `\\`, `\`)
		var head []json.RawMessage
		if err := json.Unmarshal([]byte(l), &head); err != nil || len(head) != 3 {
			return nil, fmt.Errorf("emitted state %d: not a JSON triple: %v", len(out), err)
		}
		var k struct {
			Kind string `json:"kind"`
		}
		if err := json.Unmarshal(head[1], &k); err != nil || k.Kind == "" {
			return nil, fmt.Errorf("emitted state %d: case has no kind", len(out))
		}
		out = append(out, rawCase{k.Kind, head[1], head[2]})
	}
	return out, sc.Err()
}

func (r rawCase) decode(cs, expect any) error {
	if err := json.Unmarshal(r.cs, cs); err != nil {
		return fmt.Errorf("case %s: %w (%s)", r.kind, err, trunc(string(r.cs)))
	}
	if expect != nil {
		if err := json.Unmarshal(r.expect, expect); err != nil {
			return fmt.Errorf("expect of %s: %w (%s)", r.kind, err, trunc(string(r.expect)))
		}
	}
	return nil
}

// replay renders the state for a replay file.
func (r rawCase) replay() map[string]any {
	var c, e any
	json.Unmarshal(r.cs, &c)
	json.Unmarshal(r.expect, &e)
	return map[string]any{"case": c, "expect": e}
}

func trunc(s string) string {
	if len(s) > 300 {
		return s[:300] + "..."
	}
	return s
}
