package addr

import (
	"bytes"
	"encoding/binary"
	"errors"
	"fmt"
	"math/big"
	"sync"

	"github.com/btcsuite/btcd/address/v2/base58"
	"github.com/btcsuite/btcd/btcutil/v2/hdkeychain"

	"verif/harness/internal/vrun"
)

type hdIdx struct {
	H bool `json:"h"`
	N int  `json:"n"`
}

func (i hdIdx) num() uint32 {
	v := uint32(i.N)
	if i.H {
		v += hdkeychain.HardenedKeyStart
	}
	return v
}

type hdRoot struct {
	Net   string `json:"net"`
	Priv  bool   `json:"priv"`
	Depth int    `json:"depth"`
	Child hdIdx  `json:"child"`
}

type hdOp struct {
	Op string `json:"op"`
	I  hdIdx  `json:"i"`
}

type hdStep struct {
	Err      string   `json:"err"`
	Path     []hdIdx  `json:"path"`
	Priv     bool     `json:"priv"`
	Depth    int      `json:"depth"`
	ChildNum hdIdx    `json:"childnum"`
	Version  []int    `json:"version"`
	ForNets  []string `json:"fornets"`
}

type hdRun struct {
	Start hdStep   `json:"start"`
	Steps []hdStep `json:"steps"`
}

type hdLayoutField struct {
	F string
	N int
}

// the serialisation layout of AddrCodec.tla (HdLayout)
var hdLayout = []hdLayoutField{{"version", 4}, {"depth", 1}, {"parentfp", 4}, {"childnum", 4}, {"chaincode", 32}, {"key", 33}}

// hdRegistry remembers the serialisation of every key reached, by the identity
// the specification gives it (family of the root, path, private?): two
// operation sequences that the path algebra sends to the same key must produce
// the same bytes (Neuter o DerivePriv = DerivePub o Neuter), and different keys
// different bytes.
type hdRegistry struct {
	mu     sync.Mutex
	byID   map[string]string
	byStr  map[string]string
	seeds  map[string][]byte
	seed   int64
	merges int64
}

func newHdRegistry(seed int64) *hdRegistry {
	return &hdRegistry{byID: map[string]string{}, byStr: map[string]string{}, seeds: map[string][]byte{}, seed: seed}
}

func pathString(p []hdIdx) string {
	s := "m"
	for _, i := range p {
		s += fmt.Sprintf("/%d", i.N)
		if i.H {
			s += "'"
		}
	}
	return s
}

// note records (id -> serialisation); it returns a description of the conflict
// when the id was seen with other bytes, or the bytes with another id.
func (r *hdRegistry) note(id, ser string) string {
	r.mu.Lock()
	defer r.mu.Unlock()
	if prev, ok := r.byID[id]; ok {
		r.merges++
		if prev != ser {
			return fmt.Sprintf("key %s was %s through another operation sequence, now %s", id, prev, ser)
		}
		return ""
	}
	r.byID[id] = ser
	if other, ok := r.byStr[ser]; ok && other != id {
		return fmt.Sprintf("keys %s and %s have the same serialisation %s", other, id, ser)
	}
	r.byStr[ser] = id
	return ""
}

// rootKey builds the root of a family: master key of a seed that depends on
// (run seed, net, depth) only, placed at the depth the specification says.
func (r *hdRegistry) rootKey(w *world, root hdRoot, seedBytes []byte) (*hdkeychain.ExtendedKey, string, error) {
	family := fmt.Sprintf("%s/d%d", root.Net, root.Depth)
	if seedBytes == nil {
		r.mu.Lock()
		seedBytes = r.seeds[family]
		if seedBytes == nil {
			h := sha256d([]byte(fmt.Sprintf("hd-root %d %s", r.seed, family)))
			seedBytes = h
			r.seeds[family] = seedBytes
		}
		r.mu.Unlock()
	} else {
		family = fmt.Sprintf("%s/seed%x", root.Net, sha256d(seedBytes)[:6])
	}
	p := w.params[root.Net]
	m, err := hdkeychain.NewMaster(seedBytes, p)
	if err != nil {
		return nil, "", err
	}
	if root.Depth > 0 {
		priv, err := m.ECPrivKey()
		if err != nil {
			return nil, "", err
		}
		fp := sha256d(seedBytes)[:4]
		m = hdkeychain.NewExtendedKey(p.HDPrivateKeyID[:], priv.Serialize(), m.ChainCode(), fp, uint8(root.Depth), root.Child.num(), true)
	}
	if !root.Priv {
		m, err = m.Neuter()
		if err != nil {
			return nil, "", err
		}
	}
	return m, family, nil
}

// checkKey compares every observable of a key with the step the specification
// computed; parent is the key it was derived from (nil: unknown).
func (b *builder) checkKey(c *vrun.Ctx, rc rawCase, reg *hdRegistry, family string, k *hdkeychain.ExtendedKey, st hdStep,
	parent *hdkeychain.ExtendedKey, derived bool) {

	id := fmt.Sprintf("%s %s priv=%t", family, pathString(st.Path), st.Priv)
	bad := func(key, what string) {
		rp := rc.replay()
		rp["key"] = id
		c.Violation("hd:"+key, fmt.Sprintf("extended key %s: %s", id, what), rp)
	}
	c.AddEval(9)
	if k.IsPrivate() != st.Priv {
		bad("is-private", fmt.Sprintf("IsPrivate() = %t, specification %t", k.IsPrivate(), st.Priv))
	}
	if int(k.Depth()) != st.Depth {
		bad("depth", fmt.Sprintf("Depth() = %d, specification %d", k.Depth(), st.Depth))
	}
	if k.ChildIndex() != st.ChildNum.num() {
		bad("child-number", fmt.Sprintf("ChildIndex() = %d, specification %d", k.ChildIndex(), st.ChildNum.num()))
	}
	if !bytes.Equal(k.Version(), ints2bytes(st.Version)) {
		bad("version", fmt.Sprintf("Version() = % x, specification % x", k.Version(), ints2bytes(st.Version)))
	}
	var nets []string
	for _, n := range b.t.w.names {
		if k.IsForNet(b.t.w.params[n]) {
			nets = append(nets, n)
		}
	}
	if !sameSet(nets, st.ForNets) {
		bad("isfornet", fmt.Sprintf("IsForNet holds for %v, specification %v", nets, st.ForNets))
	}
	pub, err := k.ECPubKey()
	if err != nil {
		bad("pubkey", fmt.Sprintf("ECPubKey fails: %v", err))
		return
	}
	if derived && parent != nil {
		ppub, err := parent.ECPubKey()
		if err == nil {
			fp := binary.BigEndian.Uint32(hash160(ppub.SerializeCompressed())[:4])
			if k.ParentFingerprint() != fp {
				bad("parent-fingerprint", fmt.Sprintf("ParentFingerprint() = %08x, parent key hashes to %08x", k.ParentFingerprint(), fp))
			}
		}
	}
	// serialisation: layout, round trip
	ser := k.String()
	raw, ok := refB58Decode(ser)
	total := 4
	for _, f := range hdLayout {
		total += f.N
	}
	if !ok || len(raw) != total {
		bad("serialised-length", fmt.Sprintf("String() decodes to %d bytes, layout has %d", len(raw), total))
		return
	}
	if !bytes.Equal(sha256d(raw[:total-4])[:4], raw[total-4:]) {
		bad("serialised-checksum", "checksum of String() is not the first four bytes of the double SHA-256")
	}
	off := 0
	field := map[string][]byte{}
	for _, f := range hdLayout {
		field[f.F] = raw[off : off+f.N]
		off += f.N
	}
	var wantKey []byte
	if st.Priv {
		priv, err := k.ECPrivKey()
		if err != nil {
			bad("privkey", fmt.Sprintf("ECPrivKey fails: %v", err))
			return
		}
		wantKey = append([]byte{0}, priv.Serialize()...)
		if !bytes.Equal(priv.PubKey().SerializeCompressed(), pub.SerializeCompressed()) {
			bad("pubkey", "ECPubKey is not the public key of ECPrivKey")
		}
	} else {
		wantKey = pub.SerializeCompressed()
		if _, err := k.ECPrivKey(); !errors.Is(err, hdkeychain.ErrNotPrivExtKey) {
			bad("privkey-from-public", fmt.Sprintf("ECPrivKey on a public key: %v", err))
		}
	}
	var fpb [4]byte
	binary.BigEndian.PutUint32(fpb[:], k.ParentFingerprint())
	var cnb [4]byte
	binary.BigEndian.PutUint32(cnb[:], st.ChildNum.num())
	c.AddEval(6)
	switch {
	case !bytes.Equal(field["version"], ints2bytes(st.Version)):
		bad("serialised-version", fmt.Sprintf("version bytes % x, specification % x", field["version"], ints2bytes(st.Version)))
	case int(field["depth"][0]) != st.Depth:
		bad("serialised-depth", fmt.Sprintf("depth byte %d, specification %d", field["depth"][0], st.Depth))
	case !bytes.Equal(field["parentfp"], fpb[:]):
		bad("serialised-parentfp", fmt.Sprintf("fingerprint bytes % x, accessor % x", field["parentfp"], fpb[:]))
	case !bytes.Equal(field["childnum"], cnb[:]):
		bad("serialised-childnum", fmt.Sprintf("child number bytes % x, specification % x", field["childnum"], cnb[:]))
	case !bytes.Equal(field["chaincode"], k.ChainCode()):
		bad("serialised-chaincode", "chain code bytes differ from ChainCode()")
	case !bytes.Equal(field["key"], wantKey):
		bad("serialised-key", fmt.Sprintf("key field % x, expected % x", field["key"], wantKey))
	}
	k2, err := hdkeychain.NewKeyFromString(ser)
	c.AddEval(2)
	if err != nil {
		bad("round-trip", fmt.Sprintf("NewKeyFromString(String()) fails: %v", err))
	} else if k2.String() != ser || k2.IsPrivate() != k.IsPrivate() || k2.Depth() != k.Depth() || k2.ChildIndex() != k.ChildIndex() ||
		k2.ParentFingerprint() != k.ParentFingerprint() || !bytes.Equal(k2.ChainCode(), k.ChainCode()) {
		bad("round-trip", fmt.Sprintf("NewKeyFromString(String()) is another key: %s", k2.String()))
	}
	if why := reg.note(id, ser); why != "" {
		bad("derivation-commutes", why)
	}
}

func hdErrName(err error) string {
	switch {
	case err == nil:
		return ""
	case errors.Is(err, hdkeychain.ErrDeriveHardFromPublic):
		return "hardfrompub"
	case errors.Is(err, hdkeychain.ErrDeriveBeyondMaxDepth):
		return "maxdepth"
	case errors.Is(err, hdkeychain.ErrInvalidChild):
		return "invalidchild"
	}
	return "other:" + err.Error()
}

// play runs an operation sequence from a root and compares every step.
func (b *builder) play(c *vrun.Ctx, rc rawCase, reg *hdRegistry, root hdRoot, seed []byte, ops []hdOp, run hdRun) (*hdkeychain.ExtendedKey, error) {
	k, family, err := reg.rootKey(b.t.w, root, seed)
	if err != nil {
		return nil, err
	}
	b.checkKey(c, rc, reg, family, k, run.Start, nil, false)
	if len(ops) != len(run.Steps) {
		return nil, fmt.Errorf("hd case has %d operations and %d expected steps", len(ops), len(run.Steps))
	}
	for i, op := range ops {
		st := run.Steps[i]
		var next *hdkeychain.ExtendedKey
		var err error
		if op.Op == "neuter" {
			next, err = k.Neuter()
		} else {
			next, err = k.Derive(op.I.num())
		}
		c.AddEval(1)
		got := hdErrName(err)
		if got == "invalidchild" {
			// probability 2^-127: the index has no child; nothing to compare
			return nil, nil
		}
		if got != st.Err {
			rp := rc.replay()
			rp["step"] = i + 1
			c.Violation("hd:derive-outcome:"+st.Err+"-expected", fmt.Sprintf("family %s step %d (%s %v) from %s: outcome %q, specification %q",
				family, i+1, op.Op, op.I, pathString(st.Path), got, st.Err), rp)
			return nil, nil
		}
		if err != nil {
			continue
		}
		b.checkKey(c, rc, reg, family, next, st, k, op.Op == "derive")
		if op.Op == "neuter" && k.IsPrivate() {
			c.AddEval(1)
			if next.ParentFingerprint() != k.ParentFingerprint() || !bytes.Equal(next.ChainCode(), k.ChainCode()) {
				c.Violation("hd:neuter-bookkeeping", fmt.Sprintf("family %s %s: Neuter changed the fingerprint or chain code", family, pathString(st.Path)), rc.replay())
			}
		}
		k = next
	}
	return k, nil
}

func (b *builder) runHd(c *vrun.Ctx, reg *hdRegistry, rc rawCase) error {
	var cs struct {
		Root hdRoot `json:"root"`
		Ops  []hdOp `json:"ops"`
	}
	var ex hdRun
	if err := rc.decode(&cs, &ex); err != nil {
		return err
	}
	if _, err := b.play(c, rc, reg, cs.Root, nil, cs.Ops, ex); err != nil {
		return err
	}
	c.AddTraces(1)
	shape := ""
	for _, op := range cs.Ops {
		switch {
		case op.Op == "neuter":
			shape += "N"
		case op.I.H:
			shape += "H"
		default:
			shape += "n"
		}
	}
	c.Distinct(fmt.Sprintf("hd/priv=%t/d%d/%s", cs.Root.Priv, cs.Root.Depth, shape))
	return nil
}

// runHdVec: a documented BIP32 vector: derive the path from the seed and
// compare with the documented serialisations, along the private chain and along
// the neutered one.
func (b *builder) runHdVec(c *vrun.Ctx, reg *hdRegistry, rc rawCase) error {
	var cs struct {
		V struct {
			Name string  `json:"name"`
			Net  string  `json:"net"`
			Seed []int   `json:"seed"`
			Path []hdIdx `json:"path"`
			Pub  string  `json:"pub"`
			Priv string  `json:"priv"`
		} `json:"v"`
	}
	var ex struct {
		Ops  []hdOp `json:"ops"`
		Priv hdRun  `json:"priv"`
		Pub  hdRun  `json:"pub"`
	}
	if err := rc.decode(&cs, &ex); err != nil {
		return err
	}
	root := hdRoot{Net: cs.V.Net, Priv: true}
	seed := ints2bytes(cs.V.Seed)
	k, err := b.play(c, rc, reg, root, seed, ex.Ops, ex.Priv)
	if err != nil {
		return err
	}
	bad := func(key, what string) {
		c.Violation("hd:bip32-vector:"+key, fmt.Sprintf("%s: %s", cs.V.Name, what), rc.replay())
	}
	if k != nil {
		c.AddEval(2)
		if k.String() != cs.V.Priv {
			bad("private", fmt.Sprintf("private key %s, documented %s", k.String(), cs.V.Priv))
		}
		n, err := k.Neuter()
		if err != nil || n.String() != cs.V.Pub {
			bad("public", fmt.Sprintf("public key %v (%v), documented %s", n, err, cs.V.Pub))
		}
	}
	pubOps := append(append([]hdOp(nil), ex.Ops...), hdOp{Op: "neuter"})
	if _, err := b.play(c, rc, reg, root, seed, pubOps, ex.Pub); err != nil {
		return err
	}
	// a trailing normal step can also be taken on the public side
	if l := len(cs.V.Path); l > 0 && !cs.V.Path[l-1].H {
		par, _, err := reg.rootKey(b.t.w, root, seed)
		if err != nil {
			return err
		}
		for _, i := range cs.V.Path[:l-1] {
			if par, err = par.Derive(i.num()); err != nil {
				return err
			}
		}
		np, err := par.Neuter()
		if err != nil {
			return err
		}
		ch, err := np.Derive(cs.V.Path[l-1].num())
		c.AddEval(1)
		if err != nil || ch.String() != cs.V.Pub {
			bad("public-derivation", fmt.Sprintf("public derivation of the last step gives %v (%v), documented %s", ch, err, cs.V.Pub))
		}
	}
	// the documented strings parse and carry the specification's bookkeeping
	for _, doc := range []struct {
		s  string
		st hdStep
	}{{cs.V.Priv, lastStep(ex.Priv)}, {cs.V.Pub, lastStep(ex.Pub)}} {
		dk, err := hdkeychain.NewKeyFromString(doc.s)
		c.AddEval(1)
		if err != nil {
			bad("parse", fmt.Sprintf("NewKeyFromString(%s) fails: %v", doc.s, err))
			continue
		}
		if dk.IsPrivate() != doc.st.Priv || int(dk.Depth()) != doc.st.Depth || dk.ChildIndex() != doc.st.ChildNum.num() ||
			!bytes.Equal(dk.Version(), ints2bytes(doc.st.Version)) || dk.String() != doc.s {
			bad("parse-bookkeeping", fmt.Sprintf("documented key %s parses to depth %d child %d private %t", doc.s, dk.Depth(), dk.ChildIndex(), dk.IsPrivate()))
		}
	}
	c.AddTraces(1)
	c.Distinct("hdvec/" + cs.V.Name)
	return nil
}

func lastStep(r hdRun) hdStep {
	if len(r.Steps) == 0 {
		return r.Start
	}
	return r.Steps[len(r.Steps)-1]
}

// ---- serialised key strings -------------------------------------------------

type hdStrAbs struct {
	Version []int  `json:"version"`
	Total   int    `json:"total"`
	Ck      string `json:"ck"`
	KeyType string `json:"keytype"`
}

type hdStrDecision struct {
	Accept        bool     `json:"accept"`
	Priv          bool     `json:"priv"`
	ForNets       []string `json:"fornets"`
	NeuterOK      bool     `json:"neuterok"`
	NeuterVersion []int    `json:"neuterversion"`
}

type hdStrTable struct {
	rows     map[string]hdStrDecision
	versions map[string]bool
}

func hdStrKey(a hdStrAbs) string {
	return fmt.Sprintf("%v|%d|%s|%s", a.Version, a.Total, a.Ck, a.KeyType)
}

func loadHdStr(cases []rawCase) (*hdStrTable, error) {
	t := &hdStrTable{rows: map[string]hdStrDecision{}, versions: map[string]bool{}}
	for _, rc := range cases {
		if rc.kind != "hdstr" {
			continue
		}
		var cs struct {
			S hdStrAbs `json:"s"`
		}
		var ex struct {
			D hdStrDecision `json:"d"`
		}
		if err := rc.decode(&cs, &ex); err != nil {
			return nil, err
		}
		t.rows[hdStrKey(cs.S)] = ex.D
		t.versions[fmt.Sprint(cs.S.Version)] = true
	}
	if len(t.rows) == 0 {
		return nil, fmt.Errorf("serialised extended key table missing from the TLC output")
	}
	return t, nil
}

// abstract: the attributes of a string offered to NewKeyFromString.
func (t *hdStrTable) abstract(s string) hdStrAbs {
	raw, ok := refB58Decode(s)
	if !ok {
		raw = nil
	}
	a := hdStrAbs{Version: []int{7, 7, 7, 7}, Total: len(raw), Ck: "bad", KeyType: "priv"}
	switch {
	case a.Total < 82:
		a.Total = 81
	case a.Total > 82:
		a.Total = 83
	}
	if len(raw) >= 4 {
		v := []int{int(raw[0]), int(raw[1]), int(raw[2]), int(raw[3])}
		if t.versions[fmt.Sprint(v)] {
			a.Version = v
		}
	}
	if len(raw) >= 5 && bytes.Equal(sha256d(raw[:len(raw)-4])[:4], raw[len(raw)-4:]) {
		a.Ck = "ok"
	}
	if len(raw) != 82 {
		return a
	}
	key := raw[45:78]
	switch key[0] {
	case 0:
		k := new(big.Int).SetBytes(key[1:])
		switch {
		case k.Sign() == 0:
			a.KeyType = "priv-zero"
		case k.Cmp(curveN) == 0:
			a.KeyType = "priv-eqN"
		case k.Cmp(curveN) > 0:
			a.KeyType = "priv-gtN"
		}
	case 2, 3:
		if curveY(new(big.Int).SetBytes(key[1:])) != nil {
			a.KeyType = "pub"
		} else {
			a.KeyType = "pub-off"
		}
	default:
		a.KeyType = "pub-prefix"
	}
	return a
}

func (t *hdStrTable) check(c *vrun.Ctx, w *world, s, shape, what string, replay any) (hdStrAbs, error) {
	a := t.abstract(s)
	d, ok := t.rows[hdStrKey(a)]
	if !ok {
		return a, fmt.Errorf("%s %q: no row for abstract serialised key %+v", what, s, a)
	}
	var k *hdkeychain.ExtendedKey
	var err error
	if pn := safely(func() { k, err = hdkeychain.NewKeyFromString(s) }); pn != "" {
		c.Violation("hdstr:"+shape+":panic", fmt.Sprintf("NewKeyFromString(%q) [%s] panics: %s", s, what, pn), map[string]any{"string": s, "case": replay})
		return a, nil
	}
	c.AddEval(1)
	bad := func(key, why string) {
		c.Violation("hdstr:"+shape+":"+key, fmt.Sprintf("NewKeyFromString(%q) [%s]: %s", s, what, why),
			map[string]any{"string": s, "abstract": a, "origin": what, "case": replay})
	}
	if (err == nil) != d.Accept {
		if d.Accept {
			bad("rejected-must-accept", fmt.Sprintf("error %v, specification accepts", err))
		} else {
			bad("accepted-must-reject", "accepted, specification rejects")
		}
		return a, nil
	}
	if err != nil {
		return a, nil
	}
	c.AddEval(4)
	if k.IsPrivate() != d.Priv {
		bad("is-private", fmt.Sprintf("IsPrivate() = %t, specification %t", k.IsPrivate(), d.Priv))
	}
	if k.String() != s {
		bad("re-encode", fmt.Sprintf("String() gives %q", k.String()))
	}
	var nets []string
	for _, n := range w.names {
		if k.IsForNet(w.params[n]) {
			nets = append(nets, n)
		}
	}
	if !sameSet(nets, d.ForNets) {
		bad("isfornet", fmt.Sprintf("IsForNet holds for %v, specification %v", nets, d.ForNets))
	}
	n, err := k.Neuter()
	if (err == nil) != d.NeuterOK {
		bad("neuter", fmt.Sprintf("Neuter error %v, specification: possible = %t", err, d.NeuterOK))
	} else if err == nil && !bytes.Equal(n.Version(), ints2bytes(d.NeuterVersion)) {
		bad("neuter-version", fmt.Sprintf("Neuter gives version % x, specification % x", n.Version(), ints2bytes(d.NeuterVersion)))
	}
	return a, nil
}

func (b *builder) hdStrBytes(a hdStrAbs) []byte {
	raw := ints2bytes(a.Version)
	raw = append(raw, byte(b.rng.Intn(256)))   // depth
	raw = append(raw, randBytes(b.rng, 4)...)  // parent fingerprint
	raw = append(raw, randBytes(b.rng, 4)...)  // child number
	raw = append(raw, randBytes(b.rng, 32)...) // chain code
	key := make([]byte, 33)
	switch a.KeyType {
	case "priv":
		copy(key[1:], randKey(b.rng).Serialize())
	case "priv-zero":
	case "priv-eqN":
		curveN.FillBytes(key[1:])
	case "priv-gtN":
		copy(key[1:], bytes.Repeat([]byte{0xff}, 32))
	case "pub":
		copy(key, randKey(b.rng).PubKey().SerializeCompressed())
	case "pub-off":
		key[0] = byte(2 + b.rng.Intn(2))
		copy(key[1:], offCurveX(b.rng))
	case "pub-prefix":
		copy(key, randKey(b.rng).PubKey().SerializeCompressed())
		key[0] = []byte{1, 4, 5, 6, 0xff}[b.rng.Intn(5)]
	}
	raw = append(raw, key...)
	switch a.Total {
	case 81:
		raw = raw[:len(raw)-1]
	case 83:
		raw = append(raw, byte(b.rng.Intn(256)))
	}
	sum := sha256d(raw)[:4]
	if a.Ck != "ok" {
		sum[b.rng.Intn(4)] ^= byte(1 + b.rng.Intn(255))
	}
	return append(raw, sum...)
}

func (b *builder) runHdStr(c *vrun.Ctx, ht *hdStrTable, rc rawCase, edits int) error {
	var cs struct {
		S hdStrAbs `json:"s"`
	}
	var ex struct {
		D hdStrDecision `json:"d"`
	}
	if err := rc.decode(&cs, &ex); err != nil {
		return err
	}
	if cs.S.Total != 82 && cs.S.KeyType != "priv" {
		// the key field has no position in a string of another length
		c.AddExtra("rows_standing_for_another", 1)
		return nil
	}
	for rep := 0; rep < 3; rep++ {
		s := base58.Encode(b.hdStrBytes(cs.S))
		a, err := ht.check(c, b.t.w, s, "table-row", "row of the serialised key table", rc.replay())
		if err != nil {
			return err
		}
		c.AddEval(1)
		if hdStrKey(a) != hdStrKey(cs.S) {
			return fmt.Errorf("binder built serialised key %q with attributes %+v, requested %+v", s, a, cs.S)
		}
		if ex.D.Accept {
			for j := 0; j < edits; j++ {
				k := 1 + b.rng.Intn(4)
				typ := []string{"sub", "subany", "ins", "del", "swap", "mix"}[b.rng.Intn(6)]
				e := applyEdit(b.rng, s, "b58", typ, "any", k)
				if e == s {
					continue
				}
				if _, err := ht.check(c, b.t.w, e, "edited", fmt.Sprintf("%d %s edit(s) of valid extended key %q", k, typ, s), rc.replay()); err != nil {
					return err
				}
			}
		}
	}
	c.AddTraces(1)
	c.Distinct(fmt.Sprintf("hdstr/%v/%d/%s/%s", cs.S.Version, cs.S.Total, cs.S.Ck, cs.S.KeyType))
	return nil
}
