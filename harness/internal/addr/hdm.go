package addr

import (
	"bytes"
	"fmt"
	"strconv"
	"strings"
	"time"

	"github.com/btcsuite/btcd/btcutil/v2/hdkeychain"

	"verif/harness/internal/tla"
	"verif/harness/internal/tlc"
	"verif/harness/internal/vrun"
)

// HdKeys.tla: extended keys as objects living side by side.  TLC's labelled
// state graph is walked; every edge is an hdkeychain call on real keys, and
// after every step EVERY live key (not only the one operated on) and the global
// network parameter sets are compared with the specification's state.

// NetSeq of HdKeys.tla
var hdmNets = []string{"mainnet", "simnet", "testnet3"}

const keyHdZeroMate = "hd:zero-destroys-key-sharing-buffers-after-neuter"

type hdmRef struct {
	pub, priv, chain []byte
	fp               uint32
}

type hdmSlot struct {
	key     *hdkeychain.ExtendedKey
	corrupt bool // destroyed by the recorded defect: not compared any more
}

type hdMachine struct {
	c     *vrun.Ctx
	w     *world
	seeds map[string][]byte
	refs  map[string]*hdmRef
	snap  map[string][2][4]byte // HD version bytes of every parameter set at start
	steps int64
	ops   map[string]int64
}

func runHdKeysTLC(c *vrun.Ctx) (*tlc.Result, error) {
	cfg := "HdKeys_quick.cfg"
	if c.Thorough {
		cfg = "HdKeys_thorough.cfg"
	}
	res, err := tlc.Run(tlc.Opts{SpecDir: c.SpecDir("addr"), Module: "HdKeys", Config: cfg, Workers: 2,
		Timeout: 30 * time.Minute, Scratch: c.Scratch, HeapGB: 6, DumpGraph: true})
	if err != nil {
		return nil, err
	}
	if !res.OK {
		return nil, fmt.Errorf("HdKeys.tla: TLC reports %s %s on the specification itself (not a verdict about btcd)", res.ErrKind, res.ErrName)
	}
	return res, nil
}

func (m *hdMachine) seedOf(net string) []byte {
	if s, ok := m.seeds[net]; ok {
		return s
	}
	s := sha256d([]byte(fmt.Sprintf("hd-machine %d %s", m.c.Seed, net)))
	m.seeds[net] = s
	return s
}

func idxOf(v tla.Value) hdIdx { return hdIdx{H: v.F("h").Bool(), N: v.F("n").Int()} }

func pathOf(v tla.Value) []hdIdx {
	var p []hdIdx
	for _, e := range v.Seq() {
		p = append(p, idxOf(e))
	}
	return p
}

// reference: the key at (origin, path) made from fresh objects, once, before
// anything else ran on them.
func (m *hdMachine) ref(origin string, path []hdIdx) (*hdmRef, error) {
	id := origin + " " + pathString(path)
	if r, ok := m.refs[id]; ok {
		return r, nil
	}
	k, err := hdkeychain.NewMaster(m.seedOf(origin), m.w.params[origin])
	if err != nil {
		return nil, err
	}
	for _, i := range path {
		if k, err = k.Derive(i.num()); err != nil {
			return nil, err
		}
	}
	pub, err := k.ECPubKey()
	if err != nil {
		return nil, err
	}
	priv, err := k.ECPrivKey()
	if err != nil {
		return nil, err
	}
	r := &hdmRef{pub: pub.SerializeCompressed(), priv: priv.Serialize(), chain: k.ChainCode(), fp: k.ParentFingerprint()}
	m.refs[id] = r
	return r, nil
}

func (m *hdMachine) bad(key, what string, node *tlc.Node, trail []string) {
	m.c.Violation("hdm:"+key, what+" [after "+strings.Join(trail, " ")+"]", map[string]any{"trail": trail, "state": node.State.Go()})
}

// matches compares a real key with the reference material of its identity.
func (m *hdMachine) matches(k *hdkeychain.ExtendedKey, origin string, path []hdIdx, priv bool) (bool, string) {
	r, err := m.ref(origin, path)
	if err != nil {
		return false, "reference: " + err.Error()
	}
	if why := safely(func() {
		pub, e := k.ECPubKey()
		if e != nil {
			panic("ECPubKey: " + e.Error())
		}
		if !bytes.Equal(pub.SerializeCompressed(), r.pub) {
			panic(fmt.Sprintf("public key %x, a fresh derivation gives %x", pub.SerializeCompressed(), r.pub))
		}
		if !bytes.Equal(k.ChainCode(), r.chain) {
			panic(fmt.Sprintf("chain code %x, a fresh derivation gives %x", k.ChainCode(), r.chain))
		}
		if k.ParentFingerprint() != r.fp {
			panic(fmt.Sprintf("parent fingerprint %08x, a fresh derivation gives %08x", k.ParentFingerprint(), r.fp))
		}
		if priv {
			pk, e := k.ECPrivKey()
			if e != nil || !bytes.Equal(pk.Serialize(), r.priv) {
				panic("private key differs from a fresh derivation")
			}
		}
	}); why != "" {
		return false, why
	}
	return true, ""
}

// checkState compares every slot and the parameter sets with a state.
func (m *hdMachine) checkState(slots []hdmSlot, node *tlc.Node, trail []string) {
	keys := node.State["keys"].Seq()
	for s, kv := range keys {
		sl := slots[s]
		if sl.corrupt {
			continue
		}
		st := kv.F("st").Str()
		m.c.AddEval(1)
		switch st {
		case "none":
			continue
		case "zeroed":
			if sl.key == nil || sl.key.String() != "zeroed extended key" {
				m.bad("zeroed", fmt.Sprintf("slot %d: a zeroed key prints as %v", s+1, sl.key), node, trail)
			}
			continue
		}
		k := sl.key
		origin, net, priv := kv.F("origin").Str(), kv.F("net").Str(), kv.F("priv").Bool()
		path := pathOf(kv.F("path"))
		ver := ints2bytes(kv.F("ver").Ints())
		id := fmt.Sprintf("slot %d (%s %s private=%t, for %s)", s+1, origin, pathString(path), priv, net)
		m.c.AddEval(8)
		if !bytes.Equal(k.Version(), ver) {
			m.bad("version", fmt.Sprintf("%s carries version bytes % x, specification % x", id, k.Version(), ver), node, trail)
		}
		var nets, want []string
		for _, r := range m.w.rows {
			if k.IsForNet(m.w.params[r.Name]) {
				nets = append(nets, r.Name)
			}
			if bytes.Equal(ints2bytes(r.HdPriv), ver) || bytes.Equal(ints2bytes(r.HdPub), ver) {
				want = append(want, r.Name)
			}
		}
		if !sameSet(nets, want) {
			m.bad("isfornet", fmt.Sprintf("%s: IsForNet holds for %v, specification %v", id, nets, want), node, trail)
		}
		child := uint32(0)
		if len(path) > 0 {
			child = path[len(path)-1].num()
		}
		if k.IsPrivate() != priv || int(k.Depth()) != len(path) || k.ChildIndex() != child {
			m.bad("bookkeeping", fmt.Sprintf("%s: private=%t depth=%d child=%d", id, k.IsPrivate(), k.Depth(), k.ChildIndex()), node, trail)
		}
		if ok, why := m.matches(k, origin, path, priv); !ok {
			m.bad("key-material", fmt.Sprintf("%s: %s", id, why), node, trail)
			continue
		}
		ser := k.String()
		raw, ok := refB58Decode(ser)
		if !ok || len(raw) != 82 || !bytes.Equal(raw[:4], ver) {
			m.bad("serialised-version", fmt.Sprintf("%s serialises as %s (version bytes % x), specification % x", id, ser, raw[:min(4, len(raw))], ver), node, trail)
		}
		back, err := hdkeychain.NewKeyFromString(ser)
		if err != nil || back.String() != ser || back.IsPrivate() != priv || int(back.Depth()) != len(path) ||
			!bytes.Equal(back.Version(), ver) || back.ChildIndex() != child {
			m.bad("parse-back", fmt.Sprintf("%s: NewKeyFromString(%s) = %v (%v)", id, ser, back, err), node, trail)
		}
	}
	// the parameter sets: the ones of the machine against the state, all against
	// the snapshot taken before the first step
	pv := node.State["params"]
	for _, nk := range pv.Domain() {
		name := nk.Str()
		p := m.w.params[name]
		rec := pv.AtS(name)
		m.c.AddEval(2)
		if !bytes.Equal(p.HDPrivateKeyID[:], ints2bytes(rec.F("hdpriv").Ints())) || !bytes.Equal(p.HDPublicKeyID[:], ints2bytes(rec.F("hdpub").Ints())) {
			m.bad("params-changed", fmt.Sprintf("network parameters of %s now have HD version bytes % x / % x, specification % x / % x",
				name, p.HDPrivateKeyID[:], p.HDPublicKeyID[:], ints2bytes(rec.F("hdpriv").Ints()), ints2bytes(rec.F("hdpub").Ints())), node, trail)
			// put them back: one report per step is enough
			copy(p.HDPrivateKeyID[:], ints2bytes(rec.F("hdpriv").Ints()))
			copy(p.HDPublicKeyID[:], ints2bytes(rec.F("hdpub").Ints()))
		}
	}
	for name, sn := range m.snap {
		p := m.w.params[name]
		if p.HDPrivateKeyID != sn[0] || p.HDPublicKeyID != sn[1] {
			m.bad("params-changed", fmt.Sprintf("network parameters of %s changed: HD version bytes % x / % x, were % x / % x",
				name, p.HDPrivateKeyID[:], p.HDPublicKeyID[:], sn[0][:], sn[1][:]), node, trail)
			p.HDPrivateKeyID, p.HDPublicKeyID = sn[0], sn[1]
		}
	}
}

// apply performs the hdkeychain call an edge stands for.
func (m *hdMachine) apply(slots []hdmSlot, action string, from *tlc.Node, trail []string) (stop bool, err error) {
	// labels: NewMaster(slot,net) Derive(src,dst,hardened) Neuter(src,dst) SetNet(slot,net) Zero(slot)
	f := strings.FieldsFunc(action, func(r rune) bool { return r == '(' || r == ')' || r == ',' })
	if len(f) < 2 {
		return false, fmt.Errorf("HdKeys.tla: edge label %q", action)
	}
	num := func(i int) int { n, _ := strconv.Atoi(f[i]); return n - 1 }
	netOf := func(i int) string { return hdmNets[num(i)] }
	m.ops[f[0]]++
	switch f[0] {
	case "NewMaster":
		k, e := hdkeychain.NewMaster(m.seedOf(netOf(2)), m.w.params[netOf(2)])
		if e != nil {
			return false, e
		}
		slots[num(1)] = hdmSlot{key: k}
	case "Derive":
		s, d := num(1), num(2)
		if slots[s].corrupt {
			slots[d] = hdmSlot{corrupt: true}
			return false, nil
		}
		i := hdIdx{H: f[3] == "1"}
		k, e := slots[s].key.Derive(i.num())
		if e != nil {
			if hdErrName(e) == "invalidchild" {
				return true, nil
			}
			m.bad("derive-error", fmt.Sprintf("Derive(%d) on slot %d fails: %v", i.num(), s+1, e), from, trail)
			return true, nil
		}
		slots[d] = hdmSlot{key: k}
	case "Neuter":
		s, d := num(1), num(2)
		k, e := slots[s].key.Neuter()
		if e != nil {
			m.bad("neuter-error", fmt.Sprintf("Neuter on slot %d fails: %v", s+1, e), from, trail)
			return true, nil
		}
		slots[d] = hdmSlot{key: k}
	case "SetNet":
		slots[num(1)].key.SetNet(m.w.params[netOf(2)])
	case "Zero":
		s := num(1)
		slots[s].key.Zero()
		// keys that share buffers with the zeroed one (recorded defect)
		fk := from.State["keys"].Seq()
		for _, mv := range fk[s].F("mates").Set() {
			mt := mv.Int() - 1
			kv := fk[mt]
			m.c.AddEval(1)
			if ok, why := m.matches(slots[mt].key, kv.F("origin").Str(), pathOf(kv.F("path")), kv.F("priv").Bool()); !ok {
				slots[mt].corrupt = true
				m.c.Violation(keyHdZeroMate, fmt.Sprintf("Zero() on the key in slot %d destroys the key in slot %d (%s %s, private=%t), which Neuter made share its buffers: %s [after %s]",
					s+1, mt+1, kv.F("origin").Str(), pathString(pathOf(kv.F("path"))), kv.F("priv").Bool(), why, strings.Join(trail, " ")),
					map[string]any{"trail": trail})
			}
		}
	default:
		return false, fmt.Errorf("HdKeys.tla: unknown action %q", action)
	}
	return false, nil
}

// replayHdKeys walks a set of paths that covers the graph's edges.
func replayHdKeys(c *vrun.Ctx, w *world, res *tlc.Result) error {
	g := res.Graph
	if g == nil || len(g.Init) != 1 {
		return fmt.Errorf("HdKeys.tla: no state graph")
	}
	m := &hdMachine{c: c, w: w, seeds: map[string][]byte{}, refs: map[string]*hdmRef{}, snap: map[string][2][4]byte{}, ops: map[string]int64{}}
	for name, p := range w.params {
		m.snap[name] = [2][4]byte{p.HDPrivateKeyID, p.HDPublicKeyID}
	}
	nslots := len(g.Init[0].State["keys"].Seq())
	maxPaths := 0 // every edge of the graph, in both tiers
	t0 := time.Now()
	paths, covered := g.CoverPaths(c.Rand("hdkeys"), maxPaths, 30)
	for _, p := range paths {
		slots := make([]hdmSlot, nslots)
		var trail []string
		for _, st := range p {
			trail = append(trail, st.Action)
			c.Distinct("hdkeys/" + st.Action + "/" + st.From.ID)
			stop, err := m.apply(slots, st.Action, st.From, trail)
			if err != nil {
				return err
			}
			m.steps++
			if stop {
				break
			}
			m.checkState(slots, st.To, trail)
		}
		c.AddTraces(1)
	}
	for _, op := range []string{"NewMaster", "Derive", "Neuter", "SetNet", "Zero"} {
		if m.ops[op] == 0 {
			return fmt.Errorf("HdKeys.tla: no %s step was replayed", op)
		}
	}
	c.AddModel(res.Distinct, res.Generated)
	c.Logf("HdKeys.tla: %d distinct states, %d edges (%.1fs); %d paths, %d steps replayed on real keys covering %d edges, %.1fs",
		res.Distinct, g.Edges, res.WallS, len(paths), m.steps, covered, time.Since(t0).Seconds())
	c.SetExtra("hdkeys_states", res.Distinct)
	c.SetExtra("hdkeys_edges", int64(g.Edges))
	c.SetExtra("hdkeys_edges_replayed", int64(covered))
	c.SetExtra("hdkeys_steps", m.steps)
	c.Distinct(fmt.Sprintf("hdkeys/%d-slots", nslots))
	for a := range m.ops {
		c.Distinct("hdkeys/op/" + a)
	}
	return nil
}
