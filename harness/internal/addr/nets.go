package addr

import (
	"bytes"
	"fmt"

	"github.com/btcsuite/btcd/address/v2"
	"github.com/btcsuite/btcd/chaincfg/v2"
	"github.com/btcsuite/btcd/wire/v2"

	"verif/harness/internal/vrun"
)

// netRow is one row of NetTable in AddrCodec.tla.
type netRow struct {
	Name     string `json:"name"`
	Hrp      string `json:"hrp"`
	RegHrp   string `json:"reghrp"`
	HrpCodes []int  `json:"hrpcodes"`
	Pkh      int    `json:"pkh"`
	Sh       int    `json:"sh"`
	Wif      int    `json:"wif"`
	HdPriv   []int  `json:"hdpriv"`
	HdPub    []int  `json:"hdpub"`
	Reg      bool   `json:"reg"`
}

type netExpect struct {
	SegPrefix     bool     `json:"segprefix"`
	ImplSegPrefix bool     `json:"implsegprefix"`
	ImplDecodable bool     `json:"impldecodable"`
	HrpNets       []string `json:"hrpnets"`
	ImplHrpNets   []string `json:"implhrpnets"`
	B58Like       string   `json:"b58like"`
	PkhID         bool     `json:"pkhid"`
	ShID          bool     `json:"shid"`
	HdPubOf       []int    `json:"hdpubof"`
	OtherPkh      bool     `json:"otherpkh"`
	OtherSh       bool     `json:"othersh"`
	P2A           string   `json:"p2a"`
}

// world is what the binder knows about the networks: the specification's rows
// and the chaincfg parameter sets they are bound to.
type world struct {
	rows   []netRow
	byName map[string]*netRow
	params map[string]*chaincfg.Params
	names  []string
	// from the specification's table
	regPrefix map[string]bool // registered hrp (canonical form) + "1"
	regHrps   []string
	// per prefix / per network facts the specification computed (net cases)
	hrpNets       map[string][]string
	implHrpNets   map[string][]string
	implDecodable map[string]bool
	b58like       map[string]string
}

func ints2bytes(v []int) []byte {
	b := make([]byte, len(v))
	for i, x := range v {
		b[i] = byte(x)
	}
	return b
}

var builtin = map[string]*chaincfg.Params{
	"mainnet":  &chaincfg.MainNetParams,
	"testnet3": &chaincfg.TestNet3Params,
	"testnet4": &chaincfg.TestNet4Params,
	"signet":   &chaincfg.SigNetParams,
	"regtest":  &chaincfg.RegressionNetParams,
	"simnet":   &chaincfg.SimNetParams,
}

var registeredOnce = map[string]*chaincfg.Params{}

// newWorld binds the rows: built-in networks to chaincfg's variables, the
// specification's extra networks to parameter sets made from the row (and
// registered with chaincfg.Register when the row says so).
func newWorld(rows []netRow, exps map[string]netExpect) (*world, error) {
	w := &world{byName: map[string]*netRow{}, params: map[string]*chaincfg.Params{}, regPrefix: map[string]bool{},
		hrpNets: map[string][]string{}, implHrpNets: map[string][]string{}, implDecodable: map[string]bool{}, b58like: map[string]string{}}
	for _, r := range rows {
		ex, ok := exps[r.Name]
		if !ok {
			return nil, fmt.Errorf("no net case for %s", r.Name)
		}
		w.hrpNets[r.Hrp] = ex.HrpNets
		w.implHrpNets[r.Hrp] = ex.ImplHrpNets
		w.implDecodable[r.Hrp] = ex.ImplDecodable
		w.b58like[r.Name] = ex.B58Like
	}
	w.rows = rows
	seen := map[string]bool{}
	for i := range rows {
		r := &rows[i]
		w.byName[r.Name] = r
		w.names = append(w.names, r.Name)
		if r.Reg {
			w.regPrefix[r.Hrp+"1"] = true
			if !seen[r.Hrp] {
				seen[r.Hrp] = true
				w.regHrps = append(w.regHrps, r.Hrp)
			}
		}
		if p, ok := builtin[r.Name]; ok {
			w.params[r.Name] = p
			continue
		}
		if p, ok := registeredOnce[r.Name]; ok {
			w.params[r.Name] = p
			continue
		}
		p := chaincfg.RegressionNetParams // copy
		p.Name = "verif-" + r.Name
		p.Net = wire.BitcoinNet(0xc16c0000 + uint32(i))
		p.Bech32HRPSegwit = r.RegHrp
		p.PubKeyHashAddrID = byte(r.Pkh)
		p.ScriptHashAddrID = byte(r.Sh)
		p.PrivateKeyID = byte(r.Wif)
		copy(p.HDPrivateKeyID[:], ints2bytes(r.HdPriv))
		copy(p.HDPublicKeyID[:], ints2bytes(r.HdPub))
		pp := &p
		if r.Reg {
			if err := chaincfg.Register(pp); err != nil {
				return nil, fmt.Errorf("chaincfg.Register(%s): %w", r.Name, err)
			}
		}
		registeredOnce[r.Name] = pp
		w.params[r.Name] = pp
	}
	return w, nil
}

func inSet(set []string, x string) bool {
	for _, s := range set {
		if s == x {
			return true
		}
	}
	return false
}

// checkNet compares one row with the parameter set it is bound to and with the
// registry predicates of chaincfg.
func (w *world) checkNet(c *vrun.Ctx, rc rawCase) error {
	var cs struct {
		N netRow `json:"n"`
	}
	var ex netExpect
	if err := rc.decode(&cs, &ex); err != nil {
		return err
	}
	r := cs.N
	p := w.params[r.Name]
	bad := func(key, what string) {
		c.Violation("net:"+key, fmt.Sprintf("network %s: %s", r.Name, what), rc.replay())
	}
	n := int64(0)
	cmp := func(key string, got, want any) {
		n++
		if fmt.Sprint(got) != fmt.Sprint(want) {
			bad(key, fmt.Sprintf("%s is %v, the specification's table says %v", key, got, want))
		}
	}
	cmp("hrp", p.Bech32HRPSegwit, r.RegHrp)
	cmp("pubkeyhash-id", int(p.PubKeyHashAddrID), r.Pkh)
	cmp("scripthash-id", int(p.ScriptHashAddrID), r.Sh)
	cmp("wif-id", int(p.PrivateKeyID), r.Wif)
	cmp("hd-private-id", p.HDPrivateKeyID[:], ints2bytes(r.HdPriv))
	cmp("hd-public-id", p.HDPublicKeyID[:], ints2bytes(r.HdPub))
	for _, q := range []string{r.Hrp + "1", upper(r.Hrp) + "1"} {
		n++
		got := chaincfg.IsBech32SegwitPrefix(q)
		switch {
		case got == ex.SegPrefix:
		case got == ex.ImplSegPrefix:
			c.Violation(keyHrpUpper, fmt.Sprintf("network %s registered with prefix %q: IsBech32SegwitPrefix(%q) = %t", r.Name, r.RegHrp, q, got), rc.replay())
		default:
			bad("registry-segwit-prefix", fmt.Sprintf("IsBech32SegwitPrefix(%q) = %t, the specification's table says %t", q, got, ex.SegPrefix))
		}
	}
	cmp("registry-pubkeyhash-id", chaincfg.IsPubKeyHashAddrID(byte(r.Pkh)), ex.PkhID)
	cmp("registry-scripthash-id", chaincfg.IsScriptHashAddrID(byte(r.Sh)), ex.ShID)
	cmp("registry-unknown-pubkeyhash-id", chaincfg.IsPubKeyHashAddrID(200), ex.OtherPkh)
	cmp("registry-unknown-scripthash-id", chaincfg.IsScriptHashAddrID(201), ex.OtherSh)
	pub, err := chaincfg.HDPrivateKeyToPublicKeyID(ints2bytes(r.HdPriv))
	n++
	if len(ex.HdPubOf) == 0 {
		if err == nil {
			bad("hd-registry", fmt.Sprintf("HDPrivateKeyToPublicKeyID(% x) = % x, the version is not registered", ints2bytes(r.HdPriv), pub))
		}
	} else if err != nil || !bytes.Equal(pub, ints2bytes(ex.HdPubOf)) {
		bad("hd-registry", fmt.Sprintf("HDPrivateKeyToPublicKeyID(% x) = % x, %v; specification: % x", ints2bytes(r.HdPriv), pub, err, ints2bytes(ex.HdPubOf)))
	}
	a, err := address.NewAddressPayToAnchor(p)
	n++
	if err != nil || a.EncodeAddress() != ex.P2A {
		got := ""
		if a != nil {
			got = a.EncodeAddress()
		}
		bad("p2a-string", fmt.Sprintf("pay-to-anchor address is %q (%v), the specification computes %q", got, err, ex.P2A))
	}
	c.AddEval(n)
	c.AddTraces(1)
	c.Distinct("net/" + r.Name)
	return nil
}

func upper(s string) string {
	b := []byte(s)
	for i, ch := range b {
		if ch >= 'a' && ch <= 'z' {
			b[i] = ch - 32
		}
	}
	return string(b)
}
