// Package addr is the binder of property C16 (spec/addr): address, key and
// script-template encodings.  TLC enumerates the cases of AddrCases.tla; every
// case is concretised on the real btcd packages (address, base58, bech32,
// txscript, btcutil WIF, hdkeychain) and compared with what the specification
// says; the decision tables are also used backwards, through abstraction
// functions, for every string offered to a decoder.
package addr

import (
	"fmt"
	"math/rand"
	"os"
	"runtime"
	"sort"
	"sync"
	"time"

	"verif/harness/internal/tlc"
	"verif/harness/internal/vrun"
)

// actions of AddrCases.tla and a predicate telling the states each produces
var actionKinds = map[string]func(rawCase) bool{
	"PickNet":        func(r rawCase) bool { return r.kind == "net" },
	"PickMixed":      func(r rawCase) bool { return r.kind == "mixed" },
	"PickBech":       func(r rawCase) bool { return r.kind == "bech" && !isDefectRow(r) },
	"PickBechDefect": func(r rawCase) bool { return r.kind == "bech" && isDefectRow(r) },
	"PickB58":        func(r rawCase) bool { return r.kind == "b58" },
	"PickPkHex":      func(r rawCase) bool { return r.kind == "pkhex" },
	"PickVec32":      func(r rawCase) bool { return r.kind == "vec32" },
	"PickVec58":      func(r rawCase) bool { return r.kind == "vec58" },
	"PickEdit":       func(r rawCase) bool { return r.kind == "edit" },
	"PickAddr":       func(r rawCase) bool { return r.kind == "addr" },
	"PickScript":     func(r rawCase) bool { return r.kind == "script" && !isWitProg(r) },
	"PickWitProg":    func(r rawCase) bool { return r.kind == "script" && isWitProg(r) },
	"PickSpend":      func(r rawCase) bool { return r.kind == "spend" },
	"PickWif":        func(r rawCase) bool { return r.kind == "wif" },
	"PickWifObj":     func(r rawCase) bool { return r.kind == "wifobj" },
	"PickHd":         func(r rawCase) bool { return r.kind == "hd" },
	"PickHdVec":      func(r rawCase) bool { return r.kind == "hdvec" },
	"PickHdStr":      func(r rawCase) bool { return r.kind == "hdstr" },
	"PickTap":        func(r rawCase) bool { return r.kind == "tap" },
	"PickTapGen":     func(r rawCase) bool { return r.kind == "tapgen" },
	"Group":          func(r rawCase) bool { return r.kind == "group" },
}

func isDefectRow(r rawCase) bool {
	var cs struct {
		S bechAbs `json:"s"`
	}
	if r.decode(&cs, nil) != nil {
		return false
	}
	return cs.S.Defect != "none" || cs.S.Case == "mixed"
}

func isWitProg(r rawCase) bool {
	var cs struct {
		Of string `json:"of"`
	}
	r.decode(&cs, nil)
	return cs.Of == "witprog"
}

// Run is the C16 check.
func Run(c *vrun.Ctx) error {
	c.Ev.Coverage.Rule = "TLC enumerates the cases of AddrCases.tla: the decision tables of DecodeAddress over abstract strings (bech32 form: witness version -1..17,31 (thorough: ..31) x 0..67 data symbols = every program length 0..42 x left-over bits of the 5->8 regrouping {none, 1..4 zero, 1..4 non-zero, 5..7 zero (a superfluous symbol), 5..7 non-zero} x checksum variant {bech32, bech32m, bad} x case, structural defects, mixed case; " +
		"Base58Check form: version byte class x payload length x checksum x default network; hex key form), concrete address strings computed by the specification's own BIP173 arithmetic for every prefix x version 0..16 x program length x pattern, base-58 strings computed by the specification's digit arithmetic, " +
		"address kind x network (15 parameter sets: the six of chaincfg and nine made by the binder, among them prefix classes of BIP173: a prefix containing the digit 1, a one-character prefix, a prefix registered in upper case, prefixes of 6 / 26 / 54 characters that make P2WSH+P2TR / P2WPKH / P2A strings 66 characters long like a hex public key) with template / class / extraction, template mutations and the witness program grid (version 0..16 x length 1,2,3,19..21,31..33,39,40,41 (thorough 1..42) x push form, with IsWitnessProgram / ExtractWitnessProgramInfo), spending-data forms, the WIF and serialised extended key tables, " +
		"BIP32 operation sequences (<= 3 derivations over {normal, hardened} x {0, 2^31-1} (thorough: also 1) with Neuter at every position, private and public roots, roots at depth 252..255) and the documented BIP32 vectors, " +
		"taproot leaf lists (every partition into equal scripts up to 4 (thorough 6) leaves, distinct up to 6 (10)) x leaf version patterns with the assembler's tree, all binary tree shapes up to 5 (7) leaves, 9 control block mutations per leaf, and edit classes (1..4 edits x 6 types x region) on valid addresses. " +
		"A second specification, HdKeys.tla, is a state machine over 2 (thorough 3) extended-key objects living side by side (NewMaster / Derive / Neuter / SetNet / Zero into and onto any slot, 2 networks): TLC's labelled state graph is walked edge by edge on real keys and after every step every live key (version bytes, IsForNet, bookkeeping, key material against a fresh derivation, serialisation, parse-back) and the global network parameter sets are compared with the state. " +
		"Every case is replayed into the real packages; every string offered to a decoder is abstracted by the binder and the answer looked up in the TLC-produced table. distinct_nontrivial counts distinct abstract cases."
	c.Assume("TLC evaluates the specification's operators correctly; its BIP173 arithmetic reproduces the BIP173/BIP350 test vectors and its base-58 arithmetic the documented examples (checked inside TLC, DocLaws)")
	c.Assume("SHA-256, RIPEMD-160, HMAC-SHA512 and secp256k1 group arithmetic are not specified in TLA+: Base58Check checksums are an abstract attribute (the binder computes them with crypto/sha256), BIP32 child keys are compared between operation orders and against the documented BIP32 vectors, taproot tweaks are recomputed with the curve primitives")
	c.Assume("strings at edit distance 1..4 from a valid address are sampled per edit class (not enumerated); the BCH guarantee for <= 4 substitutions is checked on every sampled string with the binder's own polymod")
	c.Assume("the binder's abstraction functions (BIP173 reference polymod, math/big base-58, big-integer curve equation) are independent of the packages under test and are themselves checked against the specification's concrete strings (vec32 / vec58 cases)")

	// the key-object machine is checked by a second TLC run, side by side
	type hdRes struct {
		res *tlc.Result
		err error
	}
	hdCh := make(chan hdRes, 1)
	go func() {
		r, err := runHdKeysTLC(c)
		hdCh <- hdRes{r, err}
	}()
	finishHd := func(w *world) error {
		h := <-hdCh
		if h.err != nil {
			return h.err
		}
		return replayHdKeys(c, w, h.res)
	}

	cfg := "AddrCases_quick.cfg"
	workers := 4
	if c.Thorough {
		cfg = "AddrCases_thorough.cfg"
		workers = 6
	}
	if cache := os.Getenv("VERIF_ADDR_CACHE"); cache != "" { // development aid: reuse TLC's output between runs
		if b, err := os.ReadFile(cache + "." + c.Tier); err == nil {
			cases, err := parseEmitted(string(b))
			if err != nil {
				return err
			}
			c.Logf("development aid: %d cases from %s", len(cases), cache)
			c.AddModel(int64(len(cases)), int64(len(cases)))
			w, err := replayCases(c, cases)
			if err != nil {
				return err
			}
			return finishHd(w)
		}
	}
	res, err := tlc.Run(tlc.Opts{SpecDir: c.SpecDir("addr"), Module: "AddrCases", Config: cfg, Workers: workers,
		Timeout: 40 * time.Minute, Scratch: c.Scratch, HeapGB: 8, Coverage: c.Thorough})
	if err != nil {
		return err
	}
	if !res.OK {
		return fmt.Errorf("AddrCases.tla: TLC reports %s %s on the specification itself (not a verdict about btcd)", res.ErrKind, res.ErrName)
	}
	if c.Thorough {
		// vacuity audit on TLC's own coverage report
		var never []string
		for a := range actionKinds {
			if res.ActionCount[a] == 0 {
				never = append(never, a)
			}
		}
		sort.Strings(never)
		if len(never) > 0 {
			return fmt.Errorf("AddrCases.tla: TLC's coverage report has no state for the actions %v", never)
		}
	}
	c.Logf("AddrCases.tla: %d distinct states, %d generated, %.1fs", res.Distinct, res.Generated, res.WallS)
	c.AddModel(res.Distinct, res.Generated)
	if cache := os.Getenv("VERIF_ADDR_CACHE"); cache != "" {
		os.WriteFile(cache+"."+c.Tier, []byte(res.Output), 0o644)
	}
	cases, err := parseEmitted(res.Output)
	if err != nil {
		return err
	}
	res.Output = ""
	if int64(len(cases)) != res.Distinct {
		return fmt.Errorf("AddrCases.tla: %d states emitted, TLC reports %d distinct", len(cases), res.Distinct)
	}
	w, err := replayCases(c, cases)
	if err != nil {
		return err
	}
	return finishHd(w)
}

func replay(c *vrun.Ctx, cases []rawCase) error {
	_, err := replayCases(c, cases)
	return err
}

func replayCases(c *vrun.Ctx, cases []rawCase) (*world, error) {
	byKind := map[string]int{}
	for _, cs := range cases {
		byKind[cs.kind]++
	}
	// vacuity audit: every action of the specification produced a state
	var never []string
	for a, pred := range actionKinds {
		found := false
		for _, cs := range cases {
			if pred(cs) {
				found = true
				break
			}
		}
		if !found {
			never = append(never, a)
		}
	}
	sort.Strings(never)
	if len(never) > 0 {
		return nil, fmt.Errorf("AddrCases.tla: actions never taken: %v", never)
	}
	c.SetExtra("actions_never_taken", []string{})
	c.SetExtra("states_by_kind", byKind)

	// the networks first: everything else is bound through them
	var rows []netRow
	exps := map[string]netExpect{}
	for _, rc := range cases {
		if rc.kind == "net" {
			var cs struct {
				N netRow `json:"n"`
			}
			var ex netExpect
			if err := rc.decode(&cs, &ex); err != nil {
				return nil, err
			}
			rows = append(rows, cs.N)
			exps[cs.N.Name] = ex
		}
	}
	sort.Slice(rows, func(i, j int) bool { return rows[i].Name < rows[j].Name })
	w, err := newWorld(rows, exps)
	if err != nil {
		return nil, err
	}
	t := newTables(w)
	if err := t.load(cases); err != nil {
		return nil, err
	}
	wt, err := loadWif(cases)
	if err != nil {
		return nil, err
	}
	ht, err := loadHdStr(cases)
	if err != nil {
		return nil, err
	}
	reg := newHdRegistry(c.Seed)

	editSamples, wifEdits, hdEdits := 120, 60, 30
	if c.Thorough {
		editSamples, wifEdits, hdEdits = 4000, 1500, 600
	}

	var mu sync.Mutex
	var firstErr error
	workers := c.Workers
	if workers > 8 {
		workers = 8
	}
	saved := c.Workers
	c.Workers = workers
	t0 := time.Now()
	c.Parallel(len(cases), func(i int) {
		mu.Lock()
		stop := firstErr != nil
		mu.Unlock()
		if stop {
			return
		}
		rc := cases[i]
		b := &builder{t: t, rng: rand.New(rand.NewSource(c.Seed*1000003 + int64(i)*7919 + 17))}
		var err error
		defer func() {
			if r := recover(); r != nil {
				buf := make([]byte, 1<<14)
				buf = buf[:runtime.Stack(buf, false)]
				mu.Lock()
				if firstErr == nil {
					firstErr = fmt.Errorf("panic in the binder on a %s case: %v\n%s", rc.kind, r, buf)
				}
				mu.Unlock()
			}
		}()
		switch rc.kind {
		case "root", "group":
		case "net":
			err = w.checkNet(c, rc)
		case "mixed":
			err = b.runMixed(c, rc)
		case "bech":
			err = b.runBech(c, rc)
		case "b58":
			err = b.runB58(c, rc)
		case "pkhex":
			err = b.runPkHex(c, rc)
		case "vec32":
			err = b.runVec32(c, rc)
		case "vec58":
			err = b.runVec58(c, rc)
		case "edit":
			err = b.runEdit(c, rc, editSamples)
		case "addr":
			err = b.runAddr(c, rc)
		case "script":
			err = b.runScript(c, rc)
		case "spend":
			err = b.runSpend(c, rc)
		case "wif":
			err = b.runWif(c, wt, rc)
		case "wifobj":
			err = b.runWifObj(c, wt, rc, wifEdits)
		case "hd":
			err = b.runHd(c, reg, rc)
		case "hdvec":
			err = b.runHdVec(c, reg, rc)
		case "hdstr":
			err = b.runHdStr(c, ht, rc, hdEdits)
		case "tap", "tapgen":
			err = b.runTap(c, rc)
		default:
			err = fmt.Errorf("unknown case kind %q", rc.kind)
		}
		if err != nil {
			mu.Lock()
			if firstErr == nil {
				firstErr = err
			}
			mu.Unlock()
		}
	})
	c.Workers = saved
	if firstErr != nil {
		return nil, firstErr
	}
	c.Logf("replay of %d cases into address / bech32 / base58 / txscript / btcutil / hdkeychain: %.1fs, %d strings offered to DecodeAddress, %d edited strings were valid addresses in their own right, %d extended keys reached twice",
		len(cases), time.Since(t0).Seconds(), t.lookups, t.collision, reg.merges)
	c.SetExtra("strings_offered_to_decodeaddress", t.lookups)
	c.SetExtra("edited_strings_valid_in_their_own_right", t.collision)
	c.SetExtra("extended_keys_reached_by_two_operation_orders", reg.merges)
	if reg.merges == 0 {
		return nil, fmt.Errorf("no extended key was reached through two operation orders: the commutation check is vacuous")
	}

	// a few written-out cases
	want := map[string]bool{"bech": true, "addr": true, "hd": true, "tap": true, "vec32": true, "edit": true}
	for _, rc := range cases {
		if want[rc.kind] && len(rc.cs)+len(rc.expect) < 1500 {
			c.Sample(rc.replay())
			delete(want, rc.kind)
		}
	}
	c.Ev.Coverage.Exhaustive = false
	c.Ev.Coverage.Explanation = "every case TLC enumerated was replayed; the quantifier of the property over payloads, seeds and strings at edit distance <= 4 is covered by classes with random (seeded) representatives, not exhaustively"
	return w, nil
}
