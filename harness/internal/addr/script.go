package addr

import (
	"bytes"
	"crypto/sha256"
	"encoding/hex"
	"fmt"
	"math/rand"
	"strings"

	"github.com/btcsuite/btcd/address/v2"
	"github.com/btcsuite/btcd/btcec/v2"
	"github.com/btcsuite/btcd/btcec/v2/schnorr"
	"github.com/btcsuite/btcd/txscript/v2"
	"github.com/btcsuite/btcd/wire/v2"
	"golang.org/x/crypto/ripemd160"

	"verif/harness/internal/vrun"
)

// token mirrors Op / Push of AddrCodec.tla.
type token struct {
	T    string `json:"t"`
	V    int    `json:"v"`
	N    int    `json:"n"`
	Data string `json:"data"`
	Via  string `json:"via"`
}

type witProgExpect struct {
	Is   bool `json:"is"`
	Ver  int  `json:"ver"`
	Plen int  `json:"plen"`
}

type extractExpect struct {
	Class   string   `json:"class"`
	Addrs   []string `json:"addrs"`
	ReqSigs int      `json:"reqsigs"`
}

func hash160(b []byte) []byte {
	h := sha256.Sum256(b)
	r := ripemd160.New()
	r.Write(h[:])
	return r.Sum(nil)
}

// dataFor draws the bytes of a push by its data class; fixed overrides the
// class with given bytes (the payload of a concrete address).
func dataFor(r *rand.Rand, tk token, fixed []byte) []byte {
	if fixed != nil && len(fixed) == tk.N {
		return fixed
	}
	switch tk.Data {
	case "anchor":
		return []byte{0x4e, 0x73}
	case "pkc":
		return pubKeyWithPrefix(r, 2).SerializeCompressed()
	case "pkc3":
		return pubKeyWithPrefix(r, 3).SerializeCompressed()
	case "pkc-off":
		return append([]byte{2}, offCurveX(r)...)
	case "pku":
		return randKey(r).PubKey().SerializeUncompressed()
	case "pku-off":
		u := randKey(r).PubKey().SerializeUncompressed()
		u[64] ^= 2
		return u
	case "pkh6":
		return hybridBytes(pubKeyWithPrefix(r, 2))
	case "pkh7":
		return hybridBytes(pubKeyWithPrefix(r, 3))
	}
	b := randBytes(r, tk.N)
	if tk.N > 0 {
		switch {
		case tk.N == 33 || tk.N == 65:
			b[0] = 9 // not a public key prefix
		case tk.N == 2 && b[0] == 0x4e:
			b[0] = 0x4f // not the anchor program
		}
	}
	return b
}

// serialise writes the token sequence as script bytes.  payload, when not nil,
// is used for the (single) push of the template.
func serialise(r *rand.Rand, sc []token, payload []byte) []byte {
	var out []byte
	for _, tk := range sc {
		if tk.T == "op" {
			out = append(out, byte(tk.V))
			continue
		}
		d := dataFor(r, tk, payload)
		if tk.Via == "pushdata1" {
			out = append(out, txscript.OP_PUSHDATA1, byte(tk.N))
		} else {
			out = append(out, byte(tk.N))
		}
		out = append(out, d...)
	}
	return out
}

// kindOfAddr names an address value in the specification's kinds.
func specKind(a address.Address) string {
	k := kindOfAddress(a)
	if pk, ok := a.(*address.AddressPubKey); ok {
		if pk.Format() == address.PKFCompressed {
			return "p2pk-c"
		}
		return "p2pk-u"
	}
	return k
}

// checkScript runs the recognisers on script bytes and compares with the
// specification's answers.  orig, when not nil, is the address the script was
// made from.
func (b *builder) checkScript(c *vrun.Ctx, rc rawCase, shape string, script []byte, wp witProgExpect, class string, ex extractExpect, pkscript bool,
	net string, orig address.Address, back string) {

	p := b.t.w.params[net]
	bad := func(key, what string) {
		rp := rc.replay()
		rp["script"] = hex.EncodeToString(script)
		rp["net"] = net
		c.Violation("script:"+shape+":"+key, fmt.Sprintf("script %x: %s", script, what), rp)
	}
	// witness program recogniser
	c.AddEval(2)
	if got := txscript.IsWitnessProgram(script); got != wp.Is {
		bad("is-witness-program", fmt.Sprintf("IsWitnessProgram says %t, specification %t", got, wp.Is))
	}
	ver, prog, werr := txscript.ExtractWitnessProgramInfo(script)
	if (werr == nil) != wp.Is || (wp.Is && (ver != wp.Ver || len(prog) != wp.Plen || !bytes.HasSuffix(script, prog))) {
		bad("witness-program-info", fmt.Sprintf("ExtractWitnessProgramInfo gives version %d, program %x (%v); specification: witness program %t, version %d, %d bytes",
			ver, prog, werr, wp.Is, wp.Ver, wp.Plen))
	}
	c.AddEval(4)
	if got := txscript.GetScriptClass(script).String(); got != class {
		bad("class", fmt.Sprintf("GetScriptClass says %s, specification %s", got, class))
	}
	cl, addrs, req, err := txscript.ExtractPkScriptAddrs(script, p)
	if err != nil {
		bad("extract-error", fmt.Sprintf("ExtractPkScriptAddrs fails: %v", err))
		return
	}
	if cl.String() != ex.Class || req != ex.ReqSigs || len(addrs) != len(ex.Addrs) {
		bad("extract", fmt.Sprintf("ExtractPkScriptAddrs says class %s, %d addresses, %d signatures; specification: %s, %d, %d",
			cl, len(addrs), req, ex.Class, len(ex.Addrs), ex.ReqSigs))
		return
	}
	for i, a := range addrs {
		if got := specKind(a); got != ex.Addrs[i] {
			bad("extract-kind", fmt.Sprintf("extracted address %d is a %s, specification %s", i, got, ex.Addrs[i]))
			continue
		}
		// the extracted address pays to the same script again
		again, err := txscript.PayToAddrScript(a)
		c.AddEval(2)
		want := script
		if bytes.HasPrefix(script, []byte{65, 6}) || bytes.HasPrefix(script, []byte{65, 7}) {
			// hybrid key: the address keeps the uncompressed form of the same point
			want = append([]byte{65, 4}, script[2:]...)
		}
		if err != nil || !bytes.Equal(again, want) {
			bad("script-address-script", fmt.Sprintf("extracted address %s pays to %x (%v)", a.EncodeAddress(), again, err))
		}
		if row := b.t.w.byName[net]; !a.IsForNet(p) && row.RegHrp != row.Hrp && strings.HasPrefix(a.EncodeAddress(), row.Hrp+"1") {
			c.Violation(keyHrpUpper, fmt.Sprintf("script %x: the address %s extracted for network %s (registered with prefix %q) is not for that network", script, a.EncodeAddress(), net, row.RegHrp), rc.replay())
		} else if !a.IsForNet(p) {
			bad("extract-net", fmt.Sprintf("extracted address %s is not for the network it was extracted for (%s)", a.EncodeAddress(), net))
		}
		if orig != nil {
			c.AddEval(2)
			if a.EncodeAddress() != orig.EncodeAddress() || a.String() != orig.String() || specKind(a) != back {
				bad("address-script-address", fmt.Sprintf("address %s maps to a script that maps back to %s", orig.String(), a.String()))
			}
			if !bytes.Equal(a.ScriptAddress(), orig.ScriptAddress()) && specKind(orig) == specKind(a) {
				bad("address-script-address", fmt.Sprintf("payload %x became %x", orig.ScriptAddress(), a.ScriptAddress()))
			}
		}
	}
	// ParsePkScript
	ps, err := txscript.ParsePkScript(script)
	c.AddEval(1)
	if (err == nil) != pkscript {
		bad("parsepkscript", fmt.Sprintf("ParsePkScript error %v, specification: supported = %t", err, pkscript))
		return
	}
	if err == nil {
		c.AddEval(3)
		if ps.Class().String() != class {
			bad("pkscript-class", fmt.Sprintf("PkScript.Class() = %s, specification %s", ps.Class(), class))
		}
		if !bytes.Equal(ps.Script(), script) {
			bad("pkscript-script", fmt.Sprintf("PkScript.Script() = %x", ps.Script()))
		}
		a, err := ps.Address(p)
		if err != nil || len(addrs) != 1 || a.EncodeAddress() != addrs[0].EncodeAddress() {
			bad("pkscript-address", fmt.Sprintf("PkScript.Address() = %v (%v)", a, err))
		}
	}
}

// runAddr: one address kind on one network, through strings and scripts.
func (b *builder) runAddr(c *vrun.Ctx, rc rawCase) error {
	var cs struct {
		AKind string `json:"akind"`
		Net   string `json:"net"`
	}
	var ex struct {
		Str struct {
			Form string         `json:"form"`
			S    map[string]any `json:"s"`
		} `json:"str"`
		Decision    decision      `json:"decision"`
		EncodedKind string        `json:"encodedkind"`
		ForNets     []string      `json:"fornets"`
		ImplForNets []string      `json:"implfornets"`
		WitProg     witProgExpect `json:"witprog"`
		Script      []token       `json:"script"`
		Class       string        `json:"class"`
		Extract     extractExpect `json:"extract"`
		PkScript    bool          `json:"pkscript"`
		Back        string        `json:"back"`
	}
	if err := rc.decode(&cs, &ex); err != nil {
		return err
	}
	reps := 8
	for rep := 0; rep < reps; rep++ {
		ad, err := b.newAddress(cs.AKind, cs.Net)
		if err != nil {
			return err
		}
		bad := func(key, what string) {
			rp := rc.replay()
			rp["address"] = ad.String()
			c.Violation("addr:"+cs.AKind+":"+key, fmt.Sprintf("%s address on %s (%s): %s", cs.AKind, cs.Net, ad.String(), what), rp)
		}
		s := ad.EncodeAddress()
		a, o, err := b.t.checkDecode(c, s, cs.Net, "encoded-address", "EncodeAddress() of a "+cs.AKind+" address", rc.replay())
		if err != nil {
			return err
		}
		c.AddEval(4)
		as := a
		if ex.Str.Form == "bech" && a.form != "bech" && strings.LastIndexByte(s, '1') > 0 {
			// a prefix nobody registered: the decoder does not take the string for a
			// segwit address, the encoder still has to produce one
			as = absString{form: "bech"}
			as.bech, as.payload = abstractBech(s)
		}
		if !sameAbs(as, ex.Str.Form, ex.Str.S) {
			bad("string-form", fmt.Sprintf("encodes as %q = %v, specification %v", s, a.describe(), ex.Str.S))
		}
		if o.want.Accept != ex.Decision.Accept || o.want.Kind != ex.Decision.Kind {
			return fmt.Errorf("%s address %q on %s: the decision table says %s, the address case says %s", cs.AKind, s, cs.Net, o.want, ex.Decision)
		}
		var nets []string
		for _, n := range b.t.w.names {
			if ad.IsForNet(b.t.w.params[n]) {
				nets = append(nets, n)
			}
		}
		if !sameSet(nets, ex.ForNets) {
			if sameSet(nets, ex.ImplForNets) && b.t.w.byName[cs.Net].RegHrp != b.t.w.byName[cs.Net].Hrp {
				c.Violation(keyHrpUpper, fmt.Sprintf("%s address %s made for network %s (registered with prefix %q): IsForNet holds for %v, not for its own network",
					cs.AKind, s, cs.Net, b.t.w.byName[cs.Net].RegHrp, nets), rc.replay())
			} else {
				bad("isfornet", fmt.Sprintf("IsForNet holds for %v, specification %v", nets, ex.ForNets))
			}
		}
		if o.d.Accept {
			// same address again
			c.AddEval(1)
			wantPayload := ad.ScriptAddress()
			if ex.EncodedKind == "p2pkh" && cs.AKind != "p2pkh" {
				wantPayload = hash160(ad.ScriptAddress())
			}
			if !bytes.Equal(o.payload, wantPayload) || o.addr.EncodeAddress() != s {
				bad("round-trip-payload", fmt.Sprintf("decoded payload %x, encoded payload %x", o.payload, wantPayload))
			}
		}
		if pk, ok := ad.(*address.AddressPubKey); ok {
			// the other string form of a pay-to-pubkey address: the hex key
			if _, _, err := b.t.checkDecode(c, pk.String(), cs.Net, "p2pk-string", "String() of a pay-to-pubkey address", rc.replay()); err != nil {
				return err
			}
			c.AddEval(1)
			if !bytes.Equal(pk.AddressPubKeyHash().ScriptAddress(), hash160(pk.ScriptAddress())) {
				bad("pubkey-hash", "AddressPubKeyHash() is not the hash of the serialised key")
			}
		}
		// the script
		var payload []byte
		switch cs.AKind {
		case "p2pk-h":
			// pays to the uncompressed serialisation
			payload = ad.(*address.AddressPubKey).PubKey().SerializeUncompressed()
		default:
			payload = ad.ScriptAddress()
		}
		want := serialise(b.rng, ex.Script, payload)
		got, err := txscript.PayToAddrScript(ad)
		c.AddEval(1)
		if err != nil || !bytes.Equal(got, want) {
			bad("paytoaddr-script", fmt.Sprintf("PayToAddrScript gives %x (%v), the specification's template gives %x", got, err, want))
			continue
		}
		b.checkScript(c, rc, "template-"+cs.AKind, got, ex.WitProg, ex.Class, ex.Extract, ex.PkScript, cs.Net, ad, ex.Back)
		if tr, ok := ad.(*address.AddressTaproot); ok {
			// the key-based constructor agrees
			if pk, err := schnorr.ParsePubKey(tr.ScriptAddress()); err == nil {
				sc2, err := txscript.PayToTaprootScript(pk)
				c.AddEval(1)
				if err != nil || !bytes.Equal(sc2, got) {
					bad("paytotaproot-script", fmt.Sprintf("PayToTaprootScript gives %x", sc2))
				}
			}
		}
	}
	c.AddTraces(1)
	c.Distinct("addr/" + cs.AKind + "/" + cs.Net)
	return nil
}

// runScript: a template mutation or a witness program of the grid.
func (b *builder) runScript(c *vrun.Ctx, rc rawCase) error {
	var cs struct {
		Of string  `json:"of"`
		M  string  `json:"m"`
		Sc []token `json:"sc"`
	}
	var ex struct {
		WitProg  witProgExpect `json:"witprog"`
		Class    string        `json:"class"`
		Extract  extractExpect `json:"extract"`
		PkScript bool          `json:"pkscript"`
	}
	if err := rc.decode(&cs, &ex); err != nil {
		return err
	}
	for rep := 0; rep < 4; rep++ {
		net := b.t.w.names[b.rng.Intn(len(b.t.w.names))]
		script := serialise(b.rng, cs.Sc, nil)
		b.checkScript(c, rc, cs.Of+"-"+cs.M, script, ex.WitProg, ex.Class, ex.Extract, ex.PkScript, net, nil, "")
	}
	c.AddTraces(1)
	key := fmt.Sprintf("script/%s/%s", cs.Of, cs.M)
	if cs.Of == "witprog" && len(cs.Sc) == 2 {
		key = fmt.Sprintf("script/witprog/op%d/len%d/%s/%s", cs.Sc[0].V, cs.Sc[1].N, cs.Sc[1].Data, cs.Sc[1].Via)
	}
	c.Distinct(key)
	return nil
}

func pushData(d []byte) []byte {
	switch {
	case len(d) <= 75:
		return append([]byte{byte(len(d))}, d...)
	default:
		return append([]byte{txscript.OP_PUSHDATA1, byte(len(d))}, d...)
	}
}

// runSpend: ComputePkScript on spending data of a form.
func (b *builder) runSpend(c *vrun.Ctx, rc rawCase) error {
	var cs struct {
		Form   string `json:"form"`
		SigLen int    `json:"siglen"`
		Extra  int    `json:"extra"`
	}
	var ex struct {
		AKind  string  `json:"akind"`
		Class  string  `json:"class"`
		Script []token `json:"script"`
	}
	if err := rc.decode(&cs, &ex); err != nil {
		return err
	}
	for rep := 0; rep < 4; rep++ {
		sig := randBytes(b.rng, cs.SigLen)
		sig[0] = 0x30
		var key []byte
		if b.rng.Intn(2) == 0 {
			key = pubKeyWithPrefix(b.rng, 2).SerializeCompressed()
		} else {
			key = pubKeyWithPrefix(b.rng, 3).SerializeCompressed()
		}
		redeem := bytes.Repeat([]byte{txscript.OP_NOP}, 40)
		redeem[b.rng.Intn(40)] = txscript.OP_1
		var sigScript []byte
		var witness wire.TxWitness
		var payload []byte
		switch cs.Form {
		case "p2pkh-c":
			sigScript = append(pushData(sig), pushData(key)...)
			payload = hash160(key)
		case "p2sh":
			for i := 0; i < cs.Extra; i++ {
				sigScript = append(sigScript, pushData(randBytes(b.rng, cs.SigLen))...)
			}
			sigScript = append(sigScript, pushData(redeem)...)
			payload = hash160(redeem)
		case "p2wpkh":
			witness = wire.TxWitness{sig, key}
			payload = hash160(key)
		case "p2wsh":
			for i := 0; i < cs.Extra; i++ {
				witness = append(witness, randBytes(b.rng, cs.SigLen))
			}
			witness = append(witness, redeem)
			h := sha256.Sum256(redeem)
			payload = h[:]
		}
		want := serialise(b.rng, ex.Script, payload)
		ps, err := txscript.ComputePkScript(sigScript, witness)
		c.AddEval(3)
		if err != nil {
			c.Violation("computepkscript:"+cs.Form+":error", fmt.Sprintf("ComputePkScript(%x, %x) fails: %v", sigScript, witness, err), rc.replay())
			continue
		}
		if ps.Class().String() != ex.Class || !bytes.Equal(ps.Script(), want) {
			c.Violation("computepkscript:"+cs.Form+":script", fmt.Sprintf("ComputePkScript(%x, %x) = %s %x, specification %s %x",
				sigScript, witness, ps.Class(), ps.Script(), ex.Class, want), rc.replay())
			continue
		}
		// and the computed script is the one the address of that kind pays to
		net := b.t.w.names[b.rng.Intn(len(b.t.w.names))]
		a, err := ps.Address(b.t.w.params[net])
		if err != nil {
			c.Violation("computepkscript:"+cs.Form+":address", fmt.Sprintf("PkScript.Address fails: %v", err), rc.replay())
			continue
		}
		sc2, err := txscript.PayToAddrScript(a)
		if err != nil || !bytes.Equal(sc2, want) || specKind(a) != ex.AKind {
			c.Violation("computepkscript:"+cs.Form+":address", fmt.Sprintf("address %s of the computed script pays to %x", a, sc2), rc.replay())
		}
	}
	c.AddTraces(1)
	c.Distinct(fmt.Sprintf("spend/%s/%d/%d", cs.Form, cs.SigLen, cs.Extra))
	return nil
}

var _ = btcec.PubKeyBytesLenCompressed
