package addr

import (
	"bytes"
	"encoding/hex"
	"errors"
	"fmt"
	"math/big"
	"math/rand"
	"strings"

	"github.com/btcsuite/btcd/address/v2/base58"
	"github.com/btcsuite/btcd/address/v2/bech32"
	"github.com/btcsuite/btcd/btcec/v2"

	"verif/harness/internal/vrun"
)

// builder turns abstract strings into concrete ones, with the library's own
// encoders (bech32.Encode / EncodeM, base58.Encode) and random payloads.
type builder struct {
	t   *tables
	rng *rand.Rand
}

func randBytes(r *rand.Rand, n int) []byte {
	b := make([]byte, n)
	r.Read(b)
	return b
}

// randKey returns a private key from the seeded generator.
func randKey(r *rand.Rand) *btcec.PrivateKey {
	for {
		k := new(big.Int).SetBytes(randBytes(r, 32))
		if k.Sign() == 0 || k.Cmp(curveN) >= 0 {
			continue
		}
		var b [32]byte
		k.FillBytes(b[:])
		priv, _ := btcec.PrivKeyFromBytes(b[:])
		return priv
	}
}

// offCurveX returns 32 bytes that are not the x coordinate of a curve point.
func offCurveX(r *rand.Rand) []byte {
	for {
		b := randBytes(r, 32)
		x := new(big.Int).SetBytes(b)
		if x.Cmp(curveP) < 0 && curveY(x) == nil {
			return b
		}
	}
}

// groupsFor draws ng 5-bit groups with the left-over bits as the row says.
func (b *builder) groupsFor(a bechAbs) []byte {
	for {
		g := make([]byte, a.Ng)
		for i := range g {
			g[i] = byte(b.rng.Intn(32))
		}
		if a.Ng == 4 && a.Anchor {
			conv, _ := bech32.ConvertBits([]byte{0x4e, 0x73}, 8, 5, true)
			copy(g, conv)
		}
		// the left-over bits of the 5 -> 8 regrouping are the last 5*ng mod 8 bits of
		// the symbol stream (they reach into the symbol before the last when > 5)
		left := (5 * a.Ng) % 8
		if left >= 1 {
			zero := func() {
				for k := 0; k < left; k++ {
					bit := 5*a.Ng - 1 - k
					g[bit/5] &^= 1 << uint(4-bit%5)
				}
			}
			zero()
			if !a.PadZero {
				bit := 5*a.Ng - 1 - b.rng.Intn(left)
				g[bit/5] |= 1 << uint(4-bit%5)
				for k := 0; k < left; k++ {
					if b.rng.Intn(2) == 0 {
						bit := 5*a.Ng - 1 - k
						g[bit/5] |= 1 << uint(4-bit%5)
					}
				}
			}
		}
		if a.Ng == 4 && !a.Anchor {
			// not the anchor program by accident
			if prog, err := bech32.ConvertBits(g, 5, 8, false); err == nil && bytes.Equal(prog, []byte{0x4e, 0x73}) {
				continue
			}
			if g[0] == 9 && g[1] == 25 && g[2] == 25 && g[3]&^0xf == 16 {
				continue
			}
		}
		return g
	}
}

var errNoSuchString = errors.New("no string has these attributes")

func otherChar(r *rand.Rand, alphabet string, not byte) byte {
	for {
		c := alphabet[r.Intn(len(alphabet))]
		if c != not {
			return c
		}
	}
}

// bechString builds a string with the attributes of a (for prefix hrp).
func (b *builder) bechString(a bechAbs, hrp string) (string, error) {
	valid := func() (string, error) { // some valid v0 P2WPKH address string
		conv, _ := bech32.ConvertBits(randBytes(b.rng, 20), 8, 5, true)
		return bech32.Encode(hrp, append([]byte{0}, conv...))
	}
	switch a.Defect {
	case "tooshort":
		if len(hrp) > 5 {
			return "", errNoSuchString // prefix, separator and a symbol already make 8 characters
		}
		return hrp + "1" + strings.Repeat("q", 7-len(hrp)-1), nil
	case "toolong":
		g := make([]byte, 91-len(hrp))
		for i := range g {
			g[i] = byte(b.rng.Intn(32))
		}
		return bech32.Encode(hrp, g)
	case "nonascii":
		s, err := valid()
		if err != nil {
			return "", err
		}
		pos := len(hrp) + 1 + b.rng.Intn(len(s)-len(hrp)-1)
		bad := []byte{0x7f, 0x80, 0x20, 0x09, 0xff}[b.rng.Intn(5)]
		return s[:pos] + string([]byte{bad}) + s[pos+1:], nil
	case "seplate":
		if len(hrp) < 2 {
			return "", errNoSuchString // 8 characters already leave 6 after the separator
		}
		s := hrp + "1"
		for i := 0; i < 5; i++ {
			s += string(b32charset[b.rng.Intn(32)])
		}
		return s, nil
	case "badchar":
		s, err := valid()
		if err != nil {
			return "", err
		}
		pos := len(hrp) + 1 + b.rng.Intn(len(s)-len(hrp)-1)
		return s[:pos] + string("bio"[b.rng.Intn(3)]) + s[pos+1:], nil
	}
	if a.Case == "mixed" {
		s, err := valid()
		if err != nil {
			return "", err
		}
		// upper-case some letters, keep at least one lower-case letter
		bs := []byte(s)
		var letters []int
		for i, ch := range bs {
			if ch >= 'a' && ch <= 'z' {
				letters = append(letters, i)
			}
		}
		b.rng.Shuffle(len(letters), func(i, j int) { letters[i], letters[j] = letters[j], letters[i] })
		n := 1 + b.rng.Intn(len(letters)-1)
		for _, i := range letters[:n] {
			bs[i] -= 32
		}
		return string(bs), nil
	}
	var data []byte
	if a.Ver >= 0 {
		data = append([]byte{byte(a.Ver)}, b.groupsFor(a)...)
	}
	var s string
	var err error
	switch a.Ck {
	case "b32":
		s, err = bech32.Encode(hrp, data)
	case "b32m":
		s, err = bech32.EncodeM(hrp, data)
	default:
		if b.rng.Intn(2) == 0 {
			s, err = bech32.Encode(hrp, data)
		} else {
			s, err = bech32.EncodeM(hrp, data)
		}
		for err == nil {
			// spoil one of the six checksum symbols (and make sure the result
			// does not verify as the other variant)
			pos := len(s) - 1 - b.rng.Intn(6)
			t := s[:pos] + string(otherChar(b.rng, b32charset, s[pos])) + s[pos+1:]
			if x, _ := abstractBech(t); x.Ck == "bad" {
				s = t
				break
			}
		}
	}
	if err != nil {
		return "", err
	}
	if a.Case == "upper" {
		s = strings.ToUpper(s)
	}
	return s, nil
}

// runBech concretises one row of the bech32 decision table for every
// registered prefix.
func (b *builder) runBech(c *vrun.Ctx, rc rawCase) error {
	var cs struct {
		S bechAbs `json:"s"`
	}
	if err := rc.decode(&cs, nil); err != nil {
		return err
	}
	nets := b.t.w.names
	for _, hrp := range b.t.w.regHrps {
		want := cs.S
		want.Hrp = hrp
		s, err := b.bechString(want, hrp)
		if err == errNoSuchString {
			continue
		}
		if err != nil {
			return fmt.Errorf("building %+v: %w", want, err)
		}
		if want.Defect != "toolong" && len(s) > 90 {
			continue // with this prefix the row's string is too long to be one
		}
		dn := nets[b.rng.Intn(len(nets))]
		a, _, err := b.t.checkDecode(c, s, dn, "table-row", "row of the bech32 decision table", rc.replay())
		if err != nil {
			return err
		}
		c.AddEval(1)
		if a.form != "bech" || a.bech != want {
			// the library's encoder did not produce the string that was asked for
			c.Violation("bech32-encode:not-the-requested-string",
				fmt.Sprintf("bech32 encoder output %q abstracts to %+v, requested %+v", s, a.describe(), want), rc.replay())
		}
	}
	c.AddTraces(1)
	c.Distinct(fmt.Sprintf("bech/%s/%s/%s/v%d/len%d/pad%t/anchor%t", cs.S.Defect, cs.S.Case, cs.S.Ck, cs.S.Ver, (5*cs.S.Ng)/8, cs.S.PadZero, cs.S.Anchor))
	return nil
}

// b58String builds the Base58Check string of an abstract row; ok is false when
// no string with the accidental segwit-looking prefix was found (most version
// bytes and lengths cannot start like one).
func (b *builder) b58String(a b58Abs) (string, bool) {
	switch a.Defect {
	case "short":
		return base58.Encode(randBytes(b.rng, b.rng.Intn(5))), true
	case "badchar":
		raw := append([]byte{0}, randBytes(b.rng, 20)...)
		raw = append(raw, sha256d(raw)[:4]...)
		s := base58.Encode(raw)
		pos := b.rng.Intn(len(s))
		return s[:pos] + string("0OIl"[b.rng.Intn(4)]) + s[pos+1:], true
	}
	tries := 1
	if a.SegPrefix {
		tries = 60000
	}
	for t := 0; t < tries || !a.SegPrefix; t++ {
		v := byte(a.V)
		if a.V < 0 {
			for {
				v = byte(b.rng.Intn(256))
				if !b.t.b58ids[int(v)] {
					break
				}
			}
		}
		raw := append([]byte{v}, randBytes(b.rng, a.Plen)...)
		sum := sha256d(raw)[:4]
		if a.Ck != "ok" {
			sum[b.rng.Intn(4)] ^= byte(1 + b.rng.Intn(255))
		}
		s := base58.Encode(append(raw, sum...))
		if b.t.w.segPrefix(s) == a.SegPrefix {
			return s, true
		}
		if a.SegPrefix && t == 200 {
			// can the first character start a registered prefix at all?
			possible := false
			for p := range b.t.w.regPrefix {
				if strings.EqualFold(p[:1], s[:1]) {
					possible = true
				}
			}
			if !possible && a.V >= 0 {
				return "", false
			}
		}
	}
	return "", false
}

func (b *builder) runB58(c *vrun.Ctx, rc rawCase) error {
	var cs struct {
		S  b58Abs `json:"s"`
		Dn string `json:"dn"`
	}
	if err := rc.decode(&cs, nil); err != nil {
		return err
	}
	s, ok := b.b58String(cs.S)
	if !ok {
		// no Base58Check string with this version byte and length starts like a
		// registered segwit prefix: nothing to replay
		c.AddExtra("b58_rows_without_a_string", 1)
		return nil
	}
	a, _, err := b.t.checkDecode(c, s, cs.Dn, "table-row", "row of the Base58Check decision table", rc.replay())
	if err != nil {
		return err
	}
	c.AddEval(1)
	got := a.b58
	if a.form == "bech" && a.alt != nil {
		got = *a.alt
	} else if a.form == "bech" {
		got, _ = abstractB58(s, b.t.b58ids, true)
	}
	if a.form == "pkhex" || got != cs.S {
		c.Violation("base58-encode:not-the-requested-string",
			fmt.Sprintf("base58 encoder output %q abstracts to %+v, requested %+v", s, got, cs.S), rc.replay())
	}
	c.AddTraces(1)
	c.Distinct(fmt.Sprintf("b58/%s/%s/id%d/len%d/seg%t/%s", cs.S.Defect, cs.S.Ck, cs.S.V, cs.S.Plen, cs.S.SegPrefix, cs.Dn))
	return nil
}

// keyBytes serialises a public key with a prefix class: 2/3 compressed (the
// parity must fit), 4 uncompressed, 6/7 hybrid; parityOK false puts the wrong
// hybrid prefix.
func pubKeyWithPrefix(r *rand.Rand, prefix int) *btcec.PublicKey {
	for {
		pk := randKey(r).PubKey()
		odd := pk.SerializeCompressed()[0] == 3
		switch prefix {
		case 2, 6:
			if odd {
				continue
			}
		case 3, 7:
			if !odd {
				continue
			}
		}
		return pk
	}
}

func hybridBytes(pk *btcec.PublicKey) []byte {
	u := pk.SerializeUncompressed()
	out := append([]byte(nil), u...)
	out[0] = 6 + (u[64] & 1)
	return out
}

func (b *builder) pkHexString(a pkHexAbs, up bool) string {
	nbytes := a.NChars / 2
	var raw []byte
	switch {
	case !a.HexOK:
		s := hex.EncodeToString(randBytes(b.rng, nbytes))
		pos := b.rng.Intn(len(s))
		return s[:pos] + "g" + s[pos+1:]
	case a.Prefix == 0:
		raw = randBytes(b.rng, nbytes)
		raw[0] = []byte{0, 1, 5, 8, 9, 0xff}[b.rng.Intn(6)]
	case nbytes == 33:
		// compressed length: the prefix says which root of y is meant (2/3); any
		// other prefix is a format error whatever follows
		want := 0
		if a.Prefix == 2 || a.Prefix == 3 {
			want = a.Prefix
		}
		raw = pubKeyWithPrefix(b.rng, want).SerializeCompressed()
		raw[0] = byte(a.Prefix)
		if !a.OnCurve {
			copy(raw[1:], offCurveX(b.rng))
		}
	default:
		// uncompressed length: 4 plain, 6/7 hybrid (prefix repeats the parity of y)
		want := 0
		if a.Prefix == 6 || a.Prefix == 7 {
			want = a.Prefix - 4 // 2: even y, 3: odd y
			if !a.Parity {
				want = 5 - want
			}
		}
		raw = pubKeyWithPrefix(b.rng, want).SerializeUncompressed()
		raw[0] = byte(a.Prefix)
		if !a.OnCurve {
			// move y off the curve, keeping its parity
			y := new(big.Int).SetBytes(raw[33:65])
			y.Add(y, big.NewInt(2))
			if y.Cmp(curveP) >= 0 {
				y.Sub(y, big.NewInt(4))
			}
			y.FillBytes(raw[33:65])
		}
	}
	s := hex.EncodeToString(raw)
	if up {
		s = strings.ToUpper(s)
	}
	return s
}

func (b *builder) runPkHex(c *vrun.Ctx, rc rawCase) error {
	var cs struct {
		S     pkHexAbs `json:"s"`
		Dn    string   `json:"dn"`
		Upper bool     `json:"upper"`
	}
	if err := rc.decode(&cs, nil); err != nil {
		return err
	}
	s := b.pkHexString(cs.S, cs.Upper)
	a, o, err := b.t.checkDecode(c, s, cs.Dn, "table-row", "row of the hex public key decision table", rc.replay())
	if err != nil {
		return err
	}
	c.AddEval(1)
	if a.form != "pkhex" || a.pkhex != cs.S {
		return fmt.Errorf("binder built hex key %q with attributes %+v, requested %+v", s, a.describe(), cs.S)
	}
	if o.d.Accept {
		// EncodeAddress of a pay-to-pubkey address is the pay-to-pubkey-hash
		// address of the serialised key: it must decode under the same network
		enc := o.addr.EncodeAddress()
		if _, _, err := b.t.checkDecode(c, enc, cs.Dn, "p2pk-encoded", "EncodeAddress() of a decoded hex public key", rc.replay()); err != nil {
			return err
		}
	}
	c.AddTraces(1)
	c.Distinct(fmt.Sprintf("pkhex/%d/%t/%d/%t/%t/%t", cs.S.NChars, cs.S.HexOK, cs.S.Prefix, cs.S.OnCurve, cs.S.Parity, cs.Upper))
	return nil
}

// runMixed builds the mixed-case strings of one class: a valid address in one
// case with one or all occurrences of a letter (the first or the last letter of
// the alphabet, or another) of the prefix or of the data part in the other case.
func (b *builder) runMixed(c *vrun.Ctx, rc rawCase) error {
	var cs struct {
		Base, Letter, Where, Count string
		Ver                        int
	}
	if err := rc.decode(&cs, nil); err != nil {
		return err
	}
	pick := func(ch byte) bool { // lower-case letter of the wanted class
		switch cs.Letter {
		case "a":
			return ch == 'a'
		case "z":
			return ch == 'z'
		}
		return ch > 'a' && ch < 'z'
	}
	built := 0
	for _, hrp := range b.t.w.regHrps {
		if !b.t.w.implDecodable[hrp] {
			continue
		}
		for try := 0; try < 40 && built < 12; try++ {
			plen := 20
			if cs.Ver == 1 {
				plen = 32
			}
			if len(hrp)+8+(8*plen+4)/5 > 90 {
				break
			}
			conv, _ := bech32.ConvertBits(randBytes(b.rng, plen), 8, 5, true)
			data := append([]byte{byte(cs.Ver)}, conv...)
			var s string
			var err error
			if cs.Ver == 0 {
				s, err = bech32.Encode(hrp, data)
			} else {
				s, err = bech32.EncodeM(hrp, data)
			}
			if err != nil {
				return err
			}
			lo, hi := 0, len(hrp)
			if cs.Where == "data" {
				lo, hi = len(hrp)+1, len(s)
			}
			var pos []int
			for i := lo; i < hi; i++ {
				if pick(s[i]) {
					pos = append(pos, i)
				}
			}
			if len(pos) == 0 {
				continue
			}
			if cs.Count == "one" {
				pos = []int{pos[b.rng.Intn(len(pos))]}
			}
			bs := []byte(s)
			if cs.Base == "upper" {
				bs = []byte(strings.ToUpper(s))
			}
			for _, i := range pos {
				bs[i] ^= 0x20
			}
			// still mixed? (the string needs a letter left in the base case)
			m := string(bs)
			if m == strings.ToLower(m) || m == strings.ToUpper(m) {
				continue
			}
			a, _, err := b.t.checkDecode(c, m, b.t.w.names[b.rng.Intn(len(b.t.w.names))], "mixed-case",
				fmt.Sprintf("%s-case address with %s occurrence(s) of a letter of class %q of the %s in the other case", cs.Base, cs.Count, cs.Letter, cs.Where), rc.replay())
			if err != nil {
				return err
			}
			c.AddEval(1)
			if a.form != "bech" || a.bech.Case != "mixed" {
				return fmt.Errorf("binder built %q for a mixed-case class, abstraction %v", m, a.describe())
			}
			built++
		}
	}
	if built > 0 {
		c.AddTraces(1)
		c.Distinct(fmt.Sprintf("mixed/%s/%s/%s/%s/v%d", cs.Base, cs.Letter, cs.Where, cs.Count, cs.Ver))
	} else {
		c.AddExtra("mixed_classes_without_a_string", 1)
	}
	return nil
}
