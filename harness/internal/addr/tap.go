package addr

import (
	"bytes"
	"encoding/json"
	"fmt"

	"github.com/btcsuite/btcd/btcec/v2"
	"github.com/btcsuite/btcd/btcec/v2/schnorr"
	"github.com/btcsuite/btcd/chainhash/v2"
	"github.com/btcsuite/btcd/txscript/v2"
	"github.com/btcsuite/btcd/wire/v2"

	"verif/harness/internal/vrun"
)

// hashTerm is an abstract hash of AddrCodec.tla: a leaf hash L(v, s) or a
// branch hash B{kids}.
type hashTerm struct {
	T    string     `json:"t"`
	V    int        `json:"v"`
	S    int        `json:"s"`
	Kids []hashTerm `json:"kids"`
}

type treeTerm struct {
	T string    `json:"t"`
	I int       `json:"i"`
	L *treeTerm `json:"l"`
	R *treeTerm `json:"r"`
}

type tapLeafSpec struct {
	V int `json:"v"`
	S int `json:"s"`
}

type tapNegative struct {
	M  string `json:"m"`
	J  int    `json:"j"`
	OK bool   `json:"ok"`
}

type tapExpect struct {
	Tree       treeTerm        `json:"tree"`
	Root       hashTerm        `json:"root"`
	Proofs     [][]hashTerm    `json:"proofs"`
	ImplProofs [][]hashTerm    `json:"implproofs"`
	ImplOK     []bool          `json:"implok"`
	Negatives  [][]tapNegative `json:"negatives"`
}

// scriptOf is the tapscript standing for script id s: it succeeds when the
// witness supplies the number s.
func scriptOf(s int) []byte {
	if s >= 1 && s <= 16 {
		return []byte{byte(txscript.OP_1 - 1 + s), txscript.OP_EQUAL}
	}
	return []byte{txscript.OP_DATA_1, byte(s), txscript.OP_EQUAL}
}

func compactSize(n int) []byte {
	if n < 0xfd {
		return []byte{byte(n)}
	}
	return []byte{0xfd, byte(n), byte(n >> 8)}
}

// concrete gives the bytes of an abstract hash: the tagged hashes of BIP341
// along the term.
func concrete(h hashTerm) []byte {
	switch h.T {
	case "L":
		sc := scriptOf(h.S)
		msg := append([]byte{byte(h.V)}, compactSize(len(sc))...)
		msg = append(msg, sc...)
		return chainhash.TaggedHash([]byte("TapLeaf"), msg)[:]
	case "B":
		a := concrete(h.Kids[0])
		b := a
		if len(h.Kids) == 2 {
			b = concrete(h.Kids[1])
		}
		if bytes.Compare(a, b) > 0 {
			a, b = b, a
		}
		return chainhash.TaggedHash([]byte("TapBranch"), a, b)[:]
	}
	panic("unknown hash term " + h.T)
}

func concretePath(p []hashTerm) []byte {
	var out []byte
	for _, h := range p {
		out = append(out, concrete(h)...)
	}
	return out
}

// outputKey computes Q = lift_x(P) + H_TapTweak(P || root) G with the curve
// primitives, and the parity of Q.
func outputKey(ikey *btcec.PublicKey, root []byte) (*btcec.PublicKey, bool) {
	px := schnorr.SerializePubKey(ikey)
	even, _ := schnorr.ParsePubKey(px)
	t := chainhash.TaggedHash([]byte("TapTweak"), px, root)
	var ts btcec.ModNScalar
	ts.SetBytes((*[32]byte)(t))
	var pj, tj, qj btcec.JacobianPoint
	even.AsJacobian(&pj)
	btcec.ScalarBaseMultNonConst(&ts, &tj)
	btcec.AddNonConst(&pj, &tj, &qj)
	qj.ToAffine()
	q := btcec.NewPublicKey(&qj.X, &qj.Y)
	return q, q.SerializeCompressed()[0] == 3
}

func buildNode(t *treeTerm, leaves []txscript.TapLeaf) txscript.TapNode {
	if t.T == "leaf" {
		return leaves[t.I-1]
	}
	return txscript.NewTapBranch(buildNode(t.L, leaves), buildNode(t.R, leaves))
}

// sameShape compares the tree the assembler built with the specification's.
func sameShape(n txscript.TapNode, t *treeTerm, leaves []txscript.TapLeaf) bool {
	if n == nil {
		return false
	}
	if t.T == "leaf" {
		l, ok := n.(txscript.TapLeaf)
		return ok && l.LeafVersion == leaves[t.I-1].LeafVersion && bytes.Equal(l.Script, leaves[t.I-1].Script)
	}
	if n.Left() == nil || n.Right() == nil {
		return false
	}
	return sameShape(n.Left(), t.L, leaves) && sameShape(n.Right(), t.R, leaves)
}

const tapFlags = txscript.ScriptBip16 | txscript.ScriptVerifyWitness | txscript.ScriptVerifyTaproot

// spend runs a script-path spend of leaf (version v, script id s) with a
// control block through the script engine.
func spend(pkScript []byte, s int, script, cb []byte) error {
	tx := wire.NewMsgTx(2)
	var prev chainhash.Hash
	prev[0] = 0x16
	arg := []byte{byte(s)}
	tx.AddTxIn(wire.NewTxIn(wire.NewOutPoint(&prev, 0), nil, [][]byte{arg, script, cb}))
	tx.AddTxOut(wire.NewTxOut(900, []byte{txscript.OP_TRUE}))
	fetcher := txscript.NewCannedPrevOutputFetcher(pkScript, 1000)
	hc := txscript.NewTxSigHashes(tx, fetcher)
	vm, err := txscript.NewEngine(pkScript, tx, 0, tapFlags, nil, hc, 1000, fetcher)
	if err != nil {
		return err
	}
	return vm.Execute()
}

const keyDupLeaf = "taproot:duplicate-leaf-proof-misassigned"

// runTap handles kinds "tap" (the assembler's tree) and "tapgen" (an arbitrary
// shape built by hand).
func (b *builder) runTap(c *vrun.Ctx, rc rawCase) error {
	var cs struct {
		Kind   string        `json:"kind"`
		Leaves []tapLeafSpec `json:"leaves"`
	}
	var ex tapExpect
	if err := rc.decode(&cs, &ex); err != nil {
		return err
	}
	n := len(cs.Leaves)
	leaves := make([]txscript.TapLeaf, n)
	distinct := true
	seen := map[string]bool{}
	for i, l := range cs.Leaves {
		leaves[i] = txscript.NewTapLeaf(txscript.TapscriptLeafVersion(l.V), scriptOf(l.S))
		k := fmt.Sprint(l.V, "/", l.S)
		if seen[k] {
			distinct = false
		}
		seen[k] = true
	}
	ikey := randKey(b.rng).PubKey()
	shapeKey := fmt.Sprintf("%s/n%d", cs.Kind, n)
	bad := func(key, what string) {
		rp := rc.replay()
		rp["internal_key"] = fmt.Sprintf("%x", schnorr.SerializePubKey(ikey))
		c.Violation("taproot:"+key, fmt.Sprintf("%s tree of %d leaves %v: %s", cs.Kind, n, cs.Leaves, what), rp)
	}

	wantRoot := concrete(ex.Root)
	var rootNode txscript.TapNode
	var codeProofs [][]byte
	var codeCBs []txscript.ControlBlock
	if cs.Kind == "tap" {
		tree := txscript.AssembleTaprootScriptTree(leaves...)
		rootNode = tree.RootNode
		c.AddEval(2)
		if !sameShape(rootNode, &ex.Tree, leaves) {
			bad("tree-shape", "AssembleTaprootScriptTree built another tree than the specification")
			return nil
		}
		if len(tree.LeafMerkleProofs) != n {
			bad("proof-count", fmt.Sprintf("%d proofs for %d leaves", len(tree.LeafMerkleProofs), n))
			return nil
		}
		for i := range tree.LeafMerkleProofs {
			codeProofs = append(codeProofs, tree.LeafMerkleProofs[i].InclusionProof)
			codeCBs = append(codeCBs, tree.LeafMerkleProofs[i].ToControlBlock(ikey))
		}
	} else {
		rootNode = buildNode(&ex.Tree, leaves)
	}
	rh := rootNode.TapHash()
	c.AddEval(1)
	if !bytes.Equal(rh[:], wantRoot) {
		bad("root-hash", fmt.Sprintf("root hash %x, the specification's tree hashes to %x", rh[:], wantRoot))
		return nil
	}
	// leaf hashes
	for i, l := range cs.Leaves {
		lh := leaves[i].TapHash()
		c.AddEval(1)
		if !bytes.Equal(lh[:], concrete(hashTerm{T: "L", V: l.V, S: l.S})) {
			bad("leaf-hash", fmt.Sprintf("leaf %d hashes to %x", i, lh[:]))
			return nil
		}
	}
	q, odd := outputKey(ikey, wantRoot)
	prog := schnorr.SerializePubKey(q)
	got := txscript.ComputeTaprootOutputKey(ikey, rh[:])
	c.AddEval(1)
	if !got.IsEqual(q) {
		bad("output-key", fmt.Sprintf("ComputeTaprootOutputKey gives %x, P + H(P||root)G is %x", got.SerializeCompressed(), q.SerializeCompressed()))
		return nil
	}
	pkScript, err := txscript.PayToTaprootScript(q)
	if err != nil {
		return err
	}

	for i, l := range cs.Leaves {
		script := leaves[i].Script
		// the control block the property describes: version | parity, key, path
		path := concretePath(ex.Proofs[i])
		specCB := txscript.ControlBlock{InternalKey: ikey, OutputKeyYIsOdd: odd,
			LeafVersion: txscript.TapscriptLeafVersion(l.V), InclusionProof: path}
		first := byte(l.V)
		if odd {
			first |= 1
		}
		wantBytes := append(append([]byte{first}, schnorr.SerializePubKey(ikey)...), path...)
		cbBytes, err := specCB.ToBytes()
		c.AddEval(5)
		if err != nil || !bytes.Equal(cbBytes, wantBytes) {
			bad("control-block-bytes", fmt.Sprintf("leaf %d: ToBytes gives %x (%v), layout says %x", i, cbBytes, err, wantBytes))
			continue
		}
		parsed, err := txscript.ParseControlBlock(wantBytes)
		if err != nil || parsed.OutputKeyYIsOdd != odd || parsed.LeafVersion != specCB.LeafVersion ||
			!bytes.Equal(parsed.InclusionProof, path) || !bytes.Equal(schnorr.SerializePubKey(parsed.InternalKey), schnorr.SerializePubKey(ikey)) {
			bad("control-block-parse", fmt.Sprintf("leaf %d: ParseControlBlock(%x) = %+v (%v)", i, wantBytes, parsed, err))
			continue
		}
		if r := specCB.RootHash(script); !bytes.Equal(r, wantRoot) {
			bad("root-from-proof", fmt.Sprintf("leaf %d: RootHash over the specification's path gives %x, root is %x", i, r, wantRoot))
		}
		if err := txscript.VerifyTaprootLeafCommitment(&specCB, prog, script); err != nil {
			bad("valid-proof-rejected", fmt.Sprintf("leaf %d: VerifyTaprootLeafCommitment rejects the specification's control block: %v", i, err))
		}
		if err := spend(pkScript, l.S, script, wantBytes); err != nil {
			bad("script-path-spend", fmt.Sprintf("leaf %d: script path spend with the specification's control block fails: %v", i, err))
		}

		if cs.Kind == "tap" {
			// what the assembler handed out: implementation layer first, then the property
			implPath := concretePath(ex.ImplProofs[i])
			c.AddEval(3)
			drift := !bytes.Equal(codeProofs[i], implPath)
			cb := codeCBs[i]
			verr := txscript.VerifyTaprootLeafCommitment(&cb, prog, script)
			switch {
			case verr != nil && !ex.ImplOK[i] && !drift && !distinct:
				c.Violation(keyDupLeaf, fmt.Sprintf("tree of %d leaves %v: the control block AssembleTaprootScriptTree hands out for leaf %d (proof of %d nodes, %d needed) does not prove it: %v",
					n, cs.Leaves, i, len(codeProofs[i])/32, len(path)/32, verr), rc.replay())
			case verr != nil:
				bad("leaf-not-proved", fmt.Sprintf("leaf %d: control block of the assembler (proof %x) does not prove the leaf: %v", i, codeProofs[i], verr))
			case drift:
				c.AddExtra("model_drift", 1)
			}
			if verr == nil {
				cbb, err := cb.ToBytes()
				if err != nil {
					bad("control-block-bytes", fmt.Sprintf("leaf %d: %v", i, err))
				} else if err := spend(pkScript, l.S, script, cbb); err != nil {
					bad("script-path-spend", fmt.Sprintf("leaf %d: script path spend with the assembler's control block fails: %v", i, err))
				}
				if cb.OutputKeyYIsOdd != odd || cb.LeafVersion != txscript.TapscriptLeafVersion(l.V) {
					bad("control-block-fields", fmt.Sprintf("leaf %d: parity %t version %x", i, cb.OutputKeyYIsOdd, cb.LeafVersion))
				}
			}
		}

		// control blocks that must not (or may) verify
		for _, ng := range ex.Negatives[i] {
			mcb := specCB
			mprog := prog
			mscript := script
			ms := l.S
			switch ng.M {
			case "other-leaf-script":
				mscript = leaves[ng.J-1].Script
				ms = cs.Leaves[ng.J-1].S
				mcb.LeafVersion = leaves[ng.J-1].LeafVersion
			case "other-leaf-proof":
				mcb.InclusionProof = concretePath(ex.Proofs[ng.J-1])
			case "drop-last-node":
				mcb.InclusionProof = path[:len(path)-32]
			case "reverse-path":
				var rev []byte
				for k := len(path) - 32; k >= 0; k -= 32 {
					rev = append(rev, path[k:k+32]...)
				}
				mcb.InclusionProof = rev
			case "extra-node":
				mcb.InclusionProof = append(append([]byte(nil), path...), concrete(hashTerm{T: "L", V: 192, S: 99})...)
			case "flip-parity":
				mcb.OutputKeyYIsOdd = !odd
			case "other-internal-key":
				mcb.InternalKey = randKey(b.rng).PubKey()
			case "other-leaf-version":
				if l.V == 192 {
					mcb.LeafVersion = 194
				} else {
					mcb.LeafVersion = 192
				}
			case "other-program":
				oq, _ := outputKey(ikey, concrete(hashTerm{T: "L", V: 192, S: 99}))
				mprog = schnorr.SerializePubKey(oq)
			default:
				return fmt.Errorf("unknown negative %s", ng.M)
			}
			verr := txscript.VerifyTaprootLeafCommitment(&mcb, mprog, mscript)
			c.AddEval(1)
			if (verr == nil) != ng.OK {
				bad("verify-"+ng.M, fmt.Sprintf("leaf %d, control block mutation %s (j=%d): verification error %v, specification says ok=%t", i, ng.M, ng.J, verr, ng.OK))
			}
			if !ng.OK && ng.M != "other-program" {
				// the engine refuses the spend as well
				mb, err := mcb.ToBytes()
				if err == nil {
					c.AddEval(1)
					if err := spend(pkScript, ms, mscript, mb); err == nil {
						bad("spend-"+ng.M, fmt.Sprintf("leaf %d: script path spend succeeds with control block mutation %s", i, ng.M))
					}
				}
			}
		}
	}
	c.AddTraces(1)
	vs, _ := json.Marshal(cs.Leaves)
	if cs.Kind == "tap" {
		c.Distinct("tap/" + string(vs))
	} else {
		ts, _ := json.Marshal(ex.Tree)
		c.Distinct("tapgen/" + string(vs) + string(ts))
	}
	_ = shapeKey
	return nil
}
