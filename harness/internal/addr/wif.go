package addr

import (
	"bytes"
	"fmt"
	"math/big"

	"github.com/btcsuite/btcd/address/v2/base58"
	"github.com/btcsuite/btcd/btcutil/v2"

	"verif/harness/internal/vrun"
)

// wifAbs mirrors WifStr.
type wifAbs struct {
	V     int    `json:"v"`
	Total int    `json:"total"`
	Flag  int    `json:"flag"`
	Ck    string `json:"ck"`
	Key   string `json:"key"`
}

type wifDecision struct {
	Accept     bool     `json:"accept"`
	Compressed bool     `json:"compressed"`
	V          int      `json:"v"`
	ForNets    []string `json:"fornets"`
}

type wifTable struct {
	rows   map[string]wifDecision
	ids    map[int]bool
	totals map[int]bool
}

func wifKey(a wifAbs) string { return fmt.Sprintf("%d|%d|%d|%s|%s", a.V, a.Total, a.Flag, a.Ck, a.Key) }

func loadWif(cases []rawCase) (*wifTable, error) {
	t := &wifTable{rows: map[string]wifDecision{}, ids: map[int]bool{}, totals: map[int]bool{}}
	for _, rc := range cases {
		if rc.kind != "wif" {
			continue
		}
		var cs struct {
			S wifAbs `json:"s"`
		}
		var ex struct {
			D wifDecision `json:"d"`
		}
		if err := rc.decode(&cs, &ex); err != nil {
			return nil, err
		}
		t.rows[wifKey(cs.S)] = ex.D
		if cs.S.V >= 0 {
			t.ids[cs.S.V] = true
		}
		t.totals[cs.S.Total] = true
	}
	if len(t.rows) == 0 {
		return nil, fmt.Errorf("WIF decision table missing from the TLC output")
	}
	return t, nil
}

// abstractWif: attributes of an arbitrary string offered to DecodeWIF.
func (t *wifTable) abstract(s string) (wifAbs, []byte) {
	raw, ok := refB58Decode(s)
	if !ok {
		raw = nil // base58.Decode answers with no bytes
	}
	a := wifAbs{V: -1, Total: len(raw), Ck: "bad", Key: "ok"}
	if len(raw) > 0 && t.ids[int(raw[0])] {
		a.V = int(raw[0])
	}
	if len(raw) >= 5 {
		sum := sha256d(raw[:len(raw)-4])
		if bytes.Equal(sum[:4], raw[len(raw)-4:]) {
			a.Ck = "ok"
		}
	}
	if a.Total == 37 || a.Total == 38 {
		k := new(big.Int).SetBytes(raw[1:33])
		switch {
		case k.Sign() == 0:
			a.Key = "zero"
		case k.Cmp(curveN) == 0:
			a.Key = "eqN"
		case k.Cmp(curveN) > 0:
			a.Key = "gtN"
		}
	}
	if a.Total == 38 && raw[33] == 1 {
		a.Flag = 1
	}
	// rows exist for the listed totals only; the others decide like a neighbour
	if !t.totals[a.Total] {
		switch {
		case a.Total < 36:
			a.Total = 5
		case a.Total > 38:
			a.Total = 39
		default:
			a.Total = 36
		}
	}
	if a.Total != 37 && a.Total != 38 {
		// neither key nor checksum position is defined for other lengths
		a.Key = "ok"
	}
	var key []byte
	if len(raw) >= 33 {
		key = raw[1:33]
	}
	return a, key
}

func (t *wifTable) check(c *vrun.Ctx, w *world, s, shape, what string, replay any) (wifAbs, *btcutil.WIF, error) {
	a, key := t.abstract(s)
	d, ok := t.rows[wifKey(a)]
	if !ok {
		// checksum attribute of a string of another length: both rows reject
		alt := a
		alt.Ck = "ok"
		if d, ok = t.rows[wifKey(alt)]; !ok {
			return a, nil, fmt.Errorf("%s %q: no row for abstract WIF string %+v", what, s, a)
		}
	}
	var got *btcutil.WIF
	var err error
	if pn := safely(func() { got, err = btcutil.DecodeWIF(s) }); pn != "" {
		c.Violation("wif:"+shape+":panic", fmt.Sprintf("DecodeWIF(%q) [%s] panics: %s", s, what, pn), map[string]any{"string": s, "case": replay})
		return a, nil, nil
	}
	c.AddEval(1)
	bad := func(key, why string) {
		c.Violation("wif:"+shape+":"+key, fmt.Sprintf("DecodeWIF(%q) [%s]: %s", s, what, why),
			map[string]any{"string": s, "abstract": a, "origin": what, "case": replay})
	}
	if (err == nil) != d.Accept {
		if d.Accept {
			bad("rejected-must-accept", fmt.Sprintf("error %v, specification accepts", err))
		} else {
			bad("accepted-must-reject", "accepted, specification rejects")
		}
		return a, nil, nil
	}
	if err != nil {
		return a, nil, nil
	}
	c.AddEval(4)
	if got.CompressPubKey != d.Compressed {
		bad("compressed-flag", fmt.Sprintf("CompressPubKey = %t, specification %t", got.CompressPubKey, d.Compressed))
	}
	if !bytes.Equal(got.PrivKey.Serialize(), key) {
		bad("key", fmt.Sprintf("private key %x, string carries %x", got.PrivKey.Serialize(), key))
	}
	var nets []string
	for _, n := range w.names {
		if got.IsForNet(w.params[n]) {
			nets = append(nets, n)
		}
	}
	if !sameSet(nets, d.ForNets) {
		bad("isfornet", fmt.Sprintf("IsForNet holds for %v, specification %v", nets, d.ForNets))
	}
	if got.String() != s {
		bad("re-encode", fmt.Sprintf("String() gives %q", got.String()))
	}
	wantLen := 65
	if d.Compressed {
		wantLen = 33
	}
	if len(got.SerializePubKey()) != wantLen {
		bad("pubkey-form", fmt.Sprintf("SerializePubKey has %d bytes", len(got.SerializePubKey())))
	}
	return a, got, nil
}

func (b *builder) wifBytes(a wifAbs, ids map[int]bool) []byte {
	v := byte(a.V)
	if a.V < 0 {
		for {
			v = byte(b.rng.Intn(256))
			if !ids[int(v)] {
				break
			}
		}
	}
	body := a.Total - 5 // bytes between the net byte and the checksum
	if body < 0 {
		body = 0
	}
	raw := append([]byte{v}, randBytes(b.rng, body)...)
	if a.Total == 37 || a.Total == 38 {
		var k *big.Int
		switch a.Key {
		case "zero":
			k = new(big.Int)
		case "eqN":
			k = new(big.Int).Set(curveN)
		case "gtN":
			k = new(big.Int).Add(curveN, big.NewInt(int64(1+b.rng.Intn(1000))))
			if b.rng.Intn(2) == 0 {
				k.SetBytes(bytes.Repeat([]byte{0xff}, 32))
			}
		default:
			k = new(big.Int).SetBytes(randKey(b.rng).Serialize())
			switch b.rng.Intn(8) {
			case 0:
				k.SetInt64(1)
			case 1:
				k.Sub(curveN, big.NewInt(1))
			}
		}
		k.FillBytes(raw[1:33])
	}
	if a.Total == 38 {
		if a.Flag == 1 {
			raw[33] = 1
		} else {
			raw[33] = []byte{0, 2, 0x81, 0xff}[b.rng.Intn(4)]
		}
	}
	sum := sha256d(raw)[:4]
	if a.Ck != "ok" {
		sum[b.rng.Intn(4)] ^= byte(1 + b.rng.Intn(255))
	}
	return append(raw, sum...)
}

func (b *builder) runWif(c *vrun.Ctx, wt *wifTable, rc rawCase) error {
	var cs struct {
		S wifAbs `json:"s"`
	}
	if err := rc.decode(&cs, nil); err != nil {
		return err
	}
	if (cs.S.Total != 37 && cs.S.Total != 38) && cs.S.Key != "ok" {
		// the key class is not defined for these lengths: the "ok" row stands for all
		c.AddExtra("rows_standing_for_another", 1)
		return nil
	}
	for rep := 0; rep < 3; rep++ {
		s := base58.Encode(b.wifBytes(cs.S, wt.ids))
		a, _, err := wt.check(c, b.t.w, s, "table-row", "row of the WIF decision table", rc.replay())
		if err != nil {
			return err
		}
		c.AddEval(1)
		if a != cs.S {
			return fmt.Errorf("binder built WIF string %q with attributes %+v, requested %+v", s, a, cs.S)
		}
	}
	c.AddTraces(1)
	c.Distinct(fmt.Sprintf("wif/%d/%d/%d/%s/%s", cs.S.V, cs.S.Total, cs.S.Flag, cs.S.Ck, cs.S.Key))
	return nil
}

func (b *builder) runWifObj(c *vrun.Ctx, wt *wifTable, rc rawCase, edits int) error {
	var cs struct {
		Net        string `json:"net"`
		Compressed bool   `json:"compressed"`
	}
	var ex struct {
		S wifAbs      `json:"s"`
		D wifDecision `json:"d"`
	}
	if err := rc.decode(&cs, &ex); err != nil {
		return err
	}
	for rep := 0; rep < 6; rep++ {
		priv := randKey(b.rng)
		w, err := btcutil.NewWIF(priv, b.t.w.params[cs.Net], cs.Compressed)
		if err != nil {
			return err
		}
		s := w.String()
		a, got, err := wt.check(c, b.t.w, s, "encoded-wif", "String() of a WIF made by NewWIF", rc.replay())
		if err != nil {
			return err
		}
		c.AddEval(2)
		if a != ex.S {
			c.Violation("wif:encode:unexpected-string-form", fmt.Sprintf("WIF for %s compressed=%t encodes as %q = %+v, specification %+v", cs.Net, cs.Compressed, s, a, ex.S), rc.replay())
		}
		if got != nil && !bytes.Equal(got.PrivKey.Serialize(), priv.Serialize()) {
			c.Violation("wif:round-trip:key", fmt.Sprintf("WIF %q decodes to another key", s), rc.replay())
		}
		for j := 0; j < edits; j++ {
			k := 1 + b.rng.Intn(4)
			typ := []string{"sub", "subany", "ins", "del", "swap", "mix"}[b.rng.Intn(6)]
			e := applyEdit(b.rng, s, "b58", typ, "any", k)
			if e == s {
				continue
			}
			if _, _, err := wt.check(c, b.t.w, e, "edited", fmt.Sprintf("%d %s edit(s) of valid WIF %q", k, typ, s), rc.replay()); err != nil {
				return err
			}
		}
	}
	c.AddTraces(1)
	c.Distinct(fmt.Sprintf("wifobj/%s/%t", cs.Net, cs.Compressed))
	return nil
}
