package chainh

import (
	"testing"
	"time"
)

func TestBenchNode(t *testing.T) {
	sc := &Scenario{N: 3, Parent: []int{0, 0, 1, 2}, Work: []int{0, 1, 1, 1}, Flaw: []string{"none", "none", "none", "none"}}
	f := NewFactory(sc, NetOpts{Maturity: 1}, 1)
	f.BuildAll()
	for i := 0; i < 6; i++ {
		t0 := time.Now()
		n, err := NewNode(f, 0)
		if err != nil {
			t.Fatal(err)
		}
		t1 := time.Now()
		for b := 1; b <= 3; b++ {
			if r, err := n.DeliverBlock(b); err != nil {
				t.Fatal(r, err)
			}
		}
		t2 := time.Now()
		n.CheckUtxo()
		t3 := time.Now()
		n.Flush("required")
		t4 := time.Now()
		n.Reopen()
		t5 := time.Now()
		n.DB.Close()
		t6 := time.Now()
		n.DB = nil
		n.Close()
		t.Logf("new %v deliver %v check %v flush %v reopen %v dbclose %v rm %v", t1.Sub(t0), t2.Sub(t1), t3.Sub(t2), t4.Sub(t3), t5.Sub(t4), t6.Sub(t5), time.Since(t6))
	}
}
