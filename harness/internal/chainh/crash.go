package chainh

import (
	"fmt"
	"os"
	"path/filepath"

	"github.com/btcsuite/btcd/blockchain"
	"github.com/btcsuite/btcd/btcutil/v2"
	"github.com/btcsuite/btcd/database"

	"verif/harness/internal/tlc"
	"verif/harness/internal/vrun"
)

// crashDB wraps the real database. Every mutation the blockchain package
// makes goes through DB.Update, so "the process dies between durable commit k
// and k+1" is emulated exactly by refusing (with a panic that unwinds the
// call, like a crash stops the process) to start commit k+1; the real
// database is then closed and reopened, which leaves exactly commits 1..k.
type crashDB struct {
	database.DB
	commits int
	crashAt int          // -1: never
	rec     *[]*commitEv // when set, every durable commit is recorded
	f       *Factory
	pending func() []int // blocks being connected by the running call
}

type crashSentinel struct{}

func (c *crashDB) Update(fn func(tx database.Tx) error) error {
	if c.crashAt >= 0 && c.commits >= c.crashAt {
		panic(crashSentinel{})
	}
	if c.rec == nil {
		err := c.DB.Update(fn)
		if err == nil {
			c.commits++
		}
		return err
	}
	ev := newEv()
	err := c.DB.Update(func(tx database.Tx) error { return fn(&recTx{Tx: tx, f: c.f, ev: ev}) })
	if err == nil {
		c.commits++
		ev.UtxoAt = c.f.utxoAt(c.DB)
		if ev.Best >= 0 {
			ev.Connecting = []int{ev.Best}
		}
		*c.rec = append(*c.rec, ev)
	}
	return err
}

type crashNode struct {
	f       *Factory
	dir     string
	real    database.DB
	wrap    *crashDB
	chain   *blockchain.BlockChain
	cache   uint64
	notes   []Note
	prune   uint64 // prune target in bytes (0: off)
	maxFile uint32 // block-file size limit (0: default)
}

func (n *crashNode) openChain(crashAt int) (err error, crashed bool) {
	n.wrap = &crashDB{DB: n.real, crashAt: crashAt}
	fresh := n.f.NodeParams()
	defer func() {
		if r := recover(); r != nil {
			if _, ok := r.(crashSentinel); ok {
				crashed = true
				return
			}
			panic(r)
		}
	}()
	if n.maxFile != 0 {
		setMaxBlockFileSize(n.real, n.maxFile)
	}
	chain, e := blockchain.New(&blockchain.Config{DB: n.wrap, ChainParams: fresh, TimeSource: &FixedTime{T: n.f.Now()}, UtxoCacheMaxSize: n.cache, Prune: n.prune})
	if e != nil {
		return e, false
	}
	n.chain = chain
	chain.Subscribe(func(nt *blockchain.Notification) {
		if nt.Type == blockchain.NTBlockConnected || nt.Type == blockchain.NTBlockDisconnected {
			if blk, ok := nt.Data.(*btcutil.Block); ok {
				n.notes = append(n.notes, Note{nt.Type == blockchain.NTBlockConnected, n.f.ID(blk.Hash())})
			}
		}
	})
	return nil, false
}

func newCrashNode(f *Factory, cache uint64, crashAt int, prune uint64, maxFile uint32) (*crashNode, error) {
	dir, err := os.MkdirTemp(scratchRoot(), "verif-crash-")
	if err != nil {
		return nil, err
	}
	n := &crashNode{f: f, dir: dir, cache: cache, prune: prune, maxFile: maxFile}
	n.real, err = database.Create("ffldb", filepath.Join(dir, "db"), f.Params.Net)
	if err != nil {
		os.RemoveAll(dir)
		return nil, err
	}
	// creating the chain state makes a few commits of its own; they are not crash points of the workload
	if err, _ := n.openChain(-1); err != nil {
		n.close()
		return nil, err
	}
	// pruned workloads: the last explicit flush of the cache lies a varying number of blocks in the past, so that
	// with a large cache the consistency marker can sit inside the block file a prune of the workload deletes
	flushAt := -1
	if prune != 0 && len(f.Pre) > 30 {
		flushAt = len(f.Pre) - 19 - int(uint64(f.Base.Unix()+int64(len(f.Pre))*7919+int64(f.Sc.N))%9)
	}
	for i, pb := range f.Pre {
		if _, _, err := n.chain.ProcessBlock(btcutil.NewBlock(pb.MsgBlock()), blockchain.BFNone); err != nil {
			n.close()
			return nil, fmt.Errorf("preamble block refused: %w", err)
		}
		if i == flushAt {
			if err := n.chain.FlushUtxoCache(blockchain.FlushRequired); err != nil {
				n.close()
				return nil, err
			}
		}
	}
	if prune == 0 && len(f.Pre) > 0 {
		// the workload starts from ChainStore.tla's initial state: everything below abstract block 0 is flushed
		// (consistency marker = abstract block 0, utxo bucket = its fold)
		if err := n.chain.FlushUtxoCache(blockchain.FlushRequired); err != nil {
			n.close()
			return nil, err
		}
	}
	n.notes = nil
	n.wrap.commits = 0
	n.wrap.crashAt = crashAt
	return n, nil
}

func (n *crashNode) close() {
	if n.real != nil {
		n.real.Close()
	}
	os.RemoveAll(n.dir)
}

// reopenAfterCrash closes the real database (everything committed so far is
// durable) and opens database and chain again; recoveryCrashAt >= 0 crashes
// the recovery itself after that many commits.
func (n *crashNode) reopenAfterCrash(recoveryCrashAt int) (err error, crashed bool) {
	if err := n.real.Close(); err != nil {
		return err, false
	}
	n.real, err = database.Open("ffldb", filepath.Join(n.dir, "db"), n.f.Params.Net)
	if err != nil {
		return err, false
	}
	n.chain = nil
	return n.openChain(recoveryCrashAt)
}

type crashOp struct {
	op  string
	b   int
	arg string
}

// step runs one workload operation; crashed reports the simulated crash.
func (n *crashNode) step(o crashOp) (res string, crashed bool) {
	defer func() {
		if r := recover(); r != nil {
			if _, ok := r.(crashSentinel); ok {
				crashed = true
				return
			}
			panic(r)
		}
	}()
	switch o.op {
	case "block":
		isMain, isOrphan, err := n.chain.ProcessBlock(n.f.Fresh(o.b), blockchain.BFNone)
		switch {
		case err != nil:
			return classify(err), false
		case isOrphan:
			return ROrphan, false
		case isMain:
			return RMain, false
		}
		return RSide, false
	case "header":
		h := n.f.Blocks[o.b].MsgBlock().Header
		if _, err := n.chain.ProcessBlockHeader(&h, blockchain.BFNone, false); err != nil {
			return classify(err), false
		}
		return ROK, false
	case "flush":
		m := blockchain.FlushRequired
		switch o.arg {
		case "ifneeded":
			m = blockchain.FlushIfNeeded
		case "periodic":
			m = blockchain.FlushPeriodic
		}
		if err := n.chain.FlushUtxoCache(m); err != nil {
			return RInternal, false
		}
		return ROK, false
	case "invalidate":
		if err := n.chain.InvalidateBlock(n.f.Hash(o.b)); err != nil {
			return RInternal, false
		}
		return ROK, false
	case "reconsider":
		if err := n.chain.ReconsiderBlock(n.f.Hash(o.b)); err != nil {
			return RInternal, false
		}
		return ROK, false
	}
	return "", false
}

// asNode lets the view/utxo comparators run on the recovered chain.
func (n *crashNode) asNode() *Node {
	return &Node{F: n.f, Chain: n.chain, DB: n.real, Pruned: n.prune != 0}
}

// crashWorkload enumerates every crash point of one workload (a Chain.tla
// path) and, in nested mode, every crash point of each recovery.
func crashWorkload(ctx *vrun.Ctx, f *Factory, path []tlc.Step, cache uint64, nested bool, coll *traceCollector, prune uint64, maxFile uint32) error {
	var ops []crashOp
	for _, st := range path {
		last := st.To.State["last"]
		o := crashOp{op: last.F("op").Str()}
		if o.op == "flush" {
			o.arg = last.F("b").Str()
		} else {
			o.b = last.F("b").Int()
		}
		ops = append(ops, o)
	}
	final := path[len(path)-1].To.State
	// 1. uninterrupted run: commit count per op, tips made active per op, acknowledgements
	base, err := newCrashNode(f, cache, -1, prune, maxFile)
	if err != nil {
		return err
	}
	var recorded []*commitEv
	if coll != nil && prune == 0 {
		base.wrap.rec = &recorded
		base.wrap.f = f
	}
	commitsAfter := make([]int, len(ops))
	activeAfter := make([]map[int]bool, len(ops))
	ackAfter := make([]map[int]bool, len(ops))
	act := map[int]bool{0: true}
	ack := map[int]bool{}
	for i, o := range ops {
		base.notes = nil
		res, _ := base.step(o)
		for _, nt := range base.notes {
			if nt.Connected {
				act[nt.Block] = true
			}
		}
		if o.op == "block" && (res == RMain || res == RSide) {
			ack[o.b] = true
		}
		commitsAfter[i] = base.wrap.commits
		activeAfter[i] = copySet(act)
		ackAfter[i] = copySet(ack)
	}
	total := base.wrap.commits
	if coll != nil && prune == 0 {
		coll.add(f.Sc, recorded)
	}
	finalTip := f.ID(&base.chain.BestSnapshot().Hash)
	if prune != 0 {
		// Assumption of the pruned workloads (as of a real pruned node, whose prune target is far larger than any
		// reorganisation): pruning removes old blocks only, never a block of the scenario, which a
		// reorganisation or a recovery may have to read again.
		_ = base.real.View(func(tx database.Tx) error {
			if len(f.Pre) > 0 {
				if _, err := tx.FetchBlock(f.Pre[0].Hash()); err != nil {
					ctx.AddExtra("pruned_workloads_where_old_blocks_were_pruned", 1)
				}
			}
			return nil
		})
		for b := range ack {
			gone := false
			_ = base.real.View(func(tx database.Tx) error {
				if _, err := tx.FetchBlock(f.Hash(b)); err != nil {
					gone = true
					if os.Getenv("VERIF_DEBUG") != "" {
						fmt.Fprintf(os.Stderr, "pruned scenario block %d of %v: %v (sizes %v)\n", b, ops, err, func() []int {
							var z []int
							for i := 1; i <= f.Sc.N; i++ {
								z = append(z, f.Blocks[i].MsgBlock().SerializeSize())
							}
							return z
						}())
					}
				}
				return nil
			})
			if gone {
				ctx.AddExtra("pruned_workloads_skipped_scenario_block_pruned", 1)
				base.close()
				return nil
			}
		}
	}
	base.close()
	if !contains(final["exp"].F("tips"), finalTip) {
		// reported by C02, not here
		return nil
	}
	desc := func(k int) string {
		return fmt.Sprintf("scenario %s cache=%d prune=%d workload=%v crash after durable commit %d of %d", f.String(), cache, prune, ops, k, total)
	}
	for k := 0; k < total; k++ {
		// which op is interrupted by a crash after k commits?
		opIdx := 0
		for opIdx < len(ops) && commitsAfter[opIdx] <= k {
			opIdx++
		}
		if opIdx >= len(ops) {
			break
		}
		check := func(n *crashNode, what string, ackd map[int]bool) bool {
			tip := f.ID(&n.chain.BestSnapshot().Hash)
			rp := map[string]any{"scenario": f.String(), "cache": cache, "workload": fmt.Sprint(ops), "crash_after_commit": k, "interrupted_op": opIdx, "phase": what}
			if !activeAfter[opIdx][tip] {
				ctx.Violation("recovered-tip-never-active", fmt.Sprintf("%s [%s]: recovered tip is block %d, which the node had not made active (active so far: %v)", desc(k), what, tip, keysOf(activeAfter[opIdx])), rp)
				return false
			}
			if d := n.asNode().CheckViews(); d != "" {
				ctx.Violation("recovered-views", fmt.Sprintf("%s [%s]: %s", desc(k), what, d), rp)
				return false
			}
			if d := n.asNode().CheckUtxo(); d != "" {
				ctx.Violation("recovered-utxo-not-fold", fmt.Sprintf("%s [%s]: %s", desc(k), what, d), rp)
				return false
			}
			for b := range ackd {
				if ok, err := n.chain.HaveBlock(f.Hash(b)); err != nil || !ok {
					ctx.Violation("acknowledged-block-lost", fmt.Sprintf("%s [%s]: block %d was acknowledged before the crash but the recovered index does not have it (err %v)", desc(k), what, b, err), rp)
					return false
				}
			}
			return true
		}
		converge := func(n *crashNode, what string) bool {
			for _, o := range ops {
				if o.op == "block" || o.op == "header" {
					n.step(o)
				}
			}
			tip := f.ID(&n.chain.BestSnapshot().Hash)
			rp := map[string]any{"scenario": f.String(), "cache": cache, "workload": fmt.Sprint(ops), "crash_after_commit": k, "phase": what}
			// a crash loses the orphan pool, so the order in which competing branches become active can legitimately
			// differ from the uninterrupted run: any flawless branch with the same (maximal) work is a correct end state
			sameWork := func() bool {
				if tip < 0 {
					return false
				}
				ws := func(b int) int {
					w := 0
					for _, x := range f.Sc.Path(b) {
						if x != 0 {
							w += f.Sc.Work[x]
						}
					}
					return w
				}
				for _, x := range f.Sc.Path(tip) {
					if f.Sc.Flaw[x] != "none" {
						return false
					}
				}
				for _, e := range final["exp"].F("tips").Set() {
					if ws(e.Int()) == ws(tip) {
						return true
					}
				}
				return false
			}
			if !contains(final["exp"].F("tips"), tip) && !sameWork() {
				ctx.Violation("no-convergence", fmt.Sprintf("%s [%s]: after feeding the blocks again the tip is block %d; an uninterrupted run ends at %v", desc(k), what, tip, final["exp"].F("tips").Go()), rp)
				return false
			}
			if d := n.asNode().CheckUtxo(); d != "" {
				ctx.Violation("converged-utxo-not-fold", fmt.Sprintf("%s [%s]: %s", desc(k), what, d), rp)
				return false
			}
			return true
		}
		run := func(recoveryCrashAt int) (recCommits int, err error) {
			n, err := newCrashNode(f, cache, k, prune, maxFile)
			if err != nil {
				return 0, err
			}
			defer n.close()
			crashed := false
			for i, o := range ops {
				_, c := n.step(o)
				if c {
					crashed = true
					if i != opIdx {
						return 0, fmt.Errorf("harness: crash point %d hit op %d, expected %d (nondeterministic commit count)", k, i, opIdx)
					}
					break
				}
			}
			if !crashed {
				return 0, fmt.Errorf("harness: crash point %d of %d not reached", k, total)
			}
			ackd := map[int]bool{}
			if opIdx > 0 {
				ackd = ackAfter[opIdx-1]
			}
			what := "recovery"
			if recoveryCrashAt >= 0 {
				e, c := n.reopenAfterCrash(recoveryCrashAt)
				if e != nil {
					ctx.Violation("recovery-failed", fmt.Sprintf("%s: reopening (to be crashed after %d recovery commits) failed: %v", desc(k), recoveryCrashAt, e), nil)
					return 0, nil
				}
				if !c {
					return 0, nil // recovery needed fewer commits
				}
				what = fmt.Sprintf("recovery after a crash at recovery commit %d", recoveryCrashAt)
			}
			e, _ := n.reopenAfterCrash(-1)
			ctx.AddEval(1)
			ctx.Distinct(fmt.Sprintf("%s|%d|%v|%d|%d", f.String(), cache, ops, k, recoveryCrashAt))
			if e != nil {
				ctx.Violation("recovery-failed", fmt.Sprintf("%s [%s]: the database does not reopen: %v", desc(k), what, e),
					map[string]any{"scenario": f.String(), "cache": cache, "workload": fmt.Sprint(ops), "crash_after_commit": k})
				return 0, nil
			}
			rc := n.wrap.commits
			if check(n, what, ackd) {
				converge(n, what)
			}
			return rc, nil
		}
		rc, err := run(-1)
		if err != nil {
			return err
		}
		// a second crash: the recovered node takes the deliveries again and dies after j2 further commits
		// (ChainStore.tla lets Crash and Recover alternate without bound; the first crash can leave
		// in-memory bookkeeping of the recovery that only matters when the node dies again)
		second := func(j2 int) (reached bool, err error) {
			n, err := newCrashNode(f, cache, k, prune, maxFile)
			if err != nil {
				return false, err
			}
			defer n.close()
			for _, o := range ops {
				if _, c := n.step(o); c {
					break
				}
			}
			if e, _ := n.reopenAfterCrash(-1); e != nil {
				return false, nil // reported by run(-1)
			}
			n.wrap.crashAt = n.wrap.commits + j2
			crashed := false
			for _, o := range ops {
				if o.op == "block" || o.op == "header" || o.op == "flush" {
					if _, c := n.step(o); c {
						crashed = true
						break
					}
				}
			}
			if !crashed {
				return false, nil
			}
			what := fmt.Sprintf("second crash, %d commits after the recovery", j2)
			rp := map[string]any{"scenario": f.String(), "cache": cache, "workload": fmt.Sprint(ops), "crash_after_commit": k, "second_crash_after": j2}
			e, _ := n.reopenAfterCrash(-1)
			ctx.AddEval(1)
			ctx.Distinct(fmt.Sprintf("%s|%d|%v|%d|second%d", f.String(), cache, ops, k, j2))
			if e != nil {
				ctx.Violation("recovery-failed:second-crash", fmt.Sprintf("%s [%s]: the database does not reopen: %v", desc(k), what, e), rp)
				return true, nil
			}
			if d := n.asNode().CheckViews(); d != "" {
				ctx.Violation("recovered-views", fmt.Sprintf("%s [%s]: %s", desc(k), what, d), rp)
				return true, nil
			}
			if d := n.asNode().CheckUtxo(); d != "" {
				ctx.Violation("recovered-utxo-not-fold", fmt.Sprintf("%s [%s]: %s", desc(k), what, d), rp)
				return true, nil
			}
			converge(n, what)
			return true, nil
		}
		{
			nsec := secondCrashes
			if prune != 0 {
				nsec = secondCrashesPruned
			}
			for _, j2 := range pickSecond(total, nsec, k) {
				if _, err := second(j2); err != nil {
					return err
				}
			}
		}
		if nested {
			for j := 0; j < rc; j++ {
				if _, err := run(j); err != nil {
					return err
				}
			}
		}
	}
	ctx.AddTraces(1)
	ctx.Sample(map[string]any{"scenario": f.String(), "cache": cache, "workload": fmt.Sprint(ops), "durable_commits": total, "crash_points": total})
	return nil
}

// secondCrashes is the number of second-crash points tried per first crash
// point (set per tier by RunModel).
var secondCrashes, secondCrashesPruned = 1, 4

// pickSecond spreads n second-crash points over the commits a continuation
// can make (n <= 0: every point).
func pickSecond(total, n, k int) []int {
	if total < 1 {
		return nil
	}
	if n <= 0 || n >= total {
		out := make([]int, 0, total)
		for j := 1; j <= total; j++ {
			out = append(out, j)
		}
		return out
	}
	seen := map[int]bool{}
	var out []int
	for i := 1; i <= n; i++ {
		j := (i*total/(n+1)+k)%total + 1
		if !seen[j] {
			seen[j] = true
			out = append(out, j)
		}
	}
	return out
}

func copySet(m map[int]bool) map[int]bool {
	o := make(map[int]bool, len(m))
	for k, v := range m {
		o[k] = v
	}
	return o
}

func keysOf(m map[int]bool) []int {
	var o []int
	for k := range m {
		o = append(o, k)
	}
	for i := range o {
		for j := i + 1; j < len(o); j++ {
			if o[j] < o[i] {
				o[i], o[j] = o[j], o[i]
			}
		}
	}
	return o
}
