// Package chainh binds spec/chain/*.tla to the real blockchain package: it
// concretises abstract block trees into real blocks on a synthetic network,
// steps TLC behaviours through a real BlockChain and compares what the
// property names (tip, views, UTXO set, queries) with the specification.
package chainh

import (
	"encoding/binary"
	"fmt"
	"math/big"
	"math/rand"
	"time"

	"github.com/btcsuite/btcd/blockchain"
	"github.com/btcsuite/btcd/btcutil/v2"
	"github.com/btcsuite/btcd/chaincfg/v2"
	"github.com/btcsuite/btcd/chainhash/v2"
	"github.com/btcsuite/btcd/txscript/v2"
	"github.com/btcsuite/btcd/wire/v2"
)

const (
	hardBits = 0x203fffff // work 4 = abstract work 2
	easyBits = 0x207fffff // pow limit, work 2 = abstract work 1
	subsidy  = 50 * 100000000
)

// FixedTime is a MedianTimeSource owned by the harness.
type FixedTime struct{ T time.Time }

func (f *FixedTime) AdjustedTime() time.Time         { return f.T }
func (f *FixedTime) AddTimeSample(string, time.Time) {}
func (f *FixedTime) Offset() time.Duration           { return 0 }

var _ blockchain.MedianTimeSource = (*FixedTime)(nil)

// NetOpts tunes the synthetic network.
type NetOpts struct {
	Maturity uint16
	BIP34    bool // BIP34/65/66 active from height 1 (regtest default) or never
	TwoWork  bool // ReduceMinDifficulty realises two work levels
}

// NewParams returns a fresh parameter set (never share one between chain
// instances: the deployment starters hold a back-pointer to the chain).
func NewParams(base time.Time, o NetOpts) *chaincfg.Params {
	p := chaincfg.RegressionNetParams
	p.Name = "verifnet"
	p.Net = wire.BitcoinNet(0x76726601)
	p.PoWNoRetargeting = false
	p.ReduceMinDifficulty = true
	p.MinDiffReductionTime = 20 * time.Minute
	p.TargetTimePerBlock = 10 * time.Minute
	p.TargetTimespan = 14 * 24 * time.Hour
	p.CoinbaseMaturity = o.Maturity
	if !o.BIP34 {
		p.BIP0034Height = 100000000
		p.BIP0065Height = 100000000
		p.BIP0066Height = 100000000
	}
	p.Checkpoints = nil
	for i := range p.Deployments {
		p.Deployments[i].DeploymentStarter = chaincfg.NewMedianTimeDeploymentStarter(time.Time{})
		p.Deployments[i].DeploymentEnder = chaincfg.NewMedianTimeDeploymentEnder(time.Time{})
	}
	g := *chaincfg.RegressionNetParams.GenesisBlock
	g.Header.Timestamp = base
	g.Header.Bits = hardBits
	g.Transactions = append([]*wire.MsgTx(nil), g.Transactions...)
	solve(&g.Header)
	p.GenesisBlock = &g
	h := g.Header.BlockHash()
	p.GenesisHash = &h
	return &p
}

func solve(h *wire.BlockHeader) {
	target := blockchain.CompactToBig(h.Bits)
	for n := uint32(0); ; n++ {
		h.Nonce = n
		hash := h.BlockHash()
		if blockchain.HashToBig(&hash).Cmp(target) <= 0 {
			return
		}
	}
}

// Scenario is the abstract tree of a behaviour (block 0 is genesis).
type Scenario struct {
	N      int
	Parent []int    // index 1..N
	Work   []int    // index 1..N (1 or 2)
	Flaw   []string // index 1..N: none|sanity|context|connect
}

func (s *Scenario) Height(b int) int {
	h := 0
	for b != 0 {
		b = s.Parent[b]
		h++
	}
	return h
}

// Path returns genesis..b.
func (s *Scenario) Path(b int) []int {
	var rev []int
	for b != 0 {
		rev = append(rev, b)
		b = s.Parent[b]
	}
	out := []int{0}
	for i := len(rev) - 1; i >= 0; i-- {
		out = append(out, rev[i])
	}
	return out
}

// Coin describes one output of the universe.
type Coin struct {
	Amount   int64
	PkScript []byte
	Coinbase bool
	Height   int32
}

// Factory builds the real blocks of a scenario.
type Factory struct {
	Sc     *Scenario
	Params *chaincfg.Params
	Base   time.Time
	Blocks []*btcutil.Block // index 0..N
	ByHash map[chainhash.Hash]int
	rng    *rand.Rand
	// naive per-branch bookkeeping used only to *choose* valid spends
	utxo []map[wire.OutPoint]Coin
	// Universe: every outpoint any block of the scenario creates
	Universe map[wire.OutPoint]bool
	SpendP   float64                                     // probability that a block spends an available coin
	DupP     float64                                     // probability that a coinbase re-creates a fully spent ancestor coinbase
	Rule     func(f *Factory, b int, blk *wire.MsgBlock) // optional catalogue flaw (C01)
}

var opTrue = []byte{txscript.OP_TRUE}

func coinbaseScript(b int, extra uint32) []byte {
	s := make([]byte, 0, 12)
	s = append(s, 4)
	s = binary.LittleEndian.AppendUint32(s, uint32(b))
	s = append(s, 4)
	s = binary.LittleEndian.AppendUint32(s, extra)
	return s
}

// NewFactory prepares (lazily built) blocks for the scenario.
func NewFactory(sc *Scenario, o NetOpts, seed int64) *Factory {
	// a fixed base keeps runs reproducible for a given wall-clock day; block
	// timestamps only need to be recent (script flags depend on time) and not
	// more than two hours ahead of the time source.
	base := time.Unix(time.Now().Unix()-20*3600, 0)
	f := &Factory{Sc: sc, Params: NewParams(base, o), Base: base,
		Blocks: make([]*btcutil.Block, sc.N+1), ByHash: map[chainhash.Hash]int{},
		rng: rand.New(rand.NewSource(seed)), utxo: make([]map[wire.OutPoint]Coin, sc.N+1),
		Universe: map[wire.OutPoint]bool{}, SpendP: 0.6, DupP: 0.15}
	f.Blocks[0] = btcutil.NewBlock(f.Params.GenesisBlock)
	f.Blocks[0].SetHeight(0)
	f.ByHash[*f.Params.GenesisHash] = 0
	f.utxo[0] = map[wire.OutPoint]Coin{}
	return f
}

// Now is the time the chain's time source should report.
func (f *Factory) Now() time.Time { return f.Base.Add(20 * time.Hour) }

func (f *Factory) mtp(b int) time.Time {
	var ts []int64
	for i, n := 0, b; i < 11; i++ {
		ts = append(ts, f.Blocks[n].MsgBlock().Header.Timestamp.Unix())
		if n == 0 {
			break
		}
		n = f.Sc.Parent[n]
	}
	for i := range ts {
		for j := i + 1; j < len(ts); j++ {
			if ts[j] < ts[i] {
				ts[i], ts[j] = ts[j], ts[i]
			}
		}
	}
	return time.Unix(ts[len(ts)/2], 0)
}

// BuildAll builds every block in id order (parents have smaller ids).
func (f *Factory) BuildAll() {
	for b := 1; b <= f.Sc.N; b++ {
		f.build(b)
	}
}

func (f *Factory) build(b int) {
	sc := f.Sc
	p := sc.Parent[b]
	parent := f.Blocks[p]
	height := int32(sc.Height(b))
	pu := f.utxo[p]
	mine := make(map[wire.OutPoint]Coin, len(pu)+4)
	for k, v := range pu {
		mine[k] = v
	}
	flaw := sc.Flaw[b]

	// coinbase: unique per block unless it deliberately duplicates a fully
	// spent ancestor coinbase (legal while BIP34 is inactive: BIP30 only
	// forbids overwriting unspent outputs)
	cb := wire.NewMsgTx(1)
	cbScript := coinbaseScript(b, 0)
	if f.Params.BIP0034Height > height && f.rng.Float64() < f.DupP {
		for a := p; a != 0; a = sc.Parent[a] {
			acb := f.Blocks[a].MsgBlock().Transactions[0]
			op := wire.OutPoint{Hash: acb.TxHash(), Index: 0}
			if _, unspent := mine[op]; !unspent && acb.TxOut[0].Value == subsidy {
				// make sure no other block on this branch between a and b re-created it already
				cbScript = acb.TxIn[0].SignatureScript
				break
			}
		}
	}
	cb.AddTxIn(&wire.TxIn{PreviousOutPoint: *wire.NewOutPoint(&chainhash.Hash{}, wire.MaxPrevOutIndex),
		SignatureScript: cbScript, Sequence: wire.MaxTxInSequenceNum})
	cbVal := int64(subsidy)
	if flaw == "connect" && f.Rule == nil {
		cbVal++ // pays one satoshi more than subsidy + fees (fees are burned: outputs = inputs)
	}
	cb.AddTxOut(&wire.TxOut{Value: cbVal, PkScript: opTrue})
	txs := []*wire.MsgTx{cb}

	// spends: each available coin (mature coinbase or any earlier output on
	// this branch) is spent with probability SpendP by its own transaction
	// with one or two outputs
	type cand struct {
		op wire.OutPoint
		c  Coin
	}
	var cands []cand
	for op, c := range mine {
		cands = append(cands, cand{op, c})
	}
	// deterministic order
	for i := range cands {
		for j := i + 1; j < len(cands); j++ {
			if lessOP(cands[j].op, cands[i].op) {
				cands[i], cands[j] = cands[j], cands[i]
			}
		}
	}
	for _, cd := range cands {
		if f.rng.Float64() >= f.SpendP {
			continue
		}
		if cd.c.Coinbase && int32(f.Params.CoinbaseMaturity) > height-cd.c.Height {
			continue
		}
		tx := wire.NewMsgTx(1)
		tx.LockTime = uint32(b*1000 + len(txs)) // unique txids: no accidental BIP30 collisions
		tx.AddTxIn(&wire.TxIn{PreviousOutPoint: cd.op, Sequence: wire.MaxTxInSequenceNum})
		if f.rng.Intn(2) == 0 || cd.c.Amount < 2 {
			tx.AddTxOut(&wire.TxOut{Value: cd.c.Amount, PkScript: opTrue})
		} else {
			half := cd.c.Amount / 2
			tx.AddTxOut(&wire.TxOut{Value: half, PkScript: opTrue})
			tx.AddTxOut(&wire.TxOut{Value: cd.c.Amount - half, PkScript: []byte{txscript.OP_1, txscript.OP_NOP}})
		}
		txs = append(txs, tx)
		delete(mine, cd.op)
		h := tx.TxHash()
		for i, o := range tx.TxOut {
			op := wire.OutPoint{Hash: h, Index: uint32(i)}
			mine[op] = Coin{o.Value, o.PkScript, false, height}
			f.Universe[op] = true
		}
	}
	cbh := cb.TxHash()
	cop := wire.OutPoint{Hash: cbh, Index: 0}
	mine[cop] = Coin{cbVal, opTrue, true, height}
	f.Universe[cop] = true
	f.utxo[b] = mine

	blk := &wire.MsgBlock{Header: wire.BlockHeader{Version: 0x20000000, PrevBlock: *parent.Hash()}}
	for _, tx := range txs {
		blk.AddTransaction(tx)
	}
	pts := parent.MsgBlock().Header.Timestamp
	if sc.Work[b] >= 2 {
		blk.Header.Timestamp = pts.Add(time.Second)
		blk.Header.Bits = hardBits
	} else {
		blk.Header.Timestamp = pts.Add(1201 * time.Second)
		blk.Header.Bits = easyBits
	}
	if flaw == "context" && f.Rule == nil {
		// timestamp equal to the median time past of the parent: not after it
		blk.Header.Timestamp = f.mtp(p)
		blk.Header.Bits = hardBits
	}
	ub := make([]*btcutil.Tx, len(txs))
	for i, tx := range txs {
		ub[i] = btcutil.NewTx(tx)
	}
	blk.Header.MerkleRoot = blockchain.CalcMerkleRoot(ub, false)
	if flaw == "sanity" && f.Rule == nil {
		blk.Header.MerkleRoot[0] ^= 0x55
	}
	if flaw != "none" && f.Rule != nil {
		f.Rule(f, b, blk)
	}
	solve(&blk.Header)
	ublk := btcutil.NewBlock(blk)
	ublk.SetHeight(height)
	f.Blocks[b] = ublk
	f.ByHash[*ublk.Hash()] = b
}

func lessOP(a, b wire.OutPoint) bool {
	for i := range a.Hash {
		if a.Hash[i] != b.Hash[i] {
			return a.Hash[i] < b.Hash[i]
		}
	}
	return a.Index < b.Index
}

// Fresh returns a new btcutil.Block wrapper around block b (ProcessBlock
// mutates the wrapper's height, and a wrapper must not be shared).
func (f *Factory) Fresh(b int) *btcutil.Block {
	return btcutil.NewBlock(f.Blocks[b].MsgBlock())
}

func (f *Factory) Hash(b int) *chainhash.Hash { return f.Blocks[b].Hash() }

// ID maps a hash back to the abstract block id (-1 when unknown).
func (f *Factory) ID(h *chainhash.Hash) int {
	if id, ok := f.ByHash[*h]; ok {
		return id
	}
	return -1
}

// WorkOf returns the real cumulative work of genesis..b as the code defines it.
func (f *Factory) WorkOf(b int) *big.Int {
	sum := new(big.Int)
	for _, n := range f.Sc.Path(b) {
		sum.Add(sum, blockchain.CalcWork(f.Blocks[n].MsgBlock().Header.Bits))
	}
	return sum
}

func (f *Factory) String() string {
	return fmt.Sprintf("parent=%v work=%v flaw=%v", f.Sc.Parent[1:], f.Sc.Work[1:], f.Sc.Flaw[1:])
}
