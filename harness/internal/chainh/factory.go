// Package chainh binds spec/chain/*.tla to the real blockchain package: it
// concretises abstract block trees into real blocks on a synthetic network,
// steps TLC behaviours through a real BlockChain and compares what the
// property names (tip, views, UTXO set, queries) with the specification.
package chainh

import (
	"bytes"
	"encoding/binary"
	"fmt"
	"math/big"
	"math/rand"
	"strings"
	"time"

	"github.com/btcsuite/btcd/blockchain"
	"github.com/btcsuite/btcd/btcutil/v2"
	"github.com/btcsuite/btcd/chaincfg/v2"
	"github.com/btcsuite/btcd/chainhash/v2"
	"github.com/btcsuite/btcd/txscript/v2"
	"github.com/btcsuite/btcd/wire/v2"
)

const (
	hardBits = 0x203fffff // work 4 = abstract work 2
	easyBits = 0x207fffff // pow limit, work 2 = abstract work 1
	subsidy  = 50 * 100000000
)

// FixedTime is a MedianTimeSource owned by the harness.
type FixedTime struct{ T time.Time }

func (f *FixedTime) AdjustedTime() time.Time         { return f.T }
func (f *FixedTime) AddTimeSample(string, time.Time) {}
func (f *FixedTime) Offset() time.Duration           { return 0 }

var _ blockchain.MedianTimeSource = (*FixedTime)(nil)

// NetOpts tunes the synthetic network.
type NetOpts struct {
	Maturity uint16
	BIP34    bool  // BIP34 active from height 1, BIP66 from height B66, BIP65 from height B65 (all never when false)
	B66, B65 int32 // used when BIP34 is set; 0 means height 1
	TwoWork  bool  // ReduceMinDifficulty realises two work levels
}

// NewParams returns a fresh parameter set (never share one between chain
// instances: the deployment starters hold a back-pointer to the chain).
func NewParams(base time.Time, o NetOpts) *chaincfg.Params {
	p := chaincfg.RegressionNetParams
	p.Name = "verifnet"
	p.Net = wire.BitcoinNet(0x76726601)
	p.PoWNoRetargeting = false
	p.ReduceMinDifficulty = true
	p.MinDiffReductionTime = 20 * time.Minute
	p.TargetTimePerBlock = 10 * time.Minute
	p.TargetTimespan = 14 * 24 * time.Hour
	p.CoinbaseMaturity = o.Maturity
	if !o.BIP34 {
		p.BIP0034Height = 100000000
		p.BIP0065Height = 100000000
		p.BIP0066Height = 100000000
	} else {
		p.BIP0034Height = 1
		p.BIP0066Height = 1
		p.BIP0065Height = 1
		if o.B66 > 0 {
			p.BIP0066Height = o.B66
		}
		if o.B65 > 0 {
			p.BIP0065Height = o.B65
		}
	}
	p.Checkpoints = nil
	for i := range p.Deployments {
		p.Deployments[i].DeploymentStarter = chaincfg.NewMedianTimeDeploymentStarter(time.Time{})
		p.Deployments[i].DeploymentEnder = chaincfg.NewMedianTimeDeploymentEnder(time.Time{})
	}
	g := *chaincfg.RegressionNetParams.GenesisBlock
	g.Header.Timestamp = base
	g.Header.Bits = hardBits
	g.Transactions = append([]*wire.MsgTx(nil), g.Transactions...)
	solve(&g.Header)
	p.GenesisBlock = &g
	h := g.Header.BlockHash()
	p.GenesisHash = &h
	return &p
}

func solve(h *wire.BlockHeader) {
	target := blockchain.CompactToBig(h.Bits)
	for n := uint32(0); ; n++ {
		h.Nonce = n
		hash := h.BlockHash()
		if blockchain.HashToBig(&hash).Cmp(target) <= 0 {
			return
		}
	}
}

// Scenario is the abstract tree of a behaviour (block 0 is genesis).
type Scenario struct {
	N      int
	Parent []int    // index 1..N
	Work   []int    // index 1..N (1 or 2)
	Flaw   []string // index 1..N: none|sanity|context|connect
}

func (s *Scenario) Height(b int) int {
	h := 0
	for b != 0 {
		b = s.Parent[b]
		h++
	}
	return h
}

// Path returns genesis..b.
func (s *Scenario) Path(b int) []int {
	var rev []int
	for b != 0 {
		rev = append(rev, b)
		b = s.Parent[b]
	}
	out := []int{0}
	for i := len(rev) - 1; i >= 0; i-- {
		out = append(out, rev[i])
	}
	return out
}

// Coin describes one output of the universe.
type Coin struct {
	Amount   int64
	PkScript []byte
	Coinbase bool
	Height   int32
}

// Factory builds the real blocks of a scenario.
type Factory struct {
	Sc     *Scenario
	Params *chaincfg.Params
	Base   time.Time
	Blocks []*btcutil.Block // index 0..N
	ByHash map[chainhash.Hash]int
	rng    *rand.Rand
	// naive per-branch bookkeeping used only to *choose* valid spends
	utxo []map[wire.OutPoint]Coin
	// Universe: every outpoint any block of the scenario creates
	Universe   map[wire.OutPoint]bool
	SpendP     float64          // probability that a block spends an available coin
	DupP       float64          // probability that a coinbase re-creates a fully spent ancestor coinbase
	FeeP       float64          // probability that a spend pays a fee
	EdgeP      float64          // probability that a valid block sits exactly on a limit (catalogue mode)
	Catalogue  bool             // flawed blocks violate a rule drawn from the catalogue of their stage (C01); otherwise one fixed rule per stage
	RuleName   []string         // per block: the catalogue entry used
	HeaderMode bool             // headers are delivered first in this run: header-visible sanity rules are not drawn
	Pre        []*btcutil.Block // real blocks between the real genesis and abstract block 0 (catalogue mode: they provide mature coins)
	BaseHeight int32
	Opts       NetOpts        // the options the parameters were made from (a node makes its own fresh copy with NodeParams)
	Stats      map[string]int // what the random construction produced (reported as evidence)
	MaxSpends  int            // at most this many random spends per block (0: no limit)
	NoSpecial  bool           // the preamble creates no special coin kinds (small blocks for the pruned workloads)
	ForceRule  []string       // per block: when set, the catalogue entry to use instead of a random draw ("edge:<name>" for a valid block)
}

// NodeParams returns a fresh parameter set equal to the factory's (deployment
// starters keep a back-pointer to the chain, so every chain instance needs its own).
func (f *Factory) NodeParams() *chaincfg.Params {
	fresh := NewParams(f.Base, f.Opts)
	fresh.GenesisBlock = f.Params.GenesisBlock
	fresh.GenesisHash = f.Params.GenesisHash
	return fresh
}

// cbScript is the coinbase signature script of block b at the given height:
// the serialized height first where BIP34 is in force.
func (f *Factory) cbScript(height int32, b int, extra uint32) []byte {
	s := coinbaseScript(b, extra)
	if height >= f.Params.BIP0034Height {
		s = append(heightPush(int64(height)), s...)
	}
	return s
}

// heightPush is the minimal script-number push BIP34 prescribes (what
// `CScript() << height` produces).
func heightPush(h int64) []byte {
	if h == 0 {
		return []byte{txscript.OP_0}
	}
	if h >= 1 && h <= 16 {
		return []byte{byte(txscript.OP_1 + h - 1)}
	}
	var n []byte
	for v := h; v > 0; v >>= 8 {
		n = append(n, byte(v))
	}
	if n[len(n)-1]&0x80 != 0 {
		n = append(n, 0)
	}
	return append([]byte{byte(len(n))}, n...)
}

var opTrue = []byte{txscript.OP_TRUE}

func coinbaseScript(b int, extra uint32) []byte {
	s := make([]byte, 0, 12)
	s = append(s, 4)
	s = binary.LittleEndian.AppendUint32(s, uint32(b))
	s = append(s, 4)
	s = binary.LittleEndian.AppendUint32(s, extra)
	return s
}

// NewFactory prepares (lazily built) blocks for the scenario.
func NewFactory(sc *Scenario, o NetOpts, seed int64) *Factory {
	// a fixed base keeps runs reproducible for a given wall-clock day; block
	// timestamps only need to be recent (script flags depend on time) and not
	// more than two hours ahead of the time source.
	base := time.Unix(time.Now().Unix()-20*3600, 0)
	f := &Factory{Sc: sc, Params: NewParams(base, o), Base: base, Opts: o, ForceRule: make([]string, sc.N+1),
		Blocks: make([]*btcutil.Block, sc.N+1), ByHash: map[chainhash.Hash]int{},
		rng: rand.New(rand.NewSource(seed)), utxo: make([]map[wire.OutPoint]Coin, sc.N+1),
		Universe: map[wire.OutPoint]bool{}, Stats: map[string]int{}, SpendP: 0.6, DupP: 0.15, FeeP: 0.5, EdgeP: 0.5, RuleName: make([]string, sc.N+1)}
	f.Blocks[0] = btcutil.NewBlock(f.Params.GenesisBlock)
	f.Blocks[0].SetHeight(0)
	f.ByHash[*f.Params.GenesisHash] = 0
	f.utxo[0] = map[wire.OutPoint]Coin{}
	return f
}

// Now is the time the chain's time source should report.
func (f *Factory) Now() time.Time { return f.Base.Add(20 * time.Hour) }

func (f *Factory) mtp(b int) time.Time {
	var ts []int64
	n := b
	for len(ts) < 11 {
		ts = append(ts, f.Blocks[n].MsgBlock().Header.Timestamp.Unix())
		if n == 0 {
			break
		}
		n = f.Sc.Parent[n]
	}
	// below abstract block 0: the preamble (Pre[len-1] is block 0 itself) and the real genesis
	for i := len(f.Pre) - 2; i >= 0 && len(ts) < 11; i-- {
		ts = append(ts, f.Pre[i].MsgBlock().Header.Timestamp.Unix())
	}
	if len(f.Pre) > 0 && len(ts) < 11 {
		ts = append(ts, f.Params.GenesisBlock.Header.Timestamp.Unix())
	}
	for i := range ts {
		for j := i + 1; j < len(ts); j++ {
			if ts[j] < ts[i] {
				ts[i], ts[j] = ts[j], ts[i]
			}
		}
	}
	return time.Unix(ts[len(ts)/2], 0)
}

// Preamble mines k real blocks on the genesis block and makes the last one
// abstract block 0, so that mature coins of every kind exist at every abstract
// height. Must be called before BuildAll.
func (f *Factory) Preamble(k int) {
	prev := f.Blocks[0]
	set := map[wire.OutPoint]Coin{}
	for i := 1; i <= k; i++ {
		cb := wire.NewMsgTx(1)
		cb.AddTxIn(&wire.TxIn{PreviousOutPoint: *wire.NewOutPoint(&chainhash.Hash{}, wire.MaxPrevOutIndex),
			SignatureScript: f.cbScript(int32(i), 900000+i, 0), Sequence: wire.MaxTxInSequenceNum})
		cb.AddTxOut(&wire.TxOut{Value: subsidy, PkScript: opTrue})
		txs := []*wire.MsgTx{cb}
		// from the third block on, split an earlier coinbase into several outputs (one of them unspendable by script)
		if i >= 3 {
			for op, c := range set {
				if c.Coinbase && int32(i)-c.Height >= int32(f.Params.CoinbaseMaturity) && c.Height == int32(i)-2 {
					tx := wire.NewMsgTx(1)
					tx.LockTime = uint32(900000 + i)
					tx.AddTxIn(&wire.TxIn{PreviousOutPoint: op, Sequence: wire.MaxTxInSequenceNum})
					q := c.Amount / 16
					tx.AddTxOut(&wire.TxOut{Value: q, PkScript: opTrue})
					tx.AddTxOut(&wire.TxOut{Value: q, PkScript: []byte{txscript.OP_1, txscript.OP_NOP}})
					tx.AddTxOut(&wire.TxOut{Value: q, PkScript: opTrue})
					tx.AddTxOut(&wire.TxOut{Value: q, PkScript: []byte{txscript.OP_0}})
					// one output of every special kind (special.go)
					if !f.NoSpecial {
						for _, k := range specialOrder {
							tx.AddTxOut(&wire.TxOut{Value: q, PkScript: specialScripts[k]})
						}
					}
					tx.AddTxOut(&wire.TxOut{Value: c.Amount - int64(len(tx.TxOut))*q, PkScript: opTrue})
					txs = append(txs, tx)
					delete(set, op)
					h := tx.TxHash()
					for oi, o := range tx.TxOut {
						set[wire.OutPoint{Hash: h, Index: uint32(oi)}] = Coin{o.Value, o.PkScript, false, int32(i)}
					}
					break
				}
			}
		}
		set[wire.OutPoint{Hash: cb.TxHash()}] = Coin{subsidy, opTrue, true, int32(i)}
		for _, tx := range txs {
			h := tx.TxHash()
			for oi := range tx.TxOut {
				f.Universe[wire.OutPoint{Hash: h, Index: uint32(oi)}] = true
			}
		}
		blk := &wire.MsgBlock{Header: wire.BlockHeader{Version: 0x20000000, PrevBlock: *prev.Hash(), Bits: easyBits,
			Timestamp: prev.MsgBlock().Header.Timestamp.Add(1201 * time.Second)}}
		ub := make([]*btcutil.Tx, len(txs))
		for j, tx := range txs {
			blk.AddTransaction(tx)
			ub[j] = btcutil.NewTx(tx)
		}
		blk.Header.MerkleRoot = blockchain.CalcMerkleRoot(ub, false)
		solve(&blk.Header)
		prev = btcutil.NewBlock(blk)
		prev.SetHeight(int32(i))
		f.Pre = append(f.Pre, prev)
	}
	f.BaseHeight = int32(k)
	f.Blocks[0] = prev
	f.ByHash[*prev.Hash()] = 0
	f.utxo[0] = set
}

// BuildAll builds every block in id order (parents have smaller ids).
func (f *Factory) BuildAll() {
	for b := 1; b <= f.Sc.N; b++ {
		f.build(b)
	}
}

// blockBuilder is a block under construction; catalogue rules edit it before
// it is finalised (coinbase value, merkle root, proof of work).
type blockBuilder struct {
	f        *Factory
	b, p     int
	height   int32
	avail    []cand                 // coins of the parent's UTXO set, sorted
	mine     map[wire.OutPoint]Coin // UTXO set after the regular transactions of this block
	txs      []*wire.MsgTx
	fees     int64
	cbDelta  int64 // added to the coinbase value (subsidy + fees) when finalising
	hdr      wire.BlockHeader
	post     func(h *wire.BlockHeader) // header edit after the merkle root is set
	unsolved bool                      // leave the hash above the target
	isLeaf   bool
	noCommit bool   // the rule handles (or deliberately omits) the witness commitment itself
	cbNonce  []byte // coinbase witness reserved value (default: 32 zero bytes)
	sizeTo   int    // pad the block to exactly this stripped size (0: no padding)
	weightTo int    // pad the block to exactly this weight; weightTx's first witness item absorbs the remainder
	weightTx *wire.MsgTx
	decoy    string // "before": a wrong commitment-shaped output precedes the real one (valid: the last one counts); "after": it follows it (invalid)
}

type cand struct {
	op wire.OutPoint
	c  Coin
}

func (bb *blockBuilder) spendable(c Coin) bool {
	return !(c.Coinbase && int32(bb.f.Params.CoinbaseMaturity) > bb.height-c.Height)
}

// freeCoin returns a coin of the parent's set that no transaction of this
// block spends yet and that passes ok.
func (bb *blockBuilder) freeCoin(ok func(Coin) bool) (cand, bool) {
	for _, cd := range bb.avail {
		if _, unspent := bb.mine[cd.op]; unspent && ok(cd.c) {
			return cd, true
		}
	}
	return cand{}, false
}

func (bb *blockBuilder) newSpend(cd cand, fee int64) *wire.MsgTx {
	tx := wire.NewMsgTx(1)
	tx.LockTime = uint32(bb.b*1000 + len(bb.txs) + 500)
	tx.AddTxIn(&wire.TxIn{PreviousOutPoint: cd.op, Sequence: wire.MaxTxInSequenceNum})
	tx.AddTxOut(&wire.TxOut{Value: cd.c.Amount - fee, PkScript: opTrue})
	return tx
}

func (f *Factory) build(b int) {
	sc := f.Sc
	p := sc.Parent[b]
	parent := f.Blocks[p]
	height := int32(sc.Height(b)) + f.BaseHeight
	pu := f.utxo[p]
	bb := &blockBuilder{f: f, b: b, p: p, height: height, mine: make(map[wire.OutPoint]Coin, len(pu)+4), isLeaf: true}
	for c := 1; c <= sc.N; c++ {
		if sc.Parent[c] == b {
			bb.isLeaf = false
		}
	}
	for k, v := range pu {
		bb.mine[k] = v
		bb.avail = append(bb.avail, cand{k, v})
	}
	for i := range bb.avail {
		for j := i + 1; j < len(bb.avail); j++ {
			if lessOP(bb.avail[j].op, bb.avail[i].op) {
				bb.avail[i], bb.avail[j] = bb.avail[j], bb.avail[i]
			}
		}
	}
	flaw := sc.Flaw[b]

	// coinbase: unique per block unless it deliberately duplicates a fully
	// spent ancestor coinbase (legal while BIP34 is inactive: BIP30 only
	// forbids overwriting unspent outputs)
	cb := wire.NewMsgTx(1)
	cbScript := f.cbScript(height, b, 0)
	dup := false
	if f.Params.BIP0034Height > height && f.rng.Float64() < f.DupP {
		for a := p; a != 0; a = sc.Parent[a] {
			if sc.Flaw[a] != "none" || len(f.Blocks[a].MsgBlock().Transactions) == 0 {
				continue
			}
			acb := f.Blocks[a].MsgBlock().Transactions[0]
			op := wire.OutPoint{Hash: acb.TxHash(), Index: 0}
			if _, unspent := bb.mine[op]; !unspent && acb.TxOut[0].Value == subsidy && len(acb.TxOut) == 1 && len(acb.TxIn[0].SignatureScript) == 10 {
				cbScript = acb.TxIn[0].SignatureScript
				dup = true
				break
			}
		}
	}
	cb.AddTxIn(&wire.TxIn{PreviousOutPoint: *wire.NewOutPoint(&chainhash.Hash{}, wire.MaxPrevOutIndex),
		SignatureScript: cbScript, Sequence: wire.MaxTxInSequenceNum})
	cb.AddTxOut(&wire.TxOut{Value: subsidy, PkScript: opTrue})
	bb.txs = []*wire.MsgTx{cb}

	// spends: each available coin (mature coinbase or any earlier output on
	// this branch) is spent with probability SpendP by its own transaction
	// with one to three outputs; some pay a fee which the coinbase claims to
	// the last satoshi
	usable := func(c Coin) bool {
		return bb.spendable(c) && len(c.PkScript) > 0 && c.PkScript[0] != txscript.OP_0 && kindOf(c.PkScript) == ""
	}
	for ci, cd := range bb.avail {
		if _, unspent := bb.mine[cd.op]; !unspent || f.rng.Float64() >= f.SpendP || !usable(cd.c) {
			continue
		}
		if f.MaxSpends > 0 && len(bb.txs) > f.MaxSpends {
			break
		}
		tx := wire.NewMsgTx(1)
		tx.LockTime = uint32(b*1000 + len(bb.txs)) // unique txids: no accidental BIP30 collisions
		tx.AddTxIn(&wire.TxIn{PreviousOutPoint: cd.op, Sequence: wire.MaxTxInSequenceNum})
		amt := cd.c.Amount
		// sometimes a second and third input: dissimilar outputs spent by one transaction
		for _, extra := range bb.avail[ci+1:] {
			if len(tx.TxIn) >= 3 || f.rng.Float64() >= 0.4 {
				break
			}
			if _, unspent := bb.mine[extra.op]; unspent && usable(extra.c) {
				tx.AddTxIn(&wire.TxIn{PreviousOutPoint: extra.op, Sequence: wire.MaxTxInSequenceNum})
				amt += extra.c.Amount
				delete(bb.mine, extra.op)
			}
		}
		fee := int64(0)
		if !dup && f.FeeP > 0 && f.rng.Float64() < f.FeeP && amt > 10000 {
			fee = int64(1 + f.rng.Intn(5000))
		}
		amt -= fee
		first := opTrue
		if f.rng.Intn(3) == 0 { // a script whose length sits on a boundary of the stored-script encodings
			first = paddedTrue(scriptLens[f.rng.Intn(len(scriptLens))])
		}
		switch {
		case f.rng.Intn(2) == 0 || amt < 4:
			tx.AddTxOut(&wire.TxOut{Value: amt, PkScript: first})
		default:
			half := amt / 2
			tx.AddTxOut(&wire.TxOut{Value: half, PkScript: first})
			tx.AddTxOut(&wire.TxOut{Value: amt - half - 1, PkScript: []byte{txscript.OP_1, txscript.OP_NOP}})
			tx.AddTxOut(&wire.TxOut{Value: 1, PkScript: []byte{txscript.OP_0}}) // an output nobody can spend (script leaves false)
		}
		bb.fees += fee
		bb.txs = append(bb.txs, tx)
		delete(bb.mine, cd.op)
		f.Stats["spend_txs"]++
		if len(tx.TxIn) > 1 {
			f.Stats["multi_input_txs"]++
		}
		h := tx.TxHash()
		for i, o := range tx.TxOut {
			op := wire.OutPoint{Hash: h, Index: uint32(i)}
			bb.mine[op] = Coin{o.Value, o.PkScript, false, height}
			f.Universe[op] = true
		}
		// sometimes a child in the same block spends the first output, the siblings stay unspent
		if len(tx.TxOut) >= 2 && f.rng.Float64() < 0.4 {
			child := wire.NewMsgTx(1)
			child.LockTime = uint32(b*1000 + len(bb.txs) + 300)
			pop := wire.OutPoint{Hash: h, Index: 0}
			child.AddTxIn(&wire.TxIn{PreviousOutPoint: pop, Sequence: wire.MaxTxInSequenceNum})
			child.AddTxOut(&wire.TxOut{Value: tx.TxOut[0].Value, PkScript: opTrue})
			bb.txs = append(bb.txs, child)
			delete(bb.mine, pop)
			f.Stats["in_block_children"]++
			ch := child.TxHash()
			bb.mine[wire.OutPoint{Hash: ch}] = Coin{child.TxOut[0].Value, opTrue, false, height}
			f.Universe[wire.OutPoint{Hash: ch}] = true
		}
	}

	bb.hdr = wire.BlockHeader{Version: 0x20000000, PrevBlock: *parent.Hash()}
	pts := parent.MsgBlock().Header.Timestamp
	if sc.Work[b] >= 2 {
		bb.hdr.Timestamp = pts.Add(time.Second)
		bb.hdr.Bits = hardBits
	} else {
		bb.hdr.Timestamp = pts.Add(1201 * time.Second)
		bb.hdr.Bits = easyBits
	}

	// the rule this block violates (flawed blocks) or sits exactly on (valid blocks)
	if flaw != "none" {
		r := f.pickRule(bb, flaw)
		f.RuleName[b] = r.Name
		r.Apply(bb)
	} else if f.Catalogue {
		var e *Rule
		if fr := f.ForceRule[b]; strings.HasPrefix(fr, "edge:") {
			if r := ruleByName(fr[5:]); r != nil && r.Edge != nil && r.EdgeNeed(bb) {
				e = r
			}
		}
		if e == nil && f.rng.Float64() < f.EdgeP {
			e = f.pickEdge(bb)
		}
		if e != nil {
			f.RuleName[b] = "edge:" + e.Name
			e.Edge(bb)
		}
	}

	// finalise
	if len(bb.txs) > 0 && blockchain.IsCoinBaseTx(bb.txs[0]) && len(bb.txs[0].TxOut) > 0 {
		bb.txs[0].TxOut[0].Value = subsidy + bb.fees + bb.cbDelta
	}
	bb.commitAndPad()
	if len(bb.txs) > 0 && blockchain.IsCoinBaseTx(bb.txs[0]) && len(bb.txs[0].TxOut) > 0 {
		cop := wire.OutPoint{Hash: bb.txs[0].TxHash(), Index: 0}
		bb.mine[cop] = Coin{bb.txs[0].TxOut[0].Value, bb.txs[0].TxOut[0].PkScript, true, height}
	}
	for _, tx := range bb.txs {
		h := tx.TxHash()
		for i := range tx.TxOut {
			f.Universe[wire.OutPoint{Hash: h, Index: uint32(i)}] = true
		}
	}
	f.utxo[b] = bb.mine
	blk := &wire.MsgBlock{Header: bb.hdr}
	for _, tx := range bb.txs {
		blk.AddTransaction(tx)
	}
	if len(bb.txs) > 0 {
		ub := make([]*btcutil.Tx, len(bb.txs))
		for i, tx := range bb.txs {
			ub[i] = btcutil.NewTx(tx)
		}
		blk.Header.MerkleRoot = blockchain.CalcMerkleRoot(ub, false)
	}
	if bb.post != nil {
		bb.post(&blk.Header)
	}
	if bb.unsolved {
		unsolve(&blk.Header)
	} else {
		solve(&blk.Header)
	}
	ublk := btcutil.NewBlock(blk)
	ublk.SetHeight(height)
	f.Blocks[b] = ublk
	f.ByHash[*ublk.Hash()] = b
}

// commitAndPad completes the coinbase: the BIP141 witness commitment when the
// block carries witness data, and the padding output that puts the block
// exactly on a size or weight target.
func (bb *blockBuilder) commitAndPad() {
	if len(bb.txs) == 0 || !blockchain.IsCoinBaseTx(bb.txs[0]) {
		return
	}
	cb := bb.txs[0]
	commit := bb.decoy != ""
	if !bb.noCommit {
		for _, tx := range bb.txs[1:] {
			if tx.HasWitness() {
				commit = true
			}
		}
	}
	ci := -1
	if commit {
		nonce := bb.cbNonce
		if nonce == nil {
			nonce = make([]byte, 32)
		}
		cb.TxIn[0].Witness = wire.TxWitness{nonce}
		wrong := commitmentScript(bytes.Repeat([]byte{0x5a}, 32))
		if bb.decoy == "before" {
			cb.AddTxOut(&wire.TxOut{Value: 0, PkScript: wrong})
		}
		cb.AddTxOut(&wire.TxOut{Value: 0, PkScript: commitmentScript(make([]byte, 32))})
		ci = len(cb.TxOut) - 1
		if bb.decoy == "after" {
			cb.AddTxOut(&wire.TxOut{Value: 0, PkScript: wrong})
		}
	}
	if bb.sizeTo > 0 || bb.weightTo > 0 {
		cb.AddTxOut(&wire.TxOut{Value: 0})
		pi := len(cb.TxOut) - 1
		blk := &wire.MsgBlock{Header: bb.hdr, Transactions: bb.txs}
		if bb.sizeTo > 0 {
			l := bb.sizeTo - blk.SerializeSizeStripped() - 4 // the script length prefix grows from 1 to 5 bytes
			cb.TxOut[pi].PkScript = padScript(l)
			if got := blk.SerializeSizeStripped(); got != bb.sizeTo {
				panic(fmt.Sprintf("padding: stripped size %d, want %d", got, bb.sizeTo))
			}
		} else {
			weight := func() int { return 3*blk.SerializeSizeStripped() + blk.SerializeSize() }
			d := bb.weightTo - weight()
			l := d/4 - 4
			cb.TxOut[pi].PkScript = padScript(l)
			bb.weightTx.TxIn[0].Witness[0] = make([]byte, bb.weightTo-weight())
			if got := weight(); got != bb.weightTo || len(bb.weightTx.TxIn[0].Witness[0]) > 3 {
				panic(fmt.Sprintf("padding: weight %d, want %d", got, bb.weightTo))
			}
		}
	}
	if ci >= 0 {
		cb.TxOut[ci].PkScript = commitmentScript(witnessCommitment(bb.txs, cb.TxIn[0].Witness[0]))
	}
}

func unsolve(h *wire.BlockHeader) {
	target := blockchain.CompactToBig(h.Bits)
	for n := uint32(0); ; n++ {
		h.Nonce = n
		hash := h.BlockHash()
		if blockchain.HashToBig(&hash).Cmp(target) > 0 {
			return
		}
	}
}

func lessOP(a, b wire.OutPoint) bool {
	for i := range a.Hash {
		if a.Hash[i] != b.Hash[i] {
			return a.Hash[i] < b.Hash[i]
		}
	}
	return a.Index < b.Index
}

// Fresh returns a new btcutil.Block wrapper around block b (ProcessBlock
// mutates the wrapper's height, and a wrapper must not be shared).
func (f *Factory) Fresh(b int) *btcutil.Block {
	return btcutil.NewBlock(f.Blocks[b].MsgBlock())
}

func (f *Factory) Hash(b int) *chainhash.Hash { return f.Blocks[b].Hash() }

// ID maps a hash back to the abstract block id (-1 when unknown).
func (f *Factory) ID(h *chainhash.Hash) int {
	if id, ok := f.ByHash[*h]; ok {
		return id
	}
	return -1
}

// WorkOf returns the real cumulative work of genesis..b as the code defines it.
func (f *Factory) WorkOf(b int) *big.Int {
	sum := new(big.Int)
	for _, n := range f.Sc.Path(b) {
		sum.Add(sum, blockchain.CalcWork(f.Blocks[n].MsgBlock().Header.Bits))
	}
	return sum
}

func (f *Factory) String() string {
	return fmt.Sprintf("parent=%v work=%v flaw=%v", f.Sc.Parent[1:], f.Sc.Work[1:], f.Sc.Flaw[1:])
}
