package chainh

import (
	"errors"
	"fmt"
	"os"
	"path/filepath"
	"runtime"
	"strings"
	"sync"

	"github.com/btcsuite/btcd/blockchain"
	"github.com/btcsuite/btcd/btcutil/v2"
	"github.com/btcsuite/btcd/database"
	_ "github.com/btcsuite/btcd/database/ffldb"
	"github.com/btcsuite/btcd/wire/v2"

	"verif/harness/internal/vrun"
)

// Note is one connected/disconnected notification.
type Note struct {
	Connected bool
	Block     int
}

// Node is one real chain instance on its own database.
type Node struct {
	F         *Factory
	Dir       string
	DB        database.DB
	Chain     *blockchain.BlockChain
	Time      *FixedTime
	mu        sync.Mutex
	notes     []Note
	CacheSize uint64
	Pruned    bool // block files are being pruned: old block data and journals may be gone
}

var dirMu sync.Mutex

func scratchRoot() string {
	if st, err := os.Stat("/dev/shm"); err == nil && st.IsDir() {
		return "/dev/shm"
	}
	return os.TempDir()
}

// NewNode creates a fresh database + chain for the factory's network.
func NewNode(f *Factory, cacheSize uint64) (*Node, error) {
	dir, err := os.MkdirTemp(scratchRoot(), "verif-chain-")
	if err != nil {
		return nil, err
	}
	n := &Node{F: f, Dir: dir, CacheSize: cacheSize}
	db, err := database.Create("ffldb", filepath.Join(dir, "db"), f.Params.Net)
	if err != nil {
		os.RemoveAll(dir)
		return nil, err
	}
	n.DB = db
	if err := n.open(); err != nil {
		db.Close()
		os.RemoveAll(dir)
		return nil, err
	}
	for _, pb := range f.Pre {
		if _, _, err := n.Chain.ProcessBlock(btcutil.NewBlock(pb.MsgBlock()), blockchain.BFNone); err != nil {
			n.Close()
			return nil, fmt.Errorf("preamble block refused: %w", err)
		}
	}
	n.TakeNotes()
	return n, nil
}

func (n *Node) open() error {
	n.Time = &FixedTime{T: n.F.Now()}
	// fresh params per chain instance (deployment starters keep a back-pointer)
	fresh := n.F.NodeParams()
	chain, err := blockchain.New(&blockchain.Config{
		DB:               n.DB,
		ChainParams:      fresh,
		TimeSource:       n.Time,
		UtxoCacheMaxSize: n.CacheSize,
	})
	if err != nil {
		return err
	}
	n.Chain = chain
	chain.Subscribe(func(nt *blockchain.Notification) {
		switch nt.Type {
		case blockchain.NTBlockConnected, blockchain.NTBlockDisconnected:
			blk, ok := nt.Data.(*btcutil.Block)
			if !ok {
				return
			}
			n.mu.Lock()
			n.notes = append(n.notes, Note{nt.Type == blockchain.NTBlockConnected, n.F.ID(blk.Hash())})
			n.mu.Unlock()
		}
	})
	return nil
}

// Reopen closes and reopens the database and chain (same directory).
func (n *Node) Reopen() error {
	if err := n.DB.Close(); err != nil {
		return err
	}
	db, err := database.Open("ffldb", filepath.Join(n.Dir, "db"), n.F.Params.Net)
	if err != nil {
		return err
	}
	n.DB = db
	return n.open()
}

func (n *Node) Close() {
	if n.DB != nil {
		n.DB.Close()
	}
	os.RemoveAll(n.Dir)
}

// TakeNotes returns and clears the notifications received so far.
func (n *Node) TakeNotes() []Note {
	n.mu.Lock()
	defer n.mu.Unlock()
	out := n.notes
	n.notes = nil
	return out
}

// Result classes of a call.
const (
	RMain      = "main"
	ROrphan    = "orphan"
	RSide      = "side"
	RDuplicate = "duplicate"
	RRejected  = "rejected" // refused with a rule error
	RInternal  = "internal" // non-rule error
	ROK        = "ok"
)

func classify(err error) string {
	var re blockchain.RuleError
	if errors.As(err, &re) {
		if re.ErrorCode == blockchain.ErrDuplicateBlock {
			return RDuplicate
		}
		return RRejected
	}
	return RInternal
}

// DeliverBlock calls ProcessBlock with a fresh wrapper.
func (n *Node) DeliverBlock(b int) (string, error) {
	isMain, isOrphan, err := n.Chain.ProcessBlock(n.F.Fresh(b), blockchain.BFNone)
	if err != nil {
		return classify(err), err
	}
	switch {
	case isOrphan:
		return ROrphan, nil
	case isMain:
		return RMain, nil
	}
	return RSide, nil
}

// DeliverHeader calls ProcessBlockHeader.
func (n *Node) DeliverHeader(b int) (string, error) {
	h := n.F.Blocks[b].MsgBlock().Header
	isMain, err := n.Chain.ProcessBlockHeader(&h, blockchain.BFNone, false)
	if err != nil {
		return classify(err), err
	}
	if isMain {
		return RMain, nil
	}
	return RSide, nil
}

func (n *Node) Flush(mode string) error {
	m := blockchain.FlushRequired
	switch mode {
	case "ifneeded":
		m = blockchain.FlushIfNeeded
	case "periodic":
		m = blockchain.FlushPeriodic
	}
	return n.Chain.FlushUtxoCache(m)
}

// Tip returns the abstract id of the active tip (-1 if unknown to the factory).
func (n *Node) Tip() int {
	s := n.Chain.BestSnapshot()
	return n.F.ID(&s.Hash)
}

// BestPath returns genesis..tip as abstract ids according to the factory's tree.
func (n *Node) BestPath() []int {
	t := n.Tip()
	if t < 0 {
		return nil
	}
	return n.F.Sc.Path(t)
}

// NaiveFold applies the blocks of path from genesis (genesis outputs are not
// spendable and not part of the set, as in btcd).
func (f *Factory) NaiveFold(path []int) (map[wire.OutPoint]Coin, int) {
	set, txs := f.preFold()
	for _, b := range path {
		if b == 0 {
			continue
		}
		h := int32(f.Sc.Height(b)) + f.BaseHeight
		for ti, tx := range f.Blocks[b].MsgBlock().Transactions {
			txs++
			if ti > 0 {
				for _, in := range tx.TxIn {
					delete(set, in.PreviousOutPoint)
				}
			}
			th := tx.TxHash()
			for oi, o := range tx.TxOut {
				if unspendable(o.PkScript) {
					continue
				}
				set[wire.OutPoint{Hash: th, Index: uint32(oi)}] = Coin{o.Value, o.PkScript, ti == 0, h}
			}
		}
	}
	return set, txs
}

// preFold folds the preamble blocks (the real chain below abstract block 0);
// the real genesis block's outputs are not part of the set.
func (f *Factory) preFold() (map[wire.OutPoint]Coin, int) {
	set := map[wire.OutPoint]Coin{}
	txs := 1
	for i, pb := range f.Pre {
		for ti, tx := range pb.MsgBlock().Transactions {
			txs++
			if ti > 0 {
				for _, in := range tx.TxIn {
					delete(set, in.PreviousOutPoint)
				}
			}
			th := tx.TxHash()
			for oi, o := range tx.TxOut {
				if unspendable(o.PkScript) {
					continue
				}
				set[wire.OutPoint{Hash: th, Index: uint32(oi)}] = Coin{o.Value, o.PkScript, ti == 0, int32(i + 1)}
			}
		}
	}
	return set, txs
}

// SpentBy returns, per block of path, the attributes of the outputs it spends
// in transaction/input order (what the spend journal must hold).
func (f *Factory) SpentBy(path []int) map[int][]Coin {
	set, _ := f.preFold()
	out := map[int][]Coin{}
	for _, b := range path {
		if b == 0 {
			continue
		}
		h := int32(f.Sc.Height(b)) + f.BaseHeight
		var spent []Coin
		for ti, tx := range f.Blocks[b].MsgBlock().Transactions {
			if ti > 0 {
				for _, in := range tx.TxIn {
					spent = append(spent, set[in.PreviousOutPoint])
					delete(set, in.PreviousOutPoint)
				}
			}
			th := tx.TxHash()
			for oi, o := range tx.TxOut {
				if unspendable(o.PkScript) {
					continue
				}
				set[wire.OutPoint{Hash: th, Index: uint32(oi)}] = Coin{o.Value, o.PkScript, ti == 0, h}
			}
		}
		out[b] = spent
	}
	return out
}

// CheckUtxo compares the node's reported UTXO set over the whole universe
// with the naive fold of its own active chain. It returns a description of the
// first difference ("" when equal).
func (n *Node) CheckUtxo() string {
	path := n.BestPath()
	if path == nil {
		return "active tip is not a block of the scenario"
	}
	want, txs := n.F.NaiveFold(path)
	for op := range n.F.Universe {
		e, err := n.Chain.FetchUtxoEntry(op)
		if err != nil {
			return fmt.Sprintf("FetchUtxoEntry(%v): %v", op, err)
		}
		w, ok := want[op]
		have := e != nil && !e.IsSpent()
		if have != ok {
			return fmt.Sprintf("outpoint %v: reported unspent=%v, fold of active chain says %v (chain %v)", op, have, ok, path)
		}
		if !ok {
			continue
		}
		if e.Amount() != w.Amount || string(e.PkScript()) != string(w.PkScript) || e.BlockHeight() != w.Height || e.IsCoinBase() != w.Coinbase {
			return fmt.Sprintf("outpoint %v: reported (amt %d, script %x, height %d, coinbase %v), fold says (amt %d, script %x, height %d, coinbase %v) (chain %v)",
				op, e.Amount(), e.PkScript(), e.BlockHeight(), e.IsCoinBase(), w.Amount, w.PkScript, w.Height, w.Coinbase, path)
		}
	}
	s := n.Chain.BestSnapshot()
	if int(s.TotalTxns) != txs {
		return fmt.Sprintf("BestSnapshot.TotalTxns=%d, active chain has %d transactions (chain %v)", s.TotalTxns, txs, path)
	}
	// spend journal of every main-chain block (pruning deletes journals of pruned blocks)
	spent := n.F.SpentBy(path)
	for _, b := range path {
		if b == 0 || n.Pruned {
			continue
		}
		j, err := n.Chain.FetchSpendJournal(n.F.Blocks[b])
		if err != nil {
			return fmt.Sprintf("FetchSpendJournal(block %d): %v", b, err)
		}
		w := spent[b]
		if len(j) != len(w) {
			return fmt.Sprintf("spend journal of block %d has %d entries, block spends %d outputs", b, len(j), len(w))
		}
		for i := range j {
			if j[i].Amount != w[i].Amount || string(j[i].PkScript) != string(w[i].PkScript) || j[i].Height != w[i].Height || j[i].IsCoinBase != w[i].Coinbase {
				return fmt.Sprintf("spend journal of block %d entry %d = %+v, spent output was %+v", b, i, j[i], w[i])
			}
		}
	}
	return ""
}

// CheckViews checks that every view of the active chain agrees with the
// snapshot tip (C02 ViewsAgree). known lists the abstract blocks whose hashes
// are probed.
func (n *Node) CheckViews() string {
	f := n.F
	s := n.Chain.BestSnapshot()
	tip := f.ID(&s.Hash)
	if tip < 0 {
		return fmt.Sprintf("snapshot hash %v is not a block of the scenario", s.Hash)
	}
	path := f.Sc.Path(tip)
	base := int(f.BaseHeight)
	if int(s.Height) != len(path)-1+base {
		return fmt.Sprintf("snapshot height %d but tip %d is at height %d", s.Height, tip, len(path)-1+base)
	}
	on := map[int]int{}
	for h, b := range path {
		on[b] = h
	}
	for b := 0; b <= f.Sc.N; b++ {
		h, isOn := on[b]
		if got := n.Chain.MainChainHasBlock(f.Hash(b)); got != isOn {
			return fmt.Sprintf("MainChainHasBlock(block %d)=%v but active chain is %v", b, got, path)
		}
		gh, err := n.Chain.BlockHeightByHash(f.Hash(b))
		if isOn && (err != nil || int(gh) != h+base) {
			return fmt.Sprintf("BlockHeightByHash(block %d)=(%d,%v), want %d (chain %v)", b, gh, err, h, path)
		}
		if !isOn && err == nil {
			return fmt.Sprintf("BlockHeightByHash(block %d)=%d but block is not on the active chain %v", b, gh, path)
		}
	}
	for h := 0; h <= len(path)+1; h++ {
		got, err := n.Chain.BlockHashByHeight(int32(h + base))
		if h < len(path) {
			if err != nil || *got != *f.Hash(path[h]) {
				return fmt.Sprintf("BlockHashByHeight(%d)=(%v,%v), want block %d (chain %v)", h+base, got, err, path[h], path)
			}
			if !n.Pruned {
				blk, err := n.Chain.BlockByHeight(int32(h + base))
				if err != nil || *blk.Hash() != *f.Hash(path[h]) {
					return fmt.Sprintf("BlockByHeight(%d) err=%v, want block %d", h+base, err, path[h])
				}
			}
		} else if err == nil {
			return fmt.Sprintf("BlockHashByHeight(%d) succeeded beyond the tip height %d", h, len(path)-1)
		}
	}
	// chain tips: exactly one active tip, and it is the snapshot tip; every other tip is off the active chain
	active := 0
	for _, t := range n.Chain.ChainTips() {
		id := f.ID(&t.BlockHash)
		if id < 0 {
			return fmt.Sprintf("ChainTips lists unknown hash %v", t.BlockHash)
		}
		if int(t.Height) != f.Sc.Height(id)+base {
			return fmt.Sprintf("ChainTips: block %d listed at height %d, is at %d", id, t.Height, f.Sc.Height(id)+base)
		}
		_, isOn := on[id]
		if t.Status == blockchain.StatusActive {
			active++
			if id != tip {
				return fmt.Sprintf("ChainTips: block %d has status active but the tip is %d", id, tip)
			}
		} else if isOn {
			return fmt.Sprintf("ChainTips: block %d is on the active chain %v but listed with status %v", id, path, t.Status)
		}
		// branch length = distance to the fork point with the active chain
		fork := id
		for {
			if _, ok := on[fork]; ok {
				break
			}
			fork = f.Sc.Parent[fork]
		}
		if int(t.BranchLen) != f.Sc.Height(id)-f.Sc.Height(fork) {
			return fmt.Sprintf("ChainTips: block %d branch length %d, want %d", id, t.BranchLen, f.Sc.Height(id)-f.Sc.Height(fork))
		}
	}
	if active != 1 {
		return fmt.Sprintf("ChainTips lists %d active tips", active)
	}
	return ""
}

// ApplyNotes applies a notification stream to a chain (abstract ids) and
// reports whether each step was a pop of the tip or a push of a child of the tip.
func (f *Factory) ApplyNotes(chain []int, notes []Note) ([]int, string) {
	c := append([]int(nil), chain...)
	for i, nt := range notes {
		if nt.Block < 0 {
			return nil, fmt.Sprintf("notification %d names a block outside the scenario", i)
		}
		if nt.Connected {
			if f.Sc.Parent[nt.Block] != c[len(c)-1] {
				return nil, fmt.Sprintf("notification %d connects block %d on top of %d (its parent is %d)", i, nt.Block, c[len(c)-1], f.Sc.Parent[nt.Block])
			}
			c = append(c, nt.Block)
		} else {
			if len(c) < 2 || c[len(c)-1] != nt.Block {
				return nil, fmt.Sprintf("notification %d disconnects block %d but the tip is %d", i, nt.Block, c[len(c)-1])
			}
			c = c[:len(c)-1]
		}
	}
	return c, ""
}

// CheckHeaderViews checks the header-chain views against the naive walk from
// the reported best header (C17).
func (n *Node) CheckHeaderViews(clean func(b int) bool) string {
	f := n.F
	hh, _ := n.Chain.BestHeader()
	hid := f.ID(&hh)
	if hid < 0 {
		return fmt.Sprintf("BestHeader %v is not a block of the scenario", hh)
	}
	path := f.Sc.Path(hid)
	on := map[int]int{}
	for h, b := range path {
		on[b] = h
	}
	base := int(f.BaseHeight) // real height of abstract block 0
	for h := 0; h <= len(path)+1; h++ {
		got, err := n.Chain.HeaderHashByHeight(int32(h + base))
		if h < len(path) {
			if err != nil || *got != *f.Hash(path[h]) {
				return fmt.Sprintf("HeaderHashByHeight(%d)=(%v,%v), want block %d (header chain %v)", h, got, err, path[h], path)
			}
		} else if err == nil {
			return fmt.Sprintf("HeaderHashByHeight(%d) succeeded beyond the header tip height %d", h, len(path)-1)
		}
	}
	for b := 0; b <= f.Sc.N; b++ {
		h, isOn := on[b]
		// IsValidHeader: on the best header chain and not known to be invalid.
		// A block whose whole ancestry is flawless and not manually
		// invalidated can never be known invalid.
		got := n.Chain.IsValidHeader(f.Hash(b))
		if got && !isOn {
			return fmt.Sprintf("IsValidHeader(block %d)=true but best header chain is %v", b, path)
		}
		if isOn && !got && clean(b) {
			return fmt.Sprintf("IsValidHeader(block %d)=false for a valid block on the best header chain %v", b, path)
		}
		gh, err := n.Chain.HeaderHeightByHash(*f.Hash(b))
		if isOn && (err != nil || int(gh) != h+base) {
			return fmt.Sprintf("HeaderHeightByHash(block %d)=(%d,%v), want %d", b, gh, err, h)
		}
		if !isOn && err == nil {
			return fmt.Sprintf("HeaderHeightByHash(block %d)=%d but it is not on the best header chain %v", b, gh, path)
		}
	}
	best := n.BestPath()
	fork := 0
	for i := 0; i < len(best) && i < len(path) && best[i] == path[i]; i++ {
		fork = i
	}
	if got := n.Chain.BestChainHeaderForkHeight(); int(got) != fork+base {
		return fmt.Sprintf("BestChainHeaderForkHeight=%d, active chain %v and header chain %v fork at height %d", got, best, path, fork)
	}
	return ""
}

// guardPanic turns a panic that starts inside the code under test (the first
// non-runtime frame of the stack is in github.com/btcsuite/btcd) into a
// violation of the property being checked: a replayed call must return, not
// take the process down.  Any other panic is a harness error and is re-raised.
func guardPanic(ctx *vrun.Ctx, what string) {
	r := recover()
	if r == nil {
		return
	}
	buf := make([]byte, 1<<15)
	buf = buf[:runtime.Stack(buf, false)]
	inRepo := false
	for _, line := range strings.Split(string(buf), "\n") {
		if strings.HasPrefix(line, "\t") || strings.HasPrefix(line, "goroutine ") || line == "" {
			continue
		}
		if strings.HasPrefix(line, "runtime.") || strings.HasPrefix(line, "panic(") || strings.Contains(line, "guardPanic") || strings.HasPrefix(line, "runtime/debug.") {
			continue
		}
		inRepo = strings.HasPrefix(line, "github.com/btcsuite/btcd/")
		break
	}
	if !inRepo {
		panic(r)
	}
	ctx.Violation("panic:code-under-test", fmt.Sprintf("%s: the node panicked: %v\n%s", what, r, tailOfHead(string(buf), 1500)), map[string]any{"what": what, "panic": fmt.Sprint(r)})
}

func tailOfHead(s string, n int) string {
	if len(s) > n {
		return s[:n]
	}
	return s
}
