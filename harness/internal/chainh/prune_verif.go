//go:build verif

package chainh

import (
	"github.com/btcsuite/btcd/database"
	"github.com/btcsuite/btcd/database/ffldb"
)

// setMaxBlockFileSize shrinks ffldb's block-file size limit (a per-instance,
// in-memory setting) through the verif hook so that tiny blocks roll over and
// pruning has whole files to delete.
func setMaxBlockFileSize(db database.DB, size uint32) {
	ffldb.VerifSetMaxBlockFileSize(db, size)
}
