package chainh

import (
	"fmt"
	"sort"
	"sync"
	"time"

	"github.com/btcsuite/btcd/blockchain"
	"github.com/btcsuite/btcd/chainhash/v2"

	"verif/harness/internal/tla"
	"verif/harness/internal/tlc"
	"verif/harness/internal/vrun"
)

// QueryCfg is one TLC configuration of ChainQueries.tla.
type QueryCfg struct {
	Name    string
	N       int
	Small   bool
	H, F, L int
	Kinds   string
}

func (q QueryCfg) Text() string {
	return fmt.Sprintf("CONSTANTS\n N = %d\n SMALL = %s\n H = %d\n F = %d\n L = %d\n KINDS = %s\nINIT Init\nNEXT Next\nINVARIANTS LocateOK RangeOK LocatorOK LocatorLocates ForkOK\n",
		q.N, b2s(q.Small), q.H, q.F, q.L, q.Kinds)
}

const allKinds = `{"locate","hrange","h2h","interval","locator","fork"}`

var unknownHash = chainhash.Hash{0xde, 0xad, 0xbe, 0xef, 1, 2, 3}

func (f *Factory) hashOfAbs(x int) *chainhash.Hash {
	switch {
	case x == -1:
		h := unknownHash
		return &h
	case x == -2:
		return &chainhash.Hash{}
	}
	return f.Hash(x)
}

func seqIDs(f *Factory, hs []chainhash.Hash) []int {
	out := make([]int, len(hs))
	for i := range hs {
		out[i] = f.ID(&hs[i])
	}
	return out
}

func eqInts(a, b []int) bool {
	if len(a) != len(b) {
		return false
	}
	for i := range a {
		if a[i] != b[i] {
			return false
		}
	}
	return true
}

// runQueryGroup builds one tree with the designated active chain and runs all
// its queries.
func runQueryGroup(ctx *vrun.Ctx, states []tla.State) error {
	st0 := states[0]
	p := st0["parent"]
	n := p.Len()
	tip, prio := st0["tip"].Int(), st0["prio"].Int()
	sc := &Scenario{N: n, Parent: make([]int, n+1), Work: make([]int, n+1), Flaw: make([]string, n+1)}
	for b := 1; b <= n; b++ {
		sc.Parent[b] = p.At(b).Int()
		sc.Work[b] = 1
		sc.Flaw[b] = "none"
	}
	sc.Flaw[0] = "none"
	for _, b := range sc.Path(tip) {
		if b != 0 {
			sc.Work[b] = 2
		}
	}
	f := NewFactory(sc, NetOpts{Maturity: 1, BIP34: false}, ctx.Seed+int64(tip)*7+int64(prio))
	f.SpendP = 0.3
	f.BuildAll()
	node, err := NewNode(f, 1<<20)
	if err != nil {
		return err
	}
	defer node.Close()
	delivered := map[int]bool{0: true}
	var order []int
	for _, b := range append(append([]int{}, sc.Path(prio)...), sc.Path(tip)...) {
		if !delivered[b] {
			delivered[b] = true
			order = append(order, b)
		}
	}
	for b := 1; b <= n; b++ {
		if !delivered[b] {
			delivered[b] = true
			order = append(order, b)
		}
	}
	desc := fmt.Sprintf("tree parent=%v active tip=%d first-active=%d delivery=%v", sc.Parent[1:], tip, prio, order)
	for _, b := range order {
		if res, err := node.DeliverBlock(b); err != nil {
			ctx.Violation("query-setup-refused", fmt.Sprintf("%s: valid block %d refused (%s): %v", desc, b, res, err), desc)
			return nil
		}
	}
	if node.Tip() != tip {
		ctx.Violation("query-setup-tip", fmt.Sprintf("%s: active tip is %d although block %d has strictly the most work", desc, node.Tip(), tip), desc)
		return nil
	}
	ctx.AddTraces(1)
	children := map[int]int{}
	for b := 1; b <= n; b++ {
		children[sc.Parent[b]]++
	}
	var tips []blockchain.ChainTip
	for _, st := range states {
		q, ans := st["q"], st["ans"]
		kind := q.F("kind").Str()
		want := ans.F("seq").Ints()
		ok := ans.F("ok").Bool()
		ctx.AddEval(1)
		ctx.Distinct(fmt.Sprintf("%v|%d|%d|%s", sc.Parent[1:], tip, prio, q.String()))
		fail := func(key, got string) {
			ctx.Violation("query:"+key, fmt.Sprintf("%s: query %s: real answer %s, naive walk gives ok=%v %v", desc, q.String(), got, ok, want),
				map[string]any{"tree": sc.Parent[1:], "tip": tip, "prio": prio, "delivery": order, "query": q.Go(), "spec_answer": ans.Go(), "real": got})
		}
		switch kind {
		case "locate":
			var loc blockchain.BlockLocator
			for _, x := range q.F("loc").Ints() {
				loc = append(loc, f.hashOfAbs(x))
			}
			stop := f.hashOfAbs(q.F("stop").Int())
			max := q.F("max").Int()
			got := seqIDs(f, node.Chain.LocateBlocks(loc, stop, uint32(max)))
			if !eqInts(got, want) {
				fail("LocateBlocks", fmt.Sprint(got))
				continue
			}
			if max >= 100 { // LocateHeaders has the fixed protocol maximum (2000)
				hdrs := node.Chain.LocateHeaders(loc, stop)
				gh := make([]int, len(hdrs))
				for i := range hdrs {
					h := hdrs[i].BlockHash()
					gh[i] = f.ID(&h)
				}
				if !eqInts(gh, want) {
					fail("LocateHeaders", fmt.Sprint(gh))
				}
			}
		case "hrange":
			hs, err := node.Chain.HeightRange(int32(q.F("a").Int()), int32(q.F("b").Int()))
			if (err == nil) != ok || (ok && !eqInts(seqIDs(f, hs), want)) {
				fail("HeightRange", fmt.Sprintf("%v err=%v", seqIDs(f, hs), err))
			}
		case "h2h":
			hs, err := node.Chain.HeightToHashRange(int32(q.F("a").Int()), f.hashOfAbs(q.F("stop").Int()), q.F("max").Int())
			if (err == nil) != ok || (ok && !eqInts(seqIDs(f, hs), want)) {
				fail("HeightToHashRange", fmt.Sprintf("%v err=%v", seqIDs(f, hs), err))
			}
		case "interval":
			hs, err := node.Chain.IntervalBlockHashes(f.hashOfAbs(q.F("stop").Int()), q.F("a").Int())
			if (err == nil) != ok || (ok && !eqInts(seqIDs(f, hs), want)) {
				fail("IntervalBlockHashes", fmt.Sprintf("%v err=%v", seqIDs(f, hs), err))
			}
		case "locator":
			x := q.F("stop").Int()
			loc := node.Chain.BlockLocatorFromHash(f.Hash(x))
			got := make([]int, len(loc))
			for i := range loc {
				got[i] = f.ID(loc[i])
			}
			if !eqInts(got, want) {
				fail("BlockLocatorFromHash", fmt.Sprint(got))
				continue
			}
			if x == tip {
				l2, err := node.Chain.LatestBlockLocator()
				g2 := make([]int, len(l2))
				for i := range l2 {
					g2[i] = f.ID(l2[i])
				}
				if err != nil || !eqInts(g2, want) {
					fail("LatestBlockLocator", fmt.Sprintf("%v err=%v", g2, err))
				}
			}
		case "fork":
			x := q.F("stop").Int()
			if children[x] != 0 && x != tip {
				continue // the fork point is observable through ChainTips for leaves only
			}
			if tips == nil {
				tips = node.Chain.ChainTips()
			}
			found := false
			for _, t := range tips {
				if f.ID(&t.BlockHash) == x {
					found = true
					wantLen := sc.Height(x) - sc.Height(want[0])
					if int(t.BranchLen) != wantLen {
						fail("ChainTips.BranchLen", fmt.Sprint(t.BranchLen))
					}
				}
			}
			if !found {
				fail("ChainTips.missing", "leaf not listed")
			}
		default:
			return fmt.Errorf("unknown query kind %q", kind)
		}
	}
	return nil
}

// RunQueries model-checks ChainQueries.tla for the configuration and replays
// every case (or a seeded sample of the groups when maxGroups > 0).
func RunQueries(ctx *vrun.Ctx, qc QueryCfg, maxGroups int) error {
	res, err := tlc.Run(tlc.Opts{SpecDir: ctx.SpecDir("chain"), Module: "ChainQueries", CfgText: qc.Text(), Workers: 6,
		Timeout: 25 * time.Minute, DumpGraph: true, Scratch: ctx.Scratch, HeapGB: 8})
	if err != nil {
		return err
	}
	ctx.Logf("ChainQueries %s: %d cases (distinct states), %.1fs ok=%v", qc.Name, res.Distinct, res.WallS, res.OK)
	if !res.OK {
		return fmt.Errorf("TLC reports %s %s violated in ChainQueries.tla: the naive definitions are inconsistent\n%s", res.ErrKind, res.ErrName, tailOf(res.Output, 1500))
	}
	ctx.AddModel(res.Distinct, res.Generated)
	groups := map[string][]tla.State{}
	for _, nd := range res.Graph.Order {
		st := nd.State
		k := st["parent"].String() + "|" + st["tip"].String() + "|" + st["prio"].String()
		groups[k] = append(groups[k], st)
	}
	keys := make([]string, 0, len(groups))
	for k := range groups {
		keys = append(keys, k)
	}
	sort.Strings(keys)
	if maxGroups > 0 && len(keys) > maxGroups {
		rng := ctx.Rand("query-groups-" + qc.Name)
		rng.Shuffle(len(keys), func(i, j int) { keys[i], keys[j] = keys[j], keys[i] })
		keys = keys[:maxGroups]
	} else {
		ctx.AddExtra("query_configs_fully_replayed", 1)
	}
	ctx.Logf("ChainQueries %s: %d (tree, tip, first-active) groups replayed", qc.Name, len(keys))
	var firstErr error
	var mu sync.Mutex
	ctx.Parallel(len(keys), func(i int) {
		if err := runQueryGroup(ctx, groups[keys[i]]); err != nil {
			mu.Lock()
			if firstErr == nil {
				firstErr = err
			}
			mu.Unlock()
		}
	})
	if len(keys) > 0 {
		g := groups[keys[0]]
		ctx.Sample(map[string]any{"tree_parent": g[0]["parent"].Go(), "tip": g[0]["tip"].Go(), "query": g[len(g)/2]["q"].Go(), "naive_answer": g[len(g)/2]["ans"].Go()})
	}
	return firstErr
}
