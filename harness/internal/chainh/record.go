package chainh

import (
	"bytes"
	"encoding/json"
	"fmt"
	"sort"
	"strings"
	"sync"
	"sync/atomic"
	"time"

	"github.com/btcsuite/btcd/btcutil/v2"
	"github.com/btcsuite/btcd/chainhash/v2"
	"github.com/btcsuite/btcd/database"
	"github.com/btcsuite/btcd/wire/v2"

	"verif/harness/internal/tlc"
	"verif/harness/internal/vrun"
)

// commitEv is one durable commit of the blockchain package as observed through
// the database interface.
type commitEv struct {
	Ev          string `json:"ev"`
	Stored      []int  `json:"stored"`
	Idx         []int  `json:"idx"`
	Best        int    `json:"best"`
	HAdd        []int  `json:"hadd"`
	HDel        []int  `json:"hdel"`
	JAdd        []int  `json:"jadd"`
	JDel        []int  `json:"jdel"`
	Marker      int    `json:"marker"`
	UtxoAt      int    `json:"utxoAt"`
	Connecting  []int  `json:"connecting"`
	utxoTouched bool
}

func newEv() *commitEv {
	return &commitEv{Ev: "commit", Stored: []int{}, Idx: []int{}, Best: -1, HAdd: []int{}, HDel: []int{}, JAdd: []int{}, JDel: []int{}, Marker: -1, UtxoAt: -1, Connecting: []int{}}
}

type recTx struct {
	database.Tx
	f  *Factory
	ev *commitEv
}

func (t *recTx) StoreBlock(b *btcutil.Block) error {
	t.ev.Stored = append(t.ev.Stored, t.f.ID(b.Hash()))
	return t.Tx.StoreBlock(b)
}

func (t *recTx) Metadata() database.Bucket {
	return &recBucket{dbBucket: t.Tx.Metadata(), name: "", t: t}
}

// dbBucket avoids the field/method name clash of the embedded interface.
type dbBucket = database.Bucket

type recBucket struct {
	dbBucket
	name string
	t    *recTx
}

func (b *recBucket) Bucket(key []byte) database.Bucket {
	in := b.dbBucket.Bucket(key)
	if in == nil {
		return nil
	}
	return &recBucket{dbBucket: in, name: b.name + "/" + string(key), t: b.t}
}

func (b *recBucket) idOfHashBytes(h []byte) int {
	var hh chainhash.Hash
	copy(hh[:], h)
	return b.t.f.ID(&hh)
}

func (b *recBucket) Put(key, value []byte) error {
	ev := b.t.ev
	switch b.name {
	case "":
		switch string(key) {
		case "chainstate":
			ev.Best = b.idOfHashBytes(value[:32])
		case "utxostateconsistency":
			ev.Marker = b.idOfHashBytes(value[:32])
		}
	case "/blockheaderidx":
		ev.Idx = append(ev.Idx, b.idOfHashBytes(key[4:36]))
	case "/hashidx":
		ev.HAdd = append(ev.HAdd, b.idOfHashBytes(key[:32]))
	case "/spendjournal":
		ev.JAdd = append(ev.JAdd, b.idOfHashBytes(key[:32]))
	case "/utxosetv2":
		ev.utxoTouched = true
	}
	return b.dbBucket.Put(key, value)
}

func (b *recBucket) Delete(key []byte) error {
	ev := b.t.ev
	switch b.name {
	case "/hashidx":
		ev.HDel = append(ev.HDel, b.idOfHashBytes(key[:32]))
	case "/spendjournal":
		ev.JDel = append(ev.JDel, b.idOfHashBytes(key[:32]))
	case "/utxosetv2":
		ev.utxoTouched = true
	}
	return b.dbBucket.Delete(key)
}

// utxoKeySet reads the on-disk utxo bucket and returns its outpoints.
func utxoKeySet(db database.DB) (map[wire.OutPoint]bool, error) {
	out := map[wire.OutPoint]bool{}
	err := db.View(func(tx database.Tx) error {
		bk := tx.Metadata().Bucket([]byte("utxosetv2"))
		if bk == nil {
			return fmt.Errorf("no utxo bucket")
		}
		return bk.ForEach(func(k, v []byte) error {
			if len(k) < 33 {
				return fmt.Errorf("short utxo key %x", k)
			}
			var op wire.OutPoint
			copy(op.Hash[:], k[:32])
			// MSB-first base-128 variable length quantity
			n := uint64(0)
			for _, c := range k[32:] {
				n = (n << 7) | uint64(c&0x7f)
				if c&0x80 != 0 {
					n++
				}
			}
			op.Index = uint32(n)
			out[op] = true
			return nil
		})
	})
	return out, err
}

// utxoAt finds the block whose fold equals the on-disk utxo set (-1: none).
func (f *Factory) utxoAt(db database.DB) int {
	ks, err := utxoKeySet(db)
	if err != nil {
		return -1
	}
	for b := 0; b <= f.Sc.N; b++ {
		fold, _ := f.NaiveFold(f.Sc.Path(b))
		if len(fold) != len(ks) {
			continue
		}
		same := true
		for op := range fold {
			if !ks[op] {
				same = false
				break
			}
		}
		if same {
			return b
		}
	}
	return -1
}

// traceCollector gathers the commit traces of all workloads, grouped by tree.
type traceCollector struct {
	mu     sync.Mutex
	byTree map[string][]*commitEv // key: parent list
	nTrees map[string]int
	ntr    int
}

func newCollector() *traceCollector {
	return &traceCollector{byTree: map[string][]*commitEv{}, nTrees: map[string]int{}}
}

func (c *traceCollector) add(sc *Scenario, evs []*commitEv) {
	key := strings.Trim(strings.Join(strings.Fields(fmt.Sprint(sc.Parent[1:])), ","), "[]")
	c.mu.Lock()
	c.byTree[key] = append(c.byTree[key], &commitEv{Ev: "reset"})
	c.byTree[key] = append(c.byTree[key], evs...)
	c.nTrees[key] = sc.N
	c.ntr++
	c.mu.Unlock()
}

// validate runs TraceChainStore once per tree over all its recorded workloads.
func (c *traceCollector) validate(ctx *vrun.Ctx) error {
	keys := make([]string, 0, len(c.byTree))
	for k := range c.byTree {
		keys = append(keys, k)
	}
	sort.Strings(keys)
	var firstErr error
	var mu sync.Mutex
	var nRejected, nAccepted int64
	sem := make(chan struct{}, 4)
	var wg sync.WaitGroup
	for _, k := range keys {
		wg.Add(1)
		sem <- struct{}{}
		go func(k string) {
			defer wg.Done()
			defer func() { <-sem }()
			var buf bytes.Buffer
			enc := json.NewEncoder(&buf)
			for _, e := range c.byTree[k] {
				if e.Ev == "reset" {
					buf.WriteString("{\"ev\":\"reset\"}\n")
					continue
				}
				enc.Encode(e)
			}
			mc := fmt.Sprintf("---- MODULE MCTrace ----\nEXTENDS TraceChainStore\nMCParent == <<%s>>\n====\n", k)
			cfg := fmt.Sprintf("CONSTANTS\n N = %d\n PARENT <- MCParent\n LIMIT = \"never\"\nSPECIFICATION TraceSpec\nINVARIANTS Recoverable UtxoIsAFold\nPOSTCONDITION TraceAccepted\nCHECK_DEADLOCK FALSE\n", c.nTrees[k])
			res, err := tlc.Run(tlc.Opts{SpecDir: ctx.SpecDir("chain"), Module: "MCTrace", CfgText: cfg, Workers: 1, Timeout: 10 * time.Minute,
				Files: map[string][]byte{"MCTrace.tla": []byte(mc), "trace.ndjson": buf.Bytes()}, Scratch: ctx.Scratch, HeapGB: 4, Deadlock: true})
			mu.Lock()
			defer mu.Unlock()
			if err != nil {
				if firstErr == nil {
					firstErr = err
				}
				return
			}
			ctx.AddModel(res.Distinct, res.Generated)
			if !res.OK {
				// The durable state derived from the real commits breaks a recoverability invariant of ChainStore.tla at some commit.
				// Verdicts come from the crash enumeration at that very commit; here it is recorded as drift between code and specification.
				atomic.AddInt64(&nRejected, 1)
				ctx.AddExtra("commit_traces_rejected", 1)
				ctx.SetExtra("commit_trace_rejection_"+k, fmt.Sprintf("%s %s", res.ErrKind, res.ErrName))
				ctx.Logf("commit trace for tree <<%s>> rejected by TraceChainStore: %s %s", k, res.ErrKind, res.ErrName)
			} else {
				atomic.AddInt64(&nAccepted, 1)
				ctx.AddExtra("commit_records_validated", int64(len(c.byTree[k])))
			}
		}(k)
	}
	wg.Wait()
	if firstErr == nil && nRejected > 0 && nAccepted == 0 {
		// not a verdict about btcd: when NO recorded commit sequence is a behaviour of the specification, the recorder
		// (or the specification) no longer describes the code at all and the code->spec half of the check is void
		return fmt.Errorf("TraceChainStore.tla rejects every recorded commit trace (%d): the commit recorder and the specification disagree", nRejected)
	}
	return firstErr
}

// canonicalTrees enumerates the BFS-canonical parent vectors with n blocks.
func canonicalTrees(n int) [][]int {
	var out [][]int
	var rec func(p []int)
	rec = func(p []int) {
		b := len(p) + 1
		if b > n {
			out = append(out, append([]int(nil), p...))
			return
		}
		lo := 0
		if len(p) > 0 {
			lo = p[len(p)-1]
		}
		for q := lo; q < b; q++ {
			rec(append(p, q))
		}
	}
	rec(nil)
	return out
}

// RunChainStore model-checks ChainStore.tla (commit-granularity design with
// Crash/Recover at every commit) for every canonical tree with n blocks and
// both cache limits.
func RunChainStore(ctx *vrun.Ctx, n int) error {
	trees := canonicalTrees(n)
	type job struct {
		tree  []int
		limit string
	}
	var jobs []job
	for _, t := range trees {
		for _, l := range []string{"always", "never"} {
			jobs = append(jobs, job{t, l})
		}
	}
	var firstErr error
	var mu sync.Mutex
	sem := make(chan struct{}, 4)
	var wg sync.WaitGroup
	for _, j := range jobs {
		wg.Add(1)
		sem <- struct{}{}
		go func(j job) {
			defer wg.Done()
			defer func() { <-sem }()
			k := strings.Trim(strings.Join(strings.Fields(fmt.Sprint(j.tree)), ","), "[]")
			mc := fmt.Sprintf("---- MODULE MCChainStore ----\nEXTENDS ChainStore\nMCParent == <<%s>>\n====\n", k)
			cfg := fmt.Sprintf("CONSTANTS\n N = %d\n PARENT <- MCParent\n LIMIT = \"%s\"\nINIT Init\nNEXT Next\nINVARIANTS Recoverable RecoveredExact\n", n, j.limit)
			res, err := tlc.Run(tlc.Opts{SpecDir: ctx.SpecDir("chain"), Module: "MCChainStore", CfgText: cfg, Workers: 2, Timeout: 10 * time.Minute,
				Files: map[string][]byte{"MCChainStore.tla": []byte(mc)}, Scratch: ctx.Scratch, HeapGB: 4})
			mu.Lock()
			defer mu.Unlock()
			if err != nil {
				if firstErr == nil {
					firstErr = err
				}
				return
			}
			if !res.OK {
				if firstErr == nil {
					firstErr = fmt.Errorf("ChainStore.tla: %s %s violated for tree <<%s>> limit %s: the commit-level design is not recoverable at every crash point (specification inconsistent)", res.ErrKind, res.ErrName, k, j.limit)
				}
				return
			}
			ctx.AddModel(res.Distinct, res.Generated)
			ctx.AddExtra("chainstore_configs_checked", 1)
		}(j)
	}
	wg.Wait()
	return firstErr
}
