package chainh

import (
	"fmt"
	"github.com/btcsuite/btcd/blockchain"
	"math/rand"
	"os"
	"sort"
	"strings"
	"sync"
	"time"

	"verif/harness/internal/tla"
	"verif/harness/internal/tlc"
	"verif/harness/internal/vrun"
)

// ModelCfg is one TLC configuration of Chain.tla.
type ModelCfg struct {
	Name      string
	N         int
	Works     string
	Flaws     string
	Headers   bool
	Manual    int
	Restart   int // restarts per behaviour
	Flush     bool
	Dups      bool
	MaxPaths  int  // 0 = cover every transition
	Graph     bool // dump graph and replay (false: TLC only)
	Workers   int
	Catalogue bool // flawed blocks draw their rule from the catalogue, valid blocks sit on limits (C01)
	Crash     bool // replay = crash-point enumeration of the path as a workload (C04)
	Nested    bool // also crash every recovery
	Prune     bool // crash workloads run on a pruned node (tiny block files, preamble blocks to prune)
	BIP34     bool // network with BIP34 from height 1, BIP66 from abstract height 2, BIP65 from abstract height 3 (catalogue models)
}

func b2s(b bool) string {
	if b {
		return "TRUE"
	}
	return "FALSE"
}

func (m ModelCfg) Text(invs []string) string {
	return fmt.Sprintf("CONSTANTS\n N = %d\n WORKS = %s\n FLAWS = %s\n HEADERS = %s\n MANUAL = %d\n FLUSH = %s\n DUPS = %s\n RESTART = %d\nINIT Init\nNEXT Next\nINVARIANTS %s\n",
		m.N, m.Works, m.Flaws, b2s(m.Headers), m.Manual, b2s(m.Flush), b2s(m.Dups), m.Restart, strings.Join(invs, " "))
}

var chainInvariants = []string{"TypeOK", "TipIsIdeal", "NoFlawOnBest", "VerdictOK", "NoPoison", "HdrOK", "HdrIsIdeal", "OrphansParked", "RestartStable"}

// ScenarioOf reads the scenario variables of a state.
func ScenarioOf(st tla.State) *Scenario {
	p := st["parent"]
	n := p.Len()
	sc := &Scenario{N: n, Parent: make([]int, n+1), Work: make([]int, n+1), Flaw: make([]string, n+1)}
	for b := 1; b <= n; b++ {
		sc.Parent[b] = p.At(b).Int()
		sc.Work[b] = st["work"].At(b).Int()
		sc.Flaw[b] = st["flaw"].At(b).Str()
	}
	sc.Flaw[0] = "none"
	return sc
}

func scenarioKey(sc *Scenario) string {
	return fmt.Sprintf("%v|%v|%v", sc.Parent[1:], sc.Work[1:], sc.Flaw[1:])
}

type stepRec struct {
	Op     string `json:"op"`
	B      any    `json:"b"`
	Real   string `json:"real_result"`
	Tip    int    `json:"real_tip"`
	Pred   string `json:"spec_pred_result"`
	PTip   int    `json:"spec_pred_tip"`
	Expect any    `json:"spec_expect"`
}

type pathReplay struct {
	Scenario string    `json:"scenario"`
	Seed     int64     `json:"factory_seed"`
	Cache    uint64    `json:"utxo_cache_max"`
	Steps    []stepRec `json:"steps"`
}

func contains(v tla.Value, x int) bool {
	for _, e := range v.Set() {
		if e.Int() == x {
			return true
		}
	}
	return false
}

// replayPath steps one spec path through a fresh real chain. prop selects
// which property's assertions produce verdicts.
func replayPath(ctx *vrun.Ctx, prop string, f *Factory, path []tlc.Step, cache uint64, fseed int64, rng *rand.Rand) error {
	node, err := NewNode(f, cache)
	if err != nil {
		return err
	}
	defer node.Close()
	rec := &pathReplay{Scenario: f.String() + fmt.Sprintf(" rules=%v", f.RuleName[1:]), Seed: fseed, Cache: cache}
	prevChain := []int{0}
	viol := func(key, what string) {
		ctx.Violation(key, what, rec)
	}
	for si, st := range path {
		s := st.To.State
		last := s["last"]
		op := last.F("op").Str()
		exp := s["exp"]
		pred := s["pred"]
		var res string
		var callErr error
		sr := stepRec{Op: op, B: last.F("b").Go(), Pred: pred.F("ret").Str(), PTip: pred.F("tip").Int(), Expect: exp.Go()}
		node.TakeNotes()
		switch op {
		case "block":
			res, callErr = node.DeliverBlock(last.F("b").Int())
		case "header":
			res, callErr = node.DeliverHeader(last.F("b").Int())
		case "flush":
			callErr = node.Flush(last.F("b").Str())
			res = ROK
		case "invalidate":
			callErr = node.Chain.InvalidateBlock(f.Hash(last.F("b").Int()))
			res = ROK
		case "reconsider":
			callErr = node.Chain.ReconsiderBlock(f.Hash(last.F("b").Int()))
			res = ROK
		case "restart":
			// with a final flush of the UTXO cache (orderly shutdown) or without (the cache is rebuilt from the blocks)
			if (int64(si)+fseed)%2 == 0 {
				callErr = node.Flush("required")
			}
			if callErr == nil {
				callErr = node.Reopen()
			}
			res = ROK
			if callErr != nil {
				sr.Real = "restart failed: " + callErr.Error()
				rec.Steps = append(rec.Steps, sr)
				viol("restart-failed", fmt.Sprintf("step %d (restart) of scenario %s: the chain cannot be loaded again: %v", si+1, f.String(), callErr))
				return nil
			}
		default:
			return fmt.Errorf("unknown op %q in spec state", op)
		}
		notes := node.TakeNotes()
		tip := node.Tip()
		sr.Real, sr.Tip = res, tip
		if callErr != nil {
			sr.Real = res + ": " + callErr.Error()
		}
		rec.Steps = append(rec.Steps, sr)
		ctx.AddEval(1)
		ctx.Distinct(st.From.ID + ">" + st.To.ID)
		where := fmt.Sprintf("step %d (%s %v) of scenario %s", si+1, op, last.F("b").Go(), f.String())

		// --- drift (implementation layer): recorded, never a verdict.  When the
		// real node legitimately took another of the outcomes the property
		// allows (a tie between candidates, decided by map iteration order in
		// the code and by the lowest id in the model), the rest of the path
		// describes a different node: the step is still judged, then the path
		// ends.
		diverged := tip != pred.F("tip").Int()
		if op == "header" {
			realAcc := res == RMain || res == RSide
			predAcc := pred.F("ret").Str() != "rej"
			if realAcc != predAcc && exp.F("hdrAccept").Str() == "any" {
				// which invalid blocks the node already knows depends on the same order
				ctx.AddExtra("allowed_divergence_header", 1)
				return nil
			}
		}
		if diverged {
			ctx.AddExtra("model_drift_tip", 1)
		}

		// a block whose whole ancestry is flawless and not manually invalidated (spec: NoPoison)
		cleanBlock := func(b int) bool {
			for _, x := range f.Sc.Path(b) {
				if f.Sc.Flaw[x] != "none" || contains(s["manual"], x) {
					return false
				}
			}
			return true
		}
		if prop == "C01" || prop == "C02" {
			for _, t := range node.Chain.ChainTips() {
				if id := f.ID(&t.BlockHash); t.Status == blockchain.StatusInvalid && id > 0 && cleanBlock(id) {
					viol("valid-block-marked-invalid:"+op, fmt.Sprintf("%s: ChainTips lists block %d as invalid although it and all its ancestors are valid and not manually invalidated", where, id))
					return nil
				}
			}
		}
		switch prop {
		case "C02":
			if !contains(exp.F("tips"), tip) {
				viol("tip-not-ideal:"+op, fmt.Sprintf("%s: active tip is block %d, the most-work valid delivered chain(s) end at %v", where, tip, exp.F("tips").Go()))
				return nil
			}
			if d := node.CheckViews(); d != "" {
				viol("views-disagree:"+op, where+": "+d)
				return nil
			}
			after, d := f.ApplyNotes(prevChain, notes)
			if d == "" && fmt.Sprint(after) != fmt.Sprint(node.BestPath()) {
				d = fmt.Sprintf("notifications transform %v into %v but the active chain is %v", prevChain, after, node.BestPath())
			}
			if d != "" {
				viol("notifications:"+op, where+": "+d)
				return nil
			}
			if (op == "invalidate" || op == "reconsider") && callErr != nil {
				ctx.AddExtra("manual_op_returned_error", 1) // not a verdict: the statement speaks about the tip
			}
		case "C01":
			if op == "block" {
				b := last.F("b").Int()
				stored, herr := node.Chain.HaveBlock(f.Hash(b))
				have := (herr == nil && stored) || node.Chain.IsKnownOrphan(f.Hash(b))
				refused := !(res == RMain || res == RSide || res == ROrphan)
				switch exp.F("accept").Str() {
				case "must":
					if !have {
						viol("valid-block-refused", fmt.Sprintf("%s: block satisfies every rule in the context of its ancestors but the node does not have it after ProcessBlock returned %s (%v)", where, res, callErr))
						return nil
					}
				case "mustnot":
					if have || !refused {
						viol("invalid-block-accepted", fmt.Sprintf("%s: ProcessBlock returned %s and the node has the block=%v for a block it must refuse", where, res, have))
						return nil
					}
				case "dup":
					if !refused {
						viol("duplicate-accepted", fmt.Sprintf("%s: ProcessBlock returned %s for a block the node already has", where, res))
						return nil
					}
				}
			}
			// no flawed block, and no descendant of one, is part of the active chain
			for _, b := range node.BestPath() {
				if f.Sc.Flaw[b] != "none" {
					viol("flawed-block-connected", fmt.Sprintf("%s: block %d violates a %s-stage rule but is in the active chain %v", where, b, f.Sc.Flaw[b], node.BestPath()))
					return nil
				}
			}
			if tip < 0 {
				viol("unknown-tip", where+": active tip is not a block of the scenario")
				return nil
			}
			// a valid block whose ancestors are valid is connected whenever it has the most work: same oracle as C02, restricted to deliveries
			if (op == "block") && !contains(exp.F("tips"), tip) {
				viol("valid-chain-not-connected", fmt.Sprintf("%s: active tip is block %d, expected one of %v", where, tip, exp.F("tips").Go()))
				return nil
			}
		case "C03":
			if d := node.CheckUtxo(); d != "" {
				viol("utxo-not-fold:"+op, where+": "+d)
				return nil
			}
		case "C17":
			if op == "header" {
				hacc := res == RMain || res == RSide
				switch exp.F("hdrAccept").Str() {
				case "must":
					if !hacc {
						viol("valid-header-refused", fmt.Sprintf("%s: ProcessBlockHeader refused a header it must accept: %v", where, callErr))
						return nil
					}
				case "mustnot":
					if hacc {
						viol("invalid-header-accepted", fmt.Sprintf("%s: ProcessBlockHeader accepted a header it must refuse", where))
						return nil
					}
				}
			}
			hh, hheight := node.Chain.BestHeader()
			hid := f.ID(&hh)
			if !contains(exp.F("hdrTips"), hid) {
				viol("best-header-not-ideal:"+op, fmt.Sprintf("%s: BestHeader is block %d, most-work accepted header chain(s) end at %v", where, hid, exp.F("hdrTips").Go()))
				return nil
			}
			if hid >= 0 && int(hheight) != f.Sc.Height(hid)+int(f.BaseHeight) {
				viol("best-header-height", fmt.Sprintf("%s: BestHeader height %d for block %d at height %d", where, hheight, hid, f.Sc.Height(hid)))
				return nil
			}
			// header-first then blocks leads to the same chain as blocks alone: same tip oracle
			if !contains(exp.F("tips"), tip) {
				viol("tip-not-ideal-with-headers:"+op, fmt.Sprintf("%s: active tip is block %d, expected one of %v", where, tip, exp.F("tips").Go()))
				return nil
			}
			clean := func(b int) bool {
				for _, x := range f.Sc.Path(b) {
					if f.Sc.Flaw[x] != "none" || contains(s["manual"], x) {
						return false
					}
				}
				return true
			}
			if d := node.CheckHeaderViews(clean); d != "" {
				viol("header-views:"+op, where+": "+d)
				return nil
			}
		}
		prevChain = node.BestPath()
		if prevChain == nil {
			return nil
		}
		if diverged {
			ctx.AddExtra("paths_ended_at_allowed_divergence", 1)
			return nil
		}
	}
	if prop == "C03" {
		// what is persisted after a flush equals the in-memory view: flush, reopen, compare again
		if err := node.Flush("required"); err != nil {
			ctx.Violation("flush-error", fmt.Sprintf("FlushUtxoCache(FlushRequired) failed at the end of %s: %v", f.String(), err), rec)
			return nil
		}
		tip := node.Tip()
		if err := node.Reopen(); err != nil {
			ctx.Violation("reopen-error", fmt.Sprintf("reopening the database after a flush failed for %s: %v", f.String(), err), rec)
			return nil
		}
		if node.Tip() != tip {
			ctx.Violation("reopen-tip", fmt.Sprintf("tip after reopen is block %d, was %d (%s)", node.Tip(), tip, f.String()), rec)
			return nil
		}
		if d := node.CheckUtxo(); d != "" {
			ctx.Violation("utxo-not-fold:after-reopen", "after flush+reopen of "+f.String()+": "+d, rec)
			return nil
		}
	}
	if len(rec.Steps) > 0 {
		ctx.Sample(rec)
	}
	return nil
}

type tlcOut struct {
	res *tlc.Result
	err error
}

// prefetched holds TLC runs started ahead of their replay (quick tier: the
// model checking of the later configurations overlaps the replay of the
// earlier ones).
var prefetched = map[string]chan tlcOut{}

// Prefetch starts TLC for the given configurations, at most par at a time.
func Prefetch(ctx *vrun.Ctx, models []ModelCfg, par int, timeout time.Duration) {
	sem := make(chan struct{}, par)
	w := ctx.Workers / par
	if w < 2 {
		w = 2
	}
	for _, m := range models {
		if only := os.Getenv("VERIF_ONLY"); only != "" && only != m.Name {
			continue
		}
		ch := make(chan tlcOut, 1)
		prefetched[m.Name] = ch
		go func(m ModelCfg) {
			sem <- struct{}{}
			defer func() { <-sem }()
			res, err := tlc.Run(tlc.Opts{SpecDir: ctx.SpecDir("chain"), Module: "Chain", CfgText: m.Text(chainInvariants),
				Workers: w, Timeout: timeout, DumpGraph: m.Graph, Scratch: ctx.Scratch, HeapGB: 4})
			ch <- tlcOut{res, err}
		}(m)
	}
}

// RunModel runs TLC on one configuration and replays covering paths.
func RunModel(ctx *vrun.Ctx, prop string, m ModelCfg, timeout time.Duration) error {
	if only := os.Getenv("VERIF_ONLY"); only != "" && only != m.Name { // development aid
		return nil
	}
	w := m.Workers
	if w == 0 {
		w = ctx.Workers
		if w > 12 {
			w = 12
		}
	}
	var res *tlc.Result
	var err error
	if ch := prefetched[m.Name]; ch != nil {
		out := <-ch
		res, err = out.res, out.err
	} else {
		res, err = tlc.Run(tlc.Opts{SpecDir: ctx.SpecDir("chain"), Module: "Chain", CfgText: m.Text(chainInvariants),
			Workers: w, Timeout: timeout, DumpGraph: m.Graph, Coverage: ctx.Thorough && !m.Graph, Scratch: ctx.Scratch, HeapGB: 8})
	}
	if err != nil {
		return err
	}
	ctx.Logf("model %s: %d distinct states, %d generated, depth %d, %.1fs, ok=%v", m.Name, res.Distinct, res.Generated, res.Depth, res.WallS, res.OK)
	if !res.OK {
		// The specification's implementation layer no longer implies its property layer: the spec is wrong or was edited; never a verdict about btcd.
		return fmt.Errorf("TLC reports %s %s violated in Chain.tla (config %s): specification inconsistent\n%s", res.ErrKind, res.ErrName, m.Name, tailOf(res.Output, 2000))
	}
	ctx.AddModel(res.Distinct, res.Generated)
	if !m.Graph {
		for a, c := range res.ActionCount {
			if c == 0 {
				ctx.SetExtra("actions_never_taken_"+m.Name, a)
			}
		}
		return nil
	}
	g := res.Graph
	rng := ctx.Rand("paths-" + m.Name)
	paths, covered := g.CoverPaths(rng, m.MaxPaths, 0)
	ctx.Logf("model %s: graph %d nodes %d edges; %d paths covering %d edges", m.Name, len(g.Nodes), g.Edges, len(paths), covered)
	if m.MaxPaths == 0 && covered == g.Edges {
		ctx.AddExtra("configs_fully_covered", 1)
	}
	// one factory per (scenario, forced catalogue entries); in catalogue mode
	// the rule a flawed block violates and the limit a valid block sits on are
	// swept over the catalogue along the paths instead of drawn at random
	type fent struct {
		once sync.Once
		f    *Factory
		seed int64
		refs int
	}
	var fmu sync.Mutex
	facts := map[string]*fent{}
	var byStage map[string][]string
	var edges []string
	if m.Catalogue {
		byStage = map[string][]string{}
		for i := range Catalogue {
			r := &Catalogue[i]
			if !(m.Headers && r.HeaderVisible) {
				byStage[r.Stage] = append(byStage[r.Stage], r.Name)
			}
			if r.Edge != nil {
				edges = append(edges, r.Name)
			}
		}
	}
	variants := 1 << 30
	if m.MaxPaths == 0 || m.MaxPaths > 20000 {
		variants = 6 // bound the number of factories per scenario on large runs
	}
	forcedOf := func(i int, sc *Scenario) (string, string) {
		if !m.Catalogue {
			return "", ""
		}
		h := 0
		for _, c := range []byte(scenarioKey(sc)) {
			h = (h*131 + int(c)) & 0xffffff
		}
		v := h + i%variants
		rule := ""
		for b := 1; b <= sc.N; b++ {
			if st := sc.Flaw[b]; st != "none" && len(byStage[st]) > 0 {
				rule = byStage[st][v%len(byStage[st])]
			}
		}
		return rule, edges[(v*7+i%variants)%len(edges)]
	}
	keyOf := func(i int, sc *Scenario) string {
		r, e := forcedOf(i, sc)
		return scenarioKey(sc) + "|" + r + "|" + e
	}
	getF := func(i int, sc *Scenario) (*Factory, int64) {
		k := keyOf(i, sc)
		fmu.Lock()
		e := facts[k]
		if e == nil {
			e = &fent{}
			facts[k] = e
		}
		fmu.Unlock()
		e.once.Do(func() {
			h := int64(0)
			for _, c := range []byte(k) {
				h = h*131 + int64(c)
			}
			e.seed = ctx.Seed*1000003 + h
			if m.Prune {
				e.f = NewFactory(sc, NetOpts{Maturity: 1, BIP34: false}, e.seed)
				e.f.NoSpecial = true
				e.f.SpendP = 0.3
				e.f.MaxSpends = 3
				// the number of old blocks varies per factory, so that prune events (one per filled block file)
				// and the flushes they force fall at different places relative to the workload
				e.f.Preamble(40 + int(uint64(e.seed)%13))
			} else if m.Catalogue {
				o := NetOpts{Maturity: 2, BIP34: false}
				if m.BIP34 {
					// BIP34 from height 1; BIP66 and BIP65 start at abstract height 1..3 (preamble: 5 blocks), varied per factory
					hs := [][2]int32{{6, 6}, {6, 7}, {7, 7}, {7, 8}, {6, 8}}[uint64(e.seed)%5]
					o = NetOpts{Maturity: 2, BIP34: true, B66: hs[0], B65: hs[1]}
				}
				e.f = NewFactory(sc, o, e.seed)
				e.f.Catalogue = true
				e.f.HeaderMode = m.Headers
				rule, edge := forcedOf(i, sc)
				for b := 1; b <= sc.N; b++ {
					if sc.Flaw[b] != "none" {
						e.f.ForceRule[b] = rule
					} else {
						e.f.ForceRule[b] = "edge:" + edge
					}
				}
				e.f.Preamble(5)
			} else {
				// four blocks below the scenario supply mature coins of several kinds from the first abstract block on,
				// so that blocks carry multi-input transactions and in-block spending chains
				e.f = NewFactory(sc, NetOpts{Maturity: 1, BIP34: false}, e.seed)
				if !m.Headers { // with header deliveries the best-header view starts at the real genesis block: no blocks below the scenario
					e.f.NoSpecial = true
					e.f.Preamble(4)
				}
			}
			e.f.BuildAll()
			for k, v := range e.f.Stats {
				ctx.AddExtra("factory:"+k, int64(v))
			}
			for b := 1; b <= sc.N; b++ {
				if e.f.RuleName[b] != "" {
					ctx.AddExtra("rule:"+e.f.RuleName[b], 1)
				}
			}
		})
		return e.f, e.seed
	}
	// paths that share a factory run next to each other and the factory is
	// dropped after the last of them (some catalogue blocks are 1 MB)
	order := make([]int, 0, len(paths))
	pkey := make([]string, len(paths))
	for i, p := range paths {
		if len(p) == 0 {
			continue
		}
		pkey[i] = keyOf(i, ScenarioOf(p[0].From.State))
		order = append(order, i)
	}
	sort.SliceStable(order, func(a, b int) bool { return pkey[order[a]] < pkey[order[b]] })
	refs := map[string]int{}
	for _, i := range order {
		refs[pkey[i]]++
	}
	release := func(i int) {
		fmu.Lock()
		refs[pkey[i]]--
		if refs[pkey[i]] == 0 {
			delete(facts, pkey[i])
		}
		fmu.Unlock()
	}
	// deterministic per-path choices
	caches := []uint64{0, 1 << 20, 600}
	cacheSel := make([]int, len(paths))
	for i := range paths {
		cacheSel[i] = rng.Intn(len(caches))
	}
	var firstErr error
	var emu sync.Mutex
	var coll *traceCollector
	if m.Crash {
		coll = newCollector()
	}
	ctx.Parallel(len(order), func(oi int) {
		i := order[oi]
		p := paths[i]
		defer release(i)
		defer guardPanic(ctx, fmt.Sprintf("model %s, path %d of scenario %s", m.Name, i, scenarioKey(ScenarioOf(p[0].From.State))))
		sc := ScenarioOf(p[0].From.State)
		f, fseed := getF(i, sc)
		var err error
		if m.Crash {
			if m.Prune {
				err = crashWorkload(ctx, f, p, caches[cacheSel[i]], m.Nested, coll, 8192, 2048)
			} else {
				err = crashWorkload(ctx, f, p, caches[cacheSel[i]], m.Nested, coll, 0, 0)
			}
		} else {
			err = replayPath(ctx, prop, f, p, caches[cacheSel[i]], fseed, nil)
			ctx.AddTraces(1)
		}
		if err != nil {
			emu.Lock()
			if firstErr == nil {
				firstErr = err
			}
			emu.Unlock()
		}
	})
	if coll != nil && firstErr == nil {
		firstErr = coll.validate(ctx)
	}
	return firstErr
}

func tailOf(s string, n int) string {
	if len(s) > n {
		return s[len(s)-n:]
	}
	return s
}

func sortedKeys(m map[string]bool) []string {
	var k []string
	for x := range m {
		k = append(k, x)
	}
	sort.Strings(k)
	return k
}
