package chainh

import (
	"fmt"

	"bytes"
	"time"
	"verif/harness/internal/tlc"
	"verif/harness/internal/vrun"

	"github.com/btcsuite/btcd/chainhash/v2"
	"github.com/btcsuite/btcd/txscript/v2"
	"github.com/btcsuite/btcd/wire/v2"
)

// Rule is one entry of the consensus-rule catalogue (spec/chain/Consensus.tla
// lists the same names with their stages; the check compares the two tables).
// Apply turns the block under construction into one that violates exactly this
// rule; Edge (optional) into a VALID block that sits exactly on the limit.
// Need reports whether the block under construction offers what the rule needs
// (e.g. a spendable coin).
type Rule struct {
	Name          string
	Stage         string // sanity | context (header rule) | bcontext (block-level contextual rule) | connect
	Need          func(bb *blockBuilder) bool
	Apply         func(bb *blockBuilder)
	Edge          func(bb *blockBuilder)
	EdgeNeed      func(bb *blockBuilder) bool
	HeaderVisible bool // a sanity rule the bare header already breaks (not used when headers are delivered first: Chain.tla lets such headers pass)
}

func always(*blockBuilder) bool { return true }

func anyCoin(c Coin) bool {
	return len(c.PkScript) > 0 && c.PkScript[0] != txscript.OP_0 && kindOf(c.PkScript) == ""
}

func (bb *blockBuilder) generic() cand {
	cd, _ := bb.freeCoin(func(c Coin) bool { return anyCoin(c) && bb.spendable(c) })
	return cd
}

// requiredVersion is the lowest block version the parent chain admits at the
// block's height (BIP34 -> 2, BIP66 -> 3, BIP65 -> 4).
func (bb *blockBuilder) requiredVersion() int32 {
	p, v := bb.f.Params, int32(1)
	if bb.height >= p.BIP0034Height {
		v = 2
	}
	if bb.height >= p.BIP0066Height {
		v = 3
	}
	if bb.height >= p.BIP0065Height {
		v = 4
	}
	return v
}

func nullInput() *wire.TxIn {
	return &wire.TxIn{PreviousOutPoint: *wire.NewOutPoint(&chainhash.Hash{}, wire.MaxPrevOutIndex), Sequence: wire.MaxTxInSequenceNum}
}

func hasSpendable(bb *blockBuilder) bool {
	_, ok := bb.freeCoin(func(c Coin) bool { return anyCoin(c) && bb.spendable(c) })
	return ok
}

func manyOps(op byte, n int) []byte { return bytes.Repeat([]byte{op}, n) }

// Catalogue is the rule table.
var Catalogue = []Rule{
	// ---- sanity: context-free checks of ProcessBlock
	{Name: "bad-merkle-root", Stage: "sanity", Need: always, Apply: func(bb *blockBuilder) {
		bb.post = func(h *wire.BlockHeader) { h.MerkleRoot[0] ^= 0x55 }
	}},
	{Name: "hash-above-target", Stage: "sanity", HeaderVisible: true, Need: always, Apply: func(bb *blockBuilder) { bb.unsolved = true }},
	{Name: "time-too-new", Stage: "sanity", HeaderVisible: true, Need: always,
		Apply: func(bb *blockBuilder) {
			bb.hdr.Timestamp = bb.f.Now().Add(2*time.Hour + time.Second)
			bb.hdr.Bits = easyBits
		},
		EdgeNeed: func(bb *blockBuilder) bool { return bb.isLeaf && bb.f.Sc.Work[bb.b] == 1 },
		Edge:     func(bb *blockBuilder) { bb.hdr.Timestamp = bb.f.Now().Add(2 * time.Hour) }},
	{Name: "no-transactions", Stage: "sanity", Need: always, Apply: func(bb *blockBuilder) { bb.txs = nil }},
	{Name: "first-tx-not-coinbase", Stage: "sanity", Need: always, Apply: func(bb *blockBuilder) {
		bb.txs[0].TxIn[0].PreviousOutPoint.Index = 0
	}},
	{Name: "second-coinbase", Stage: "sanity", Need: always, Apply: func(bb *blockBuilder) {
		cb := wire.NewMsgTx(1)
		cb.AddTxIn(&wire.TxIn{PreviousOutPoint: *wire.NewOutPoint(&chainhash.Hash{}, wire.MaxPrevOutIndex),
			SignatureScript: coinbaseScript(bb.b, 99), Sequence: wire.MaxTxInSequenceNum})
		cb.AddTxOut(&wire.TxOut{Value: 0, PkScript: opTrue})
		bb.txs = append(bb.txs, cb)
	}},
	{Name: "duplicate-transaction", Stage: "sanity", // CVE-2012-2459 shape: same merkle root as the honest block
		Need:  func(bb *blockBuilder) bool { return len(bb.txs) >= 3 && len(bb.txs)%2 == 1 },
		Apply: func(bb *blockBuilder) { bb.txs = append(bb.txs, bb.txs[len(bb.txs)-1]) }},
	{Name: "tx-without-outputs", Stage: "sanity", Need: hasSpendable, Apply: func(bb *blockBuilder) {
		cd, _ := bb.freeCoin(func(c Coin) bool { return anyCoin(c) && bb.spendable(c) })
		tx := bb.newSpend(cd, 0)
		tx.TxOut = nil
		bb.txs = append(bb.txs, tx)
	}},
	{Name: "tx-negative-output", Stage: "sanity", Need: hasSpendable, Apply: func(bb *blockBuilder) {
		cd, _ := bb.freeCoin(func(c Coin) bool { return anyCoin(c) && bb.spendable(c) })
		tx := bb.newSpend(cd, 0)
		tx.TxOut[0].Value = -1
		bb.txs = append(bb.txs, tx)
	}},
	{Name: "tx-output-above-max-money", Stage: "sanity", Need: hasSpendable,
		Apply: func(bb *blockBuilder) {
			cd, _ := bb.freeCoin(func(c Coin) bool { return anyCoin(c) && bb.spendable(c) })
			tx := bb.newSpend(cd, 0)
			tx.TxOut[0].Value = 21000000*100000000 + 1
			bb.txs = append(bb.txs, tx)
		}},
	{Name: "tx-duplicate-inputs", Stage: "sanity", Need: hasSpendable, Apply: func(bb *blockBuilder) {
		cd, _ := bb.freeCoin(func(c Coin) bool { return anyCoin(c) && bb.spendable(c) })
		tx := bb.newSpend(cd, 0)
		tx.AddTxIn(&wire.TxIn{PreviousOutPoint: cd.op, Sequence: wire.MaxTxInSequenceNum})
		bb.txs = append(bb.txs, tx)
	}},
	{Name: "coinbase-script-too-short", Stage: "sanity", Need: always,
		Apply:    func(bb *blockBuilder) { bb.txs[0].TxIn[0].SignatureScript = []byte{byte(bb.b)} },
		EdgeNeed: func(bb *blockBuilder) bool { return bb.height < bb.f.Params.BIP0034Height }, // two bytes cannot carry the height
		Edge:     func(bb *blockBuilder) { bb.txs[0].TxIn[0].SignatureScript = []byte{byte(bb.b), 0x51} }},
	{Name: "coinbase-script-too-long", Stage: "sanity", Need: always,
		Apply: func(bb *blockBuilder) {
			s := bb.f.cbScript(bb.height, bb.b, 1)
			bb.txs[0].TxIn[0].SignatureScript = append(s, manyOps(txscript.OP_NOP, 101-len(s))...)
		},
		EdgeNeed: always,
		Edge: func(bb *blockBuilder) {
			s := bb.f.cbScript(bb.height, bb.b, 1)
			bb.txs[0].TxIn[0].SignatureScript = append(s, manyOps(txscript.OP_NOP, 100-len(s))...)
		}},
	{Name: "non-coinbase-null-input", Stage: "sanity", Need: hasSpendable, Apply: func(bb *blockBuilder) {
		tx := bb.newSpend(bb.generic(), 0)
		tx.AddTxIn(nullInput())
		bb.txs = append(bb.txs, tx)
	}},
	{Name: "tx-total-output-above-max-money", Stage: "sanity", Need: hasSpendable, Apply: func(bb *blockBuilder) {
		tx := bb.newSpend(bb.generic(), 0)
		tx.TxOut[0].Value = 21000000*100000000/2 + 1
		tx.AddTxOut(&wire.TxOut{Value: 21000000*100000000/2 + 1, PkScript: opTrue})
		bb.txs = append(bb.txs, tx)
	}},
	{Name: "block-too-big", Stage: "sanity", Need: always,
		Apply:    func(bb *blockBuilder) { bb.sizeTo = 1000001 },
		EdgeNeed: always,
		Edge:     func(bb *blockBuilder) { bb.sizeTo = 1000000 }},
	{Name: "too-many-sigops", Stage: "sanity", Need: always, // six of the operations sit in the coinbase signature script, the rest in an output
		Apply: func(bb *blockBuilder) {
			bb.txs[0].TxIn[0].SignatureScript = append(bb.txs[0].TxIn[0].SignatureScript, manyOps(txscript.OP_CHECKSIG, 6)...)
			bb.txs[0].AddTxOut(&wire.TxOut{Value: 0, PkScript: manyOps(txscript.OP_CHECKSIG, 20001-6)})
		},
		EdgeNeed: func(bb *blockBuilder) bool { return len(bb.txs) == 1 },
		Edge: func(bb *blockBuilder) {
			bb.txs[0].TxIn[0].SignatureScript = append(bb.txs[0].TxIn[0].SignatureScript, manyOps(txscript.OP_CHECKSIG, 6)...)
			bb.txs[0].AddTxOut(&wire.TxOut{Value: 0, PkScript: manyOps(txscript.OP_CHECKSIG, 20000-6)})
		}},

	// ---- context: checks against the parent chain before the block is stored
	{Name: "time-not-after-median-time-past", Stage: "context", Need: always,
		Apply: func(bb *blockBuilder) {
			bb.hdr.Timestamp = bb.f.mtp(bb.p)
			bb.hdr.Bits = hardBits
		},
		EdgeNeed: func(bb *blockBuilder) bool { return bb.f.Sc.Work[bb.b] == 2 },
		Edge:     func(bb *blockBuilder) { bb.hdr.Timestamp = bb.f.mtp(bb.p).Add(time.Second) }},
	{Name: "unexpected-difficulty", Stage: "context", Need: always, Apply: func(bb *blockBuilder) {
		if bb.hdr.Bits == hardBits {
			bb.hdr.Bits = easyBits
		} else {
			bb.hdr.Bits = hardBits
		}
	}},
	{Name: "block-version-too-old", Stage: "context",
		Need:     func(bb *blockBuilder) bool { return bb.requiredVersion() >= 2 },
		Apply:    func(bb *blockBuilder) { bb.hdr.Version = bb.requiredVersion() - 1 },
		EdgeNeed: func(bb *blockBuilder) bool { return bb.requiredVersion() >= 2 },
		Edge:     func(bb *blockBuilder) { bb.hdr.Version = bb.requiredVersion() }},
	{Name: "unfinalized-transaction", Stage: "bcontext", Need: hasSpendable,
		Apply: func(bb *blockBuilder) {
			cd, _ := bb.freeCoin(func(c Coin) bool { return anyCoin(c) && bb.spendable(c) })
			tx := bb.newSpend(cd, 0)
			tx.LockTime = uint32(bb.height) // final only when lock time < block height
			tx.TxIn[0].Sequence = 0
			bb.txs = append(bb.txs, tx)
		},
		EdgeNeed: func(bb *blockBuilder) bool { return hasSpendable(bb) && bb.isLeaf },
		Edge: func(bb *blockBuilder) {
			cd, _ := bb.freeCoin(func(c Coin) bool { return anyCoin(c) && bb.spendable(c) })
			tx := bb.newSpend(cd, 0)
			tx.LockTime = uint32(bb.height) - 1
			tx.TxIn[0].Sequence = wire.MaxTxInSequenceNum - 1 // lock time enforced, BIP68 disabled for this input
			bb.txs = append(bb.txs, tx)
			delete(bb.mine, cd.op)
			h := tx.TxHash()
			bb.mine[wire.OutPoint{Hash: h}] = Coin{tx.TxOut[0].Value, tx.TxOut[0].PkScript, false, bb.height}
			bb.f.Universe[wire.OutPoint{Hash: h}] = true
		}},
	{Name: "unexpected-witness", Stage: "bcontext", Need: always, Apply: func(bb *blockBuilder) {
		// witness data in a block whose coinbase carries no witness commitment
		bb.noCommit = true
		bb.txs[0].TxIn[0].Witness = wire.TxWitness{make([]byte, 32)}
	}},
	{Name: "bad-witness-commitment", Stage: "bcontext", Need: always, Apply: func(bb *blockBuilder) {
		bb.noCommit = true
		bb.txs[0].TxIn[0].Witness = wire.TxWitness{make([]byte, 32)}
		script := append([]byte{txscript.OP_RETURN, txscript.OP_DATA_36, 0xaa, 0x21, 0xa9, 0xed}, make([]byte, 32)...)
		bb.txs[0].AddTxOut(&wire.TxOut{Value: 0, PkScript: script})
	}},

	{Name: "witness-commitment-not-last", Stage: "bcontext", Need: always, // BIP141: of several commitment-shaped outputs the last one counts
		Apply:    func(bb *blockBuilder) { bb.decoy = "after" },
		EdgeNeed: always,
		Edge:     func(bb *blockBuilder) { bb.decoy = "before" }},
	{Name: "bad-coinbase-height", Stage: "bcontext",
		Need: func(bb *blockBuilder) bool { return bb.height >= bb.f.Params.BIP0034Height },
		Apply: func(bb *blockBuilder) {
			bb.txs[0].TxIn[0].SignatureScript = append(heightPush(int64(bb.height)+1), coinbaseScript(bb.b, 0)...)
		}},
	{Name: "coinbase-witness-nonce-bad", Stage: "bcontext",
		Need: func(bb *blockBuilder) bool { return bb.hasSpecial("p2wshdrop", 0) },
		Apply: func(bb *blockBuilder) {
			bb.addValid(bb.spendWitnessDrop(1))
			bb.cbNonce = make([]byte, 31)
		}},
	{Name: "block-weight-too-big", Stage: "bcontext",
		Need: func(bb *blockBuilder) bool { return bb.hasSpecial("p2wshdrop", 0) },
		Apply: func(bb *blockBuilder) {
			bb.weightTx = bb.spendWitnessDrop(0)
			bb.addValid(bb.weightTx)
			bb.weightTo = 4000001
		},
		EdgeNeed: func(bb *blockBuilder) bool { return bb.hasSpecial("p2wshdrop", 0) },
		Edge: func(bb *blockBuilder) {
			bb.weightTx = bb.spendWitnessDrop(0)
			bb.addValid(bb.weightTx)
			bb.weightTo = 4000000
		}},

	// ---- connect: checks made when the block is connected / verified for a reorganisation
	{Name: "coinbase-pays-too-much", Stage: "connect", Need: always, Apply: func(bb *blockBuilder) { bb.cbDelta = 1 }},
	{Name: "missing-input", Stage: "connect", Need: always, Apply: func(bb *blockBuilder) {
		tx := bb.newSpend(cand{wire.OutPoint{Hash: chainhash.Hash{0x77, byte(bb.b)}, Index: 0}, Coin{Amount: 1000}}, 0)
		bb.txs = append(bb.txs, tx)
	}},
	{Name: "double-spend-in-block", Stage: "connect", Need: hasSpendable, Apply: func(bb *blockBuilder) {
		cd, _ := bb.freeCoin(func(c Coin) bool { return anyCoin(c) && bb.spendable(c) })
		t1 := bb.newSpend(cd, 0)
		bb.txs = append(bb.txs, t1)
		t2 := bb.newSpend(cd, 0)
		bb.txs = append(bb.txs, t2)
	}},
	{Name: "immature-coinbase-spend", Stage: "connect",
		Need: func(bb *blockBuilder) bool {
			_, ok := bb.freeCoin(func(c Coin) bool { return c.Coinbase && !bb.spendable(c) })
			return ok
		},
		Apply: func(bb *blockBuilder) {
			cd, _ := bb.freeCoin(func(c Coin) bool { return c.Coinbase && !bb.spendable(c) })
			bb.txs = append(bb.txs, bb.newSpend(cd, 0))
		}},
	{Name: "outputs-exceed-inputs", Stage: "connect", Need: hasSpendable, Apply: func(bb *blockBuilder) {
		cd, _ := bb.freeCoin(func(c Coin) bool { return anyCoin(c) && bb.spendable(c) })
		bb.txs = append(bb.txs, bb.newSpend(cd, -1))
	}},
	{Name: "script-evaluates-false", Stage: "connect",
		Need: func(bb *blockBuilder) bool {
			_, ok := bb.freeCoin(func(c Coin) bool { return len(c.PkScript) == 1 && c.PkScript[0] == txscript.OP_0 })
			return ok
		},
		Apply: func(bb *blockBuilder) {
			cd, _ := bb.freeCoin(func(c Coin) bool { return len(c.PkScript) == 1 && c.PkScript[0] == txscript.OP_0 })
			bb.txs = append(bb.txs, bb.newSpend(cd, 0))
		}},
	{Name: "bip30-overwrites-unspent-coinbase", Stage: "connect",
		Need: func(bb *blockBuilder) bool {
			_, ok := bb.freeCoin(func(c Coin) bool { return c.Coinbase && c.Amount == subsidy })
			return ok && bb.f.Params.BIP0034Height > bb.height && bb.fees == 0
		},
		Apply: func(bb *blockBuilder) {
			cd, _ := bb.freeCoin(func(c Coin) bool { return c.Coinbase && c.Amount == subsidy })
			// the coinbase whose first output is cd: find it among the ancestors
			for a := bb.p; a != 0; a = bb.f.Sc.Parent[a] {
				if len(bb.f.Blocks[a].MsgBlock().Transactions) == 0 {
					continue
				}
				acb := bb.f.Blocks[a].MsgBlock().Transactions[0]
				if acb.TxHash() == cd.op.Hash && len(acb.TxOut) == 1 {
					bb.txs[0].TxIn[0].SignatureScript = acb.TxIn[0].SignatureScript
					return
				}
			}
			bb.cbDelta = 1 // no such ancestor after all: fall back to a different connect-stage violation
		}},
	{Name: "sequence-lock-not-met", Stage: "connect",
		Need: func(bb *blockBuilder) bool {
			_, ok := bb.freeCoin(func(c Coin) bool { return anyCoin(c) && bb.spendable(c) && c.Height == bb.height-1 })
			return ok
		},
		Apply: func(bb *blockBuilder) {
			cd, _ := bb.freeCoin(func(c Coin) bool { return anyCoin(c) && bb.spendable(c) && c.Height == bb.height-1 })
			tx := bb.newSpend(cd, 0)
			tx.Version = 2
			tx.LockTime = 0
			tx.TxIn[0].Sequence = 2 // BIP68: two confirmations needed, the input has one
			bb.txs = append(bb.txs, tx)
		},
		EdgeNeed: func(bb *blockBuilder) bool {
			_, ok := bb.freeCoin(func(c Coin) bool { return anyCoin(c) && bb.spendable(c) && c.Height == bb.height-1 })
			return ok
		},
		Edge: func(bb *blockBuilder) {
			cd, _ := bb.freeCoin(func(c Coin) bool { return anyCoin(c) && bb.spendable(c) && c.Height == bb.height-1 })
			tx := bb.newSpend(cd, 0)
			tx.Version = 2
			tx.LockTime = 0
			tx.TxIn[0].Sequence = 1 // one confirmation needed: exactly met
			bb.txs = append(bb.txs, tx)
			delete(bb.mine, cd.op)
			h := tx.TxHash()
			bb.mine[wire.OutPoint{Hash: h}] = Coin{tx.TxOut[0].Value, tx.TxOut[0].PkScript, false, bb.height}
			bb.f.Universe[wire.OutPoint{Hash: h}] = true
		}},
	{Name: "sequence-time-lock-not-met", Stage: "connect",
		Need: func(bb *blockBuilder) bool { _, _, ok := bb.timeLockCoin(); return ok },
		Apply: func(bb *blockBuilder) {
			cd, d, _ := bb.timeLockCoin()
			tx := bb.newSpend(cd, 0)
			tx.Version = 2
			tx.LockTime = 0
			// BIP68 time lock in units of 512 s, measured from the median time past of the block BEFORE the
			// input's block to the median time past of the PARENT of the spending block (distance d): one unit too many
			tx.TxIn[0].Sequence = wire.SequenceLockTimeIsSeconds | uint32(d/512+1)
			bb.txs = append(bb.txs, tx)
		},
		EdgeNeed: func(bb *blockBuilder) bool { _, d, ok := bb.timeLockCoin(); return ok && d >= 512 },
		Edge: func(bb *blockBuilder) {
			cd, d, _ := bb.timeLockCoin()
			tx := bb.newSpend(cd, 0)
			tx.Version = 2
			tx.LockTime = 0
			tx.TxIn[0].Sequence = wire.SequenceLockTimeIsSeconds | uint32(d/512) // exactly met
			bb.txs = append(bb.txs, tx)
			delete(bb.mine, cd.op)
			h := tx.TxHash()
			bb.mine[wire.OutPoint{Hash: h}] = Coin{tx.TxOut[0].Value, tx.TxOut[0].PkScript, false, bb.height}
			bb.f.Universe[wire.OutPoint{Hash: h}] = true
		}},
	{Name: "too-many-sigops-p2sh", Stage: "connect",
		Need: func(bb *blockBuilder) bool { return bb.hasSpecial("p2shsigops", 0) },
		Apply: func(bb *blockBuilder) {
			// 19990 legacy operations pass the context-free count; the redeem script's 11 are only seen with the spent output
			bb.txs[0].AddTxOut(&wire.TxOut{Value: 0, PkScript: manyOps(txscript.OP_CHECKSIG, 20001-p2shSigops)})
			bb.addValid(bb.spendKind("p2shsigops", 0, push(redeemSigops), nil))
		},
		EdgeNeed: func(bb *blockBuilder) bool { return bb.hasSpecial("p2shsigops", 0) },
		Edge: func(bb *blockBuilder) {
			bb.txs[0].AddTxOut(&wire.TxOut{Value: 0, PkScript: manyOps(txscript.OP_CHECKSIG, 20000-p2shSigops)})
			bb.addValid(bb.spendKind("p2shsigops", 0, push(redeemSigops), nil))
		}},
	{Name: "p2sh-redeem-script-false", Stage: "connect",
		Need:  func(bb *blockBuilder) bool { return bb.hasSpecial("p2shfalse", 0) },
		Apply: func(bb *blockBuilder) { bb.addValid(bb.spendKind("p2shfalse", 0, push(redeemFalse), nil)) }},
	{Name: "non-der-signature", Stage: "connect", // BIP66 in force: the malformed signature fails the script instead of counting as a failed check
		Need: func(bb *blockBuilder) bool {
			return bb.hasSpecial("nonder", 0) && bb.height >= bb.f.Params.BIP0066Height
		},
		Apply: func(bb *blockBuilder) { bb.addValid(bb.spendKind("nonder", 0, nil, nil)) },
		EdgeNeed: func(bb *blockBuilder) bool {
			return bb.hasSpecial("nonder", 0) && bb.height < bb.f.Params.BIP0066Height
		},
		Edge: func(bb *blockBuilder) { bb.addValid(bb.spendKind("nonder", 0, nil, nil)) }},
	{Name: "cltv-not-met", Stage: "connect", // BIP65 in force: required lock time 2, the transaction has 1
		Need: func(bb *blockBuilder) bool {
			return bb.hasSpecial("cltv", 0) && bb.height >= bb.f.Params.BIP0065Height
		},
		Apply: func(bb *blockBuilder) {
			tx := bb.spendKind("cltv", 0, nil, nil)
			tx.LockTime, tx.TxIn[0].Sequence = 1, 0
			bb.lead(tx)
			bb.addValid(tx)
		},
		EdgeNeed: func(bb *blockBuilder) bool { return bb.hasSpecial("cltv", 0) },
		Edge: func(bb *blockBuilder) {
			tx := bb.spendKind("cltv", 0, nil, nil)
			tx.LockTime, tx.TxIn[0].Sequence = 1, 0 // not in force: OP_NOP2
			if bb.height >= bb.f.Params.BIP0065Height {
				tx.LockTime = 2 // in force: exactly met
			}
			bb.lead(tx) // input 0 is final, the executing input is not: OP_CHECKLOCKTIMEVERIFY looks at its own input
			bb.addValid(tx)
		}},
	{Name: "csv-not-met", Stage: "connect", // the script requires a relative lock of 2, the input's sequence says 1
		Need: func(bb *blockBuilder) bool { return bb.hasSpecial("csv", 1) },
		Apply: func(bb *blockBuilder) {
			tx := bb.spendKind("csv", 1, nil, nil)
			tx.Version, tx.LockTime, tx.TxIn[0].Sequence = 2, 0, 1
			bb.lead(tx)
			bb.addValid(tx)
		},
		EdgeNeed: func(bb *blockBuilder) bool { return bb.hasSpecial("csv", 2) },
		Edge: func(bb *blockBuilder) {
			tx := bb.spendKind("csv", 2, nil, nil)
			tx.Version, tx.LockTime, tx.TxIn[0].Sequence = 2, 0, 2
			bb.lead(tx) // input 0 carries the disable flag, the executing input the lock: OP_CHECKSEQUENCEVERIFY looks at its own input
			bb.addValid(tx)
		}},
	{Name: "multisig-dummy-not-null", Stage: "connect", // NULLDUMMY comes with segwit
		Need: func(bb *blockBuilder) bool { return bb.hasSpecial("nulldummy", 0) },
		Apply: func(bb *blockBuilder) {
			bb.addValid(bb.spendKind("nulldummy", 0, []byte{txscript.OP_1, txscript.OP_0}, nil))
		},
		EdgeNeed: func(bb *blockBuilder) bool { return bb.hasSpecial("nulldummy", 0) },
		Edge: func(bb *blockBuilder) {
			bb.addValid(bb.spendKind("nulldummy", 0, []byte{txscript.OP_0, txscript.OP_0}, nil))
		}},
	{Name: "witness-script-false", Stage: "connect",
		Need:  func(bb *blockBuilder) bool { return bb.hasSpecial("p2wshfalse", 0) },
		Apply: func(bb *blockBuilder) { bb.addValid(bb.spendKind("p2wshfalse", 0, nil, wire.TxWitness{wsFalse})) }},
	{Name: "witness-program-mismatch", Stage: "connect",
		Need: func(bb *blockBuilder) bool { return bb.hasSpecial("p2wshdrop", 0) },
		Apply: func(bb *blockBuilder) {
			bb.addValid(bb.spendKind("p2wshdrop", 0, nil, wire.TxWitness{{}, {txscript.OP_1}}))
		},
		EdgeNeed: func(bb *blockBuilder) bool { return bb.hasSpecial("p2wshdrop", 0) },
		Edge:     func(bb *blockBuilder) { bb.addValid(bb.spendWitnessDrop(1 + bb.b%500)) }},
	{Name: "taproot-uncommitted-script-path", Stage: "connect", // BIP341: a revealed leaf counts only if the control block commits to the output key
		Need: func(bb *blockBuilder) bool { return bb.hasSpecial("p2tr", 0) },
		Apply: func(bb *blockBuilder) {
			// the leaf is a lone OP_SUCCESS80: it would succeed unconditionally IF it were committed to
			bb.addValid(bb.spendKind("p2tr", 0, nil, wire.TxWitness{{0x50}, append([]byte{0xc0}, genX...)}))
		}},
	{Name: "witness-checksig-undecodable-key", Stage: "connect", // only the valid side exists: an undecodable key is a FAILED check (false), not an error
		Need:     func(bb *blockBuilder) bool { return false },
		Apply:    func(bb *blockBuilder) {},
		EdgeNeed: func(bb *blockBuilder) bool { return bb.hasSpecial("p2wshbadkey", 0) },
		Edge: func(bb *blockBuilder) {
			bb.addValid(bb.spendKind("p2wshbadkey", 0, nil, wire.TxWitness{derOneOne, wsBadKey}))
		}},
	{Name: "taproot-bad-signature", Stage: "connect",
		Need: func(bb *blockBuilder) bool { return bb.hasSpecial("p2tr", 0) },
		Apply: func(bb *blockBuilder) {
			bb.addValid(bb.spendKind("p2tr", 0, nil, wire.TxWitness{bytes.Repeat([]byte{1}, 64)}))
		}},
}

// spendKind builds a transaction spending the first available coin of a special kind.
func (bb *blockBuilder) spendKind(kind string, minAge int32, sigScript []byte, wit wire.TxWitness) *wire.MsgTx {
	cd, _ := bb.special(kind, minAge)
	tx := bb.newSpend(cd, 0)
	tx.TxIn[0].SignatureScript = sigScript
	tx.TxIn[0].Witness = wit
	return tx
}

// lead puts an ordinary, final input in front of the special one (when a
// generic coin is free): rules that read "the executing input" then differ
// from rules that read input 0.  It returns the index of the special input.
func (bb *blockBuilder) lead(tx *wire.MsgTx) int {
	cd, ok := bb.freeCoin(func(c Coin) bool { return anyCoin(c) && bb.spendable(c) })
	if !ok {
		return 0
	}
	in := &wire.TxIn{PreviousOutPoint: cd.op, Sequence: wire.MaxTxInSequenceNum}
	tx.TxIn = append([]*wire.TxIn{in}, tx.TxIn...)
	tx.TxOut[0].Value += cd.c.Amount
	return 1
}

// spendWitnessDrop spends a pay-to-witness-script-hash coin whose script drops
// one item: the item's length is free (0..520 bytes).
func (bb *blockBuilder) spendWitnessDrop(itemLen int) *wire.MsgTx {
	return bb.spendKind("p2wshdrop", 0, nil, wire.TxWitness{make([]byte, itemLen), wsDrop})
}

// defaultRule is used when the catalogue is off: one fixed rule per stage.
var defaultRule = map[string]string{"sanity": "bad-merkle-root", "context": "time-not-after-median-time-past", "bcontext": "unexpected-witness", "connect": "coinbase-pays-too-much"}

func ruleByName(n string) *Rule {
	for i := range Catalogue {
		if Catalogue[i].Name == n {
			return &Catalogue[i]
		}
	}
	return nil
}

func (f *Factory) pickRule(bb *blockBuilder, stage string) *Rule {
	if !f.Catalogue {
		return ruleByName(defaultRule[stage])
	}
	if r := ruleByName(f.ForceRule[bb.b]); r != nil && r.Stage == stage && r.Need(bb) && !(f.HeaderMode && r.HeaderVisible) {
		return r
	}
	var ok []*Rule
	for i := range Catalogue {
		r := &Catalogue[i]
		if r.Stage == stage && r.Need(bb) && !(f.HeaderMode && r.HeaderVisible) {
			ok = append(ok, r)
		}
	}
	return ok[f.rng.Intn(len(ok))]
}

func (f *Factory) pickEdge(bb *blockBuilder) *Rule {
	var ok []*Rule
	for i := range Catalogue {
		r := &Catalogue[i]
		if r.Edge != nil && r.EdgeNeed(bb) {
			ok = append(ok, r)
		}
	}
	if len(ok) == 0 {
		return nil
	}
	return ok[f.rng.Intn(len(ok))]
}

// CheckCatalogue model-checks Consensus.tla and compares its rule table with
// the factory's (names, stages, boundary pairs).
func CheckCatalogue(ctx *vrun.Ctx) error {
	res, err := tlc.Run(tlc.Opts{SpecDir: ctx.SpecDir("chain"), Module: "Consensus", CfgText: "INIT Init\nNEXT Next\nINVARIANT WellFormed\n",
		Workers: 1, Timeout: 5 * time.Minute, DumpGraph: true, Scratch: ctx.Scratch, HeapGB: 2})
	if err != nil {
		return err
	}
	if !res.OK || len(res.Graph.Init) != 1 {
		return fmt.Errorf("Consensus.tla: catalogue not well formed")
	}
	spec := map[string][2]string{}
	for _, r := range res.Graph.Init[0].State["cat"].Set() {
		e := "noedge"
		if r.F("edge").Bool() {
			e = "edge"
		}
		spec[r.F("name").Str()] = [2]string{r.F("stage").Str(), e}
	}
	for i := range Catalogue {
		r := &Catalogue[i]
		e := "noedge"
		if r.Edge != nil {
			e = "edge"
		}
		s, ok := spec[r.Name]
		if !ok || s[0] != r.Stage || s[1] != e {
			return fmt.Errorf("rule %q: factory says (%s,%s), Consensus.tla says %v", r.Name, r.Stage, e, s)
		}
		delete(spec, r.Name)
	}
	if len(spec) != 0 {
		return fmt.Errorf("Consensus.tla lists rules the factory does not realise: %v", spec)
	}
	ctx.AddModel(res.Distinct, res.Generated)
	ctx.SetExtra("catalogue_rules", int64(len(Catalogue)))
	return nil
}

// branchTimes returns the timestamps of the real chain from the real genesis
// block up to abstract block b (index = real height).
func (f *Factory) branchTimes(b int) []int64 {
	ts := []int64{f.Params.GenesisBlock.Header.Timestamp.Unix()}
	for _, pb := range f.Pre {
		ts = append(ts, pb.MsgBlock().Header.Timestamp.Unix())
	}
	path := f.Sc.Path(b)
	for _, x := range path {
		if x == 0 {
			if len(f.Pre) == 0 {
				continue // abstract block 0 is the real genesis, already listed
			}
			continue // abstract block 0 is the last preamble block, already listed
		}
		ts = append(ts, f.Blocks[x].MsgBlock().Header.Timestamp.Unix())
	}
	return ts
}

func medianAt(ts []int64, k int) int64 {
	lo := k - 10
	if lo < 0 {
		lo = 0
	}
	w := append([]int64(nil), ts[lo:k+1]...)
	for i := range w {
		for j := i + 1; j < len(w); j++ {
			if w[j] < w[i] {
				w[i], w[j] = w[j], w[i]
			}
		}
	}
	return w[len(w)/2]
}

// timeLockCoin picks a spendable coin and returns the distance in seconds
// between the median time past of the block before the coin's block and the
// median time past of the parent of the block under construction.
func (bb *blockBuilder) timeLockCoin() (cand, int64, bool) {
	cd, ok := bb.freeCoin(func(c Coin) bool { return anyCoin(c) && bb.spendable(c) && c.Height >= 1 })
	if !ok {
		return cd, 0, false
	}
	ts := bb.f.branchTimes(bb.p)
	parentH := int(bb.height) - 1
	if parentH >= len(ts) || int(cd.c.Height)-1 < 0 {
		return cd, 0, false
	}
	d := medianAt(ts, parentH) - medianAt(ts, int(cd.c.Height)-1)
	if d < 0 {
		return cd, 0, false
	}
	return cd, d, true
}
