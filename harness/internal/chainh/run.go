package chainh

import (
	"os"
	"time"

	"verif/harness/internal/vrun"
)

const allFlaws = `{"sanity","context","bcontext","connect"}`

// Run is the entry point for the chain family.
func Run(ctx *vrun.Ctx, prop string) error {
	ctx.Ev.Coverage.Rule = "TLC enumerates every behaviour of Chain.tla for the listed constants (all BFS-canonical trees, work and flaw assignments, every interleaving of block/header deliveries, flushes, invalidate/reconsider); covering paths of the dumped state graph are replayed into a real blockchain.BlockChain on ffldb; a case is one distinct spec transition exercised on the real code"
	ctx.Assume("TLC/SANY; Go toolchain; goleveldb; the block factory's flaw realisations (bad merkle root / timestamp = median time past / coinbase pays one satoshi too much) and its abstract<->concrete id map")
	var models []ModelCfg
	switch prop {
	case "C02":
		models = []ModelCfg{
			{Name: "deliver3", N: 3, Works: "{1,2}", Flaws: allFlaws, Graph: true},
			{Name: "manual3", N: 3, Works: "{1,2}", Flaws: `{"connect"}`, Manual: 2, Graph: true, MaxPaths: 2500},
			{Name: "restart3", N: 3, Works: "{1}", Flaws: `{"connect"}`, Manual: 2, Restart: 1, Dups: true, Graph: true, MaxPaths: 2500},
			{Name: "deliver4", N: 4, Works: "{1}", Flaws: `{"connect"}`, Graph: true, MaxPaths: 1500},
			{Name: "hdrmanual3", N: 3, Works: "{1}", Flaws: `{}`, Headers: true, Manual: 1, Graph: true, MaxPaths: 2000},
			{Name: "manual3x3", N: 3, Works: "{1}", Flaws: `{}`, Manual: 3, Graph: true, MaxPaths: 2000},
		}
		if ctx.Thorough {
			models = []ModelCfg{
				{Name: "deliver3", N: 3, Works: "{1,2}", Flaws: allFlaws, Dups: true, Graph: true},
				{Name: "manual3", N: 3, Works: "{1,2}", Flaws: allFlaws, Manual: 2, Graph: true},
				{Name: "deliver4", N: 4, Works: "{1,2}", Flaws: allFlaws, Graph: true, MaxPaths: 150000},
				{Name: "manual4", N: 4, Works: "{1,2}", Flaws: `{"connect"}`, Manual: 2, Graph: true, MaxPaths: 100000},
				{Name: "deliver5", N: 5, Works: "{1,2}", Flaws: `{"connect"}`},
				{Name: "hdrmanual3", N: 3, Works: "{1,2}", Flaws: `{"connect"}`, Headers: true, Manual: 2, Graph: true, MaxPaths: 100000},
				{Name: "manual4x3", N: 4, Works: "{1}", Flaws: `{}`, Manual: 3, Graph: true, MaxPaths: 100000},
				{Name: "restart3", N: 3, Works: "{1,2}", Flaws: `{"connect"}`, Manual: 2, Restart: 2, Graph: true, MaxPaths: 100000},
				{Name: "restart4", N: 4, Works: "{1}", Flaws: `{"connect"}`, Manual: 1, Restart: 1, Graph: true, MaxPaths: 60000},
			}
		}
	case "C01":
		models = []ModelCfg{
			{Name: "deliver3", N: 3, Works: "{1,2}", Flaws: allFlaws, Graph: true, MaxPaths: 1600, Catalogue: true},
			{Name: "deliver4", N: 4, Works: "{1}", Flaws: allFlaws, Graph: true, MaxPaths: 1200, Catalogue: true},
			{Name: "hdrfirst3", N: 3, Works: "{1}", Flaws: `{"sanity","bcontext","connect"}`, Headers: true, Graph: true, MaxPaths: 1500, Catalogue: true},
			{Name: "deliver3b", N: 3, Works: "{1}", Flaws: allFlaws, Graph: true, MaxPaths: 1200, Catalogue: true, BIP34: true},
		}
		if ctx.Thorough {
			models = []ModelCfg{
				{Name: "deliver3", N: 3, Works: "{1,2}", Flaws: allFlaws, Dups: true, Graph: true, Catalogue: true},
				{Name: "deliver4", N: 4, Works: "{1,2}", Flaws: allFlaws, Graph: true, MaxPaths: 200000, Catalogue: true},
				{Name: "deliver5", N: 5, Works: "{1}", Flaws: allFlaws},
				{Name: "hdrfirst3", N: 3, Works: "{1,2}", Flaws: allFlaws, Headers: true, Graph: true, MaxPaths: 150000, Catalogue: true},
				{Name: "deliver3b", N: 3, Works: "{1,2}", Flaws: allFlaws, Graph: true, Catalogue: true, BIP34: true},
				{Name: "hdrfirst3b", N: 3, Works: "{1}", Flaws: allFlaws, Headers: true, Graph: true, MaxPaths: 60000, Catalogue: true, BIP34: true},
			}
		}
	case "C03":
		models = []ModelCfg{
			{Name: "flush3", N: 3, Works: "{1,2}", Flaws: `{"connect"}`, Flush: true, Graph: true, MaxPaths: 2500},
			{Name: "deliver4", N: 4, Works: "{1}", Flaws: `{}`, Graph: true, MaxPaths: 1500},
			{Name: "manual3", N: 3, Works: "{1}", Flaws: `{}`, Manual: 2, Flush: true, Graph: true, MaxPaths: 1500},
			{Name: "restart3", N: 3, Works: "{1}", Flaws: `{}`, Flush: true, Restart: 2, Graph: true, MaxPaths: 1500},
		}
		if ctx.Thorough {
			models = []ModelCfg{
				{Name: "flush3", N: 3, Works: "{1,2}", Flaws: `{"connect"}`, Flush: true, Graph: true},
				{Name: "deliver4", N: 4, Works: "{1,2}", Flaws: `{"connect"}`, Graph: true, MaxPaths: 150000},
				{Name: "manual3", N: 3, Works: "{1,2}", Flaws: `{}`, Manual: 2, Flush: true, Graph: true, MaxPaths: 100000},
				{Name: "flush4", N: 4, Works: "{1}", Flaws: `{}`, Flush: true, Graph: true, MaxPaths: 100000},
				{Name: "restart3", N: 3, Works: "{1,2}", Flaws: `{"connect"}`, Flush: true, Manual: 1, Restart: 2, Graph: true, MaxPaths: 60000},
				{Name: "restart4", N: 4, Works: "{1}", Flaws: `{}`, Restart: 2, Graph: true, MaxPaths: 40000},
			}
		}
	case "C04":
		models = []ModelCfg{
			{Name: "crash3", N: 3, Works: "{1,2}", Flaws: `{"connect"}`, Flush: true, Graph: true, MaxPaths: 250, Crash: true},
			{Name: "crash4", N: 4, Works: "{1}", Flaws: `{}`, Graph: true, MaxPaths: 120, Crash: true, Nested: true},
			{Name: "crash3prune", N: 3, Works: "{1}", Flaws: `{}`, Flush: true, Graph: true, MaxPaths: 80, Crash: true, Prune: true},
		}
		if ctx.Thorough {
			models = []ModelCfg{
				{Name: "crash3", N: 3, Works: "{1,2}", Flaws: `{"connect"}`, Flush: true, Graph: true, MaxPaths: 2000, Crash: true, Nested: true},
				{Name: "crash4", N: 4, Works: "{1,2}", Flaws: `{"connect"}`, Graph: true, MaxPaths: 1500, Crash: true, Nested: true},
				{Name: "crash4f", N: 4, Works: "{1}", Flaws: `{}`, Flush: true, Graph: true, MaxPaths: 1000, Crash: true},
				{Name: "crash3prune", N: 3, Works: "{1,2}", Flaws: `{"connect"}`, Flush: true, Graph: true, MaxPaths: 600, Crash: true, Prune: true},
				{Name: "crash4prune", N: 4, Works: "{1}", Flaws: `{}`, Graph: true, MaxPaths: 400, Crash: true, Nested: true, Prune: true},
			}
		}
	case "C17":
		models = []ModelCfg{
			{Name: "headers3", N: 3, Works: "{1}", Flaws: `{"context","connect"}`, Headers: true, Graph: true, MaxPaths: 2500},
			{Name: "hdrmanual3", N: 3, Works: "{1}", Flaws: `{}`, Headers: true, Manual: 1, Graph: true, MaxPaths: 2000},
		}
		if ctx.Thorough {
			models = []ModelCfg{
				{Name: "headers3", N: 3, Works: "{1,2}", Flaws: allFlaws, Headers: true, Graph: true, MaxPaths: 60000},
				{Name: "headers3m", N: 3, Works: "{1}", Flaws: `{"connect"}`, Headers: true, Manual: 1, Graph: true, MaxPaths: 40000},
				{Name: "headers4", N: 4, Works: "{1}", Flaws: `{"connect"}`, Headers: true, Graph: true, MaxPaths: 50000},
			}
		}
	}
	indDone := make(chan error, 1)
	if prop == "C03" {
		// the flag protocol as an inductive invariant (Apalache), alongside everything else
		go func() { indDone <- RunUtxoInductive(ctx) }()
	} else {
		indDone <- nil
	}
	if prop == "C03" {
		// the cache-flag protocol itself: UtxoCache.tla replayed on a linear chain with re-creatable coinbases
		if ctx.Thorough {
			if err := RunUtxo(ctx, 2, 5, 9, 0); err != nil {
				return err
			}
		} else if err := RunUtxo(ctx, 2, 4, 7, 2500); err != nil {
			return err
		}
	}
	if prop == "C17" {
		qcs := []QueryCfg{
			{Name: "small3", N: 3, Small: true, Kinds: allKinds},
			{Name: "tall22", N: 26, H: 22, F: 9, L: 4, Kinds: allKinds},
		}
		maxGroups := 0
		if ctx.Thorough {
			qcs = []QueryCfg{
				{Name: "small4", N: 4, Small: true, Kinds: allKinds},
				{Name: "tall22", N: 26, H: 22, F: 9, L: 4, Kinds: allKinds},
				{Name: "tall35", N: 40, H: 35, F: 20, L: 5, Kinds: allKinds},
				{Name: "tall13", N: 25, H: 13, F: 0, L: 12, Kinds: allKinds},
				{Name: "small5", N: 5, Small: true, Kinds: `{"locator","interval","h2h","fork"}`},
			}
		}
		for _, qc := range qcs {
			if err := RunQueries(ctx, qc, maxGroups); err != nil {
				return err
			}
		}
	}
	if prop == "C04" {
		n := 3
		if ctx.Thorough {
			n = 4
		}
		if err := RunChainStore(ctx, n); err != nil {
			return err
		}
	}
	if prop == "C02" {
		pat := "TestFullBlocks|TestInvalidateBlock|TestReconsiderBlock|TestChainTips|TestProcessBlockHeader|TestHaveBlock|TestNotifications"
		if ctx.Thorough {
			pat = ""
		}
		if err := RunRepoTraces(ctx, pat); err != nil {
			return err
		}
	}
	if prop == "C01" {
		if err := CheckCatalogue(ctx); err != nil {
			return err
		}
	}
	if os.Getenv("VERIF_SKIP_MODELS") != "" { // development aid: only the auxiliary specs of the property
		return <-indDone
	}
	secondCrashes, secondCrashesPruned = 1, 4
	if ctx.Thorough {
		secondCrashes, secondCrashesPruned = 1, 6
	}
	if !ctx.Thorough {
		Prefetch(ctx, models, 3, 25*time.Minute)
	}
	for _, m := range models {
		if err := RunModel(ctx, prop, m, 25*time.Minute); err != nil {
			return err
		}
	}
	return <-indDone
}
