package chainh

import (
	"bytes"
	"crypto/sha256"
	"encoding/hex"

	"github.com/btcsuite/btcd/address/v2"
	"github.com/btcsuite/btcd/chainhash/v2"
	"github.com/btcsuite/btcd/txscript/v2"
	"github.com/btcsuite/btcd/wire/v2"
)

// Special coin kinds: outputs the preamble creates so that the catalogue can
// realise the rules that depend on which script-verification behaviour is in
// force at a height (P2SH, BIP66, BIP65, CSV, segwit incl. NULLDUMMY, taproot)
// and the limits that count script contents (P2SH sigops, witness weight).
// The scripts need no private key: every one is decided by its own structure.

func mustHex(s string) []byte {
	b, err := hex.DecodeString(s)
	if err != nil {
		panic(err)
	}
	return b
}

var (
	genX          = mustHex("79be667ef9dcbbac55a06295ce870b07029bfcdb2dce28d959f2815b16f81798")
	genCompressed = append([]byte{0x02}, genX...)
	junkSig       = []byte{0x01, 0x02, 0x03, 0x01} // not DER; last byte = SIGHASH_ALL

	redeemFalse  = []byte{txscript.OP_0}
	redeemSigops = func() []byte { // evaluates true, counts 11 signature operations
		s := []byte{txscript.OP_0, txscript.OP_IF}
		s = append(s, manyOps(txscript.OP_CHECKSIG, p2shSigops)...)
		return append(s, txscript.OP_ENDIF, txscript.OP_1)
	}()
	wsFalse = []byte{txscript.OP_0}
	wsDrop  = []byte{txscript.OP_DROP, txscript.OP_1}
	// a compressed-format key that is no curve point (no point has x = 0): a failed
	// signature check, not an error, under consensus rules
	offCurveKey = append([]byte{0x02}, make([]byte, 32)...)
	wsBadKey    = cat(push(offCurveKey), []byte{txscript.OP_CHECKSIG, txscript.OP_NOT})
	derOneOne   = []byte{0x30, 0x06, 0x02, 0x01, 0x01, 0x02, 0x01, 0x01, 0x01} // r = s = 1, SIGHASH_ALL

	specialScripts = map[string][]byte{
		"p2shfalse":   p2sh(redeemFalse),
		"p2shsigops":  p2sh(redeemSigops),
		"cltv":        {txscript.OP_2, txscript.OP_CHECKLOCKTIMEVERIFY, txscript.OP_DROP, txscript.OP_1},
		"csv":         {txscript.OP_2, txscript.OP_CHECKSEQUENCEVERIFY, txscript.OP_DROP, txscript.OP_1},
		"nonder":      cat(push(junkSig), push(genCompressed), []byte{txscript.OP_CHECKSIG, txscript.OP_NOT}),
		"nulldummy":   cat([]byte{txscript.OP_1}, push(genCompressed), []byte{txscript.OP_1, txscript.OP_CHECKMULTISIG, txscript.OP_NOT}),
		"p2wshfalse":  p2wsh(wsFalse),
		"p2wshdrop":   p2wsh(wsDrop),
		"p2wshbadkey": p2wsh(wsBadKey),
		"p2tr":        cat([]byte{txscript.OP_1}, push(genX)),
	}
	specialOrder = []string{"p2shfalse", "p2shsigops", "cltv", "csv", "nonder", "nulldummy", "p2wshfalse", "p2wshdrop", "p2wshbadkey", "p2tr"}
)

const p2shSigops = 11

func cat(parts ...[]byte) []byte {
	var out []byte
	for _, p := range parts {
		out = append(out, p...)
	}
	return out
}

// push is a direct data push (1..75 bytes).
func push(d []byte) []byte {
	if len(d) == 0 || len(d) > 75 {
		panic("push: length")
	}
	return append([]byte{byte(len(d))}, d...)
}

func p2sh(redeem []byte) []byte {
	return cat([]byte{txscript.OP_HASH160}, push(address.Hash160(redeem)), []byte{txscript.OP_EQUAL})
}

func p2wsh(ws []byte) []byte {
	h := sha256.Sum256(ws)
	return cat([]byte{txscript.OP_0}, push(h[:]))
}

// kindOf names the special kind of an output script ("" for the generic
// outputs the factory spends at random).
func kindOf(pk []byte) string {
	for k, s := range specialScripts {
		if bytes.Equal(pk, s) {
			return k
		}
	}
	return ""
}

// unspendable mirrors the definition of a provably unspendable output (never
// part of the UTXO set): an OP_RETURN script or one above the script size limit.
func unspendable(pk []byte) bool {
	return len(pk) > 10000 || (len(pk) > 0 && pk[0] == txscript.OP_RETURN)
}

// special returns an unspent, spendable coin of the given kind that is at
// least minAge blocks deep.
func (bb *blockBuilder) special(kind string, minAge int32) (cand, bool) {
	return bb.freeCoin(func(c Coin) bool {
		return kindOf(c.PkScript) == kind && bb.spendable(c) && bb.height-c.Height >= minAge
	})
}

func (bb *blockBuilder) hasSpecial(kind string, minAge int32) bool {
	_, ok := bb.special(kind, minAge)
	return ok
}

// addValid appends a transaction every rule admits and keeps the builder's
// view of the UTXO set in step.
func (bb *blockBuilder) addValid(tx *wire.MsgTx) {
	bb.txs = append(bb.txs, tx)
	for _, in := range tx.TxIn {
		delete(bb.mine, in.PreviousOutPoint)
	}
	h := tx.TxHash()
	for i, o := range tx.TxOut {
		if unspendable(o.PkScript) {
			continue
		}
		bb.mine[wire.OutPoint{Hash: h, Index: uint32(i)}] = Coin{o.Value, o.PkScript, false, bb.height}
	}
}

// witnessCommitment computes the BIP141 commitment for the transactions (the
// coinbase counts as the zero hash) and the 32-byte reserved value.
func witnessCommitment(txs []*wire.MsgTx, nonce []byte) []byte {
	level := make([]chainhash.Hash, len(txs))
	for i, tx := range txs {
		if i > 0 {
			level[i] = tx.WitnessHash()
		}
	}
	for len(level) > 1 {
		if len(level)%2 == 1 {
			level = append(level, level[len(level)-1])
		}
		next := make([]chainhash.Hash, len(level)/2)
		for i := range next {
			next[i] = chainhash.DoubleHashH(append(append([]byte(nil), level[2*i][:]...), level[2*i+1][:]...))
		}
		level = next
	}
	return chainhash.DoubleHashB(append(append([]byte(nil), level[0][:]...), nonce...))
}

func commitmentScript(c []byte) []byte {
	return cat([]byte{txscript.OP_RETURN, txscript.OP_DATA_36, 0xaa, 0x21, 0xa9, 0xed}, c)
}

// padScript returns an output script of n bytes that contains no signature
// operation and is never executed (outputs above the script size limit are
// unspendable).
func padScript(n int) []byte { return manyOps(txscript.OP_NOP, n) }

// paddedTrue returns an anyone-can-spend script of exactly n bytes (3 <= n <=
// 525): a data push, OP_DROP, OP_1.  The lengths the factory uses sit around
// the boundaries of the stored-script encodings (special-cased script sizes,
// the one/two byte length prefix at 122/123 bytes, the push opcodes).
func paddedTrue(n int) []byte {
	var s []byte
	switch {
	case n-3 <= 75:
		s = append(s, byte(n-3))
		s = append(s, bytes.Repeat([]byte{0x42}, n-3)...)
	case n-4 <= 255:
		s = append(s, txscript.OP_PUSHDATA1, byte(n-4))
		s = append(s, bytes.Repeat([]byte{0x42}, n-4)...)
	default:
		s = append(s, txscript.OP_PUSHDATA2, byte((n-5)&0xff), byte((n-5)>>8))
		s = append(s, bytes.Repeat([]byte{0x42}, n-5)...)
	}
	return append(s, txscript.OP_DROP, txscript.OP_1)
}

var scriptLens = []int{4, 20, 21, 22, 23, 24, 25, 26, 33, 34, 35, 36, 65, 66, 67, 68, 78, 79, 80, 81, 119, 120, 121, 122, 123, 124, 125, 126, 127, 128, 129, 130,
	250, 251, 252, 253, 254, 255, 256, 257, 258, 259, 260, 261, 300, 524, 525}
