package chainh

import (
	"bufio"
	"bytes"
	"encoding/json"
	"fmt"
	"os"
	"os/exec"
	"path/filepath"
	"sort"
	"time"

	"verif/harness/internal/tlc"
	"verif/harness/internal/vrun"
)

type rawChainEv struct {
	Ev     string `json:"ev"`
	Seq    uint64 `json:"seq"`
	Index  string `json:"index"`
	Call   string `json:"call"`
	Tip    string `json:"tip"`
	Hash   string `json:"hash"`
	Parent string `json:"parent"`
	Work   string `json:"work"`
	Status uint8  `json:"status"`
	Height int32  `json:"height"`
}

type absChainEv struct {
	Ev      string `json:"ev"`
	ID      int    `json:"id"`
	Parent  int    `json:"parent"`
	Work    int    `json:"work"`
	Invalid bool   `json:"invalid"`
	HasData bool   `json:"hasdata"`
	src     *rawChainEv
}

func repoDir() string {
	if d := os.Getenv("VERIF_REPO"); d != "" {
		return d
	}
	return "/repo"
}

// RunRepoTraces runs tests of the repository's blockchain package with the
// verif trace hook on and validates every recorded chain instance against
// TraceChain.tla.
func RunRepoTraces(ctx *vrun.Ctx, runPattern string) error {
	tracePath := filepath.Join(ctx.Scratch, "chaintrace.raw.ndjson")
	args := []string{"test", "-tags", "verif", "-count=1", "-skip", "TestFlushOnPrune|TestInitConsistentState"}
	if runPattern != "" {
		args = append(args, "-run", runPattern)
	}
	args = append(args, "./blockchain/")
	cmd := exec.Command("go", args...)
	cmd.Dir = repoDir()
	cmd.Env = append(os.Environ(), "VERIF_CHAIN_TRACE="+tracePath, "GOFLAGS=-mod=mod", "GOPROXY=off")
	out, err := cmd.CombinedOutput()
	if err != nil {
		// failing repository tests are not this check's verdict; whatever was recorded is still validated
		ctx.Logf("repository tests under -tags verif did not pass (%v); validating the recorded part\n%s", err, tailOf(string(out), 600))
		ctx.AddExtra("repo_tests_failed_under_trace", 1)
	}
	f, err := os.Open(tracePath)
	if err != nil {
		return fmt.Errorf("no chain trace recorded by the repository tests: %v\n%s", err, tailOf(string(out), 800))
	}
	defer f.Close()
	byIndex := map[string][]*rawChainEv{}
	var order []string
	sc := bufio.NewScanner(f)
	sc.Buffer(make([]byte, 1<<20), 1<<26)
	for sc.Scan() {
		var e rawChainEv
		if json.Unmarshal(sc.Bytes(), &e) != nil {
			continue
		}
		if _, ok := byIndex[e.Index]; !ok {
			order = append(order, e.Index)
		}
		ev := e
		byIndex[e.Index] = append(byIndex[e.Index], &ev)
	}
	var all []*absChainEv
	chains, skipped := 0, 0
	for _, ix := range order {
		evs := byIndex[ix]
		// the root (id 0) is the tip named by the first quiescent marker
		root := ""
		for _, e := range evs {
			if e.Ev == "quiescent" {
				root = e.Tip
				break
			}
		}
		if root == "" {
			skipped++
			continue
		}
		works := map[string]bool{}
		for _, e := range evs {
			if e.Work != "" {
				works[e.Work] = true
			}
		}
		ws := make([]string, 0, len(works))
		for w := range works {
			ws = append(ws, w)
		}
		sort.Strings(ws)
		rank := map[string]int{}
		for i, w := range ws {
			rank[w] = i + 1
		}
		ids := map[string]int{root: 0}
		var abs []*absChainEv
		abs = append(abs, &absChainEv{Ev: "reset"})
		ok := true
		for _, e := range evs {
			switch e.Ev {
			case "stored":
				p, known := ids[e.Parent]
				if !known {
					ok = false
				}
				id, have := ids[e.Hash]
				if !have {
					id = len(ids)
					ids[e.Hash] = id
				}
				abs = append(abs, &absChainEv{Ev: "stored", ID: id, Parent: p, Work: rank[e.Work], Invalid: e.Status&12 != 0, HasData: true, src: e})
			case "status":
				id, have := ids[e.Hash]
				if !have || id == 0 {
					continue // header-only nodes and the root are not tracked
				}
				abs = append(abs, &absChainEv{Ev: "status", ID: id, Invalid: e.Status&12 != 0, HasData: e.Status&1 != 0, src: e})
			case "tip":
				id, have := ids[e.Hash]
				if !have {
					ok = false
				}
				abs = append(abs, &absChainEv{Ev: "tip", ID: id, src: e})
			case "quiescent":
				abs = append(abs, &absChainEv{Ev: "quiescent", src: e})
			}
			if !ok {
				break
			}
		}
		if !ok {
			skipped++ // a chain instance that was loaded with prior state: its tree is not fully known
			continue
		}
		chains++
		all = append(all, abs...)
	}
	if len(all) == 0 {
		return fmt.Errorf("repository tests produced no usable chain trace")
	}
	var buf bytes.Buffer
	enc := json.NewEncoder(&buf)
	for _, e := range all {
		enc.Encode(e)
	}
	cfg := "SPECIFICATION Spec\nINVARIANTS TipIsBest TipValid\nPROPERTY TipStepOK\nPOSTCONDITION Accepted\nCHECK_DEADLOCK FALSE\n"
	res, err := tlc.Run(tlc.Opts{SpecDir: ctx.SpecDir("chain"), Module: "TraceChain", CfgText: cfg, Workers: 1, Timeout: 20 * time.Minute,
		Files: map[string][]byte{"chaintrace.ndjson": buf.Bytes()}, Scratch: ctx.Scratch, HeapGB: 6, Deadlock: true})
	if err != nil {
		return err
	}
	ctx.Logf("repository-test traces: %d chain instances (%d skipped), %d events, TLC %d states in %.1fs ok=%v", chains, skipped, len(all), res.Distinct, res.WallS, res.OK)
	ctx.AddModel(res.Distinct, res.Generated)
	ctx.AddTraces(int64(chains))
	ctx.AddExtra("repo_test_chain_instances_validated", int64(chains))
	ctx.AddExtra("repo_test_events_validated", int64(len(all)))
	if !res.OK {
		pos := -1
		if n := len(res.ErrTrace); n > 0 {
			if lv, ok := res.ErrTrace[n-1].State["l"]; ok {
				pos = lv.Int() - 2 // l points at the next event; the state after consuming event l-1
			}
		}
		what := fmt.Sprintf("%s %s", res.ErrKind, res.ErrName)
		var ctxEvents []any
		if pos >= 0 && pos < len(all) {
			lo := pos - 6
			if lo < 0 {
				lo = 0
			}
			for _, e := range all[lo : pos+1] {
				if e.src != nil {
					ctxEvents = append(ctxEvents, e.src)
				}
			}
		}
		ctx.Violation("repo-test-trace:"+res.ErrName, fmt.Sprintf("an execution of the repository's own tests (run with -tags verif) is not a behaviour TraceChain.tla allows: %s at event %d: at a quiescent point a stored block the node does not consider invalid has more work than the active tip, or the tip moved by more than one block", what, pos),
			map[string]any{"violated": what, "event_index": pos, "last_events": ctxEvents})
	}
	return nil
}
