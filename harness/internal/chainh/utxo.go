package chainh

import (
	"context"
	"fmt"
	"math/rand"
	"os"
	"os/exec"
	"path/filepath"
	"strings"
	"sync"
	"time"

	"github.com/btcsuite/btcd/blockchain"
	"github.com/btcsuite/btcd/btcutil/v2"
	"github.com/btcsuite/btcd/chainhash/v2"
	"github.com/btcsuite/btcd/wire/v2"

	"verif/harness/internal/tla"
	"verif/harness/internal/tlc"
	"verif/harness/internal/vrun"
)

// linChain drives a real chain along a behaviour of UtxoCache.tla: a linear
// chain whose blocks are built on demand on the current tip.
type linChain struct {
	f     *Factory // only params / genesis are used
	node  *Node
	tip   *btcutil.Block
	chain []*btcutil.Block // active chain above genesis
	ctr   uint32
	k     int
}

func templateScript(c int) []byte { return coinbaseScript(100000+c, 0) }

func (l *linChain) coinOutPoint(c int) wire.OutPoint {
	cb := wire.NewMsgTx(1)
	cb.AddTxIn(&wire.TxIn{PreviousOutPoint: *wire.NewOutPoint(&chainhash.Hash{}, wire.MaxPrevOutIndex),
		SignatureScript: templateScript(c), Sequence: wire.MaxTxInSequenceNum})
	cb.AddTxOut(&wire.TxOut{Value: subsidy, PkScript: opTrue})
	return wire.OutPoint{Hash: cb.TxHash(), Index: 0}
}

func (l *linChain) connect(cbT int, spends []int) (string, error) {
	l.ctr++
	height := int32(len(l.chain) + 1)
	cb := wire.NewMsgTx(1)
	script := templateScript(cbT)
	if cbT == 0 {
		script = coinbaseScript(int(l.ctr), 7)
	}
	cb.AddTxIn(&wire.TxIn{PreviousOutPoint: *wire.NewOutPoint(&chainhash.Hash{}, wire.MaxPrevOutIndex),
		SignatureScript: script, Sequence: wire.MaxTxInSequenceNum})
	cb.AddTxOut(&wire.TxOut{Value: subsidy, PkScript: opTrue})
	txs := []*wire.MsgTx{cb}
	for _, s := range spends {
		tx := wire.NewMsgTx(1)
		tx.LockTime = l.ctr*16 + uint32(s)
		tx.AddTxIn(&wire.TxIn{PreviousOutPoint: l.coinOutPoint(s), Sequence: wire.MaxTxInSequenceNum})
		tx.AddTxOut(&wire.TxOut{Value: subsidy, PkScript: opTrue})
		txs = append(txs, tx)
	}
	blk := &wire.MsgBlock{Header: wire.BlockHeader{Version: 0x20000000, PrevBlock: *l.tip.Hash(), Bits: easyBits}}
	for _, tx := range txs {
		blk.AddTransaction(tx)
	}
	blk.Header.Timestamp = l.tip.MsgBlock().Header.Timestamp.Add(time.Duration(1201+l.ctr%7) * time.Second)
	ub := make([]*btcutil.Tx, len(txs))
	for i, tx := range txs {
		ub[i] = btcutil.NewTx(tx)
	}
	blk.Header.MerkleRoot = blockchain.CalcMerkleRoot(ub, false)
	solve(&blk.Header)
	b := btcutil.NewBlock(blk)
	isMain, isOrphan, err := l.node.Chain.ProcessBlock(btcutil.NewBlock(blk), blockchain.BFNone)
	if err != nil {
		return classify(err), err
	}
	if !isMain || isOrphan {
		return RSide, fmt.Errorf("block extending the tip was not connected (main=%v orphan=%v)", isMain, isOrphan)
	}
	b.SetHeight(height)
	l.chain = append(l.chain, b)
	l.tip = b
	return RMain, nil
}

func (l *linChain) disconnect() error {
	if err := l.node.Chain.InvalidateBlock(l.tip.Hash()); err != nil {
		return err
	}
	l.chain = l.chain[:len(l.chain)-1]
	if len(l.chain) == 0 {
		l.tip = l.f.Blocks[0]
	} else {
		l.tip = l.chain[len(l.chain)-1]
	}
	return nil
}

// foldAll folds the active chain naively over every outpoint it ever created.
func (l *linChain) foldAll() (map[wire.OutPoint]Coin, map[wire.OutPoint]bool) {
	set := map[wire.OutPoint]Coin{}
	all := map[wire.OutPoint]bool{}
	for i, b := range l.chain {
		for ti, tx := range b.MsgBlock().Transactions {
			if ti > 0 {
				for _, in := range tx.TxIn {
					delete(set, in.PreviousOutPoint)
				}
			}
			h := tx.TxHash()
			for oi, o := range tx.TxOut {
				op := wire.OutPoint{Hash: h, Index: uint32(oi)}
				set[op] = Coin{o.Value, o.PkScript, ti == 0, int32(i + 1)}
				all[op] = true
			}
		}
	}
	return set, all
}

// check compares the K coins with the spec's truth and every other outpoint
// with the naive fold.
func (l *linChain) check(truth tla.Value) string {
	snap := l.node.Chain.BestSnapshot()
	if snap.Hash != *l.tip.Hash() {
		return fmt.Sprintf("active tip %v at height %d, expected the block at height %d", snap.Hash, snap.Height, len(l.chain))
	}
	for c := 1; c <= l.k; c++ {
		want := truth.At(c).Int()
		e, err := l.node.Chain.FetchUtxoEntry(l.coinOutPoint(c))
		if err != nil {
			return fmt.Sprintf("FetchUtxoEntry(coin %d): %v", c, err)
		}
		have := 0
		if e != nil && !e.IsSpent() {
			have = int(e.BlockHeight())
			if !e.IsCoinBase() || e.Amount() != subsidy {
				return fmt.Sprintf("coin %d reported with coinbase=%v amount=%d", c, e.IsCoinBase(), e.Amount())
			}
		}
		if have != want {
			return fmt.Sprintf("coin %d (re-creatable coinbase output): node reports %s, fold of the active chain (spec truth) says %s",
				c, descH(have), descH(want))
		}
	}
	set, all := l.foldAll()
	for op := range all {
		e, err := l.node.Chain.FetchUtxoEntry(op)
		if err != nil {
			return fmt.Sprintf("FetchUtxoEntry(%v): %v", op, err)
		}
		w, ok := set[op]
		have := e != nil && !e.IsSpent()
		if have != ok || (ok && (e.BlockHeight() != w.Height || e.IsCoinBase() != w.Coinbase || e.Amount() != w.Amount)) {
			return fmt.Sprintf("outpoint %v: node reports unspent=%v, naive fold says %v (%+v)", op, have, ok, w)
		}
	}
	return ""
}

func descH(h int) string {
	if h == 0 {
		return "not in the UTXO set"
	}
	return fmt.Sprintf("unspent, created at height %d", h)
}

type utxoStep struct {
	Op     string `json:"op"`
	Cb     int    `json:"coinbase_template"`
	Spends []int  `json:"spends"`
	C      int    `json:"coin"`
	Truth  any    `json:"spec_truth_after"`
}

// replayUtxoPath steps one UtxoCache.tla path through a real chain.
func replayUtxoPath(ctx *vrun.Ctx, k int, path []tlc.Step, everyStep bool) error {
	if len(path) == 0 {
		return nil
	}
	init := path[0].From.State
	limit := init["limit"].Str()
	cache := uint64(1 << 20) // far above what these tiny chains need: never flushes on its own (the cache pre-allocates its map for the limit)
	if limit == "always" {
		cache = 0
	}
	sc := &Scenario{N: 0, Parent: []int{0}, Work: []int{0}, Flaw: []string{"none"}}
	f := NewFactory(sc, NetOpts{Maturity: 1, BIP34: false}, 1)
	node, err := NewNode(f, cache)
	if err != nil {
		return err
	}
	defer node.Close()
	l := &linChain{f: f, node: node, tip: f.Blocks[0], k: k}
	var rec []utxoStep
	replay := func() any { return map[string]any{"cache_limit": limit, "steps": rec} }
	for si, st := range path {
		s := st.To.State
		last := s["last"]
		op := last.F("op").Str()
		us := utxoStep{Op: op, Cb: last.F("cb").Int(), Spends: last.F("spends").Ints(), C: last.F("c").Int(), Truth: s["truth"].Go()}
		rec = append(rec, us)
		ctx.AddEval(1)
		ctx.Distinct(st.From.ID + ">" + st.To.ID)
		where := fmt.Sprintf("step %d (%s cb=%d spends=%v) with cache limit %q", si+1, op, us.Cb, us.Spends, limit)
		switch op {
		case "connect":
			if res, err := l.connect(us.Cb, us.Spends); err != nil {
				ctx.Violation("valid-block-refused:"+res, fmt.Sprintf("%s: a block that creates/spends exactly what the fold allows was not connected: %v", where, err), replay())
				return nil
			}
		case "disconnect":
			if err := l.disconnect(); err != nil {
				ctx.Violation("disconnect-error", fmt.Sprintf("%s: InvalidateBlock(tip) failed: %v", where, err), replay())
				return nil
			}
		case "flush":
			if err := node.Flush("required"); err != nil {
				ctx.Violation("flush-error", fmt.Sprintf("%s: %v", where, err), replay())
				return nil
			}
		case "read":
			c := us.C
			want := s["truth"].At(c).Int()
			e, err := node.Chain.FetchUtxoEntry(l.coinOutPoint(c))
			have := 0
			if err == nil && e != nil && !e.IsSpent() {
				have = int(e.BlockHeight())
			}
			if err != nil || have != want {
				ctx.Violation("utxo-not-fold:read", fmt.Sprintf("%s: coin %d: node reports %s (err %v), fold says %s", where, c, descH(have), err, descH(want)), replay())
				return nil
			}
		default:
			return fmt.Errorf("unknown op %q", op)
		}
		if everyStep || si == len(path)-1 {
			if d := l.check(s["truth"]); d != "" {
				ctx.Violation("utxo-not-fold:"+op, where+": "+d, replay())
				return nil
			}
		}
	}
	// persisted == in-memory: flush, reopen, compare
	final := path[len(path)-1].To.State
	if err := node.Flush("required"); err != nil {
		ctx.Violation("flush-error", fmt.Sprintf("final flush: %v", err), replay())
		return nil
	}
	if err := node.Reopen(); err != nil {
		ctx.Violation("reopen-error", fmt.Sprintf("reopen after flush: %v", err), replay())
		return nil
	}
	if d := l.check(final["truth"]); d != "" {
		ctx.Violation("utxo-not-fold:after-reopen", "after flush and reopen: "+d, replay())
		return nil
	}
	ctx.Sample(replay())
	return nil
}

// RunUtxo model-checks UtxoCache.tla and replays its state graph.
func RunUtxo(ctx *vrun.Ctx, k, d, maxops, maxPaths int) error {
	cfg := fmt.Sprintf("CONSTANTS\n K = %d\n D = %d\n MAXOPS = %d\nINIT Init\nNEXT Next\nINVARIANTS Coherent FlushedExact HistOK\n", k, d, maxops)
	res, err := tlc.Run(tlc.Opts{SpecDir: ctx.SpecDir("chain"), Module: "UtxoCache", CfgText: cfg, Workers: 6,
		Timeout: 20 * time.Minute, DumpGraph: true, Scratch: ctx.Scratch, HeapGB: 8})
	if err != nil {
		return err
	}
	ctx.Logf("UtxoCache K=%d D=%d ops=%d: %d distinct states, %d generated, %.1fs ok=%v", k, d, maxops, res.Distinct, res.Generated, res.WallS, res.OK)
	if !res.OK {
		return fmt.Errorf("TLC reports %s %s violated in UtxoCache.tla: the specification of the cache protocol is inconsistent\n%s", res.ErrKind, res.ErrName, tailOf(res.Output, 2000))
	}
	ctx.AddModel(res.Distinct, res.Generated)
	rng := ctx.Rand("utxo-paths")
	paths, covered := res.Graph.CoverPaths(rng, maxPaths, 0)
	ctx.Logf("UtxoCache graph: %d nodes %d edges; %d paths covering %d edges", len(res.Graph.Nodes), res.Graph.Edges, len(paths), covered)
	every := make([]bool, len(paths))
	r2 := rand.New(rand.NewSource(ctx.Seed))
	for i := range every {
		every[i] = r2.Intn(2) == 0
	}
	var firstErr error
	var mu sync.Mutex
	ctx.Parallel(len(paths), func(i int) {
		defer guardPanic(ctx, fmt.Sprintf("UtxoCache.tla path %d", i))
		if err := replayUtxoPath(ctx, k, paths[i], every[i]); err != nil {
			mu.Lock()
			if firstErr == nil {
				firstErr = err
			}
			mu.Unlock()
		}
		ctx.AddTraces(1)
	})
	return firstErr
}

// RunUtxoInductive discharges, with Apalache, that IndInv of UtxoCache.tla
// (per cache slot: what its flags promise about the disk and the truth) is an
// inductive invariant and implies the property -- for histories of any length,
// where TLC only explores bounded ones.  It is a statement about the
// specification (the design of the flag protocol); the binding to the code is
// the replay of the TLC graph.
func RunUtxoInductive(ctx *vrun.Ctx) error {
	if _, err := exec.LookPath("apalache-mc"); err != nil {
		ctx.SetExtra("apalache", "not installed: inductive check skipped")
		return nil
	}
	dir, err := os.MkdirTemp(ctx.Scratch, "apalache-")
	if err != nil {
		return err
	}
	defer os.RemoveAll(dir)
	for _, f := range []string{"UtxoCache.tla", "UtxoCacheInd.tla"} {
		b, err := os.ReadFile(filepath.Join(ctx.SpecDir("chain"), f))
		if err != nil {
			return err
		}
		if err := os.WriteFile(filepath.Join(dir, f), b, 0o644); err != nil {
			return err
		}
	}
	type job struct{ name, init, inv, length string }
	jobs := []job{
		{"base (Init => IndInv)", "Init", "IndInv", "0"},
		{"step (IndInv /\\ Next => IndInv')", "IndInit", "IndInv", "1"},
		{"IndInv => Coherent /\\ flush-exact", "IndInit", "Props", "0"},
	}
	errs := make([]error, len(jobs))
	var wg sync.WaitGroup
	for i, j := range jobs {
		wg.Add(1)
		go func(i int, j job) {
			defer wg.Done()
			out := filepath.Join(dir, fmt.Sprintf("out%d", i))
			cctx, cancel := context.WithTimeout(context.Background(), 20*time.Minute)
			defer cancel()
			cmd := exec.CommandContext(cctx, "apalache-mc", "check", "--out-dir="+out, "--cinit=ConstInit", "--init="+j.init, "--inv="+j.inv, "--length="+j.length, "UtxoCacheInd.tla")
			cmd.Dir = dir
			b, _ := cmd.CombinedOutput()
			s := string(b)
			switch {
			case strings.Contains(s, "The outcome is: NoError"):
				ctx.AddExtra("apalache_obligations_discharged", 1)
			case strings.Contains(s, "The outcome is: Error"):
				errs[i] = fmt.Errorf("Apalache: %s does not hold for UtxoCache.tla: the specification's inductive invariant is wrong (a statement about the spec, not about btcd)\n%s", j.name, tailOf(s, 1500))
			default:
				errs[i] = fmt.Errorf("Apalache did not finish %s: %s", j.name, tailOf(s, 800))
			}
		}(i, j)
	}
	wg.Wait()
	for _, e := range errs {
		if e != nil {
			return e
		}
	}
	ctx.Logf("UtxoCache IndInv: base, step and implication discharged by Apalache (K=3 coins, any history length)")
	return nil
}
