package connmgr

import "verif/harness/internal/vrun"

func RunX01(ctx *vrun.Ctx) error { return nil }
