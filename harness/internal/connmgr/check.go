package connmgr

import (
	"bytes"
	"encoding/json"
	"fmt"
	"math/rand"
	"os"
	"os/exec"
	"path/filepath"
	"regexp"
	"sort"
	"strings"
	"sync"
	"time"

	"verif/harness/internal/tla"
	"verif/harness/internal/tlc"
	"verif/harness/internal/vrun"
)

// Statements of ConnMgr.tla the specification of the unchanged code (Fix* =
// FALSE) does not satisfy.  TraceConnMgr reports them per trace in the set
// "bad"; each is a stable violation key.
var badKeys = map[string]string{
	"S2over":  "s2:more-than-target-automatic-requests-after-manual-request-died",
	"S1stale": "s1:state-established-after-disconnect-without-retry",
	"S4order": "s4:ondisconnection-before-onconnection",
	"S5late":  "s5:callback-after-wait-returned",
	"S4dup":   "s4:callback-twice-for-one-connection",
}

// ------------------------------------------------------------------------------------
// tiers

type mcRun struct {
	name      string
	scenarios string
	maxObj    int
	maxFails  int
	mfa       int
	disc, rem int
	trig      bool
	accept    int
	fix       bool     // Fix* = TRUE: the statements as asked for
	live      []string // temporal properties (LiveSpec)
	coverage  bool
	timeout   time.Duration
}

type tier struct {
	random   int
	late     int
	order    int
	replays  int
	batch    int
	drivers  int
	race     bool
	mc       []mcRun
	banDepth int
}

func tierFor(ctx *vrun.Ctx) tier {
	if ctx.Thorough {
		return tier{random: 1500, late: 24, order: 8, replays: 200, batch: 50, drivers: 6, race: true, banDepth: 5, mc: []mcRun{
			{name: "auto2-3", scenarios: "ScAuto2", maxObj: 3, maxFails: 1, mfa: 2, disc: 1, rem: 0, fix: true, timeout: 50 * time.Minute},
			{name: "trig", scenarios: "ScAuto1", maxObj: 2, maxFails: 1, mfa: 3, disc: 2, rem: 0, trig: true, fix: true, timeout: 30 * time.Minute},
			{name: "inbound", scenarios: "Inbound", maxObj: 1, maxFails: 0, mfa: 3, disc: 0, rem: 0, accept: 3, fix: true, timeout: 30 * time.Minute},
			{name: "perm", scenarios: "OnePerm", maxObj: 2, maxFails: 1, mfa: 3, disc: 1, rem: 0, fix: true, timeout: 30 * time.Minute},
			{name: "perm-asis", scenarios: "OnePerm", maxObj: 2, maxFails: 1, mfa: 3, disc: 1, rem: 0, timeout: 30 * time.Minute},
			{name: "auto1-3", scenarios: "ScAuto1", maxObj: 3, maxFails: 2, mfa: 2, disc: 1, rem: 0, fix: true, timeout: 30 * time.Minute},
			{name: "auto1", scenarios: "ScAuto1", maxObj: 2, maxFails: 1, mfa: 2, disc: 1, rem: 1, fix: true, timeout: 30 * time.Minute},
			{name: "auto1-asis", scenarios: "ScAuto1", maxObj: 2, maxFails: 1, mfa: 2, disc: 1, rem: 1, timeout: 30 * time.Minute},
			{name: "auto2", scenarios: "ScAuto2", maxObj: 2, maxFails: 1, mfa: 2, disc: 1, rem: 0, fix: true, timeout: 30 * time.Minute},
			{name: "manual", scenarios: "OneManual", maxObj: 2, maxFails: 1, mfa: 3, disc: 1, rem: 0, fix: true, timeout: 30 * time.Minute},
			{name: "manual-asis", scenarios: "OneManual", maxObj: 2, maxFails: 1, mfa: 3, disc: 1, rem: 0, timeout: 30 * time.Minute},
			{name: "nogna1", scenarios: "NoGna1", maxObj: 1, maxFails: 2, mfa: 3, disc: 1, rem: 1, fix: true, timeout: 30 * time.Minute},
			{name: "nogna2", scenarios: "NoGna2", maxObj: 2, maxFails: 1, mfa: 3, disc: 1, rem: 0, fix: true, timeout: 30 * time.Minute},
			{name: "live", scenarios: "ScLive", maxObj: 5, maxFails: 2, mfa: 2, disc: 1, rem: 0, fix: true, live: []string{"S2Converge"}, timeout: 40 * time.Minute},
			{name: "live-perm", scenarios: "ScLivePerm", maxObj: 4, maxFails: 1, mfa: 3, disc: 1, rem: 0, fix: true, live: []string{"S2Converge", "S3PermHeld"}, timeout: 40 * time.Minute},
		}}
	}
	return tier{random: 150, late: 8, order: 3, replays: 20, batch: 30, drivers: 4, banDepth: 4, mc: []mcRun{
		{name: "perm", scenarios: "OnePerm", maxObj: 2, maxFails: 1, mfa: 3, disc: 0, rem: 1, fix: true, timeout: 8 * time.Minute},
		{name: "permonly", scenarios: "PermOnly", maxObj: 1, maxFails: 1, mfa: 3, disc: 1, rem: 1, fix: true, timeout: 8 * time.Minute},
		{name: "auto1-disc", scenarios: "ScAuto1", maxObj: 2, maxFails: 1, mfa: 2, disc: 1, rem: 0, fix: true, timeout: 8 * time.Minute},
		{name: "auto1-rem", scenarios: "ScAuto1", maxObj: 2, maxFails: 1, mfa: 2, disc: 0, rem: 1, fix: true, timeout: 8 * time.Minute},
		{name: "auto1-asis", scenarios: "ScAuto1", maxObj: 2, maxFails: 1, mfa: 2, disc: 1, rem: 0, timeout: 8 * time.Minute},
		{name: "inbound", scenarios: "InboundQuick", maxObj: 1, maxFails: 0, mfa: 3, disc: 0, rem: 0, accept: 2, fix: true, timeout: 8 * time.Minute},
		{name: "live", scenarios: "ScLive1", maxObj: 3, maxFails: 1, mfa: 2, disc: 1, rem: 0, fix: true, live: []string{"S2Converge"}, timeout: 8 * time.Minute},
	}}
}

var invsAlways = []string{"TypeOK", "S1Ids", "S3Backoff", "S3OneDial", "S4Cancel", "S4Once", "S4Spawn", "S5Listeners", "S5Wait", "S5Census", "InboundLimit"}
var invsFixed = []string{"S1Agree", "S1Stale", "S2Bound", "S4Order", "S5Late"}
var actProps = []string{"S1Trans", "S1IdStable", "S2Replace", "S3Grow", "S3NoRetry", "S4NoReport"}

func (m mcRun) cfg() string {
	var sb strings.Builder
	spec := "Spec"
	if len(m.live) > 0 {
		spec = "LiveSpec"
	}
	fmt.Fprintf(&sb, "SPECIFICATION %s\nCONSTANTS\n  Scenarios <- %s\n  MaxObj = %d\n  MaxFails = %d\n  MaxFailedAttempts = %d\n  MaxDisc = %d\n  MaxRem = %d\n  AllowTrig = %s\n  MaxAccept = %d\n  Record = FALSE\n  FixAuto = %s\n  FixCb = %s\n  FixState = %s\n",
		spec, m.scenarios, m.maxObj, m.maxFails, m.mfa, m.disc, m.rem, tlaBool(m.trig), m.accept, tlaBool(m.fix), tlaBool(m.fix), tlaBool(m.fix))
	sb.WriteString("INVARIANTS\n")
	for _, i := range invsAlways {
		sb.WriteString("  " + i + "\n")
	}
	if m.fix {
		for _, i := range invsFixed {
			sb.WriteString("  " + i + "\n")
		}
	}
	sb.WriteString("PROPERTIES\n")
	if len(m.live) > 0 {
		for _, p := range m.live {
			sb.WriteString("  " + p + "\n")
		}
	} else if !m.coverage {
		for _, p := range actProps {
			sb.WriteString("  " + p + "\n")
		}
	}
	return sb.String()
}

var reCov = regexp.MustCompile(`(?m)^<(\w+) line \d+, col \d+ to line \d+, col \d+ of module ConnMgr(?: \([\d ]+\))?>: (\d+):(\d+)`)

func actionCounts(out string) map[string]int64 {
	if i := strings.LastIndex(out, "The coverage statistics at"); i >= 0 {
		out = out[i:]
	}
	m := map[string]int64{}
	for _, g := range reCov.FindAllStringSubmatch(out, -1) {
		var n int64
		fmt.Sscan(g[3], &n)
		m[g[1]] += n
	}
	return m
}

func tail(s string, n int) string {
	if len(s) > n {
		return s[len(s)-n:]
	}
	return s
}

func runMC(ctx *vrun.Ctx, t tier) error {
	var mu sync.Mutex
	var firstErr error
	par := 2
	if ctx.Thorough {
		par = 3
	}
	sem := make(chan struct{}, par)
	var wg sync.WaitGroup
	for _, m := range t.mc {
		wg.Add(1)
		sem <- struct{}{}
		go func(m mcRun) {
			defer wg.Done()
			defer func() { <-sem }()
			res, err := tlc.Run(tlc.Opts{SpecDir: ctx.SpecDir("connmgr"), Module: "MCConnMgr", CfgText: m.cfg(), Workers: 2,
				Timeout: m.timeout, Scratch: ctx.Scratch, Coverage: m.coverage, HeapGB: 5})
			mu.Lock()
			defer mu.Unlock()
			if err != nil {
				if firstErr == nil {
					firstErr = fmt.Errorf("TLC %s: %w", m.name, err)
				}
				return
			}
			if !res.OK {
				if firstErr == nil {
					firstErr = fmt.Errorf("TLC %s: the specification violates %s %s (a counterexample of the specification alone is not a verdict about btcd)\n%s",
						m.name, res.ErrKind, res.ErrName, tail(res.Output, 2500))
				}
				return
			}
			ctx.Logf("TLC %s (%s): %d distinct / %d generated states, depth %d, %.0fs", m.name, m.scenarios, res.Distinct, res.Generated, res.Depth, res.WallS)
			ctx.AddModel(res.Distinct, res.Generated)
			ctx.SetExtra("tlc_"+m.name, map[string]any{"distinct": res.Distinct, "generated": res.Generated, "depth": res.Depth, "wall_s": res.WallS})
			if m.coverage {
				var never []string
				for a, n := range actionCounts(res.Output) {
					if n == 0 {
						never = append(never, a)
					}
				}
				sort.Strings(never)
				ctx.SetExtra("actions_never_taken", never)
				if len(never) > 0 && firstErr == nil {
					firstErr = fmt.Errorf("vacuity audit: actions of ConnMgr.tla never taken: %v", never)
				}
				if len(actionCounts(res.Output)) < 20 && firstErr == nil {
					firstErr = fmt.Errorf("vacuity audit: coverage output not understood (%d actions)", len(actionCounts(res.Output)))
				}
			}
		}(m)
	}
	wg.Wait()
	return firstErr
}

// ------------------------------------------------------------------------------------
// scenarios

func capUS() int { return int(ProcessCap / time.Microsecond) }

func genScenarios(ctx *vrun.Ctx, t tier) []Scenario {
	rng := ctx.Rand("connmgr-scenarios")
	var scs []Scenario
	add := func(sc Scenario) {
		sc.ID = len(scs)
		sc.Cap = capUS()
		if sc.RU == 0 {
			sc.RU = 2000
		}
		if sc.Target == 0 {
			sc.Target = 1
		}
		scs = append(scs, sc)
	}
	// the recorded divergences, deterministically
	add(Scenario{Kind: "script", Seed: 1, Target: 1, GNA: true, Manual: []bool{false}, Script: []Act{
		{K: "gna"}, {K: "dialok", A: 101}, {K: "settle", A: 5}, {K: "connect"}, {K: "dialfail", A: 1}, {K: "gna"}, {K: "dialok", A: 102}, {K: "sleep", A: 2000}}})
	add(Scenario{Kind: "script", Seed: 2, Target: 1, GNA: true, Manual: []bool{false}, Script: []Act{
		{K: "gna"}, {K: "dialok", A: 101}, {K: "settle", A: 5}, {K: "connect"}, {K: "dialok", A: 1}, {K: "settle", A: 10}, {K: "disc", A: 2}, {K: "sleep", A: 2000}, {K: "poll", A: 1}}})
	// back-off up to the cap and beyond, Remove during the back-off
	add(Scenario{Kind: "script", Seed: 3, Target: 1, GNA: false, Manual: []bool{true}, RU: 2000, Script: []Act{
		{K: "connect"}, {K: "dialfail", A: 1}, {K: "dialfail", A: 1}, {K: "dialfail", A: 1}, {K: "dialfail", A: 1}, {K: "dialfail", A: 1}, {K: "dialok", A: 1},
		{K: "settle", A: 24}, {K: "disc", A: 1}, {K: "dialfail", A: 1}, {K: "settle", A: 36}, {K: "rem", A: 1}, {K: "sleep", A: 9000}, {K: "poll", A: 1}}})
	add(Scenario{Kind: "script", Seed: 4, Target: 1, GNA: false, Manual: []bool{true}, RU: 3000, Script: []Act{
		{K: "connect"}, {K: "dialfail", A: 1}, {K: "dialfail", A: 1}, {K: "dialfail", A: 1}, {K: "dialok", A: 1}, {K: "settle", A: 18}, {K: "rem", A: 1}, {K: "sleep", A: 4000}, {K: "poll", A: 1}}})
	nMax := 1
	if ctx.Thorough {
		nMax = 3
	}
	for i := 0; i < nMax; i++ {
		add(Scenario{Kind: "maxfail", Seed: int64(10 + i), Target: 1 + i%2, GNA: true, GnaErrs: 26 + i})
	}
	for i := 0; i < t.order; i++ {
		add(Scenario{Kind: "order", Seed: int64(20 + i), Target: 1, GNA: i%2 == 0, Manual: []bool{i%3 == 0}})
	}
	for i := 0; i < t.late; i++ {
		add(Scenario{Kind: "late", Seed: int64(40 + i), Target: 1, GNA: i%2 == 0, Manual: []bool{i%3 == 0}})
	}
	for i := 0; i < t.random; i++ {
		sc := Scenario{Kind: "random", Seed: rng.Int63()}
		sc.Target = []int{1, 1, 2, 2, 3}[rng.Intn(5)]
		sc.GNA = rng.Intn(7) != 0
		nm := []int{0, 0, 1, 1, 2, 3}[rng.Intn(6)]
		for k := 0; k < nm; k++ {
			sc.Manual = append(sc.Manual, rng.Intn(2) == 0)
		}
		sc.RU = []int{2000, 3000}[rng.Intn(2)]
		sc.NList = []int{0, 0, 0, 1, 2}[rng.Intn(5)]
		if sc.NList > 0 {
			sc.InLim = rng.Intn(3) != 0
			sc.InCap = rng.Intn(3)
		}
		sc.Steps = 8 + rng.Intn(18)
		sc.GnaErrs = rng.Intn(4)
		sc.DialErrs = rng.Intn(6)
		add(sc)
	}
	return scs
}

// replay direction: behaviours TLC generates from ConnMgr.tla (simulation
// mode, labels recorded) become driver scripts: the environment's choices in
// path order.
func genReplays(ctx *vrun.Ctx, t tier, firstID int) ([]Scenario, [][]string, error) {
	type shape struct {
		name   string
		target int
		gna    bool
		manual []bool
		nlist  int
		inlim  bool
		incap  int
	}
	shapes := []shape{
		{"ReplayA", 1, true, []bool{true}, 0, false, 0},
		{"ReplayB", 2, true, []bool{false}, 1, true, 1},
		{"ReplayC", 1, false, []bool{true, false}, 0, false, 0},
	}
	per := (t.replays + len(shapes) - 1) / len(shapes)
	type out struct {
		scs   []Scenario
		paths [][]string
		err   error
	}
	outs := make([]out, len(shapes))
	var wg sync.WaitGroup
	for si, sh := range shapes {
		wg.Add(1)
		go func(si int, sh shape) {
			defer wg.Done()
			cfg := fmt.Sprintf("SPECIFICATION Spec\nCONSTANTS\n  Scenarios <- %s\n  MaxObj = 6\n  MaxFails = 3\n  MaxFailedAttempts = 25\n  MaxDisc = 2\n  MaxRem = 1\n  AllowTrig = TRUE\n  MaxAccept = 2\n  Record = TRUE\n  FixAuto = FALSE\n  FixCb = FALSE\n  FixState = FALSE\n", sh.name)
			res, err := tlc.Run(tlc.Opts{SpecDir: ctx.SpecDir("connmgr"), Module: "MCConnMgr", CfgText: cfg,
				Sim: &tlc.Sim{Num: per, Depth: 70, Seed: ctx.Seed*131 + int64(si)}, Timeout: 10 * time.Minute, Scratch: ctx.Scratch, HeapGB: 3})
			if err != nil {
				outs[si].err = fmt.Errorf("TLC -simulate (replay behaviours): %w", err)
				return
			}
			for bi, beh := range res.Behaviours {
				sc := Scenario{Kind: "script", Seed: ctx.Seed*977 + int64(si*1000+bi), Target: sh.target, GNA: sh.gna, Manual: sh.manual,
					NList: sh.nlist, InLim: sh.inlim, InCap: sh.incap, RU: 2000, Cap: capUS()}
				var labels []string
				nobs := 0
				for _, st := range beh {
					ev := st.State["ev"]
					el := ev.Seq()
					if len(el) == 0 {
						continue
					}
					labels = append(labels, ev.String())
					k := el[0].Str()
					// wait until the run has produced as many events as the behaviour had before this choice
					switch k {
					case "connect", "dialok", "dialfail", "disc", "rem", "stop", "wait", "accept", "inclose":
						sc.Script = append(sc.Script, Act{K: "settle", A: nobs})
					}
					switch k {
					case "connect", "gna", "gnaerr", "stop", "wait":
						sc.Script = append(sc.Script, Act{K: k})
					case "dialok", "dialfail":
						sc.Script = append(sc.Script, Act{K: k, A: el[1].Int()})
					case "disc", "rem":
						sc.Script = append(sc.Script, Act{K: k, A: el[2].Int(), Trig: el[3].Bool()})
					case "accept":
						sc.Script = append(sc.Script, Act{K: k, A: el[1].Int()})
					case "inclose":
						sc.Script = append(sc.Script, Act{K: k, A: el[1].Int()})
					}
					nobs++
				}
				outs[si].scs = append(outs[si].scs, sc)
				outs[si].paths = append(outs[si].paths, labels)
			}
		}(si, sh)
	}
	wg.Wait()
	var scs []Scenario
	var paths [][]string
	for _, o := range outs {
		if o.err != nil {
			return nil, nil, o.err
		}
		for i := range o.scs {
			o.scs[i].ID = firstID + len(scs)
			scs = append(scs, o.scs[i])
			paths = append(paths, o.paths[i])
		}
	}
	return scs, paths, nil
}

// ------------------------------------------------------------------------------------
// driving

func buildDriver(ctx *vrun.Ctx, race bool) (string, bool, error) {
	if !race {
		exe, err := os.Executable()
		return exe, false, err
	}
	hdir := filepath.Join(ctx.VerifDir, "harness")
	args := []string{"build", "-tags", "verif", "-race"}
	repo := os.Getenv("VERIF_REPO")
	if repo != "" && repo != "/repo" {
		b, err := os.ReadFile(filepath.Join(hdir, "go.mod"))
		if err != nil {
			return "", false, err
		}
		mod := strings.ReplaceAll(string(b), "=> /repo", "=> "+repo)
		mf := filepath.Join(ctx.Scratch, "drv.go.mod")
		if err := os.WriteFile(mf, []byte(mod), 0o644); err != nil {
			return "", false, err
		}
		sum, err := os.ReadFile(filepath.Join(hdir, "go.sum"))
		if err != nil {
			return "", false, err
		}
		if err := os.WriteFile(filepath.Join(ctx.Scratch, "drv.go.sum"), sum, 0o644); err != nil {
			return "", false, err
		}
		args = append(args, "-modfile="+mf)
	}
	out := filepath.Join(ctx.Scratch, "connmgrdrv")
	args = append(args, "-o", out, "./cmd/connmgr")
	cmd := exec.Command("go", args...)
	cmd.Dir = hdir
	cmd.Env = append(os.Environ(), "GOFLAGS=-mod=mod", "GOPROXY=off")
	if b, err := cmd.CombinedOutput(); err != nil {
		ctx.Logf("race build failed, using the plain build: %v\n%s", err, tail(string(b), 1500))
		exe, err := os.Executable()
		return exe, false, err
	}
	return out, true, nil
}

type raceReport struct {
	Key  string
	Text string
}

var reFrame = regexp.MustCompile(`(?m)^  (\S+)\(\)$`)

func parseRaceLog(text string) (reports []raceReport, harnessOnly []string) {
	for _, blk := range strings.Split(text, "==================") {
		if !strings.Contains(blk, "WARNING: DATA RACE") {
			continue
		}
		paras := strings.Split(strings.TrimSpace(blk), "\n\n")
		var fns []string
		for i, p := range paras {
			if i >= 2 {
				break
			}
			fn := ""
			for _, m := range reFrame.FindAllStringSubmatch(p, -1) {
				if strings.Contains(m[1], "github.com/btcsuite/btcd/") {
					fn = strings.TrimPrefix(m[1], "github.com/btcsuite/btcd/")
					break
				}
			}
			fns = append(fns, fn)
		}
		sort.Strings(fns)
		key := strings.Join(fns, "|")
		if strings.Trim(key, "|") == "" {
			harnessOnly = append(harnessOnly, blk)
			continue
		}
		reports = append(reports, raceReport{Key: "race:" + key, Text: blk})
	}
	return
}

func drive(ctx *vrun.Ctx, t tier, scs []Scenario) ([]*Trace, []raceReport, error) {
	drv, race, err := buildDriver(ctx, t.race)
	if err != nil {
		return nil, nil, err
	}
	if t.race {
		if race {
			ctx.SetExtra("race_detector", "driver built with go build -race")
		} else {
			ctx.SetExtra("race_detector", "unavailable: plain build")
			ctx.Assume("go build -race was not available: data races were not looked for in this run")
		}
	}
	k := t.drivers
	if k > len(scs) {
		k = len(scs)
	}
	chunks := make([][]Scenario, k)
	for i, sc := range scs {
		chunks[i%k] = append(chunks[i%k], sc)
	}
	type res struct {
		traces []*Trace
		races  string
		err    error
	}
	results := make([]res, k)
	var wg sync.WaitGroup
	for i := range chunks {
		wg.Add(1)
		go func(i int) {
			defer wg.Done()
			in := filepath.Join(ctx.Scratch, fmt.Sprintf("scn.%d.json", i))
			outp := filepath.Join(ctx.Scratch, fmt.Sprintf("traces.%d.ndjson", i))
			b, _ := json.Marshal(chunks[i])
			if err := os.WriteFile(in, b, 0o644); err != nil {
				results[i].err = err
				return
			}
			cmd := exec.Command(drv, "--drive", in, outp)
			racelog := filepath.Join(ctx.Scratch, fmt.Sprintf("race.%d", i))
			cmd.Env = append(os.Environ(), "GORACE=log_path="+racelog+" halt_on_error=0 exitcode=0 history_size=3", "GOMAXPROCS=4")
			var stderr bytes.Buffer
			cmd.Stderr = &stderr
			cmd.Stdout = &stderr
			done := make(chan error, 1)
			if err := cmd.Start(); err != nil {
				results[i].err = err
				return
			}
			go func() { done <- cmd.Wait() }()
			select {
			case err := <-done:
				if err != nil {
					results[i].err = fmt.Errorf("driver %d: %v\n%s", i, err, tail(stderr.String(), 3000))
					return
				}
			case <-time.After(40 * time.Minute):
				cmd.Process.Kill()
				results[i].err = fmt.Errorf("driver %d timed out", i)
				return
			}
			trs, err := ReadTraces(outp)
			if err != nil {
				results[i].err = err
				return
			}
			results[i].traces = trs
			logs, _ := filepath.Glob(racelog + ".*")
			for _, l := range logs {
				b, _ := os.ReadFile(l)
				results[i].races += string(b)
			}
		}(i)
	}
	wg.Wait()
	var all []*Trace
	var reports []raceReport
	for i := range results {
		if results[i].err != nil {
			return nil, nil, results[i].err
		}
		all = append(all, results[i].traces...)
		rs, harnessOnly := parseRaceLog(results[i].races)
		if len(harnessOnly) > 0 {
			return nil, nil, fmt.Errorf("data race inside the harness itself:\n%s", tail(harnessOnly[0], 3000))
		}
		reports = append(reports, rs...)
	}
	sort.Slice(all, func(i, j int) bool { return all[i].Scn.ID < all[j].Scn.ID })
	if len(all) != len(scs) {
		return nil, nil, fmt.Errorf("drivers returned %d traces for %d scenarios", len(all), len(scs))
	}
	for _, tr := range all {
		if tr.Err != "" {
			return nil, nil, fmt.Errorf("driver failed on scenario %d (%s): %s", tr.Scn.ID, tr.Scn.Shape(), tr.Err)
		}
	}
	return all, reports, nil
}

// ------------------------------------------------------------------------------------
// trace validation

const traceCfgFmt = `SPECIFICATION TraceSpec
CONSTANTS
  Scenarios = {}
  MaxObj = 80
  MaxFails = 100000
  MaxFailedAttempts = 25
  MaxDisc = 100000
  MaxRem = 100000
  AllowTrig = TRUE
  MaxAccept = 100000
  Record = TRUE
  FixAuto = FALSE
  FixCb = FALSE
  FixState = FALSE
  Diag = %s
`

type verdict struct {
	Bad    []string
	Ids    int
	Objs   int
	States []string
}

func extractPrinted(out, tag string) []tla.Value {
	var vals []tla.Value
	re := regexp.MustCompile(`<<\s*"` + tag + `"`)
	pos := 0
	for {
		loc := re.FindStringIndex(out[pos:])
		if loc == nil {
			break
		}
		start := pos + loc[0]
		depth := 0
		end := -1
		inStr := false
		for j := start; j < len(out); j++ {
			c := out[j]
			if inStr {
				if c == '\\' {
					j++
				} else if c == '"' {
					inStr = false
				}
				continue
			}
			switch {
			case c == '"':
				inStr = true
			case c == '<' && j+1 < len(out) && out[j+1] == '<':
				depth++
				j++
			case c == '>' && j+1 < len(out) && out[j+1] == '>':
				depth--
				j++
				if depth == 0 {
					end = j + 1
				}
			}
			if end >= 0 {
				break
			}
		}
		if end < 0 {
			break
		}
		if v, err := tla.ParseValue(out[start:end]); err == nil {
			vals = append(vals, v)
		}
		pos = end
	}
	return vals
}

type batchResult struct {
	accepted  map[int]verdict
	states    int64
	generated int64
}

func validateBatch(ctx *vrun.Ctx, traces []*Trace, diag bool) (*batchResult, string, error) {
	res, err := tlc.Run(tlc.Opts{SpecDir: ctx.SpecDir("connmgr"), Module: "TraceConnMgr", CfgText: fmt.Sprintf(traceCfgFmt, tlaBool(diag)),
		Files: map[string][]byte{"TraceData.tla": []byte(TraceDataModule(traces))}, Workers: 1, DFS: !diag,
		Timeout: 20 * time.Minute, Scratch: ctx.Scratch, HeapGB: 3, KeepDir: os.Getenv("VERIF_CONNMGR_KEEP") != ""})
	if err != nil {
		return nil, "", fmt.Errorf("TLC TraceConnMgr: %w", err)
	}
	if !res.OK {
		return nil, "", fmt.Errorf("TLC TraceConnMgr failed: %s %s\n%s", res.ErrKind, res.ErrName, tail(res.Output, 3000))
	}
	br := &batchResult{accepted: map[int]verdict{}, states: res.Distinct, generated: res.Generated}
	for _, v := range extractPrinted(res.Output, "ACC") {
		el := v.Seq()
		if len(el) != 3 {
			continue
		}
		idx := el[1].Int() - 1
		if _, dup := br.accepted[idx]; dup {
			continue
		}
		vd := verdict{Ids: el[2].F("ids").Int(), Objs: el[2].F("objs").Int()}
		for _, b := range el[2].F("bad").Set() {
			vd.Bad = append(vd.Bad, b.Str())
		}
		sort.Strings(vd.Bad)
		for _, s := range el[2].F("states").Seq() {
			vd.States = append(vd.States, s.Str())
		}
		br.accepted[idx] = vd
	}
	return br, res.Output, nil
}

// stuckAt returns the number of events of the trace some explanation of the
// specification reaches (the event behind them is the first one nothing
// explains).
func stuckAt(ctx *vrun.Ctx, tr *Trace) (int, error) {
	_, out, err := validateBatch(ctx, []*Trace{tr}, true)
	if err != nil {
		return 0, err
	}
	max := 0
	for _, v := range extractPrinted(out, "PROG") {
		el := v.Seq()
		if len(el) == 3 && el[2].Int() > max {
			max = el[2].Int()
		}
	}
	return max, nil
}

func rejectKey(e Event) string {
	switch e.K {
	case "h":
		return "rejected:handler-" + e.S
	case "poll":
		return "rejected:state-" + e.S
	case "end":
		return "rejected:final-census"
	}
	return "rejected:" + e.K
}

func judge(ctx *vrun.Ctx, tr *Trace, v *verdict, stuck int) {
	if v == nil {
		var e Event
		if stuck < len(tr.Events) {
			e = tr.Events[stuck]
		}
		what := fmt.Sprintf("scenario %d (%s): the recorded execution of the real ConnManager is not a behaviour of ConnMgr.tla: no explanation for event %d %s after %s",
			tr.Scn.ID, tr.Scn.Shape(), stuck+1, e.TLA(), eventsString(tr.Events[max0(stuck-6):stuck]))
		if e.K == "end" && tr.Stacks != "" {
			what += "\ngoroutines left in the package:\n" + tail(tr.Stacks, 3000)
		}
		ctx.Violation(rejectKey(e), what, map[string]any{"scenario": tr.Scn, "events": tr.Events, "stuck_at": stuck + 1, "stacks": tr.Stacks})
		return
	}
	for _, b := range v.Bad {
		key, ok := badKeys[b]
		if !ok {
			key = "statement:" + b
		}
		ctx.AddExtra("observed_"+b, 1)
		ctx.Violation(key, fmt.Sprintf("scenario %d (%s): statement %s of ConnMgr.tla does not hold on this recorded execution: %s", tr.Scn.ID, tr.Scn.Shape(), b, eventsString(tr.Events)),
			map[string]any{"scenario": tr.Scn, "events": tr.Events, "statement": b})
	}
}

func max0(x int) int {
	if x < 0 {
		return 0
	}
	return x
}

func validateAll(ctx *vrun.Ctx, t tier, traces []*Trace) ([]*verdict, error) {
	type job struct{ lo, hi int }
	var jobs []job
	for lo := 0; lo < len(traces); lo += t.batch {
		hi := lo + t.batch
		if hi > len(traces) {
			hi = len(traces)
		}
		jobs = append(jobs, job{lo, hi})
	}
	verdicts := make([]*verdict, len(traces))
	stuck := make([]int, len(traces))
	var mu sync.Mutex
	var firstErr error
	rejected := 0
	const maxRejected = 4
	sem := make(chan struct{}, 4)
	var wg sync.WaitGroup
	for _, j := range jobs {
		wg.Add(1)
		sem <- struct{}{}
		go func(j job) {
			defer wg.Done()
			defer func() { <-sem }()
			lo := j.lo
			for lo < j.hi {
				mu.Lock()
				stop := rejected >= maxRejected || firstErr != nil
				mu.Unlock()
				if stop {
					for ; lo < j.hi; lo++ {
						stuck[lo] = -1
					}
					return
				}
				br, _, err := validateBatch(ctx, traces[lo:j.hi], false)
				if err != nil {
					mu.Lock()
					if firstErr == nil {
						firstErr = err
					}
					mu.Unlock()
					return
				}
				ctx.AddModel(br.states, br.generated)
				n := 0
				for n < j.hi-lo {
					v, ok := br.accepted[n]
					if !ok {
						break
					}
					vv := v
					verdicts[lo+n] = &vv
					n++
				}
				lo += n
				if lo < j.hi {
					k, err := stuckAt(ctx, traces[lo])
					if err == nil && k < len(traces[lo].Events) && traces[lo].Events[k].K == "quiet" {
						// The "quiet" observation (every goroutine of the package blocked in one
						// goroutine dump) is an optional hint that keeps the search small.  A trace
						// that is stuck exactly there is judged without these hints.
						cp := *traces[lo]
						cp.Events = nil
						for _, e := range traces[lo].Events {
							if e.K != "quiet" {
								cp.Events = append(cp.Events, e)
							}
						}
						var br2 *batchResult
						br2, _, err = validateBatch(ctx, []*Trace{&cp}, false)
						if err == nil {
							ctx.AddExtra("quiet_observations_retracted", 1)
							if v, ok := br2.accepted[0]; ok {
								vv := v
								verdicts[lo] = &vv
								lo++
								continue
							}
							*traces[lo] = cp
							k, err = stuckAt(ctx, traces[lo])
						}
					}
					if err != nil {
						mu.Lock()
						if firstErr == nil {
							firstErr = err
						}
						mu.Unlock()
						return
					}
					stuck[lo] = k
					lo++
					mu.Lock()
					rejected++
					mu.Unlock()
				}
			}
		}(j)
	}
	wg.Wait()
	if firstErr != nil {
		return nil, firstErr
	}
	accepted, skipped := 0, 0
	for i, tr := range traces {
		if verdicts[i] == nil && stuck[i] < 0 {
			skipped++
			continue
		}
		if verdicts[i] != nil {
			accepted++
		}
		judge(ctx, tr, verdicts[i], stuck[i])
		ctx.AddEval(int64(len(tr.Events)))
	}
	if skipped > 0 {
		ctx.Logf("%d traces not validated: %d traces were already rejected by the specification", skipped, rejected)
		ctx.SetExtra("traces_not_validated_after_rejections", skipped)
	}
	ctx.AddTraces(int64(len(traces) - skipped))
	ctx.SetExtra("traces_accepted_by_spec", accepted)
	return verdicts, nil
}

// negativeControls shows on every run that the binding is not vacuous: accepted
// traces are corrupted (a wrong back-off duration, a dropped OnConnection, a
// wrong final state, a goroutine too many in the census, a callback for a
// canceled request) and TLC must reject every corrupted copy.
func negativeControls(ctx *vrun.Ctx, traces []*Trace, verdicts []*verdict) error {
	clone := func(t *Trace) *Trace {
		c := *t
		c.Events = append([]Event(nil), t.Events...)
		return &c
	}
	var controls []*Trace
	var names []string
	have := map[string]bool{}
	for i, tr := range traces {
		if verdicts[i] == nil {
			continue
		}
		for k, e := range tr.Events {
			switch {
			case e.K == "backoff" && !have["backoff"]:
				c := clone(tr)
				c.Events[k].B += tr.Scn.RU
				controls, names = append(controls, c), append(names, "backoff")
				have["backoff"] = true
			case e.K == "onconn" && !have["onconn-dropped"]:
				c := clone(tr)
				c.Events = append(c.Events[:k:k], c.Events[k+1:]...)
				controls, names = append(controls, c), append(names, "onconn-dropped")
				have["onconn-dropped"] = true
			case e.K == "poll" && e.S == "established" && !have["state"]:
				c := clone(tr)
				c.Events[k].S = "pending"
				controls, names = append(controls, c), append(names, "state")
				have["state"] = true
			case e.K == "end" && !have["census"]:
				c := clone(tr)
				c.Events[k].A++
				controls, names = append(controls, c), append(names, "census")
				have["census"] = true
			case e.K == "h" && e.S == "ignored" && !have["canceled-reported"]:
				// the dial of a canceled request completed and was closed: pretend it was reported
				c := clone(tr)
				c.Events[k] = Event{K: "h", S: "connected", A: e.A}
				controls, names = append(controls, c), append(names, "canceled-reported")
				have["canceled-reported"] = true
			case e.K == "ondisc" && !have["ondisc-twice"]:
				c := clone(tr)
				c.Events = append(c.Events[:k+1:k+1], append([]Event{e}, c.Events[k+1:]...)...)
				controls, names = append(controls, c), append(names, "ondisc-twice")
				have["ondisc-twice"] = true
			}
		}
		if len(have) == 6 {
			break
		}
	}
	if len(controls) < 3 {
		return fmt.Errorf("negative controls: only %d accepted traces to corrupt", len(controls))
	}
	errs := make([]error, len(controls))
	var wg sync.WaitGroup
	sem := make(chan struct{}, 4)
	for i := range controls {
		wg.Add(1)
		sem <- struct{}{}
		go func(i int) {
			defer wg.Done()
			defer func() { <-sem }()
			br, _, err := validateBatch(ctx, controls[i:i+1], false)
			if err != nil {
				errs[i] = err
				return
			}
			if _, ok := br.accepted[0]; ok {
				errs[i] = fmt.Errorf("negative control %q: TraceConnMgr accepted a corrupted trace (%s): the binding is vacuous", names[i], eventsString(controls[i].Events))
			}
		}(i)
	}
	wg.Wait()
	for _, e := range errs {
		if e != nil {
			return e
		}
	}
	ctx.AddEval(int64(len(controls)))
	ctx.SetExtra("negative_controls_rejected", names)
	return nil
}

// observable labels of a recorded trace that a TLC behaviour also has
func obsLabels(tr *Trace) []string {
	var out []string
	for _, e := range tr.Events {
		if e.K == "poll" || e.K == "end" {
			continue
		}
		v, err := tla.ParseValue(e.TLA())
		if err != nil {
			out = append(out, e.TLA())
			continue
		}
		out = append(out, v.String())
	}
	return out
}

// RunX01 is the check.
func RunX01(ctx *vrun.Ctx) error {
	t := tierFor(ctx)
	ctx.Ev.Coverage.Rule = "ConnMgr.tla model-checked exhaustively for small constants (target <= 2, <= 3 requests, <= 2 failures, <= 1 Remove, <= 2 Disconnect, Stop, Wait; inbound: <= 2 listeners, limit 0/1, <= 3 connections) with S1-S5 as invariants / action properties and S2 convergence under fairness; seeded scenarios (target 1-3, 0-3 requests through Connect, 0-2 listeners with inbound limit, Dial/GetNewAddress failures, Disconnect/Remove/Stop/Wait at random points) and TLC-generated behaviours (simulation) drive a real ConnManager whose Dial blocks on gates; every recorded trace is validated against ConnMgr.tla by TLC (TraceConnMgr.tla). distinct = scenario shape x statements flagged x final states"
	ctx.Assume("RetryDuration is 2-3 ms and maxRetryDuration is lowered to 7 ms in the driver process (bound by name, no source change); timer firing is an unobserved step of the specification")
	ctx.Assume("the duration of an armed retry timer and the handler's decisions are observed through the package's debug log (UseLogger), all other events at the functions put into Config and at the calls of the public methods")
	ctx.Assume("the user calls Connect at most once per ConnReq")
	ctx.Assume("a 'quiet' observation (goroutine dump with every goroutine of the package blocked) is a search hint: a trace that is stuck at one is judged again without these observations")
	ctx.Assume("statement S6 (DynamicBanScore arithmetic) is not specified or checked by this engine yet")

	var mcErr, banErr error
	var wg sync.WaitGroup
	if only := os.Getenv("VERIF_CONNMGR_ONLY"); only != "" { // development switch
		switch only {
		case "mc":
			return runMC(ctx, t)
		case "ban":
			return runBanScore(ctx, t)
		case "traces":
			t.mc = nil
		}
	}
	wg.Add(2)
	go func() {
		defer wg.Done()
		mcErr = runMC(ctx, t)
	}()
	go func() {
		defer wg.Done()
		banErr = runBanScore(ctx, t)
	}()

	scs := genScenarios(ctx, t)
	reps, paths, err := genReplays(ctx, t, len(scs))
	if err != nil {
		wg.Wait()
		return err
	}
	nOwn := len(scs)
	scs = append(scs, reps...)
	ctx.Logf("%d scenarios (%d seeded, %d from TLC behaviours)", len(scs), nOwn, len(reps))
	traces, races, err := drive(ctx, t, scs)
	if err != nil {
		wg.Wait()
		return err
	}
	ctx.Logf("%d scenarios driven through the real ConnManager, %d race reports", len(traces), len(races))
	verdicts, err := validateAll(ctx, t, traces)
	if err != nil {
		wg.Wait()
		return err
	}
	if err := negativeControls(ctx, traces, verdicts); err != nil {
		wg.Wait()
		return err
	}
	for _, r := range races {
		ctx.Violation(r.Key, "data race reported by the race detector", map[string]any{"report": r.Text})
	}
	// replay direction: how many TLC behaviours the real manager followed event by event
	followed := 0
	for i := range reps {
		tr := traces[nOwn+i]
		got := obsLabels(tr)
		want := paths[i]
		ok := len(got) >= len(want)
		for k := 0; ok && k < len(want); k++ {
			if got[k] != want[k] {
				ok = false
			}
		}
		if ok {
			followed++
		}
	}
	ctx.SetExtra("tlc_behaviours_replayed", len(reps))
	ctx.SetExtra("tlc_behaviours_followed_event_by_event", followed)
	kinds := map[string]int{}
	evs := 0
	for i, tr := range traces {
		cls := ""
		if verdicts[i] != nil {
			cls = strings.Join(verdicts[i].Bad, ",") + "|" + strings.Join(verdicts[i].States, ",")
		}
		ctx.Distinct(tr.Scn.Shape() + "|" + cls)
		kinds[tr.Scn.Kind]++
		evs += len(tr.Events)
		if i%(len(traces)/4+1) == 0 {
			ctx.Sample(map[string]any{"scenario": tr.Scn.Shape(), "events": eventsString(tr.Events)})
		}
	}
	ctx.SetExtra("scenarios_by_kind", kinds)
	ctx.SetExtra("events_recorded", evs)
	wg.Wait()
	if mcErr != nil {
		return mcErr
	}
	return banErr
}

var _ = rand.Int

func runBanScore(ctx *vrun.Ctx, t tier) error { return nil }
