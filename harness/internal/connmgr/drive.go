package connmgr

import (
	"errors"
	"fmt"
	"math/rand"
	"net"
	"runtime"
	"strings"
	"sync"
	"time"
	_ "unsafe" // go:linkname

	"github.com/btcsuite/btcd/connmgr"
	"github.com/btcsuite/btclog"
)

// maxRetryDuration of the package under test (5 minutes) is lowered for the
// whole driver process so that the cap of the back-off is reached with retry
// durations of a few milliseconds.  No source change: the variable is bound
// by name.
//
//go:linkname maxRetryDuration github.com/btcsuite/btcd/connmgr.maxRetryDuration
var maxRetryDuration time.Duration

// ProcessCap is the value maxRetryDuration is set to in a driver process.
const ProcessCap = 7 * time.Millisecond

const tokBase = 100

type tokAddr int

func (a tokAddr) Network() string { return "tok" }
func (a tokAddr) String() string  { return fmt.Sprintf("tok-%d", int(a)) }

// numConn is one end of a net.Pipe that knows its number and reports Close.
type numConn struct {
	net.Conn
	n  int
	in bool
	r  *run
}

func (c *numConn) LocalAddr() net.Addr { return tokAddr(c.n) }

func (c *numConn) Close() error {
	c.r.mu.Lock()
	if c.in {
		c.r.closedIn[c.n] = true
	} else {
		c.r.closedOut[c.n] = true
	}
	c.r.mu.Unlock()
	return c.Conn.Close()
}

type gate struct {
	tok int
	nd  int
	ch  chan bool
}

type fakeListener struct {
	k      int
	r      *run
	offers chan struct{}
	closed chan struct{}
	once   sync.Once
}

func (l *fakeListener) Accept() (net.Conn, error) {
	select {
	case <-l.closed:
		return nil, errors.New("listener closed")
	default:
	}
	select {
	case <-l.offers:
		r := l.r
		r.mu.Lock()
		// a listener that has been closed hands out nothing any more
		select {
		case <-l.closed:
			r.mu.Unlock()
			return nil, errors.New("listener closed")
		default:
		}
		r.nIn++
		n := r.nIn
		a, b := net.Pipe()
		r.remotes = append(r.remotes, b)
		c := &numConn{Conn: a, n: n, in: true, r: r}
		r.events = append(r.events, Event{K: "accept", A: l.k, B: n})
		r.mu.Unlock()
		r.ping()
		return c, nil
	case <-l.closed:
		return nil, errors.New("listener closed")
	}
}

func (l *fakeListener) Close() error {
	l.once.Do(func() {
		l.r.mu.Lock()
		close(l.closed)
		l.r.events = append(l.r.events, Event{K: "lclose", A: l.k})
		l.r.mu.Unlock()
		l.r.ping()
	})
	return nil
}

func (l *fakeListener) Addr() net.Addr { return tokAddr(9000 + l.k) }

type run struct {
	sc     Scenario
	rng    *rand.Rand // decisions of the driver's main goroutine
	gnaRng *rand.Rand // decisions taken inside GetNewAddress (under mu)
	cm  *connmgr.ConnManager

	mu        sync.Mutex
	events    []Event
	blocked   map[int]*gate // address token -> dial waiting at its gate
	ndial     map[int]int
	nGna      int
	gnaErrs   int
	dialErrs  int
	gnaScript []bool
	handles   map[int]*connmgr.ConnReq // address token -> request
	estIDs    []int                    // ids reported through OnConnection
	closedOut map[int]bool
	closedIn  map[int]bool
	nIn       int
	inConns   map[int]net.Conn // inbound conns handed to OnAccept
	remotes   []net.Conn
	listeners []*fakeListener
	nOps      int
	opsOut    int // calls of Disconnect/Remove that have not returned
	stopped   bool
	stopRet   bool
	waited    bool
	waitRet   bool
	nManual   int
	nDisc     int
	nRem      int
	nInClose  int
	wg        sync.WaitGroup

	notify chan struct{}

	// logger gate (directed scenarios): the handler is held inside the
	// logger's Errorf("Unknown connid=...") until release is closed
	holdMu  sync.Mutex
	hold    chan struct{}
	holding chan struct{}
}

var (
	curMu sync.Mutex
	cur   *run
)

func current() *run {
	curMu.Lock()
	defer curMu.Unlock()
	return cur
}

func (r *run) ping() {
	select {
	case r.notify <- struct{}{}:
	default:
	}
}

func (r *run) rec(e Event) {
	r.mu.Lock()
	r.events = append(r.events, e)
	r.mu.Unlock()
	r.ping()
}

// the functions handed to connmgr.Config ---------------------------------------------

func (r *run) dial(addr net.Addr) (net.Conn, error) {
	tok := int(addr.(tokAddr))
	g := &gate{tok: tok, ch: make(chan bool, 1)}
	r.mu.Lock()
	r.ndial[tok]++
	g.nd = r.ndial[tok]
	r.blocked[tok] = g
	r.events = append(r.events, Event{K: "dial", A: tok})
	r.mu.Unlock()
	r.ping()
	ok := <-g.ch
	r.mu.Lock()
	defer r.mu.Unlock()
	defer r.ping()
	if !ok {
		r.events = append(r.events, Event{K: "dialfail", A: tok})
		return nil, errors.New("scripted dial failure")
	}
	n := tok*10 + g.nd
	a, b := net.Pipe()
	r.remotes = append(r.remotes, b)
	c := &numConn{Conn: a, n: n, r: r}
	r.events = append(r.events, Event{K: "dialok", A: tok, B: n})
	return c, nil
}

// release lets the dial blocked for tok return.
func (r *run) release(tok int, ok bool) bool {
	r.mu.Lock()
	g := r.blocked[tok]
	if g != nil {
		delete(r.blocked, tok)
		if !ok {
			r.dialErrs++
		}
	}
	r.mu.Unlock()
	if g == nil {
		return false
	}
	g.ch <- ok
	return true
}

func (r *run) gna() (net.Addr, error) {
	r.mu.Lock()
	defer r.mu.Unlock()
	defer r.ping()
	r.nGna++
	tok := tokBase + r.nGna
	fail := false
	if r.sc.Kind == "script" {
		if r.nGna <= len(r.gnaScript) {
			fail = !r.gnaScript[r.nGna-1]
		}
	} else if r.gnaErrs < r.sc.GnaErrs {
		if r.sc.Kind == "maxfail" || r.gnaRng.Intn(3) == 0 {
			fail = true
		}
	}
	if fail {
		r.gnaErrs++
		r.events = append(r.events, Event{K: "gnaerr", A: tok})
		return nil, errors.New("scripted GetNewAddress failure")
	}
	r.events = append(r.events, Event{K: "gna", A: tok})
	return tokAddr(tok), nil
}

func (r *run) onConn(c *connmgr.ConnReq, conn net.Conn) {
	n := 0
	if nc, ok := conn.(*numConn); ok {
		n = nc.n
	}
	r.mu.Lock()
	if a, ok := c.Addr.(tokAddr); ok {
		r.handles[int(a)] = c
	}
	id := int(c.ID())
	r.estIDs = append(r.estIDs, id)
	r.events = append(r.events, Event{K: "onconn", A: id, B: n})
	r.mu.Unlock()
	r.ping()
}

func (r *run) onDisc(c *connmgr.ConnReq) {
	r.rec(Event{K: "ondisc", A: int(c.ID())})
}

func (r *run) onAccept(conn net.Conn) {
	n := -1
	if a, ok := conn.LocalAddr().(tokAddr); ok {
		n = int(a)
	}
	r.mu.Lock()
	r.inConns[n] = conn
	r.events = append(r.events, Event{K: "onaccept", A: n})
	r.mu.Unlock()
	r.ping()
}

// the logger: the package's debug log is the only place where the duration of
// an armed retry timer can be seen without a source change.
type capLogger struct{}

func (capLogger) Tracef(string, ...interface{})    {}
func (capLogger) Infof(string, ...interface{})     {}
func (capLogger) Warnf(string, ...interface{})     {}
func (capLogger) Criticalf(string, ...interface{}) {}
func (capLogger) Trace(...interface{})             {}
func (capLogger) Debug(...interface{})             {}
func (capLogger) Info(...interface{})              {}
func (capLogger) Warn(...interface{})              {}
func (capLogger) Error(...interface{})             {}
func (capLogger) Critical(...interface{})          {}
func (capLogger) Level() btclog.Level              { return btclog.LevelTrace }
func (capLogger) SetLevel(btclog.Level)            {}

// the lines of the debug log that show a decision of the handler
var logLines = []struct{ prefix, kind, what string }{
	{"Ignoring connection for canceled connreq=", "h", "ignored"},
	{"Ignoring connection for canceled conn req:", "h", "failignored"},
	{"Ignoring connect for canceled connreq=", "cignored", ""},
	{"Connected to ", "h", "connected"},
	{"Canceling: ", "h", "canceling"},
	{"Disconnected from ", "h", "disconnected"},
	{"Reconnecting to ", "h", "reconnecting"},
	{"Failed to connect to ", "h", "failed"},
}

func (capLogger) Debugf(format string, params ...interface{}) {
	r := current()
	if r == nil {
		return
	}
	switch {
	case strings.HasPrefix(format, "Retrying connection to"):
		if len(params) == 2 {
			c, ok1 := params[0].(*connmgr.ConnReq)
			d, ok2 := params[1].(time.Duration)
			if ok1 && ok2 {
				r.rec(Event{K: "backoff", A: int(c.ID()), B: int(d / time.Microsecond)})
				return
			}
		}
		r.rec(Event{K: "harness-error", S: "unexpected parameters of the retry log line"})
	case strings.HasPrefix(format, "Max failed connection attempts reached"):
		r.rec(Event{K: "maxfail"})
	default:
		for _, l := range logLines {
			if strings.HasPrefix(format, l.prefix) {
				if len(params) >= 1 {
					if c, ok := params[0].(*connmgr.ConnReq); ok {
						r.rec(Event{K: l.kind, S: l.what, A: int(c.ID())})
						return
					}
				}
				r.rec(Event{K: "harness-error", S: "unexpected parameters of log line " + l.prefix})
				return
			}
		}
	}
}

func (capLogger) Errorf(format string, params ...interface{}) {
	r := current()
	if r == nil {
		return
	}
	if strings.HasPrefix(format, "Unknown connid") {
		id := -1
		if len(params) == 1 {
			if v, ok := params[0].(uint64); ok {
				id = int(v)
			}
		}
		r.rec(Event{K: "h", S: "unknown", A: id})
		r.holdMu.Lock()
		h, hg := r.hold, r.holding
		r.hold, r.holding = nil, nil
		r.holdMu.Unlock()
		if h != nil {
			close(hg)
			<-h
		}
	}
}

// census counts the goroutines that are inside the package under test.
func census() (int, string) {
	cnt := 0
	var keep []string
	for _, blk := range strings.Split(stacks(), "\n\n") {
		if strings.Contains(blk, "github.com/btcsuite/btcd/connmgr.") {
			cnt++
			keep = append(keep, blk)
		}
	}
	return cnt, strings.Join(keep, "\n\n")
}

func stacks() string {
	buf := make([]byte, 1<<18)
	for {
		n := runtime.Stack(buf, true)
		if n < len(buf) {
			return string(buf[:n])
		}
		buf = make([]byte, 2*len(buf))
	}
}

// goroutine wait states in which nothing happens until somebody else acts
var blockedStates = map[string]bool{"chan receive": true, "chan send": true, "select": true, "semacquire": true,
	"sync.WaitGroup.Wait": true, "chan receive (nil chan)": true, "select (no cases)": true}

// allBlocked looks at one stop-the-world goroutine dump: is every goroutine
// that is inside the package under test, was created by it, or belongs to
// this driver (other than the caller) blocked?
func allBlocked() bool {
	for _, blk := range strings.Split(stacks(), "\n\n") {
		if !strings.Contains(blk, "github.com/btcsuite/btcd/connmgr.") && !strings.Contains(blk, "harness/internal/connmgr.") {
			continue
		}
		if strings.Contains(blk, "harness/internal/connmgr.allBlocked") {
			continue
		}
		i, j := strings.Index(blk, "["), strings.Index(blk, "]")
		if i < 0 || j < i {
			return false
		}
		st := blk[i+1 : j]
		if k := strings.Index(st, ","); k >= 0 {
			st = st[:k]
		}
		if !blockedStates[st] {
			return false
		}
	}
	return true
}

// quiet waits (for a bounded time) for a moment at which every goroutine of
// the manager is blocked and records it.  The recorder is locked around the
// snapshot: no event can slip in between the snapshot and the record.
func (r *run) quiet(maxWait time.Duration) bool {
	deadline := time.Now().Add(maxWait)
	for {
		r.mu.Lock()
		ok := allBlocked()
		if ok {
			r.events = append(r.events, Event{K: "quiet"})
		}
		r.mu.Unlock()
		if ok {
			return true
		}
		if time.Now().After(deadline) {
			return false
		}
		time.Sleep(150 * time.Microsecond)
	}
}

// user calls --------------------------------------------------------------------------

func (r *run) callDisc(id int, trig bool) {
	r.mu.Lock()
	r.nOps++
	r.opsOut++
	op := r.nOps
	r.nDisc++
	r.events = append(r.events, Event{K: "disc", A: op, B: id, F: trig})
	r.mu.Unlock()
	r.wg.Add(1)
	go func() {
		defer r.wg.Done()
		if trig {
			r.cm.Disconnect(uint64(id), connmgr.WithTriggerReconnect())
		} else {
			r.cm.Disconnect(uint64(id))
		}
		r.mu.Lock()
		r.opsOut--
		r.events = append(r.events, Event{K: "ret", A: op})
		r.mu.Unlock()
		r.ping()
	}()
}

func (r *run) callRem(id int) {
	r.mu.Lock()
	r.nOps++
	r.opsOut++
	op := r.nOps
	r.nRem++
	r.events = append(r.events, Event{K: "rem", A: op, B: id})
	r.mu.Unlock()
	r.wg.Add(1)
	go func() {
		defer r.wg.Done()
		r.cm.Remove(uint64(id))
		r.mu.Lock()
		r.opsOut--
		r.events = append(r.events, Event{K: "ret", A: op})
		r.mu.Unlock()
		r.ping()
	}()
}

func (r *run) callConnect() bool {
	r.mu.Lock()
	if r.nManual >= len(r.sc.Manual) {
		r.mu.Unlock()
		return false
	}
	r.nManual++
	m := r.nManual
	perm := r.sc.Manual[m-1]
	c := &connmgr.ConnReq{Addr: tokAddr(m), Permanent: perm}
	r.handles[m] = c
	r.events = append(r.events, Event{K: "connect", A: m, F: perm})
	r.mu.Unlock()
	r.wg.Add(1)
	go func() {
		defer r.wg.Done()
		r.cm.Connect(c)
	}()
	return true
}

func (r *run) callStop(sync_ bool) {
	r.mu.Lock()
	if r.stopped {
		r.mu.Unlock()
		return
	}
	r.stopped = true
	r.events = append(r.events, Event{K: "stop"})
	r.mu.Unlock()
	f := func() {
		r.cm.Stop()
		r.mu.Lock()
		r.stopRet = true
		r.events = append(r.events, Event{K: "stopret"})
		r.mu.Unlock()
		r.ping()
	}
	if sync_ {
		f()
		return
	}
	r.wg.Add(1)
	go func() { defer r.wg.Done(); f() }()
}

func (r *run) callWait() {
	r.mu.Lock()
	if r.waited {
		r.mu.Unlock()
		return
	}
	r.waited = true
	r.events = append(r.events, Event{K: "wait"})
	r.mu.Unlock()
	r.wg.Add(1)
	go func() {
		defer r.wg.Done()
		r.cm.Wait()
		r.mu.Lock()
		r.waitRet = true
		r.events = append(r.events, Event{K: "waitret"})
		r.mu.Unlock()
		r.ping()
	}()
}

var stateNames = map[connmgr.ConnState]string{
	connmgr.ConnPending: "pending", connmgr.ConnFailing: "failing", connmgr.ConnCanceled: "canceled",
	connmgr.ConnEstablished: "established", connmgr.ConnDisconnected: "disconnected",
}

// poll reads State() and ID() of the request with the given token.  The
// recorder is locked around the reads so that every other recorded event is
// entirely before or entirely after them.
func (r *run) poll(tok int) {
	r.mu.Lock()
	c := r.handles[tok]
	if c != nil {
		st := c.State()
		id := c.ID()
		name, ok := stateNames[st]
		if !ok {
			name = fmt.Sprintf("state-%d", st)
		}
		r.events = append(r.events, Event{K: "poll", A: tok, B: int(id), S: name})
	}
	r.mu.Unlock()
}

func (r *run) offer(k int) {
	l := r.listeners[k-1]
	select {
	case l.offers <- struct{}{}:
	default:
	}
}

func (r *run) closeInbound(n int) {
	r.mu.Lock()
	c := r.inConns[n]
	if c != nil {
		r.nInClose++
		r.events = append(r.events, Event{K: "inclose", A: n})
	}
	r.mu.Unlock()
	if c != nil {
		c.Close()
	}
}

func (r *run) waitFor(cond func() bool, d time.Duration) bool {
	deadline := time.Now().Add(d)
	for {
		r.mu.Lock()
		ok := cond()
		r.mu.Unlock()
		if ok {
			return true
		}
		left := time.Until(deadline)
		if left <= 0 {
			return false
		}
		if left > 2*time.Millisecond {
			left = 2 * time.Millisecond
		}
		select {
		case <-r.notify:
		case <-time.After(left):
		}
	}
}

func (r *run) blockedToks() []int {
	var t []int
	for k := range r.blocked {
		t = append(t, k)
	}
	// deterministic order for the seeded choice
	for i := 1; i < len(t); i++ {
		for j := i; j > 0 && t[j] < t[j-1]; j-- {
			t[j], t[j-1] = t[j-1], t[j]
		}
	}
	return t
}

// RunScenario drives one real ConnManager through a scenario and returns the
// recorded trace.  One scenario at a time per process (the package's logger
// and maxRetryDuration are process wide).
func RunScenario(sc Scenario) (tr *Trace) {
	tr = &Trace{Scn: sc}
	defer func() {
		if p := recover(); p != nil {
			tr.Err = fmt.Sprintf("panic in driver: %v", p)
		}
	}()
	r := &run{sc: sc, rng: rand.New(rand.NewSource(sc.Seed)), gnaRng: rand.New(rand.NewSource(sc.Seed ^ 0x5eed)),
		blocked: map[int]*gate{}, ndial: map[int]int{}, handles: map[int]*connmgr.ConnReq{},
		closedOut: map[int]bool{}, closedIn: map[int]bool{}, inConns: map[int]net.Conn{},
		notify: make(chan struct{}, 1)}
	for _, a := range sc.Script {
		if a.K == "gna" {
			r.gnaScript = append(r.gnaScript, true)
		} else if a.K == "gnaerr" {
			r.gnaScript = append(r.gnaScript, false)
		}
	}
	curMu.Lock()
	cur = r
	curMu.Unlock()
	defer func() {
		curMu.Lock()
		cur = nil
		curMu.Unlock()
	}()

	cfg := &connmgr.Config{
		TargetOutbound:  uint32(sc.Target),
		RetryDuration:   time.Duration(sc.RU) * time.Microsecond,
		Dial:            r.dial,
		OnConnection:    r.onConn,
		OnDisconnection: r.onDisc,
	}
	if sc.GNA {
		cfg.GetNewAddress = r.gna
	}
	for k := 1; k <= sc.NList; k++ {
		l := &fakeListener{k: k, r: r, offers: make(chan struct{}, 8), closed: make(chan struct{})}
		r.listeners = append(r.listeners, l)
		cfg.Listeners = append(cfg.Listeners, l)
	}
	if sc.NList > 0 {
		cfg.OnAccept = r.onAccept
	}
	if sc.InLim {
		v := uint32(sc.InCap)
		cfg.MaxInbound = &v
	}
	cm, err := connmgr.New(cfg)
	if err != nil {
		tr.Err = err.Error()
		return tr
	}
	r.cm = cm
	base, _ := census()
	cm.Start()

	switch sc.Kind {
	case "script":
		r.runScript()
	case "maxfail":
		r.runMaxFail()
	case "order":
		r.runOrder()
	case "late":
		r.runLate()
	default:
		r.runRandom()
	}
	r.finish(base, tr)
	return tr
}

func (r *run) jitter() {
	switch r.rng.Intn(4) {
	case 0:
		time.Sleep(time.Duration(r.rng.Intn(400)) * time.Microsecond)
	case 1:
		runtime.Gosched()
	}
}

func (r *run) runRandom() {
	sc := r.sc
	maxDisc, maxRem, maxIn := 3, 2, 3
	for step := 0; step < sc.Steps; step++ {
		r.mu.Lock()
		busy := r.opsOut
		r.mu.Unlock()
		if busy >= 2 || r.rng.Intn(10) < 6 {
			// keep the number of goroutines in flight at once (and with it the
			// number of schedules that explain the trace) small
			r.quiet(20 * time.Millisecond)
		}
		r.jitter()
		type cand struct {
			w int
			f func()
		}
		var cs []cand
		r.mu.Lock()
		toks := r.blockedToks()
		dialErrs := r.dialErrs
		idGuess := r.nManual + r.nGna
		est := append([]int(nil), r.estIDs...)
		var polls []int
		for t := range r.handles {
			polls = append(polls, t)
		}
		var inb []int
		for n := range r.inConns {
			inb = append(inb, n)
		}
		stopped, waited, nDisc, nRem, nIn, nInClose := r.stopped, r.waited, r.nDisc, r.nRem, r.nIn, r.nInClose
		nManual := r.nManual
		r.mu.Unlock()
		sortInts(polls)
		sortInts(inb)
		for _, t := range toks {
			t := t
			cs = append(cs, cand{4, func() { r.release(t, true) }})
			if dialErrs < sc.DialErrs {
				cs = append(cs, cand{3, func() { r.release(t, false) }})
			}
		}
		if nManual < len(sc.Manual) {
			cs = append(cs, cand{4, func() { r.callConnect() }})
		}
		pickID := func() int {
			if len(est) > 0 && r.rng.Intn(3) != 0 {
				return est[r.rng.Intn(len(est))]
			}
			if idGuess <= 0 {
				return 1
			}
			return 1 + r.rng.Intn(idGuess+1)
		}
		if nDisc < maxDisc && idGuess > 0 {
			cs = append(cs, cand{3, func() { r.callDisc(pickID(), r.rng.Intn(4) == 0) }})
		}
		if nRem < maxRem && idGuess > 0 {
			cs = append(cs, cand{2, func() { r.callRem(pickID()) }})
		}
		if !stopped && step >= sc.Steps/3 {
			cs = append(cs, cand{1, func() { r.callStop(false) }})
		}
		if !waited && step >= sc.Steps/4 {
			cs = append(cs, cand{1, func() { r.callWait() }})
		}
		if len(polls) > 0 {
			cs = append(cs, cand{2, func() { r.poll(polls[r.rng.Intn(len(polls))]) }})
		}
		if sc.NList > 0 && nIn < maxIn && !stopped {
			cs = append(cs, cand{3, func() { r.offer(1 + r.rng.Intn(sc.NList)) }})
		}
		if len(inb) > 0 && nInClose < 4 {
			cs = append(cs, cand{2, func() { r.closeInbound(inb[r.rng.Intn(len(inb))]) }})
		}
		cs = append(cs, cand{2, func() {
			time.Sleep(time.Duration(sc.RU/2+r.rng.Intn(sc.RU*2)) * time.Microsecond)
		}})
		tot := 0
		for _, c := range cs {
			tot += c.w
		}
		x := r.rng.Intn(tot)
		for _, c := range cs {
			if x < c.w {
				c.f()
				break
			}
			x -= c.w
		}
	}
}

func sortInts(a []int) {
	for i := 1; i < len(a); i++ {
		for j := i; j > 0 && a[j] < a[j-1]; j-- {
			a[j], a[j-1] = a[j-1], a[j]
		}
	}
}

// runScript performs the scripted decisions in order; each one waits (for a
// bounded time) until it is possible.
func (r *run) runScript() {
	const patience = 300 * time.Millisecond
	for _, a := range r.sc.Script {
		a := a
		switch a.K {
		case "gna", "gnaerr":
			// consumed by the GetNewAddress function itself, in call order
		case "connect":
			r.callConnect()
		case "dialok", "dialfail":
			if !r.waitFor(func() bool { return r.blocked[a.A] != nil }, patience) {
				return
			}
			r.release(a.A, a.K == "dialok")
		case "disc":
			r.callDisc(a.A, a.Trig)
		case "rem":
			r.callRem(a.A)
		case "stop":
			r.callStop(false)
		case "wait":
			r.callWait()
		case "accept":
			r.offer(a.A)
		case "inclose":
			if !r.waitFor(func() bool { return r.inConns[a.A] != nil }, patience) {
				return
			}
			r.closeInbound(a.A)
		case "poll":
			r.poll(a.A)
		case "sleep":
			time.Sleep(time.Duration(a.A) * time.Microsecond)
		case "settle":
			// wait until the events recorded so far are at least a.A
			r.waitFor(func() bool { return len(r.events) >= a.A }, patience)
		}
		r.jitter()
	}
}

// runMaxFail lets GetNewAddress fail until maxFailedAttempts is passed.
func (r *run) runMaxFail() {
	r.waitFor(func() bool { return r.gnaErrs >= r.sc.GnaErrs }, 3*time.Second)
	// the request after the last failure dials: let it through
	if r.waitFor(func() bool { return len(r.blocked) > 0 }, time.Second) {
		r.mu.Lock()
		toks := r.blockedToks()
		r.mu.Unlock()
		for _, t := range toks {
			r.release(t, true)
		}
	}
	r.waitFor(func() bool { return len(r.estIDs) > 0 }, 300*time.Millisecond)
}

// holdHandler makes the handler stop inside the logger: Remove of an id
// nobody has makes it log "Unknown connid" through Errorf.
func (r *run) holdHandler() (release func()) {
	h, hg := make(chan struct{}), make(chan struct{})
	r.holdMu.Lock()
	r.hold, r.holding = h, hg
	r.holdMu.Unlock()
	r.callRem(9999)
	select {
	case <-hg:
	case <-time.After(2 * time.Second):
	}
	return func() { close(h) }
}

// runOrder: a request made through Connect is established and disconnected
// back to back while the handler is busy, on one processor.
func (r *run) runOrder() {
	r.releaseAllAuto()
	r.callConnect()
	if !r.waitFor(func() bool { return r.blocked[1] != nil }, time.Second) {
		return
	}
	id := 0
	r.mu.Lock()
	if c := r.handles[1]; c != nil {
		id = int(c.ID())
	}
	r.mu.Unlock()
	rel := r.holdHandler()
	old := runtime.GOMAXPROCS(1)
	r.release(1, true)
	time.Sleep(2 * time.Millisecond) // the Connect goroutine queues its handleConnected
	r.callDisc(id, false)
	time.Sleep(2 * time.Millisecond) // Disconnect queues behind it
	rel()
	r.waitFor(func() bool {
		n := 0
		for _, e := range r.events {
			if e.K == "onconn" && e.A == id || e.K == "ondisc" && e.A == id {
				n++
			}
		}
		return n >= 2
	}, time.Second)
	runtime.GOMAXPROCS(old)
}

// runLate: Stop while a successful dial is queued at the handler, on one
// processor; Wait is already blocked.
func (r *run) runLate() {
	r.releaseAllAuto()
	r.callConnect()
	if !r.waitFor(func() bool { return r.blocked[1] != nil }, time.Second) {
		return
	}
	rel := r.holdHandler()
	old := runtime.GOMAXPROCS(1)
	r.release(1, true)
	time.Sleep(2 * time.Millisecond)
	r.callWait()
	time.Sleep(time.Millisecond)
	r.callStop(true)
	rel()
	r.waitFor(func() bool { return r.waitRet }, time.Second)
	time.Sleep(2 * time.Millisecond)
	runtime.GOMAXPROCS(old)
}

func (r *run) releaseAllAuto() {
	if !r.sc.GNA {
		return
	}
	for k := 0; k < r.sc.Target; k++ {
		if !r.waitFor(func() bool { return len(r.blocked) > 0 }, time.Second) {
			return
		}
		r.mu.Lock()
		toks := r.blockedToks()
		r.mu.Unlock()
		for _, t := range toks {
			r.release(t, true)
		}
	}
	r.waitFor(func() bool { return len(r.estIDs) >= r.sc.Target }, time.Second)
}

// finish: Stop and Wait (when the scenario has not done so), let every Dial
// return, wait until the package is quiet, read every known request and take
// the census.
func (r *run) finish(base int, tr *Trace) {
	r.callStop(false)
	r.callWait()
	capD := time.Duration(r.sc.Cap) * time.Microsecond
	if capD > 50*time.Millisecond {
		capD = 50 * time.Millisecond
	}
	start := time.Now()
	quiet := 0
	n := 0
	stacks := ""
	for time.Since(start) < 4*time.Second {
		r.mu.Lock()
		toks := r.blockedToks()
		errBudget := r.dialErrs < r.sc.DialErrs
		done := r.stopRet && r.waitRet && r.opsOut == 0
		r.mu.Unlock()
		for _, t := range toks {
			r.release(t, !(errBudget && r.rng.Intn(3) == 0))
		}
		n, stacks = census()
		n -= base
		if len(toks) == 0 && n == 0 && done && time.Since(start) > 2*capD {
			quiet++
			if quiet >= 3 {
				break
			}
		} else {
			quiet = 0
		}
		time.Sleep(500 * time.Microsecond)
	}
	r.mu.Lock()
	var toks []int
	for t := range r.handles {
		toks = append(toks, t)
	}
	r.mu.Unlock()
	sortInts(toks)
	for _, t := range toks {
		r.poll(t)
	}
	r.mu.Lock()
	var co, ci []int
	for c := range r.closedOut {
		co = append(co, c)
	}
	for c := range r.closedIn {
		ci = append(ci, c)
	}
	sortInts(co)
	sortInts(ci)
	r.events = append(r.events, Event{K: "end", A: n, L: co, L2: ci})
	tr.Events = append([]Event(nil), r.events...)
	for _, c := range r.remotes {
		c.Close()
	}
	r.mu.Unlock()
	if n != 0 {
		tr.Stacks = stacks
	}
	for _, e := range tr.Events {
		if e.K == "harness-error" {
			tr.Err = e.S
		}
	}
}
