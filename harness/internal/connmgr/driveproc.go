package connmgr

import (
	"bufio"
	"encoding/json"
	"fmt"
	"os"

	"github.com/btcsuite/btcd/connmgr"
)

// DriveMain is the entry point of the driver process: it reads scenarios
// (JSON array) from inPath, runs them one after the other against the real
// connection manager and writes one JSON trace per line to outPath.
func DriveMain(inPath, outPath string) int {
	b, err := os.ReadFile(inPath)
	if err != nil {
		fmt.Fprintln(os.Stderr, "drive:", err)
		return 2
	}
	var scs []Scenario
	if err := json.Unmarshal(b, &scs); err != nil {
		fmt.Fprintln(os.Stderr, "drive:", err)
		return 2
	}
	f, err := os.Create(outPath)
	if err != nil {
		fmt.Fprintln(os.Stderr, "drive:", err)
		return 2
	}
	defer f.Close()
	w := bufio.NewWriter(f)
	defer w.Flush()
	enc := json.NewEncoder(w)
	maxRetryDuration = ProcessCap
	connmgr.UseLogger(capLogger{})
	for _, sc := range scs {
		tr := RunScenario(sc)
		if err := enc.Encode(tr); err != nil {
			fmt.Fprintln(os.Stderr, "drive:", err)
			return 2
		}
		w.Flush()
	}
	return 0
}

// ReadTraces reads an ndjson trace file written by DriveMain.
func ReadTraces(path string) ([]*Trace, error) {
	f, err := os.Open(path)
	if err != nil {
		return nil, err
	}
	defer f.Close()
	var out []*Trace
	sc := bufio.NewScanner(f)
	sc.Buffer(make([]byte, 1<<20), 1<<26)
	for sc.Scan() {
		if len(sc.Bytes()) == 0 {
			continue
		}
		t := &Trace{}
		if err := json.Unmarshal(sc.Bytes(), t); err != nil {
			return nil, err
		}
		out = append(out, t)
	}
	return out, sc.Err()
}

// TLAMain (development aid): connmgr --tla traces.ndjson prints TraceData.tla.
func TLAMain(path string) int {
	trs, err := ReadTraces(path)
	if err != nil {
		fmt.Fprintln(os.Stderr, err)
		return 2
	}
	fmt.Print(TraceDataModule(trs))
	return 0
}
