// Package connmgr is the binder of the supplementary specification X01
// (spec/connmgr): the connection manager of btcd (connmgr/connmanager.go,
// connmgr/dynamicbanscore.go).
//
// code -> spec: a driver runs a real connmgr.ConnManager with a scripted Dial
// (every dial blocks on a gate the driver releases with success or failure),
// a scripted GetNewAddress, fake listeners and recording callbacks; the events
// at these public seams are recorded and TLC validates every recorded trace
// against ConnMgr.tla (TraceConnMgr.tla).
// spec -> code: paths of the state graph TLC dumps for a small configuration
// are turned into driver scripts (the environment's choices in path order),
// and the trace the real manager produces under that script is validated the
// same way.
package connmgr

import (
	"fmt"
	"sort"
	"strings"
)

// Scenario is the configuration handed to connmgr.New plus what the driver
// (the user and the environment) does.
type Scenario struct {
	ID     int    `json:"id"`
	Kind   string `json:"kind"` // "random", "script", "maxfail", "order", "late", ...
	Seed   int64  `json:"seed"`
	Target int    `json:"target"`
	GNA    bool   `json:"gna"`
	Manual []bool `json:"manual"` // requests made through Connect: Permanent flag
	RU     int    `json:"ru"`     // RetryDuration, microseconds
	Cap    int    `json:"cap"`    // maxRetryDuration, microseconds (process wide)
	NList  int    `json:"nlist"`
	InLim  bool   `json:"inlim"`
	InCap  int    `json:"incap"`

	Steps    int   `json:"steps"`     // decisions of the random driver
	GnaErrs  int   `json:"gna_errs"`  // GetNewAddress failures the environment injects
	DialErrs int   `json:"dial_errs"` // Dial failures the environment injects
	Script   []Act `json:"script,omitempty"`
}

// Act is one scripted decision of the driver (Kind "script").
type Act struct {
	K    string `json:"k"` // connect, dialok, dialfail, gna, gnaerr, disc, rem, stop, wait, accept, inclose, sleep
	A    int    `json:"a,omitempty"`
	B    int    `json:"b,omitempty"`
	Trig bool   `json:"trig,omitempty"`
}

func (s Scenario) Shape() string {
	man := ""
	for _, p := range s.Manual {
		if p {
			man += "P"
		} else {
			man += "n"
		}
	}
	return fmt.Sprintf("%s/t%d/g%v/m%s/l%d/in%v%d", s.Kind, s.Target, s.GNA, man, s.NList, s.InLim, s.InCap)
}

// Event is one recorded event.  K is the kind; the meaning of the other
// fields depends on it (see (Event).TLA).
type Event struct {
	K  string `json:"k"`
	A  int    `json:"a,omitempty"`
	B  int    `json:"b,omitempty"`
	C  int    `json:"c,omitempty"`
	F  bool   `json:"f,omitempty"`
	S  string `json:"s,omitempty"`
	L  []int  `json:"l,omitempty"`
	L2 []int  `json:"l2,omitempty"`
}

type Trace struct {
	Scn    Scenario `json:"scn"`
	Events []Event  `json:"events"`
	Err    string   `json:"err,omitempty"`
	Stacks string   `json:"stacks,omitempty"` // goroutine dump when the final census was not empty
}

func tlaBool(b bool) string {
	if b {
		return "TRUE"
	}
	return "FALSE"
}

func tlaSet(l []int) string {
	s := append([]int(nil), l...)
	sort.Ints(s)
	var p []string
	for _, x := range s {
		p = append(p, fmt.Sprint(x))
	}
	return "{" + strings.Join(p, ", ") + "}"
}

// TLA renders the event as the tuple ConnMgr.tla uses as step label.
func (e Event) TLA() string {
	switch e.K {
	case "connect": // Connect(object A, Permanent F)
		return fmt.Sprintf(`<<"connect", %d, %s>>`, e.A, tlaBool(e.F))
	case "gna", "gnaerr", "dial", "dialfail": // address token A
		return fmt.Sprintf(`<<"%s", %d>>`, e.K, e.A)
	case "dialok": // address token A, connection number B
		return fmt.Sprintf(`<<"dialok", %d, %d>>`, e.A, e.B)
	case "onconn": // id A, connection number B
		return fmt.Sprintf(`<<"onconn", %d, %d>>`, e.A, e.B)
	case "ondisc":
		return fmt.Sprintf(`<<"ondisc", %d>>`, e.A)
	case "disc", "rem": // call number A, id B, WithTriggerReconnect F
		return fmt.Sprintf(`<<"%s", %d, %d, %s>>`, e.K, e.A, e.B, tlaBool(e.F))
	case "ret":
		return fmt.Sprintf(`<<"ret", %d>>`, e.A)
	case "stop", "stopret", "wait", "waitret", "maxfail", "quiet":
		return fmt.Sprintf(`<<"%s">>`, e.K)
	case "lclose", "onaccept", "inclose":
		return fmt.Sprintf(`<<"%s", %d>>`, e.K, e.A)
	case "accept": // listener A, inbound connection B
		return fmt.Sprintf(`<<"accept", %d, %d>>`, e.A, e.B)
	case "backoff": // id A, duration B (microseconds)
		return fmt.Sprintf(`<<"backoff", %d, %d>>`, e.A, e.B)
	case "h": // handler log line S about id A
		return fmt.Sprintf(`<<"h", "%s", %d>>`, e.S, e.A)
	case "cignored": // Connect ignored the canceled request A
		return fmt.Sprintf(`<<"cignored", %d>>`, e.A)
	case "poll": // address token A, id B, state S
		return fmt.Sprintf(`<<"poll", %d, %d, "%s">>`, e.A, e.B, e.S)
	case "end": // goroutines A, closed outbound L, closed inbound L2
		return fmt.Sprintf(`<<"end", %d, %s, %s>>`, e.A, tlaSet(e.L), tlaSet(e.L2))
	}
	return fmt.Sprintf(`<<"unknown-%s">>`, e.K)
}

func (e Event) String() string { return e.TLA() }

func (s Scenario) TLA() string {
	var man []string
	for _, p := range s.Manual {
		man = append(man, tlaBool(p))
	}
	return fmt.Sprintf(`[target |-> %d, gna |-> %s, manual |-> <<%s>>, ru |-> %d, cap |-> %d, nlist |-> %d, inlim |-> %s, incap |-> %d, stop |-> TRUE, wait |-> TRUE]`,
		s.Target, tlaBool(s.GNA), strings.Join(man, ", "), s.RU, s.Cap, s.NList, tlaBool(s.InLim), s.InCap)
}

// TraceDataModule renders TraceData.tla for a batch of traces.
func TraceDataModule(traces []*Trace) string {
	var sb strings.Builder
	sb.WriteString("---- MODULE TraceData ----\n")
	sb.WriteString("Traces == <<\n")
	for i, t := range traces {
		var evs []string
		for _, e := range t.Events {
			evs = append(evs, e.TLA())
		}
		sb.WriteString("  << " + strings.Join(evs, ",\n     ") + " >>")
		if i < len(traces)-1 {
			sb.WriteString(",")
		}
		sb.WriteString("\n")
	}
	sb.WriteString(">>\n")
	sb.WriteString("TraceScns == <<\n")
	for i, t := range traces {
		sb.WriteString("  " + t.Scn.TLA())
		if i < len(traces)-1 {
			sb.WriteString(",")
		}
		sb.WriteString("\n")
	}
	sb.WriteString(">>\n====\n")
	return sb.String()
}

func eventsString(evs []Event) string {
	var parts []string
	for _, e := range evs {
		parts = append(parts, e.TLA())
	}
	return strings.Join(parts, " ")
}
