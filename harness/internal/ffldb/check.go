package ffldb

import (
	"fmt"
	"os"
	"path/filepath"
	"sort"
	"strings"
	"sync"
	"sync/atomic"
	"time"

	"verif/harness/internal/tla"
	"verif/harness/internal/tlc"
	"verif/harness/internal/vrun"
)

// labels counts, over all state graphs of the run, how many states each kind
// of specification step produces (vacuity audit: a step kind that never occurs
// means part of the specification is dead).
var (
	labelsMu sync.Mutex
	labels   = map[string]int64{}
)

func stepLabel(l tla.Value) string {
	a := l.F("a").Str()
	switch a {
	case "io":
		return "io:" + l.F("op").Str() + ":" + l.F("res").Str()
	case "int":
		return "int:" + l.F("what").Str()
	case "Cur":
		return "Cur:" + l.F("op").Str()
	case "CommitEnd":
		if l.F("err").Bool() {
			return "CommitEnd:error"
		}
		return "CommitEnd:ok"
	case "CommitStart":
		if l.F("fl").Bool() {
			return "CommitStart:flush"
		}
		return "CommitStart:noflush"
	}
	return a
}

func recordLabels(g *graph) {
	m := map[string]int64{}
	for _, n := range g.nodes {
		m[stepLabel(n.Last())]++
	}
	labelsMu.Lock()
	for k, v := range m {
		labels[k] += v
	}
	labelsMu.Unlock()
}

// requiredLabels must all occur in the thorough tier.
var requiredLabels = []string{
	"Begin", "Rollback", "Put", "Delete", "CreateBucket", "DeleteBucket", "StoreBlock", "StoreDup", "Prune",
	"CommitStart:flush", "CommitStart:noflush", "CommitEnd:ok", "CommitEnd:error", "Crash", "Reopen", "Restart",
	"Cur:Open", "Cur:First", "Cur:Last", "Cur:Next", "Cur:Prev", "Cur:Delete",
	"io:delete:ok", "io:delete:fail", "io:openwrite:ok", "io:openwrite:fail", "io:write:ok", "io:write:fail", "io:write:partial",
	"io:truncate:ok", "io:truncate:fail", "io:sync:ok", "io:sync:fail", "io:ldbcommit:ok", "io:ldbcommit:fail",
	"int:roll", "int:noroll", "int:row", "int:wloc", "int:merge", "int:cache-empty", "int:sync-nofile",
	"int:rb-nothing", "int:rb-close", "int:rb-same-file", "int:rb-isopen", "int:rb-reset", "int:del-done", "int:blocks-done",
}

// caseTimeout bounds the replay of one behaviour (normally 10-100 ms).
const caseTimeout = 60 * time.Second

// maxHangs: after this many hung cases no further cases are started.
const maxHangs = 3

var hangs int64

// distinct abstract transitions exercised on the real code (summed over the
// configurations; the replays run concurrently).
var distinctNT int64

// runner replays the behaviours of one configuration.
type runner struct {
	ctx *vrun.Ctx
	cfg string
	cc  *concrete
}

// cfgRun describes how one .cfg of spec/ffldb is used by a tier.
type cfgRun struct {
	cfg      string
	graph    bool // dump the state graph and replay covering paths
	maxPaths int  // 0: cover every edge
	maxLen   int
	repeat   int // replay every path this many times (fresh databases: treap shapes are random)
	heapGB   int
	timeout  time.Duration
	coverage bool
}

func workDir(ctx *vrun.Ctx) string {
	if st, err := os.Stat("/dev/shm"); err == nil && st.IsDir() {
		d, err := os.MkdirTemp("/dev/shm", "verif-ffldb-")
		if err == nil {
			return d
		}
	}
	d := filepath.Join(ctx.Scratch, "work")
	os.MkdirAll(d, 0o755)
	return d
}

func tlcWorkers(ctx *vrun.Ctx) int {
	w := ctx.Workers / 4
	if w > 4 {
		w = 4
	}
	if w < 1 {
		w = 1
	}
	return w
}

func goWorkers(ctx *vrun.Ctx) int {
	w := ctx.Workers
	if w > 8 {
		w = 8
	}
	if w < 1 {
		w = 1
	}
	return w
}

// modelCheck model-checks one configuration; when the configuration is
// replayed it returns the function that does so.
func modelCheck(ctx *vrun.Ctx, cr cfgRun) (func(work string) error, error) {
	o := tlc.Opts{
		SpecDir: ctx.SpecDir("ffldb"), Module: "MCFfldb", Config: cr.cfg,
		Workers: tlcWorkers(ctx), Timeout: cr.timeout, HeapGB: cr.heapGB,
		Coverage: cr.coverage, Scratch: ctx.Scratch,
	}
	dot := ""
	if cr.graph {
		dot = filepath.Join(ctx.Scratch, strings.TrimSuffix(cr.cfg, ".cfg")+"-graph")
		o.Extra = []string{"-dump", "dot,actionlabels", dot}
		dot += ".dot"
	}
	t0 := time.Now()
	res, err := tlc.Run(o)
	if err != nil {
		return nil, fmt.Errorf("%s: %w", cr.cfg, err)
	}
	if !res.OK {
		// A violated invariant of the specification alone is not a verdict
		// about the code, but the replay oracle would be meaningless.
		return nil, fmt.Errorf("%s: the specification violates its own %s %s (fix the specification)", cr.cfg, res.ErrKind, res.ErrName)
	}
	ctx.AddModel(res.Distinct, res.Generated)
	ctx.Logf("%s: TLC %d distinct / %d generated states, depth %d, %.0fs", cr.cfg, res.Distinct, res.Generated, res.Depth, time.Since(t0).Seconds())
	ctx.SetExtra("tlc_"+strings.TrimSuffix(cr.cfg, ".cfg"), map[string]any{"distinct": res.Distinct, "generated": res.Generated, "depth": res.Depth, "wall_s": res.WallS})
	if cr.coverage {
		var never []string
		for a, n := range res.ActionCount {
			if n == 0 {
				never = append(never, a)
			}
		}
		sort.Strings(never)
		ctx.SetExtra("actions_never_taken_"+strings.TrimSuffix(cr.cfg, ".cfg"), never)
	}
	if cr.coverage && len(res.ActionCount) == 0 {
		return nil, fmt.Errorf("%s: TLC printed no coverage", cr.cfg)
	}
	if !cr.graph {
		return nil, nil
	}
	defer os.Remove(dot)
	t1 := time.Now()
	g, err := parseGraph(dot)
	if err != nil {
		return nil, fmt.Errorf("%s: %w", cr.cfg, err)
	}
	os.Remove(dot)
	if int64(len(g.nodes)) != res.Distinct {
		return nil, fmt.Errorf("%s: graph has %d nodes, TLC reports %d distinct states", cr.cfg, len(g.nodes), res.Distinct)
	}
	recordLabels(g)
	initLast := g.nodes[g.inits[0]].Last()
	cc, err := newConcrete(readConsts(initLast), ctx.Rand("concrete:"+cr.cfg))
	if err != nil {
		return nil, err
	}
	r := &runner{ctx: ctx, cfg: cr.cfg, cc: cc}
	paths, covered := g.coverPaths(ctx.Rand("paths:"+cr.cfg), cr.maxPaths, cr.maxLen)
	ctx.Logf("%s: graph %d nodes %d edges parsed in %.0fs; %d paths cover %d edges", cr.cfg, len(g.nodes), g.edges, time.Since(t1).Seconds(), len(paths), covered)
	for k, n := 1, len(paths); k < cr.repeat; k++ {
		paths = append(paths, paths[:n]...)
	}
	return func(work string) error { return r.replayAll(g, paths, covered, work) }, nil
}

func (r *runner) replayAll(g *graph, paths [][]int32, covered int, work string) (err error) {
	defer func() {
		if p := recover(); p != nil {
			err = fmt.Errorf("%s: %v", r.cfg, p)
		}
	}()
	ctx := r.ctx
	var mu sync.Mutex
	var infra error
	var steps, drifts int64
	kinds := map[string]int64{}
	driftSamples := []string{}
	name := strings.TrimSuffix(r.cfg, ".cfg")
	for _, p := range paths {
		for _, ni := range p {
			g.nodes[ni].Last() // parse before the goroutines share the nodes
		}
	}
	var seq int64
	parallel(goWorkers(ctx), len(paths), func(i int) {
		mu.Lock()
		stop := infra != nil
		mu.Unlock()
		if stop {
			return
		}
		id := atomic.AddInt64(&seq, 1)
		if atomic.LoadInt64(&hangs) >= maxHangs {
			return // every hung case keeps a goroutine spinning: stop after a few
		}
		// Watchdog: the code under test may loop forever (a cursor that never
		// ends inside DeleteBucket / PruneBlocks / Commit ...).  A case that
		// does not return in time is a violation of the property (the
		// operation never takes effect), not a harness failure.
		var progress int64
		done := make(chan outcome, 1)
		go func() {
			defer func() {
				if p := recover(); p != nil {
					done <- outcome{infra: fmt.Errorf("panic while replaying: %v", p)}
				}
			}()
			done <- r.replayPath(g, paths[i], filepath.Join(work, fmt.Sprintf("%s-%d", name, id)), &progress)
		}()
		var out outcome
		select {
		case out = <-done:
		case <-time.After(caseTimeout):
			atomic.AddInt64(&hangs, 1)
			at := int(atomic.LoadInt64(&progress))
			var trace []any
			for _, ni := range paths[i] {
				trace = append(trace, g.nodes[ni].Last().Go())
			}
			stepName := "?"
			if at < len(paths[i]) {
				stepName = stepLabel(g.nodes[paths[i][at]].Last())
			}
			ctx.AddTraces(1)
			ctx.Violation("hang:"+name+":"+stepName, fmt.Sprintf("replaying a behaviour of %s did not return within %s; it hangs in (or right after) step %d (%s)", r.cfg, caseTimeout, at, stepName),
				map[string]any{"config": r.cfg, "failing_step": at, "steps": trace})
			return
		}
		ctx.AddTraces(1)
		ctx.AddEval(out.evals)
		mu.Lock()
		defer mu.Unlock()
		steps += int64(out.steps)
		for _, k := range out.kinds {
			kinds[k]++
		}
		if out.infra != nil {
			if infra == nil {
				infra = fmt.Errorf("%s path %d: %v", r.cfg, i, out.infra)
			}
			return
		}
		if out.drift != "" {
			drifts++
			if len(driftSamples) < 5 {
				driftSamples = append(driftSamples, out.drift)
			}
		}
		for _, d := range out.divs {
			if os.Getenv("VERIF_FFLDB_NOKNOWN") != "" { // development aid: show known findings in full
				d.key += "(shown)"
			}
			ctx.Violation(d.key, d.what, map[string]any{
				"config": r.cfg, "failing_step": out.atStep, "steps": out.trace,
				"how": "replay the listed specification steps (field a = action) against a fresh ffldb database: /verif/check.sh C05 " + ctx.Tier + " with VERIF_SEED=" + fmt.Sprint(ctx.Seed),
			})
		}
	})
	if infra != nil {
		return infra
	}
	ctx.AddExtra("edges_replayed", int64(covered))
	ctx.AddExtra("steps_replayed", steps)
	atomic.AddInt64(&distinctNT, int64(covered))
	if drifts > 0 {
		ctx.AddExtra("model_drift", drifts)
		ctx.SetExtra("model_drift_samples_"+name, driftSamples)
		ctx.Logf("%s: WARNING %d paths with a model drift (real behaviour allowed by the property but not predicted by the specification), e.g. %s", r.cfg, drifts, driftSamples[0])
	}
	ks := make([]string, 0, len(kinds))
	for k := range kinds {
		ks = append(ks, fmt.Sprintf("%s=%d", k, kinds[k]))
	}
	sort.Strings(ks)
	ctx.Logf("%s: replayed %d paths, %d steps (%s)", r.cfg, len(paths), steps, strings.Join(ks, " "))
	if len(paths) > 0 {
		var sample []any
		for _, ni := range paths[len(paths)/2] {
			sample = append(sample, g.nodes[ni].Last().Go())
		}
		ctx.Sample(map[string]any{"config": r.cfg, "path": sample})
	}
	return nil
}

func parallel(workers, n int, fn func(i int)) {
	if workers > n {
		workers = n
	}
	if workers < 1 {
		workers = 1
	}
	var wg sync.WaitGroup
	var next int64 = -1
	for k := 0; k < workers; k++ {
		wg.Add(1)
		go func() {
			defer wg.Done()
			for {
				i := int(atomic.AddInt64(&next, 1))
				if i >= n {
					return
				}
				fn(i)
			}
		}()
	}
	wg.Wait()
}

// simCfg replays random behaviours (TLC -simulate) of a configuration whose
// state graph is too large to dump.
func simCfg(ctx *vrun.Ctx, cfg string, num, depth int, work string, sem chan struct{}) error {
	o := tlc.Opts{
		SpecDir: ctx.SpecDir("ffldb"), Module: "MCFfldb", Config: cfg,
		Timeout: 10 * time.Minute, HeapGB: 4, Scratch: ctx.Scratch,
		Sim: &tlc.Sim{Num: num, Depth: depth, Seed: ctx.Seed},
	}
	res, err := tlc.Run(o)
	if err != nil {
		return fmt.Errorf("%s (simulate): %w", cfg, err)
	}
	if !res.OK {
		return fmt.Errorf("%s (simulate): the specification violates its own %s %s", cfg, res.ErrKind, res.ErrName)
	}
	g := &graph{index: map[string]int32{}}
	var paths [][]int32
	edges := map[string]bool{}
	for bi, beh := range res.Behaviours {
		var path []int32
		for si, st := range beh {
			l, ok1 := st.State["last"]
			ob, ok2 := st.State["obs"]
			if !ok1 || !ok2 {
				return fmt.Errorf("%s (simulate): behaviour %d state %d lacks last/obs", cfg, bi, si)
			}
			lv := l
			g.nodes = append(g.nodes, &node{id: fmt.Sprintf("%d.%d", bi, si), lastV: &lv, obs: ob.String(), last: l.String()})
			path = append(path, int32(len(g.nodes)-1))
		}
		// cut back to a point where no Commit is running and the database is open
		for len(path) > 0 {
			n := g.nodes[path[len(path)-1]]
			if n.midCommit() || n.action() == "Crash" {
				path = path[:len(path)-1]
				continue
			}
			break
		}
		if len(path) < 2 {
			continue
		}
		for k := 1; k < len(path); k++ {
			edges[g.nodes[path[k-1]].last+"|"+g.nodes[path[k-1]].obs+"=>"+g.nodes[path[k]].last+"|"+g.nodes[path[k]].obs] = true
		}
		paths = append(paths, path)
	}
	if len(paths) == 0 {
		return fmt.Errorf("%s (simulate): no usable behaviour", cfg)
	}
	cc, err := newConcrete(readConsts(g.nodes[paths[0][0]].Last()), ctx.Rand("concrete:"+cfg))
	if err != nil {
		return err
	}
	ctx.Logf("%s: %d simulated behaviours, %d distinct transitions", cfg, len(paths), len(edges))
	r := &runner{ctx: ctx, cfg: cfg + "(simulate)", cc: cc}
	sem <- struct{}{}
	defer func() { <-sem }()
	return r.replayAll(g, paths, len(edges), work)
}

// RunC05 is the check for property C05.
func RunC05(ctx *vrun.Ctx) error {
	work := workDir(ctx)
	defer os.RemoveAll(work)
	ctx.Ev.Coverage.Rule = "every distinct transition (edge) of the TLC state graph of Ffldb.tla replayed into a real database/ffldb instance counts once; states/transitions are TLC's distinct/generated counts"
	ctx.Assume("goleveldb is an atomic, durable batch store (its internals are outside /repo)")
	ctx.Assume("a process-crash image is a copy of the database directory taken between two I/O calls; a power loss is simulated by additionally cutting every block file back to its length at its last successful Sync (leveldb's own durability is trusted)")
	ctx.Assume("the cursor of a bucket yields its keys in byte order followed by its nested buckets in byte order")
	var runs, big []cfgRun
	if ctx.Thorough {
		runs = []cfgRun{
			{cfg: "kv.cfg", graph: true, maxPaths: 20000, timeout: 20 * time.Minute, heapGB: 8},
			{cfg: "blk.cfg", graph: true, timeout: 20 * time.Minute, heapGB: 8},
			{cfg: "iso.cfg", graph: true, timeout: 20 * time.Minute, heapGB: 8},
			{cfg: "isodel.cfg", graph: true, repeat: 4, timeout: 20 * time.Minute, heapGB: 8},
			{cfg: "pow.cfg", graph: true, timeout: 20 * time.Minute, heapGB: 8},
			{cfg: "cur.cfg", graph: true, timeout: 20 * time.Minute, heapGB: 8},
			{cfg: "curmix.cfg", graph: true, timeout: 20 * time.Minute, heapGB: 8},
			{cfg: "isoblk.cfg", graph: true, timeout: 20 * time.Minute, heapGB: 8},
			{cfg: "fault2.cfg", graph: true, timeout: 20 * time.Minute, heapGB: 8},
			{cfg: "blk3.cfg", graph: true, maxPaths: 15000, timeout: 20 * time.Minute, heapGB: 8},
		}
		// exhaustive TLC only (state graphs too large to dump); behaviours of
		// these configurations are replayed from simulation below
		big = []cfgRun{
			{cfg: "blkbig.cfg", timeout: 25 * time.Minute, heapGB: 8},
			{cfg: "kvblk.cfg", timeout: 25 * time.Minute, heapGB: 8},
			{cfg: "kv3.cfg", timeout: 25 * time.Minute, heapGB: 8},
			{cfg: "iso2.cfg", timeout: 25 * time.Minute, heapGB: 8},
			{cfg: "curmixr.cfg", timeout: 25 * time.Minute, heapGB: 8},
		}
	} else {
		runs = []cfgRun{
			{cfg: "blk.cfg", graph: true, maxPaths: 1200, timeout: 5 * time.Minute, heapGB: 6},
			{cfg: "pow.cfg", graph: true, maxPaths: 600, timeout: 5 * time.Minute, heapGB: 6},
			{cfg: "cur.cfg", graph: true, maxPaths: 800, timeout: 5 * time.Minute, heapGB: 6},
			{cfg: "curmix.cfg", graph: true, maxPaths: 800, timeout: 5 * time.Minute, heapGB: 6},
			{cfg: "iso.cfg", graph: true, maxPaths: 600, timeout: 5 * time.Minute, heapGB: 6},
			{cfg: "isodel.cfg", graph: true, maxPaths: 500, repeat: 3, timeout: 5 * time.Minute, heapGB: 6},
			{cfg: "isoblk.cfg", graph: true, maxPaths: 700, timeout: 5 * time.Minute, heapGB: 6},
			{cfg: "kvq.cfg", graph: true, maxPaths: 1000, timeout: 5 * time.Minute, heapGB: 6},
		}
	}
	if sel := os.Getenv("VERIF_FFLDB_CFGS"); sel != "" { // development aid: restrict the configurations
		var keep []cfgRun
		for _, cr := range runs {
			for _, s := range strings.Split(sel, ",") {
				if cr.cfg == s {
					keep = append(keep, cr)
				}
			}
		}
		runs = keep
		keep = nil
		for _, cr := range big {
			for _, s := range strings.Split(sel, ",") {
				if cr.cfg == s {
					keep = append(keep, cr)
				}
			}
		}
		big = keep
	}
	// The treap check is independent: it runs beside the ffldb pipeline.
	treapDone := make(chan error, 1)
	go func() {
		defer func() {
			if p := recover(); p != nil {
				treapDone <- fmt.Errorf("treap: %v", p)
			}
		}()
		treapPaths := 1000
		if ctx.Thorough {
			treapPaths = 40000
		}
		if os.Getenv("VERIF_FFLDB_CFGS") == "" || strings.Contains(os.Getenv("VERIF_FFLDB_CFGS"), "treap") {
			treapCfgs := []string{"treap_del.cfg", "treap_iter.cfg", "treap_imm.cfg"}
			if ctx.Thorough {
				treapCfgs = append(treapCfgs, "treap_imm_big.cfg")
			}
			for _, cfg := range treapCfgs {
				if err := runTreap(ctx, cfg, treapPaths); err != nil {
					treapDone <- err
					return
				}
			}
		}
		treapDone <- nil
	}()
	// TLC runs one configuration at a time; the replay of a configuration
	// overlaps with the model checking of the next one.
	type job struct {
		cr  cfgRun
		g   *graph
		err error
	}
	var firstErr error
	var mu sync.Mutex
	setErr := func(err error) {
		mu.Lock()
		if firstErr == nil {
			firstErr = err
		}
		mu.Unlock()
	}
	var wg sync.WaitGroup
	sem := make(chan struct{}, 1) // one replay at a time
	// Several small TLC runs at a time (each with few workers): on a shared
	// machine the JVM start-up dominates the small configurations.
	conc := 3
	if ctx.Thorough {
		conc = 2
	}
	if len(runs) == 0 {
		conc = 0
	}
	jobs := make(chan cfgRun)
	for k := 0; k < conc; k++ {
		wg.Add(1)
		go func() {
			defer wg.Done()
			for cr := range jobs {
				mu.Lock()
				stop := firstErr != nil
				mu.Unlock()
				if stop {
					continue
				}
				replay, err := modelCheck(ctx, cr)
				if err != nil {
					setErr(err)
					continue
				}
				if replay == nil {
					continue
				}
				sem <- struct{}{}
				err = replay(work)
				<-sem
				if err != nil {
					setErr(err)
				}
			}
		}()
	}
	// one more lane model-checks the large configurations meanwhile, and one
	// replays simulated behaviours of them
	wg.Add(1)
	go func() {
		defer wg.Done()
		for _, cr := range big {
			mu.Lock()
			stop := firstErr != nil
			mu.Unlock()
			if stop {
				return
			}
			if _, err := modelCheck(ctx, cr); err != nil {
				setErr(err)
				return
			}
		}
	}()
	simsel := os.Getenv("VERIF_FFLDB_CFGS")
	if ctx.Thorough && (simsel == "" || strings.Contains(simsel, "sim")) {
		wg.Add(1)
		go func() {
			defer wg.Done()
			for _, sc := range []struct {
				cfg        string
				num, depth int
			}{{"blkbig.cfg", 600, 90}, {"kvblk.cfg", 800, 80}, {"kv3.cfg", 600, 40}, {"iso2.cfg", 800, 40}, {"cur2.cfg", 1500, 45}, {"curmixr.cfg", 1000, 32}} {
				mu.Lock()
				stop := firstErr != nil
				mu.Unlock()
				if stop {
					return
				}
				if err := simCfg(ctx, sc.cfg, sc.num, sc.depth, work, sem); err != nil {
					setErr(err)
					return
				}
			}
		}()
	}
	for _, cr := range runs {
		jobs <- cr
	}
	close(jobs)
	wg.Wait()
	if firstErr != nil {
		return firstErr
	}
	if err := <-treapDone; err != nil {
		return err
	}
	ctx.Ev.Coverage.DistinctNT += atomic.SwapInt64(&distinctNT, 0)
	labelsMu.Lock()
	hist := map[string]int64{}
	for k, v := range labels {
		hist[k] = v
	}
	labelsMu.Unlock()
	ctx.SetExtra("spec_step_kinds", hist)
	never := []string{}
	for _, l := range requiredLabels {
		if hist[l] == 0 {
			never = append(never, l)
		}
	}
	ctx.SetExtra("actions_never_taken", never)
	if ctx.Thorough && len(never) > 0 && os.Getenv("VERIF_FFLDB_CFGS") == "" {
		return fmt.Errorf("vacuity audit: specification steps that never occur in any state graph: %v", never)
	}
	ctx.Ev.Coverage.Exhaustive = false
	ctx.Ev.Coverage.Explanation = "TLC explores each listed configuration of Ffldb.tla exhaustively; the real code is driven along paths that cover the state graphs' transitions (all of them in the thorough tier for the small graph configurations, a seeded sample of at most 15000-40000 paths for kv, blk3 and the treap graphs and of 600-1500 paths per configuration in the quick tier) plus, in the thorough tier, simulated behaviours of the configurations that are only model-checked"
	return nil
}
