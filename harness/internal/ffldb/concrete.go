package ffldb

import (
	"bytes"
	"fmt"
	"math/rand"
	"sort"
	"time"

	"github.com/btcsuite/btcd/btcutil/v2"
	"github.com/btcsuite/btcd/chainhash/v2"
	"github.com/btcsuite/btcd/wire/v2"

	"verif/harness/internal/tla"
)

// consts are the constants of the checked configuration, read from the `last`
// record of the initial state.
type consts struct {
	keys   []string
	vals   []string
	names  []string
	depth  int
	blocks []string
	rawLen map[string]int
	limit  uint32
	target uint64
	power  bool
	pre    []string
}

func seqStrs(v tla.Value) []string {
	if v.Kind == tla.KSeq || v.Kind == tla.KSet {
		return v.Strs()
	}
	panic(fmt.Sprintf("not a sequence/set of strings: %s", v))
}

func readConsts(l tla.Value) consts {
	c := consts{
		keys:   seqStrs(l.F("keys")),
		vals:   seqStrs(l.F("vals")),
		names:  seqStrs(l.F("names")),
		depth:  l.F("depth").Int(),
		blocks: seqStrs(l.F("blocks")),
		rawLen: map[string]int{},
		limit:  uint32(l.F("limit").Int()),
		target: uint64(l.F("target").Int()),
		power:  l.F("power").Bool(),
	}
	rl := l.F("rawlen")
	for i, b := range c.blocks {
		c.rawLen[b] = rl.At(i + 1).Int()
	}
	return c
}

// concrete maps the abstract names of the specification to real bytes.  The
// byte order of keys and bucket names equals the order the specification
// declares (KeyOrder / NameOrder); everything else is drawn from the seed.
type concrete struct {
	c       consts
	key     map[string][]byte
	keyRev  map[string]string
	val     map[string][]byte
	valRev  map[string]string
	name    map[string][]byte
	nameRev map[string]string
	block   map[string]*btcutil.Block
	raw     map[string][]byte
	hash    map[string]chainhash.Hash
	hashRev map[chainhash.Hash]string
}

func randBytes(rng *rand.Rand, n int) []byte {
	b := make([]byte, n)
	for i := range b {
		b[i] = byte(rng.Intn(256))
	}
	return b
}

// orderedNames draws n distinct byte strings in ascending byte order.  They
// deliberately include prefixes of each other and bytes 0x00 / 0xff.
func orderedNames(rng *rand.Rand, n int, lead byte) [][]byte {
	alphabet := []byte{0x00, 0x01, 'a', 'b', 0x7f, 0x80, 0xff}
	seen := map[string]bool{}
	var out [][]byte
	for len(out) < n {
		l := 1 + rng.Intn(3)
		b := []byte{lead}
		for i := 0; i < l; i++ {
			b = append(b, alphabet[rng.Intn(len(alphabet))])
		}
		if rng.Intn(3) == 0 && len(out) > 0 {
			// extend an existing name (prefix relation)
			b = append(append([]byte{}, out[rng.Intn(len(out))]...), alphabet[rng.Intn(len(alphabet))])
		}
		if seen[string(b)] {
			continue
		}
		seen[string(b)] = true
		out = append(out, b)
	}
	sort.Slice(out, func(i, j int) bool { return bytes.Compare(out[i], out[j]) < 0 })
	return out
}

func makeBlock(rng *rand.Rand, rawLen int) (*btcutil.Block, []byte, error) {
	hdr := wire.BlockHeader{
		Version:   int32(rng.Uint32()),
		Timestamp: time.Unix(int64(1600000000+rng.Intn(100000000)), 0),
		Bits:      rng.Uint32(),
		Nonce:     rng.Uint32(),
	}
	copy(hdr.PrevBlock[:], randBytes(rng, 32))
	copy(hdr.MerkleRoot[:], randBytes(rng, 32))
	msg := wire.NewMsgBlock(&hdr)
	const emptyBlock = 81 // header + tx count
	const txOverhead = 60 // version, counts, outpoint, sequence, value, script length bytes, locktime
	if rawLen != emptyBlock {
		pad := rawLen - emptyBlock - txOverhead
		if pad < 0 || pad > 400 {
			return nil, nil, fmt.Errorf("unsupported raw block length %d", rawLen)
		}
		sig := pad / 2
		if sig > 200 {
			sig = 200
		}
		tx := wire.NewMsgTx(2)
		var prev chainhash.Hash
		copy(prev[:], randBytes(rng, 32))
		tx.AddTxIn(wire.NewTxIn(wire.NewOutPoint(&prev, rng.Uint32()), randBytes(rng, sig), nil))
		tx.AddTxOut(wire.NewTxOut(int64(rng.Intn(1000000)), randBytes(rng, pad-sig)))
		if err := msg.AddTransaction(tx); err != nil {
			return nil, nil, err
		}
	}
	blk := btcutil.NewBlock(msg)
	raw, err := blk.Bytes()
	if err != nil {
		return nil, nil, err
	}
	if len(raw) != rawLen {
		return nil, nil, fmt.Errorf("block factory: built %d bytes, want %d", len(raw), rawLen)
	}
	return blk, raw, nil
}

func newConcrete(c consts, rng *rand.Rand) (*concrete, error) {
	cc := &concrete{c: c,
		key: map[string][]byte{}, keyRev: map[string]string{},
		val: map[string][]byte{}, valRev: map[string]string{},
		name: map[string][]byte{}, nameRev: map[string]string{},
		block: map[string]*btcutil.Block{}, raw: map[string][]byte{},
		hash: map[string]chainhash.Hash{}, hashRev: map[chainhash.Hash]string{},
	}
	ks := orderedNames(rng, len(c.keys), 'k')
	for i, k := range c.keys {
		cc.key[k] = ks[i]
		cc.keyRev[string(ks[i])] = k
	}
	ns := orderedNames(rng, len(c.names), 'n')
	for i, n := range c.names {
		cc.name[n] = ns[i]
		cc.nameRev[string(ns[i])] = n
	}
	for _, v := range c.vals {
		var b []byte
		if v == "" {
			b = []byte{}
		} else {
			for {
				b = randBytes(rng, 1+rng.Intn(12))
				if _, dup := cc.valRev[string(b)]; !dup {
					break
				}
			}
		}
		cc.val[v] = b
		cc.valRev[string(b)] = v
	}
	for _, b := range c.blocks {
		for {
			blk, raw, err := makeBlock(rng, c.rawLen[b])
			if err != nil {
				return nil, err
			}
			h := *blk.Hash()
			if _, dup := cc.hashRev[h]; dup {
				continue
			}
			cc.block[b], cc.raw[b], cc.hash[b] = blk, raw, h
			cc.hashRev[h] = b
			break
		}
	}
	return cc, nil
}
