// Package ffldb binds the TLA+ specification spec/ffldb/Ffldb.tla (and
// Treap.tla) to the real database/ffldb package (property C05).
package ffldb

import (
	"bufio"
	"fmt"
	"io"
	"math/rand"
	"os"
	"strings"

	"verif/harness/internal/tla"
)

// The state graphs of Ffldb.tla have 10^5 nodes whose printed states are
// several kB each, so the generic tlc.ParseDot (which keeps every parsed
// variable) is too heavy.  This reader keeps, per node, only the text of the
// two variables the binder needs (`last` and `obs`) and parses them on demand.

type node struct {
	id   string
	last string // TLA+ text of variable last
	obs  string // TLA+ text of variable obs
	out  []int32
	init bool
	dist int32
	from int32

	lastV *tla.Value
}

type graph struct {
	nodes []*node
	index map[string]int32
	inits []int32
	edges int
}

func unescapeDot(s string) string {
	if !strings.Contains(s, `\`) {
		return s
	}
	var sb strings.Builder
	sb.Grow(len(s))
	for i := 0; i < len(s); i++ {
		if s[i] == '\\' && i+1 < len(s) {
			i++
			switch s[i] {
			case 'n':
				sb.WriteByte('\n')
			case '"':
				sb.WriteByte('"')
			case '\\':
				sb.WriteByte('\\')
			default:
				sb.WriteByte('\\')
				sb.WriteByte(s[i])
			}
			continue
		}
		sb.WriteByte(s[i])
	}
	return sb.String()
}

// varText extracts the text of one variable from an unescaped state label.
func varText(label, name string) string {
	key := `/\ ` + name + " = "
	i := strings.Index(label, key)
	for i > 0 && label[i-1] != '\n' {
		j := strings.Index(label[i+1:], key)
		if j < 0 {
			return ""
		}
		i += 1 + j
	}
	if i < 0 {
		return ""
	}
	rest := label[i+len(key):]
	if j := strings.Index(rest, "\n/\\ "); j >= 0 {
		rest = rest[:j]
	}
	return rest
}

func (g *graph) get(id string) int32 {
	if i, ok := g.index[id]; ok {
		return i
	}
	i := int32(len(g.nodes))
	g.nodes = append(g.nodes, &node{id: id, dist: -1, from: -1})
	g.index[id] = i
	return i
}

func parseGraph(path string) (*graph, error) {
	f, err := os.Open(path)
	if err != nil {
		return nil, err
	}
	defer f.Close()
	g := &graph{index: map[string]int32{}}
	br := bufio.NewReaderSize(f, 1<<20)
	labelled := map[int32]bool{}
	for {
		line, rerr := br.ReadString('\n')
		if len(line) > 0 && (line[0] == '-' || (line[0] >= '0' && line[0] <= '9')) {
			line = strings.TrimRight(line, "\n")
			sp := strings.IndexByte(line, ' ')
			if sp > 0 {
				id := line[:sp]
				rest := line[sp+1:]
				switch {
				case strings.HasPrefix(rest, "-> "):
					rest = rest[3:]
					sp2 := strings.IndexByte(rest, ' ')
					if sp2 < 0 {
						return nil, fmt.Errorf("dot: bad edge line %q", line)
					}
					from, to := g.get(id), g.get(rest[:sp2])
					g.nodes[from].out = append(g.nodes[from].out, to)
					g.edges++
				case strings.HasPrefix(rest, `[label="`):
					body := rest[8:]
					end := -1
					for i := 0; i < len(body); i++ {
						if body[i] == '\\' {
							i++
							continue
						}
						if body[i] == '"' {
							end = i
							break
						}
					}
					if end < 0 {
						return nil, fmt.Errorf("dot: unterminated label for %s", id)
					}
					ni := g.get(id)
					if !labelled[ni] {
						labelled[ni] = true
						lab := unescapeDot(body[:end])
						n := g.nodes[ni]
						n.last = strings.Clone(varText(lab, "last"))
						n.obs = strings.Clone(varText(lab, "obs"))
						if n.last == "" || n.obs == "" {
							return nil, fmt.Errorf("dot: node %s lacks last/obs", id)
						}
						if strings.HasPrefix(body[end+1:], ",style = filled") {
							n.init = true
							g.inits = append(g.inits, ni)
						}
					}
				}
			}
		}
		if rerr == io.EOF {
			break
		}
		if rerr != nil {
			return nil, rerr
		}
	}
	for i, n := range g.nodes {
		if !labelled[int32(i)] {
			return nil, fmt.Errorf("dot: node %s has no label", n.id)
		}
	}
	if len(g.inits) == 0 {
		return nil, fmt.Errorf("dot: no initial state")
	}
	// BFS distances.
	var q []int32
	for _, i := range g.inits {
		g.nodes[i].dist = 0
		q = append(q, i)
	}
	for len(q) > 0 {
		i := q[0]
		q = q[1:]
		for _, t := range g.nodes[i].out {
			if g.nodes[t].dist < 0 {
				g.nodes[t].dist = g.nodes[i].dist + 1
				g.nodes[t].from = i
				q = append(q, t)
			}
		}
	}
	return g, nil
}

// Last returns the parsed `last` record of a node.
func (n *node) Last() tla.Value {
	if n.lastV == nil {
		v, err := tla.ParseValue(n.last)
		if err != nil {
			panic(fmt.Sprintf("node %s: last: %v", n.id, err))
		}
		n.lastV = &v
	}
	return *n.lastV
}

func (n *node) action() string { return n.Last().F("a").Str() }

// midCommit reports whether the node lies inside a commit chain (the real
// Commit call is still running there).
func (n *node) midCommit() bool {
	switch n.action() {
	case "CommitStart", "int", "io":
		return true
	}
	return false
}

// pathTo returns the node indices of the shortest path from an initial state.
func (g *graph) pathTo(i int32) []int32 {
	var rev []int32
	for i >= 0 {
		rev = append(rev, i)
		i = g.nodes[i].from
	}
	for a, b := 0, len(rev)-1; a < b; a, b = a+1, b-1 {
		rev[a], rev[b] = rev[b], rev[a]
	}
	return rev
}

// coverPaths returns node paths (each starting in the initial state) that
// together traverse every edge, or at most maxPaths of them when maxPaths > 0
// (start nodes are then visited in random order).  Paths are extended greedily
// through unvisited edges and are always completed to the end of a commit
// chain and past a pending Reopen, because the binder cannot stop inside a
// Commit call or leave a crashed database unopened.
func (g *graph) coverPaths(rng *rand.Rand, maxPaths, maxLen int) (paths [][]int32, covered int) {
	type ek struct {
		n int32
		i int
	}
	visited := map[ek]bool{}
	order := make([]int32, 0, len(g.nodes))
	for i := range g.nodes {
		if g.nodes[i].dist >= 0 {
			order = append(order, int32(i))
		}
	}
	if maxPaths > 0 {
		rng.Shuffle(len(order), func(i, j int) { order[i], order[j] = order[j], order[i] })
	}
	mustContinue := func(n *node) bool {
		return n.midCommit() || n.action() == "Crash"
	}
	for _, start := range order {
		for {
			idx := -1
			for i := range g.nodes[start].out {
				if !visited[ek{start, i}] {
					idx = i
					break
				}
			}
			if idx < 0 {
				break
			}
			path := g.pathTo(start)
			cur := start
			for {
				n := g.nodes[cur]
				var cand []int
				for i := range n.out {
					if !visited[ek{cur, i}] {
						cand = append(cand, i)
					}
				}
				if len(cand) == 0 || (maxLen > 0 && len(path) >= maxLen && cur != start && !mustContinue(n)) {
					break
				}
				i := cand[rng.Intn(len(cand))]
				visited[ek{cur, i}] = true
				covered++
				cur = n.out[i]
				path = append(path, cur)
			}
			// complete the chain
			for mustContinue(g.nodes[cur]) && len(g.nodes[cur].out) > 0 {
				n := g.nodes[cur]
				pick := -1
				for i := range n.out {
					if !visited[ek{cur, i}] {
						pick = i
						break
					}
				}
				if pick < 0 {
					// prefer the successful continuation
					pick = 0
					for i, t := range n.out {
						l := g.nodes[t].Last()
						if l.F("a").Str() == "io" && l.F("res").Str() == "ok" {
							pick = i
							break
						}
					}
				} else {
					visited[ek{cur, pick}] = true
					covered++
				}
				cur = n.out[pick]
				path = append(path, cur)
			}
			paths = append(paths, path)
			if maxPaths > 0 && len(paths) >= maxPaths {
				return paths, covered
			}
		}
	}
	return paths, covered
}
