package ffldb

import (
	"bytes"
	"errors"
	"fmt"
	"io"
	"math/rand"
	"os"
	"path/filepath"
	"sort"
	"strconv"
	"strings"
	"time"

	"github.com/btcsuite/btcd/chainhash/v2"
	"github.com/btcsuite/btcd/database"
	rffldb "github.com/btcsuite/btcd/database/ffldb"
	"github.com/btcsuite/btcd/wire/v2"

	"verif/harness/internal/tla"
)

const dbNet = wire.SimNet

var errInjected = errors.New("verif: injected I/O fault")

var corruptOracle = os.Getenv("VERIF_FFLDB_CORRUPT") != ""

// divergence is one difference between the real database and the
// specification's property layer.
type divergence struct {
	key  string // stable classification
	what string
}

// cont: the real database is still in the state the specification's
// implementation layer predicts (a known defect reproduced exactly), so the
// behaviour can be followed further.
func (d divergence) cont() bool {
	return strings.HasPrefix(d.key, "prune-not-atomic:")
}

// ioEvent is one counted I/O call observed during a Commit.
type ioEvent struct {
	op  string
	num uint32
}

// world is one real database driven along one behaviour of the specification.
type world struct {
	r    *runner
	cc   *concrete
	root string // scratch directory of this world
	dir  string // current database directory
	gen  int
	db   database.DB
	txs  map[string]database.Tx
	curs map[string]*curState

	// fault plan / recording, armed only while a Commit runs
	armed      bool
	plan       []string // result per counted I/O call: "ok" | "fail" | "partial"
	events     []ioEvent
	crashAfter int    // take the crash image before counted call number crashAfter (0-based); -1: none
	image      string // crash image directory once taken
	imageErr   error

	synced map[uint32]int64 // block file -> length at its last successful Sync

	reported map[string]bool // known-defect blocks already reported on this path
	evals    int64
	drift    string
	ioDrift  string // the commit's I/O calls differ from the specification's steps (noted, not a reason to stop)
}

func counted(op string) bool {
	switch op {
	case "delete", "openwrite", "write", "truncate", "sync", "ldbcommit":
		return true
	}
	return false
}

func (w *world) blockPath(num uint32) string {
	return filepath.Join(w.dir, fmt.Sprintf("%09d.fdb", num))
}

func (w *world) hooks() *rffldb.VerifHooks {
	return &rffldb.VerifHooks{
		Before: func(ev rffldb.VerifEvent) (int, error) {
			if !w.armed || !counted(ev.Op) {
				return 0, nil
			}
			k := len(w.events)
			w.events = append(w.events, ioEvent{ev.Op, ev.FileNum})
			if w.crashAfter >= 0 && k == w.crashAfter && w.image == "" && w.imageErr == nil {
				w.takeImage()
			}
			if k < len(w.plan) {
				switch w.plan[k] {
				case "fail":
					return 0, errInjected
				case "partial":
					return ev.Len / 2, errInjected
				}
			}
			return 0, nil
		},
		After: func(ev rffldb.VerifEvent, err error) {
			if err != nil {
				return
			}
			switch ev.Op {
			case "sync":
				if st, e := os.Stat(w.blockPath(ev.FileNum)); e == nil {
					w.synced[ev.FileNum] = st.Size()
				}
			case "openwrite":
				if _, ok := w.synced[ev.FileNum]; !ok {
					w.synced[ev.FileNum] = 0
				}
			case "truncate":
				if s, ok := w.synced[ev.FileNum]; ok && s > ev.Off {
					w.synced[ev.FileNum] = ev.Off
				}
			case "delete":
				delete(w.synced, ev.FileNum)
			}
		},
	}
}

// listing describes a directory tree (names and sizes) to detect changes made
// by leveldb's background compaction while the tree is being copied.
func listing(dir string) (string, error) {
	var sb strings.Builder
	err := filepath.Walk(dir, func(p string, info os.FileInfo, err error) error {
		if err != nil {
			return err
		}
		rel, _ := filepath.Rel(dir, p)
		fmt.Fprintf(&sb, "%s:%d:%d\n", rel, info.Size(), info.ModTime().UnixNano())
		return nil
	})
	return sb.String(), err
}

func copyTree(src, dst string) error {
	return filepath.Walk(src, func(p string, info os.FileInfo, err error) error {
		if err != nil {
			return err
		}
		rel, _ := filepath.Rel(src, p)
		target := filepath.Join(dst, rel)
		if info.IsDir() {
			return os.MkdirAll(target, 0o755)
		}
		in, err := os.Open(p)
		if err != nil {
			return err
		}
		defer in.Close()
		out, err := os.Create(target)
		if err != nil {
			return err
		}
		if _, err := io.Copy(out, in); err != nil {
			out.Close()
			return err
		}
		return out.Close()
	})
}

// takeImage copies the database directory as a crash would leave it: every
// byte handed to the operating system so far is there (process crash); in
// power-loss mode block files are cut back to their last synced length.
func (w *world) takeImage() {
	w.gen++
	dst := filepath.Join(w.root, "img"+strconv.Itoa(w.gen))
	for attempt := 0; ; attempt++ {
		before, err := listing(w.dir)
		if err == nil {
			os.RemoveAll(dst)
			err = copyTree(w.dir, dst)
		}
		var after string
		if err == nil {
			after, err = listing(w.dir)
		}
		if err == nil && before == after {
			break
		}
		if attempt >= 20 {
			if err == nil {
				err = fmt.Errorf("database directory kept changing while being copied")
			}
			w.imageErr = err
			return
		}
		time.Sleep(time.Duration(attempt+1) * 2 * time.Millisecond)
	}
	if w.cc.c.power {
		files, _ := filepath.Glob(filepath.Join(dst, "*.fdb"))
		for _, f := range files {
			n, err := strconv.Atoi(strings.TrimSuffix(filepath.Base(f), ".fdb"))
			if err != nil {
				continue
			}
			s := w.synced[uint32(n)]
			if st, err := os.Stat(f); err == nil && st.Size() > s {
				if err := os.Truncate(f, s); err != nil {
					w.imageErr = err
					return
				}
			}
		}
	}
	w.image = dst
}

func (w *world) configure() {
	rffldb.VerifInstall(w.db, w.hooks())
	rffldb.VerifSetMaxBlockFileSize(w.db, w.cc.c.limit)
	rffldb.VerifSetFlush(w.db, 1000*time.Hour, 1<<40)
}

func (w *world) create() error {
	w.gen++
	w.dir = filepath.Join(w.root, "db"+strconv.Itoa(w.gen))
	db, err := database.Create("ffldb", w.dir, dbNet)
	if err != nil {
		return err
	}
	w.db = db
	w.synced = map[uint32]int64{}
	w.configure()
	return nil
}

func (w *world) open() error {
	db, err := database.Open("ffldb", w.dir, dbNet)
	if err != nil {
		return err
	}
	w.db = db
	// whatever is on disk when the process starts has survived
	w.synced = map[uint32]int64{}
	files, _ := filepath.Glob(filepath.Join(w.dir, "*.fdb"))
	for _, f := range files {
		if n, err := strconv.Atoi(strings.TrimSuffix(filepath.Base(f), ".fdb")); err == nil {
			if st, err := os.Stat(f); err == nil {
				w.synced[uint32(n)] = st.Size()
			}
		}
	}
	w.configure()
	return nil
}

// shutdown abandons the running process: transactions are released and the
// database closed so that the directory can be removed.
func (w *world) shutdown() {
	for h, tx := range w.txs {
		_ = tx.Rollback()
		delete(w.txs, h)
		delete(w.curs, h)
	}
	if w.db != nil {
		rffldb.VerifUninstall(w.db)
		_ = w.db.Close()
		w.db = nil
	}
}

func (w *world) cleanup() {
	w.shutdown()
	os.RemoveAll(w.root)
}

// ---------------------------------------------------------------------------
// Observation of the real database.

type bucketDump struct {
	keys [][2]string // (spec key, spec value) in cursor order
	subs []string    // nested bucket names in cursor order
}

func (w *world) keyName(b []byte) string {
	if n, ok := w.cc.keyRev[string(b)]; ok {
		return n
	}
	return fmt.Sprintf("?key(%x)", b)
}

func (w *world) valName(b []byte) string {
	if b == nil {
		return "?nil"
	}
	if n, ok := w.cc.valRev[string(b)]; ok {
		return n
	}
	return fmt.Sprintf("?val(%x)", b)
}

func (w *world) subName(b []byte) string {
	if n, ok := w.cc.nameRev[string(b)]; ok {
		return n
	}
	return fmt.Sprintf("?bucket(%x)", b)
}

func internalName(k []byte) bool { return bytes.HasPrefix(k, []byte("ffldb-")) }

type entry struct {
	key    []byte
	val    []byte
	bucket bool
}

// Every walk over the real database is bounded: a bucket of the replayed
// universe holds at most its keys, its nested buckets and ffldb's two internal
// entries, so a walk that takes more steps than that does not terminate (or
// revisits entries) and is cut off; runaway reports it.
func (w *world) walkLimit() int {
	return len(w.cc.c.keys) + len(w.cc.c.names) + 8
}

func (w *world) walkForward(b database.Bucket) (out []entry, runaway bool) {
	c := b.Cursor()
	steps := 0
	for ok := c.First(); ok; ok = c.Next() {
		if steps++; steps > w.walkLimit() {
			return out, true
		}
		k, v := c.Key(), c.Value()
		if internalName(k) {
			continue
		}
		out = append(out, entry{k, v, v == nil})
	}
	return out, false
}

func (w *world) walkBackward(b database.Bucket) (out []entry, runaway bool) {
	c := b.Cursor()
	steps := 0
	for ok := c.Last(); ok; ok = c.Prev() {
		if steps++; steps > w.walkLimit() {
			return out, true
		}
		k, v := c.Key(), c.Value()
		if internalName(k) {
			continue
		}
		out = append(out, entry{k, v, v == nil})
	}
	return out, false
}

var errRunaway = errors.New("verif: walk cut off")

func sameEntries(a, b []entry) bool {
	if len(a) != len(b) {
		return false
	}
	for i := range a {
		if !bytes.Equal(a[i].key, b[i].key) || !bytes.Equal(a[i].val, b[i].val) || a[i].bucket != b[i].bucket {
			return false
		}
	}
	return true
}

// dumpBucket walks one bucket with every read API and cross-checks them; any
// inconsistency between the APIs is returned as a divergence.
func (w *world) dumpBucket(b database.Bucket, path []string, out map[string]bucketDump, divs *[]divergence) {
	pname := "/" + strings.Join(path, "/")
	fw, runaway := w.walkForward(b)
	if runaway {
		*divs = append(*divs, divergence{"cursor:walk-does-not-terminate", fmt.Sprintf("bucket %s: a First/Next walk yields more than %d entries (the bucket can hold at most %d)", pname, w.walkLimit(), w.walkLimit()-6)})
	}
	var d bucketDump
	for _, e := range fw {
		if e.bucket {
			d.subs = append(d.subs, w.subName(e.key))
		} else {
			d.keys = append(d.keys, [2]string{w.keyName(e.key), w.valName(e.val)})
		}
	}
	out[pname] = d

	// backward walk is the mirror image
	bw, runaway := w.walkBackward(b)
	if runaway {
		*divs = append(*divs, divergence{"cursor:walk-does-not-terminate", fmt.Sprintf("bucket %s: a Last/Prev walk yields more than %d entries (the bucket can hold at most %d)", pname, w.walkLimit(), w.walkLimit()-6)})
	}
	for i, j := 0, len(bw)-1; i < j; i, j = i+1, j-1 {
		bw[i], bw[j] = bw[j], bw[i]
	}
	w.evals++
	if !sameEntries(fw, bw) {
		*divs = append(*divs, divergence{"order:backward-walk", fmt.Sprintf("bucket %s: Last/Prev walk is not the reverse of First/Next", pname)})
	}
	// ForEach / ForEachBucket
	var fe, feb []entry
	feSteps := 0
	if err := b.ForEach(func(k, v []byte) error {
		if feSteps++; feSteps > w.walkLimit() {
			return errRunaway
		}
		if !internalName(k) {
			fe = append(fe, entry{append([]byte{}, k...), append([]byte{}, v...), false})
		}
		return nil
	}); err == errRunaway {
		*divs = append(*divs, divergence{"cursor:walk-does-not-terminate", fmt.Sprintf("bucket %s: ForEach yields more than %d entries", pname, w.walkLimit())})
	}
	feSteps = 0
	if err := b.ForEachBucket(func(k []byte) error {
		if feSteps++; feSteps > w.walkLimit() {
			return errRunaway
		}
		if !internalName(k) {
			feb = append(feb, entry{append([]byte{}, k...), nil, true})
		}
		return nil
	}); err == errRunaway {
		*divs = append(*divs, divergence{"cursor:walk-does-not-terminate", fmt.Sprintf("bucket %s: ForEachBucket yields more than %d entries", pname, w.walkLimit())})
	}
	var fwKeys, fwSubs []entry
	for _, e := range fw {
		if e.bucket {
			fwSubs = append(fwSubs, e)
		} else {
			fwKeys = append(fwKeys, entry{e.key, append([]byte{}, e.val...), false})
		}
	}
	w.evals += 2
	if !sameEntries(fe, fwKeys) {
		*divs = append(*divs, divergence{"order:foreach", fmt.Sprintf("bucket %s: ForEach differs from the cursor walk", pname)})
	}
	if !sameEntries(feb, fwSubs) {
		*divs = append(*divs, divergence{"order:foreachbucket", fmt.Sprintf("bucket %s: ForEachBucket differs from the cursor walk", pname)})
	}
	// Get / Seek for every key of the universe
	present := map[string][]byte{}
	for _, e := range fwKeys {
		present[string(e.key)] = e.val
	}
	for _, k := range w.cc.c.keys {
		kb := w.cc.key[k]
		got := b.Get(kb)
		want, ok := present[string(kb)]
		w.evals++
		if ok != (got != nil) || (ok && !bytes.Equal(got, want)) {
			*divs = append(*divs, divergence{"map:get-vs-cursor", fmt.Sprintf("bucket %s: Get(%s)=%x (nil=%v) but the cursor walk has present=%v value %x", pname, k, got, got == nil, ok, want)})
		}
		// Seek lands on the first key >= k when there is one
		var first []byte
		for _, e := range fwKeys {
			if bytes.Compare(e.key, kb) >= 0 {
				first = e.key
				break
			}
		}
		if first != nil {
			c := b.Cursor()
			w.evals++
			if !c.Seek(kb) || !bytes.Equal(c.Key(), first) {
				*divs = append(*divs, divergence{"order:seek", fmt.Sprintf("bucket %s: Seek(%s) lands on %x, want %x", pname, k, c.Key(), first)})
			}
		}
	}
	// nested buckets
	psubs := map[string]bool{}
	for _, e := range fwSubs {
		psubs[string(e.key)] = true
	}
	for _, n := range w.cc.c.names {
		nb := w.cc.name[n]
		sub := b.Bucket(nb)
		w.evals++
		if (sub != nil) != psubs[string(nb)] {
			*divs = append(*divs, divergence{"map:bucket-vs-cursor", fmt.Sprintf("bucket %s: Bucket(%s) nil=%v but the cursor walk lists it=%v", pname, n, sub == nil, psubs[string(nb)])})
		}
		if sub != nil && psubs[string(nb)] {
			w.dumpBucket(sub, append(append([]string{}, path...), n), out, divs)
		}
	}
	// buckets the universe does not know (would be a stray entry)
	for _, e := range fwSubs {
		if _, ok := w.cc.nameRev[string(e.key)]; !ok {
			if sub := b.Bucket(e.key); sub != nil {
				w.dumpBucket(sub, append(append([]string{}, path...), w.subName(e.key)), out, divs)
			}
		}
	}
}

type blockObs struct {
	beyond  string // non-empty: a region reaching past the end of the block was served
	has     bool
	fetchOK bool   // all fetch variants returned the stored bytes
	detail  string // what went wrong when !fetchOK
	class   string // "ok" | "notfound" | "error" | "wrongbytes"
}

func errCode(err error) (database.ErrorCode, bool) {
	var de database.Error
	if errors.As(err, &de) {
		return de.ErrorCode, true
	}
	return 0, false
}

func (w *world) observeBlock(tx database.Tx, name string) blockObs {
	h := w.cc.hash[name]
	raw := w.cc.raw[name]
	var o blockObs
	has, err := tx.HasBlock(&h)
	if err != nil {
		o.class, o.detail = "error", "HasBlock: "+err.Error()
		return o
	}
	o.has = has
	got, err := tx.FetchBlock(&h)
	if err != nil {
		if c, ok := errCode(err); ok && c == database.ErrBlockNotFound {
			o.class = "notfound"
		} else {
			o.class, o.detail = "error", "FetchBlock: "+err.Error()
		}
		return o
	}
	if !bytes.Equal(got, raw) {
		o.class, o.detail = "wrongbytes", fmt.Sprintf("FetchBlock returned %d bytes that differ from the %d stored", len(got), len(raw))
		return o
	}
	hdr, err := tx.FetchBlockHeader(&h)
	if err != nil || !bytes.Equal(hdr, raw[:80]) {
		o.class, o.detail = "wrongbytes", fmt.Sprintf("FetchBlockHeader: err=%v", err)
		if err != nil {
			o.class = "error"
		}
		return o
	}
	// regions: tail, middle, whole, and one past the end
	regs := []database.BlockRegion{
		{Hash: &h, Offset: 0, Len: uint32(len(raw))},
		{Hash: &h, Offset: uint32(len(raw) - 1), Len: 1},
		{Hash: &h, Offset: 36, Len: uint32(len(raw)-36) / 2},
	}
	for _, rg := range regs {
		b, err := tx.FetchBlockRegion(&rg)
		if err != nil {
			o.class, o.detail = "error", fmt.Sprintf("FetchBlockRegion(%d,%d): %v", rg.Offset, rg.Len, err)
			return o
		}
		if !bytes.Equal(b, raw[rg.Offset:rg.Offset+rg.Len]) {
			o.class, o.detail = "wrongbytes", fmt.Sprintf("FetchBlockRegion(%d,%d) differs from the stored bytes", rg.Offset, rg.Len)
			return o
		}
	}
	bulk, err := tx.FetchBlockRegions(regs)
	if err != nil || len(bulk) != len(regs) {
		o.class, o.detail = "error", fmt.Sprintf("FetchBlockRegions: %v", err)
		return o
	}
	for i, rg := range regs {
		if !bytes.Equal(bulk[i], raw[rg.Offset:rg.Offset+rg.Len]) {
			o.class, o.detail = "wrongbytes", fmt.Sprintf("FetchBlockRegions[%d] differs from the stored bytes", i)
			return o
		}
	}
	// a region that reaches past the end of the block (RawLen in the
	// specification) must be refused, never served
	past := database.BlockRegion{Hash: &h, Offset: uint32(len(raw) - 1), Len: 2}
	if b, err := tx.FetchBlockRegion(&past); err == nil {
		o.beyond = fmt.Sprintf("FetchBlockRegion(offset %d, len 2) of a %d byte block returned %x instead of an error", past.Offset, len(raw), b)
	}
	w.evals += 7
	o.class, o.fetchOK = "ok", true
	return o
}

type viewDump struct {
	kv  map[string]bucketDump
	blk map[string]blockObs
}

func (w *world) dumpView(tx database.Tx, divs *[]divergence) viewDump {
	v := viewDump{kv: map[string]bucketDump{}, blk: map[string]blockObs{}}
	w.dumpBucket(tx.Metadata(), nil, v.kv, divs)
	var hashes []chainhash.Hash
	for _, b := range w.cc.c.blocks {
		v.blk[b] = w.observeBlock(tx, b)
		hashes = append(hashes, w.cc.hash[b])
	}
	if len(hashes) > 0 {
		hb, err := tx.HasBlocks(hashes)
		w.evals++
		if err != nil || len(hb) != len(hashes) {
			*divs = append(*divs, divergence{"fidelity:hasblocks", fmt.Sprintf("HasBlocks: %v", err)})
		} else {
			for i, b := range w.cc.c.blocks {
				if hb[i] != v.blk[b].has {
					*divs = append(*divs, divergence{"fidelity:hasblocks", fmt.Sprintf("HasBlocks[%s]=%v but HasBlock=%v", b, hb[i], v.blk[b].has)})
				}
			}
		}
		var okHashes []chainhash.Hash
		var okNames []string
		for _, b := range w.cc.c.blocks {
			if v.blk[b].fetchOK {
				okHashes = append(okHashes, w.cc.hash[b])
				okNames = append(okNames, b)
			}
		}
		if len(okNames) >= 2 {
			// bulk region fetch over several blocks (stored and pending), in
			// orders that differ from the storage order, with a different
			// (offset, length) per block: every reply must be that part of
			// that block
			orders := [][]string{append([]string{}, okNames...), nil, nil}
			for i := len(okNames) - 1; i >= 0; i-- {
				orders[1] = append(orders[1], okNames[i])
			}
			orders[2] = append([]string{}, okNames...)
			rng := rand.New(rand.NewSource(w.r.ctx.Seed*1000003 + w.evals))
			rng.Shuffle(len(orders[2]), func(i, j int) { orders[2][i], orders[2][j] = orders[2][j], orders[2][i] })
			for _, ord := range orders {
				regs := make([]database.BlockRegion, len(ord))
				hs := make([]chainhash.Hash, len(ord))
				for j, b := range ord {
					hs[j] = w.cc.hash[b]
					regs[j] = database.BlockRegion{Hash: &hs[j], Offset: uint32(1 + 5*j + rng.Intn(7)), Len: uint32(7 + 3*j + rng.Intn(5))}
				}
				got, err := tx.FetchBlockRegions(regs)
				w.evals++
				if err != nil || len(got) != len(regs) {
					*divs = append(*divs, divergence{"fidelity:bulk-regions", fmt.Sprintf("FetchBlockRegions over blocks %v: %v", ord, err)})
					break
				}
				bad := false
				for j, b := range ord {
					want := w.cc.raw[b][regs[j].Offset : regs[j].Offset+regs[j].Len]
					if !bytes.Equal(got[j], want) {
						*divs = append(*divs, divergence{"fidelity:bulk-regions", fmt.Sprintf("FetchBlockRegions over blocks %v: reply %d (block %s, offset %d, len %d) is %x, stored bytes are %x", ord, j, b, regs[j].Offset, regs[j].Len, got[j], want)})
						bad = true
						break
					}
				}
				if bad {
					break
				}
			}
		}
		if len(okHashes) > 0 {
			bs, err := tx.FetchBlocks(okHashes)
			hs, err2 := tx.FetchBlockHeaders(okHashes)
			w.evals += 2
			if err != nil || err2 != nil || len(bs) != len(okHashes) || len(hs) != len(okHashes) {
				*divs = append(*divs, divergence{"fidelity:bulk-fetch", fmt.Sprintf("FetchBlocks/FetchBlockHeaders of individually readable blocks: %v / %v", err, err2)})
			} else {
				for i, b := range okNames {
					if !bytes.Equal(bs[i], w.cc.raw[b]) || !bytes.Equal(hs[i], w.cc.raw[b][:80]) {
						*divs = append(*divs, divergence{"fidelity:bulk-fetch", fmt.Sprintf("FetchBlocks/FetchBlockHeaders[%s] differ from the stored bytes", b)})
					}
				}
			}
		}
	}
	return v
}

// ---------------------------------------------------------------------------
// Comparison with the specification.

// fnEntries lists a printed TLA+ function (also records and tuples).
func fnEntries(v tla.Value) (keys, vals []tla.Value) {
	switch v.Kind {
	case tla.KFunc:
		return v.Keys, v.Elems
	case tla.KRec:
		d := v.Domain()
		for _, k := range d {
			keys = append(keys, k)
			vals = append(vals, v.Fields[k.S])
		}
		return
	case tla.KSeq:
		for i, e := range v.Elems {
			keys = append(keys, tla.IntV(i+1))
			vals = append(vals, e)
		}
		return
	}
	panic(fmt.Sprintf("not a function: %s", v))
}

func pathName(p tla.Value) string { return "/" + strings.Join(p.Strs(), "/") }

// specView is a rendered view of the specification (obs.db, obs.tx[h] or one
// element of obs.recov).
type specView struct {
	kv  map[string]bucketDump
	blk map[string]bool
	io  map[string]bool
}

func readSpecView(v tla.Value) specView {
	s := specView{kv: map[string]bucketDump{}, blk: map[string]bool{}, io: map[string]bool{}}
	ks, vs := fnEntries(v.F("kv"))
	for i := range ks {
		var d bucketDump
		for _, kvp := range vs[i].F("keys").Seq() {
			d.keys = append(d.keys, [2]string{kvp.At(1).Str(), kvp.At(2).Str()})
		}
		d.subs = vs[i].F("subs").Strs()
		if corruptOracle && len(d.keys) > 0 {
			// self-test of the binding (VERIF_FFLDB_CORRUPT=1): falsify one
			// expected value; the run must report violations
			if d.keys[0][1] == "v1" {
				d.keys[0][1] = ""
			} else {
				d.keys[0][1] = "v1"
			}
		}
		s.kv[pathName(ks[i])] = d
	}
	for _, b := range v.F("blk").Set() {
		s.blk[b.Str()] = true
	}
	if v.Has("io") {
		for _, b := range v.F("io").Set() {
			s.io[b.Str()] = true
		}
	}
	return s
}

func fmtBucket(d bucketDump) string {
	var sb strings.Builder
	sb.WriteString("keys[")
	for i, kv := range d.keys {
		if i > 0 {
			sb.WriteString(" ")
		}
		fmt.Fprintf(&sb, "%s=%q", kv[0], kv[1])
	}
	sb.WriteString("] buckets[")
	sb.WriteString(strings.Join(d.subs, " "))
	sb.WriteString("]")
	return sb.String()
}

func sortedPairs(p [][2]string) [][2]string {
	q := append([][2]string{}, p...)
	sort.Slice(q, func(i, j int) bool { return q[i][0] < q[j][0] })
	return q
}

func samePairs(a, b [][2]string) bool {
	if len(a) != len(b) {
		return false
	}
	for i := range a {
		if a[i] != b[i] {
			return false
		}
	}
	return true
}

func sameStrs(a, b []string) bool {
	if len(a) != len(b) {
		return false
	}
	for i := range a {
		if a[i] != b[i] {
			return false
		}
	}
	return true
}

// compareKV compares the nested maps.  prefix classifies the property clause
// (atomicity / isolation / durability ...).
func compareKV(real map[string]bucketDump, spec map[string]bucketDump, prefix, where string) []divergence {
	var divs []divergence
	var paths []string
	for p := range spec {
		paths = append(paths, p)
	}
	for p := range real {
		if _, ok := spec[p]; !ok {
			paths = append(paths, p)
		}
	}
	sort.Strings(paths)
	for _, p := range paths {
		r, rok := real[p]
		s, sok := spec[p]
		switch {
		case !rok:
			divs = append(divs, divergence{prefix + ":bucket-missing", fmt.Sprintf("%s: bucket %s is missing; specification has %s", where, p, fmtBucket(s))})
		case !sok:
			divs = append(divs, divergence{prefix + ":bucket-extra", fmt.Sprintf("%s: bucket %s exists (%s); the specification has no such bucket", where, p, fmtBucket(r))})
		default:
			if samePairs(r.keys, s.keys) && sameStrs(r.subs, s.subs) {
				continue
			}
			// same content in another order => ordering clause
			rs, ss := append([]string{}, r.subs...), append([]string{}, s.subs...)
			sort.Strings(rs)
			sort.Strings(ss)
			if samePairs(sortedPairs(r.keys), sortedPairs(s.keys)) && sameStrs(rs, ss) {
				divs = append(divs, divergence{"order:cursor", fmt.Sprintf("%s: bucket %s iterates as %s; byte order is %s", where, p, fmtBucket(r), fmtBucket(s))})
			} else {
				divs = append(divs, divergence{prefix + ":content", fmt.Sprintf("%s: bucket %s holds %s; specification has %s", where, p, fmtBucket(r), fmtBucket(s))})
			}
		}
	}
	return divs
}

// compareView compares a real view with the specification's.  Blocks the
// specification itself predicts to be unreadable (spec.io: the known pruning
// defects) are reported under their own key, once per path and block.
func (w *world) compareView(real viewDump, spec specView, prefix, where, ctxKey string) []divergence {
	divs := compareKV(real.kv, spec.kv, prefix, where)
	for _, b := range w.cc.c.blocks {
		o := real.blk[b]
		w.evals++
		want := spec.blk[b]
		switch {
		case want && spec.io[b]:
			// implementation layer predicts: index row present, data gone
			if o.has && o.class == "error" {
				if !w.reported[b] {
					w.reported[b] = true
					key := "prune-not-atomic:" + ctxKey
					divs = append(divs, divergence{key, fmt.Sprintf("%s: block %s is listed (HasBlock=true) but cannot be fetched: %s", where, b, o.detail)})
				}
			} else if o.class == "ok" && o.has {
				w.drift = fmt.Sprintf("%s: specification predicts block %s unreadable, real database serves it", where, b)
			} else {
				divs = append(divs, divergence{"fidelity:block", fmt.Sprintf("%s: block %s: HasBlock=%v fetch=%s %s; specification: stored", where, b, o.has, o.class, o.detail)})
			}
		case want:
			if o.beyond != "" && !w.reported["beyond"] {
				w.reported["beyond"] = true
				divs = append(divs, divergence{"fidelity:region-past-block-end-served", fmt.Sprintf("%s: block %s: %s", where, b, o.beyond)})
			}
			if !o.has || o.class != "ok" {
				k := "fidelity:block"
				if o.class == "notfound" || !o.has {
					k = prefix + ":block-missing"
				}
				divs = append(divs, divergence{k, fmt.Sprintf("%s: block %s: HasBlock=%v fetch=%s %s; specification: stored and byte-identical", where, b, o.has, o.class, o.detail)})
			}
		default:
			if o.has || o.class != "notfound" {
				divs = append(divs, divergence{prefix + ":block-extra", fmt.Sprintf("%s: block %s: HasBlock=%v fetch=%s %s; specification: not stored", where, b, o.has, o.class, o.detail)})
			}
		}
	}
	return divs
}

// matches reports whether a real view equals a rendered model exactly
// (blocks: exactly the listed ones, all readable).
func (w *world) matches(real viewDump, spec specView) bool {
	if len(compareKV(real.kv, spec.kv, "x", "")) > 0 {
		return false
	}
	for _, b := range w.cc.c.blocks {
		o := real.blk[b]
		if spec.blk[b] {
			if !o.has {
				return false
			}
		} else if o.has || o.class != "notfound" {
			return false
		}
	}
	return true
}
