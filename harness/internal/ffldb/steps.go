package ffldb

import (
	"bytes"
	"fmt"
	"os"
	"path/filepath"
	"strings"
	"sync/atomic"
	"time"

	"github.com/btcsuite/btcd/database"
	rffldb "github.com/btcsuite/btcd/database/ffldb"

	"verif/harness/internal/tla"
)

// outcome of replaying one path.
type outcome struct {
	steps  int
	evals  int64
	divs   []divergence
	drift  string
	atStep int   // index of the step with the first divergence
	infra  error // harness trouble (never a verdict)
	trace  []any // the abstract steps, for the replay file
	kinds  []string
}

func (w *world) bucketAt(tx database.Tx, p tla.Value) (database.Bucket, error) {
	b := tx.Metadata()
	for _, n := range p.Strs() {
		b = b.Bucket(w.cc.name[n])
		if b == nil {
			return nil, fmt.Errorf("bucket %s does not exist in the real transaction", pathName(p))
		}
	}
	return b, nil
}

// replayPath drives a fresh database along the path and compares after every
// step.  It stops at the first step with a divergence (later comparisons
// would only repeat it).
func (r *runner) replayPath(g *graph, path []int32, scratch string, progress *int64) (out outcome) {
	w := &world{r: r, cc: r.cc, root: scratch, txs: map[string]database.Tx{}, curs: map[string]*curState{}, crashAfter: -1, reported: map[string]bool{}}
	defer func() {
		out.evals = w.evals
		if out.drift == "" {
			out.drift = w.drift
		}
		if out.drift == "" && w.ioDrift != "" {
			out.drift = "I/O calls of Commit differ from the specification's steps (outcome as specified): " + w.ioDrift
		}
		w.cleanup()
	}()
	if err := os.MkdirAll(scratch, 0o755); err != nil {
		out.infra = err
		return
	}
	for _, ni := range path {
		out.trace = append(out.trace, g.nodes[ni].Last().Go())
	}
	var prevObs tla.Value
	for i := 0; i < len(path); i++ {
		atomic.StoreInt64(progress, int64(i))
		n := g.nodes[path[i]]
		l := n.Last()
		act := l.F("a").Str()
		obs, err := tla.ParseValue(n.obs)
		if err != nil {
			out.infra = fmt.Errorf("obs of node %s: %v", n.id, err)
			return
		}
		out.steps++
		out.kinds = append(out.kinds, act)
		var divs []divergence
		skipCompare := false
		switch act {
		case "Init":
			if err := w.create(); err != nil {
				out.infra = fmt.Errorf("create: %v", err)
				return
			}
			if pre := l.F("pre").Strs(); len(pre) > 0 {
				// buckets that exist (flushed) before the behaviour starts
				rffldb.VerifSetFlush(w.db, -time.Hour, 1<<40)
				err := w.db.Update(func(tx database.Tx) error {
					for _, n := range pre {
						if _, err := tx.Metadata().CreateBucket(w.cc.name[n]); err != nil {
							return err
						}
					}
					return nil
				})
				rffldb.VerifSetFlush(w.db, 1000*time.Hour, 1<<40)
				if err != nil {
					out.infra = fmt.Errorf("pre-creating buckets: %v", err)
					return
				}
			}
			if l.Has("precache") {
				if pc := l.F("precache").Strs(); len(pc) > 0 {
					// keys committed but not flushed before the behaviour starts
					err := w.db.Update(func(tx database.Tx) error {
						for _, k := range pc {
							if err := tx.Metadata().Put(w.cc.key[k], w.cc.val[l.F("preval").Str()]); err != nil {
								return err
							}
						}
						return nil
					})
					if err != nil {
						out.infra = fmt.Errorf("pre-populating the cache: %v", err)
						return
					}
				}
			}
		case "Begin":
			h := l.F("h").Str()
			tx, err := w.db.Begin(h == "w")
			if err != nil {
				divs = append(divs, divergence{"api:begin", fmt.Sprintf("Begin(%v) failed: %v", h == "w", err)})
				break
			}
			w.txs[h] = tx
		case "Cur":
			divs = append(divs, w.cursorStep(l)...)
		case "Rollback":
			h := l.F("h").Str()
			delete(w.curs, h)
			if err := w.txs[h].Rollback(); err != nil {
				divs = append(divs, divergence{"api:rollback", fmt.Sprintf("Rollback failed: %v", err)})
			}
			delete(w.txs, h)
		case "Put", "Delete", "CreateBucket", "DeleteBucket":
			tx := w.txs["w"]
			p := l.F("p")
			var err error
			switch act {
			case "Put":
				var b database.Bucket
				if b, err = w.bucketAt(tx, p); err == nil {
					err = b.Put(w.cc.key[l.F("k").Str()], w.cc.val[l.F("v").Str()])
				}
			case "Delete":
				var b database.Bucket
				if b, err = w.bucketAt(tx, p); err == nil {
					err = b.Delete(w.cc.key[l.F("k").Str()])
				}
			case "CreateBucket":
				ps := p.Strs()
				var b database.Bucket
				if b, err = w.bucketAt(tx, tla.Value{Kind: tla.KSeq, Elems: p.Elems[:len(ps)-1]}); err == nil {
					_, err = b.CreateBucket(w.cc.name[ps[len(ps)-1]])
				}
			case "DeleteBucket":
				ps := p.Strs()
				var b database.Bucket
				if b, err = w.bucketAt(tx, tla.Value{Kind: tla.KSeq, Elems: p.Elems[:len(ps)-1]}); err == nil {
					err = b.DeleteBucket(w.cc.name[ps[len(ps)-1]])
				}
			}
			if err != nil {
				divs = append(divs, divergence{"api:" + strings.ToLower(act), fmt.Sprintf("%s %s failed: %v", act, l, err)})
			}
		case "StoreBlock":
			if err := w.txs["w"].StoreBlock(w.cc.block[l.F("b").Str()]); err != nil {
				divs = append(divs, divergence{"api:storeblock", fmt.Sprintf("StoreBlock(%s) failed: %v", l.F("b").Str(), err)})
			}
		case "StoreDup":
			err := w.txs["w"].StoreBlock(w.cc.block[l.F("b").Str()])
			if c, ok := errCode(err); err == nil || !ok || c != database.ErrBlockExists {
				divs = append(divs, divergence{"api:storeblock-dup", fmt.Sprintf("StoreBlock(%s) of a block the transaction already has returned %v, want ErrBlockExists", l.F("b").Str(), err)})
			}
		case "Prune":
			hs, err := w.txs["w"].PruneBlocks(w.cc.c.target)
			if err != nil {
				divs = append(divs, divergence{"api:prune", fmt.Sprintf("PruneBlocks failed: %v", err)})
				break
			}
			got := map[string]bool{}
			for _, h := range hs {
				if name, ok := w.cc.hashRev[h]; ok {
					got[name] = true
				} else {
					got[h.String()] = true
				}
			}
			want := map[string]bool{}
			for _, b := range l.F("ret").Set() {
				want[b.Str()] = true
			}
			same := len(got) == len(want)
			for b := range want {
				same = same && got[b]
			}
			if !same {
				// which files pruning selects is not fixed by the property
				out.drift = fmt.Sprintf("PruneBlocks returned %v, specification predicts %v", keysOf(got), keysOf(want))
				out.atStep = i
				return
			}
		case "CommitStart":
			j, d, drift, infra := w.commitChain(g, path, i, prevObs)
			if infra != nil {
				out.infra = infra
				return
			}
			for k := i + 1; k <= j; k++ {
				out.kinds = append(out.kinds, g.nodes[path[k]].action())
			}
			out.steps += j - i
			i = j
			n = g.nodes[path[i]]
			l = n.Last()
			act = l.F("a").Str()
			if obs, err = tla.ParseValue(n.obs); err != nil {
				out.infra = err
				return
			}
			divs = append(divs, d...)
			if drift != "" {
				out.drift, out.atStep = drift, i
				if len(divs) > 0 {
					out.divs = divs
				}
				return
			}
			if act == "Crash" {
				skipCompare = true
			}
		case "Crash":
			w.takeImage()
			if w.imageErr != nil {
				out.infra = fmt.Errorf("crash image: %v", w.imageErr)
				return
			}
			w.crashInto()
			skipCompare = true
		case "Reopen":
			err := w.open()
			if err != nil {
				if l.F("ok").Bool() {
					divs = append(divs, divergence{"durability:reopen-error", fmt.Sprintf("database.Open of the crash image failed: %v", err)})
				}
				out.divs, out.atStep = divs, i
				return
			}
			if !l.F("ok").Bool() {
				out.drift, out.atStep = "specification predicts Open reports corruption, real Open succeeded", i
				return
			}
			// property: the reopened state is one of the allowed models
			// (listed by the Crash state); the specification predicts which.
			var dd []divergence
			var real viewDump
			if err := w.db.View(func(tx database.Tx) error { real = w.dumpView(tx, &dd); return nil }); err != nil {
				out.infra = err
				return
			}
			pred := readSpecView(obs.F("db"))
			cmp := w.compareView(real, pred, "durability", "after reopening the crash image", "crash")
			if len(cmp) > 0 || len(dd) > 0 {
				onlyKnown := len(dd) == 0
				for _, d := range cmp {
					if !d.cont() {
						onlyKnown = false
					}
				}
				if !onlyKnown {
					allowed := false
					for _, m := range prevObs.F("recov").Set() {
						if w.matches(real, readSpecView(m)) {
							allowed = true
						}
					}
					if allowed {
						fetchTrouble := false
						for _, d := range cmp {
							if strings.HasPrefix(d.key, "fidelity:") {
								fetchTrouble = true
							}
						}
						if !fetchTrouble {
							var ks []string
							for _, d := range append(append([]divergence{}, cmp...), dd...) {
								ks = append(ks, d.key+" ("+d.what+")")
							}
							out.drift, out.atStep = "reopened state is an allowed prefix but not the one the specification predicts: "+strings.Join(ks, "; "), i
							return
						}
					}
					for k := range cmp {
						if strings.HasPrefix(cmp[k].key, "durability:") {
							cmp[k].key = "durability:reopen-not-a-committed-prefix"
						}
					}
				}
				divs = append(divs, dd...)
				divs = append(divs, cmp...)
			}
			skipCompare = true
		case "Restart":
			if err := w.db.Close(); err != nil {
				divs = append(divs, divergence{"api:close", fmt.Sprintf("Close failed: %v", err)})
			}
			rffldb.VerifUninstall(w.db)
			w.db = nil
			if err := w.open(); err != nil {
				divs = append(divs, divergence{"durability:reopen-error", fmt.Sprintf("database.Open after a clean Close failed: %v", err)})
				out.divs, out.atStep = divs, i
				return
			}
		default:
			out.infra = fmt.Errorf("unknown action %q", act)
			return
		}

		if !skipCompare && len(divs) == 0 {
			ctxKey := "after-" + strings.ToLower(act)
			if act == "CommitEnd" {
				ctxKey = "commit"
				if l.F("err").Bool() {
					ctxKey = "failed-commit"
				}
			}
			divs = append(divs, w.compareAll(obs, act, ctxKey)...)
		}
		stop := false
		for _, d := range divs {
			out.divs = append(out.divs, d)
			out.atStep = i
			stop = stop || !d.cont()
		}
		if stop {
			return
		}
		if w.drift != "" {
			out.drift, out.atStep = w.drift, i
			return
		}
		prevObs = obs
	}
	return
}

func keysOf(m map[string]bool) []string {
	var s []string
	for k := range m {
		s = append(s, k)
	}
	return s
}

// crashInto abandons the running database and continues on the crash image.
func (w *world) crashInto() {
	old := w.dir
	w.shutdown()
	os.RemoveAll(old)
	w.dir = w.image
	w.image = ""
}

// compareAll compares every open transaction's view and, when no commit is
// running, the view of a fresh read transaction with the specification.
func (w *world) compareAll(obs tla.Value, act, dbCtx string) []divergence {
	var divs []divergence
	if !obs.F("up").Bool() {
		return nil
	}
	hs, vs := fnEntries(obs.F("tx"))
	for i := range hs {
		h := hs[i].Str()
		tx := w.txs[h]
		if tx == nil {
			divs = append(divs, divergence{"harness:no-tx", "no real transaction for handle " + h})
			continue
		}
		real := w.dumpView(tx, &divs)
		prefix, where, ctxKey := "isolation", fmt.Sprintf("read transaction %s after %s", h, act), "reader-snapshot"
		if h == "w" {
			prefix, where, ctxKey = "read-your-writes", fmt.Sprintf("write transaction after %s", act), "writer-view"
		}
		divs = append(divs, w.compareView(real, readSpecView(vs[i]), prefix, where, ctxKey)...)
		if vs[i].Has("cur") {
			divs = append(divs, w.compareCursor(h, vs[i].F("cur"), act)...)
		}
	}
	db := obs.F("db")
	if db.F("kv").Len() > 0 { // rendered only between commits
		var real viewDump
		err := w.db.View(func(tx database.Tx) error { real = w.dumpView(tx, &divs); return nil })
		if err != nil {
			divs = append(divs, divergence{"api:view", fmt.Sprintf("View failed: %v", err)})
			return divs
		}
		prefix, ctxKey := "atomicity", dbCtx
		divs = append(divs, w.compareView(real, readSpecView(db), prefix, fmt.Sprintf("fresh read transaction after %s", act), ctxKey)...)
	}
	return divs
}

// commitChain runs the real Commit for the chain of specification steps that
// starts at path[i] (CommitStart) and ends at CommitEnd or Crash.  It returns
// the index of that last step.
func (w *world) commitChain(g *graph, path []int32, i int, before tla.Value) (end int, divs []divergence, drift string, infra error) {
	start := g.nodes[path[i]].Last()
	fl := start.F("fl").Bool()
	var specIO []ioEvent
	w.plan = nil
	end = -1
	for j := i + 1; j < len(path); j++ {
		l := g.nodes[path[j]].Last()
		a := l.F("a").Str()
		if a == "io" {
			specIO = append(specIO, ioEvent{l.F("op").Str(), uint32(l.F("f").Int())})
			w.plan = append(w.plan, l.F("res").Str())
		}
		if a == "CommitEnd" || a == "Crash" {
			end = j
			break
		}
	}
	if end < 0 {
		return 0, nil, "", fmt.Errorf("path stops inside a commit chain")
	}
	endL := g.nodes[path[end]].Last()
	crash := endL.F("a").Str() == "Crash"
	w.crashAfter = -1
	if crash {
		w.crashAfter = len(specIO)
	}
	if fl {
		rffldb.VerifSetFlush(w.db, -time.Hour, 1<<40)
	} else {
		rffldb.VerifSetFlush(w.db, 1000*time.Hour, 1<<40)
	}
	w.events = nil
	w.image, w.imageErr = "", nil
	w.armed = true
	tx := w.txs["w"]
	cerr := tx.Commit()
	w.armed = false
	delete(w.txs, "w")
	delete(w.curs, "w")
	rffldb.VerifSetFlush(w.db, 1000*time.Hour, 1<<40)

	// implementation-layer conformance: the I/O calls are the ones the
	// specification's commit steps describe (up to the crash point).
	nCmp := len(specIO)
	evs := w.events
	if crash && len(evs) > nCmp {
		evs = evs[:nCmp]
	}
	ioDrift := ""
	if len(evs) != nCmp {
		ioDrift = fmt.Sprintf("commit made %d I/O calls %v, specification has %d %v", len(w.events), w.events, nCmp, specIO)
	} else {
		for k := range evs {
			if evs[k].op != specIO[k].op || (evs[k].op != "ldbcommit" && evs[k].num != specIO[k].num) {
				ioDrift = fmt.Sprintf("I/O call %d is %s(file %d), specification has %s(file %d)", k, evs[k].op, evs[k].num, specIO[k].op, specIO[k].num)
				break
			}
		}
	}

	if crash {
		if w.image == "" && w.imageErr == nil {
			if len(w.events) <= w.crashAfter {
				w.takeImage() // crash right after the last I/O call
			} else {
				infra = fmt.Errorf("crash image was not taken")
				return
			}
		}
		if w.imageErr != nil {
			infra = fmt.Errorf("crash image: %v", w.imageErr)
			return
		}
		w.crashInto()
		w.crashAfter = -1
		// the I/O sequence up to the crash is all that can be compared here;
		// the reopened image is judged at the Reopen step
		w.ioDrift = ioDrift
		return end, nil, "", nil
	}
	w.crashAfter = -1

	// Atomicity, property level: Commit returned nil => the store shows the
	// transaction's model; an error => the store shows the model before it.
	specErr := endL.F("err").Bool()
	realErr := cerr != nil
	if realErr == specErr {
		// state comparison is done by the caller against the CommitEnd state
		w.ioDrift = ioDrift
		return end, nil, "", nil
	}
	var dd []divergence
	var real viewDump
	if err := w.db.View(func(t database.Tx) error { real = w.dumpView(t, &dd); return nil }); err != nil {
		infra = err
		return
	}
	pre := readSpecView(before.F("db"))
	post := readSpecView(before.F("tx").F("w"))
	want, name := post, "the transaction's writes"
	if realErr {
		want, name = pre, "the state before the transaction"
	}
	if w.matches(real, want) && len(dd) == 0 {
		drift = fmt.Sprintf("Commit returned err=%v where the specification predicts err=%v; the store consistently shows %s", cerr, specErr, name)
		if ioDrift != "" {
			drift += "; " + ioDrift
		}
		return end, nil, drift, nil
	}
	key := "atomicity:commit-ok-but-state-differs"
	if realErr {
		key = "atomicity:commit-failed-but-state-changed"
	}
	cmp := w.compareView(real, want, "atomicity", fmt.Sprintf("after Commit returned %v", cerr), "failed-commit")
	what := fmt.Sprintf("Commit returned %v but the store does not show %s", cerr, name)
	if len(cmp) > 0 {
		what += ": " + cmp[0].what
	}
	divs = append(divs, divergence{key, what})
	return end, divs, "", nil
}

var _ = filepath.Join

// curState is an explicit cursor held by a real transaction together with
// what the binder knows about its history (used only to classify a
// divergence).
type curState struct {
	c        database.Cursor
	lastDir  string // direction of the last move: "fwd" | "back" | ""
	dirTaint bool   // the direction changed since the last First/Last/Seek
	lastOp   string
}

func (w *world) cursorStep(l tla.Value) []divergence {
	h, op := l.F("h").Str(), l.F("op").Str()
	tx := w.txs[h]
	if tx == nil {
		return []divergence{{"harness:no-tx", "no real transaction for handle " + h}}
	}
	if op == "Open" {
		b, err := w.bucketAt(tx, l.F("p"))
		if err != nil {
			return []divergence{{"api:cursor", err.Error()}}
		}
		w.curs[h] = &curState{c: b.Cursor()}
		return nil
	}
	cs := w.curs[h]
	if cs == nil {
		return []divergence{{"harness:no-cursor", "no real cursor for handle " + h}}
	}
	var ret bool
	switch op {
	case "First":
		ret = cs.c.First()
	case "Last":
		ret = cs.c.Last()
	case "Seek":
		ret = cs.c.Seek(w.cc.key[l.F("k").Str()])
	case "Next":
		ret = cs.c.Next()
	case "Prev":
		ret = cs.c.Prev()
	case "Delete":
		if err := cs.c.Delete(); err != nil {
			return []divergence{{"api:cursor-delete", fmt.Sprintf("Cursor.Delete failed: %v", err)}}
		}
		cs.lastOp = op
		return nil
	}
	switch op {
	case "First", "Seek":
		cs.lastDir, cs.dirTaint = "fwd", false
	case "Last":
		cs.lastDir, cs.dirTaint = "back", false
	case "Next":
		if cs.lastDir == "back" {
			cs.dirTaint = true
		}
		cs.lastDir = "fwd"
	case "Prev":
		if cs.lastDir == "fwd" {
			cs.dirTaint = true
		}
		cs.lastDir = "back"
	}
	cs.lastOp = op
	w.evals++
	if ret != l.F("ret").Bool() {
		return []divergence{{w.cursorKey(cs), fmt.Sprintf("cursor of transaction %s: %s returned %v (now at %x), specification: %v", h, op, ret, cs.c.Key(), l.F("ret").Bool())}}
	}
	return nil
}

// cursorKey classifies a cursor divergence: the known defect of the merged
// cursor (wrong position after a change of direction) gets its own key,
// everything else is an ordering violation.
func (w *world) cursorKey(cs *curState) string {
	if cs.dirTaint && (cs.lastOp == "Next" || cs.lastOp == "Prev") {
		return "cursor:direction-change"
	}
	return "order:cursor-move"
}

func (w *world) compareCursor(h string, sc tla.Value, act string) []divergence {
	st := sc.F("st").Str()
	cs := w.curs[h]
	if st == "none" {
		return nil
	}
	if cs == nil {
		return []divergence{{"harness:no-cursor", "no real cursor for handle " + h}}
	}
	w.evals++
	k := cs.c.Key()
	switch st {
	case "new", "end":
		if k != nil && sc.F("fresh").Bool() {
			return []divergence{{w.cursorKey(cs), fmt.Sprintf("cursor of transaction %s after %s stands at %x, specification: exhausted", h, act, k)}}
		}
	case "at":
		e := sc.F("e")
		kind, name := e.At(1).Str(), e.At(2).Str()
		want := w.cc.key[name]
		if kind == "b" {
			want = w.cc.name[name]
		}
		if !bytes.Equal(k, want) || k == nil {
			return []divergence{{w.cursorKey(cs), fmt.Sprintf("cursor of transaction %s after %s stands at %x, specification: %s %s (%x)", h, act, k, kind, name, want)}}
		}
		if sc.F("fresh").Bool() {
			v := cs.c.Value()
			if kind == "b" && v != nil {
				return []divergence{{"order:cursor-value", fmt.Sprintf("cursor of transaction %s at nested bucket %s has value %x", h, name, v)}}
			}
			if vs := sc.F("v").Seq(); kind == "k" && len(vs) == 1 && (v == nil || !bytes.Equal(v, w.cc.val[vs[0].Str()])) {
				return []divergence{{"order:cursor-value", fmt.Sprintf("cursor of transaction %s at key %s has value %x, specification %q", h, name, v, vs[0].Str())}}
			}
		}
	}
	return nil
}
