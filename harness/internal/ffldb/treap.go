package ffldb

import (
	"bytes"
	"fmt"
	"math/rand"
	"sync"
	"sync/atomic"
	"time"

	rffldb "github.com/btcsuite/btcd/database/ffldb"

	"verif/harness/internal/tla"
	"verif/harness/internal/tlc"
	"verif/harness/internal/vrun"
)

// Binder for Treap.tla: behaviours of the specification are replayed into
// database/internal/treap (reached through the verif-tagged aliases exported
// by database/ffldb).  After every step every immutable version ever created,
// the mutable treap and the iterator are compared with the specification.

type treapConcrete struct {
	nk   int
	key  [][]byte // 1-based
	hi   []byte   // limit key above every key
	val  map[string][]byte
	vRev map[string]string
}

func newTreapConcrete(init tla.Value, rng *rand.Rand) *treapConcrete {
	tc := &treapConcrete{nk: init.F("nk").Int(), val: map[string][]byte{}, vRev: map[string]string{}}
	klen := init.F("keylen")
	// key i has the byte length the specification states (Size bookkeeping)
	// and a first byte that makes the numeric order the byte order
	tc.key = [][]byte{nil}
	for i := 1; i <= tc.nk; i++ {
		b := randBytes(rng, klen.At(i).Int())
		b[0] = byte(16*i + rng.Intn(8))
		tc.key = append(tc.key, b)
	}
	tc.hi = []byte{0xf0, byte(rng.Intn(256))}
	vlen := init.F("vallen")
	for _, v := range init.F("vals").Set() {
		name := v.Str()
		n := vlen.AtS(name).Int()
		var b []byte
		for {
			b = randBytes(rng, n)
			if _, dup := tc.vRev[string(b)]; !dup || n == 0 {
				break
			}
		}
		tc.val[name] = b
		tc.vRev[string(b)] = name
	}
	return tc
}

type treapWorld struct {
	tc   *treapConcrete
	vers []*rffldb.VerifTreapImmutable
	mut  *rffldb.VerifTreapMutable
	it   *rffldb.VerifTreapIterator
}

type forEacher interface {
	ForEach(func(k, v []byte) bool)
	Len() int
	Size() uint64
	Get([]byte) []byte
	Has([]byte) bool
}

// compareMap checks one treap against a rendered specification map.
func (w *treapWorld) compareMap(t forEacher, walk func() [][2][]byte, spec tla.Value, where string) (string, int64) {
	var evals int64
	want := spec.F("seq").Seq()
	var got [][2][]byte
	t.ForEach(func(k, v []byte) bool {
		got = append(got, [2][]byte{k, v})
		return true
	})
	evals++
	if len(got) != len(want) {
		return fmt.Sprintf("%s: ForEach yields %d pairs, specification has %d", where, len(got), len(want)), evals
	}
	present := map[int]string{}
	for i, kv := range want {
		k, v := kv.At(1).Int(), kv.At(2).Str()
		present[k] = v
		if !bytes.Equal(got[i][0], w.tc.key[k]) || !bytes.Equal(got[i][1], w.tc.val[v]) || got[i][1] == nil {
			return fmt.Sprintf("%s: ForEach pair %d is (%x,%x), specification has key %d value %q", where, i, got[i][0], got[i][1], k, v), evals
		}
	}
	if walk != nil {
		it := walk()
		evals++
		if len(it) != len(got) {
			return fmt.Sprintf("%s: iterator walk yields %d pairs, ForEach %d", where, len(it), len(got)), evals
		}
		for i := range it {
			if !bytes.Equal(it[i][0], got[i][0]) || !bytes.Equal(it[i][1], got[i][1]) {
				return fmt.Sprintf("%s: iterator walk differs from ForEach at %d", where, i), evals
			}
		}
	}
	for k := 1; k <= w.tc.nk; k++ {
		v, ok := present[k]
		g := t.Get(w.tc.key[k])
		evals += 2
		if t.Has(w.tc.key[k]) != ok || (g != nil) != ok || (ok && !bytes.Equal(g, w.tc.val[v])) {
			return fmt.Sprintf("%s: Has/Get(key %d) = %v/%x, specification present=%v value %q", where, k, t.Has(w.tc.key[k]), g, ok, v), evals
		}
	}
	evals += 2
	if t.Len() != spec.F("len").Int() {
		return fmt.Sprintf("%s: Len()=%d, specification %d", where, t.Len(), spec.F("len").Int()), evals
	}
	if t.Size() != uint64(spec.F("size").Int()) {
		return fmt.Sprintf("%s: Size()=%d, specification %d", where, t.Size(), spec.F("size").Int()), evals
	}
	return "", evals
}

// walkIter walks the iterator forwards and backwards.  The walks are bounded
// (a treap of the replayed universe holds at most maxKeys keys): a walk that
// does not end is cut off and reported as an extra pseudo entry, which the
// caller's comparison turns into a divergence.
func walkIter(it *rffldb.VerifTreapIterator, maxKeys int) [][2][]byte {
	var out [][2][]byte
	for ok := it.First(); ok; ok = it.Next() {
		if len(out) > maxKeys {
			return append(out, [2][]byte{[]byte("forward walk does not terminate"), nil})
		}
		out = append(out, [2][]byte{it.Key(), it.Value()})
	}
	// and backwards must mirror it
	var back [][2][]byte
	for ok := it.Last(); ok; ok = it.Prev() {
		if len(back) > maxKeys {
			return append(out, [2][]byte{[]byte("backward walk does not terminate"), nil})
		}
		back = append(back, [2][]byte{it.Key(), it.Value()})
	}
	if len(back) != len(out) {
		return append(out, [2][]byte{[]byte("backward walk length differs"), nil})
	}
	for i := range back {
		if !bytes.Equal(back[len(back)-1-i][0], out[i][0]) {
			return append(out, [2][]byte{[]byte("backward walk differs"), nil})
		}
	}
	return out
}

func (w *treapWorld) bound(i int) []byte {
	if i > w.tc.nk {
		return w.tc.hi
	}
	return w.tc.key[i]
}

// step applies one specification step and compares; it returns a description
// of the first difference.
func (w *treapWorld) step(l, obs tla.Value) (string, int64) {
	switch l.F("a").Str() {
	case "Init":
		first := rffldb.VerifNewImmutable()
		if l.Has("init") {
			var kvs []rffldb.VerifTreapKVPair
			for _, k := range l.F("init").Seq() {
				kvs = append(kvs, rffldb.VerifTreapKVPair{Key: w.tc.key[k.Int()], Value: w.tc.val[l.F("initval").Str()]})
			}
			if len(kvs) > 0 {
				first = first.Put(kvs...)
			}
		}
		w.vers = []*rffldb.VerifTreapImmutable{first}
		w.mut = rffldb.VerifNewMutable()
	case "IPut":
		var kvs []rffldb.VerifTreapKVPair
		for _, kv := range l.F("kv").Seq() {
			kvs = append(kvs, rffldb.VerifTreapKVPair{Key: w.tc.key[kv.At(1).Int()], Value: w.tc.val[kv.At(2).Str()]})
		}
		w.vers = append(w.vers, w.vers[l.F("v").Int()-1].Put(kvs...))
	case "IDelete":
		w.vers = append(w.vers, w.vers[l.F("v").Int()-1].Delete(w.tc.key[l.F("k").Int()]))
	case "MPut":
		w.mut.Put(w.tc.key[l.F("k").Int()], w.tc.val[l.F("x").Str()])
		if w.it != nil {
			w.it.ForceReseek()
		}
	case "MDelete":
		w.mut.Delete(w.tc.key[l.F("k").Int()])
		if w.it != nil {
			w.it.ForceReseek()
		}
	case "NewIter":
		w.it = w.mut.Iterator(w.bound(l.F("lo").Int()), w.bound(l.F("hi").Int()))
	case "First":
		w.it.First()
	case "Last":
		w.it.Last()
	case "Next":
		w.it.Next()
	case "Prev":
		w.it.Prev()
	case "Seek":
		w.it.Seek(w.tc.key[l.F("k").Int()])
	default:
		return "unknown action " + l.String(), 0
	}
	var evals int64
	sv := obs.F("vers").Seq()
	if len(sv) != len(w.vers) {
		return fmt.Sprintf("harness holds %d versions, specification %d", len(w.vers), len(sv)), 0
	}
	for i, v := range w.vers {
		v := v
		d, n := w.compareMap(v, func() [][2][]byte { return walkIter(v.Iterator(nil, nil), w.tc.nk) }, sv[i], fmt.Sprintf("immutable version %d of %d after %s", i+1, len(w.vers), l))
		evals += n
		if d != "" {
			return d, evals
		}
	}
	d, n := w.compareMap(w.mut, nil, obs.F("mut"), fmt.Sprintf("mutable treap after %s", l))
	evals += n
	if d != "" {
		return d, evals
	}
	si := obs.F("it")
	if w.it != nil {
		evals++
		switch si.F("st").Str() {
		case "at":
			k := si.F("k").Int()
			if !w.it.Valid() || !bytes.Equal(w.it.Key(), w.tc.key[k]) {
				return fmt.Sprintf("iterator after %s: valid=%v key=%x, specification: at key %d (%x)", l, w.it.Valid(), w.it.Key(), k, w.tc.key[k]), evals
			}
			if vs := si.F("v").Seq(); len(vs) == 1 {
				if !bytes.Equal(w.it.Value(), w.tc.val[vs[0].Str()]) {
					return fmt.Sprintf("iterator after %s: value %x, specification %q", l, w.it.Value(), vs[0].Str()), evals
				}
			}
		case "end":
			if si.F("fresh").Bool() && w.it.Valid() {
				return fmt.Sprintf("iterator after %s: still valid at key %x, specification: exhausted", l, w.it.Key()), evals
			}
		}
	}
	return "", evals
}

// runTreap model-checks one Treap configuration and replays covering paths.
func runTreap(ctx *vrun.Ctx, cfg string, maxPaths int) error {
	res, err := tlc.Run(tlc.Opts{SpecDir: ctx.SpecDir("ffldb"), Module: "MCTreap", Config: cfg,
		Workers: tlcWorkers(ctx), Timeout: 10 * time.Minute, HeapGB: 6, DumpGraph: true, Scratch: ctx.Scratch})
	if err != nil {
		return fmt.Errorf("%s: %w", cfg, err)
	}
	if !res.OK {
		return fmt.Errorf("%s: the specification violates its own %s %s", cfg, res.ErrKind, res.ErrName)
	}
	ctx.AddModel(res.Distinct, res.Generated)
	g := res.Graph
	paths, covered := g.CoverPaths(ctx.Rand("treap:"+cfg), maxPaths, 0)
	ctx.Logf("%s: TLC %d distinct / %d generated states; %d paths cover %d of %d edges", cfg, res.Distinct, res.Generated, len(paths), covered, g.Edges)
	tc := newTreapConcrete(g.Init[0].State["last"], ctx.Rand("treapconcrete:"+cfg))
	var mu sync.Mutex
	var evals int64
	parallel(goWorkers(ctx), len(paths), func(i int) {
		if atomic.LoadInt64(&hangs) >= maxHangs {
			return
		}
		steps := append([]tlc.Step{{To: g.Init[0]}}, paths[i]...)
		var progress int64
		done := make(chan int64, 1)
		go func() { done <- runTreapPath(ctx, cfg, tc, steps, &progress) }()
		select {
		case n := <-done:
			mu.Lock()
			evals += n
			mu.Unlock()
		case <-time.After(caseTimeout):
			atomic.AddInt64(&hangs, 1)
			at := int(atomic.LoadInt64(&progress))
			var trace []any
			for _, s := range steps {
				trace = append(trace, s.To.State["last"].Go())
			}
			ctx.Violation("hang:treap:"+steps[at].To.State["last"].F("a").Str(), fmt.Sprintf("replaying a behaviour of %s did not return within %s; it hangs in step %d", cfg, caseTimeout, at),
				map[string]any{"config": cfg, "failing_step": at, "steps": trace})
		}
	})
	ctx.AddTraces(int64(len(paths)))
	ctx.AddEval(evals)
	atomic.AddInt64(&distinctNT, int64(covered))
	ctx.AddExtra("edges_replayed", int64(covered))
	return nil
}

// runTreapPath replays one behaviour; it returns the number of comparisons.
func runTreapPath(ctx *vrun.Ctx, cfg string, tc *treapConcrete, steps []tlc.Step, progress *int64) int64 {
	{
		w := &treapWorld{tc: tc}
		var n int64
		for si, st := range steps {
			atomic.StoreInt64(progress, int64(si))
			d, e := w.step(st.To.State["last"], st.To.State["obs"])
			n += e
			if d != "" {
				var trace []any
				for _, s := range steps[:si+1] {
					trace = append(trace, s.To.State["last"].Go())
				}
				a := st.To.State["last"].F("a").Str()
				key := "treap:" + a
				ctx.Violation(key, d, map[string]any{"config": cfg, "steps": trace})
				break
			}
		}
		return n
	}
}
