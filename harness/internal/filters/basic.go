package filters

import (
	"bytes"
	"fmt"
	"math/rand"
	"os"
	"path/filepath"
	"sort"
	"sync"
	"time"

	"github.com/btcsuite/btcd/blockchain"
	"github.com/btcsuite/btcd/blockchain/indexers"
	"github.com/btcsuite/btcd/btcutil/v2"
	"github.com/btcsuite/btcd/btcutil/v2/gcs"
	"github.com/btcsuite/btcd/btcutil/v2/gcs/builder"
	"github.com/btcsuite/btcd/chaincfg/v2"
	"github.com/btcsuite/btcd/chainhash/v2"
	"github.com/btcsuite/btcd/database"
	_ "github.com/btcsuite/btcd/database/ffldb"
	"github.com/btcsuite/btcd/txscript/v2"
	"github.com/btcsuite/btcd/wire/v2"

	"verif/harness/internal/tla"
	"verif/harness/internal/vrun"
)

// concreteScripts maps the script names of Basic.tla to byte strings (fresh
// per case; equal names are equal bytes, different names different bytes).
func concreteScripts(rng *rand.Rand) map[string][]byte {
	p2pkh := func() []byte {
		return append(append([]byte{txscript.OP_DUP, txscript.OP_HASH160}, push(randBytes(rng, 20))...), txscript.OP_EQUALVERIFY, txscript.OP_CHECKSIG)
	}
	ms, _ := outScript(rng, "multisig")
	pk, _ := outScript(rng, "p2pk")
	return map[string][]byte{
		"empty":     {},
		"opret":     append([]byte{txscript.OP_RETURN}, push(randBytes(rng, 1+rng.Intn(40)))...),
		"opretbare": {txscript.OP_RETURN},
		"retlater":  append([]byte{txscript.OP_1, txscript.OP_RETURN}, push(randBytes(rng, 1+rng.Intn(20)))...),
		"p2pkh":     p2pkh(),
		"p2pkh2":    p2pkh(),
		"p2pk":      pk,
		"multisig":  ms,
		"wit":       append([]byte{txscript.OP_0}, push(randBytes(rng, 20))...),
		// unspendable, but not excluded by BIP158
		"unparse":  append([]byte{txscript.OP_DATA_20}, randBytes(rng, 1+rng.Intn(10))...),
		"unparse2": {txscript.OP_PUSHDATA1},
		"oversize": append([]byte{txscript.OP_TRUE, byte(0x52 + rng.Intn(14))}, bytes.Repeat([]byte{txscript.OP_NOP}, 9999)...),
	}
}

// basicBlock is one real block of a chain case with what the specification
// says about it.
type basicBlock struct {
	msg     *wire.MsgBlock
	hash    chainhash.Hash
	spent   [][]byte // concrete spent scripts in hand-over order
	scripts map[string][]byte
	ex      tla.Value
	g       *gcsCase
	elems   []string
}

type basicCase struct {
	chain  tla.Value
	blocks []*basicBlock
}

func buildBasicCase(rng *rand.Rand, chain, expect tla.Value) *basicCase {
	bc := &basicCase{chain: chain}
	sc := concreteScripts(rng)
	var prev chainhash.Hash // zero: the first block of the chain
	for k, b := range chain.Seq() {
		msg := &wire.MsgBlock{}
		for t, tx := range b.Seq() {
			mtx := wire.NewMsgTx(2)
			if t == 0 {
				in := wire.NewTxIn(wire.NewOutPoint(&chainhash.Hash{}, 0xffffffff), append([]byte{3, byte(k + 1), 0, 0}, randBytes(rng, 4)...), nil)
				mtx.AddTxIn(in)
			}
			for range tx.F("prevs").Seq() {
				var h chainhash.Hash
				rng.Read(h[:])
				mtx.AddTxIn(wire.NewTxIn(wire.NewOutPoint(&h, uint32(rng.Intn(3))), push(randBytes(rng, 20)), nil))
			}
			for _, o := range tx.F("outs").Strs() {
				mtx.AddTxOut(wire.NewTxOut(int64(1+rng.Intn(1000000)), sc[o]))
			}
			mtx.LockTime = rng.Uint32()
			msg.Transactions = append(msg.Transactions, mtx)
		}
		utx := make([]*btcutil.Tx, len(msg.Transactions))
		for i, tx := range msg.Transactions {
			utx[i] = btcutil.NewTx(tx)
		}
		msg.Header = wire.BlockHeader{Version: 4, PrevBlock: prev, MerkleRoot: blockchain.CalcMerkleRoot(utx, false),
			Timestamp: time.Unix(1700000000+int64(rng.Intn(1000000)), 0), Bits: 0x207fffff, Nonce: rng.Uint32()}
		bb := &basicBlock{msg: msg, hash: msg.BlockHash(), scripts: sc, ex: expect.At(k + 1)}
		for _, s := range bb.ex.F("spent").Strs() {
			bb.spent = append(bb.spent, sc[s])
		}
		// the specification's elements as a GCS case under the key rule of the
		// specification: the first 16 bytes of the block hash
		bb.elems = bb.ex.F("elems").Strs()
		sort.Strings(bb.elems)
		g := &gcsCase{kind: "small", P: builder.DefaultP, M: builder.DefaultM, alias: -1, prefix: "basic", maker: "BuildBasicFilter"}
		copy(g.key[:], bb.hash[:16])
		F := uint64(len(bb.elems)) * g.M
		for _, e := range bb.elems {
			g.data = append(g.data, sc[e])
		}
		rng.Shuffle(len(g.data), func(i, j int) { g.data[i], g.data[j] = g.data[j], g.data[i] })
		for _, d := range g.data {
			g.vals = append(g.vals, reduce(&g.key, d, F))
		}
		var members, others []int
		for _, d := range g.data {
			g.queries = append(g.queries, d)
			g.qvals = append(g.qvals, reduce(&g.key, d, F))
			g.member = append(g.member, true)
			members = append(members, len(g.queries)-1)
		}
		for _, e := range bb.ex.F("excluded").Strs() {
			g.queries = append(g.queries, sc[e])
			g.qvals = append(g.qvals, reduce(&g.key, sc[e], F))
			g.member = append(g.member, false)
			others = append(others, len(g.queries)-1)
		}
		stranger := randBytes(rng, 25)
		g.queries = append(g.queries, stranger)
		g.qvals = append(g.qvals, reduce(&g.key, stranger, F))
		g.member = append(g.member, false)
		others = append(others, len(g.queries)-1)
		g.batches = [][]int{{}, others}
		if len(members) > 0 {
			g.batches = append(g.batches, members, append(append([]int(nil), others...), members[0]))
		}
		g.label = fmt.Sprintf("basic filter of block %d of chain %s", k+1, clip(chain.String(), 300))
		bb.g = g
		bc.blocks = append(bc.blocks, bb)
		prev = bb.hash
	}
	return bc
}

// cfEnv is a real database with the committed-filter index created in it.
type cfEnv struct {
	db  database.DB
	idx *indexers.CfIndex
	dir string
}

func newCfEnv(parent string, n int) (*cfEnv, error) {
	dir := filepath.Join(parent, fmt.Sprintf("cfdb-%d", n))
	db, err := database.Create("ffldb", dir, wire.TestNet3)
	if err != nil {
		return nil, err
	}
	idx := indexers.NewCfIndex(db, &chaincfg.RegressionNetParams)
	if err := db.Update(func(tx database.Tx) error { return idx.Create(tx) }); err != nil {
		db.Close()
		return nil, err
	}
	return &cfEnv{db: db, idx: idx, dir: dir}, nil
}

func (e *cfEnv) close() {
	e.db.Close()
	os.RemoveAll(e.dir)
}

// evalHeader evaluates a filter-header term; z is what Z stands for.
func evalHeader(t tla.Value, fh func(k int) [32]byte, z [32]byte) ([32]byte, error) {
	var zero [32]byte
	if t.Kind != tla.KSeq || len(t.Elems) == 0 {
		return zero, fmt.Errorf("not a header term: %s", t)
	}
	switch t.Elems[0].Str() {
	case "Z":
		return z, nil
	case "FH":
		return fh(t.Elems[1].Int()), nil
	case "HH":
		a, err := evalHeader(t.Elems[1], fh, z)
		if err != nil {
			return zero, err
		}
		b, err := evalHeader(t.Elems[2], fh, z)
		if err != nil {
			return zero, err
		}
		var cat [64]byte
		copy(cat[:32], a[:])
		copy(cat[32:], b[:])
		return sha256d(cat[:]), nil
	}
	return zero, fmt.Errorf("unknown header term: %s", t)
}

func checkBasic(c *vrun.Ctx, rng *rand.Rand, bc *basicCase, exp map[int]tla.Value, env *cfEnv, st *stats) error {
	st.add("chains")
	// the specification's framed filter bytes per block, hence the filter hashes
	nbytes := make([][]byte, len(bc.blocks))
	for k, bb := range bc.blocks {
		nbytes[k] = bytesOf(exp[bb.g.id].F("nbytes"))
	}
	fh := func(k int) [32]byte { return sha256d(nbytes[k-1]) }
	var zero [32]byte
	for k, bb := range bc.blocks {
		ex := exp[bb.g.id]
		st.add("blocks")
		replay := map[string]any{"chain": bc.chain.Go(), "block_index": k + 1, "block_hash": bb.hash.String(), "spec_elements": bb.elems,
			"spec_filter": fmt.Sprintf("%x", nbytes[k])}
		var raw bytes.Buffer
		bb.msg.Serialize(&raw)
		replay["block"] = fmt.Sprintf("%x", raw.Bytes())
		var sp []string
		for _, s := range bb.spent {
			sp = append(sp, fmt.Sprintf("%x", s))
		}
		replay["spent_scripts"] = sp
		c.Distinct(fmt.Sprintf("basic/%s", bc.chain.At(k+1).String()))
		if k == 0 && len(bc.blocks) == 1 && len(bb.elems) == 2 && len(bb.spent) == 1 && st.get("sampled") == 0 {
			st.add("sampled")
			c.Sample(map[string]any{"kind": "basic-filter", "block": bc.chain.At(1).String(), "spec_elements": bb.elems, "spec_excluded": bb.ex.F("excluded").Strs(),
				"spec_filter": fmt.Sprintf("%x", nbytes[k]), "header_term": bb.ex.F("header").String()})
		}

		var f *gcs.Filter
		var err error
		if p := guard(func() { f, err = builder.BuildBasicFilter(bb.msg, bb.spent) }); p != nil || err != nil {
			c.Violation("basic:build-fails", fmt.Sprintf("BuildBasicFilter fails on a block of %d transactions: %v %v", len(bb.msg.Transactions), p, err), replay)
			continue
		}
		c.AddEval(1)
		if int(f.N()) != bb.ex.F("n").Int() {
			c.Violation("basic:content", fmt.Sprintf("the basic filter holds %d elements; the content rule (every output script except empty and OP_RETURN ones, every non-empty spent script, equal scripts once) gives %d: %v",
				f.N(), bb.ex.F("n").Int(), bb.elems), replay)
			continue
		}
		// bytes, framing, round trips, every element matches, batches
		bb.g.prebuilt = f
		checkGcs(c, bb.g, ex, st)

		// filter hash and header
		gotFH, err := builder.GetFilterHash(f)
		c.AddEval(1)
		if err != nil || [32]byte(gotFH) != fh(k+1) {
			c.Violation("basic:filter-hash", fmt.Sprintf("GetFilterHash = %x (%v); SHA-256d of the framed filter bytes is %x", gotFH[:], err, fh(k+1)), replay)
		}
		wantHdr, err := evalHeader(bb.ex.F("header"), fh, zero)
		if err != nil {
			return err
		}
		var prevHdr [32]byte
		if k > 0 {
			if prevHdr, err = evalHeader(bc.blocks[k-1].ex.F("header"), fh, zero); err != nil {
				return err
			}
		}
		gotHdr, err := builder.MakeHeaderForFilter(f, chainhash.Hash(prevHdr))
		c.AddEval(1)
		if err != nil || [32]byte(gotHdr) != wantHdr {
			c.Violation("basic:header", fmt.Sprintf("MakeHeaderForFilter = %x (%v); the chain rule H(filter hash || previous header) gives %x (block %d of the chain)", gotHdr[:], err, wantHdr, k+1), replay)
		}
		// the same rule with an arbitrary previous header in the place of Z
		if k == 0 {
			var rp [32]byte
			rng.Read(rp[:])
			want2, _ := evalHeader(bb.ex.F("header"), fh, rp)
			got2, err := builder.MakeHeaderForFilter(f, chainhash.Hash(rp))
			c.AddEval(1)
			if err != nil || [32]byte(got2) != want2 {
				c.Violation("basic:header", fmt.Sprintf("MakeHeaderForFilter(prev=%x) = %x (%v), expected %x", rp, got2[:], err, want2), replay)
			}
		}

		// the indexer: blockchain/indexers CfIndex.ConnectBlock with the spent outputs
		stxos := make([]blockchain.SpentTxOut, len(bb.spent))
		for i, s := range bb.spent {
			// whether a coinbase created the spent output must not matter to the index
			stxos[i] = blockchain.SpentTxOut{Amount: int64(1000 + i), PkScript: s, Height: int32(k + 1), IsCoinBase: (i+k)%2 == 0}
		}
		ublk := btcutil.NewBlock(bb.msg)
		ublk.SetHeight(int32(k + 1))
		if err := env.db.Update(func(tx database.Tx) error { return env.idx.ConnectBlock(tx, ublk, stxos) }); err != nil {
			c.Violation("basic:index-connect", fmt.Sprintf("CfIndex.ConnectBlock fails for block %d of the chain: %v", k+1, err), replay)
			continue
		}
		gotF, err1 := env.idx.FilterByBlockHash(&bb.hash, wire.GCSFilterRegular)
		gotH, err2 := env.idx.FilterHashByBlockHash(&bb.hash, wire.GCSFilterRegular)
		gotHd, err3 := env.idx.FilterHeaderByBlockHash(&bb.hash, wire.GCSFilterRegular)
		c.AddEval(3)
		if err1 != nil || !bytes.Equal(gotF, nbytes[k]) {
			c.Violation("basic:index-filter", fmt.Sprintf("the indexed filter of the block is %x (%v), the specification's is %x", gotF, err1, nbytes[k]), replay)
		}
		if want := fh(k + 1); err2 != nil || !bytes.Equal(gotH, want[:]) {
			c.Violation("basic:index-filter-hash", fmt.Sprintf("the indexed filter hash is %x (%v), expected %x", gotH, err2, want), replay)
		}
		if err3 != nil || !bytes.Equal(gotHd, wantHdr[:]) {
			c.Violation("basic:index-header", fmt.Sprintf("the indexed filter header of block %d of the chain is %x (%v); the chain rule gives %x", k+1, gotHd, err3, wantHdr), replay)
		}
	}
	// disconnect in reverse: the entries go away
	for k := len(bc.blocks) - 1; k >= 0; k-- {
		bb := bc.blocks[k]
		ublk := btcutil.NewBlock(bb.msg)
		if err := env.db.Update(func(tx database.Tx) error { return env.idx.DisconnectBlock(tx, ublk, nil) }); err != nil {
			return fmt.Errorf("CfIndex.DisconnectBlock: %w", err)
		}
		if gotF, _ := env.idx.FilterByBlockHash(&bb.hash, wire.GCSFilterRegular); len(gotF) != 0 {
			c.Violation("basic:index-disconnect", "the filter of a disconnected block is still indexed", map[string]any{"chain": bc.chain.Go()})
		}
	}
	return nil
}

func prepareBasic(c *vrun.Ctx) (*gcsPart, error) {
	st := newStats()
	seed := c.Seed
	var cases []*basicCase
	ci := 0
	err := model(c, modelOpts{module: "Basic", workers: 3, actions: []string{"Group", "Pick"}}, func(s tla.State) error {
		if s["case"].F("kind").Str() != "chain" {
			return nil
		}
		ci++
		cases = append(cases, buildBasicCase(rand.New(rand.NewSource(seed*32452843+int64(ci))), s["case"].F("chain"), s["expect"]))
		return nil
	})
	if err != nil {
		return nil, err
	}
	var gs []*gcsCase
	for _, bc := range cases {
		for _, bb := range bc.blocks {
			gs = append(gs, bb.g)
		}
	}
	c.Logf("Basic.tla: %d chains, %d blocks built; their filters go to TraceGcs.tla", len(cases), len(gs))
	return &gcsPart{cases: gs, check: func(exp map[int]tla.Value) error { return checkBasicAll(c, cases, exp, st) }}, nil
}

func checkBasicAll(c *vrun.Ctx, cases []*basicCase, exp map[int]tla.Value, st *stats) error {
	seed := c.Seed
	parent := c.Scratch
	if fi, err := os.Stat("/dev/shm"); err == nil && fi.IsDir() {
		if d, err := os.MkdirTemp("/dev/shm", "verif-c20-"); err == nil {
			parent = d
			defer os.RemoveAll(d)
		}
	}
	const nenv = 6
	envs := make(chan *cfEnv, nenv)
	for i := 0; i < nenv; i++ {
		e, err := newCfEnv(parent, i)
		if err != nil {
			return err
		}
		envs <- e
	}
	var fe firstErr
	var wg sync.WaitGroup
	sem := make(chan struct{}, nenv)
	for i := range cases {
		wg.Add(1)
		sem <- struct{}{}
		go func(i int) {
			defer wg.Done()
			defer func() { <-sem }()
			e := <-envs
			defer func() { envs <- e }()
			if p := guard(func() { fe.set(checkBasic(c, rand.New(rand.NewSource(seed*49979687+int64(i))), cases[i], exp, e, st)) }); p != nil {
				fe.set(fmt.Errorf("basic case %s: %v", clip(cases[i].chain.String(), 300), p))
			}
		}(i)
	}
	wg.Wait()
	close(envs)
	for e := range envs {
		e.close()
	}
	if err := fe.get(); err != nil {
		return err
	}
	c.SetExtra("basic_cases", st.export())
	c.Logf("basic filter cases checked: %s", st)
	return nil
}
