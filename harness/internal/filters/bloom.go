package filters

import (
	"bytes"
	"encoding/binary"
	"fmt"
	"math/rand"
	"sort"
	"strings"
	"sync"

	"github.com/btcsuite/btcd/btcutil/v2"
	"github.com/btcsuite/btcd/btcutil/v2/bloom"
	"github.com/btcsuite/btcd/chainhash/v2"
	"github.com/btcsuite/btcd/txscript/v2"
	"github.com/btcsuite/btcd/wire/v2"

	"verif/harness/internal/tla"
	"verif/harness/internal/vrun"
)

// bloomParams is one real filter configuration.
type bloomParams struct {
	size  int // bytes
	k     uint32
	tweak uint32
	via   string // how the filter object is made
	elems uint32 // NewFilter arguments
	fp    float64
}

func (p bloomParams) String() string {
	return fmt.Sprintf("size=%d k=%d tweak=%#x via=%s", p.size, p.k, p.tweak, p.via)
}

// positions are the bit positions the datum selects: MurmurHash3 with seed
// i*0xfba4c795 + tweak modulo the number of bits, computed with the exported
// bloom.MurmurHash3 (the hash arithmetic is exercised, not specified).
func (p bloomParams) positions(data []byte) []uint32 {
	out := make([]uint32, 0, p.k)
	for i := uint32(0); i < p.k; i++ {
		out = append(out, bloom.MurmurHash3(i*0xfba4c795+p.tweak, data)%uint32(p.size*8))
	}
	return out
}

func (p bloomParams) item(data []byte) string {
	var sb strings.Builder
	sb.WriteByte('[')
	for i, v := range p.positions(data) {
		if corrupt("bloom-trace") && i == 0 && len(data) == 36 && p.size > 100 {
			v ^= 1 // self-test: falsified recorded positions (of outpoints) must be noticed
		}
		if i > 0 {
			sb.WriteByte(',')
		}
		fmt.Fprintf(&sb, "%d", v)
	}
	sb.WriteByte(']')
	return sb.String()
}

// make returns a real filter with the parameters (flags as given).
func (p bloomParams) make(flags wire.BloomUpdateType) *bloom.Filter {
	if p.via == "NewFilter" {
		return bloom.NewFilter(p.elems, p.tweak, p.fp, flags)
	}
	return bloom.LoadFilter(wire.NewMsgFilterLoad(make([]byte, p.size), p.k, p.tweak, flags))
}

// pickParams draws a configuration: sizes from one byte to the protocol
// maximum, 1..50 hash functions, edge tweaks; one in four through NewFilter
// (whose sizing arithmetic decides size and hash count).
func pickParams(rng *rand.Rand, big bool) bloomParams {
	tweaks := []uint32{0, 1, 0xffffffff, 0x80000000, rng.Uint32(), rng.Uint32()}
	tw := tweaks[rng.Intn(len(tweaks))]
	if !big && rng.Intn(4) == 0 {
		for {
			el := []uint32{1, 2, 3, 10, 100, 1000}[rng.Intn(6)]
			fp := []float64{1e-12, 0.0001, 0.01, 0.1, 0.5, 0.9, 5}[rng.Intn(7)]
			f := bloom.NewFilter(el, tw, fp, wire.BloomUpdateNone)
			m := f.MsgFilterLoad()
			if len(m.Filter) == 0 || m.HashFuncs == 0 {
				continue // an empty bit field is outside the property
			}
			return bloomParams{size: len(m.Filter), k: m.HashFuncs, tweak: tw, via: "NewFilter", elems: el, fp: fp}
		}
	}
	sizes := []int{1, 2, 3, 5, 8, 13, 64, 200, 1000, 4096, wire.MaxFilterLoadFilterSize}
	if big {
		sizes = []int{20000, wire.MaxFilterLoadFilterSize}
	}
	ks := []uint32{1, 1, 2, 3, 5, 11, 50}
	if big {
		ks = []uint32{2, 5, 11}
	}
	return bloomParams{size: sizes[rng.Intn(len(sizes))], k: ks[rng.Intn(len(ks))], tweak: tw, via: "LoadFilter"}
}

type bloomCase struct {
	id    int
	kind  string
	p     bloomParams
	line  string
	check func(c *vrun.Ctx, ex tla.Value)
	label string
}

func serOutPoint(o *wire.OutPoint) []byte {
	var b [36]byte
	copy(b[:], o.Hash[:])
	binary.LittleEndian.PutUint32(b[32:], o.Index)
	return b[:]
}

// sparseOf converts the specification's non-zero bytes into a byte field.
func sparseOf(v tla.Value, size int) []byte {
	out := make([]byte, size)
	for _, e := range v.Elems {
		out[e.Elems[0].Int()] = byte(e.Elems[1].Int())
	}
	return out
}

func firstDiff(a, b []byte) int {
	for i := range a {
		if i >= len(b) || a[i] != b[i] {
			return i
		}
	}
	return -1
}

// ---------------------------------------------------------------------------
// insert sequences

func seqCase(rng *rand.Rand, adds []string, must []tla.Value, p bloomParams, st *stats) *bloomCase {
	b1 := randBytes(rng, 1+rng.Intn(70))
	b2 := randBytes(rng, rng.Intn(40)) // may be empty
	if bytes.Equal(b1, b2) {
		b2 = append(b2, 1)
	}
	var h chainhash.Hash
	rng.Read(h[:])
	o := wire.OutPoint{Index: []uint32{0, 1, 7, 0xffffffff, rng.Uint32()}[rng.Intn(5)]}
	rng.Read(o.Hash[:])
	stranger := randBytes(rng, 1+rng.Intn(40))
	data := map[string][]byte{"b1": b1, "b2": b2, "h": h[:], "o": serOutPoint(&o)}
	type query struct {
		name, datum string
		item        []byte
		call        func(f *bloom.Filter) bool
	}
	queries := []query{
		{"Matches(b1)", "b1", b1, func(f *bloom.Filter) bool { return f.Matches(b1) }},
		{"Matches(b2)", "b2", b2, func(f *bloom.Filter) bool { return f.Matches(b2) }},
		{"Matches(h)", "h", h[:], func(f *bloom.Filter) bool { return f.Matches(h[:]) }},
		{"MatchesOutPoint(o)", "o", serOutPoint(&o), func(f *bloom.Filter) bool { return f.MatchesOutPoint(&o) }},
		{"Matches(serialised o)", "o", serOutPoint(&o), func(f *bloom.Filter) bool { return f.Matches(serOutPoint(&o)) }},
		{"Matches(stranger)", "", stranger, func(f *bloom.Filter) bool { return f.Matches(stranger) }},
	}
	apply := map[string]func(f *bloom.Filter){
		"add_b1": func(f *bloom.Filter) { f.Add(b1) }, "add_b2": func(f *bloom.Filter) { f.Add(b2) },
		"addhash_h": func(f *bloom.Filter) { f.AddHash(&h) }, "add_h": func(f *bloom.Filter) { f.Add(h[:]) },
		"addop_o": func(f *bloom.Filter) { f.AddOutPoint(&o) }, "add_o": func(f *bloom.Filter) { f.Add(serOutPoint(&o)) },
	}
	datumOf := map[string]string{"add_b1": "b1", "add_b2": "b2", "addhash_h": "h", "add_h": "h", "addop_o": "o", "add_o": "o"}
	var sb strings.Builder
	sb.WriteString(`"ops":[`)
	for k, a := range adds {
		if k > 0 {
			sb.WriteByte(',')
		}
		fmt.Fprintf(&sb, `{"op":"add","item":%s}`, p.item(data[datumOf[a]]))
		for _, q := range queries {
			fmt.Fprintf(&sb, `,{"op":"q","item":%s}`, p.item(q.item))
		}
	}
	sb.WriteString("]")
	bc := &bloomCase{kind: "seq", p: p, line: sb.String(), label: fmt.Sprintf("inserts %v on %s", adds, p)}
	bc.check = func(c *vrun.Ctx, ex tla.Value) {
		res := boolsOf(ex.F("res"))
		f := p.make(wire.BloomUpdateNone)
		replay := map[string]any{"filter": p.String(), "adds": adds, "b1": fmt.Sprintf("%x", b1), "b2": fmt.Sprintf("%x", b2),
			"h": fmt.Sprintf("%x", h[:]), "o": fmt.Sprintf("%x", serOutPoint(&o)), "stranger": fmt.Sprintf("%x", stranger)}
		c.AddTraces(1)
		st.add("seq")
		ri := 0
		for k, a := range adds {
			apply[a](f)
			ri++
			mustSet := map[string]bool{}
			for _, d := range must[k].Strs() {
				mustSet[d] = true
			}
			for _, q := range queries {
				got := false
				if pn := guard(func() { got = q.call(f) }); pn != nil {
					c.Violation("bloom:panic", fmt.Sprintf("%s panics on a filter with %s: %v", q.name, p, pn), replay)
					return
				}
				c.AddEval(1)
				want := res[ri]
				ri++
				if mustSet[q.datum] && !want {
					panic("TraceBloom: an inserted datum does not match in the specification")
				}
				if got == want {
					continue
				}
				if p.k == 0 && !mustSet[q.datum] {
					continue // without hash functions only the inserted data are the property's business
				}
				r2 := cloneMap(replay)
				r2["step"] = k + 1
				r2["query"] = q.name
				switch {
				case mustSet[q.datum] && p.k == 0:
					c.Violation("bloom:zero-hash-functions-match-nothing", fmt.Sprintf("%s = false after %v on a filter with a non-empty bit field (%d bytes) and 0 hash functions", q.name, adds[:k+1], p.size), r2)
				case mustSet[q.datum]:
					c.Violation("bloom:inserted-not-matched", fmt.Sprintf("%s = false after %v on a filter with %s: a false negative", q.name, adds[:k+1], p), r2)
				default:
					c.Violation("bloom:matches", fmt.Sprintf("%s = %v after %v on a filter with %s; the bit positions of the datum say %v", q.name, got, adds[:k+1], p, want), r2)
				}
			}
		}
		wantBytes := sparseOf(ex.F("bytes"), p.size)
		gotBytes := f.MsgFilterLoad().Filter
		c.AddEval(1)
		if !bytes.Equal(gotBytes, wantBytes) {
			d := firstDiff(wantBytes, gotBytes)
			c.Violation("bloom:bit-field", fmt.Sprintf("after %v the bit field differs from the specification's at byte %d (%#x, expected %#x) on a filter with %s", adds, d, gotBytes[d], wantBytes[d], p), replay)
		}
	}
	return bc
}

// bulkCase inserts n data and queries all of them plus strangers.
func bulkCase(rng *rand.Rand, n int, st *stats) *bloomCase {
	tw := rng.Uint32()
	f0 := bloom.NewFilter(uint32(n), tw, []float64{0.001, 0.01, 0.2}[rng.Intn(3)], wire.BloomUpdateNone)
	m := f0.MsgFilterLoad()
	p := bloomParams{size: len(m.Filter), k: m.HashFuncs, tweak: tw, via: "LoadFilter"}
	data := make([][]byte, n)
	for i := range data {
		data[i] = randBytes(rng, rng.Intn(100))
		if len(data[i]) >= 4 {
			binary.LittleEndian.PutUint32(data[i], uint32(i))
		}
	}
	strangers := make([][]byte, 1000)
	for i := range strangers {
		strangers[i] = append([]byte{0xee, 0xee, 0xee, 0xee, 0xee}, randBytes(rng, 1+rng.Intn(60))...)
	}
	var sb strings.Builder
	sb.WriteString(`"adds":[`)
	for i, d := range data {
		if i > 0 {
			sb.WriteByte(',')
		}
		sb.WriteString(p.item(d))
	}
	sb.WriteString(`],"qs":[`)
	for i, d := range append(append([][]byte{}, data...), strangers...) {
		if i > 0 {
			sb.WriteByte(',')
		}
		sb.WriteString(p.item(d))
	}
	sb.WriteString("]")
	bc := &bloomCase{kind: "bulk", p: p, line: sb.String(), label: fmt.Sprintf("bulk %d on %s", n, p)}
	bc.check = func(c *vrun.Ctx, ex tla.Value) {
		res := boolsOf(ex.F("res"))
		f := p.make(wire.BloomUpdateNone)
		replay := map[string]any{"filter": p.String(), "inserted": n}
		c.AddTraces(1)
		st.add("bulk")
		c.Distinct(fmt.Sprintf("bloom/bulk/n=%d", n))
		for _, d := range data {
			f.Add(d)
		}
		for i, d := range data {
			c.AddEval(1)
			if !res[i] {
				panic("TraceBloom: an inserted datum does not match in the specification")
			}
			if !f.Matches(d) {
				r2 := cloneMap(replay)
				r2["datum"] = fmt.Sprintf("%x", d)
				c.Violation("bloom:inserted-not-matched", fmt.Sprintf("Matches = false for datum %d of %d inserted into a filter with %s: a false negative", i, n, p), r2)
			}
		}
		for i, d := range strangers {
			c.AddEval(1)
			if got := f.Matches(d); got != res[n+i] {
				r2 := cloneMap(replay)
				r2["datum"] = fmt.Sprintf("%x", d)
				c.Violation("bloom:matches", fmt.Sprintf("Matches(stranger) = %v on a filter with %s after %d inserts; the bit positions say %v", got, p, n, res[n+i]), r2)
			}
		}
		if want := sparseOf(ex.F("bytes"), p.size); !bytes.Equal(want, f.MsgFilterLoad().Filter) {
			c.Violation("bloom:bit-field", fmt.Sprintf("after %d inserts the bit field differs from the specification's at byte %d (%s)", n, firstDiff(want, f.MsgFilterLoad().Filter), p), replay)
		}
	}
	return bc
}

// ---------------------------------------------------------------------------
// MatchTxAndUpdate

func pubKey(rng *rand.Rand) []byte {
	if rng.Intn(3) == 0 {
		return append([]byte{4}, randBytes(rng, 64)...)
	}
	return append([]byte{byte(2 + rng.Intn(2))}, randBytes(rng, 32)...)
}

func push(b []byte) []byte { return append([]byte{byte(len(b))}, b...) } // len <= 75

// outScript returns a script of the class and its data pushes.
func outScript(rng *rand.Rand, class string) ([]byte, [][]byte) {
	switch class {
	case "p2pkh":
		h := randBytes(rng, 20)
		return append(append([]byte{txscript.OP_DUP, txscript.OP_HASH160}, push(h)...), txscript.OP_EQUALVERIFY, txscript.OP_CHECKSIG), [][]byte{h}
	case "p2pk":
		k := pubKey(rng)
		return append(push(k), txscript.OP_CHECKSIG), [][]byte{k}
	case "multisig":
		k1, k2 := pubKey(rng), pubKey(rng)
		s := append([]byte{txscript.OP_1}, push(k1)...)
		s = append(s, push(k2)...)
		return append(s, txscript.OP_2, txscript.OP_CHECKMULTISIG), [][]byte{k1, k2}
	case "nulldata":
		d := randBytes(rng, 4+rng.Intn(30))
		return append([]byte{txscript.OP_RETURN}, push(d)...), [][]byte{d}
	case "unparse":
		return append([]byte{txscript.OP_DATA_20}, randBytes(rng, 1+rng.Intn(10))...), nil
	case "unparse2":
		return []byte{txscript.OP_PUSHDATA1}, nil
	}
	return []byte{txscript.OP_TRUE}, nil
}

var flagOf = map[string]wire.BloomUpdateType{"none": wire.BloomUpdateNone, "all": wire.BloomUpdateAll, "p2pubkey": wire.BloomUpdateP2PubkeyOnly}

var classOf = map[string]txscript.ScriptClass{"p2pkh": txscript.PubKeyHashTy, "p2pk": txscript.PubKeyTy, "multisig": txscript.MultiSigTy,
	"nulldata": txscript.NullDataTy, "nopush": txscript.NonStandardTy, "unparse": txscript.NonStandardTy, "unparse2": txscript.NonStandardTy}

func txCase(rng *rand.Rand, cs, table tla.Value, p bloomParams, st *stats) (*bloomCase, error) {
	flag := cs.F("flag").Str()
	tx := wire.NewMsgTx(2)
	type outInfo struct {
		class  string
		pushes [][]byte
		hit    int
	}
	var outs []outInfo
	for _, o := range cs.F("outs").Seq() {
		class := o.F("class").Str()
		script, pushes := outScript(rng, class)
		if got := txscript.GetScriptClass(script); got != classOf[class] {
			return nil, fmt.Errorf("bloom: script made for class %s is classified %v", class, got)
		}
		tx.AddTxOut(wire.NewTxOut(int64(1000+rng.Intn(100000)), script))
		outs = append(outs, outInfo{class, pushes, o.F("hit").Int()})
	}
	type inInfo struct {
		op       wire.OutPoint
		pushes   [][]byte
		opHit    bool
		pushHit  bool
		hitIndex int
	}
	var ins []inInfo
	for _, in := range cs.F("ins").Seq() {
		var op wire.OutPoint
		rng.Read(op.Hash[:])
		op.Index = uint32(rng.Intn(5))
		sig, pk := randBytes(rng, 70+rng.Intn(3)), pubKey(rng)
		ti := wire.NewTxIn(&op, append(push(sig), push(pk)...), nil)
		ti.Sequence = rng.Uint32()
		tx.AddTxIn(ti)
		ins = append(ins, inInfo{op, [][]byte{sig, pk}, in.F("op").Bool(), in.F("push").Bool(), rng.Intn(2)})
	}
	tx.LockTime = rng.Uint32()
	txid := tx.TxHash()
	// what goes into the filter beforehand
	var pre [][]byte
	var preAdd []func(f *bloom.Filter)
	if cs.F("txid").Bool() {
		pre = append(pre, txid[:])
		preAdd = append(preAdd, func(f *bloom.Filter) { f.AddHash(&txid) })
	}
	for _, o := range outs {
		if o.hit > 0 {
			d := o.pushes[o.hit-1]
			pre = append(pre, d)
			preAdd = append(preAdd, func(f *bloom.Filter) { f.Add(d) })
		}
	}
	for k := range ins {
		in := ins[k]
		if in.opHit {
			pre = append(pre, serOutPoint(&in.op))
			preAdd = append(preAdd, func(f *bloom.Filter) { f.AddOutPoint(&in.op) })
		}
		if in.pushHit {
			d := in.pushes[in.hitIndex]
			pre = append(pre, d)
			preAdd = append(preAdd, func(f *bloom.Filter) { f.Add(d) })
		}
	}
	items := func(ds [][]byte) string {
		var sb strings.Builder
		sb.WriteByte('[')
		for i, d := range ds {
			if i > 0 {
				sb.WriteByte(',')
			}
			sb.WriteString(p.item(d))
		}
		sb.WriteByte(']')
		return sb.String()
	}
	var sb strings.Builder
	fmt.Fprintf(&sb, `"pre":%s,"flag":%q,"txid":%s,"outs":[`, items(pre), flag, p.item(txid[:]))
	var after [][]byte
	for i, o := range outs {
		if i > 0 {
			sb.WriteByte(',')
		}
		op := wire.OutPoint{Hash: txid, Index: uint32(i)}
		after = append(after, serOutPoint(&op))
		fmt.Fprintf(&sb, `{"class":%q,"pushes":%s,"op":%s}`, o.class, items(o.pushes), p.item(serOutPoint(&op)))
	}
	sb.WriteString(`],"ins":[`)
	for i, in := range ins {
		if i > 0 {
			sb.WriteByte(',')
		}
		fmt.Fprintf(&sb, `{"op":%s,"pushes":%s}`, p.item(serOutPoint(&in.op)), items(in.pushes))
	}
	fmt.Fprintf(&sb, `],"after":%s,"follow":[`, items(after))
	// the follow-up transactions: each spends one output, nothing else of them is in the filter
	var spenders []*wire.MsgTx
	for i := range outs {
		sp := wire.NewMsgTx(2)
		sig, pk := randBytes(rng, 70+rng.Intn(3)), pubKey(rng)
		sp.AddTxIn(wire.NewTxIn(&wire.OutPoint{Hash: txid, Index: uint32(i)}, append(push(sig), push(pk)...), nil))
		sp.AddTxOut(wire.NewTxOut(500, []byte{txscript.OP_TRUE}))
		sp.LockTime = rng.Uint32()
		spenders = append(spenders, sp)
		sid := sp.TxHash()
		if i > 0 {
			sb.WriteByte(',')
		}
		fmt.Fprintf(&sb, `{"txid":%s,"outs":[{"class":"nopush","pushes":[],"op":%s}],"ins":[{"op":%s,"pushes":%s}]}`,
			p.item(sid[:]), p.item(serOutPoint(&wire.OutPoint{Hash: sid, Index: 0})), p.item(after[i]), items([][]byte{sig, pk}))
	}
	sb.WriteString("]")
	tableMatched := table.F("matched").Bool()
	tableIns := map[int]bool{}
	for _, i := range table.F("inserted").Ints() {
		tableIns[i] = true
	}
	bc := &bloomCase{kind: "tx", p: p, line: sb.String(), label: fmt.Sprintf("tx %s on %s", cs.String(), p)}
	bc.check = func(c *vrun.Ctx, ex tla.Value) {
		f := p.make(flagOf[flag])
		for _, a := range preAdd {
			a(f)
		}
		var raw bytes.Buffer
		tx.Serialize(&raw)
		replay := map[string]any{"filter": p.String(), "flag": flag, "case": cs.Go(), "tx": fmt.Sprintf("%x", raw.Bytes()), "txid": txid.String()}
		var pres []string
		for _, d := range pre {
			pres = append(pres, fmt.Sprintf("%x", d))
		}
		replay["inserted_beforehand"] = pres
		c.AddTraces(1)
		st.add("tx")
		if flag == "p2pubkey" && len(outs) == 2 && outs[0].class == "multisig" && outs[0].hit == 2 && outs[1].class == "p2pkh" && outs[1].hit == 1 && !cs.F("txid").Bool() && len(ins) == 1 && !ins[0].opHit && !ins[0].pushHit {
			c.Sample(map[string]any{"kind": "bloom-match-tx-and-update", "filter": p.String(), "case": cs.String(), "table": table.String(),
				"spec_matched_on_real_positions": ex.F("matched").Bool(), "spec_outpoints_matching_afterwards": boolsOf(ex.F("after"))})
		}
		var got bool
		if pn := guard(func() { got = f.MatchTxAndUpdate(btcutil.NewTx(tx)) }); pn != nil {
			c.Violation("bloom:panic", fmt.Sprintf("MatchTxAndUpdate panics (%s): %v", p, pn), replay)
			return
		}
		c.AddEval(1)
		want := ex.F("matched").Bool()
		if got != want {
			key := "bloom:tx-match"
			if want {
				key = "bloom:tx-missed"
			}
			c.Violation(key, fmt.Sprintf("MatchTxAndUpdate = %v, the specification says %v (flag %s, filter %s, case %s)", got, want, flag, p, cs.String()), replay)
		}
		wantBytes := sparseOf(ex.F("bytes"), p.size)
		gotBytes := f.MsgFilterLoad().Filter
		c.AddEval(1)
		if !bytes.Equal(gotBytes, wantBytes) {
			c.Violation("bloom:tx-update", fmt.Sprintf("after MatchTxAndUpdate (flag %s) the bit field differs from the specification's at byte %d: the outpoints inserted are not those of the table (case %s, filter %s)",
				flag, firstDiff(wantBytes, gotBytes), cs.String(), p), replay)
		}
		wantAfter := boolsOf(ex.F("after"))
		collision := want != tableMatched
		for i := range outs {
			op := wire.OutPoint{Hash: txid, Index: uint32(i)}
			c.AddEval(1)
			if g := f.MatchesOutPoint(&op); g != wantAfter[i] {
				r2 := cloneMap(replay)
				r2["output"] = i
				c.Violation("bloom:tx-outpoint", fmt.Sprintf("after MatchTxAndUpdate (flag %s) MatchesOutPoint(txid:%d) = %v, the specification says %v (output class %s, case %s, filter %s)",
					flag, i, g, wantAfter[i], outs[i].class, cs.String(), p), r2)
			}
			if tableIns[i+1] && !wantAfter[i] {
				panic("TraceBloom contradicts the decision table: an outpoint the table inserts does not match")
			}
			if wantAfter[i] != tableIns[i+1] {
				collision = true
			}
		}
		wantFollow := boolsOf(ex.F("follow"))
		ml := f.MsgFilterLoad()
		for i, sp := range spenders {
			f2 := bloom.LoadFilter(wire.NewMsgFilterLoad(append([]byte(nil), ml.Filter...), ml.HashFuncs, ml.Tweak, ml.Flags))
			c.AddEval(1)
			g := f2.MatchTxAndUpdate(btcutil.NewTx(sp))
			if tableIns[i+1] && !wantFollow[i] {
				panic("TraceBloom contradicts the decision table: the transaction spending an inserted outpoint does not match")
			}
			if wantFollow[i] != tableIns[i+1] {
				collision = true
			}
			if g == wantFollow[i] {
				continue
			}
			r2 := cloneMap(replay)
			r2["output"] = i
			var sraw bytes.Buffer
			sp.Serialize(&sraw)
			r2["spending_tx"] = fmt.Sprintf("%x", sraw.Bytes())
			key := "bloom:tx-spender"
			if wantFollow[i] {
				key = "bloom:tx-spender-missed"
			}
			c.Violation(key, fmt.Sprintf("after MatchTxAndUpdate (flag %s) the transaction that spends output %d (class %s) gives MatchTxAndUpdate = %v, the specification says %v (case %s, filter %s)",
				flag, i, outs[i].class, g, wantFollow[i], cs.String(), p), r2)
		}
		if collision {
			// data share bit positions in this (small) filter: the exact
			// expectation above is the oracle, the table row does not apply
			st.add("tx-with-shared-positions")
			if p.size >= 20000 {
				st.add("tx-shared-positions-in-large-filter")
			}
		} else {
			c.Distinct(fmt.Sprintf("bloom/tx/%s", cs.String()))
		}
	}
	return bc, nil
}

// ---------------------------------------------------------------------------

func runBloom(c *vrun.Ctx) error {
	st := newStats()
	seed := c.Seed
	var cases []*bloomCase
	var fe firstErr
	per := 1
	if c.Thorough {
		per = 4
	}
	ci := 0
	err := model(c, modelOpts{module: "Bloom", workers: 3, actions: []string{"Group", "Insert", "PickSeq", "PickTx"}}, func(s tla.State) error {
		kind := s["case"].F("kind").Str()
		if kind != "seq" && kind != "tx" {
			if kind == "filter" {
				st.add("model-filter-states")
			}
			return nil
		}
		ci++
		rng := rand.New(rand.NewSource(seed*15485863 + int64(ci)))
		for r := 0; r < per; r++ {
			p := pickParams(rng, kind == "tx" && (r+ci)%2 == 0)
			switch kind {
			case "seq":
				adds := s["case"].F("adds").Strs()
				cases = append(cases, seqCase(rng, adds, s["expect"].F("must").Seq(), p, st))
				c.Distinct("bloom/seq/" + strings.Join(adds, ","))
			case "tx":
				bc, err := txCase(rng, s["case"].F("c"), s["expect"], p, st)
				if err != nil {
					return err
				}
				cases = append(cases, bc)
			}
		}
		return nil
	})
	if err != nil {
		return err
	}
	// the boundary of the quantifier: a non-empty bit field with no hash function
	rng := c.Rand("bloom-extra")
	for _, size := range []int{1, 64} {
		p := bloomParams{size: size, k: 0, tweak: rng.Uint32(), via: "LoadFilter"}
		must := []tla.Value{{Kind: tla.KSet, Elems: []tla.Value{{Kind: tla.KStr, S: "b1"}}}}
		cases = append(cases, seqCase(rng, []string{"add_b1"}, must, p, st))
	}
	bulk := []int{2000}
	if c.Thorough {
		bulk = []int{500, 3000, 12000}
	}
	for _, n := range bulk {
		cases = append(cases, bulkCase(rng, n, st))
	}
	var tr bytes.Buffer
	for i, bc := range cases {
		bc.id = i + 1
		fmt.Fprintf(&tr, `{"id":%d,"kind":%q,%s}`+"\n", bc.id, bc.kind, bc.line)
		bc.line = ""
	}
	exp := make(map[int]tla.Value, len(cases))
	var mu sync.Mutex
	err = model(c, modelOpts{module: "TraceBloom", cfg: "TraceBloom.cfg", label: "tracebloom", workers: 4,
		files: map[string][]byte{"bloomtrace.ndjson": tr.Bytes()}, actions: []string{"Group", "Case"}},
		func(s tla.State) error {
			if s["i"].Int() > 0 {
				mu.Lock()
				exp[s["expect"].F("id").Int()] = s["expect"]
				mu.Unlock()
			}
			return nil
		})
	if err != nil {
		return err
	}
	if len(exp) != len(cases) {
		return fmt.Errorf("TraceBloom: %d cases evaluated, %d recorded", len(exp), len(cases))
	}
	parallel(c, len(cases), func(i int) {
		if p := guard(func() { cases[i].check(c, exp[cases[i].id]) }); p != nil {
			fe.set(fmt.Errorf("bloom case %s: %v", cases[i].label, p))
		}
	})
	if err := fe.get(); err != nil {
		return err
	}
	if n := st.get("tx-shared-positions-in-large-filter"); n > 3 {
		return fmt.Errorf("bloom: %d decision-table cases in filters of >= 20000 bytes deviate from the table because of shared bit positions: not credible", n)
	}
	keys := st.export()
	var ks []string
	for k := range keys {
		ks = append(ks, k)
	}
	sort.Strings(ks)
	c.SetExtra("bloom_cases", keys)
	c.Logf("bloom cases checked: %s", st)
	return nil
}
