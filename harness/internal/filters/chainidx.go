package filters

import (
	"bytes"
	"fmt"
	"os"
	"path/filepath"
	"strings"
	"sync"
	"time"

	"github.com/btcsuite/btcd/blockchain"
	"github.com/btcsuite/btcd/blockchain/indexers"
	"github.com/btcsuite/btcd/btcutil/v2"
	"github.com/btcsuite/btcd/btcutil/v2/gcs"
	"github.com/btcsuite/btcd/btcutil/v2/gcs/builder"
	"github.com/btcsuite/btcd/chaincfg/v2"
	"github.com/btcsuite/btcd/chainhash/v2"
	"github.com/btcsuite/btcd/database"
	"github.com/btcsuite/btcd/txscript/v2"
	"github.com/btcsuite/btcd/wire/v2"

	"verif/harness/internal/tla"
	"verif/harness/internal/tlc"
	"verif/harness/internal/vrun"
)

// ChainIdx.tla: every path of the state graph is a real chain delivered to a
// real node (blockchain.BlockChain on ffldb) that runs the committed-filter
// index through the index manager; the filter, filter hash and filter header
// of every block are read back from the index.

type fixedTime struct{ t time.Time }

func (f *fixedTime) AdjustedTime() time.Time         { return f.t }
func (f *fixedTime) AddTimeSample(string, time.Time) {}
func (f *fixedTime) Offset() time.Duration           { return 0 }

var chainBase = time.Unix(1700000000, 0)

// nodeParams: regression-test parameters with coinbase maturity 1 (the
// Maturity of ChainIdx.tla); a fresh value per chain instance.
func nodeParams() *chaincfg.Params {
	p := chaincfg.RegressionNetParams
	p.Name = "verifflt"
	p.CoinbaseMaturity = 1
	p.BIP0034Height = 100000000
	p.BIP0065Height = 100000000
	p.BIP0066Height = 100000000
	p.Checkpoints = nil
	for i := range p.Deployments {
		p.Deployments[i].DeploymentStarter = chaincfg.NewMedianTimeDeploymentStarter(time.Time{})
		p.Deployments[i].DeploymentEnder = chaincfg.NewMedianTimeDeploymentEnder(time.Time{})
	}
	return &p
}

// kindScripts: the script kinds of ChainIdx.tla as bytes (fixed: the same
// kind is the same script everywhere).
func kindScripts() map[string][]byte {
	gen := chaincfg.RegressionNetParams.GenesisBlock.Transactions[0].TxOut[0].PkScript
	h := bytes.Repeat([]byte{0x42}, 20)
	return map[string][]byte{
		"true":    {txscript.OP_TRUE},
		"noptrue": {txscript.OP_NOP, txscript.OP_TRUE},
		"empty":   {},
		"opret":   append([]byte{txscript.OP_RETURN}, push([]byte("verif filters"))...),
		"p2pkh":   append(append([]byte{txscript.OP_DUP, txscript.OP_HASH160}, push(h)...), txscript.OP_EQUALVERIFY, txscript.OP_CHECKSIG),
		"genesis": gen,
		// never spendable, yet elements of the filter
		"unparse":  {txscript.OP_DATA_20, 1, 2, 3},
		"oversize": append([]byte{txscript.OP_TRUE}, bytes.Repeat([]byte{txscript.OP_NOP}, 10000)...),
	}
}

type realCoin struct {
	op    wire.OutPoint
	value int64
}

// idxBlock is the real block of one prefix of a path.
type idxBlock struct {
	height  int
	msg     *wire.MsgBlock
	hash    chainhash.Hash
	ex      tla.Value
	cs      tla.Value
	spent   [][]byte
	spentCB []bool
	coins   map[string]realCoin // unspent after this block, by "hgt/tx/out"
	g       *gcsCase
	parent  *idxBlock
	once    sync.Once
}

func coinKey(c tla.Value) string {
	return fmt.Sprintf("%d/%d/%d", c.F("hgt").Int(), c.F("tx").Int(), c.F("out").Int())
}

func solveHeader(h *wire.BlockHeader) {
	target := blockchain.CompactToBig(h.Bits)
	for n := uint32(0); ; n++ {
		h.Nonce = n
		hash := h.BlockHash()
		if blockchain.HashToBig(&hash).Cmp(target) <= 0 {
			return
		}
	}
}

// buildIdxBlock makes the real block of a state on top of parent.
func buildIdxBlock(parent *idxBlock, cs, ex tla.Value, sc map[string][]byte) (*idxBlock, error) {
	height := cs.F("h").Int()
	b := &idxBlock{height: height, ex: ex, cs: cs, parent: parent, coins: map[string]realCoin{}}
	if height == 0 {
		b.msg = chaincfg.RegressionNetParams.GenesisBlock
		b.hash = *chaincfg.RegressionNetParams.GenesisHash
	} else {
		for k, v := range parent.coins {
			b.coins[k] = v
		}
		blk := cs.F("block").Seq()
		msg := &wire.MsgBlock{}
		cb := wire.NewMsgTx(1)
		cb.AddTxIn(wire.NewTxIn(wire.NewOutPoint(&chainhash.Hash{}, 0xffffffff), []byte{2, byte(height), 0, 1, 0x76}, nil))
		for _, k := range blk[0].F("outs").Strs() {
			cb.AddTxOut(wire.NewTxOut(100000000, sc[k]))
		}
		msg.Transactions = append(msg.Transactions, cb)
		if len(blk) > 1 {
			tx := wire.NewMsgTx(2)
			var total int64
			for _, coin := range cs.F("spends").Seq() {
				rc, ok := b.coins[coinKey(coin)]
				if !ok {
					return nil, fmt.Errorf("ChainIdx: coin %s spent at height %d is not unspent", coinKey(coin), height)
				}
				delete(b.coins, coinKey(coin))
				var sig []byte
				if coin.F("kind").Str() == "empty" {
					sig = []byte{txscript.OP_TRUE}
				}
				op := rc.op
				tx.AddTxIn(wire.NewTxIn(&op, sig, nil))
				total += rc.value
				b.spent = append(b.spent, sc[coin.F("kind").Str()])
				b.spentCB = append(b.spentCB, coin.F("cb").Bool())
			}
			outs := blk[1].F("outs").Strs()
			for _, k := range outs {
				tx.AddTxOut(wire.NewTxOut(total/int64(len(outs)+1), sc[k]))
			}
			msg.Transactions = append(msg.Transactions, tx)
		}
		utx := make([]*btcutil.Tx, len(msg.Transactions))
		for i, tx := range msg.Transactions {
			utx[i] = btcutil.NewTx(tx)
		}
		msg.Header = wire.BlockHeader{Version: 4, PrevBlock: parent.hash, MerkleRoot: blockchain.CalcMerkleRoot(utx, false),
			Timestamp: chainBase.Add(time.Duration(height) * 10 * time.Minute), Bits: chaincfg.RegressionNetParams.PowLimitBits}
		solveHeader(&msg.Header)
		b.msg, b.hash = msg, msg.BlockHash()
		for ti, tx := range msg.Transactions {
			txid := tx.TxHash()
			for oi, o := range tx.TxOut {
				b.coins[fmt.Sprintf("%d/%d/%d", height, ti, oi+1)] = realCoin{wire.OutPoint{Hash: txid, Index: uint32(oi)}, o.Value}
			}
		}
	}
	// the specification's elements under the key rule (first 16 bytes of the block hash)
	g := &gcsCase{kind: "small", P: builder.DefaultP, M: builder.DefaultM, alias: -1, prefix: "index", maker: "the indexed filter (CfIndex through the index manager)"}
	copy(g.key[:], b.hash[:16])
	elems := ex.F("elems").Strs()
	F := uint64(len(elems)) * g.M
	for _, e := range elems {
		g.data = append(g.data, sc[e])
		g.vals = append(g.vals, reduce(&g.key, sc[e], F))
	}
	var members, others []int
	for _, d := range g.data {
		g.queries = append(g.queries, d)
		g.qvals = append(g.qvals, reduce(&g.key, d, F))
		g.member = append(g.member, true)
		members = append(members, len(g.queries)-1)
	}
	for _, e := range append(ex.F("excluded").Strs(), "") {
		d := sc[e]
		if e == "" {
			d = []byte("a script that is nowhere in the chain")
		}
		g.queries = append(g.queries, d)
		g.qvals = append(g.qvals, reduce(&g.key, d, F))
		g.member = append(g.member, false)
		others = append(others, len(g.queries)-1)
	}
	g.batches = [][]int{{}, others}
	if len(members) > 0 {
		g.batches = append(g.batches, members, append(append([]int(nil), others...), members[len(members)-1]))
	}
	g.label = fmt.Sprintf("indexed filter of the block at height %d: %s", height, clip(cs.String(), 300))
	b.g = g
	return b, nil
}

func prepareChainIdx(c *vrun.Ctx) (*gcsPart, error) {
	st := newStats()
	cfg := "ChainIdx_quick.cfg"
	workers := 2
	if c.Thorough {
		cfg, workers = "ChainIdx_thorough.cfg", 4
	}
	res, err := tlc.Run(tlc.Opts{SpecDir: c.SpecDir("filters"), Module: "ChainIdx", Config: cfg, Workers: workers,
		Timeout: 20 * time.Minute, Coverage: c.Thorough, Scratch: c.Scratch, HeapGB: 4, DumpGraph: true})
	if err != nil {
		return nil, err
	}
	if !res.OK {
		return nil, fmt.Errorf("ChainIdx.tla: TLC reports %s %s on the specification itself (not a verdict about btcd)", res.ErrKind, res.ErrName)
	}
	if c.Thorough && res.ActionCount["Connect"] == 0 {
		return nil, fmt.Errorf("ChainIdx.tla: action Connect never taken (coverage %v)", res.ActionCount)
	}
	c.Logf("ChainIdx.tla: %d distinct states, %d generated, %.1fs", res.Distinct, res.Generated, res.WallS)
	c.AddModel(res.Distinct, res.Generated)
	c.SetExtra("tlc_chainidx", map[string]any{"distinct": res.Distinct, "generated": res.Generated, "wall_s": res.WallS})
	paths, covered := res.Graph.CoverPaths(c.Rand("chainidx-paths"), 0, 0)
	if covered != res.Graph.Edges {
		return nil, fmt.Errorf("ChainIdx.tla: %d of %d transitions covered by the paths", covered, res.Graph.Edges)
	}
	sc := kindScripts()
	// real blocks, one per distinct prefix of the paths
	byPrefix := map[string]*idxBlock{}
	var blocks []*idxBlock
	var chains [][]*idxBlock
	get := func(key string, parent *idxBlock, n *tlc.Node) (*idxBlock, error) {
		if b, ok := byPrefix[key]; ok {
			return b, nil
		}
		b, err := buildIdxBlock(parent, n.State["case"], n.State["expect"], sc)
		if err != nil {
			return nil, err
		}
		byPrefix[key] = b
		blocks = append(blocks, b)
		return b, nil
	}
	for _, p := range paths {
		if len(p) == 0 {
			continue
		}
		key := p[0].From.ID
		cur, err := get(key, nil, p[0].From)
		if err != nil {
			return nil, err
		}
		chain := []*idxBlock{cur}
		for _, s := range p {
			key += ">" + s.To.ID
			if cur, err = get(key, cur, s.To); err != nil {
				return nil, err
			}
			chain = append(chain, cur)
		}
		chains = append(chains, chain)
	}
	var gs []*gcsCase
	for _, b := range blocks {
		gs = append(gs, b.g)
	}
	c.Logf("ChainIdx.tla: %d chains covering all %d transitions, %d distinct real blocks", len(chains), res.Graph.Edges, len(blocks))
	return &gcsPart{cases: gs, check: func(exp map[int]tla.Value) error { return checkChainIdx(c, chains, exp, sc, st) }}, nil
}

func checkChainIdx(c *vrun.Ctx, chains [][]*idxBlock, exp map[int]tla.Value, sc map[string][]byte, st *stats) error {
	parent := c.Scratch
	if fi, err := os.Stat("/dev/shm"); err == nil && fi.IsDir() {
		if d, err := os.MkdirTemp("/dev/shm", "verif-c20-chain-"); err == nil {
			parent = d
			defer os.RemoveAll(d)
		}
	}
	var fe firstErr
	parallel(c, len(chains), func(i int) {
		if p := guard(func() { fe.set(runIdxChain(c, filepath.Join(parent, fmt.Sprintf("n%d", i)), chains[i], exp, st)) }); p != nil {
			fe.set(fmt.Errorf("chainidx chain %d: %v", i, p))
		}
	})
	if err := fe.get(); err != nil {
		return err
	}
	if st.get("spent-coinbase-created") == 0 || st.get("spent-not-coinbase-created") == 0 {
		return fmt.Errorf("chainidx: the chains spend %d coinbase-created and %d other outputs with non-empty scripts: both have to occur (vacuity guard)",
			st.get("spent-coinbase-created"), st.get("spent-not-coinbase-created"))
	}
	c.SetExtra("chainidx_cases", st.export())
	c.Logf("indexed-filter chains checked: %s", st)
	return nil
}

// runIdxChain delivers one chain to a fresh real node with the index manager
// and compares what the index stored for every block.
func runIdxChain(c *vrun.Ctx, dir string, chain []*idxBlock, exp map[int]tla.Value, st *stats) error {
	params := nodeParams()
	db, err := database.Create("ffldb", dir, params.Net)
	if err != nil {
		return err
	}
	defer func() {
		db.Close()
		os.RemoveAll(dir)
	}()
	cf := indexers.NewCfIndex(db, params)
	node, err := blockchain.New(&blockchain.Config{DB: db, ChainParams: params, TimeSource: &fixedTime{chainBase.Add(10 * time.Hour)},
		IndexManager: indexers.NewManager(db, []indexers.Indexer{cf}), UtxoCacheMaxSize: 1 << 20})
	if err != nil {
		return fmt.Errorf("chainidx: blockchain.New: %w", err)
	}
	st.add("chains")
	c.AddTraces(1)
	nbytes := make([][]byte, len(chain))
	for k, b := range chain {
		nbytes[k] = bytesOf(exp[b.g.id].F("nbytes"))
	}
	fh := func(k int) [32]byte { return sha256d(nbytes[k]) }
	var zero [32]byte
	var desc []string
	for k, b := range chain {
		desc = append(desc, b.cs.F("block").String())
		if k > 0 {
			ublk := btcutil.NewBlock(b.msg)
			main, orphan, err := node.ProcessBlock(ublk, blockchain.BFNone)
			if err != nil || !main || orphan {
				return fmt.Errorf("chainidx: the node refuses the generated block at height %d (%s): main=%v orphan=%v err=%v", b.height, b.cs.String(), main, orphan, err)
			}
			// the spend journal of the node is the specification's spent list
			sj, err := node.FetchSpendJournal(ublk)
			if err != nil || len(sj) != len(b.spent) {
				return fmt.Errorf("chainidx: spend journal of height %d has %d entries (%v), the specification spends %d coins", b.height, len(sj), err, len(b.spent))
			}
			for i := range sj {
				if !bytes.Equal(sj[i].PkScript, b.spent[i]) || sj[i].IsCoinBase != b.spentCB[i] {
					return fmt.Errorf("chainidx: spend journal entry %d of height %d is (%x, coinbase=%v), the specification's coin is (%x, coinbase=%v)",
						i, b.height, sj[i].PkScript, sj[i].IsCoinBase, b.spent[i], b.spentCB[i])
				}
			}
		}
	}
	for k, b := range chain {
		ex := exp[b.g.id]
		st.add("blocks")
		first := false
		b.once.Do(func() { first = true })
		if first {
			for i, s := range b.spent {
				if len(s) > 0 && b.spentCB[i] {
					st.add("spent-coinbase-created")
				} else if len(s) > 0 {
					st.add("spent-not-coinbase-created")
				}
			}
			c.Distinct(fmt.Sprintf("index/h=%d/%s/%s", b.height, b.cs.F("block").String(), b.ex.F("spent").String()))
		}
		var raw bytes.Buffer
		b.msg.Serialize(&raw)
		replay := map[string]any{"chain": desc[:k+1], "height": b.height, "block": fmt.Sprintf("%x", raw.Bytes()), "block_hash": b.hash.String(),
			"spec_elements": b.ex.F("elems").Strs(), "spec_spent": b.ex.F("spent").String(), "spec_filter": fmt.Sprintf("%x", nbytes[k]),
			"how": "regression-test parameters with CoinbaseMaturity=1; deliver the blocks of `chain` in order to blockchain.New(Config{IndexManager: indexers.NewManager(db, CfIndex)}) and read CfIndex.FilterByBlockHash"}
		if k > 0 {
			var bl []string
			for _, x := range chain[1 : k+1] {
				var rb bytes.Buffer
				x.msg.Serialize(&rb)
				bl = append(bl, fmt.Sprintf("%x", rb.Bytes()))
			}
			replay["blocks_after_genesis"] = bl
		}
		stored, err1 := cf.FilterByBlockHash(&b.hash, wire.GCSFilterRegular)
		storedH, err2 := cf.FilterHashByBlockHash(&b.hash, wire.GCSFilterRegular)
		storedHd, err3 := cf.FilterHeaderByBlockHash(&b.hash, wire.GCSFilterRegular)
		c.AddEval(3)
		if err1 != nil || !bytes.Equal(stored, nbytes[k]) {
			replay["indexed_filter"] = fmt.Sprintf("%x", stored)
			var cbs []string
			for i, s := range b.spent {
				cbs = append(cbs, fmt.Sprintf("%x(created by coinbase: %v)", s, b.spentCB[i]))
			}
			c.Violation("index:filter", fmt.Sprintf("the filter the index stored for the block at height %d is %x (%v); the basic filter of its output scripts and spent scripts [%s] is %x",
				b.height, stored, err1, strings.Join(cbs, " "), nbytes[k]), replay)
		}
		if want := fh(k); err2 != nil || !bytes.Equal(storedH, want[:]) {
			c.Violation("index:filter-hash", fmt.Sprintf("the indexed filter hash of height %d is %x (%v), expected %x", b.height, storedH, err2, want), replay)
		}
		wantHdr, err := evalHeader(b.ex.F("header"), fh, zero)
		if err != nil {
			return err
		}
		if err3 != nil || !bytes.Equal(storedHd, wantHdr[:]) {
			c.Violation("index:header", fmt.Sprintf("the indexed filter header of height %d is %x (%v); the chain rule H(filter hash || previous header) from the genesis block gives %x", b.height, storedHd, err3, wantHdr), replay)
		}
		if !first {
			continue
		}
		// independently built, and every script found in the stored filter
		if bf, err := builder.BuildBasicFilter(b.msg, b.spent); err == nil {
			bn, _ := bf.NBytes()
			c.AddEval(1)
			if !bytes.Equal(bn, stored) {
				c.Violation("index:differs-from-built", fmt.Sprintf("the indexed filter of height %d (%x) is not the filter BuildBasicFilter makes of the block and its spent scripts (%x)", b.height, stored, bn), replay)
			}
		}
		var sf *gcs.Filter
		if p := guard(func() { sf, err = gcs.FromNBytes(builder.DefaultP, builder.DefaultM, stored) }); p != nil || err != nil {
			c.Violation("index:filter-unreadable", fmt.Sprintf("the indexed filter of height %d cannot be read: %v %v", b.height, p, err), replay)
			continue
		}
		g := *b.g
		g.prebuilt = sf
		checkGcs(c, &g, ex, st)
	}
	return nil
}
