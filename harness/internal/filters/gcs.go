package filters

import (
	"bytes"
	"encoding/binary"
	"fmt"
	"math/bits"
	"math/rand"
	"os"
	"path/filepath"
	"sort"
	"strings"
	"sync"

	"github.com/aead/siphash"
	"github.com/btcsuite/btcd/btcutil/v2/gcs"

	"verif/harness/internal/tla"
	"verif/harness/internal/vrun"
)

const bipM = 784931

// reduce is the element -> value map of BIP158 recomputed by the binder:
// SipHash-2-4 of the element under the key (github.com/aead/siphash, the
// third-party package the code itself uses), then the high 64 bits of the
// 128-bit product with F = N*M (math/bits.Mul64, not the code's fastReduction).
func reduce(key *[16]byte, data []byte, F uint64) uint64 {
	hi, _ := bits.Mul64(siphash.Sum64(data, key), F)
	return hi
}

// elemOf is element number i of a pool: unique, of varying length.
func elemOf(i uint32) []byte {
	return elemInto(make([]byte, 18), i)
}

// elemInto writes element i into buf (cap >= 18) and returns the slice.
func elemInto(buf []byte, i uint32) []byte {
	n := 8 + int(i%11)
	b := buf[:n]
	for k := range b {
		b[k] = 0
	}
	binary.LittleEndian.PutUint32(b, i)
	b[4] = byte(i>>3) ^ 0x5a
	for k := 8; k < n; k++ {
		b[k] = byte(k) * 37
	}
	if i%7 == 0 {
		b = b[:5] // short elements too
	}
	return b
}

// gcsCase is one filter with its queries, in real elements and real values.
type gcsCase struct {
	id      int
	kind    string // "small" | "large"
	label   string
	P       uint8
	M       uint64
	key     [16]byte
	data    [][]byte // elements in the order given to the code
	vals    []uint64 // their values (kind large: ascending, NOT aligned with data)
	shape   []string
	queries [][]byte
	qvals   []uint64
	member  []bool  // query is one of the elements (never-miss clause)
	batches [][]int // indexes into queries
	alias   int     // index of a query whose value equals a member's value modulo 2^32 only (-1: none)

	// when set, the filter under test was made by another constructor (the
	// BIP158 block filter builder) and violations are keyed with this prefix
	prebuilt *gcs.Filter
	prefix   string
	maker    string
}

func limbs(v uint64) string {
	return fmt.Sprintf("[%d,%d,%d,%d]", v>>48, (v>>32)&0xffff, (v>>16)&0xffff, v&0xffff)
}

func (g *gcsCase) traceLine() []byte {
	var sb bytes.Buffer
	fmt.Fprintf(&sb, `{"id":%d,"kind":%q,"p":%d,"m":%s,"vals":[`, g.id, g.kind, g.P, limbs(g.M))
	for i, v := range g.vals {
		if i > 0 {
			sb.WriteByte(',')
		}
		sb.WriteString(limbs(v))
	}
	sb.WriteString(`],"shape":[`)
	for i, s := range g.shape {
		if i > 0 {
			sb.WriteByte(',')
		}
		fmt.Fprintf(&sb, "%q", s)
	}
	sb.WriteString(`],"qs":[`)
	for i, v := range g.qvals {
		if i > 0 {
			sb.WriteByte(',')
		}
		if corrupt("gcs-trace") && i == 0 && g.kind == "small" && len(g.shape) == 3 && g.member[0] {
			v ^= 2 // self-test: a falsified recorded value must be noticed
		}
		sb.WriteString(limbs(v))
	}
	sb.WriteString(`],"batches":[`)
	for i, b := range g.batches {
		if i > 0 {
			sb.WriteByte(',')
		}
		sb.WriteByte('[')
		for j, q := range b {
			if j > 0 {
				sb.WriteByte(',')
			}
			fmt.Fprintf(&sb, "%d", q+1)
		}
		sb.WriteByte(']')
	}
	sb.WriteString("]}\n")
	return sb.Bytes()
}

// evalGcsTrace runs TraceGcs.tla on the recorded cases and returns the
// specification's expectation per case id.
func evalGcsTrace(c *vrun.Ctx, label string, cases []*gcsCase) (map[int]tla.Value, error) {
	var tr bytes.Buffer
	for _, g := range cases {
		tr.Write(g.traceLine())
	}
	if d := os.Getenv("VERIF_C20_KEEPTRACE"); d != "" { // development aid
		os.WriteFile(filepath.Join(d, label+".ndjson"), tr.Bytes(), 0o644)
	}
	out := make(map[int]tla.Value, len(cases))
	err := model(c, modelOpts{module: "TraceGcs", cfg: "TraceGcs.cfg", label: label, workers: 4,
		files: map[string][]byte{"gcstrace.ndjson": tr.Bytes()}, actions: []string{"Group", "Case"}},
		func(st tla.State) error {
			if st["i"].Int() > 0 {
				out[st["expect"].F("id").Int()] = st["expect"]
			}
			return nil
		})
	if err != nil {
		return nil, err
	}
	if len(out) != len(cases) {
		return nil, fmt.Errorf("TraceGcs [%s]: %d cases evaluated, %d recorded", label, len(out), len(cases))
	}
	return out, nil
}

// ---------------------------------------------------------------------------
// comparison with the real code

type gcsAPI struct {
	name string
	f    *gcs.Filter
}

// checkGcs builds the real filter of the case and compares everything
// observable with the specification's expectation ex.
func checkGcs(c *vrun.Ctx, g *gcsCase, ex tla.Value, st *stats) {
	wantData := bytesOf(ex.F("data"))
	wantN := bytesOf(ex.F("nbytes"))
	wantMatch := boolsOf(ex.F("match"))
	wantAny := boolsOf(ex.F("any"))
	replay := map[string]any{"label": g.label, "P": g.P, "M": g.M, "key": fmt.Sprintf("%x", g.key), "shape": g.shape,
		"n": len(g.data), "expect_bytes": clip(fmt.Sprintf("%x", wantData), 400)}
	if len(g.data) <= 8 {
		el := make([]string, len(g.data))
		for i, d := range g.data {
			el[i] = fmt.Sprintf("%x", d)
		}
		replay["elements"] = el
		replay["values"] = g.vals
	}
	c.AddTraces(1)

	pfx, maker := "gcs", "BuildGCSFilter"
	if g.prefix != "" {
		pfx, maker = g.prefix, g.maker
	}
	f := g.prebuilt
	var err error
	if f == nil {
		if p := guard(func() { f, err = gcs.BuildGCSFilter(g.P, g.M, g.key, g.data) }); p != nil || err != nil {
			c.Violation(pfx+":build-fails", fmt.Sprintf("BuildGCSFilter(P=%d, M=%d, %d elements) fails: %v %v", g.P, g.M, len(g.data), p, err), replay)
			return
		}
	}
	c.AddEval(1)
	if int(f.N()) != ex.F("n").Int() || f.P() != g.P {
		c.Violation(pfx+":n", fmt.Sprintf("filter reports N=%d P=%d, built from %d elements with P=%d", f.N(), f.P(), ex.F("n").Int(), g.P), replay)
	}
	got, _ := f.Bytes()
	c.AddEval(1)
	if !bytes.Equal(got, wantData) {
		replay["got_bytes"] = clip(fmt.Sprintf("%x", got), 400)
		c.Violation(pfx+":bytes", fmt.Sprintf("%s(P=%d, M=%d) of %d elements serialises to %s; the Golomb-Rice coding of the sorted values is %s (%s)",
			maker, g.P, g.M, len(g.data), clip(fmt.Sprintf("%x", got), 80), clip(fmt.Sprintf("%x", wantData), 80), g.label), replay)
	}
	gotN, _ := f.NBytes()
	c.AddEval(1)
	if !bytes.Equal(gotN, wantN) {
		c.Violation(pfx+":nbytes", fmt.Sprintf("NBytes() = %s, the specification's framing (N as compact size, then the bytes) is %s",
			clip(fmt.Sprintf("%x", gotN), 80), clip(fmt.Sprintf("%x", wantN), 80)), replay)
	}
	if pb, _ := f.PBytes(); len(pb) != len(got)+1 || pb[0] != g.P || !bytes.Equal(pb[1:], got) {
		c.Violation(pfx+":pbytes", "PBytes() is not P followed by the filter bytes", replay)
	}
	if npb, _ := f.NPBytes(); !bytes.Equal(npb, append(append(append([]byte{}, wantN[:len(wantN)-len(wantData)]...), g.P), wantData...)) {
		c.Violation(pfx+":npbytes", "NPBytes() is not N, P, then the filter bytes", replay)
	}

	// round trips, from the SPECIFICATION's bytes
	apis := []gcsAPI{{"built", f}}
	var fn, fb *gcs.Filter
	if p := guard(func() { fn, err = gcs.FromNBytes(g.P, g.M, wantN) }); p != nil || err != nil {
		c.Violation(pfx+":from-nbytes", fmt.Sprintf("FromNBytes rejects the specification's framed bytes: %v %v", p, err), replay)
	} else {
		b2, _ := fn.Bytes()
		n2, _ := fn.NBytes()
		c.AddEval(1)
		if int(fn.N()) != ex.F("n").Int() || !bytes.Equal(b2, wantData) || !bytes.Equal(n2, wantN) {
			c.Violation(pfx+":from-nbytes", fmt.Sprintf("FromNBytes(NBytes) does not round-trip: N=%d bytes=%s", fn.N(), clip(fmt.Sprintf("%x", b2), 80)), replay)
		} else {
			apis = append(apis, gcsAPI{"from-nbytes", fn})
		}
	}
	if p := guard(func() { fb, err = gcs.FromBytes(uint32(ex.F("n").Int()), g.P, g.M, wantData) }); p != nil || err != nil {
		c.Violation(pfx+":from-bytes", fmt.Sprintf("FromBytes rejects the specification's bytes: %v %v", p, err), replay)
	} else {
		b2, _ := fb.Bytes()
		c.AddEval(1)
		if !bytes.Equal(b2, wantData) {
			c.Violation(pfx+":from-bytes", "FromBytes(Bytes) does not round-trip", replay)
		} else if g.kind == "small" {
			apis = append(apis, gcsAPI{"from-bytes", fb})
		}
	}

	memberVal := map[uint32][]uint64{}
	if g.alias >= 0 {
		for _, v := range g.vals {
			memberVal[uint32(v)] = append(memberVal[uint32(v)], v)
		}
	}
	aliased := func(q uint64) bool {
		for _, v := range memberVal[uint32(q)] {
			if v != q {
				return true
			}
		}
		return false
	}

	// single queries
	for ai, a := range apis {
		if g.kind == "large" && ai > 0 && len(g.queries) > 800 {
			continue // the thousands of element-wise scans are done on the built filter
		}
		for qi, q := range g.queries {
			var m bool
			var merr error
			if p := guard(func() { m, merr = a.f.Match(g.key, q) }); p != nil || merr != nil {
				c.Violation(pfx+":match-fails", fmt.Sprintf("Match fails on a well-formed filter (%s): %v %v", a.name, p, merr), replay)
				continue
			}
			c.AddEval(1)
			if m == wantMatch[qi] {
				continue
			}
			r2 := cloneMap(replay)
			r2["query"] = fmt.Sprintf("%x", q)
			r2["query_value"] = g.qvals[qi]
			if g.member[qi] && !m {
				c.Violation(pfx+":member-missed:Match", fmt.Sprintf("Match(%x) = false on the %s filter (P=%d M=%d N=%d) although the element is one of those the filter was built from (value %d; %s)",
					q, a.name, g.P, g.M, len(g.data), g.qvals[qi], g.label), r2)
			} else {
				c.Violation(pfx+":match:Match", fmt.Sprintf("Match(%x) = %v on the %s filter, the specification says %v (query value %d; %s)", q, m, a.name, wantMatch[qi], g.qvals[qi], g.label), r2)
			}
		}
	}
	// batches
	type strat struct {
		name string
		call func(f *gcs.Filter, qs [][]byte) (bool, error)
	}
	strats := []strat{
		{"MatchAny", func(f *gcs.Filter, qs [][]byte) (bool, error) { return f.MatchAny(g.key, qs) }},
		{"ZipMatchAny", func(f *gcs.Filter, qs [][]byte) (bool, error) { return f.ZipMatchAny(g.key, qs) }},
		{"HashMatchAny", func(f *gcs.Filter, qs [][]byte) (bool, error) { return f.HashMatchAny(g.key, qs) }},
	}
	for ai, a := range apis {
		if g.kind == "large" && ai > 1 {
			continue
		}
		for bi, b := range g.batches {
			qs := make([][]byte, len(b))
			hasMember := false
			for k, qi := range b {
				qs[k] = g.queries[qi]
				hasMember = hasMember || g.member[qi]
			}
			for _, s := range strats {
				var m bool
				var merr error
				if p := guard(func() { m, merr = s.call(a.f, qs) }); p != nil || merr != nil {
					c.Violation(pfx+":batch-fails:"+s.name, fmt.Sprintf("%s fails on a well-formed filter (%s, %d targets): %v %v", s.name, a.name, len(qs), p, merr), replay)
					continue
				}
				c.AddEval(1)
				st.add("batch/" + s.name)
				if m == wantAny[bi] {
					continue
				}
				r2 := cloneMap(replay)
				r2["batch"] = b
				if len(b) <= 8 {
					var bv []uint64
					for _, qi := range b {
						bv = append(bv, g.qvals[qi])
					}
					r2["batch_values"] = bv
				}
				usesHash := s.name == "HashMatchAny" || (s.name == "MatchAny" && len(qs) >= int(a.f.N()/2))
				trunc := false
				if m && !wantAny[bi] && usesHash && g.alias >= 0 {
					for _, qi := range b {
						if aliased(g.qvals[qi]) {
							trunc = true
							r2["aliased_query_value"] = g.qvals[qi]
							r2["aliased_query"] = fmt.Sprintf("%x", g.queries[qi])
							r2["member_values_with_same_low_32_bits"] = memberVal[uint32(g.qvals[qi])]
						}
					}
				}
				switch {
				case trunc:
					// repaired in /repo (63c39220): the key only names the shape,
					// known-findings.json lists it as fixed, so this is a plain VIOLATION

					c.Violation(pfx+":hash-match-any:values-truncated-to-32-bits",
						fmt.Sprintf("%s answers true for a batch none of whose %d targets matches on its own (Match and ZipMatchAny say false): the hash-set strategy keys its index by uint32(value), and N*M = %d exceeds 2^32 (N=%d, M=%d), so a target whose value differs from a member's value by a multiple of 2^32 is reported as present; batch matching is not element-wise matching",
							s.name, len(qs), uint64(len(g.data))*g.M, len(g.data), g.M), r2)
				case hasMember && !m:
					c.Violation(pfx+":member-missed:"+s.name, fmt.Sprintf("%s = false on the %s filter for a batch of %d targets that contains an element the filter was built from (P=%d M=%d N=%d; %s)",
						s.name, a.name, len(qs), g.P, g.M, len(g.data), g.label), r2)
				default:
					c.Violation(pfx+":batch:"+s.name, fmt.Sprintf("%s = %v on the %s filter for a batch of %d targets; element-wise matching (the specification) gives %v (P=%d M=%d N=%d; %s)",
						s.name, m, a.name, len(qs), wantAny[bi], g.P, g.M, len(g.data), g.label), r2)
				}
			}
		}
	}
}

func cloneMap(m map[string]any) map[string]any {
	out := make(map[string]any, len(m)+4)
	for k, v := range m {
		out[k] = v
	}
	return out
}

// ---------------------------------------------------------------------------
// pools of real elements

// tablePool knows, for every value of [0, F), up to two elements mapped to it.
type tablePool struct {
	key    [16]byte
	F      uint64
	first  []int32
	second []int32
}

func newTablePool(key [16]byte, F uint64, density uint64) *tablePool {
	p := &tablePool{key: key, F: F, first: make([]int32, F), second: make([]int32, F)}
	for i := range p.first {
		p.first[i], p.second[i] = -1, -1
	}
	K := density*F + 4096
	buf := make([]byte, 18)
	for i := uint64(0); i < K; i++ {
		v := reduce(&p.key, elemInto(buf, uint32(i)), F)
		if p.first[v] < 0 {
			p.first[v] = int32(i)
		} else if p.second[v] < 0 {
			p.second[v] = int32(i)
		}
	}
	return p
}

func pow2(P uint8) uint64 { return uint64(1) << P }

func farQ(P uint8) uint64 {
	switch {
	case P <= 2:
		return 65
	case P <= 20:
		return 3
	}
	return 1
}

func minDelta(class string, P uint8) uint64 {
	switch class {
	case "adj":
		return 1
	case "rmax":
		return pow2(P) - 1
	case "pow":
		return pow2(P)
	case "pow1":
		return pow2(P) + 1
	case "far":
		return farQ(P) * pow2(P)
	}
	return 0
}

// realise finds elements whose sorted values have the differences named by
// shape. ok=false: not realisable in [0, F) (or not found).
func (p *tablePool) realise(rng *rand.Rand, shape []string, P uint8) (elems []int32, ok bool) {
	var minSum uint64
	flex := 0
	for _, cl := range shape {
		minSum += minDelta(cl, P)
		if cl == "mid" || cl == "far" {
			flex++
		}
	}
	if minSum >= p.F {
		return nil, false
	}
	left := p.F - 1 - minSum
	for attempt := 0; attempt < 80; attempt++ {
		elems = elems[:0]
		var cur uint64
		budget := left
		good := true
		for k, cl := range shape {
			d := minDelta(cl, P)
			if cl == "mid" || cl == "far" {
				share := budget / uint64(flex)
				capx := share
				switch cl {
				case "mid":
					if lim := 3*pow2(P) + 5; capx > lim {
						capx = lim
					}
				case "far":
					span := uint64(3)
					if P <= 2 {
						span = 135
					}
					if lim := span*pow2(P) + pow2(P) - 1; capx > lim {
						capx = lim
					}
				}
				extra := uint64(0)
				if capx > 0 {
					extra = uint64(rng.Int63n(int64(capx) + 1))
				}
				if cl == "mid" && extra < 2 && capx >= 2 {
					extra = 2
				}
				// nudge to a covered value
				found := false
				for t := uint64(0); t < 16 && extra+t <= capx+8 && cur+d+extra+t < p.F; t++ {
					if p.first[cur+d+extra+t] >= 0 {
						extra += t
						found = true
						break
					}
				}
				if !found || extra > budget {
					good = false
					break
				}
				budget -= extra
				d += extra
			}
			cur += d
			if cur >= p.F {
				good = false
				break
			}
			var e int32
			if cl == "eq" && k > 0 {
				prev := elems[len(elems)-1]
				alt := p.first[cur]
				if alt == prev {
					alt = p.second[cur]
				}
				// a different element with the same value, or the same element again
				if alt >= 0 && alt != prev && rng.Intn(3) > 0 {
					e = alt
					for _, x := range elems {
						if x == e {
							e = prev
						}
					}
				} else {
					e = prev
				}
			} else {
				e = p.first[cur]
				if e < 0 {
					good = false
					break
				}
				if rng.Intn(2) == 0 && p.second[cur] >= 0 {
					e = p.second[cur]
				}
			}
			elems = append(elems, e)
		}
		if good {
			return elems, true
		}
	}
	return nil, false
}

// widePool is a sample of elements over a range too wide for a table
// (F >= 2^32): sorted by value, with the pairs at the exact distances the
// classes need found by sweeping.
type widePool struct {
	key   [16]byte
	F     uint64
	vals  []uint64 // ascending
	idx   []uint32 // element numbers, aligned
	pairs map[uint64][][2]int
}

func newWidePool(key [16]byte, F uint64, P uint8) *widePool {
	const K = 1 << 21
	w := &widePool{key: key, F: F, pairs: map[uint64][][2]int{}}
	type ve struct {
		v uint64
		i uint32
	}
	all := make([]ve, K)
	buf := make([]byte, 18)
	for i := range all {
		all[i] = ve{reduce(&w.key, elemInto(buf, uint32(i)), F), uint32(i)}
	}
	sort.Slice(all, func(a, b int) bool { return all[a].v < all[b].v })
	w.vals = make([]uint64, K)
	w.idx = make([]uint32, K)
	for i, x := range all {
		w.vals[i], w.idx[i] = x.v, x.i
	}
	for _, d := range []uint64{1, pow2(P) - 1, pow2(P), pow2(P) + 1} {
		j := 0
		for i := range w.vals {
			for j < K && w.vals[j] < w.vals[i]+d {
				j++
			}
			if j < K && w.vals[j] == w.vals[i]+d && (i == 0 || w.vals[i-1] != w.vals[i]) {
				w.pairs[d] = append(w.pairs[d], [2]int{i, j})
			}
		}
	}
	return w
}

func exactDelta(class string, P uint8) (uint64, bool) {
	switch class {
	case "adj", "rmax", "pow", "pow1":
		return minDelta(class, P), true
	}
	return 0, false
}

// realise: positions into the sorted sample.
func (w *widePool) realise(rng *rand.Rand, shape []string, P uint8) (pos []int, ok bool) {
	n := len(shape)
	if shape[0] != "mid" && shape[0] != "far" {
		return nil, false
	}
	cur := -1 // position of the current value
	var curV uint64
	pending := false // cur is the low end of a pair prepared for the next exact class
	pendHi := 0
	for k := 0; k < n; k++ {
		cl := shape[k]
		// the next class that is not "eq"
		next := ""
		for j := k + 1; j < n; j++ {
			if shape[j] != "eq" {
				next = shape[j]
				break
			}
		}
		switch {
		case cl == "eq":
			pos = append(pos, cur)
		case cl == "mid" || cl == "far":
			minV := curV
			if cur >= 0 {
				minV = curV + 2
			}
			if cl == "far" {
				minV = curV + farQ(P)*pow2(P)
			}
			if d, ex := exactDelta(next, P); ex {
				ps := w.pairs[d]
				lo := sort.Search(len(ps), func(i int) bool { return w.vals[ps[i][0]] >= minV })
				if lo >= len(ps) {
					return nil, false
				}
				pick := lo + rng.Intn(min(3, len(ps)-lo))
				cur, pendHi, pending = ps[pick][0], ps[pick][1], true
			} else {
				lo := sort.Search(len(w.vals), func(i int) bool { return w.vals[i] >= minV })
				if lo >= len(w.vals) {
					return nil, false
				}
				room := (len(w.vals) - lo) / (n - k + 1)
				cur = lo + rng.Intn(min(room+1, 200000))
				pending = false
			}
			curV = w.vals[cur]
			pos = append(pos, cur)
		default: // exact class
			if !pending {
				return nil, false
			}
			cur, pending = pendHi, false
			curV = w.vals[cur]
			pos = append(pos, cur)
			if _, ex := exactDelta(next, P); ex {
				return nil, false // two exact differences in a row need a triple of sampled values
			}
		}
	}
	return pos, true
}

// ---------------------------------------------------------------------------
// queries

// addQueries fills the queries, their values and the batches of a small case.
// near returns elements whose values are close to v (may be empty).
func (g *gcsCase) addQueries(rng *rand.Rand, F uint64, near func(v uint64) [][]byte, stranger func() []byte) {
	seen := map[string]bool{}
	add := func(e []byte, member bool) int {
		if seen[string(e)] {
			for i, q := range g.queries {
				if bytes.Equal(q, e) {
					return i
				}
			}
		}
		seen[string(e)] = true
		g.queries = append(g.queries, e)
		g.qvals = append(g.qvals, reduce(&g.key, e, F))
		g.member = append(g.member, member)
		return len(g.queries) - 1
	}
	var members, nears, strangers []int
	for _, e := range g.data {
		members = append(members, add(e, true))
	}
	isMember := func(e []byte) bool {
		for _, d := range g.data {
			if bytes.Equal(d, e) {
				return true
			}
		}
		return false
	}
	for _, v := range g.vals {
		for _, e := range near(v) {
			if !isMember(e) {
				nears = append(nears, add(e, false))
			}
		}
	}
	for k := 0; k < 3; k++ {
		if e := stranger(); !isMember(e) {
			strangers = append(strangers, add(e, false))
		}
	}
	uniq := func(x []int) []int {
		m := map[int]bool{}
		var out []int
		for _, v := range x {
			if !m[v] {
				m[v] = true
				out = append(out, v)
			}
		}
		return out
	}
	members, nears, strangers = uniq(members), uniq(nears), uniq(strangers)
	g.batches = append(g.batches, []int{}) // the empty batch
	if len(members) > 0 {
		all := append([]int(nil), members...)
		rng.Shuffle(len(all), func(i, j int) { all[i], all[j] = all[j], all[i] })
		g.batches = append(g.batches, all)
		g.batches = append(g.batches, []int{members[rng.Intn(len(members))]})
		mix := append(append([]int(nil), strangers...), nears...)
		mix = append(mix, members[len(members)-1])
		g.batches = append(g.batches, mix)
	}
	if len(strangers) > 0 {
		g.batches = append(g.batches, strangers)
		g.batches = append(g.batches, []int{strangers[0]})
	}
	if len(nears) > 0 {
		g.batches = append(g.batches, nears)
		g.batches = append(g.batches, []int{nears[rng.Intn(len(nears))]})
		both := append(append([]int(nil), nears...), strangers...)
		rng.Shuffle(len(both), func(i, j int) { both[i], both[j] = both[j], both[i] })
		g.batches = append(g.batches, both)
	}
}

// ---------------------------------------------------------------------------
// the part

type shapeCase struct {
	P     uint8
	mKind string
	shape []string
}

func mOf(kind string, P uint8) uint64 {
	switch kind {
	case "bip":
		return bipM
	case "pow":
		return pow2(P)
	}
	var v uint64
	fmt.Sscanf(kind, "%d", &v)
	return v
}

// feasibleClass reports whether a class can occur at all for (P, M, n): used
// for the vacuity guard (a class that could be realised but never was).
func feasibleClass(class string, P uint8, M uint64, n int) bool {
	return minDelta(class, P) < uint64(n)*M
}

// gcsPart is what a part contributes to the shared TraceGcs.tla run: its
// recorded cases and the comparison to make once the specification's
// expectations are known.
type gcsPart struct {
	cases []*gcsCase
	check func(exp map[int]tla.Value) error
}

func prepareGcs(c *vrun.Ctx) (*gcsPart, error) {
	st := newStats()
	var fe firstErr
	var shapes []shapeCase
	rngSet := c.Rand("gcs-set")
	var mu sync.Mutex
	bt := &batcher{c: c, size: 2000}
	seed := c.Seed
	bt.work = func(i int, s tla.State) {
		cs := s["case"].F("c")
		fe.set(replaySet(c, rand.New(rand.NewSource(seed*1000003+int64(i))), cs, s["expect"], st))
	}
	_ = rngSet
	err := model(c, modelOpts{module: "Gcs", workers: 4, actions: []string{"Group", "PickSet", "PickShape"}}, func(s tla.State) error {
		switch s["case"].F("kind").Str() {
		case "set":
			bt.add(s)
		case "shape":
			cs := s["case"].F("c")
			mu.Lock()
			shapes = append(shapes, shapeCase{P: uint8(cs.F("p").Int()), mKind: cs.F("m").Str(), shape: cs.F("shape").Strs()})
			mu.Unlock()
		}
		return fe.get()
	})
	if err != nil {
		return nil, err
	}
	bt.flush()
	if err := fe.get(); err != nil {
		return nil, err
	}
	c.Logf("Gcs.tla: %d small-domain filters replayed, %d shapes to realise", st.get("set"), len(shapes))

	// realise the shapes with real elements, grouped by the range F = n*M
	type grp struct {
		M uint64
		n int
	}
	groups := map[grp][]shapeCase{}
	for _, sc := range shapes {
		k := grp{mOf(sc.mKind, sc.P), len(sc.shape)}
		groups[k] = append(groups[k], sc)
	}
	var keys []grp
	for k := range groups {
		keys = append(keys, k)
	}
	sort.Slice(keys, func(i, j int) bool {
		if keys[i].M != keys[j].M {
			return keys[i].M < keys[j].M
		}
		return keys[i].n < keys[j].n
	})
	density := uint64(2)
	if c.Thorough {
		density = 5
	}
	var cases []*gcsCase
	realised := map[string]int{} // P/M/class -> shapes realised containing the class
	wanted := map[string]bool{}
	sem := make(chan struct{}, 4)
	var wg sync.WaitGroup
	for gi, k := range keys {
		wg.Add(1)
		sem <- struct{}{}
		go func(gi int, k grp) {
			defer wg.Done()
			defer func() { <-sem }()
			rng := rand.New(rand.NewSource(seed*7907 + int64(gi)))
			var key [16]byte
			rng.Read(key[:])
			F := k.M * uint64(k.n)
			var tp *tablePool
			wide := map[uint8]*widePool{}
			if F <= 1<<23 {
				tp = newTablePool(key, F, density)
			}
			var local []*gcsCase
			for _, sc := range groups[k] {
				g := &gcsCase{kind: "small", P: sc.P, M: k.M, key: key, shape: sc.shape, alias: -1,
					label: fmt.Sprintf("shape %s P=%d M=%d", strings.Join(sc.shape, ","), sc.P, k.M)}
				var near func(v uint64) [][]byte
				var stranger func() []byte
				if tp != nil {
					el, ok := tp.realise(rng, sc.shape, sc.P)
					if !ok {
						st.add("shape-not-realisable")
						continue
					}
					for _, e := range el {
						g.data = append(g.data, elemOf(uint32(e)))
					}
					near = func(v uint64) [][]byte {
						var out [][]byte
						for _, d := range []int64{-1, 1} {
							x := int64(v) + d
							if x >= 0 && uint64(x) < F && tp.first[x] >= 0 && rng.Intn(3) == 0 {
								out = append(out, elemOf(uint32(tp.first[x])))
							}
						}
						return out
					}
					stranger = func() []byte { return elemOf(uint32(density*F + 5000 + uint64(rng.Intn(1<<20)))) }
				} else {
					w := wide[sc.P]
					if w == nil {
						w = newWidePool(key, F, sc.P)
						wide[sc.P] = w
					}
					pos, ok := w.realise(rng, sc.shape, sc.P)
					if !ok {
						st.add("shape-not-realisable")
						continue
					}
					for _, p := range pos {
						g.data = append(g.data, elemOf(w.idx[p]))
					}
					near = func(v uint64) [][]byte {
						i := sort.Search(len(w.vals), func(i int) bool { return w.vals[i] >= v })
						var out [][]byte
						for _, j := range []int{i - 1, i + 1} {
							if j >= 0 && j < len(w.vals) && rng.Intn(3) == 0 {
								out = append(out, elemOf(w.idx[j]))
							}
						}
						return out
					}
					stranger = func() []byte { return elemOf(uint32(1<<21 + rng.Intn(1<<20))) }
				}
				// the code gets the elements in an arbitrary order
				rng.Shuffle(len(g.data), func(i, j int) { g.data[i], g.data[j] = g.data[j], g.data[i] })
				for _, e := range g.data {
					g.vals = append(g.vals, reduce(&key, e, F))
				}
				g.addQueries(rng, F, near, stranger)
				local = append(local, g)
			}
			mu.Lock()
			cases = append(cases, local...)
			mu.Unlock()
		}(gi, k)
	}
	wg.Wait()
	for _, sc := range shapes {
		M := mOf(sc.mKind, sc.P)
		for _, cl := range sc.shape {
			if feasibleClass(cl, sc.P, M, 6) {
				wanted[fmt.Sprintf("P=%d/M=%d/%s", sc.P, M, cl)] = true
			}
		}
	}
	for _, g := range cases {
		for _, cl := range g.shape {
			realised[fmt.Sprintf("P=%d/M=%d/%s", g.P, g.M, cl)]++
		}
	}
	for k := range wanted {
		if realised[k] == 0 {
			return nil, fmt.Errorf("gcs: no shape containing class %s could be realised with real elements (vacuity guard)", k)
		}
	}
	nShape := len(cases)

	// large multisets
	sizes := []int{300, 2500, 6000}
	if c.Thorough {
		sizes = append(sizes, 1000, 9000, 20000)
	}
	for li, n := range sizes {
		P, M := uint8(19), uint64(bipM)
		if li%3 == 1 {
			P, M = 20, 1<<20
		}
		lg := largeCase(rand.New(rand.NewSource(seed*104729+int64(li))), n, P, M)
		if uint64(n)*M > 1<<32 && lg.alias < 0 {
			// the regression case of the (repaired) 32-bit truncation of
			// HashMatchAny must not silently drop out of the tiers
			return nil, fmt.Errorf("gcs: no query value congruent to a member value modulo 2^32 found for N=%d M=%d", n, M)
		}
		cases = append(cases, lg)
	}
	c.Logf("gcs: %d shapes realised with real elements (%d not realisable in their range), %d large multisets", nShape, st.get("shape-not-realisable"), len(cases)-nShape)
	return &gcsPart{cases: cases, check: func(exp map[int]tla.Value) error {
		aligns := map[string]bool{}
		parallel(c, len(cases), func(i int) {
			g := cases[i]
			ex := exp[g.id]
			checkGcs(c, g, ex, st)
			if g.kind == "small" {
				st.add("shape")
				c.Distinct(fmt.Sprintf("gcs/shape/P=%d/M=%d/%s", g.P, g.M, strings.Join(g.shape, ",")))
				// where the remainders start within a byte, and code words longer than 64 bits
				sorted := append([]uint64(nil), g.vals...)
				sort.Slice(sorted, func(a, b int) bool { return sorted[a] < sorted[b] })
				off, last := uint64(0), uint64(0)
				mu.Lock()
				for _, v := range sorted {
					q := (v - last) >> g.P
					aligns[fmt.Sprintf("P=%d/rem@%d", g.P, (off+q+1)%8)] = true
					if q+1+uint64(g.P) > 64 {
						aligns[fmt.Sprintf("P=%d/word>64bits", g.P)] = true
					}
					if (off+q+1)/64 != (off+q+uint64(g.P))/64 {
						aligns[fmt.Sprintf("P=%d/rem-straddles-64", g.P)] = true
					}
					off += q + 1 + uint64(g.P)
					last = v
				}
				mu.Unlock()
			} else {
				st.add("large")
				c.Distinct(fmt.Sprintf("gcs/large/N=%d/P=%d", len(g.data), g.P))
			}
		})
		for _, g := range cases[:min(2, len(cases))] {
			ex := exp[g.id]
			c.Sample(map[string]any{"kind": "gcs-shape", "P": g.P, "M": g.M, "shape": g.shape, "values_in_element_order": g.vals,
				"spec_bytes": fmt.Sprintf("%x", bytesOf(ex.F("data"))), "queries": len(g.queries), "batches": g.batches})
		}
		c.SetExtra("gcs_cases", st.export())
		c.SetExtra("gcs_alignments_covered", len(aligns))
		c.Logf("GCS cases checked: %s; %d (P, remainder alignment / long word / 64-bit straddle) situations covered", st, len(aligns))
		return nil
	}}, nil
}

// runGcsParts runs the parts that need TraceGcs.tla (the GCS part itself and
// the BIP158 basic-filter parts: direct calls and the index of a running node)
// with ONE evaluation of the trace module.
func runGcsParts(c *vrun.Ctx, doGcs, doBasic, doIndex bool) error {
	var parts []*gcsPart
	var mu sync.Mutex
	var fe firstErr
	var wg sync.WaitGroup
	for _, pr := range []struct {
		on bool
		f  func(*vrun.Ctx) (*gcsPart, error)
	}{{doGcs, prepareGcs}, {doBasic, prepareBasic}, {doIndex, prepareChainIdx}} {
		if !pr.on {
			continue
		}
		wg.Add(1)
		go func(f func(*vrun.Ctx) (*gcsPart, error)) {
			defer wg.Done()
			p, err := f(c)
			fe.set(err)
			if err == nil {
				mu.Lock()
				parts = append(parts, p)
				mu.Unlock()
			}
		}(pr.f)
	}
	wg.Wait()
	if err := fe.get(); err != nil {
		return err
	}
	// order: every large case opens a group of its own (the groups are what
	// TLC's workers share), the small ones fill up
	var small, large []*gcsCase
	for _, p := range parts {
		for _, g := range p.cases {
			if g.kind == "large" {
				large = append(large, g)
			} else {
				small = append(small, g)
			}
		}
	}
	const groupSize = 40 // GroupSize of TraceGcs.tla
	var all []*gcsCase
	for _, l := range large {
		all = append(all, l)
		n := min(groupSize-1, len(small))
		all = append(all, small[:n]...)
		small = small[n:]
	}
	all = append(all, small...)
	for i, g := range all {
		g.id = i + 1
	}
	exp, err := evalGcsTrace(c, "tracegcs", all)
	if err != nil {
		return err
	}
	for _, p := range parts {
		wg.Add(1)
		go func(p *gcsPart) {
			defer wg.Done()
			fe.set(p.check(exp))
		}(p)
	}
	wg.Wait()
	return fe.get()
}

// replaySet replays one small-domain filter of Gcs.tla (values are small
// numbers; real elements with exactly these values are found by search).
func replaySet(c *vrun.Ctx, rng *rand.Rand, cs, ex tla.Value, st *stats) error {
	P := uint8(cs.F("p").Int())
	M := uint64(cs.F("m").Int())
	vals := cs.F("vals").Ints()
	n := len(vals)
	F := uint64(n) * M
	var key [16]byte
	rng.Read(key[:])
	// elements per value
	pre := make([][][]byte, F)
	if F > 0 {
		need := int(F) * (n + 1)
		for i, have := uint32(rng.Intn(1<<20)), 0; have < need; i++ {
			e := elemOf(i)
			v := reduce(&key, e, F)
			if len(pre[v]) < n+1 {
				pre[v] = append(pre[v], e)
				have++
			}
		}
	}
	g := &gcsCase{kind: "small", P: P, M: M, key: key, alias: -1, label: fmt.Sprintf("small domain P=%d M=%d values %v", P, M, vals)}
	used := make([]int, F)
	for _, v := range vals {
		g.data = append(g.data, pre[v][used[v]])
		used[v]++
	}
	rng.Shuffle(len(g.data), func(i, j int) { g.data[i], g.data[j] = g.data[j], g.data[i] })
	for _, e := range g.data {
		g.vals = append(g.vals, reduce(&key, e, F))
	}
	// one query per value of the range (an element not among the members when possible)
	member := ex.F("member")
	want := make([]tla.Value, 0, F)
	for t := uint64(0); t < F; t++ {
		g.queries = append(g.queries, pre[t][n])
		g.qvals = append(g.qvals, t)
		g.member = append(g.member, false)
		want = append(want, member.At(int(t)+1))
	}
	for _, e := range g.data {
		g.queries = append(g.queries, e)
		v := reduce(&key, e, F)
		g.qvals = append(g.qvals, v)
		g.member = append(g.member, true)
		want = append(want, member.At(int(v)+1))
	}
	if n == 0 {
		for k := 0; k < 3; k++ {
			g.queries = append(g.queries, elemOf(uint32(rng.Intn(1<<20))))
			g.qvals = append(g.qvals, 0)
			g.member = append(g.member, false)
			want = append(want, ex.F("none"))
		}
	}
	// batches: the empty one, every single query, everything
	g.batches = [][]int{{}}
	anyWant := []tla.Value{{Kind: tla.KBool, B: false}}
	all := []int{}
	anyAll := false
	for qi := range g.queries {
		g.batches = append(g.batches, []int{qi})
		anyWant = append(anyWant, want[qi])
		all = append(all, qi)
		anyAll = anyAll || want[qi].B
	}
	if len(all) > 0 {
		g.batches = append(g.batches, all)
		anyWant = append(anyWant, tla.Value{Kind: tla.KBool, B: anyAll})
	}
	exp := tla.Value{Kind: tla.KRec, Fields: map[string]tla.Value{
		"n": ex.F("n"), "data": ex.F("data"), "nbytes": ex.F("nbytes"),
		"match": {Kind: tla.KSeq, Elems: want},
		"any":   {Kind: tla.KSeq, Elems: anyWant},
	}}
	st.add("set")
	c.Distinct(fmt.Sprintf("gcs/set/P=%d/M=%d/%v", P, M, vals))
	checkGcs(c, g, exp, st)
	return nil
}

// largeCase is a filter of n random elements, every one of them queried,
// plus strangers; when N*M exceeds 2^32 a stranger whose value equals a
// member's value modulo 2^32 is searched for and queried too.
func largeCase(rng *rand.Rand, n int, P uint8, M uint64) *gcsCase {
	g := &gcsCase{kind: "large", P: P, M: M, alias: -1, label: fmt.Sprintf("large multiset N=%d P=%d M=%d", n, P, M)}
	rng.Read(g.key[:])
	F := uint64(n) * M
	mk := func(i int) []byte {
		b := make([]byte, 4+rng.Intn(36))
		rng.Read(b)
		binary.LittleEndian.PutUint32(b, uint32(i))
		return b
	}
	for i := 0; i < n; i++ {
		e := mk(i)
		if i == n/2 {
			e = []byte{} // the empty element is an element like any other
		}
		if i > 0 && i%97 == 0 {
			e = g.data[i-1] // duplicates
		}
		g.data = append(g.data, e)
	}
	vals := make([]uint64, n)
	low := map[uint32][]uint64{}
	for i, e := range g.data {
		vals[i] = reduce(&g.key, e, F)
		low[uint32(vals[i])] = append(low[uint32(vals[i])], vals[i])
	}
	// queries: every element (N <= 6000) or a sample of 3000 of them
	step := 1
	if n > 6000 {
		step = n / 3000
	}
	var members []int
	for i := 0; i < n; i += step {
		g.queries = append(g.queries, g.data[i])
		g.qvals = append(g.qvals, vals[i])
		g.member = append(g.member, true)
		members = append(members, len(g.queries)-1)
	}
	var strangers []int
	for k := 0; k < n/2+50; k++ {
		e := mk(n + k + 1<<24)
		g.queries = append(g.queries, e)
		g.qvals = append(g.qvals, reduce(&g.key, e, F))
		g.member = append(g.member, false)
		strangers = append(strangers, len(g.queries)-1)
	}
	g.batches = [][]int{{}, members, strangers[:40], {members[len(members)/3]}, {strangers[7]},
		append(append([]int(nil), strangers[:10]...), members[len(members)-1]),
		append(append([]int(nil), strangers...), members[0])}
	if F > 1<<32 {
		// an alias: value = member value +- k*2^32, not itself a member value
		var buf [12]byte
		for t := uint64(0); t < 60_000_000; t++ {
			binary.LittleEndian.PutUint64(buf[:], t)
			buf[8], buf[9], buf[10], buf[11] = 'a', 'l', 'i', byte(n)
			v := reduce(&g.key, buf[:], F)
			hit := false
			for _, m := range low[uint32(v)] {
				if m == v {
					hit = false
					break
				}
				hit = true
			}
			if hit {
				g.queries = append(g.queries, append([]byte(nil), buf[:]...))
				g.qvals = append(g.qvals, v)
				g.member = append(g.member, false)
				g.alias = len(g.queries) - 1
				break
			}
		}
		if g.alias >= 0 {
			g.batches = append(g.batches, []int{g.alias},
				append(append([]int(nil), strangers[:5]...), g.alias),
				append(append([]int(nil), strangers...), g.alias)) // >= N/2 targets: the dispatcher takes the hash-set strategy
		}
	}
	g.vals = vals
	sort.Slice(g.vals, func(i, j int) bool { return g.vals[i] < g.vals[j] })
	return g
}
