package filters

import (
	"bytes"
	"fmt"
	"math/rand"
	"time"

	"github.com/btcsuite/btcd/blockchain"
	"github.com/btcsuite/btcd/btcutil/v2"
	"github.com/btcsuite/btcd/btcutil/v2/bloom"
	"github.com/btcsuite/btcd/chainhash/v2"
	"github.com/btcsuite/btcd/wire/v2"

	"verif/harness/internal/tla"
	"verif/harness/internal/vrun"
)

// hashEnv is the abstract -> concrete hash map: T(i) is the id of real
// transaction i and H(l, r) is SHA-256d of l || r evaluated along the term,
// i.e. along the tree the specification wrote down.
type hashEnv struct {
	txid func(i int) [32]byte
	memo map[string][32]byte
}

func (e *hashEnv) eval(t tla.Value) ([32]byte, error) {
	var zero [32]byte
	if t.Kind != tla.KSeq || len(t.Elems) == 0 {
		return zero, fmt.Errorf("not a hash term: %s", t)
	}
	switch t.Elems[0].Str() {
	case "T":
		return e.txid(t.Elems[1].Int()), nil
	case "H":
		key := t.String()
		if v, ok := e.memo[key]; ok {
			return v, nil
		}
		l, err := e.eval(t.Elems[1])
		if err != nil {
			return zero, err
		}
		r, err := e.eval(t.Elems[2])
		if err != nil {
			return zero, err
		}
		var cat [64]byte
		copy(cat[:32], l[:])
		copy(cat[32:], r[:])
		v := sha256d(cat[:])
		e.memo[key] = v
		return v, nil
	}
	return zero, fmt.Errorf("unknown hash term: %s", t)
}

func randBytes(rng *rand.Rand, n int) []byte {
	b := make([]byte, n)
	rng.Read(b)
	return b
}

// plainTx makes a transaction with unique content.
func plainTx(rng *rand.Rand, tag int) *wire.MsgTx {
	tx := wire.NewMsgTx(int32(1 + rng.Intn(2)))
	for k := 0; k < 1+rng.Intn(2); k++ {
		var h chainhash.Hash
		rng.Read(h[:])
		in := wire.NewTxIn(wire.NewOutPoint(&h, uint32(rng.Intn(4))), append([]byte{20}, randBytes(rng, 20)...), nil)
		in.Sequence = rng.Uint32()
		tx.AddTxIn(in)
	}
	for k := 0; k < 1+rng.Intn(2); k++ {
		// OP_DUP OP_HASH160 <20> OP_EQUALVERIFY OP_CHECKSIG
		pk := append(append([]byte{0x76, 0xa9, 20}, randBytes(rng, 20)...), 0x88, 0xac)
		tx.AddTxOut(wire.NewTxOut(int64(tag)*1000+int64(rng.Intn(1000)), pk))
	}
	tx.LockTime = uint32(tag)
	return tx
}

// extractPMT is the receiver of the specification (Extract of Pmt.tla) run on
// a real merkleblock message, as an SPV client would: it returns the root it
// recomputes and the matched transaction ids.
func extractPMT(mb *wire.MsgMerkleBlock) (ok bool, root [32]byte, matched [][32]byte, matchedPos []int) {
	n := int(mb.Transactions)
	if n == 0 {
		return false, root, nil, nil
	}
	width := func(h int) int { return (n + (1 << h) - 1) >> h }
	height := 0
	for width(height) > 1 {
		height++
	}
	nbits := 8 * len(mb.Flags)
	bit := func(i int) byte { return (mb.Flags[i/8] >> (i % 8)) & 1 }
	bi, hi := 0, 0
	bad := false
	var rec func(h, p int) [32]byte
	rec = func(h, p int) [32]byte {
		var zero [32]byte
		if bad || bi >= nbits {
			bad = true
			return zero
		}
		b := bit(bi)
		bi++
		if h == 0 || b == 0 {
			if hi >= len(mb.Hashes) {
				bad = true
				return zero
			}
			hash := [32]byte(*mb.Hashes[hi])
			hi++
			if h == 0 && b == 1 {
				matched = append(matched, hash)
				matchedPos = append(matchedPos, p)
			}
			return hash
		}
		l := rec(h-1, 2*p)
		r := l
		if 2*p+1 < width(h-1) {
			r = rec(h-1, 2*p+1)
			if r == l {
				bad = true
			}
		}
		var cat [64]byte
		copy(cat[:32], l[:])
		copy(cat[32:], r[:])
		return sha256d(cat[:])
	}
	root = rec(height, 0)
	if bad || hi != len(mb.Hashes) || (bi+7)/8 != len(mb.Flags) {
		return false, root, nil, nil
	}
	return true, root, matched, matchedPos
}

func runPmt(c *vrun.Ctx) error {
	st := newStats()
	var fe firstErr
	seed := c.Seed
	rng := c.Rand("pmt-txs")
	pool := make([]*wire.MsgTx, 100)
	for i := range pool {
		pool[i] = plainTx(rng, i+1)
	}
	bt := &batcher{c: c, size: 2000}
	bt.work = func(i int, s tla.State) {
		fe.set(checkPmt(c, rand.New(rand.NewSource(seed*1000003+int64(i))), pool, s["case"], s["expect"], st))
	}
	err := model(c, modelOpts{module: "Pmt", workers: 3, actions: []string{"Group", "Pick"}}, func(s tla.State) error {
		if s["case"].F("kind").Str() == "case" {
			bt.add(s)
		}
		return fe.get()
	})
	if err != nil {
		return err
	}
	bt.flush()
	if err := fe.get(); err != nil {
		return err
	}
	c.Logf("partial merkle tree cases replayed: %s", st)
	c.SetExtra("pmt_cases", st.export())
	return nil
}

func checkPmt(c *vrun.Ctx, rng *rand.Rand, pool []*wire.MsgTx, cs, ex tla.Value, st *stats) error {
	n := cs.F("n").Int()
	M := cs.F("m").Ints()
	// a block of n real transactions (a different selection per case)
	off := rng.Intn(len(pool))
	txs := make([]*wire.MsgTx, n)
	utx := make([]*btcutil.Tx, n)
	for i := range txs {
		txs[i] = pool[(off+i)%len(pool)]
		utx[i] = btcutil.NewTx(txs[i])
	}
	hdr := wire.BlockHeader{Version: 4, Bits: 0x207fffff, Nonce: rng.Uint32(), Timestamp: time.Unix(1700000000+int64(rng.Intn(1000000)), 0)}
	rng.Read(hdr.PrevBlock[:])
	hdr.MerkleRoot = blockchain.CalcMerkleRoot(utx, false)
	blk := &wire.MsgBlock{Header: hdr, Transactions: txs}

	env := &hashEnv{memo: map[string][32]byte{}, txid: func(i int) [32]byte { return [32]byte(txs[i-1].TxHash()) }}
	wantRoot, err := env.eval(ex.F("root"))
	if err != nil {
		return err
	}
	wantFlags := bytesOf(ex.F("flags"))
	wantHashes := make([][32]byte, ex.F("hashes").Len())
	for k, t := range ex.F("hashes").Seq() {
		if wantHashes[k], err = env.eval(t); err != nil {
			return err
		}
	}
	wantMatched := ex.F("matched").Ints()
	if corrupt("pmt-expect") && n == 5 && len(M) == 2 {
		wantFlags[0] ^= 1 // self-test: a corrupted expectation must be noticed
	}
	replay := map[string]any{"n": n, "matched": M, "spec_bits": ex.F("bits").Ints(), "spec_flags": fmt.Sprintf("%x", wantFlags),
		"spec_hash_terms": clip(ex.F("hashes").String(), 600)}
	var txhex []string
	for _, tx := range txs {
		var b bytes.Buffer
		tx.Serialize(&b)
		txhex = append(txhex, fmt.Sprintf("%x", b.Bytes()))
	}
	if n <= 12 {
		replay["transactions"] = txhex
	}
	c.AddTraces(1)
	st.add("cases")
	c.Distinct(fmt.Sprintf("pmt/n=%d/bits=%v", n, ex.F("bits").Ints()))
	if n == 5 && len(M) == 2 && M[0] == 2 && M[1] == 3 {
		c.Sample(map[string]any{"kind": "partial-merkle-tree", "n": n, "matched": M, "bits": ex.F("bits").Ints(), "flags": fmt.Sprintf("%x", wantFlags), "hashes": ex.F("hashes").String()})
	}

	// a filter that matches exactly the ids of M: a large bit field, so that
	// nothing else of the transactions matches by accident (2^-60 and less)
	f := bloom.LoadFilter(wire.NewMsgFilterLoad(make([]byte, wire.MaxFilterLoadFilterSize), 10, rng.Uint32(), wire.BloomUpdateNone))
	for _, i := range M {
		h := txs[i-1].TxHash()
		f.AddHash(&h)
	}
	var mb *wire.MsgMerkleBlock
	var idx []uint32
	if p := guard(func() { mb, idx = bloom.NewMerkleBlock(btcutil.NewBlock(blk), f) }); p != nil {
		c.Violation("pmt:panic", fmt.Sprintf("NewMerkleBlock panics for %d transactions, matched %v: %v", n, M, p), replay)
		return nil
	}
	c.AddEval(1)
	gotIdx := make([]int, len(idx))
	for k, v := range idx {
		gotIdx[k] = int(v) + 1
	}
	if fmt.Sprint(gotIdx) != fmt.Sprint(wantMatched) {
		c.Violation("pmt:matched-indices", fmt.Sprintf("NewMerkleBlock reports matched transactions %v, the filter holds exactly the ids of %v", gotIdx, wantMatched), replay)
		return nil
	}
	if int(mb.Transactions) != n || mb.Header != hdr {
		c.Violation("pmt:header", fmt.Sprintf("merkle block says %d transactions (block has %d) or carries another header", mb.Transactions, n), replay)
	}
	c.AddEval(2)
	if !bytes.Equal(mb.Flags, wantFlags) {
		replay["got_flags"] = fmt.Sprintf("%x", mb.Flags)
		c.Violation("pmt:flags", fmt.Sprintf("flag bytes %x, the depth-first rule gives %x (n=%d matched=%v)", mb.Flags, wantFlags, n, M), replay)
	}
	okH := len(mb.Hashes) == len(wantHashes)
	for k := 0; okH && k < len(wantHashes); k++ {
		okH = [32]byte(*mb.Hashes[k]) == wantHashes[k]
	}
	if !okH {
		var got []string
		for _, h := range mb.Hashes {
			got = append(got, fmt.Sprintf("%x", h[:]))
		}
		replay["got_hashes"] = got
		c.Violation("pmt:hashes", fmt.Sprintf("the %d hashes of the merkle block are not the %d hashes of the depth-first rule (n=%d matched=%v)", len(mb.Hashes), len(wantHashes), n, M), replay)
	}

	// through the wire and into a client
	var buf bytes.Buffer
	if err := mb.BtcEncode(&buf, wire.ProtocolVersion, wire.BaseEncoding); err != nil {
		c.Violation("pmt:wire-encode", fmt.Sprintf("MsgMerkleBlock.BtcEncode fails: %v", err), replay)
		return nil
	}
	// the bytes on the wire are the specification's message layout
	var wantWire []byte
	for _, tok := range ex.F("wire").Seq() {
		switch {
		case tok.Kind == tla.KInt:
			wantWire = append(wantWire, byte(tok.I))
		case tok.Elems[0].Str() == "hdr":
			var hb bytes.Buffer
			hdr.Serialize(&hb)
			wantWire = append(wantWire, hb.Bytes()...)
		case tok.Elems[0].Str() == "hash":
			wantWire = append(wantWire, wantHashes[tok.Elems[1].Int()-1][:]...)
		}
	}
	c.AddEval(1)
	if !bytes.Equal(buf.Bytes(), wantWire) {
		replay["got_wire"] = fmt.Sprintf("%x", buf.Bytes())
		replay["spec_wire"] = fmt.Sprintf("%x", wantWire)
		c.Violation("pmt:wire-layout", fmt.Sprintf("the encoded merkleblock message (%d bytes) is not header, count, hashes, flags as the specification lays them out (%d bytes)", buf.Len(), len(wantWire)), replay)
	}
	var rx wire.MsgMerkleBlock
	if err := rx.BtcDecode(bytes.NewReader(buf.Bytes()), wire.ProtocolVersion, wire.BaseEncoding); err != nil {
		c.Violation("pmt:wire-decode", fmt.Sprintf("MsgMerkleBlock.BtcDecode rejects the encoded message: %v", err), replay)
		return nil
	}
	c.AddEval(1)
	same := rx.Header == mb.Header && rx.Transactions == mb.Transactions && bytes.Equal(rx.Flags, mb.Flags) && len(rx.Hashes) == len(mb.Hashes)
	for k := 0; same && k < len(rx.Hashes); k++ {
		same = *rx.Hashes[k] == *mb.Hashes[k]
	}
	if !same {
		c.Violation("pmt:wire-roundtrip", "the merkleblock message does not survive encode/decode", replay)
	}
	ok, root, matched, pos := extractPMT(&rx)
	c.AddEval(1)
	switch {
	case !ok:
		c.Violation("pmt:extract-rejects", fmt.Sprintf("the specification's receiver rejects the merkle block built for n=%d matched=%v (bits or hashes left over, or missing)", n, M), replay)
	case root != wantRoot || root != [32]byte(hdr.MerkleRoot):
		c.Violation("pmt:root", fmt.Sprintf("the root recomputed from the merkle block is %x; the tree of the specification gives %x and the block header says %x", root, wantRoot, hdr.MerkleRoot[:]), replay)
	default:
		good := len(matched) == len(wantMatched)
		for k := 0; good && k < len(matched); k++ {
			good = matched[k] == [32]byte(txs[wantMatched[k]-1].TxHash()) && pos[k] == wantMatched[k]-1
		}
		if !good {
			c.Violation("pmt:proved-set", fmt.Sprintf("the merkle block proves transactions at positions %v, the matched set is %v", pos, wantMatched), replay)
		}
	}
	return nil
}
