package filters

import (
	"os"
	"strings"

	"verif/harness/internal/vrun"
)

// Run is the C20 check: the specifications of spec/filters are model checked
// and bound to the code side by side.
func Run(c *vrun.Ctx) error {
	// several TLC processes run side by side on a shared machine: keep the
	// JVMs' helper threads few
	if os.Getenv("_JAVA_OPTIONS") == "" {
		os.Setenv("_JAVA_OPTIONS", "-XX:ParallelGCThreads=2 -XX:CICompilerCount=2")
	}
	c.Ev.Coverage.Rule = "TLC enumerates the case machines of spec/filters: Pmt.tla (every matched subset of every block of up to 9 [thorough: 12] transactions plus wide blocks with patterned subsets; Extract(Build) = (matched, root) checked inside TLC), " +
		"Gcs.tla (every multiset of up to 3 [4] values in the small range with the three match strategies checked equal to membership inside TLC; and the list of difference shapes over the classes equal / adjacent / 2^P-1 / 2^P / 2^P+1 / far / any for the real (P, M) pairs), " +
		"Basic.tla (blocks of up to 3 transactions over the script classes, chains of up to 3 blocks), ChainIdx.tla (every chain of 3 blocks over the tier's coinbase / spend / output choices, coins carrying a created-by-coinbase attribute; all transitions of the state graph replayed on a real node with the committed-filter index) and Bloom.tla (all insert sequences of the API up to length 3 [4], the MatchTxAndUpdate table: update flag x txid hit x output class and matching push x input outpoint / push hit). " +
		"Every case is replayed into the real code; where the definitions range over hash values the specification does not define (SipHash-reduced values, MurmurHash3 bit positions) the binder records the REAL values of real elements into a trace and TraceGcs.tla / TraceBloom.tla evaluate the definitions on them: the expected filter bytes, framed bytes, query and batch answers, bit fields and MatchTxAndUpdate results are read from those TLC runs. " +
		"Shapes are realised by searching real elements whose reduced values have exactly the named differences (the trace module re-checks the class of every real difference). " +
		"distinct_nontrivial counts distinct inputs: (n, flag bits) of a partial merkle tree, (P, M, multiset) and (P, M, shape) of a filter, block layout, insert sequence, decision-table row evaluated without shared bit positions, large-multiset size."
	c.Assume("TLC evaluates the operators of the specifications correctly; the laws (Extract after Build, scan = zip = hash set = membership, padding harmless, framing round trip, content rule never misses, table = procedure without shared positions, no false negatives) are checked inside TLC as invariants on every enumerated case and again on the recorded real values")
	c.Assume("SHA-256 is injective on the inputs used (the abstract hash of the merkle tree and of the filter-header chain is a free term algebra evaluated with real double SHA-256 along the specification's term)")
	c.Assume("SipHash-2-4 (github.com/aead/siphash, third party) and the reduction hi64(hash * N*M) are recomputed by the binder (math/bits.Mul64, not the code's fastReduction) and fed to the specification; MurmurHash3 bit positions are computed with the exported bloom.MurmurHash3 and the seed rule i*0xfba4c795+tweak: both hash functions and the bloom sizing arithmetic of NewFilter are exercised, not specified")
	c.Assume("the real bit writer (github.com/kkdai/bstream) is byte based; remainder fields starting at every bit offset of a byte, code words longer than 64 bits and remainders straddling a 64-bit boundary of the stream are counted in gcs_alignments_covered")
	c.Assume("a filter used to select the matched transactions of a merkle block has the maximum bit field (36000 bytes, 10 hash functions): an accidental extra match has probability below 2^-60 per case")
	c.Assume("the indexer is bound twice: CfIndex.ConnectBlock / DisconnectBlock called directly on a real ffldb database with the spent outputs of Basic.tla's blocks (coinbase-created flag alternating), and ChainIdx.tla, whose every transition (coinbase outputs, spends of coinbase-created and other coins after maturity 1, output kinds incl. empty / OP_RETURN) is replayed as a real chain into blockchain.BlockChain with the index manager (regression-test parameters, CoinbaseMaturity = 1, anyone-can-spend scripts); the node's spend journal is compared with the specification's spent coins and the filter / hash / header are read back from the index for every block including genesis")

	all := []struct {
		name string
		f    func(*vrun.Ctx) error
	}{{"pmt", runPmt}, {"bloom", runBloom}}
	var subs []func(*vrun.Ctx) error
	// development aid: VERIF_C20_PARTS=pmt,gcs,basic,index,bloom runs only those parts (the
	// evidence then says so and does not claim the whole property)
	parts := os.Getenv("VERIF_C20_PARTS")
	for _, p := range all {
		if parts == "" || strings.Contains(","+parts+",", ","+p.name+",") {
			subs = append(subs, p.f)
		}
	}
	on := func(name string) bool { return parts == "" || strings.Contains(","+parts+",", ","+name+",") }
	if on("gcs") || on("basic") || on("index") {
		subs = append(subs, func(c *vrun.Ctx) error { return runGcsParts(c, on("gcs"), on("basic"), on("index")) })
	}
	if v := os.Getenv("VERIF_C20_CORRUPT"); v != "" {
		c.Assume("SELF-TEST RUN (VERIF_C20_CORRUPT=" + v + "): an expectation or a recorded value was falsified on purpose; this run proves nothing about btcd")
	}
	if parts != "" {
		c.Assume("PARTIAL RUN (VERIF_C20_PARTS=" + parts + "): only the named parts were checked")
	}
	errs := make(chan error, len(subs))
	for _, f := range subs {
		go func(f func(*vrun.Ctx) error) { errs <- f(c) }(f)
	}
	var first error
	for range subs {
		if err := <-errs; err != nil && first == nil {
			first = err
		}
	}
	if first != nil {
		return first
	}
	c.Ev.Coverage.Exhaustive = parts == ""
	c.Ev.Coverage.Explanation = "exhaustive means: TLC enumerated the complete state spaces of Pmt, Gcs, Basic and Bloom for the tier's constants, every case was replayed into the btcd code, and every recorded real-value case was evaluated by the trace modules. " +
		"It does not mean all blocks, element sets or filters: the bounds are the case sets written in the specifications; shapes that cannot exist in their range [0, N*M) are counted as not realisable and skipped."
	return nil
}
