package filters

import (
	"os"
	"strings"

	"verif/harness/internal/vrun"
)

// Run is the C20 check: the specifications of spec/filters are model checked
// and bound to the code side by side.
func Run(c *vrun.Ctx) error {
	// several TLC processes run side by side on a shared machine: keep the
	// JVMs' helper threads few
	if os.Getenv("_JAVA_OPTIONS") == "" {
		os.Setenv("_JAVA_OPTIONS", "-XX:ParallelGCThreads=2 -XX:CICompilerCount=2")
	}
	all := []struct {
		name string
		f    func(*vrun.Ctx) error
	}{{"pmt", runPmt}, {"bloom", runBloom}}
	var subs []func(*vrun.Ctx) error
	// development aid: VERIF_C20_PARTS=pmt,gcs runs only those parts (the
	// evidence then says so and does not claim the whole property)
	parts := os.Getenv("VERIF_C20_PARTS")
	for _, p := range all {
		if parts == "" || strings.Contains(","+parts+",", ","+p.name+",") {
			subs = append(subs, p.f)
		}
	}
	on := func(name string) bool { return parts == "" || strings.Contains(","+parts+",", ","+name+",") }
	if on("gcs") || on("basic") {
		subs = append(subs, func(c *vrun.Ctx) error { return runGcsParts(c, on("gcs"), on("basic")) })
	}
	if parts != "" {
		c.Assume("PARTIAL RUN (VERIF_C20_PARTS=" + parts + "): only the named parts were checked")
	}
	errs := make(chan error, len(subs))
	for _, f := range subs {
		go func(f func(*vrun.Ctx) error) { errs <- f(c) }(f)
	}
	var first error
	for range subs {
		if err := <-errs; err != nil && first == nil {
			first = err
		}
	}
	if first != nil {
		return first
	}
	c.Ev.Coverage.Exhaustive = parts == ""
	return nil
}
