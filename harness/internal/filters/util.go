// Package filters binds spec/filters/*.tla (property C20) to the light-client
// filter code of btcd: partial merkle trees (btcutil/bloom, wire), Golomb-coded
// sets (btcutil/gcs), BIP158 basic filters and the filter-header chain
// (btcutil/gcs/builder, blockchain/indexers) and bloom filters (btcutil/bloom).
//
// Two directions are used.  spec -> code: TLC enumerates the cases of a "case
// machine" (every state carries the input and what the definitions say about
// it) and the binder replays them into the exported functions.  code -> spec:
// where the definitions are over hash values the specification does not define
// (SipHash-reduced values, MurmurHash3 bit positions), the binder records the
// real values into an ndjson trace and a Trace*.tla module evaluates the
// definitions on them; the expected bytes and answers are read from that run.
package filters

import (
	"bufio"
	"crypto/sha256"
	"fmt"
	"io"
	"os"
	"path/filepath"
	"sort"
	"strings"
	"sync"
	"time"

	"verif/harness/internal/tla"
	"verif/harness/internal/tlc"
	"verif/harness/internal/vrun"
)

// dotStates streams the node labels of a "-dump dot" file.
func dotStates(path string, fn func(st tla.State) error) (int, error) {
	f, err := os.Open(path)
	if err != nil {
		return 0, err
	}
	defer f.Close()
	br := bufio.NewReaderSize(f, 1<<20)
	n := 0
	for {
		line, rerr := br.ReadString('\n')
		if len(line) > 0 {
			st, ok, perr := parseDotNode(strings.TrimRight(line, "\n"))
			if perr != nil {
				return n, perr
			}
			if ok {
				n++
				if err := fn(st); err != nil {
					return n, err
				}
			}
		}
		if rerr == io.EOF {
			break
		}
		if rerr != nil {
			return n, rerr
		}
	}
	return n, nil
}

func parseDotNode(line string) (tla.State, bool, error) {
	if len(line) == 0 || !(line[0] == '-' || (line[0] >= '0' && line[0] <= '9')) {
		return nil, false, nil
	}
	sp := strings.IndexByte(line, ' ')
	if sp < 0 {
		return nil, false, nil
	}
	rest := line[sp+1:]
	if !strings.HasPrefix(rest, `[label="`) {
		return nil, false, nil
	}
	body := rest[8:]
	var sb strings.Builder
	sb.Grow(len(body))
	end := -1
	for i := 0; i < len(body); i++ {
		c := body[i]
		if c == '\\' && i+1 < len(body) {
			i++
			switch body[i] {
			case 'n':
				sb.WriteByte('\n')
			case '"':
				sb.WriteByte('"')
			case '\\':
				sb.WriteByte('\\')
			default:
				sb.WriteByte('\\')
				sb.WriteByte(body[i])
			}
			continue
		}
		if c == '"' {
			end = i
			break
		}
		sb.WriteByte(c)
	}
	if end < 0 {
		return nil, false, fmt.Errorf("dot: unterminated label")
	}
	st, err := tla.ParseState(sb.String())
	if err != nil {
		return nil, false, err
	}
	return st, true, nil
}

// modelOpts describes one TLC run of a module of spec/filters.
type modelOpts struct {
	module  string
	cfg     string            // cfg file name; default <module>_<tier>.cfg
	files   map[string][]byte // trace files
	workers int
	actions []string // must have been taken (checked when coverage is on)
	heapGB  int
	label   string // evidence key suffix
}

// model runs TLC with a state dump and streams the states to fn (in the order
// TLC found them).
func model(c *vrun.Ctx, o modelOpts, fn func(st tla.State) error) error {
	cfg := o.cfg
	if cfg == "" {
		cfg = o.module + "_quick.cfg"
		if c.Thorough {
			cfg = o.module + "_thorough.cfg"
		}
	}
	workers := o.workers
	if workers == 0 {
		workers = 3
	}
	if c.Thorough {
		workers += 2
	}
	if workers > 6 {
		workers = 6
	}
	heap := o.heapGB
	if heap == 0 {
		heap = 4
	}
	label := o.label
	if label == "" {
		label = o.module
	}
	dump := filepath.Join(c.Scratch, label+"-graph")
	res, err := tlc.Run(tlc.Opts{SpecDir: c.SpecDir("filters"), Module: o.module, Config: cfg, Workers: workers,
		Files: o.files, Timeout: 28 * time.Minute, Coverage: c.Thorough, Scratch: c.Scratch, HeapGB: heap,
		Extra: []string{"-dump", "dot,actionlabels", dump}})
	if err != nil {
		if res != nil && res.ErrKind != "" {
			return fmt.Errorf("%s.tla: TLC reports %s %s on the specification itself (not a verdict about btcd)\n%s", o.module, res.ErrKind, res.ErrName, clip(tailOf(res.Output, 3000), 3000))
		}
		return err
	}
	if !res.OK {
		return fmt.Errorf("%s.tla: TLC reports %s %s on the specification itself (not a verdict about btcd)\n%s", o.module, res.ErrKind, res.ErrName, tailOf(res.Output, 3000))
	}
	c.Logf("%s.tla [%s]: %d distinct states, %d generated, %.1fs", o.module, label, res.Distinct, res.Generated, res.WallS)
	c.AddModel(res.Distinct, res.Generated)
	c.SetExtra("tlc_"+strings.ToLower(label), map[string]any{"distinct": res.Distinct, "generated": res.Generated, "wall_s": res.WallS})
	if c.Thorough {
		for _, a := range o.actions {
			if res.ActionCount[a] == 0 {
				return fmt.Errorf("%s.tla: action %s never taken (coverage %v)", o.module, a, res.ActionCount)
			}
		}
	}
	defer os.Remove(dump + ".dot")
	n, err := dotStates(dump+".dot", fn)
	if err != nil {
		return fmt.Errorf("%s.tla dump: %w", o.module, err)
	}
	if int64(n) != res.Distinct {
		return fmt.Errorf("%s.tla: dump has %d states, TLC reported %d", o.module, n, res.Distinct)
	}
	return nil
}

// corrupt reports whether the self-test named what is switched on
// (VERIF_C20_CORRUPT=<what>): one expected value or one recorded trace field
// is falsified and the run has to end with a VIOLATION. Never set in a real run.
func corrupt(what string) bool { return os.Getenv("VERIF_C20_CORRUPT") == what }

func tailOf(s string, n int) string {
	if len(s) > n {
		return s[len(s)-n:]
	}
	return s
}

// batcher hands streamed states to a worker pool in slices.
type batcher struct {
	c     *vrun.Ctx
	size  int
	items []tla.State
	work  func(i int, st tla.State)
	n     int
}

func (b *batcher) add(st tla.State) {
	b.items = append(b.items, st)
	if len(b.items) >= b.size {
		b.flush()
	}
}

func (b *batcher) flush() {
	items, base := b.items, b.n
	parallel(b.c, len(items), func(i int) { b.work(base+i, items[i]) })
	b.n += len(items)
	b.items = nil
}

// parallel is ctx.Parallel capped at 8 goroutines (shared machine).
func parallel(c *vrun.Ctx, n int, fn func(i int)) {
	w := c.Workers
	if w > 8 {
		w = 8
	}
	if w > n {
		w = n
	}
	if w < 1 {
		w = 1
	}
	var wg sync.WaitGroup
	ch := make(chan int, 64)
	for k := 0; k < w; k++ {
		wg.Add(1)
		go func() {
			defer wg.Done()
			for i := range ch {
				fn(i)
			}
		}()
	}
	for i := 0; i < n; i++ {
		ch <- i
	}
	close(ch)
	wg.Wait()
}

// stats counts cases per kind.
type stats struct {
	mu sync.Mutex
	m  map[string]int
}

func newStats() *stats { return &stats{m: map[string]int{}} }

func (s *stats) add(k string) { s.addN(k, 1) }

func (s *stats) addN(k string, n int) {
	s.mu.Lock()
	s.m[k] += n
	s.mu.Unlock()
}

func (s *stats) get(k string) int {
	s.mu.Lock()
	defer s.mu.Unlock()
	return s.m[k]
}

func (s *stats) String() string {
	s.mu.Lock()
	defer s.mu.Unlock()
	ks := make([]string, 0, len(s.m))
	for k := range s.m {
		ks = append(ks, k)
	}
	sort.Strings(ks)
	var sb strings.Builder
	for i, k := range ks {
		if i > 0 {
			sb.WriteString(" ")
		}
		fmt.Fprintf(&sb, "%s=%d", k, s.m[k])
	}
	return sb.String()
}

func (s *stats) export() map[string]int {
	s.mu.Lock()
	defer s.mu.Unlock()
	out := map[string]int{}
	for k, v := range s.m {
		out[k] = v
	}
	return out
}

// firstErr keeps the first infrastructure error of parallel workers.
type firstErr struct {
	mu  sync.Mutex
	err error
}

func (f *firstErr) set(err error) {
	if err == nil {
		return
	}
	f.mu.Lock()
	if f.err == nil {
		f.err = err
	}
	f.mu.Unlock()
}

func (f *firstErr) get() error {
	f.mu.Lock()
	defer f.mu.Unlock()
	return f.err
}

// guard turns a panic of the code under test into a value.
func guard(f func()) (p any) {
	defer func() { p = recover() }()
	f()
	return nil
}

func bytesOf(v tla.Value) []byte {
	out := make([]byte, len(v.Elems))
	for i, e := range v.Elems {
		if e.I < 0 || e.I > 255 {
			panic(fmt.Sprintf("not a byte: %d", e.I))
		}
		out[i] = byte(e.I)
	}
	return out
}

func boolsOf(v tla.Value) []bool {
	out := make([]bool, len(v.Elems))
	for i, e := range v.Elems {
		out[i] = e.Bool()
	}
	return out
}

func sha256d(b []byte) [32]byte {
	a := sha256.Sum256(b)
	return sha256.Sum256(a[:])
}

func clip(s string, n int) string {
	if len(s) > n {
		return s[:n] + "..."
	}
	return s
}
