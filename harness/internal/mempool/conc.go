package mempool

import (
	"fmt"
	"math/rand"
	"sort"
	"sync"
	"sync/atomic"

	"verif/harness/internal/tlc"
)

// Concurrent callers (C10: "applied one at a time or from concurrent
// callers").  From a state of the specification reached sequentially, several
// goroutines issue pool calls at the same time.  Afterwards a linearisation is
// searched: an order of the calls that respects real time (a call that returned
// before another one started comes first) and that is a path of the TLC state
// graph from the start state, with the result class the specification predicts
// for every call, ending in a state that matches the observed node.  Block
// events are not issued concurrently (the connect / disconnect protocol is a
// sequence of pool calls, not one critical section).

type concOp struct {
	g         int
	lab       string
	l         Label
	call, ret int64
	res       *stepResult
}

var poolOnly = map[string]bool{"ProcessTx": true, "MaybeAcceptTx": true, "CheckAccept": true, "RemoveTx": true,
	"RemoveDoubleSpends": true, "RemoveOrphanTx": true, "ProcessOrphansOf": true}

// concLabels lists the pool-only labels of the model that are total in the
// specification (RemoveTx without redeemers has a precondition there).
func (m *Model) concLabels() []string {
	var out []string
	for lab, l := range m.Labels {
		if !poolOnly[l.Name] {
			continue
		}
		if l.Name == "RemoveTx" && !l.Args[1].Bool() {
			continue
		}
		out = append(out, lab)
	}
	sort.Strings(out)
	return out
}

// seqStep executes one label sequentially and returns the matching successor.
func (w *Walker) seqStep(env *Env, cur *tlc.Node, lab string) (*tlc.Node, error) {
	m := w.M
	if _, err := env.Exec(m.Labels[lab], m.States[cur].Chain); err != nil {
		return nil, err
	}
	obs := env.Observe()
	for _, i := range m.ByLabel[cur][lab] {
		if ok, _ := obs.Matches(m.States[cur.Out[i].To]); ok {
			return cur.Out[i].To, nil
		}
	}
	return nil, nil
}

// expCode returns the result code the specification predicts for label l in node n (0: no result).
func (m *Model) expCode(n *tlc.Node, l Label) int {
	ex := m.Exp[n]
	switch l.Name {
	case "ProcessTx":
		if l.Args[1].Bool() {
			return ex.PT1[l.Args[0].Int()-1]
		}
		return ex.PT0[l.Args[0].Int()-1]
	case "MaybeAcceptTx":
		if l.Args[1].Bool() {
			return ex.MA1[l.Args[0].Int()-1]
		}
		return ex.MA0[l.Args[0].Int()-1]
	case "CheckAccept":
		return ex.MA1[l.Args[0].Int()-1]
	}
	return 0
}

// linearizable searches an order of ops that is a path from start.
func (m *Model) linearizable(start *tlc.Node, ops []concOp, final *Obs) bool {
	n := len(ops)
	type key struct {
		mask uint32
		node *tlc.Node
	}
	seen := map[key]bool{}
	var dfs func(mask uint32, node *tlc.Node) bool
	dfs = func(mask uint32, node *tlc.Node) bool {
		if mask == (uint32(1)<<n)-1 {
			ok, _ := final.Matches(m.States[node])
			return ok
		}
		k := key{mask, node}
		if seen[k] {
			return false
		}
		seen[k] = true
		for i := 0; i < n; i++ {
			if mask&(1<<i) != 0 {
				continue
			}
			// every call that returned before ops[i] was called must already be placed
			ready := true
			for j := 0; j < n; j++ {
				if j != i && mask&(1<<j) == 0 && ops[j].ret < ops[i].call {
					ready = false
					break
				}
			}
			if !ready {
				continue
			}
			o := ops[i]
			idxs, enabled := m.ByLabel[node][o.lab]
			if !enabled {
				// RemoveOrphan of a transaction that is no orphan: a no-op in the code, not an action of the spec
				if o.l.Name == "RemoveOrphanTx" && dfs(mask|1<<i, node) {
					return true
				}
				continue
			}
			if code := m.expCode(node, o.l); code != 0 && classOf(code) != o.res.Class {
				continue
			}
			for _, e := range idxs {
				if dfs(mask|1<<i, node.Out[e].To) {
					return true
				}
			}
		}
		return false
	}
	return dfs(0, start)
}

// RunConcurrent performs one concurrent experiment from node start.
func (w *Walker) RunConcurrent(start *tlc.Node, rng *rand.Rand, goroutines, opsPer int) error {
	m := w.M
	env, err := NewEnv(m.C, true)
	if err != nil {
		return err
	}
	defer env.Close()
	cur := m.G.Init[0]
	var prefix []string
	for _, st := range m.G.PathTo(start) {
		next, err := w.seqStep(env, cur, st.Action)
		if err != nil {
			return err
		}
		if next == nil {
			return nil // judged by the sequential replay
		}
		prefix = append(prefix, st.Action)
		cur = next
	}
	labs := m.concLabels()
	if len(labs) == 0 {
		return nil
	}
	var ops []concOp
	for g := 0; g < goroutines; g++ {
		for k := 0; k < opsPer; k++ {
			lab := labs[rng.Intn(len(labs))]
			ops = append(ops, concOp{g: g, lab: lab, l: m.Labels[lab]})
		}
	}
	var clock int64
	var wg sync.WaitGroup
	startCh := make(chan struct{})
	errs := make([]error, goroutines)
	chain := m.States[cur].Chain
	for g := 0; g < goroutines; g++ {
		wg.Add(1)
		go func(g int) {
			defer wg.Done()
			<-startCh
			for i := range ops {
				if ops[i].g != g {
					continue
				}
				ops[i].call = atomic.AddInt64(&clock, 1)
				r, err := env.Exec(ops[i].l, chain)
				ops[i].ret = atomic.AddInt64(&clock, 1)
				if err != nil {
					errs[g] = err
					return
				}
				ops[i].res = r
			}
		}(g)
	}
	close(startCh)
	wg.Wait()
	for _, e := range errs {
		if e != nil {
			return e
		}
	}
	final := env.Observe()
	w.Ctx.AddTraces(1)
	w.Ctx.AddEval(int64(len(ops)))
	hist := make([]map[string]any, len(ops))
	for i, o := range ops {
		hist[i] = map[string]any{"goroutine": o.g, "call": o.lab, "invoked_at": o.call, "returned_at": o.ret, "class": o.res.Class, "error": o.res.Err}
	}
	replay := map[string]any{"universe": m.U, "sequential_prefix": prefix, "concurrent_history": hist, "final": obsJSON(final)}
	// the clauses of C10 at the quiescent point
	for _, f := range env.Monitor(nil, final, Label{Name: "Concurrent", Raw: "concurrent calls"}, nil, m.States[cur].Stale, true) {
		if f.key == "inputs-available" && len(m.States[cur].Stale) > 0 {
			continue // inherited from the sequential prefix, judged there
		}
		w.Ctx.Violation("concurrent:"+f.key, fmt.Sprintf("universe %s, after concurrent calls: %s", m.U.Name, f.what), replay)
	}
	if !m.linearizable(cur, ops, final) {
		w.Ctx.Violation("concurrent:not-linearizable", fmt.Sprintf("universe %s: no order of %d concurrent pool calls that respects real time is a behaviour of the specification (results and final pool %v)", m.U.Name, len(ops), final.Pool), replay)
	}
	return nil
}

// RunConcurrentBatch runs n experiments from random states of the graph.
func (w *Walker) RunConcurrentBatch(n, workers int, label string) error {
	nodes := w.M.G.Order
	var wg sync.WaitGroup
	var mu sync.Mutex
	var firstErr error
	next := 0
	for k := 0; k < workers; k++ {
		wg.Add(1)
		go func(k int) {
			defer wg.Done()
			rng := w.Ctx.Rand(fmt.Sprintf("%s/%s/%d", label, w.M.U.Name, k))
			for {
				mu.Lock()
				if firstErr != nil || next >= n {
					mu.Unlock()
					return
				}
				next++
				mu.Unlock()
				start := nodes[rng.Intn(len(nodes))]
				if err := w.RunConcurrent(start, rng, 3, 3); err != nil {
					mu.Lock()
					if firstErr == nil {
						firstErr = err
					}
					mu.Unlock()
					return
				}
			}
		}(k)
	}
	wg.Wait()
	return firstErr
}
