package mempool

import (
	"fmt"
	"os"
	"sort"
	"sync/atomic"
	"time"

	"github.com/btcsuite/btcd/blockchain"
	"github.com/btcsuite/btcd/btcutil/v2"
	"github.com/btcsuite/btcd/chainhash/v2"
	"github.com/btcsuite/btcd/database"
	_ "github.com/btcsuite/btcd/database/ffldb"
	btcmempool "github.com/btcsuite/btcd/mempool"
	"github.com/btcsuite/btcd/mining"
	"github.com/btcsuite/btcd/netsync"
	"github.com/btcsuite/btcd/peer"
	"github.com/btcsuite/btcd/txscript/v2"
	"github.com/btcsuite/btcd/wire/v2"
)

func init() { netsync.DisableLog() }

// stubNotifier is the netsync.PeerNotifier of a node without peers.
type stubNotifier struct{}

func (stubNotifier) AnnounceNewTransactions([]*btcmempool.TxDesc)         {}
func (stubNotifier) UpdatePeerHeights(*chainhash.Hash, int32, *peer.Peer) {}
func (stubNotifier) RelayInventory(*wire.InvVect, interface{})            {}
func (stubNotifier) TransactionConfirmed(*btcutil.Tx)                     {}

// Env is one real node: BlockChain on ffldb, TxPool, SyncManager.
type Env struct {
	C     *Concrete
	dir   string
	db    database.DB
	Chain *blockchain.BlockChain
	Pool  *btcmempool.TxPool
	SM    *netsync.SyncManager
	TS    *Clock
	Sig   *txscript.SigCache
	Hash  *txscript.HashCache
	// slot -> block built in this environment
	Blocks map[int]*btcutil.Block
	// every block handed to the chain, in order (for clones)
	Fed []*btcutil.Block
}

// Clock is the node's adjusted time: the wall clock, or a fixed instant set by
// the template checks (the minimum-difficulty rule depends on it).
type Clock struct {
	fixed atomic.Int64 // unix seconds, 0 = wall clock
}

func (c *Clock) AdjustedTime() time.Time {
	if f := c.fixed.Load(); f != 0 {
		return time.Unix(f, 0)
	}
	return time.Unix(time.Now().Unix(), 0)
}
func (c *Clock) AddTimeSample(string, time.Time) {}
func (c *Clock) Offset() time.Duration           { return 0 }

// Set fixes the clock (zero time: back to the wall clock).
func (c *Clock) Set(t time.Time) {
	if t.IsZero() {
		c.fixed.Store(0)
	} else {
		c.fixed.Store(t.Unix())
	}
}

// newChainOnly creates a node without base chain, pool and sync manager (used
// while the base chain itself is being built).
func newChainOnly(c *Concrete) (*Env, error) {
	dir, err := os.MkdirTemp(scratchRoot(), "verif-mp-")
	if err != nil {
		return nil, err
	}
	params := NewParams(c.U)
	db, err := database.Create("ffldb", dir, params.Net)
	if err != nil {
		os.RemoveAll(dir)
		return nil, err
	}
	e := &Env{C: c, dir: dir, db: db, TS: &Clock{}, Blocks: map[int]*btcutil.Block{}}
	e.Sig = txscript.NewSigCache(100)
	e.Hash = txscript.NewHashCache(100)
	e.Chain, err = blockchain.New(&blockchain.Config{DB: db, ChainParams: params, TimeSource: e.TS, SigCache: e.Sig, HashCache: e.Hash, UtxoCacheMaxSize: 1 << 20})
	if err != nil {
		e.Close()
		return nil, err
	}
	return e, nil
}

func scratchRoot() string {
	if st, err := os.Stat("/dev/shm"); err == nil && st.IsDir() {
		return "/dev/shm"
	}
	return os.TempDir()
}

// NewEnv creates a fresh node and feeds it the base chain.
func NewEnv(c *Concrete, withPool bool) (*Env, error) {
	dir, err := os.MkdirTemp(scratchRoot(), "verif-mp-")
	if err != nil {
		return nil, err
	}
	params := NewParams(c.U)
	db, err := database.Create("ffldb", dir, params.Net)
	if err != nil {
		os.RemoveAll(dir)
		return nil, err
	}
	e := &Env{C: c, dir: dir, db: db, TS: &Clock{}, Blocks: map[int]*btcutil.Block{}}
	e.Sig = txscript.NewSigCache(100)
	e.Hash = txscript.NewHashCache(100)
	e.Chain, err = blockchain.New(&blockchain.Config{DB: db, ChainParams: params, TimeSource: e.TS, SigCache: e.Sig, HashCache: e.Hash, UtxoCacheMaxSize: 1 << 20})
	if err != nil {
		e.Close()
		return nil, err
	}
	for _, b := range c.Base {
		if err := e.feedDirect(b); err != nil {
			e.Close()
			return nil, fmt.Errorf("base chain: %w", err)
		}
	}
	if !withPool {
		return e, nil
	}
	u := c.U
	e.Pool = btcmempool.New(&btcmempool.Config{
		Policy: btcmempool.Policy{
			MaxTxVersion: 2, AcceptNonStd: !u.Standard, DisableRelayPriority: true,
			MaxOrphanTxs: u.MaxOrphans, MaxOrphanTxSize: u.MaxOrphanSize,
			MaxSigOpCostPerTx: blockchain.MaxBlockSigOpsCost / 2,
			MinRelayTxFee:     btcutil.Amount(u.MinRelayFee),
			FreeTxRelayLimit:  float64(u.FreeLimit) / 10000.0,
			RejectReplacement: u.RejectRepl,
		},
		ChainParams:    params,
		FetchUtxoView:  e.Chain.FetchUtxoView,
		BestHeight:     func() int32 { return e.Chain.BestSnapshot().Height },
		MedianTimePast: func() time.Time { return e.Chain.BestSnapshot().MedianTime },
		CalcSequenceLock: func(tx *btcutil.Tx, view *blockchain.UtxoViewpoint) (*blockchain.SequenceLock, error) {
			return e.Chain.CalcSequenceLock(tx, view, true)
		},
		IsDeploymentActive: e.Chain.IsDeploymentActive,
		SigCache:           e.Sig,
		HashCache:          e.Hash,
	})
	e.SM, err = netsync.New(&netsync.Config{PeerNotifier: stubNotifier{}, Chain: e.Chain, TxMemPool: e.Pool, ChainParams: params, DisableCheckpoints: true, MaxPeers: 8})
	if err != nil {
		e.Close()
		return nil, err
	}
	e.SM.Start()
	return e, nil
}

func (e *Env) Close() {
	if e.SM != nil {
		e.SM.Stop()
	}
	if e.db != nil {
		e.db.Close()
	}
	os.RemoveAll(e.dir)
}

// feedDirect hands a block to the chain without the sync manager (base chain
// and clones).
func (e *Env) feedDirect(b *btcutil.Block) error {
	_, orphan, err := e.Chain.ProcessBlock(btcutil.NewBlock(b.MsgBlock()), blockchain.BFNone)
	if err != nil {
		return err
	}
	if orphan {
		return fmt.Errorf("block %v is an orphan", b.Hash())
	}
	e.Fed = append(e.Fed, b)
	return nil
}

// Submit hands a block to the node the way submitblock / a peer does: through
// SyncManager.ProcessBlock, so that the chain notifications reach the pool
// through netsync's handleBlockchainNotification.
func (e *Env) Submit(b *btcutil.Block) error {
	orphan, err := e.SM.ProcessBlock(btcutil.NewBlock(b.MsgBlock()), blockchain.BFNone)
	if err != nil {
		return err
	}
	if orphan {
		return fmt.Errorf("block %v is an orphan", b.Hash())
	}
	e.Fed = append(e.Fed, b)
	return nil
}

// tipOfChain returns the hash on which slot b has to be built given the
// abstract chain prefix before it.
func (e *Env) parentHash(b int) chainhash.Hash {
	p := e.C.U.SlotParent[b-1]
	if p == 0 {
		return *e.C.Base[len(e.C.Base)-1].Hash()
	}
	return *e.Blocks[p].Hash()
}

// BuildSlot builds (once) the block of slot b with the body.
func (e *Env) BuildSlot(b int, body []int) (*btcutil.Block, error) {
	if _, ok := e.Blocks[b]; ok {
		return nil, fmt.Errorf("slot %d built twice", b)
	}
	if p := e.C.U.SlotParent[b-1]; p != 0 && e.Blocks[p] == nil {
		return nil, fmt.Errorf("slot %d: parent slot %d not built", b, p)
	}
	bits := e.C.Params.PowLimitBits
	if e.C.U.Retarget {
		// no forks here: the slot extends the tip, one second after it
		var err error
		h := e.C.SlotHeight(b)
		if bits, err = e.Chain.CalcNextRequiredDifficulty(e.C.T0.Add(time.Duration(h) * time.Second)); err != nil {
			return nil, err
		}
	}
	blk := e.C.SlotBlock(b, e.parentHash(b), bits, body)
	e.Blocks[b] = blk
	return blk, nil
}

// Clone returns a chain-only node that has seen the same blocks.
func (e *Env) Clone() (*Env, error) {
	c, err := NewEnv(e.C, false)
	if err != nil {
		return nil, err
	}
	for _, b := range e.Fed[len(e.C.Base):] {
		if err := c.feedDirect(b); err != nil {
			c.Close()
			return nil, err
		}
	}
	return c, nil
}

// Obs is the observable projection of the real node, in abstract terms.
type Obs struct {
	Pool     map[int]int32 // pooled tx -> TxDesc.Height - H0
	Fee      map[int]int64
	FeePerKB map[int]int64
	Spent    map[Outpoint]int // CheckSpend for every outpoint of the universe
	Orphans  []int
	Count    int
	Height   int32 // best height - H0
	TipSlots []int // active chain above the base, as slots
	Foreign  []string
}

func (e *Env) Observe() *Obs {
	c := e.C
	o := &Obs{Pool: map[int]int32{}, Fee: map[int]int64{}, FeePerKB: map[int]int64{}, Spent: map[Outpoint]int{}}
	for _, d := range e.Pool.TxDescs() {
		t, ok := c.ByHash[*d.Tx.Hash()]
		if !ok {
			o.Foreign = append(o.Foreign, d.Tx.Hash().String())
			continue
		}
		o.Pool[t] = d.Height - c.H0
		o.Fee[t] = d.Fee
		o.FeePerKB[t] = d.FeePerKB
	}
	o.Count = e.Pool.Count()
	for _, op := range c.Ops {
		if tx := e.Pool.CheckSpend(c.OpReal[op]); tx != nil {
			t, ok := c.ByHash[*tx.Hash()]
			if !ok {
				t = -1
			}
			o.Spent[op] = t
		}
	}
	for i, tx := range c.Txs {
		if e.Pool.IsOrphanInPool(tx.Hash()) {
			o.Orphans = append(o.Orphans, i+1)
		}
	}
	best := e.Chain.BestSnapshot()
	o.Height = best.Height - c.H0
	// active chain as slots
	bySlotHash := map[chainhash.Hash]int{}
	for b, blk := range e.Blocks {
		bySlotHash[*blk.Hash()] = b
	}
	for h := c.H0 + 1; h <= best.Height; h++ {
		hash, err := e.Chain.BlockHashByHeight(h)
		if err != nil {
			o.TipSlots = append(o.TipSlots, -1)
			continue
		}
		if b, ok := bySlotHash[*hash]; ok {
			o.TipSlots = append(o.TipSlots, b)
		} else {
			o.TipSlots = append(o.TipSlots, -1)
		}
	}
	sort.Ints(o.Orphans)
	if selfTest == "obs-spent" && len(o.Spent) > 0 {
		// self-test of the binding: lose one CheckSpend answer
		for _, op := range c.Ops {
			if _, ok := o.Spent[op]; ok {
				delete(o.Spent, op)
				break
			}
		}
	}
	return o
}

// selfTest (VERIF_SELFTEST) corrupts one observation / expected value / trace
// field on purpose, to demonstrate that the comparison is not vacuous:
// obs-spent (a CheckSpend answer is dropped), exp-code (an expected result code
// of the specification is flipped), tmpl-fee (a reported template fee is off by one).
var selfTest = os.Getenv("VERIF_SELFTEST")

// ChainHas reports whether the abstract outpoint is unspent in the real chain.
func (e *Env) ChainHas(op Outpoint) bool {
	entry, err := e.Chain.FetchUtxoEntry(e.C.OpReal[op])
	return err == nil && entry != nil && !entry.IsSpent()
}

// PoolBlock assembles the given pooled transactions (dependency order) into a
// block template on the current tip, for CheckConnectBlockTemplate.
func (e *Env) PoolBlock(order []int) *btcutil.Block {
	best := e.Chain.BestSnapshot()
	h := best.Height + 1
	var body []*btcutil.Tx
	for _, t := range order {
		body = append(body, e.C.Txs[t-1])
	}
	cbt := coinbaseTx(h, 7777, blockchain.CalcBlockSubsidy(h, e.C.Params))
	ts := best.MedianTime.Add(time.Second)
	if now := time.Unix(time.Now().Unix(), 0); now.After(ts) {
		ts = now
	}
	blk := AssembleBlock(e.C.Params, best.Hash, h, ts, cbt, body)
	return blk
}

func (e *Env) NewGenerator(policy *mining.Policy) *mining.BlkTmplGenerator {
	return mining.NewBlkTmplGenerator(policy, e.Chain.ChainParams(), e.Pool, e.Chain, e.TS, e.Sig, e.Hash)
}
