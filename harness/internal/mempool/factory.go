package mempool

import (
	"crypto/sha256"
	"fmt"
	"math"
	"time"

	"github.com/btcsuite/btcd/address/v2"
	"github.com/btcsuite/btcd/blockchain"
	"github.com/btcsuite/btcd/btcutil/v2"
	"github.com/btcsuite/btcd/chaincfg/v2"
	"github.com/btcsuite/btcd/chainhash/v2"
	"github.com/btcsuite/btcd/txscript/v2"
	"github.com/btcsuite/btcd/wire/v2"
)

const (
	retargetBlocks = 20
	seqNonFinal    = uint32(0xfffffffe) // lock time effective, no BIP125 signal
	fundValue      = int64(10_000_000)
	blockVer       = int32(0x20000000)
	seqFinal       = wire.MaxTxInSequenceNum
	seqSignalRB    = uint32(0xfffffffd)
)

// NewParams returns a private copy of the regression test parameters with the
// given coinbase maturity.  Deployment starters/enders keep a pointer to the
// chain they were synchronised with, so every chain instance needs its own.
func NewParams(u *Universe) *chaincfg.Params {
	p := chaincfg.RegressionNetParams
	p.CoinbaseMaturity = uint16(u.Maturity)
	if u.SubsidyInterval > 0 {
		p.SubsidyReductionInterval = int32(u.SubsidyInterval)
	}
	if u.Retarget {
		// real retargeting every 20 blocks; ReduceMinDifficulty (the testnet
		// twenty-minute rule) is already set for this network
		p.PoWNoRetargeting = false
		p.TargetTimespan = retargetBlocks * p.TargetTimePerBlock
	}
	for i := range p.Deployments {
		p.Deployments[i].DeploymentStarter = chaincfg.NewMedianTimeDeploymentStarter(time.Time{})
		p.Deployments[i].DeploymentEnder = chaincfg.NewMedianTimeDeploymentEnder(time.Time{})
	}
	return &p
}

// Every spendable legacy output is
//
//	[<tag> OP_DROP] OP_NOP*pad [OP_0 OP_IF OP_CHECKMULTISIG*n OP_ENDIF] OP_1 OP_EQUAL
//
// and is spent by the signature script OP_1 (OP_2 for the "badscript" class).
// The OP_CHECKMULTISIGs sit in a branch that is never executed; each counts 20
// legacy signature operations (cost 80) for the transaction creating the output.
func legacyScript(tag []byte, pad, sigops int) []byte { return legacyScript2(tag, pad, sigops, 0) }

// legacyScript2 additionally places n never-executed OP_CHECKSIG (1 legacy sigop, cost 4 each).
func legacyScript2(tag []byte, pad, sigops, checksigs int) []byte {
	var s []byte
	if len(tag) > 0 {
		s = append(s, byte(len(tag)))
		s = append(s, tag...)
		s = append(s, txscript.OP_DROP)
	}
	for i := 0; i < pad; i++ {
		s = append(s, txscript.OP_NOP)
	}
	if sigops > 0 || checksigs > 0 {
		s = append(s, txscript.OP_0, txscript.OP_IF)
		for i := 0; i < sigops; i++ {
			s = append(s, txscript.OP_CHECKMULTISIG)
		}
		for i := 0; i < checksigs; i++ {
			s = append(s, txscript.OP_CHECKSIG)
		}
		s = append(s, txscript.OP_ENDIF)
	}
	return append(s, txscript.OP_1, txscript.OP_EQUAL)
}

// witnessScript for a P2WSH coin: <tag> OP_DROP [OP_0 OP_IF OP_CHECKSIG*n OP_ENDIF] OP_1
// (each OP_CHECKSIG costs the spender one unit of sigop cost).
func witnessScript(tag []byte, checksigs, pad int) []byte {
	s := []byte{byte(len(tag))}
	s = append(s, tag...)
	s = append(s, txscript.OP_DROP)
	for i := 0; i < pad; i++ {
		s = append(s, txscript.OP_NOP)
	}
	if checksigs > 0 {
		s = append(s, txscript.OP_0, txscript.OP_IF)
		for i := 0; i < checksigs; i++ {
			s = append(s, txscript.OP_CHECKSIG)
		}
		s = append(s, txscript.OP_ENDIF)
	}
	return append(s, txscript.OP_1)
}

// redeemScript of the standard (P2SH) outputs: <tag> OP_DROP OP_DROP OP_1, spent by
// the signature script <padding push> <redeem script>.
func redeemScript(tag []byte) []byte { return redeemScriptSigOps(tag, 0) }

// redeemScriptSigOps additionally holds n never-executed OP_CHECKSIG, each of which costs
// the SPENDER WitnessScaleFactor units of sigop cost (precise P2SH count).
func redeemScriptSigOps(tag []byte, checksigs int) []byte {
	s := []byte{byte(len(tag))}
	s = append(s, tag...)
	s = append(s, txscript.OP_DROP, txscript.OP_DROP)
	if checksigs > 0 {
		s = append(s, txscript.OP_0, txscript.OP_IF)
		for i := 0; i < checksigs; i++ {
			s = append(s, txscript.OP_CHECKSIG)
		}
		s = append(s, txscript.OP_ENDIF)
	}
	return append(s, txscript.OP_1)
}

func p2sh(rs []byte) []byte {
	return append(append([]byte{txscript.OP_HASH160, txscript.OP_DATA_20}, address.Hash160(rs)...), txscript.OP_EQUAL)
}

func pushData(b []byte) []byte {
	s, err := txscript.NewScriptBuilder().AddData(b).Script()
	if err != nil {
		panic(err)
	}
	return s
}

type coinKind int

const (
	kLegacy coinKind = iota // custom script, spent by OP_1
	kBare                   // OP_1, spent by the empty signature script (output of a "small" transaction)
	kWit                    // P2WSH
	kP2SH                   // standard universe
)

type coinInfo struct {
	kind   coinKind
	script []byte // witness or redeem script
}

func p2wsh(ws []byte) []byte {
	h := sha256.Sum256(ws)
	return append([]byte{txscript.OP_0, txscript.OP_DATA_32}, h[:]...)
}

// Concrete holds the real objects of one universe.  They depend on the wall
// clock (block timestamps) and are built once per process.
type Concrete struct {
	U           *Universe
	Params      *chaincfg.Params // template; each Env copies it again
	T0          time.Time
	Base        []*btcutil.Block // blocks 1..H0 on top of genesis
	H0          int32
	FundTx      *btcutil.Tx
	SlotCB      []*wire.MsgTx // coinbase of slot b at index b-1
	Txs         []*btcutil.Tx // tx t at index t-1
	ByHash      map[chainhash.Hash]int
	Ops         []Outpoint // the outpoint universe
	OpReal      map[Outpoint]wire.OutPoint
	OpAbs       map[wire.OutPoint]Outpoint
	OpValue     map[Outpoint]int64
	coin        map[Outpoint]coinInfo
	parent      map[int]*btcutil.Tx // source id (0 fund, <0 coinbases) -> transaction, for utxo views
	VSize       []int
	Size        []int
	Weight      []int
	SigCost     []int   // counted from the description (specification constant TxSigCost)
	SigCostReal []int   // blockchain.GetSigOpCost
	slotH       []int32 // absolute height of slot b
	BaseBits    uint32  // difficulty bits of the base chain tip
}

func (c *Concrete) SlotHeight(b int) int32 { return c.slotH[b-1] }

func solve(h *wire.BlockHeader, limit *chaincfg.Params) {
	target := blockchain.CompactToBig(h.Bits)
	for n := uint32(0); ; n++ {
		h.Nonce = n
		hash := h.BlockHash()
		if blockchain.HashToBig(&hash).Cmp(target) <= 0 {
			return
		}
	}
}

func coinbaseTx(height int32, tag int64, value int64) *wire.MsgTx {
	return coinbaseTxTo(height, tag, value, legacyScript([]byte{0xcb}, 4, 0))
}

func coinbaseTxTo(height int32, tag int64, value int64, pk []byte) *wire.MsgTx {
	script, err := txscript.NewScriptBuilder().AddInt64(int64(height)).AddInt64(tag).AddData([]byte("verif")).Script()
	if err != nil {
		panic(err)
	}
	tx := wire.NewMsgTx(1)
	tx.AddTxIn(&wire.TxIn{PreviousOutPoint: *wire.NewOutPoint(&chainhash.Hash{}, wire.MaxPrevOutIndex), SignatureScript: script, Sequence: seqFinal})
	tx.AddTxOut(&wire.TxOut{Value: value, PkScript: pk})
	return tx
}

// AssembleBlock builds and solves a block with the given coinbase and body on
// top of prev.
func AssembleBlock(params *chaincfg.Params, prev chainhash.Hash, height int32, ts time.Time, cbTx *wire.MsgTx, body []*btcutil.Tx) *btcutil.Block {
	return AssembleBlockBits(params, params.PowLimitBits, prev, height, ts, cbTx, body)
}

// AssembleBlockBits is AssembleBlock for a chain whose required difficulty is not the minimum.
func AssembleBlockBits(params *chaincfg.Params, bits uint32, prev chainhash.Hash, height int32, ts time.Time, cbTx *wire.MsgTx, body []*btcutil.Tx) *btcutil.Block {
	cbCopy := cbTx.Copy()
	txs := []*btcutil.Tx{btcutil.NewTx(cbCopy)}
	hasWit := false
	for _, t := range body {
		txs = append(txs, t)
		if t.MsgTx().HasWitness() {
			hasWit = true
		}
	}
	if hasWit {
		// witness commitment (BIP141), built directly from the consensus helpers
		var nonce [blockchain.CoinbaseWitnessDataLen]byte
		cbCopy.TxIn[0].Witness = wire.TxWitness{nonce[:]}
		root := blockchain.CalcMerkleRoot(txs, true)
		var pre [64]byte
		copy(pre[:32], root[:])
		commit := chainhash.DoubleHashB(pre[:])
		cbCopy.AddTxOut(&wire.TxOut{Value: 0, PkScript: append(append([]byte{}, blockchain.WitnessMagicBytes...), commit...)})
		txs[0] = btcutil.NewTx(cbCopy)
	}
	msg := &wire.MsgBlock{Header: wire.BlockHeader{Version: blockVer, PrevBlock: prev, Timestamp: ts, Bits: bits}}
	for _, t := range txs {
		msg.AddTransaction(t.MsgTx())
	}
	msg.Header.MerkleRoot = blockchain.CalcMerkleRoot(txs, false)
	solve(&msg.Header, params)
	b := btcutil.NewBlock(msg)
	b.SetHeight(height)
	return b
}

// BuildConcrete constructs the base chain, the slot coinbases and all
// transactions of the universe, padding each transaction to its target vsize.
func BuildConcrete(u *Universe) (*Concrete, error) {
	if err := u.Validate(); err != nil {
		return nil, err
	}
	c := &Concrete{U: u, Params: NewParams(u), ByHash: map[chainhash.Hash]int{},
		OpReal: map[Outpoint]wire.OutPoint{}, OpAbs: map[wire.OutPoint]Outpoint{}, OpValue: map[Outpoint]int64{},
		coin: map[Outpoint]coinInfo{}, parent: map[int]*btcutil.Tx{}}
	c.T0 = time.Unix(time.Now().Add(-2*time.Hour).Unix(), 0)

	// base chain: block 1 (its coinbase funds F), ..., block 1+M carries F.  A
	// retargeting universe continues to height 2*retargetBlocks+1, one second per
	// block, which makes the required difficulty four times the minimum.
	c.H0 = int32(1 + u.Maturity)
	fundAt := c.H0
	var ref *Env // a scratch chain that tells the required bits
	if u.Retarget {
		c.H0 = 2*retargetBlocks + 1
		var err error
		if ref, err = newChainOnly(c); err != nil {
			return nil, err
		}
		defer ref.Close()
	}
	prev := *c.Params.GenesisHash
	var cb1 *wire.MsgTx
	for h := int32(1); h <= c.H0; h++ {
		var cbt *wire.MsgTx
		subsidy := blockchain.CalcBlockSubsidy(h, c.Params)
		if h == c.H0 {
			cbt = coinbaseTxTo(h, 1000+int64(h), subsidy, c.outScript(baseCB(), []byte{0xcb, 0xb0}, 4, TxSpec{}))
		} else {
			cbt = coinbaseTx(h, 1000+int64(h), subsidy)
		}
		var body []*btcutil.Tx
		if h == 1 {
			cb1 = cbt
		}
		if h == fundAt {
			f := wire.NewMsgTx(1)
			cbh := cb1.TxHash()
			f.AddTxIn(&wire.TxIn{PreviousOutPoint: wire.OutPoint{Hash: cbh, Index: 0}, SignatureScript: []byte{txscript.OP_1}, Sequence: seqFinal})
			for i := 0; i < u.NFund; i++ {
				f.AddTxOut(&wire.TxOut{Value: fundValue, PkScript: c.outScript(fund(i), []byte{0xf0, byte(i)}, 0, TxSpec{})})
			}
			// change back so that the fee is small
			f.AddTxOut(&wire.TxOut{Value: cb1.TxOut[0].Value - int64(u.NFund)*fundValue - 10000, PkScript: legacyScript([]byte{0xfc}, 40, 0)})
			c.FundTx = btcutil.NewTx(f)
			c.parent[0] = c.FundTx
			body = append(body, c.FundTx)
		}
		ts := c.T0.Add(time.Duration(h) * time.Second)
		bits := c.Params.PowLimitBits
		if ref != nil {
			var err error
			if bits, err = ref.Chain.CalcNextRequiredDifficulty(ts); err != nil {
				return nil, err
			}
		}
		blk := AssembleBlockBits(c.Params, bits, prev, h, ts, cbt, body)
		if ref != nil {
			if err := ref.feedDirect(blk); err != nil {
				return nil, fmt.Errorf("universe %s: base block %d: %w", u.Name, h, err)
			}
		}
		c.Base = append(c.Base, blk)
		prev = *blk.Hash()
		if h == c.H0 {
			cbx := btcutil.NewTx(blk.MsgBlock().Transactions[0])
			c.parent[BaseCBSrc] = cbx
			c.addOp(baseCB(), wire.OutPoint{Hash: *cbx.Hash(), Index: 0}, subsidy)
			c.BaseBits = bits
		}
	}
	for i := 0; i < u.NFund; i++ {
		c.addOp(fund(i), wire.OutPoint{Hash: *c.FundTx.Hash(), Index: uint32(i)}, fundValue)
	}
	// slot coinbases are fixed in advance (they never claim fees) so that
	// transactions spending them have a stable identity
	c.slotH = make([]int32, len(u.SlotParent))
	for b := 1; b <= len(u.SlotParent); b++ {
		ph := c.H0
		if p := u.SlotParent[b-1]; p > 0 {
			ph = c.slotH[p-1]
		}
		c.slotH[b-1] = ph + 1
		sub := blockchain.CalcBlockSubsidy(ph+1, c.Params)
		cbt := coinbaseTxTo(ph+1, 2000+int64(b), sub, c.outScript(cb(b), []byte{0xcb, byte(b)}, 4, TxSpec{}))
		c.SlotCB = append(c.SlotCB, cbt)
		c.parent[-b] = btcutil.NewTx(cbt)
		c.addOp(cb(b), wire.OutPoint{Hash: cbt.TxHash(), Index: 0}, sub)
	}
	// transactions
	for i := range u.Txs {
		t := i + 1
		tx, err := c.buildTx(t)
		if err != nil {
			return nil, err
		}
		c.Txs = append(c.Txs, tx)
		c.parent[t] = tx
		c.ByHash[*tx.Hash()] = t
		m := tx.MsgTx()
		for k := 0; k < u.Txs[i].NOut; k++ {
			c.addOp(out(t, k), wire.OutPoint{Hash: *tx.Hash(), Index: uint32(k)}, m.TxOut[k].Value)
		}
		w := blockchain.GetTransactionWeight(tx)
		c.Weight = append(c.Weight, int(w))
		c.VSize = append(c.VSize, int((w+3)/4))
		c.Size = append(c.Size, m.SerializeSize())
		// sigop cost with the scripts of the spent outputs at hand (legacy * 4, P2SH, witness)
		view := blockchain.NewUtxoViewpoint()
		for _, in := range u.Txs[i].Ins {
			view.AddTxOuts(c.parent[in.Src], 1)
		}
		cost, err := blockchain.GetSigOpCost(tx, false, view, true, true)
		if err != nil {
			return nil, fmt.Errorf("universe %s: tx %d: %w", u.Name, t, err)
		}
		c.SigCostReal = append(c.SigCostReal, cost)
		// ... and counted from the universe's description alone, which is what the
		// specification gets (TxSigCost): 20 per OP_CHECKMULTISIG and 1 per OP_CHECKSIG of
		// output 0, times the witness scale factor; the OP_CHECKSIGs of every P2SH redeem
		// script spent, times the scale factor; those of every witness script spent, once.
		indep := (20*u.Txs[i].SigOps + u.Txs[i].SigOpsCS) * blockchain.WitnessScaleFactor
		if u.Standard || u.Txs[i].Cls == "small" {
			indep = 0
		}
		for _, in := range u.Txs[i].Ins {
			indep += u.P2SHSigOps[in]*blockchain.WitnessScaleFactor + u.WitSigOps[in]
		}
		c.SigCost = append(c.SigCost, indep)
		if u.Txs[i].Cls != "insane" && u.Txs[i].VSize != AutoSize && c.VSize[i] != u.Txs[i].VSize {
			return nil, fmt.Errorf("universe %s: tx %d has vsize %d, wanted %d", u.Name, t, c.VSize[i], u.Txs[i].VSize)
		}
	}
	return c, nil
}

func (c *Concrete) addOp(a Outpoint, r wire.OutPoint, v int64) {
	c.Ops = append(c.Ops, a)
	c.OpReal[a] = r
	c.OpAbs[r] = a
	c.OpValue[a] = v
}

// outScript chooses the public key script of an output and records how it is spent.
func (c *Concrete) outScript(op Outpoint, tag []byte, pad int, creator TxSpec) []byte {
	u := c.U
	switch {
	case u.Standard:
		rs := redeemScript(tag)
		c.coin[op] = coinInfo{kP2SH, rs}
		return p2sh(rs)
	case u.P2SHSigOps[op] > 0:
		rs := redeemScriptSigOps(tag, u.P2SHSigOps[op])
		c.coin[op] = coinInfo{kP2SH, rs}
		return p2sh(rs)
	case creator.Cls == "small":
		c.coin[op] = coinInfo{kind: kBare}
		return []byte{txscript.OP_1}
	case u.WitCoins[op]:
		ws := witnessScript(tag, u.WitSigOps[op], u.WitPad[op])
		c.coin[op] = coinInfo{kWit, ws}
		return p2wsh(ws)
	default:
		c.coin[op] = coinInfo{kind: kLegacy}
		if op.Src > 0 && op.Idx == 0 {
			return legacyScript2(tag, pad, creator.SigOps, creator.SigOpsCS)
		}
		return legacyScript(tag, pad, 0)
	}
}

// lockTime of a lock class (see Mempool.tla: TxLock).
func (c *Concrete) lockTime(class string) uint32 {
	switch class {
	case "h0":
		return uint32(c.H0)
	case "h1":
		return uint32(c.H0 + 1)
	case "h2":
		return uint32(c.H0 + 2)
	case "tpast":
		return uint32(c.T0.Add(-24 * time.Hour).Unix())
	case "tbetween": // after every median time past of the run (T0 + seconds), an hour before the wall clock
		return uint32(c.T0.Add(time.Hour).Unix())
	case "tfuture":
		return uint32(c.T0.Add(26 * time.Hour).Unix())
	}
	return 0
}

func (c *Concrete) buildTx(t int) (*btcutil.Tx, error) {
	u := c.U
	spec := u.Txs[t-1]
	var buildErr error
	mk := func(pad int) *wire.MsgTx {
		m := wire.NewMsgTx(2)
		seq := seqFinal
		switch {
		case spec.Rbf:
			seq = seqSignalRB
		case spec.Lock != "" && spec.Lock != "none":
			seq = seqNonFinal
		}
		m.LockTime = c.lockTime(spec.Lock)
		inTotal := int64(0)
		addIn := func(in Outpoint, first bool) {
			ti := &wire.TxIn{PreviousOutPoint: c.OpReal[in], Sequence: seq}
			ci := c.coin[in]
			switch ci.kind {
			case kWit:
				ti.Witness = wire.TxWitness{ci.script}
			case kBare:
				if spec.Cls == "badscript" {
					buildErr = fmt.Errorf("universe %s: tx %d: a badscript transaction cannot spend the output of a small one", u.Name, t)
				}
			case kP2SH:
				padPush := []byte{0x2a, 0x2a}
				if first && u.Standard {
					for i := 0; i < pad; i++ {
						padPush = append(padPush, 0x2a)
					}
				}
				if spec.Cls == "badscript" {
					buildErr = fmt.Errorf("universe %s: tx %d: badscript is not available with standard scripts", u.Name, t)
				}
				ti.SignatureScript = append(pushData(padPush), pushData(ci.script)...)
			default:
				if spec.Cls == "badscript" {
					ti.SignatureScript = []byte{txscript.OP_2}
				} else {
					ti.SignatureScript = []byte{txscript.OP_1}
				}
			}
			m.AddTxIn(ti)
			inTotal += c.OpValue[in]
		}
		for i, in := range spec.Ins {
			addIn(in, i == 0)
		}
		if spec.Cls == "insane" {
			addIn(spec.Ins[0], false) // duplicate input
			inTotal -= c.OpValue[spec.Ins[0]]
		}
		outTotal := inTotal - spec.Fee
		if spec.Cls == "negfee" {
			outTotal = inTotal + 1000
		}
		each := outTotal / int64(spec.NOut)
		for k := 0; k < spec.NOut; k++ {
			v := each
			if k == 0 {
				v = outTotal - each*int64(spec.NOut-1)
			}
			tag := []byte{byte(t), byte(t >> 8)}
			if k > 0 {
				tag = append(tag, byte(k))
			}
			opad := pad
			if u.Standard || k > 0 {
				opad = 0
			}
			m.AddTxOut(&wire.TxOut{Value: v, PkScript: c.outScript(out(t, k), tag, opad, spec)})
		}
		return m
	}
	vsize := func(m *wire.MsgTx) int { return int((blockchain.GetTransactionWeight(btcutil.NewTx(m)) + 3) / 4) }
	m := mk(0)
	if spec.Cls != "insane" && spec.Cls != "small" && spec.VSize != AutoSize {
		vs := vsize(m)
		if vs > spec.VSize {
			return nil, fmt.Errorf("universe %s: tx %d cannot be smaller than %d vbytes (wanted %d)", u.Name, t, vs, spec.VSize)
		}
		pad := spec.VSize - vs
		m = mk(pad)
		// a script length prefix may grow when the script passes 75 / 252 bytes
		for try := 0; try < 6 && vsize(m) != spec.VSize; try++ {
			pad -= vsize(m) - spec.VSize
			m = mk(pad)
		}
	}
	if buildErr != nil {
		return nil, buildErr
	}
	if small := m.SerializeSizeStripped() < 65; small != (spec.Cls == "small") {
		return nil, fmt.Errorf("universe %s: tx %d has %d bytes, class %q", u.Name, t, m.SerializeSizeStripped(), spec.Cls)
	}
	for _, o := range m.TxOut {
		if o.Value <= 0 || o.Value > math.MaxInt64/2 {
			return nil, fmt.Errorf("universe %s: tx %d has output value %d", u.Name, t, o.Value)
		}
	}
	return btcutil.NewTx(m), nil
}

// SlotBlock builds the block of slot b with the given body on top of prev.
func (c *Concrete) SlotBlock(b int, prev chainhash.Hash, bits uint32, body []int) *btcutil.Block {
	var txs []*btcutil.Tx
	for _, t := range body {
		txs = append(txs, c.Txs[t-1])
	}
	h := c.SlotHeight(b)
	return AssembleBlockBits(c.Params, bits, prev, h, c.T0.Add(time.Duration(h)*time.Second), c.SlotCB[b-1], txs)
}
