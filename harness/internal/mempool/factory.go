package mempool

import (
	"crypto/sha256"
	"fmt"
	"math"
	"time"

	"github.com/btcsuite/btcd/blockchain"
	"github.com/btcsuite/btcd/btcutil/v2"
	"github.com/btcsuite/btcd/chaincfg/v2"
	"github.com/btcsuite/btcd/chainhash/v2"
	"github.com/btcsuite/btcd/txscript/v2"
	"github.com/btcsuite/btcd/wire/v2"
)

const (
	fundValue   = int64(10_000_000)
	blockVer    = int32(0x20000000)
	seqFinal    = wire.MaxTxInSequenceNum
	seqSignalRB = uint32(0xfffffffd)
)

// NewParams returns a private copy of the regression test parameters with the
// given coinbase maturity.  Deployment starters/enders keep a pointer to the
// chain they were synchronised with, so every chain instance needs its own.
func NewParams(maturity int) *chaincfg.Params {
	p := chaincfg.RegressionNetParams
	p.CoinbaseMaturity = uint16(maturity)
	for i := range p.Deployments {
		p.Deployments[i].DeploymentStarter = chaincfg.NewMedianTimeDeploymentStarter(time.Time{})
		p.Deployments[i].DeploymentEnder = chaincfg.NewMedianTimeDeploymentEnder(time.Time{})
	}
	return &p
}

// Every spendable legacy output is
//
//	[<tag> OP_DROP] OP_NOP*pad [OP_0 OP_IF OP_CHECKMULTISIG*n OP_ENDIF] OP_1 OP_EQUAL
//
// and is spent by the signature script OP_1 (OP_2 for the "badscript" class).
// The OP_CHECKMULTISIGs sit in a branch that is never executed; each counts 20
// legacy signature operations (cost 80) for the transaction creating the output.
func legacyScript(tag []byte, pad, sigops int) []byte {
	var s []byte
	if len(tag) > 0 {
		s = append(s, byte(len(tag)))
		s = append(s, tag...)
		s = append(s, txscript.OP_DROP)
	}
	for i := 0; i < pad; i++ {
		s = append(s, txscript.OP_NOP)
	}
	if sigops > 0 {
		s = append(s, txscript.OP_0, txscript.OP_IF)
		for i := 0; i < sigops; i++ {
			s = append(s, txscript.OP_CHECKMULTISIG)
		}
		s = append(s, txscript.OP_ENDIF)
	}
	return append(s, txscript.OP_1, txscript.OP_EQUAL)
}

// witnessScript for a P2WSH coin: <tag> OP_DROP OP_1
func witnessScript(tag []byte) []byte {
	s := []byte{byte(len(tag))}
	s = append(s, tag...)
	return append(s, txscript.OP_DROP, txscript.OP_1)
}

func p2wsh(ws []byte) []byte {
	h := sha256.Sum256(ws)
	return append([]byte{txscript.OP_0, txscript.OP_DATA_32}, h[:]...)
}

// Concrete holds the real objects of one universe.  They depend on the wall
// clock (block timestamps) and are built once per process.
type Concrete struct {
	U         *Universe
	Params    *chaincfg.Params // template; each Env copies it again
	T0        time.Time
	Base      []*btcutil.Block // blocks 1..H0 on top of genesis
	H0        int32
	FundTx    *btcutil.Tx
	SlotCB    []*wire.MsgTx // coinbase of slot b at index b-1
	Txs       []*btcutil.Tx // tx t at index t-1
	ByHash    map[chainhash.Hash]int
	Ops       []Outpoint // the outpoint universe
	OpReal    map[Outpoint]wire.OutPoint
	OpAbs     map[wire.OutPoint]Outpoint
	OpValue   map[Outpoint]int64
	witScript map[Outpoint][]byte
	VSize     []int
	Size      []int
	Weight    []int
	SigCost   []int
	slotH     []int32 // absolute height of slot b
}

func (c *Concrete) SlotHeight(b int) int32 { return c.slotH[b-1] }

func solve(h *wire.BlockHeader, limit *chaincfg.Params) {
	target := blockchain.CompactToBig(h.Bits)
	for n := uint32(0); ; n++ {
		h.Nonce = n
		hash := h.BlockHash()
		if blockchain.HashToBig(&hash).Cmp(target) <= 0 {
			return
		}
	}
}

func coinbaseTx(height int32, tag int64, value int64) *wire.MsgTx {
	script, err := txscript.NewScriptBuilder().AddInt64(int64(height)).AddInt64(tag).AddData([]byte("verif")).Script()
	if err != nil {
		panic(err)
	}
	tx := wire.NewMsgTx(1)
	tx.AddTxIn(&wire.TxIn{PreviousOutPoint: *wire.NewOutPoint(&chainhash.Hash{}, wire.MaxPrevOutIndex), SignatureScript: script, Sequence: seqFinal})
	tx.AddTxOut(&wire.TxOut{Value: value, PkScript: legacyScript([]byte{0xcb}, 4, 0)})
	return tx
}

// AssembleBlock builds and solves a block with the given coinbase and body on
// top of prev.
func AssembleBlock(params *chaincfg.Params, prev chainhash.Hash, height int32, ts time.Time, cbTx *wire.MsgTx, body []*btcutil.Tx) *btcutil.Block {
	cbCopy := cbTx.Copy()
	txs := []*btcutil.Tx{btcutil.NewTx(cbCopy)}
	hasWit := false
	for _, t := range body {
		txs = append(txs, t)
		if t.MsgTx().HasWitness() {
			hasWit = true
		}
	}
	if hasWit {
		// witness commitment (BIP141), built directly from the consensus helpers
		var nonce [blockchain.CoinbaseWitnessDataLen]byte
		cbCopy.TxIn[0].Witness = wire.TxWitness{nonce[:]}
		root := blockchain.CalcMerkleRoot(txs, true)
		var pre [64]byte
		copy(pre[:32], root[:])
		commit := chainhash.DoubleHashB(pre[:])
		cbCopy.AddTxOut(&wire.TxOut{Value: 0, PkScript: append(append([]byte{}, blockchain.WitnessMagicBytes...), commit...)})
		txs[0] = btcutil.NewTx(cbCopy)
	}
	msg := &wire.MsgBlock{Header: wire.BlockHeader{Version: blockVer, PrevBlock: prev, Timestamp: ts, Bits: params.PowLimitBits}}
	for _, t := range txs {
		msg.AddTransaction(t.MsgTx())
	}
	msg.Header.MerkleRoot = blockchain.CalcMerkleRoot(txs, false)
	solve(&msg.Header, params)
	b := btcutil.NewBlock(msg)
	b.SetHeight(height)
	return b
}

// BuildConcrete constructs the base chain, the slot coinbases and all
// transactions of the universe, padding each transaction to its target vsize.
func BuildConcrete(u *Universe) (*Concrete, error) {
	if err := u.Validate(); err != nil {
		return nil, err
	}
	c := &Concrete{U: u, Params: NewParams(u.Maturity), ByHash: map[chainhash.Hash]int{},
		OpReal: map[Outpoint]wire.OutPoint{}, OpAbs: map[wire.OutPoint]Outpoint{}, OpValue: map[Outpoint]int64{}, witScript: map[Outpoint][]byte{}}
	c.T0 = time.Unix(time.Now().Add(-2*time.Hour).Unix(), 0)
	subsidy := blockchain.CalcBlockSubsidy(1, c.Params)

	// base chain: block 1 (coinbase funds F), ..., block 1+M carries F
	c.H0 = int32(1 + u.Maturity)
	prev := *c.Params.GenesisHash
	var cb1 *wire.MsgTx
	for h := int32(1); h <= c.H0; h++ {
		cbt := coinbaseTx(h, 1000+int64(h), subsidy)
		var body []*btcutil.Tx
		if h == 1 {
			cb1 = cbt
		}
		if h == c.H0 {
			f := wire.NewMsgTx(1)
			cbh := cb1.TxHash()
			f.AddTxIn(&wire.TxIn{PreviousOutPoint: wire.OutPoint{Hash: cbh, Index: 0}, SignatureScript: []byte{txscript.OP_1}, Sequence: seqFinal})
			for i := 0; i < u.NFund; i++ {
				op := fund(i)
				var pk []byte
				if u.WitCoins[op] {
					ws := witnessScript([]byte{0xf0, byte(i)})
					c.witScript[op] = ws
					pk = p2wsh(ws)
				} else {
					pk = legacyScript([]byte{0xf0, byte(i)}, 0, 0)
				}
				f.AddTxOut(&wire.TxOut{Value: fundValue, PkScript: pk})
			}
			// change back so that the fee is small
			f.AddTxOut(&wire.TxOut{Value: subsidy - int64(u.NFund)*fundValue - 10000, PkScript: legacyScript([]byte{0xfc}, 40, 0)})
			c.FundTx = btcutil.NewTx(f)
			body = append(body, c.FundTx)
		}
		blk := AssembleBlock(c.Params, prev, h, c.T0.Add(time.Duration(h)*time.Second), cbt, body)
		c.Base = append(c.Base, blk)
		prev = *blk.Hash()
		if h == c.H0 {
			op := baseCB()
			c.addOp(op, wire.OutPoint{Hash: blk.MsgBlock().Transactions[0].TxHash(), Index: 0}, subsidy)
		}
	}
	for i := 0; i < u.NFund; i++ {
		c.addOp(fund(i), wire.OutPoint{Hash: *c.FundTx.Hash(), Index: uint32(i)}, fundValue)
	}
	// slot coinbases are fixed in advance (they never claim fees) so that
	// transactions spending them have a stable identity
	c.slotH = make([]int32, len(u.SlotParent))
	for b := 1; b <= len(u.SlotParent); b++ {
		ph := c.H0
		if p := u.SlotParent[b-1]; p > 0 {
			ph = c.slotH[p-1]
		}
		c.slotH[b-1] = ph + 1
		sub := blockchain.CalcBlockSubsidy(ph+1, c.Params)
		cbt := coinbaseTx(ph+1, 2000+int64(b), sub)
		c.SlotCB = append(c.SlotCB, cbt)
		c.addOp(cb(b), wire.OutPoint{Hash: cbt.TxHash(), Index: 0}, sub)
	}
	// transactions
	for i := range u.Txs {
		t := i + 1
		tx, err := c.buildTx(t)
		if err != nil {
			return nil, err
		}
		c.Txs = append(c.Txs, tx)
		c.ByHash[*tx.Hash()] = t
		m := tx.MsgTx()
		outTotal := int64(0)
		for k := 0; k < u.Txs[i].NOut; k++ {
			c.addOp(out(t, k), wire.OutPoint{Hash: *tx.Hash(), Index: uint32(k)}, m.TxOut[k].Value)
			outTotal += m.TxOut[k].Value
		}
		w := blockchain.GetTransactionWeight(tx)
		c.Weight = append(c.Weight, int(w))
		c.VSize = append(c.VSize, int((w+3)/4))
		c.Size = append(c.Size, m.SerializeSize())
		// legacy sigops * 4 (none of the scripts is P2SH, witness scripts carry no sigops)
		c.SigCost = append(c.SigCost, blockchain.CountSigOps(tx)*blockchain.WitnessScaleFactor)
		if u.Txs[i].Cls != "insane" && u.Txs[i].VSize != AutoSize && c.VSize[i] != u.Txs[i].VSize {
			return nil, fmt.Errorf("universe %s: tx %d has vsize %d, wanted %d", u.Name, t, c.VSize[i], u.Txs[i].VSize)
		}
	}
	return c, nil
}

func (c *Concrete) addOp(a Outpoint, r wire.OutPoint, v int64) {
	c.Ops = append(c.Ops, a)
	c.OpReal[a] = r
	c.OpAbs[r] = a
	c.OpValue[a] = v
}

func (c *Concrete) buildTx(t int) (*btcutil.Tx, error) {
	u := c.U
	spec := u.Txs[t-1]
	mk := func(pad int) *wire.MsgTx {
		m := wire.NewMsgTx(2)
		seq := seqFinal
		if spec.Rbf {
			seq = seqSignalRB
		}
		inTotal := int64(0)
		addIn := func(in Outpoint) {
			ti := &wire.TxIn{PreviousOutPoint: c.OpReal[in], Sequence: seq}
			if ws, ok := c.witScript[in]; ok {
				ti.Witness = wire.TxWitness{ws}
			} else if spec.Cls == "badscript" {
				ti.SignatureScript = []byte{txscript.OP_2}
			} else {
				ti.SignatureScript = []byte{txscript.OP_1}
			}
			m.AddTxIn(ti)
			inTotal += c.OpValue[in]
		}
		for _, in := range spec.Ins {
			addIn(in)
		}
		if spec.Cls == "insane" {
			addIn(spec.Ins[0]) // duplicate input
			inTotal -= c.OpValue[spec.Ins[0]]
		}
		outTotal := inTotal - spec.Fee
		if spec.Cls == "negfee" {
			outTotal = inTotal + 1000
		}
		each := outTotal / int64(spec.NOut)
		for k := 0; k < spec.NOut; k++ {
			v := each
			if k == 0 {
				v = outTotal - each*int64(spec.NOut-1)
			}
			op := out(t, k)
			var pk []byte
			if u.WitCoins[op] {
				ws := witnessScript([]byte{byte(t), byte(k)})
				c.witScript[op] = ws
				pk = p2wsh(ws)
			} else if k == 0 {
				pk = legacyScript([]byte{byte(t), byte(t >> 8)}, pad, spec.SigOps)
			} else {
				pk = legacyScript([]byte{byte(t), byte(t >> 8), byte(k)}, 0, 0)
			}
			m.AddTxOut(&wire.TxOut{Value: v, PkScript: pk})
		}
		return m
	}
	m := mk(0)
	if spec.Cls != "insane" && spec.VSize != AutoSize {
		vs := int((blockchain.GetTransactionWeight(btcutil.NewTx(m)) + 3) / 4)
		if vs > spec.VSize {
			return nil, fmt.Errorf("universe %s: tx %d cannot be smaller than %d vbytes (wanted %d)", u.Name, t, vs, spec.VSize)
		}
		pad := spec.VSize - vs
		m = mk(pad)
		// the script length prefix may grow by two bytes when the script passes 252 bytes
		for try := 0; try < 4; try++ {
			vs = int((blockchain.GetTransactionWeight(btcutil.NewTx(m)) + 3) / 4)
			if vs == spec.VSize {
				break
			}
			pad -= vs - spec.VSize
			m = mk(pad)
		}
	}
	if m.SerializeSizeStripped() < 65 {
		return nil, fmt.Errorf("universe %s: tx %d smaller than 65 bytes", u.Name, t)
	}
	for _, o := range m.TxOut {
		if o.Value <= 0 || o.Value > math.MaxInt64/2 {
			return nil, fmt.Errorf("universe %s: tx %d has output value %d", u.Name, t, o.Value)
		}
	}
	return btcutil.NewTx(m), nil
}

// SlotBlock builds the block of slot b with the given body on top of prev.
func (c *Concrete) SlotBlock(b int, prev chainhash.Hash, body []int) *btcutil.Block {
	var txs []*btcutil.Tx
	for _, t := range body {
		txs = append(txs, c.Txs[t-1])
	}
	h := c.SlotHeight(b)
	return AssembleBlock(c.Params, prev, h, c.T0.Add(time.Duration(h)*time.Second), c.SlotCB[b-1], txs)
}
