package mempool

import (
	"verif/harness/internal/tlc"
	"verif/harness/internal/vrun"
)

// TemplateChecker (C12) — filled in below.
type TemplateChecker struct {
	ctx *vrun.Ctx
	m   *Model
}

func NewTemplateChecker(ctx *vrun.Ctx, m *Model) *TemplateChecker { return &TemplateChecker{ctx: ctx, m: m} }

func (tc *TemplateChecker) OnState(e *Env, n *tlc.Node, s *SpecState) error { return nil }
func (tc *TemplateChecker) Finish() error                                   { return nil }

// RunC12 is the check for property C12.
func RunC12(ctx *vrun.Ctx) error { return runBoth(ctx, true) }
