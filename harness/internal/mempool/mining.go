package mempool

import (
	"bytes"
	"fmt"
	"sort"
	"strings"
	"sync"
	"time"

	"github.com/btcsuite/btcd/address/v2"
	"github.com/btcsuite/btcd/blockchain"
	"github.com/btcsuite/btcd/btcutil/v2"
	"github.com/btcsuite/btcd/chaincfg/v2"
	"github.com/btcsuite/btcd/chainhash/v2"
	"github.com/btcsuite/btcd/mining"
	"github.com/btcsuite/btcd/txscript/v2"
	"github.com/btcsuite/btcd/wire/v2"

	"verif/harness/internal/tla"
	"verif/harness/internal/tlc"
	"verif/harness/internal/vrun"
)

// MiningPolicy is one mining.Policy of the grid, also rendered into Mining.tla.
type MiningPolicy struct {
	MaxW, MinW, Prio uint32
	MinFree          int64
}

func (p MiningPolicy) real() *mining.Policy {
	return &mining.Policy{BlockMinWeight: p.MinW, BlockMaxWeight: p.MaxW, BlockMinSize: p.MinW / 4, BlockMaxSize: p.MaxW / 4,
		BlockPrioritySize: p.Prio, TxMinFreeFee: btcutil.Amount(p.MinFree)}
}

const headerWeight = (80 + 9) * 4

// commitWeight is what NewBlockTemplate adds for the witness commitment.
func commitWeight() int {
	return (2 + 1 + 1 + blockchain.CoinbaseWitnessDataLen) + (8+1+blockchain.CoinbaseWitnessPkScriptLength)*blockchain.WitnessScaleFactor
}

// Variant is one template call made in every state (Mining.tla: Variants).
type Variant struct {
	Pol        int    // index into Policies
	Pay        string // none | p2pkh | p2sh | p2wpkh
	Clk0, Clk1 string // near | far: adjusted time at NewBlockTemplate / at UpdateBlockTime
}

var payKinds = []string{"none", "p2pkh", "p2sh", "p2wpkh"}

// payAddress returns the payToAddress of a kind (nil for "none").
func payAddress(kind string, params *chaincfg.Params) (address.Address, error) {
	h := make([]byte, 20)
	for i := range h {
		h[i] = byte(0x50 + i)
	}
	switch kind {
	case "p2pkh":
		return address.NewAddressPubKeyHash(h, params)
	case "p2sh":
		return address.NewAddressScriptHashFromHash(h, params)
	case "p2wpkh":
		return address.NewAddressWitnessPubKeyHash(h, params)
	}
	return nil, nil
}

// MiningSetup measures the generated coinbase and fixes the policy grid and
// the template variants of a universe.
type MiningSetup struct {
	CbWeight map[string]int
	Policies []MiningPolicy
	Variants []Variant
}

func NewMiningSetup(c *Concrete) (*MiningSetup, error) {
	e, err := NewEnv(c, true)
	if err != nil {
		return nil, err
	}
	defer e.Close()
	ms := &MiningSetup{CbWeight: map[string]int{}}
	g := e.NewGenerator(MiningPolicy{MaxW: 3000000}.real())
	for _, kind := range payKinds {
		addr, err := payAddress(kind, e.Chain.ChainParams())
		if err != nil {
			return nil, err
		}
		t, err := g.NewBlockTemplate(addr)
		if err != nil {
			return nil, fmt.Errorf("template on an empty pool: %w", err)
		}
		ms.CbWeight[kind] = int(blockchain.GetTransactionWeight(btcutil.NewTx(t.Block.Transactions[0])))
	}
	base := uint32(headerWeight + ms.CbWeight["p2pkh"] + commitWeight())
	ms.Policies = []MiningPolicy{
		{MaxW: 3000000, MinW: 0, Prio: 0, MinFree: 1000},                // btcd-like defaults without a priority area
		{MaxW: base + 900, MinW: 0, Prio: 0, MinFree: 0},                // room for about two small transactions
		{MaxW: 4000000, MinW: base + 450, Prio: 200000, MinFree: 12000}, // priority area, min weight filled with low-fee transactions
	}
	ms.Variants = []Variant{
		{0, "none", "wall", "wall"},
		{1, "p2pkh", "near", "far"},
		{2, "p2sh", "far", "near"},
		{0, "p2pkh", "near", "mtp"},
		{1, "p2wpkh", "mtp", "mtp+1"},
		{0, "none", "mtp-1", "far"},
	}
	return ms, nil
}

func (ms *MiningSetup) cfg(c *Concrete) (defs, cfg string) {
	var ps, vs, cw []string
	for _, p := range ms.Policies {
		ps = append(ps, fmt.Sprintf("[maxw |-> %d, minw |-> %d, prio |-> %d, minfree |-> %d]", p.MaxW, p.MinW, p.Prio, p.MinFree))
	}
	for _, v := range ms.Variants {
		vs = append(vs, fmt.Sprintf("[pol |-> %d, pay |-> %q, clk0 |-> %q, clk1 |-> %q]", v.Pol+1, v.Pay, v.Clk0, v.Clk1))
	}
	for _, k := range payKinds {
		cw = append(cw, fmt.Sprintf("%s |-> %d", k, ms.CbWeight[k]))
	}
	defs = fmt.Sprintf("U_Policies == << %s >>\nU_Variants == << %s >>\nU_CbWeight == [%s]\n", strings.Join(ps, ", "), strings.Join(vs, ", "), strings.Join(cw, ", "))
	cfg = fmt.Sprintf(" TxWeight <- U_TxWeight\n TxSigCost <- U_TxSigCost\n Policies <- U_Policies\n Variants <- U_Variants\n CbWeight <- U_CbWeight\n H0 = %d\n SubsidyInterval = %d\n HardDiff = %s\n CommitWeight = %d\n",
		c.H0, c.Params.SubsidyReductionInterval, tlaBool(c.BaseBits != c.Params.PowLimitBits), commitWeight())
	return
}

// tmplRecord is one observed template together with the spec state it was taken in.
type tmplRecord struct {
	node *tlc.Node
	pol  int
	tla  string
	desc map[string]any
	// set when the template was taken in a pool state outside the state graph (OnDiverge):
	// the observed pool / orphans replace those of the node, whose chain still applies
	pool, orph string
	path       []string
}

// TemplateChecker generates templates at every spec state reached by a replay
// and validates the records against Mining.tla.
type TemplateChecker struct {
	ctx      *vrun.Ctx
	m        *Model
	setup    *MiningSetup
	mu       sync.Mutex
	recs     []tmplRecord
	diverged map[string]bool
}

func NewTemplateChecker(ctx *vrun.Ctx, m *Model, setup *MiningSetup) *TemplateChecker {
	return &TemplateChecker{ctx: ctx, m: m, setup: setup}
}

// validate solves the proof of work of a copy of the block and runs the full
// connect checks against the current tip.
func (e *Env) validateSolved(msg *wire.MsgBlock, height int32) error {
	cp := msg.Copy()
	solve(&cp.Header, e.C.Params)
	blk := btcutil.NewBlock(cp)
	blk.SetHeight(height)
	if err := blockchain.CheckProofOfWork(blk, e.C.Params.PowLimit); err != nil {
		return err
	}
	return e.Chain.CheckConnectBlockTemplate(blk)
}

// witnessRoot is the BIP141 witness merkle root computed without btcd's merkle code: the
// leaves are the wtxids (all zero for the coinbase), a level with an odd number of
// nodes repeats its last node.
func witnessRoot(blk *wire.MsgBlock) chainhash.Hash {
	level := make([]chainhash.Hash, len(blk.Transactions))
	for i, tx := range blk.Transactions {
		if i > 0 {
			level[i] = tx.WitnessHash()
		}
	}
	for len(level) > 1 {
		if len(level)%2 == 1 {
			level = append(level, level[len(level)-1])
		}
		next := make([]chainhash.Hash, len(level)/2)
		for i := range next {
			var b [64]byte
			copy(b[:32], level[2*i][:])
			copy(b[32:], level[2*i+1][:])
			next[i] = chainhash.DoubleHashH(b[:])
		}
		level = next
	}
	return level[0]
}

func b2s(b bool) string { return tlaBool(b) }

func seqInts(x []int64) string {
	p := make([]string, len(x))
	for i, v := range x {
		p[i] = fmt.Sprint(v)
	}
	return "<<" + strings.Join(p, ", ") + ">>"
}

// clockAt returns the adjusted time of a clock class: "near" is one minute
// after the tip's timestamp, "far" half an hour after it (MinDiffReductionTime
// is twenty minutes on this network).
func (e *Env) clockAt(class string) (time.Time, error) {
	best := e.Chain.BestSnapshot()
	hdr, err := e.Chain.HeaderByHash(&best.Hash)
	if err != nil {
		return time.Time{}, err
	}
	switch class {
	case "mtp-1":
		return best.MedianTime.Add(-time.Second), nil
	case "mtp":
		return best.MedianTime, nil
	case "mtp+1":
		return best.MedianTime.Add(time.Second), nil
	case "near":
		return hdr.Timestamp.Add(time.Minute), nil
	case "wall":
		return time.Time{}, nil // Clock.Set(zero): the wall clock
	}
	return hdr.Timestamp.Add(30 * time.Minute), nil
}

func (e *Env) bitsClass(bits uint32) string {
	switch {
	case bits == e.C.Params.PowLimitBits:
		return "min"
	case bits == e.C.BaseBits:
		return "hard"
	}
	return "other"
}

// Observe one template and render it as a TLA+ record.
func (tc *TemplateChecker) observe(e *Env, vi int) (string, map[string]any) {
	c := e.C
	v := tc.setup.Variants[vi]
	pol := v.Pol
	defer e.TS.Set(time.Time{})
	fail := func(err error) (string, map[string]any) {
		return fmt.Sprintf("[var |-> %d, failed |-> TRUE]", vi+1), map[string]any{"variant": v, "error": err.Error()}
	}
	t0, err := e.clockAt(v.Clk0)
	if err != nil {
		return fail(err)
	}
	t1, err := e.clockAt(v.Clk1)
	if err != nil {
		return fail(err)
	}
	addr, err := payAddress(v.Pay, e.Chain.ChainParams())
	if err != nil {
		return fail(err)
	}
	e.TS.Set(t0)
	g := e.NewGenerator(tc.setup.Policies[pol].real())
	t, err := g.NewBlockTemplate(addr)
	if err != nil {
		return fail(err)
	}
	blk := btcutil.NewBlock(t.Block)
	var sel []int64
	foreign := false
	for _, tx := range t.Block.Transactions[1:] {
		id, ok := c.ByHash[tx.TxHash()]
		if !ok {
			foreign = true
			id = 0
		}
		sel = append(sel, int64(id))
	}
	cbv := int64(0)
	for _, o := range t.Block.Transactions[0].TxOut {
		cbv += o.Value
	}
	sigtotal := int64(0)
	for _, s := range t.SigOpCosts {
		sigtotal += s
	}
	weight := blockchain.GetBlockWeight(blk)
	// witness commitment: recomputed independently from the block's transactions
	commitOK := true
	hasCommit := t.WitnessCommitment != nil
	if hasCommit {
		if err := blockchain.ValidateWitnessCommitment(blk); err != nil {
			commitOK = false
		}
		root := blockchain.CalcMerkleRoot(blk.Transactions(), true)
		var pre [64]byte
		copy(pre[:32], root[:])
		if !bytes.Equal(chainhash.DoubleHashB(pre[:]), t.WitnessCommitment) {
			commitOK = false
		}
		// ... and once more with a witness merkle root computed here (BIP141)
		wroot := witnessRoot(t.Block)
		copy(pre[:32], wroot[:])
		if !bytes.Equal(chainhash.DoubleHashB(pre[:]), t.WitnessCommitment) {
			commitOK = false
		}
		if got, ok := blockchain.ExtractWitnessCommitment(blk.Transactions()[0]); !ok || !bytes.Equal(got, t.WitnessCommitment) {
			commitOK = false
		}
	} else if _, ok := blockchain.ExtractWitnessCommitment(blk.Transactions()[0]); ok {
		hasCommit, commitOK = true, false // a commitment output the template does not report
	}
	// the coinbase: pays to the address, sigop cost computed by the consensus code
	cbTx := btcutil.NewTx(t.Block.Transactions[0])
	paid := true
	if addr != nil {
		want, err := txscript.PayToAddrScript(addr)
		paid = err == nil && bytes.Equal(want, t.Block.Transactions[0].TxOut[0].PkScript)
	}
	cbsig, err := blockchain.GetSigOpCost(cbTx, true, nil, true, true)
	if err != nil {
		cbsig = -1
	}
	bits0 := e.bitsClass(t.Block.Header.Bits)
	mtp := e.Chain.BestSnapshot().MedianTime
	toff := func(ts time.Time) int64 {
		d := int64(ts.Sub(mtp) / time.Second)
		if d > 1000 {
			d = 1000
		}
		if d < -1000 {
			d = -1000
		}
		return d
	}
	toff0, toff1 := toff(t.Block.Header.Timestamp), int64(0)
	v1 := e.validateSolved(t.Block, t.Height)
	// UpdateBlockTime (after the clock moved) / UpdateExtraNonce on copies
	e.TS.Set(t1)
	m2 := t.Block.Copy()
	var v2, v3 error
	bits1 := "other"
	if err := g.UpdateBlockTime(m2); err != nil {
		v2 = err
	} else {
		bits1 = e.bitsClass(m2.Header.Bits)
		toff1 = toff(m2.Header.Timestamp)
		v2 = e.validateSolved(m2, t.Height)
	}
	m3 := t.Block.Copy()
	if err := g.UpdateExtraNonce(m3, t.Height, 0x1234567); err != nil {
		v3 = err
	} else {
		v3 = e.validateSolved(m3, t.Height)
		if bytes.Equal(m3.Transactions[0].TxIn[0].SignatureScript, t.Block.Transactions[0].TxIn[0].SignatureScript) {
			v3 = fmt.Errorf("UpdateExtraNonce did not change the coinbase script")
		}
	}
	desc := map[string]any{"variant": v, "policy": pol + 1, "bits": bits0, "bits_after_update": bits1, "time_minus_mtp": toff0, "time_minus_mtp_after_update": toff1, "coinbase_sigop_cost": cbsig, "selected": sel, "fees": t.Fees, "sigops": t.SigOpCosts, "coinbase_value": cbv, "weight": weight,
		"has_commitment": hasCommit, "commitment_ok": commitOK, "foreign_tx": foreign}
	for k, err := range map[string]error{"valid": v1, "valid_after_time": v2, "valid_after_nonce": v3} {
		if err != nil {
			desc[k] = err.Error()
		}
	}
	if selfTest == "tmpl-fee" && len(t.Fees) > 1 {
		t.Fees[1]++
	}
	rec := fmt.Sprintf("[var |-> %d, failed |-> FALSE, cbsig |-> %d, paid |-> %s, bits0 |-> %q, bits1 |-> %q, toff0 |-> %d, toff1 |-> %d, cbhi |-> %d, cblo |-> %d, sel |-> %s, fees |-> %s, sigops |-> %s, weight |-> %d, sigtotal |-> %d, hascommit |-> %s, commitok |-> %s, valid |-> %s, validtime |-> %s, validnonce |-> %s, height |-> %d]",
		vi+1, cbsig, b2s(paid), bits0, bits1, toff0, toff1, cbv/1000000, cbv%1000000, seqInts(sel), seqInts(t.Fees), seqInts(t.SigOpCosts), weight, sigtotal, b2s(hasCommit), b2s(commitOK), b2s(v1 == nil), b2s(v2 == nil), b2s(v3 == nil), t.Height)
	return rec, desc
}

// OnState is called by the walker the first time a spec state is reached with
// a matching real node.
func (tc *TemplateChecker) OnState(e *Env, n *tlc.Node, s *SpecState) error {
	for vi := range tc.setup.Variants {
		pol := tc.setup.Variants[vi].Pol
		rec, desc := tc.observe(e, vi)
		if f, _ := desc["foreign_tx"].(bool); f {
			tc.ctx.Violation("template:foreign-tx", fmt.Sprintf("universe %s: template contains a transaction that is not pooled: %v", tc.m.U.Name, desc),
				map[string]any{"universe": tc.m.U, "spec_state": n.State.Go(), "path": pathLabels(tc.m.G, n)})
			continue
		}
		tc.mu.Lock()
		tc.recs = append(tc.recs, tmplRecord{node: n, pol: pol, tla: rec, desc: desc})
		tc.mu.Unlock()
		tc.ctx.AddEval(1)
	}
	return nil
}

// OnDiverge takes templates in a pool state the specification does not reach (a
// submission was admitted that it refuses).  The records are judged with the
// observed pool: generation still has to succeed and produce a valid block.
func (tc *TemplateChecker) OnDiverge(e *Env, cur *tlc.Node, obs *Obs, path []string) {
	var ids []string
	var pooled []int
	for t := range obs.Pool {
		pooled = append(pooled, t)
	}
	sort.Ints(pooled)
	for _, t := range pooled {
		ids = append(ids, fmt.Sprint(t))
	}
	var os []string
	for _, t := range obs.Orphans {
		os = append(os, fmt.Sprint(t))
	}
	pool, orph := "{"+strings.Join(ids, ", ")+"}", "{"+strings.Join(os, ", ")+"}"
	tc.mu.Lock()
	seen := tc.diverged[pool+"|"+cur.ID]
	if tc.diverged == nil {
		tc.diverged = map[string]bool{}
	}
	tc.diverged[pool+"|"+cur.ID] = true
	tc.mu.Unlock()
	if seen {
		return
	}
	for vi := range tc.setup.Variants {
		rec, desc := tc.observe(e, vi)
		if f, _ := desc["foreign_tx"].(bool); f {
			continue
		}
		tc.mu.Lock()
		tc.recs = append(tc.recs, tmplRecord{node: cur, pol: tc.setup.Variants[vi].Pol, tla: rec, desc: desc, pool: pool, orph: orph, path: path})
		tc.mu.Unlock()
		tc.ctx.AddEval(1)
	}
}

// FullValidation submits the solved template of the current state to the node
// itself (used at the end of a path: the environment is discarded afterwards).
func (tc *TemplateChecker) FullValidation(e *Env) (string, error) {
	g := e.NewGenerator(tc.setup.Policies[0].real())
	t, err := g.NewBlockTemplate(nil)
	if err != nil {
		return "", nil // judged by the record of this state
	}
	cp := t.Block.Copy()
	solve(&cp.Header, e.C.Params)
	best := e.Chain.BestSnapshot()
	if err := e.Submit(btcutil.NewBlock(cp)); err != nil {
		return fmt.Sprintf("ProcessBlock rejected the solved template: %v", err), nil
	}
	after := e.Chain.BestSnapshot()
	if after.Height != best.Height+1 || after.Hash != cp.BlockHash() {
		return "the solved template did not become the new tip", nil
	}
	return "", nil
}

// Finish validates all records of the universe against Mining.tla.
func (tc *TemplateChecker) Finish() error {
	tc.mu.Lock()
	recs := tc.recs
	tc.mu.Unlock()
	if len(recs) == 0 {
		return nil
	}
	u, c := tc.m.U, tc.m.C
	mod := "TM_" + u.Name
	defs, cfgExtra := tc.setup.cfg(c)
	var sb strings.Builder
	sb.WriteString(defs)
	// identical (state projection, template) pairs are judged once
	uniq := map[string]int{}
	var order []string
	idx := make([]int, len(recs))
	for i, r := range recs {
		st := r.node.State
		pool, orph := domainSet(st["pool"]), st["orph"].String()
		if r.pool != "" {
			pool, orph = r.pool, r.orph
		}
		entry := fmt.Sprintf(" [r |-> %s, pool |-> %s, orph |-> %s, chain |-> %s, content |-> %s, stale |-> %s]",
			r.tla, pool, orph, st["chain"].String(), st["content"].String(), st["stale"].String())
		k, ok := uniq[entry]
		if !ok {
			k = len(order)
			uniq[entry] = k
			order = append(order, entry)
		}
		idx[i] = k
	}
	sb.WriteString("Recs == <<\n")
	sb.WriteString(strings.Join(order, ",\n"))
	sb.WriteString("\n>>\n")
	sb.WriteString("Verdicts == [i \\in 1..Len(Recs) |-> [f |-> TemplateFailures(Recs[i].r, Recs[i].pool, Recs[i].chain, Recs[i].content, Recs[i].stale),\n")
	sb.WriteString("                                     a |-> InAlgo(Recs[i].r, Recs[i].pool, Recs[i].orph, Recs[i].chain, Recs[i].content)]]\n")
	sb.WriteString("ASSUME PrintT(<<\"@TPL\", Verdicts>>)\nTStop == FALSE /\\ UNCHANGED vars\n")
	tlaText, cfgText := u.Module(mod, "Mining", c, sb.String(), cfgExtra+"INIT Init\nNEXT TStop\n")
	res, err := tlc.Run(tlc.Opts{SpecDir: tc.ctx.SpecDir("mempool"), Module: mod, CfgText: cfgText,
		Files: map[string][]byte{mod + ".tla": []byte(tlaText)}, Workers: 1, Timeout: 10 * time.Minute, Scratch: tc.ctx.Scratch, HeapGB: 4})
	if err != nil && (res == nil || !strings.Contains(res.Output, `"@TPL"`)) {
		return fmt.Errorf("universe %s: template validation: %w", u.Name, err)
	}
	i := strings.Index(res.Output, `<< "@TPL",`)
	if i < 0 {
		i = strings.Index(res.Output, `<<"@TPL",`)
	}
	if i < 0 {
		return fmt.Errorf("universe %s: no @TPL line in TLC output:\n%s", u.Name, tail(res.Output, 2000))
	}
	end := balancedTuple(res.Output[i:])
	if end < 0 {
		return fmt.Errorf("universe %s: unbalanced @TPL tuple", u.Name)
	}
	v, err := tla.ParseValue(res.Output[i : i+end])
	if err != nil {
		return err
	}
	verd := v.Seq()[1].Seq()
	if len(verd) != len(order) {
		return fmt.Errorf("universe %s: %d verdicts for %d distinct templates", u.Name, len(verd), len(order))
	}
	tc.ctx.AddTraces(int64(len(recs)))
	drift := 0
	for k, r := range recs {
		vd := verd[idx[k]]
		fails := vd.F("f").Strs()
		for _, f := range fails {
			pool, path := domainSet(r.node.State["pool"]), pathLabels(tc.m.G, r.node)
			if r.pool != "" {
				pool, path = r.pool+" (outside the specification: the last submission should have been refused)", r.path
			}
			tc.ctx.Violation("template:"+f, fmt.Sprintf("universe %s policy %d: template generated in pool state %s violates %q: %v", u.Name, r.pol+1, pool, f, r.desc),
				map[string]any{"universe": u, "policy": tc.setup.Policies[r.pol], "spec_state": r.node.State.Go(), "template": r.desc, "path": path})
		}
		if len(fails) == 0 && !vd.F("a").Bool() {
			drift++
			if drift <= 3 {
				fmt.Printf("MODEL-DRIFT property=%s universe %s policy %d: selection %v is not an outcome of the Mining.tla algorithm in pool state %s\n", tc.ctx.Prop, u.Name, r.pol+1, r.desc["selected"], domainSet(r.node.State["pool"]))
			}
		}
		sel, _ := r.desc["selected"].([]int64)
		tc.ctx.Distinct(fmt.Sprintf("%s|tpl|%d|%v", u.Name, r.pol, sel))
	}
	tc.ctx.AddExtra("templates", int64(len(recs)))
	tc.ctx.AddExtra("template_model_drift", int64(drift))
	return nil
}

func pathLabels(g *tlc.Graph, n *tlc.Node) []string {
	var out []string
	for _, st := range g.PathTo(n) {
		out = append(out, st.Action)
	}
	return out
}

func domainSet(v tla.Value) string {
	if v.Kind == tla.KSeq && len(v.Elems) == 0 {
		return "{}"
	}
	var p []string
	for _, k := range v.Domain() {
		p = append(p, k.String())
	}
	return "{" + strings.Join(p, ", ") + "}"
}

// balancedTuple returns the length of the <<...>> tuple at the start of s.
func balancedTuple(s string) int {
	depth := 0
	for j := 0; j < len(s); j++ {
		if strings.HasPrefix(s[j:], "<<") {
			depth++
			j++
		} else if strings.HasPrefix(s[j:], ">>") {
			depth--
			j++
			if depth == 0 {
				return j + 1
			}
		}
	}
	return -1
}

// RunC12 is the check for property C12.
func RunC12(ctx *vrun.Ctx) error { return runBoth(ctx, true) }
