package mempool

import (
	"fmt"
	"sort"
	"strings"

	"verif/harness/internal/tla"
	"verif/harness/internal/tlc"
)

// Result codes of Mempool.tla.
const (
	RAcc  = 1
	RMiss = 2
)

// mustReject lists the result codes for which the property statement itself
// (not only btcd's policy) demands that the transaction stays out of the pool:
// 11 malformed, 13 already confirmed, 14 immature / negative fee, 16 more than
// 100 evictions, 17 replacement spends what it evicts, 18 fee rate not higher,
// 19 absolute fee too low, 21 script failure.
var mustReject = map[int]string{11: "malformed", 13: "already-confirmed", 14: "bad-inputs", 16: "evicts-too-many",
	17: "spends-evicted", 18: "fee-rate", 19: "absolute-fee", 21: "script", 25: "non-final"}

// SpecState is the part of a Mempool.tla state the binder compares.
type SpecState struct {
	Chain   []int
	Content map[int][]int
	Pool    map[int]int // tx -> admission height
	SB      map[Outpoint]int
	Orph    []int
	Stale   []int
	Penny   int
	key     string
}

func fnInts(v tla.Value) map[int]int {
	m := map[int]int{}
	if v.Kind == tla.KSeq && len(v.Elems) == 0 {
		return m
	}
	for _, k := range v.Domain() {
		m[k.Int()] = v.Apply(k).Int()
	}
	return m
}

func opOf(v tla.Value) Outpoint { s := v.Seq(); return Outpoint{s[0].Int(), s[1].Int()} }

func sortedInts(v tla.Value) []int {
	x := v.Ints()
	sort.Ints(x)
	return x
}

func stateKey(get func(string) tla.Value) string {
	var sb strings.Builder
	for _, n := range []string{"chain", "content", "pool", "sb", "orph", "obp", "penny", "stale", "step"} {
		sb.WriteString(get(n).String())
		sb.WriteByte('|')
	}
	return sb.String()
}

func ParseSpecState(st tla.State) *SpecState {
	s := &SpecState{Content: map[int][]int{}, SB: map[Outpoint]int{}}
	s.Chain = st["chain"].Ints()
	for i, c := range st["content"].Seq() {
		s.Content[i+1] = c.Ints()
	}
	s.Pool = fnInts(st["pool"])
	sb := st["sb"]
	if !(sb.Kind == tla.KSeq && len(sb.Elems) == 0) {
		for _, k := range sb.Domain() {
			s.SB[opOf(k)] = sb.Apply(k).Int()
		}
	}
	s.Orph = sortedInts(st["orph"])
	s.Stale = sortedInts(st["stale"])
	s.Penny = st["penny"].Int()
	s.key = stateKey(func(n string) tla.Value { return st[n] })
	return s
}

// Exp is the result code table of one state.
type Exp struct {
	PT1, PT0, MA1, MA0 []int
	EV                 [][]int
}

// ParseExpOutput extracts the "<<424242, state, exp>>" lines TLC printed.
func ParseExpOutput(out string) (map[string]*Exp, error) {
	res := map[string]*Exp{}
	const marker = `"<<424242,`
	for _, line := range strings.Split(out, "\n") {
		line = strings.TrimSpace(line)
		if !strings.HasPrefix(line, marker) || !strings.HasSuffix(line, `"`) {
			continue
		}
		v, err := tla.ParseValue(line[1 : len(line)-1])
		if err != nil {
			return nil, fmt.Errorf("EmitExp line: %w", err)
		}
		el := v.Seq()
		rec, ex := el[1], el[2]
		key := stateKey(func(n string) tla.Value { return rec.F(n) })
		e := &Exp{PT1: ex.F("pt1").Ints(), PT0: ex.F("pt0").Ints(), MA1: ex.F("ma1").Ints(), MA0: ex.F("ma0").Ints()}
		for _, s := range ex.F("ev").Seq() {
			e.EV = append(e.EV, sortedInts(s))
		}
		res[key] = e
	}
	return res, nil
}

// Label is a parsed edge label "Name(arg, ...)".
type Label struct {
	Name string
	Args []tla.Value
	Raw  string
}

func ParseLabel(l string) (Label, error) {
	i := strings.IndexByte(l, '(')
	if i < 0 {
		return Label{Name: l, Raw: l}, nil
	}
	if !strings.HasSuffix(l, ")") {
		return Label{}, fmt.Errorf("bad label %q", l)
	}
	v, err := tla.ParseValue("<<" + l[i+1:len(l)-1] + ">>")
	if err != nil {
		return Label{}, fmt.Errorf("label %q: %w", l, err)
	}
	return Label{Name: l[:i], Args: v.Seq(), Raw: l}, nil
}

// Model is one explored universe: graph + decoded states + result tables.
type Model struct {
	U      *Universe
	C      *Concrete
	G      *tlc.Graph
	States map[*tlc.Node]*SpecState
	Exp    map[*tlc.Node]*Exp
	Labels map[string]Label
	// out-edges grouped by label, per node
	ByLabel   map[*tlc.Node]map[string][]int
	Distinct  int64
	Generated int64
	Mining    *MiningSetup
}

func BuildModel(u *Universe, c *Concrete, res *tlc.Result) (*Model, error) {
	m := &Model{U: u, C: c, G: res.Graph, States: map[*tlc.Node]*SpecState{}, Exp: map[*tlc.Node]*Exp{}, Labels: map[string]Label{},
		ByLabel: map[*tlc.Node]map[string][]int{}, Distinct: res.Distinct, Generated: res.Generated}
	exps, err := ParseExpOutput(res.Output)
	if err != nil {
		return nil, err
	}
	for _, n := range m.G.Order {
		s := ParseSpecState(n.State)
		m.States[n] = s
		e, ok := exps[s.key]
		if !ok {
			return nil, fmt.Errorf("universe %s: no @EXP record for a state (%d records, %d states)", u.Name, len(exps), len(m.G.Order))
		}
		if selfTest == "exp-code" && n.Init && len(e.PT1) > 0 {
			cp := *e
			cp.PT1 = append([]int(nil), e.PT1...)
			if cp.PT1[0] == RAcc {
				cp.PT1[0] = 21
			} else {
				cp.PT1[0] = RAcc
			}
			e = &cp
		}
		m.Exp[n] = e
		bl := map[string][]int{}
		for i, ed := range n.Out {
			bl[ed.Action] = append(bl[ed.Action], i)
			if _, ok := m.Labels[ed.Action]; !ok {
				l, err := ParseLabel(ed.Action)
				if err != nil {
					return nil, err
				}
				m.Labels[ed.Action] = l
			}
		}
		m.ByLabel[n] = bl
	}
	return m, nil
}
