package mempool

import (
	"errors"
	"fmt"
	"math/rand"
	"sort"
	"sync"

	"github.com/btcsuite/btcd/blockchain"
	"github.com/btcsuite/btcd/btcutil/v2"
	btcmempool "github.com/btcsuite/btcd/mempool"
	"github.com/btcsuite/btcd/wire/v2"

	"verif/harness/internal/tla"
	"verif/harness/internal/tlc"
	"verif/harness/internal/vrun"
)

// stepResult is what one real call returned, in abstract terms.
type stepResult struct {
	Class    int   // 0 none, 1 accepted, 2 missing parents / orphan, 3 rejected
	Accepted []int // ids returned as accepted
	Reject   wire.RejectCode
	HasCode  bool
	Err      string
	// CheckMempoolAcceptance details
	Conflicts []int
	Fee       int64
	VSize     int64
}

func classOf(code int) int {
	switch {
	case code == RAcc:
		return 1
	case code == RMiss:
		return 2
	case code >= 10:
		return 3
	}
	return 0
}

func (r *stepResult) setErr(err error) {
	r.Class = 3
	r.Err = err.Error()
	var re btcmempool.RuleError
	if errors.As(err, &re) {
		if code, _ := btcmempool.ErrToRejectErr(err); true {
			r.Reject, r.HasCode = code, true
		}
	}
}

// wantReject maps a spec reject code to the wire reject class btcd reports.
var wantReject = map[int]wire.RejectCode{
	10: wire.RejectDuplicate, 11: wire.RejectInvalid, 12: wire.RejectDuplicate, 13: wire.RejectDuplicate,
	14: wire.RejectInvalid, 15: wire.RejectInsufficientFee, 16: wire.RejectNonstandard, 17: wire.RejectInvalid,
	18: wire.RejectInsufficientFee, 19: wire.RejectInsufficientFee, 20: wire.RejectInvalid, 21: wire.RejectInvalid,
	22: wire.RejectDuplicate, 23: wire.RejectNonstandard, 24: wire.RejectNonstandard, 25: wire.RejectNonstandard,
}

func idsOfDescs(c *Concrete, ds []*btcmempool.TxDesc) []int {
	var out []int
	for _, d := range ds {
		if d == nil {
			out = append(out, -1)
			continue
		}
		if t, ok := c.ByHash[*d.Tx.Hash()]; ok {
			out = append(out, t)
		} else {
			out = append(out, -1)
		}
	}
	return out
}

func bodyOf(v tla.Value) []int { b := v.Ints(); sort.Ints(b); return b }

// Exec performs the real calls of one abstract action.
func (e *Env) Exec(l Label, curChain []int) (*stepResult, error) {
	c := e.C
	r := &stepResult{}
	txArg := func() (*btcutil.Tx, int) {
		t := l.Args[0].Int()
		// a fresh btcutil.Tx per call: the pool must not depend on pointer identity
		return btcutil.NewTx(c.Txs[t-1].MsgTx()), t
	}
	switch l.Name {
	case "ProcessTx":
		tx, _ := txArg()
		acc, err := e.Pool.ProcessTransaction(tx, l.Args[1].Bool(), true, btcmempool.Tag(1))
		switch {
		case err != nil:
			r.setErr(err)
		case len(acc) == 0:
			r.Class = 2
		default:
			r.Class = 1
			r.Accepted = idsOfDescs(c, acc)
		}
	case "MaybeAcceptTx":
		tx, _ := txArg()
		nl := l.Args[1].Bool()
		missing, txD, err := e.Pool.MaybeAcceptTransaction(tx, nl, nl)
		switch {
		case err != nil:
			r.setErr(err)
		case len(missing) > 0:
			r.Class = 2
		case txD != nil:
			r.Class = 1
			r.Accepted = idsOfDescs(c, []*btcmempool.TxDesc{txD})
		default:
			return nil, fmt.Errorf("MaybeAcceptTransaction returned nothing")
		}
	case "CheckAccept":
		tx, _ := txArg()
		res, err := e.Pool.CheckMempoolAcceptance(tx)
		switch {
		case err != nil:
			r.setErr(err)
		case len(res.MissingParents) > 0:
			r.Class = 2
		default:
			r.Class = 1
			r.Fee, r.VSize = int64(res.TxFee), res.TxSize
			for h := range res.Conflicts {
				if t, ok := c.ByHash[h]; ok {
					r.Conflicts = append(r.Conflicts, t)
				} else {
					r.Conflicts = append(r.Conflicts, -1)
				}
			}
			sort.Ints(r.Conflicts)
		}
	case "RemoveTx":
		tx, _ := txArg()
		e.Pool.RemoveTransaction(tx, l.Args[1].Bool())
	case "RemoveDoubleSpends":
		tx, _ := txArg()
		e.Pool.RemoveDoubleSpends(tx)
	case "RemoveOrphanTx":
		tx, _ := txArg()
		e.Pool.RemoveOrphan(tx)
	case "ProcessOrphansOf":
		tx, _ := txArg()
		r.Accepted = idsOfDescs(c, e.Pool.ProcessOrphans(tx))
	case "Mine":
		blk, err := e.BuildSlot(l.Args[0].Int(), bodyOf(l.Args[1]))
		if err != nil {
			return nil, err
		}
		if err := e.Submit(blk); err != nil {
			return nil, fmt.Errorf("Mine %s: %w", l.Raw, err)
		}
	case "Reorg":
		a := l.Args[0].Seq()
		nc := a[0].Ints()
		bodies := a[1].Seq()
		k := 0
		for k < len(nc) && k < len(curChain) && nc[k] == curChain[k] {
			k++
		}
		for i := k; i < len(nc); i++ {
			blk, err := e.BuildSlot(nc[i], bodyOf(bodies[i-k]))
			if err != nil {
				return nil, err
			}
			if err := e.Submit(blk); err != nil {
				return nil, fmt.Errorf("Reorg %s block %d: %w", l.Raw, nc[i], err)
			}
		}
	default:
		return nil, fmt.Errorf("unknown action %q", l.Name)
	}
	return r, nil
}

func eqInts(a, b []int) bool {
	if len(a) != len(b) {
		return false
	}
	for i := range a {
		if a[i] != b[i] {
			return false
		}
	}
	return true
}

// Matches compares the observable projection with a spec state; the second
// result names the first difference.
func (o *Obs) Matches(s *SpecState) (bool, string) {
	if len(o.Foreign) > 0 {
		return false, "foreign transaction in pool"
	}
	if !eqInts(o.TipSlots, s.Chain) {
		return false, fmt.Sprintf("chain %v vs spec %v", o.TipSlots, s.Chain)
	}
	if len(o.Pool) != len(s.Pool) {
		return false, fmt.Sprintf("pool %v vs spec %v", o.Pool, s.Pool)
	}
	for t, h := range s.Pool {
		rh, ok := o.Pool[t]
		if !ok || int(rh) != h {
			return false, fmt.Sprintf("pool %v vs spec %v", o.Pool, s.Pool)
		}
	}
	if o.Count != len(s.Pool) {
		return false, fmt.Sprintf("Count %d vs spec %d", o.Count, len(s.Pool))
	}
	if len(o.Spent) != len(s.SB) {
		return false, fmt.Sprintf("CheckSpend %v vs spec %v", o.Spent, s.SB)
	}
	for op, t := range s.SB {
		if o.Spent[op] != t {
			return false, fmt.Sprintf("CheckSpend %v vs spec %v", o.Spent, s.SB)
		}
	}
	if !eqInts(o.Orphans, s.Orph) {
		return false, fmt.Sprintf("orphans %v vs spec %v", o.Orphans, s.Orph)
	}
	return true, ""
}

type finding struct{ key, what string }

// Monitor evaluates the clauses of C10 directly on the observed node.
// staleSpec is the specification's prediction of the transactions left behind
// by the known disconnect defect (nil when the spec state is unknown).
func (e *Env) Monitor(prev, o *Obs, l Label, r *stepResult, staleSpec []int, specKnown bool) []finding {
	c, u := e.C, e.C.U
	var fs []finding
	add := func(k, f string, a ...any) { fs = append(fs, finding{k, fmt.Sprintf(f, a...)}) }
	if len(o.Foreign) > 0 {
		add("foreign-tx", "pool holds transactions nobody submitted: %v", o.Foreign)
		return fs
	}
	ids := make([]int, 0, len(o.Pool))
	for t := range o.Pool {
		ids = append(ids, t)
	}
	sort.Ints(ids)
	// NoConflict + IndexAgrees
	inv := map[Outpoint]int{}
	for _, t := range ids {
		for _, in := range u.Txs[t-1].Ins {
			if other, dup := inv[in]; dup {
				add("no-conflict", "pooled transactions %d and %d both spend %v", other, t, in)
			}
			inv[in] = t
		}
	}
	for op, t := range inv {
		if o.Spent[op] != t {
			add("index-agrees", "CheckSpend(%v) = %d but pooled transaction %d spends it", op, o.Spent[op], t)
		}
	}
	for op, t := range o.Spent {
		if inv[op] != t {
			add("index-agrees", "CheckSpend(%v) = %d but no such pooled spender (pool %v)", op, t, ids)
		}
	}
	if o.Count != len(o.Pool) {
		add("index-agrees", "Count() = %d but TxDescs has %d entries", o.Count, len(o.Pool))
	}
	for _, t := range ids {
		if o.Fee[t] != u.Txs[t-1].Fee || o.FeePerKB[t] != u.Txs[t-1].Fee*1000/int64(c.VSize[t-1]) {
			add("fee-accounting", "TxDesc of %d reports fee %d / %d per kB, transaction pays %d for %d vbytes", t, o.Fee[t], o.FeePerKB[t], u.Txs[t-1].Fee, c.VSize[t-1])
		}
	}
	// InputsAvailable
	var offenders []int
	for _, t := range ids {
		for _, in := range u.Txs[t-1].Ins {
			if _, pooled := o.Pool[in.Src]; in.Src > 0 && pooled {
				continue
			}
			if !e.ChainHas(in) {
				offenders = append(offenders, t)
				break
			}
		}
	}
	if len(offenders) > 0 {
		add("inputs-available", "after %s pooled transaction(s) %v spend outputs that exist neither in the chain nor in the pool (spec predicts %v)", l.Raw, offenders, staleSpec)
	}
	// OrphanBounds
	maxO := u.MaxOrphans
	if maxO < 0 {
		maxO = 0
	}
	if len(o.Orphans) > maxO {
		add("orphan-bounds", "%d orphans stored, MaxOrphanTxs = %d", len(o.Orphans), u.MaxOrphans)
	}
	for _, t := range o.Orphans {
		if c.Size[t-1] > u.MaxOrphanSize {
			add("orphan-bounds", "orphan %d of %d bytes stored, MaxOrphanTxSize = %d", t, c.Size[t-1], u.MaxOrphanSize)
		}
		if _, pooled := o.Pool[t]; pooled {
			add("orphan-bounds", "transaction %d is both pooled and an orphan", t)
		}
	}
	// Minable: heights never move backwards at quiescent points of these histories
	if len(offenders) == 0 && len(fs) == 0 {
		guard := true
		for _, h := range o.Pool {
			if h > o.Height {
				guard = false
			}
		}
		if guard {
			if err := e.Chain.CheckConnectBlockTemplate(e.PoolBlock(ids)); err != nil && !capacityError(err) {
				add("minable", "pool %v in dependency order is not a valid next block: %v", ids, err)
			}
		}
	}
	// action properties
	if prev != nil && r != nil {
		changed := func() bool {
			if len(prev.Pool) != len(o.Pool) || len(prev.Spent) != len(o.Spent) || !eqInts(prev.Orphans, o.Orphans) {
				return true
			}
			for t := range prev.Pool {
				if _, ok := o.Pool[t]; !ok {
					return true
				}
			}
			for op, t := range prev.Spent {
				if o.Spent[op] != t {
					return true
				}
			}
			return false
		}
		submission := l.Name == "ProcessTx" || l.Name == "MaybeAcceptTx" || l.Name == "CheckAccept"
		if submission && (r.Class == 3 || l.Name == "CheckAccept") && changed() {
			add("rejected-unchanged", "%s was rejected / a dry run (%s) but changed the pool: %v -> %v", l.Raw, r.Err, prev.Pool, o.Pool)
		}
		if (l.Name == "MaybeAcceptTx" || (l.Name == "ProcessTx" && len(r.Accepted) == 1)) && r.Class == 1 {
			t := l.Args[0].Int()
			var ev []int
			for x := range prev.Pool {
				if _, still := o.Pool[x]; !still {
					ev = append(ev, x)
				}
			}
			sort.Ints(ev)
			want := conflictClosure(u, prev, t)
			if !eqInts(ev, want) {
				add("replacement:evicted-set", "%s evicted %v, its conflicts and their descendants are %v", l.Raw, ev, want)
			}
			if len(ev) > u.MaxEvict {
				add("replacement:too-many", "%s evicted %d transactions", l.Raw, len(ev))
			}
			if len(ev) > 0 {
				sum := int64(0)
				rate := u.Txs[t-1].Fee * 1000 / int64(c.VSize[t-1])
				for _, x := range ev {
					sum += u.Txs[x-1].Fee
					if xr := u.Txs[x-1].Fee * 1000 / int64(c.VSize[x-1]); rate <= xr {
						add("replacement:fee-rate", "%s accepted with fee rate %d, evicted %d has %d", l.Raw, rate, x, xr)
					}
				}
				relay := int64(c.VSize[t-1]) * u.MinRelayFee / 1000
				if u.Txs[t-1].Fee < sum+relay {
					add("replacement:absolute-fee", "%s accepted paying %d, evicted transactions paid %d and its own relay fee is %d", l.Raw, u.Txs[t-1].Fee, sum, relay)
				}
			}
		}
	}
	return fs
}

// capacityError: the pool as a whole does not fit into one block (the property
// is about validity, not about capacity).
func capacityError(err error) bool {
	var re blockchain.RuleError
	if errors.As(err, &re) {
		switch re.ErrorCode {
		case blockchain.ErrTooManySigOps, blockchain.ErrBlockWeightTooHigh, blockchain.ErrBlockTooBig:
			return true
		}
	}
	return false
}

// conflictClosure: pooled transactions sharing an input with t, plus their
// pooled descendants (property-level definition over the observed pool).
func conflictClosure(u *Universe, o *Obs, t int) []int {
	set := map[int]bool{}
	var visit func(x int)
	visit = func(x int) {
		if set[x] {
			return
		}
		set[x] = true
		for y := range o.Pool {
			for _, in := range u.Txs[y-1].Ins {
				if in.Src == x {
					visit(y)
				}
			}
		}
	}
	mine := map[Outpoint]bool{}
	for _, in := range u.Txs[t-1].Ins {
		mine[in] = true
	}
	for x := range o.Pool {
		if x == t {
			continue
		}
		for _, in := range u.Txs[x-1].Ins {
			if mine[in] {
				visit(x)
			}
		}
	}
	var out []int
	for x := range set {
		out = append(out, x)
	}
	sort.Ints(out)
	return out
}

// Walker replays paths of one model into fresh nodes until every edge of the
// state graph has been taken (or the budget is exhausted).
type Walker struct {
	M   *Model
	Ctx *vrun.Ctx
	// OnState, when set, is called once per distinct spec state reached with a
	// matching real node (C12 hooks in here).
	OnState func(e *Env, n *tlc.Node, s *SpecState) error
	// Monitors switches the C10 clause monitors on (C12 only follows the specification).
	Monitors bool
	// OnPathEnd, when set, is called with the node at the end of every path that stayed on the specification.
	OnPathEnd func(e *Env)
	// OnDiverge, when set, is called when a submission was admitted that the specification
	// refuses: the node is then in a pool state outside the state graph (cur is the last
	// state it matched, trace the path so far).
	OnDiverge func(e *Env, cur *tlc.Node, obs *Obs, path []string)
	MaxLen    int

	mu       sync.Mutex
	covered  map[*tlc.Node][]bool
	attempts map[*tlc.Node]map[string]int
	visited  map[*tlc.Node]bool
	inflight map[*tlc.Node]bool
	dead     map[*tlc.Node]bool // targets given up: could not be reached / left the specification
	tries    map[*tlc.Node]int
	nCovered int
	nEdges   int
	next     int // index into G.Order of the next node that may have uncovered edges
	Steps    int64
	Paths    int64
	Drift    int64
	drifts   []string
	// SamplePath is one replayed path written out (evidence sample)
	SamplePath []string
	errs       []error
}

func NewWalker(m *Model, ctx *vrun.Ctx) *Walker {
	w := &Walker{M: m, Ctx: ctx, covered: map[*tlc.Node][]bool{}, attempts: map[*tlc.Node]map[string]int{}, visited: map[*tlc.Node]bool{}, inflight: map[*tlc.Node]bool{}, dead: map[*tlc.Node]bool{}, tries: map[*tlc.Node]int{}, MaxLen: 2000}
	for _, n := range m.G.Order {
		w.covered[n] = make([]bool, len(n.Out))
		w.attempts[n] = map[string]int{}
		w.nEdges += len(n.Out)
	}
	return w
}

const maxAttempts = 3

// pickLabel chooses a label of n that still has an uncovered edge.
func (w *Walker) pickLabel(n *tlc.Node, rng *rand.Rand) string {
	w.mu.Lock()
	defer w.mu.Unlock()
	var cand []string
	for lab, idxs := range w.M.ByLabel[n] {
		if w.attempts[n][lab] >= maxAttempts {
			continue
		}
		for _, i := range idxs {
			if !w.covered[n][i] {
				cand = append(cand, lab)
				break
			}
		}
	}
	if len(cand) == 0 {
		return ""
	}
	sort.Strings(cand)
	lab := cand[rng.Intn(len(cand))]
	w.attempts[n][lab]++
	return lab
}

// nextTarget returns a node with an uncovered edge, in BFS order, preferring
// nodes no other worker is heading for.
func (w *Walker) nextTarget() *tlc.Node {
	w.mu.Lock()
	defer w.mu.Unlock()
	eligible := func(n *tlc.Node) bool {
		if w.dead[n] {
			return false
		}
		for lab, idxs := range w.M.ByLabel[n] {
			if w.attempts[n][lab] >= maxAttempts {
				continue
			}
			for _, i := range idxs {
				if !w.covered[n][i] {
					return true
				}
			}
		}
		return false
	}
	for w.next < len(w.M.G.Order) && !eligible(w.M.G.Order[w.next]) {
		w.next++
	}
	var busy *tlc.Node
	for i := w.next; i < len(w.M.G.Order); i++ {
		n := w.M.G.Order[i]
		if !eligible(n) {
			continue
		}
		if w.inflight[n] {
			if busy == nil {
				busy = n
			}
			continue
		}
		w.inflight[n] = true
		return n
	}
	return busy
}

// noProgress records that a path sent to n covered nothing new; after two such
// paths the target is given up (it cannot be reached on the real node, or its
// remaining edges depend on choices the real node does not make).
func (w *Walker) noProgress(n *tlc.Node) {
	w.mu.Lock()
	w.tries[n]++
	if w.tries[n] >= 2 {
		w.dead[n] = true
	}
	w.mu.Unlock()
}

func (w *Walker) release(n *tlc.Node) {
	w.mu.Lock()
	delete(w.inflight, n)
	w.mu.Unlock()
}

// detour returns the labels of a shortest path (at most maxDepth steps) from n
// to a state with an uncovered edge.
func (w *Walker) detour(n *tlc.Node, maxDepth int) []string {
	w.mu.Lock()
	defer w.mu.Unlock()
	eligible := func(x *tlc.Node) bool {
		for lab, idxs := range w.M.ByLabel[x] {
			if w.attempts[x][lab] >= maxAttempts {
				continue
			}
			for _, i := range idxs {
				if !w.covered[x][i] {
					return true
				}
			}
		}
		return false
	}
	type item struct {
		n    *tlc.Node
		path []string
	}
	seen := map[*tlc.Node]bool{n: true}
	q := []item{{n, nil}}
	for len(q) > 0 {
		it := q[0]
		q = q[1:]
		if len(it.path) >= maxDepth {
			continue
		}
		for _, e := range it.n.Out {
			if seen[e.To] {
				continue
			}
			seen[e.To] = true
			p := append(append([]string(nil), it.path...), e.Action)
			if eligible(e.To) {
				return p
			}
			q = append(q, item{e.To, p})
		}
	}
	return nil
}

func (w *Walker) markCovered(n *tlc.Node, i int) {
	w.mu.Lock()
	if !w.covered[n][i] {
		w.covered[n][i] = true
		w.nCovered++
	}
	w.mu.Unlock()
}

func (w *Walker) coveredNow() int {
	w.mu.Lock()
	defer w.mu.Unlock()
	return w.nCovered
}

func (w *Walker) firstVisit(n *tlc.Node) bool {
	w.mu.Lock()
	defer w.mu.Unlock()
	if w.visited[n] {
		return false
	}
	w.visited[n] = true
	return true
}

func (w *Walker) Coverage() (covered, edges int) {
	w.mu.Lock()
	defer w.mu.Unlock()
	return w.nCovered, w.nEdges
}

type traceStep struct {
	Action string `json:"action"`
	Result string `json:"result,omitempty"`
	Spec   any    `json:"spec_state,omitempty"`
	Real   any    `json:"real,omitempty"`
}

func obsJSON(o *Obs) map[string]any {
	sp := map[string]int{}
	for op, t := range o.Spent {
		sp[op.TLA()] = t
	}
	return map[string]any{"pool": o.Pool, "spent": sp, "orphans": o.Orphans, "chain": o.TipSlots, "count": o.Count}
}

// RunPath replays one path: the shortest path to target, then greedily through
// uncovered edges.  Returns an infrastructure error only.
func (w *Walker) RunPath(target *tlc.Node, rng *rand.Rand) error {
	m := w.M
	env, err := NewEnv(m.C, true)
	if err != nil {
		return err
	}
	defer env.Close()
	w.mu.Lock()
	w.Paths++
	w.mu.Unlock()
	w.Ctx.AddTraces(1)

	var plan []string
	cur := m.G.Init[0]
	if target != nil {
		for _, st := range m.G.PathTo(target) {
			plan = append(plan, st.Action)
		}
	}
	var trace []traceStep
	prev := env.Observe()
	if ok, why := prev.Matches(m.States[cur]); !ok {
		return fmt.Errorf("universe %s: fresh node does not match the initial state: %s", m.U.Name, why)
	}
	if w.OnState != nil && w.firstVisit(cur) {
		if err := w.OnState(env, cur, m.States[cur]); err != nil {
			return err
		}
	}
	report := func(fs []finding) {
		for _, f := range fs {
			w.Ctx.Violation(f.key, fmt.Sprintf("universe %s: %s", m.U.Name, f.what), map[string]any{"universe": m.U, "trace": trace})
		}
	}
	for step := 0; step < w.MaxLen; step++ {
		lab := ""
		if len(plan) > 0 {
			lab, plan = plan[0], plan[1:]
			if _, ok := m.ByLabel[cur][lab]; !ok {
				// a nondeterministic outcome took us off the planned path
				lab, plan = "", nil
			}
		}
		if lab == "" {
			lab = w.pickLabel(cur, rng)
			if lab == "" {
				// nothing left here: walk to the nearest state that still has uncovered edges
				detour := w.detour(cur, 64)
				if len(detour) == 0 {
					break
				}
				lab, plan = detour[0], detour[1:]
			}
		}
		l := m.Labels[lab]
		cs := m.States[cur]
		res, err := env.Exec(l, cs.Chain)
		if err != nil {
			return fmt.Errorf("universe %s: %w", m.U.Name, err)
		}
		obs := env.Observe()
		w.mu.Lock()
		w.Steps++
		w.mu.Unlock()
		w.Ctx.AddEval(1)
		ts := traceStep{Action: lab, Real: obsJSON(obs)}
		if res.Class != 0 {
			ts.Result = fmt.Sprintf("class=%d accepted=%v err=%q", res.Class, res.Accepted, res.Err)
		}
		// which successor does the real node correspond to?
		var match *tlc.Node
		matchIdx := -1
		why := ""
		for _, i := range m.ByLabel[cur][lab] {
			to := cur.Out[i].To
			ok, d := obs.Matches(m.States[to])
			if ok {
				match, matchIdx = to, i
				break
			}
			why = d
		}
		// expected result code from the spec
		code := 0
		ex := m.Exp[cur]
		switch l.Name {
		case "ProcessTx":
			if l.Args[1].Bool() {
				code = ex.PT1[l.Args[0].Int()-1]
			} else {
				code = ex.PT0[l.Args[0].Int()-1]
			}
		case "MaybeAcceptTx":
			if l.Args[1].Bool() {
				code = ex.MA1[l.Args[0].Int()-1]
			} else {
				code = ex.MA0[l.Args[0].Int()-1]
			}
		case "CheckAccept":
			code = ex.MA1[l.Args[0].Int()-1]
		}
		classOK := code == 0 || classOf(code) == res.Class
		var stale []int
		if match != nil {
			stale = m.States[match].Stale
			ts.Spec = match.State.Go()
		}
		trace = append(trace, ts)
		var fs []finding
		if w.Monitors {
			fs = env.Monitor(prev, obs, l, res, stale, match != nil)
		}
		if w.Monitors && !classOK && res.Class == 1 {
			if name, must := mustReject[code]; must {
				fs = append(fs, finding{"accepted-forbidden:" + name, fmt.Sprintf("%s was accepted; the specification rejects it (code %d: %s)", lab, code, name)})
			}
		}
		report(fs)
		if match == nil || !classOK {
			// the real node left the specification: model drift unless a clause was violated
			if len(fs) == 0 {
				w.noteDrift(fmt.Sprintf("universe %s after %s: result class %d (spec code %d); %s", m.U.Name, lab, res.Class, code, why))
			}
			if w.OnDiverge != nil && res.Class == 1 && (l.Name == "ProcessTx" || l.Name == "MaybeAcceptTx") {
				var path []string
				for _, t := range trace {
					path = append(path, t.Action)
				}
				w.OnDiverge(env, cur, obs, path)
			}
			return nil
		}
		// drift-level detail: reject class and dry-run details
		if res.Class == 3 && res.HasCode && wantReject[code] != res.Reject {
			w.noteDrift(fmt.Sprintf("universe %s: %s rejected with %v, spec code %d expects %v (%s)", m.U.Name, lab, res.Reject, code, wantReject[code], res.Err))
		}
		if l.Name == "CheckAccept" && res.Class == 1 {
			t := l.Args[0].Int()
			want := ex.EV[t-1]
			if !eqInts(res.Conflicts, want) || res.Fee != m.U.Txs[t-1].Fee || int(res.VSize) != m.C.VSize[t-1] {
				w.noteDrift(fmt.Sprintf("universe %s: %s reports conflicts %v fee %d size %d, spec: %v %d %d", m.U.Name, lab, res.Conflicts, res.Fee, res.VSize, want, m.U.Txs[t-1].Fee, m.C.VSize[t-1]))
			}
		}
		if res.Class == 1 && l.Name == "ProcessTx" {
			// accepted list = the transaction followed by the promoted orphans = pool additions
			var added []int
			for t := range m.States[match].Pool {
				if _, was := cs.Pool[t]; !was {
					added = append(added, t)
				}
			}
			got := append([]int(nil), res.Accepted...)
			sort.Ints(got)
			sort.Ints(added)
			// promoted orphans may be evicted again by a later promotion; the list is a superset
			if len(got) < len(added) || res.Accepted[0] != l.Args[0].Int() {
				w.noteDrift(fmt.Sprintf("universe %s: %s returned %v, pool gained %v", m.U.Name, lab, res.Accepted, added))
			}
		}
		w.markCovered(cur, matchIdx)
		w.Ctx.Distinct(m.U.Name + "|" + lab + "|" + fmt.Sprint(code))
		cur = match
		prev = obs
		if w.OnState != nil && w.firstVisit(cur) {
			if err := w.OnState(env, cur, m.States[cur]); err != nil {
				return err
			}
		}
	}
	if w.OnPathEnd != nil {
		w.OnPathEnd(env)
	}
	w.mu.Lock()
	if len(trace) >= 6 && len(trace) > len(w.SamplePath) && len(w.SamplePath) < 12 {
		w.SamplePath = nil
		for i, ts := range trace {
			if i >= 30 {
				break
			}
			w.SamplePath = append(w.SamplePath, ts.Action+" -> "+ts.Result)
		}
	}
	w.mu.Unlock()
	return nil
}

func (w *Walker) noteDrift(s string) {
	w.mu.Lock()
	w.Drift++
	if len(w.drifts) < 10 {
		w.drifts = append(w.drifts, s)
	}
	w.mu.Unlock()
}

// Run covers the graph with `workers` concurrent replayers; maxPaths <= 0
// means until every edge is covered.
func (w *Walker) Run(workers, maxPaths int, seedLabel string) error {
	var wg sync.WaitGroup
	var emu sync.Mutex
	var firstErr error
	started := 0
	for k := 0; k < workers; k++ {
		wg.Add(1)
		go func(k int) {
			defer wg.Done()
			rng := w.Ctx.Rand(fmt.Sprintf("%s/%s/%d", seedLabel, w.M.U.Name, k))
			for {
				emu.Lock()
				if firstErr != nil || (maxPaths > 0 && started >= maxPaths) {
					emu.Unlock()
					return
				}
				started++
				emu.Unlock()
				t := w.nextTarget()
				if t == nil {
					return
				}
				before := w.coveredNow()
				err := w.RunPath(t, rng)
				if w.coveredNow() == before {
					w.noProgress(t)
				}
				w.release(t)
				if err != nil {
					emu.Lock()
					if firstErr == nil {
						firstErr = err
					}
					emu.Unlock()
					return
				}
			}
		}(k)
	}
	wg.Wait()
	return firstErr
}
