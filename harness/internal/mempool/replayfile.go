package mempool

import (
	"encoding/json"
	"fmt"
	"os"

	"verif/harness/internal/vrun"
)

// --replay <file>: re-run the history recorded in a VIOLATION replay file on a
// fresh node.  The universe of the file is explored again with TLC, the recorded
// actions are stepped through the real code and the specification side by
// side, and the same clauses are evaluated.
type replayDoc struct {
	Key    string `json:"key"`
	What   string `json:"what"`
	Replay struct {
		Universe *Universe        `json:"universe"`
		Trace    []traceStep      `json:"trace"`
		Path     []string         `json:"path"`
		Prefix   []string         `json:"sequential_prefix"`
		Policy   *MiningPolicy    `json:"policy"`
		History  []map[string]any `json:"concurrent_history"`
	} `json:"replay"`
}

func runReplayFile(ctx *vrun.Ctx, mining bool) error {
	b, err := os.ReadFile(ctx.Replay)
	if err != nil {
		return err
	}
	var doc replayDoc
	if err := json.Unmarshal(b, &doc); err != nil {
		return fmt.Errorf("%s: %w", ctx.Replay, err)
	}
	u := doc.Replay.Universe
	if u == nil {
		return fmt.Errorf("%s: no universe recorded (race reports are reproduced by the thorough tier itself)", ctx.Replay)
	}
	m, _, err := Explore(ctx, u, false, mining)
	if err != nil {
		return err
	}
	var labels []string
	for _, s := range doc.Replay.Trace {
		labels = append(labels, s.Action)
	}
	labels = append(labels, doc.Replay.Path...)
	labels = append(labels, doc.Replay.Prefix...)
	fmt.Printf("replaying %d recorded steps of universe %s (recorded finding: %s)\n", len(labels), u.Name, doc.Key)
	env, err := NewEnv(m.C, true)
	if err != nil {
		return err
	}
	defer env.Close()
	w := NewWalker(m, ctx)
	cur := m.G.Init[0]
	prev := env.Observe()
	for _, lab := range labels {
		l, ok := m.Labels[lab]
		if !ok {
			if l, err = ParseLabel(lab); err != nil {
				return err
			}
		}
		var chain []int
		if cur != nil {
			chain = m.States[cur].Chain
		} else {
			chain = prev.TipSlots
		}
		res, err := env.Exec(l, chain)
		if err != nil {
			return err
		}
		obs := env.Observe()
		var stale []int
		known := false
		if cur != nil {
			next := cur
			found := false
			for _, i := range m.ByLabel[cur][lab] {
				if ok, _ := obs.Matches(m.States[cur.Out[i].To]); ok {
					next, found = cur.Out[i].To, true
					break
				}
			}
			if found {
				cur, stale, known = next, m.States[next].Stale, true
			} else {
				fmt.Printf("  after %s the node no longer matches any successor state of the specification\n", lab)
				cur = nil
			}
		}
		fmt.Printf("  %-40s class=%d pool=%v orphans=%v chain=%v\n", lab, res.Class, obs.Pool, obs.Orphans, obs.TipSlots)
		if !mining {
			for _, f := range env.Monitor(prev, obs, l, res, stale, known) {
				ctx.Violation(f.key, fmt.Sprintf("universe %s: %s", u.Name, f.what), map[string]any{"universe": u, "path": labels})
			}
		}
		prev = obs
	}
	if mining && cur != nil {
		tc := NewTemplateChecker(ctx, m, m.Mining)
		if err := tc.OnState(env, cur, m.States[cur]); err != nil {
			return err
		}
		return tc.Finish()
	}
	if len(doc.Replay.History) > 0 && cur != nil {
		fmt.Println("  re-running concurrent histories from this state")
		rng := ctx.Rand("replay-concurrent")
		for i := 0; i < 50; i++ {
			if err := w.RunConcurrent(cur, rng, 3, 3); err != nil {
				return err
			}
		}
	}
	return nil
}
