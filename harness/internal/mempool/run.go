package mempool

import (
	"fmt"
	"os"
	"path/filepath"
	"sort"
	"strings"
	"sync"
	"time"

	"verif/harness/internal/tlc"
	"verif/harness/internal/vrun"
)

const mempoolCfgTail = "INIT Init\nNEXT Next\nINVARIANT Inv\nINVARIANT EmitExp\n"

// Explore runs TLC on one universe (exhaustive, graph dump, result tables).
func Explore(ctx *vrun.Ctx, u *Universe, coverage bool) (*Model, *tlc.Result, error) {
	c, err := BuildConcrete(u)
	if err != nil {
		return nil, nil, err
	}
	mod := "U_" + u.Name
	tlaText, cfgText := u.Module(mod, "Mempool", c, mempoolCfgTail)
	res, err := tlc.Run(tlc.Opts{SpecDir: ctx.SpecDir("mempool"), Module: mod, CfgText: cfgText,
		Files: map[string][]byte{mod + ".tla": []byte(tlaText)}, Workers: 3, Timeout: 20 * time.Minute,
		DumpGraph: true, Coverage: coverage, Scratch: ctx.Scratch, HeapGB: 4})
	if err != nil {
		return nil, res, fmt.Errorf("universe %s: %w", u.Name, err)
	}
	if !res.OK {
		return nil, res, fmt.Errorf("universe %s: the specification itself violates %s %s (not a verdict about the code):\n%s", u.Name, res.ErrKind, res.ErrName, tail(res.Output, 3000))
	}
	m, err := BuildModel(u, c, res)
	if err != nil {
		return nil, res, err
	}
	return m, res, nil
}

func tail(s string, n int) string {
	if len(s) > n {
		return s[len(s)-n:]
	}
	return s
}

// universesFor returns the universes of a tier: the built-in shapes plus
// seed-generated ones.
func universesFor(ctx *vrun.Ctx) []*Universe {
	us := BuiltinUniverses()
	n := 2
	if ctx.Thorough {
		n = 10
	}
	rng := ctx.Rand("universes")
	for i := 0; i < n; i++ {
		us = append(us, RandomUniverse(rng, fmt.Sprintf("rand%d_%d", ctx.Seed, i)))
	}
	return us
}

type exploreResult struct {
	m   *Model
	res *tlc.Result
	err error
}

// exploreAll runs TLC for all universes, a few at a time.
func exploreAll(ctx *vrun.Ctx, us []*Universe, coverage bool) ([]*Model, error) {
	out := make([]exploreResult, len(us))
	sem := make(chan struct{}, 2)
	var wg sync.WaitGroup
	for i, u := range us {
		wg.Add(1)
		go func(i int, u *Universe) {
			defer wg.Done()
			sem <- struct{}{}
			defer func() { <-sem }()
			t0 := time.Now()
			m, res, err := Explore(ctx, u, coverage)
			out[i] = exploreResult{m, res, err}
			if err == nil {
				ctx.Logf("TLC universe %s: %d distinct states, %d transitions, %d edges, %.1fs", u.Name, res.Distinct, res.Generated, m.G.Edges, time.Since(t0).Seconds())
			}
		}(i, u)
	}
	wg.Wait()
	var ms []*Model
	for _, r := range out {
		if r.err != nil {
			return nil, r.err
		}
		ms = append(ms, r.m)
	}
	return ms, nil
}

func checkActionCoverage(ms []*Model, results map[string]int64) []string {
	want := []string{"ProcessTx", "MaybeAcceptTx", "CheckAccept", "RemoveTx", "RemoveDoubleSpends", "RemoveOrphanTx", "ProcessOrphansOf", "Mine", "Reorg"}
	seen := map[string]bool{}
	for _, m := range ms {
		for _, l := range m.Labels {
			seen[l.Name] = true
		}
	}
	var missing []string
	for _, a := range want {
		if !seen[a] {
			missing = append(missing, a)
		}
	}
	return missing
}

// RunC10 is the check for property C10.
func RunC10(ctx *vrun.Ctx) error {
	return runBoth(ctx, false)
}

func runBoth(ctx *vrun.Ctx, mining bool) error {
	if ctx.Replay != "" {
		return fmt.Errorf("--replay: re-run the tier with the seed recorded in the replay file (the file holds the universe and the abstract trace)")
	}
	us := universesFor(ctx)
	ms, err := exploreAll(ctx, us, ctx.Thorough)
	if err != nil {
		return err
	}
	if missing := checkActionCoverage(ms, nil); len(missing) > 0 {
		return fmt.Errorf("vacuity: actions never taken in any universe: %v", missing)
	}
	workers := ctx.Workers
	if workers > 8 {
		workers = 8
	}
	totalCov, totalEdges := 0, 0
	var drift int64
	var drifts []string
	for _, m := range ms {
		ctx.AddModel(m.Distinct, m.Generated)
		w := NewWalker(m, ctx)
		var tc *TemplateChecker
		if mining {
			tc = NewTemplateChecker(ctx, m)
			w.OnState = tc.OnState
		}
		t0 := time.Now()
		if err := w.Run(workers, 0, "replay"); err != nil {
			return err
		}
		cov, edges := w.Coverage()
		totalCov += cov
		totalEdges += edges
		drift += w.Drift
		drifts = append(drifts, w.drifts...)
		ctx.Logf("replay universe %s: %d paths, %d steps, %d/%d edges covered, drift %d, %.1fs", m.U.Name, w.Paths, w.Steps, cov, edges, w.Drift, time.Since(t0).Seconds())
		if tc != nil {
			if err := tc.Finish(); err != nil {
				return err
			}
		}
		if len(ctx.Ev.Coverage.Samples) < 3 {
			ctx.Sample(map[string]any{"universe": m.U.Name, "transactions": len(m.U.Txs), "states": m.Distinct, "edges": edges, "edges_replayed": cov, "paths": w.Paths})
		}
	}
	ctx.SetExtra("edges_total", int64(totalEdges))
	ctx.SetExtra("edges_replayed", int64(totalCov))
	ctx.SetExtra("model_drift", drift)
	if drift > 0 {
		sort.Strings(drifts)
		for i, d := range drifts {
			if i >= 5 {
				break
			}
			fmt.Printf("MODEL-DRIFT property=%s %s\n", ctx.Prop, d)
		}
		ctx.SetExtra("model_drift_examples", drifts)
	}
	ctx.Ev.Coverage.Exhaustive = totalCov == totalEdges && drift == 0
	if mining {
		ctx.Ev.Coverage.Rule = "every reachable state of every explored universe (TLC exhaustive): NewBlockTemplate on the real pool/chain, template validated against Mining.tla with the pool state of the specification"
	} else {
		ctx.Ev.Coverage.Rule = "every transition of the exhaustive TLC state graph of every universe replayed into a real TxPool+BlockChain+SyncManager, observable projection compared after each step"
	}
	ctx.Assume("block timestamps and the adjusted time come from the wall clock within a two hour window; orphan expiry (15 min) and rate-limiter decay (10 min window) do not fire during a replay")
	ctx.Assume("transactions are anyone-can-spend scripts; signature checking itself is covered by C06/C07")
	_ = os.Getenv
	_ = filepath.Join
	_ = strings.Join
	return nil
}
