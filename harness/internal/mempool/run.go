package mempool

import (
	"fmt"
	"os"
	"path/filepath"
	"sort"
	"strings"
	"sync"
	"time"

	"verif/harness/internal/tla"
	"verif/harness/internal/tlc"
	"verif/harness/internal/vrun"
)

const mempoolCfgTail = "INIT Init\nNEXT Next\nINVARIANT Inv\nINVARIANT EmitExp\n"

// Explore runs TLC on one universe (exhaustive, graph dump, result tables).
// With a mining setup the module extends Mining.tla and the design-level
// invariants of the template algorithm are checked in every state as well.
func Explore(ctx *vrun.Ctx, u *Universe, coverage, withMining bool) (*Model, *tlc.Result, error) {
	c, err := BuildConcrete(u)
	if err != nil {
		return nil, nil, err
	}
	for i := range c.SigCost {
		if c.SigCost[i] != c.SigCostReal[i] {
			ctx.Violation("sigop-cost-of-transaction", fmt.Sprintf("universe %s: blockchain.GetSigOpCost reports %d for transaction %d, counting its scripts gives %d", u.Name, c.SigCostReal[i], i+1, c.SigCost[i]),
				map[string]any{"universe": u, "transaction": i + 1})
		}
	}
	mod := "U_" + u.Name
	base, defs, cfgTail := "Mempool", "", mempoolCfgTail
	var setup *MiningSetup
	if withMining {
		if setup, err = NewMiningSetup(c); err != nil {
			return nil, nil, err
		}
		var extra string
		defs, extra = setup.cfg(c)
		base = "Mining"
		cfgTail = extra + mempoolCfgTail + "INVARIANT AlgoSound\nINVARIANT AlgoComplete\n"
	}
	if ctx.Thorough && len(u.Scripted) == 0 && !strings.HasPrefix(u.Name, "rand") {
		cfgTail += "PROPERTY RejectedUnchanged\n" // costs a factor 2-3 in TLC time
	}
	tlaText, cfgText := u.Module(mod, base, c, defs, cfgTail)
	if d := os.Getenv("VERIF_EMIT_EXAMPLES"); d != "" { // writes the generated model as MC_<universe>.tla/.cfg for stand-alone TLC runs
		name := "MC_" + u.Name
		if withMining {
			name = "MCMining_" + u.Name
		}
		exText, exCfg := u.Module(name, base, c, defs, cfgTail)
		os.WriteFile(filepath.Join(d, name+".tla"), []byte(exText), 0o644)
		os.WriteFile(filepath.Join(d, name+".cfg"), []byte(exCfg), 0o644)
	}
	// A scripted universe is a single deterministic schedule: its graph is rebuilt from the
	// state records TLC prints (dumping hundred-transaction states as dot labels is slow).
	scripted := len(u.Scripted) > 0
	res, err := tlc.Run(tlc.Opts{SpecDir: ctx.SpecDir("mempool"), Module: mod, CfgText: cfgText,
		Files: map[string][]byte{mod + ".tla": []byte(tlaText)}, Workers: 2, Timeout: 25 * time.Minute,
		DumpGraph: !scripted, Coverage: coverage, Scratch: keepScratch(ctx), HeapGB: 4, KeepDir: os.Getenv("VERIF_KEEPTLC") != ""})
	if res != nil && os.Getenv("VERIF_KEEPTLC") != "" {
		ctx.Logf("universe %s: TLC directory %s", u.Name, res.Dir)
	}
	if err != nil {
		return nil, res, fmt.Errorf("universe %s: %w", u.Name, err)
	}
	if !res.OK {
		return nil, res, fmt.Errorf("universe %s: the specification itself violates %s %s (not a verdict about the code):\n%s", u.Name, res.ErrKind, res.ErrName, tail(res.Output, 3000))
	}
	if scripted {
		if res.Graph, err = scriptedGraph(u, res.Output); err != nil {
			return nil, res, err
		}
	}
	m, err := BuildModel(u, c, res)
	if err != nil {
		return nil, res, err
	}
	m.Mining = setup
	return m, res, nil
}

func tail(s string, n int) string {
	if len(s) > n {
		return s[len(s)-n:]
	}
	return s
}

// universesFor returns the universes of a property and tier: built-in shapes
// plus seed-generated ones.
func universesFor(ctx *vrun.Ctx, mining bool) []*Universe {
	var us []*Universe
	if !mining {
		us = append(us, EvictionBoundary()) // slowest TLC run first
	}
	want := map[string]bool{"rbf": true, "orphans": true, "reorg": true, "reorgsmall": true, "locktime": true, "locknonstd": true, "rbfwit": true, "blockconflict": true}
	if mining {
		want = map[string]bool{"reorg": true, "mining": true, "sigops": true, "retarget": true, "locknonstd": true, "halving": true}
	}
	for _, u := range BuiltinUniverses() {
		if ctx.Thorough || want[u.Name] {
			us = append(us, u)
		}
	}
	n := 2
	if mining {
		n = 1
	}
	if ctx.Thorough {
		n = 12
	}
	if only := os.Getenv("VERIF_UNIVERSES"); only != "" { // debugging aid: run the named built-in universes only
		var sel []*Universe
		for _, u := range append(BuiltinUniverses(), EvictionBoundary()) {
			for _, n := range strings.Split(only, ",") {
				if u.Name == n {
					sel = append(sel, u)
				}
			}
		}
		return sel
	}
	rng := ctx.Rand("universes")
	for i := 0; i < n; i++ {
		size := 4
		if ctx.Thorough && i%3 == 2 {
			size = 5
		}
		// a random description is used only if the factory can realise it exactly (a witness-carrying
		// transaction cannot be padded to every virtual size: weight/4 rounds); otherwise the next draw is taken
		var ru *Universe
		for try := 0; try < 50; try++ {
			cand := RandomUniverse(rng, fmt.Sprintf("rand%d_%d", ctx.Seed, i), size)
			if _, err := BuildConcrete(cand); err == nil {
				ru = cand
				break
			}
			ctx.AddExtra("random_universes_redrawn_not_realisable", 1)
		}
		if ru != nil {
			us = append(us, ru)
		}
	}
	return us
}

var allActions = []string{"ProcessTx", "MaybeAcceptTx", "CheckAccept", "RemoveTx", "RemoveDoubleSpends", "RemoveOrphanTx", "ProcessOrphansOf", "Mine", "Reorg"}

// RunC10 is the check for property C10.
func RunC10(ctx *vrun.Ctx) error { return runBoth(ctx, false) }

type uniResult struct {
	m     *Model
	w     *Walker
	err   error
	tlcS  float64
	replS float64
	finS  float64
}

func runBoth(ctx *vrun.Ctx, mining bool) error {
	if os.Getenv("VERIF_ONLY_RACE") == "" && ctx.Replay != "" {
		return runReplayFile(ctx, mining)
	}
	if os.Getenv("VERIF_ONLY_RACE") != "" { // debugging aid
		return RunRaceDetector(ctx)
	}
	us := universesFor(ctx, mining)
	workers := ctx.Workers
	if workers > 8 {
		workers = 8
	}
	results := make([]uniResult, len(us))
	tlcSem := make(chan struct{}, 3) // concurrent TLC processes (2 workers each)
	var replayMu sync.Mutex          // one universe replays at a time, on all workers
	var wg sync.WaitGroup
	var raceErr error
	for i, u := range us {
		wg.Add(1)
		go func(i int, u *Universe) {
			defer wg.Done()
			r := &results[i]
			tlcSem <- struct{}{}
			t0 := time.Now()
			m, res, err := Explore(ctx, u, false, mining) // -coverage is not used: the vacuity audit reads the edge labels of the dumped graphs
			<-tlcSem
			if err != nil {
				r.err = err
				return
			}
			r.m, r.tlcS = m, time.Since(t0).Seconds()
			ctx.Logf("TLC universe %s: %d distinct states, %d transitions, %d edges, %.1fs", u.Name, res.Distinct, res.Generated, m.G.Edges, r.tlcS)
			ctx.AddModel(m.Distinct, m.Generated)
			w := NewWalker(m, ctx)
			w.Monitors = !mining
			var tc *TemplateChecker
			if mining {
				tc = NewTemplateChecker(ctx, m, m.Mining)
				w.OnState = tc.OnState
				w.OnDiverge = tc.OnDiverge
				w.OnPathEnd = func(e *Env) {
					if bad, _ := tc.FullValidation(e); bad != "" {
						ctx.Violation("template:process-block", fmt.Sprintf("universe %s: %s", m.U.Name, bad), map[string]any{"universe": m.U})
					}
				}
			}
			replayMu.Lock()
			t1 := time.Now()
			err = w.Run(workers, 0, "replay")
			r.replS = time.Since(t1).Seconds()
			replayMu.Unlock()
			r.w = w
			if err != nil {
				r.err = err
				return
			}
			if !mining && len(u.Scripted) == 0 {
				n := 40
				if ctx.Thorough {
					n = 400
				}
				replayMu.Lock()
				t3 := time.Now()
				err = w.RunConcurrentBatch(n, workers, "concurrent")
				replayMu.Unlock()
				if err != nil {
					r.err = err
					return
				}
				ctx.AddExtra("concurrent_histories", int64(n))
				ctx.Logf("concurrent callers universe %s: %d histories checked for linearisability, %.1fs", m.U.Name, n, time.Since(t3).Seconds())
			}
			cov, edges := w.Coverage()
			ctx.Logf("replay universe %s: %d paths, %d steps, %d/%d edges covered, drift %d, %.1fs", m.U.Name, w.Paths, w.Steps, cov, edges, w.Drift, r.replS)
			if tc != nil {
				tlcSem <- struct{}{}
				t2 := time.Now()
				err := tc.Finish()
				<-tlcSem
				r.finS = time.Since(t2).Seconds()
				if err != nil {
					r.err = err
					return
				}
				ctx.Logf("template validation universe %s: %d templates, %.1fs", m.U.Name, len(tc.recs), r.finS)
			}
		}(i, u)
	}
	if !mining && ctx.Thorough {
		wg.Add(1)
		go func() {
			defer wg.Done()
			if err := RunRaceDetector(ctx); err != nil {
				raceErr = err
			}
		}()
	}
	wg.Wait()
	if raceErr != nil {
		return raceErr
	}
	totalCov, totalEdges := 0, 0
	var drift int64
	var drifts []string
	seen := map[string]bool{}
	for _, r := range results {
		if r.err != nil {
			return r.err
		}
		for _, l := range r.m.Labels {
			seen[l.Name] = true
		}
		cov, edges := r.w.Coverage()
		totalCov += cov
		totalEdges += edges
		drift += r.w.Drift
		drifts = append(drifts, r.w.drifts...)
		ctx.Sample(map[string]any{"universe": r.m.U.Name, "transactions": r.m.U.Txs, "policy": map[string]any{"MaxOrphanTxs": r.m.U.MaxOrphans, "RejectReplacement": r.m.U.RejectRepl, "CoinbaseMaturity": r.m.U.Maturity},
			"block_slots_parent": r.m.U.SlotParent, "spec_states": r.m.Distinct, "spec_edges": edges, "edges_replayed": cov, "paths_replayed": r.w.Paths, "one_replayed_path": r.w.SamplePath})
	}
	var missing []string
	for _, a := range allActions {
		if mining && (a == "RemoveTx" || a == "RemoveDoubleSpends" || a == "RemoveOrphanTx" || a == "ProcessOrphansOf") {
			continue // the template universes are driven by submissions and blocks only
		}
		if !seen[a] {
			missing = append(missing, a)
		}
	}
	if len(missing) > 0 && os.Getenv("VERIF_UNIVERSES") == "" {
		return fmt.Errorf("vacuity: actions never taken in any universe: %v", missing)
	}
	ctx.SetExtra("universes", int64(len(us)))
	ctx.SetExtra("edges_total", int64(totalEdges))
	ctx.SetExtra("edges_replayed", int64(totalCov))
	ctx.SetExtra("model_drift", drift)
	if drift > 0 {
		sort.Strings(drifts)
		for i, d := range drifts {
			if i >= 5 {
				break
			}
			fmt.Printf("MODEL-DRIFT property=%s %s\n", ctx.Prop, d)
		}
		ctx.SetExtra("model_drift_examples", drifts)
	}
	ctx.Ev.Coverage.Exhaustive = false
	ctx.Ev.Coverage.Explanation = fmt.Sprintf("each universe (4-5 abstract transactions, 1-3 block slots, one policy configuration) is explored exhaustively by TLC and %d of its %d transitions were replayed into real nodes (transitions that depend on Go map iteration order are taken when the real node happens to choose them); the universes themselves are a sample of the transaction graphs and configurations the property quantifies over", totalCov, totalEdges)
	if mining {
		ctx.Ev.Coverage.Rule = "at every reachable state of every explored universe NewBlockTemplate runs on the real pool/chain under three mining policies; each template record is judged by Mining.tla (TemplateFailures) against the pool state of the specification; distinct_nontrivial counts distinct (universe, call with arguments, result code) triples replayed plus distinct (universe, policy, selected transaction list) templates"
	} else {
		ctx.Ev.Coverage.Rule = "every transition of the exhaustive TLC state graph of every universe is replayed into a real TxPool+BlockChain+SyncManager and the observable projection compared with the specification after each step; distinct_nontrivial counts distinct (universe, call with arguments, result code of the specification) triples that were executed on the real node"
	}
	ctx.Assume("block timestamps and the adjusted time come from the wall clock within a two hour window; orphan expiry (15 min) and rate-limiter decay (10 min window) do not fire during a replay")
	ctx.Assume("transactions are anyone-can-spend scripts; signature checking itself is covered by C06/C07")
	ctx.Assume("blocks mined during a replay carry no witness transactions (their coinbase is fixed in advance); witness transactions are pooled and appear in templates")
	return nil
}

// scriptedGraph rebuilds the (linear) state graph of a scripted universe from
// the state records of EmitExp: the state with step = k is followed by the
// state with step = k+1 through the k+1-th call of the script.
func scriptedGraph(u *Universe, out string) (*tlc.Graph, error) {
	byStep := map[int]tla.Value{}
	const marker = `"<<424242,`
	for _, line := range strings.Split(out, "\n") {
		line = strings.TrimSpace(line)
		if !strings.HasPrefix(line, marker) || !strings.HasSuffix(line, `"`) {
			continue
		}
		v, err := tla.ParseValue(line[1 : len(line)-1])
		if err != nil {
			return nil, err
		}
		rec := v.Seq()[1]
		k := rec.F("step").Int()
		if _, dup := byStep[k]; dup {
			return nil, fmt.Errorf("universe %s: the script is not deterministic at step %d", u.Name, k)
		}
		byStep[k] = rec
	}
	var sb strings.Builder
	sb.WriteString("strict digraph DiskGraph {\n")
	for k := 0; ; k++ {
		rec, ok := byStep[k]
		if !ok {
			if k != len(byStep) {
				return nil, fmt.Errorf("universe %s: missing state for step %d", u.Name, k)
			}
			break
		}
		var lab []string
		for _, f := range rec.Domain() {
			lab = append(lab, fmt.Sprintf("/\\\\ %s = %s", f.S, rec.F(f.S).String()))
		}
		style := ""
		if k == 0 {
			style = ",style = filled"
		}
		fmt.Fprintf(&sb, "%d [label=\"%s\"%s]\n", k+1, strings.Join(lab, "\\n"), style)
		if k > 0 {
			call := u.Scripted[k-1]
			var l string
			switch call[0] {
			case 1:
				l = fmt.Sprintf("ProcessTx(%d,TRUE)", call[1])
			case 2:
				l = fmt.Sprintf("CheckAccept(%d)", call[1])
			case 3:
				l = fmt.Sprintf("RemoveTx(%d,TRUE)", call[1])
			}
			fmt.Fprintf(&sb, "%d -> %d [label=\"%s\",color=\"black\",fontcolor=\"black\"];\n", k, k+1, l)
		}
	}
	sb.WriteString("}\n")
	return tlc.ParseDot(strings.NewReader(sb.String()))
}

// keepScratch: VERIF_KEEPTLC=<dir> keeps the generated modules and TLC output there (debugging).
func keepScratch(ctx *vrun.Ctx) string {
	if d := os.Getenv("VERIF_KEEPTLC"); d != "" {
		os.MkdirAll(d, 0o755)
		return d
	}
	return ctx.Scratch
}
