package mempool

import (
	"encoding/json"
	"fmt"
	"os"
	"os/exec"
	"path/filepath"
	"regexp"
	"sort"
	"strings"
	"sync"
	"time"

	"github.com/btcsuite/btcd/btcutil/v2"
	btcmempool "github.com/btcsuite/btcd/mempool"

	"verif/harness/internal/vrun"
)

// Race-detector run (thorough tier of C10).  The parent builds this same
// command with -race and runs it as "C10-stress": goroutines hammer one real
// TxPool with the calls of the action alphabet; the Go race detector watches,
// and the clauses of C10 are evaluated at every quiescent point.  The child
// reports through a JSON file; data-race reports are taken from GORACE logs.

type stressFinding struct {
	Key    string `json:"key"`
	What   string `json:"what"`
	Replay any    `json:"replay"`
}

type stressReport struct {
	Rounds   int             `json:"rounds"`
	Calls    int64           `json:"calls"`
	Findings []stressFinding `json:"findings"`
}

// RunStressChild is the body of the hidden "C10-stress" command.
func RunStressChild(ctx *vrun.Ctx) error {
	out := os.Getenv("VERIF_STRESS_OUT")
	if out == "" {
		return fmt.Errorf("C10-stress is an internal command of the C10 check")
	}
	rounds := 40
	rep := &stressReport{}
	var mu sync.Mutex
	for _, u := range BuiltinUniverses() {
		if len(u.Scripted) > 0 {
			continue
		}
		c, err := BuildConcrete(u)
		if err != nil {
			return err
		}
		for r := 0; r < rounds; r++ {
			env, err := NewEnv(c, true)
			if err != nil {
				return err
			}
			rng := ctx.Rand(fmt.Sprintf("stress/%s/%d", u.Name, r))
			// optionally move the chain first (sequentially)
			if len(u.SlotParent) > 0 && u.SlotParent[0] == 0 && rng.Intn(2) == 0 {
				if blk, err := env.BuildSlot(1, nil); err == nil {
					if err := env.Submit(blk); err != nil {
						env.Close()
						return err
					}
				}
			}
			const G, K = 6, 25
			type call struct {
				Goroutine int    `json:"goroutine"`
				Call      string `json:"call"`
			}
			plan := make([][]call, G)
			for g := 0; g < G; g++ {
				for k := 0; k < K; k++ {
					t := 1 + rng.Intn(len(u.Txs))
					kind := []string{"ProcessTx", "ProcessTx", "MaybeAccept", "CheckAccept", "CheckAccept", "RemoveTx", "RemoveDoubleSpends", "ProcessOrphans", "RemoveOrphan"}[rng.Intn(9)]
					plan[g] = append(plan[g], call{g, fmt.Sprintf("%s(%d)", kind, t)})
				}
			}
			var wg sync.WaitGroup
			start := make(chan struct{})
			for g := 0; g < G; g++ {
				wg.Add(1)
				go func(g int) {
					defer wg.Done()
					<-start
					for _, cl := range plan[g] {
						var kind string
						var t int
						fmt.Sscanf(strings.Replace(strings.Replace(cl.Call, "(", " ", 1), ")", "", 1), "%s %d", &kind, &t)
						tx := btcutil.NewTx(c.Txs[t-1].MsgTx())
						switch kind {
						case "ProcessTx":
							env.Pool.ProcessTransaction(tx, true, true, btcmempool.Tag(g))
						case "MaybeAccept":
							env.Pool.MaybeAcceptTransaction(tx, true, true)
						case "CheckAccept":
							env.Pool.CheckMempoolAcceptance(tx)
						case "RemoveTx":
							env.Pool.RemoveTransaction(tx, true)
						case "RemoveDoubleSpends":
							env.Pool.RemoveDoubleSpends(tx)
						case "ProcessOrphans":
							env.Pool.ProcessOrphans(tx)
						case "RemoveOrphan":
							env.Pool.RemoveOrphan(tx)
						}
						// readers
						env.Pool.Count()
						env.Pool.MiningDescs()
						env.Pool.CheckSpend(c.OpReal[c.Ops[t%len(c.Ops)]])
					}
				}(g)
			}
			close(start)
			wg.Wait()
			obs := env.Observe()
			for _, f := range env.Monitor(nil, obs, Label{Name: "Concurrent", Raw: "concurrent calls"}, nil, nil, false) {
				mu.Lock()
				rep.Findings = append(rep.Findings, stressFinding{"concurrent:" + f.key, fmt.Sprintf("universe %s, after %d goroutines x %d calls: %s", u.Name, G, K, f.what), map[string]any{"universe": u, "plan": plan, "final": obsJSON(obs)}})
				mu.Unlock()
			}
			rep.Rounds++
			rep.Calls += G * K
			env.Close()
		}
	}
	b, _ := json.Marshal(rep)
	return os.WriteFile(out, b, 0o644)
}

var reRaceFunc = regexp.MustCompile(`(?m)^\s+(github\.com/btcsuite/btcd/[^\s(]+(?:\([^)]*\))?[^\s(]*)\(\)`)

// raceKey names a data race report by the innermost btcd functions of the two accesses.
func raceKey(report string) string {
	parts := regexp.MustCompile(`(?m)^(?:Write|Read|Previous write|Previous read|Atomic|Previous atomic)[^\n]*\n`).Split(report, -1)
	var fs []string
	for _, p := range parts[1:] {
		if m := reRaceFunc.FindStringSubmatch(p); m != nil {
			f := strings.TrimPrefix(m[1], "github.com/btcsuite/btcd/")
			fs = append(fs, f)
		}
		if len(fs) == 2 {
			break
		}
	}
	sort.Strings(fs)
	return "race:" + strings.Join(fs, "|")
}

// RunRaceDetector builds the command with -race and runs the stress child.
func RunRaceDetector(ctx *vrun.Ctx) error {
	bin := filepath.Join(ctx.Scratch, "mempool-race")
	harness := filepath.Join(ctx.VerifDir, "harness")
	args := []string{"build", "-race", "-tags", "verif"}
	if repo := os.Getenv("VERIF_REPO"); repo != "" && repo != "/repo" {
		gm, err := os.ReadFile(filepath.Join(harness, "go.mod"))
		if err != nil {
			return err
		}
		md := filepath.Join(ctx.Scratch, "racemod")
		os.MkdirAll(md, 0o755)
		os.WriteFile(filepath.Join(md, "go.mod"), []byte(strings.ReplaceAll(string(gm), "=> /repo", "=> "+repo)), 0o644)
		if gs, err := os.ReadFile(filepath.Join(harness, "go.sum")); err == nil {
			os.WriteFile(filepath.Join(md, "go.sum"), gs, 0o644)
		}
		args = append(args, "-modfile="+filepath.Join(md, "go.mod"))
	}
	args = append(args, "-o", bin, "./cmd/mempool")
	t0 := time.Now()
	cmd := exec.Command("go", args...)
	cmd.Dir = harness
	cmd.Env = append(os.Environ(), "GOFLAGS=-mod=mod", "GOPROXY=off", "CGO_ENABLED=1")
	if out, err := cmd.CombinedOutput(); err != nil {
		return fmt.Errorf("race build failed: %v\n%s", err, tail(string(out), 2000))
	}
	ctx.Logf("race build %.1fs", time.Since(t0).Seconds())
	outFile := filepath.Join(ctx.Scratch, "stress.json")
	logPrefix := filepath.Join(ctx.Scratch, "race")
	run := exec.Command(bin, "C10-stress", "--tier", ctx.Tier, "--replay", "child")
	run.Env = append(os.Environ(), "VERIF_STRESS_OUT="+outFile, "GORACE=halt_on_error=0 exitcode=0 log_path="+logPrefix, fmt.Sprintf("VERIF_SEED=%d", ctx.Seed))
	t1 := time.Now()
	if out, err := run.CombinedOutput(); err != nil {
		return fmt.Errorf("race run failed: %v\n%s", err, tail(string(out), 3000))
	}
	b, err := os.ReadFile(outFile)
	if err != nil {
		return err
	}
	var rep stressReport
	if err := json.Unmarshal(b, &rep); err != nil {
		return err
	}
	for _, f := range rep.Findings {
		ctx.Violation(f.Key, f.What, f.Replay)
	}
	logs, _ := filepath.Glob(logPrefix + ".*")
	races := 0
	for _, lf := range logs {
		lb, _ := os.ReadFile(lf)
		for _, r := range strings.Split(string(lb), "==================") {
			if !strings.Contains(r, "WARNING: DATA RACE") {
				continue
			}
			races++
			ctx.Violation(raceKey(r), "the Go race detector reports a data race between concurrent TxPool callers:\n"+strings.TrimSpace(r), map[string]any{"report": r})
		}
	}
	ctx.AddTraces(int64(rep.Rounds))
	ctx.AddEval(rep.Calls)
	ctx.SetExtra("race_detector_rounds", int64(rep.Rounds))
	ctx.SetExtra("race_detector_calls", rep.Calls)
	ctx.SetExtra("race_reports", int64(races))
	ctx.Logf("race detector: %d rounds, %d calls, %d race reports, %.1fs", rep.Rounds, rep.Calls, races, time.Since(t1).Seconds())
	return nil
}
