// Package mempool binds spec/mempool/{Mempool,Mining}.tla to the real
// mempool.TxPool / netsync.SyncManager / mining.BlkTmplGenerator (C10, C12).
//
// A Universe is the finite world one TLC run explores: a handful of abstract
// transactions over a few confirmed coins and a small tree of block slots,
// plus the policy configuration.  The Go side only *describes* the universe
// (and builds the matching concrete transactions); every expected pool state,
// result code, fee total etc. is read from TLC's output for that universe.
package mempool

import (
	"fmt"
	"math/rand"
	"os"
	"sort"
	"strings"
)

// Outpoint is an abstract outpoint <<src, idx>>: src > 0 transaction id,
// src = 0 the confirmed funding transaction, src = -b the coinbase of block
// slot b, src = -100 the coinbase of the base chain tip.
type Outpoint struct{ Src, Idx int }

const BaseCBSrc = -100

// AutoSize as TxSpec.VSize leaves the transaction unpadded.
const AutoSize = -1

func (o Outpoint) TLA() string { return fmt.Sprintf("<<%d, %d>>", o.Src, o.Idx) }

// MarshalText / UnmarshalText make outpoints usable as JSON map keys (replay files).
func (o Outpoint) MarshalText() ([]byte, error) {
	return []byte(fmt.Sprintf("%d:%d", o.Src, o.Idx)), nil
}
func (o *Outpoint) UnmarshalText(b []byte) error {
	_, err := fmt.Sscanf(string(b), "%d:%d", &o.Src, &o.Idx)
	return err
}

type TxSpec struct {
	Ins   []Outpoint
	NOut  int
	Fee   int64
	VSize int    // target virtual size; the factory pads to hit it exactly (AutoSize: natural size)
	Rbf   bool   // explicit BIP125 signalling
	Cls   string // ok | badscript | insane | negfee | small
	// Lock is the nLockTime class of Mempool.tla (TxLock); "" = none.
	Lock string
	// SigOps adds this many never-executed OP_CHECKMULTISIG to output 0 (20 legacy sigops, cost 80 each),
	// SigOpsCS this many OP_CHECKSIG (cost 4 each).
	SigOps   int
	SigOpsCS int
}

type Universe struct {
	Name       string
	Txs        []TxSpec // Txs[i] is transaction i+1
	NFund      int
	WitCoins   map[Outpoint]bool // outputs that are P2WSH (spent through a witness)
	WitSigOps  map[Outpoint]int  // OP_CHECKSIGs in the witness script of a P2WSH coin (cost 1 each for the spender)
	P2SHSigOps map[Outpoint]int  // the coin is P2SH and its redeem script holds this many OP_CHECKSIG (cost 4 each for the spender)
	WitPad     map[Outpoint]int  // OP_NOPs in the witness script of a P2WSH coin: its spender's size exceeds its vsize by 3/4 of them
	// SubsidyInterval overrides chaincfg.Params.SubsidyReductionInterval (0: the network's
	// 150) so that the blocks of a run cross a halving.
	SubsidyInterval int
	// Standard turns the standardness checks on (Policy.AcceptNonStd = false); every
	// output is then P2SH.
	Standard bool
	// Retarget gives the chain a required difficulty above the minimum (retargeting
	// every 20 blocks, base chain of 41 blocks); no forks in such a universe.
	Retarget      bool
	SlotParent    []int
	Maturity      int
	RejectRepl    bool
	MaxOrphans    int
	MaxOrphanSize int
	MinRelayFee   int64
	FreeLimit     int // bytes; Policy.FreeTxRelayLimit = FreeLimit/10000
	MaxEvict      int
	MaxBlockTxs   int
	MaxReorgTxs   int
	Standalone    bool
	// LegacyDisconnect selects the NTBlockDisconnected protocol before btcd
	// d5392345 in the specification (never set by the checks; VERIF_LEGACY_DISCONNECT=1
	// documents the repaired defect against an old tree).
	LegacyDisconnect bool
	// Scripted, when non-empty, is the only schedule explored: {kind, tx} with
	// kind 1 ProcessTx(tx, true), 2 CheckAccept(tx), 3 RemoveTx(tx, true)
	// (boundary scenarios with a hundred transactions).
	Scripted [][2]int
}

// HasWitness reports whether tx t (1-based) spends a P2WSH coin.
func (u *Universe) HasWitness(t int) bool {
	for _, in := range u.Txs[t-1].Ins {
		if u.WitCoins[in] {
			return true
		}
	}
	return false
}

func (u *Universe) Validate() error {
	for i, tx := range u.Txs {
		t := i + 1
		if len(tx.Ins) == 0 || tx.NOut < 1 {
			return fmt.Errorf("universe %s: tx %d needs inputs and outputs", u.Name, t)
		}
		for _, in := range tx.Ins {
			if in.Src >= t {
				return fmt.Errorf("universe %s: tx %d spends output of tx %d (must be smaller)", u.Name, t, in.Src)
			}
			switch {
			case in.Src > 0:
				if in.Idx >= u.Txs[in.Src-1].NOut {
					return fmt.Errorf("universe %s: tx %d spends missing output %v", u.Name, t, in)
				}
			case in.Src == 0:
				if in.Idx >= u.NFund {
					return fmt.Errorf("universe %s: tx %d spends missing fund coin %v", u.Name, t, in)
				}
			case in.Src == BaseCBSrc:
			default:
				if -in.Src > len(u.SlotParent) || in.Idx != 0 {
					return fmt.Errorf("universe %s: tx %d spends missing coinbase %v", u.Name, t, in)
				}
			}
		}
	}
	// The rate limiter decays with the wall clock: no sum of free transaction
	// sizes may land on the limit or closely above it.
	var free []int
	for _, tx := range u.Txs {
		mf := int64(tx.VSize) * u.MinRelayFee / 1000
		if tx.VSize != AutoSize && tx.Fee < mf {
			free = append(free, tx.VSize)
		}
	}
	for mask := 1; mask < 1<<len(free); mask++ {
		sum := 0
		for i, v := range free {
			if mask&(1<<i) != 0 {
				sum += v
			}
		}
		if sum >= u.FreeLimit && sum*100 < u.FreeLimit*108 {
			return fmt.Errorf("universe %s: free transactions of %d bytes in total are within 8%% of the rate limit %d", u.Name, sum, u.FreeLimit)
		}
	}
	for i, tx := range u.Txs {
		if tx.Cls == "small" && (len(tx.Ins) != 1 || tx.NOut != 1) {
			return fmt.Errorf("universe %s: the small transaction %d must have one input and one output", u.Name, i+1)
		}
	}
	if u.Retarget {
		for b, p := range u.SlotParent {
			if p != b {
				return fmt.Errorf("universe %s: a retargeting universe cannot fork", u.Name)
			}
		}
	}
	if u.Standard && len(u.WitCoins) > 0 {
		return fmt.Errorf("universe %s: witness coins are not available with standard scripts", u.Name)
	}
	for op := range u.WitCoins {
		if op.Src > 0 && op.Idx == 0 {
			return fmt.Errorf("universe %s: output 0 of a transaction cannot be a witness coin", u.Name)
		}
		if op.Src < 0 {
			return fmt.Errorf("universe %s: coinbase outputs cannot be witness coins", u.Name)
		}
	}
	return nil
}

func tlaBool(b bool) string {
	if b {
		return "TRUE"
	}
	return "FALSE"
}

// Module renders the constants of the universe as a TLA+ module that extends
// base ("Mempool" or "Mining"), plus the matching cfg text.  sizes are the
// measured (vsize, size, weight, sigop cost) of the concrete transactions.
func (u *Universe) Module(modName, base string, c *Concrete, extraDefs, cfgTail string) (tlaText, cfgText string) {
	var sb strings.Builder
	seq := func(name string, f func(i int) string) {
		parts := make([]string, len(u.Txs))
		for i := range u.Txs {
			parts[i] = f(i)
		}
		fmt.Fprintf(&sb, "%s == << %s >>\n", name, strings.Join(parts, ", "))
	}
	fmt.Fprintf(&sb, "---- MODULE %s ----\n\\* generated from universe %q\nEXTENDS %s\n", modName, u.Name, base)
	seq("U_TxIns", func(i int) string {
		ins := append([]Outpoint(nil), u.Txs[i].Ins...)
		sort.Slice(ins, func(a, b int) bool {
			if ins[a].Src != ins[b].Src {
				return ins[a].Src < ins[b].Src
			}
			return ins[a].Idx < ins[b].Idx
		})
		p := make([]string, len(ins))
		for k, in := range ins {
			p[k] = in.TLA()
		}
		return "{" + strings.Join(p, ", ") + "}"
	})
	seq("U_TxNOut", func(i int) string { return fmt.Sprint(u.Txs[i].NOut) })
	seq("U_TxFee", func(i int) string { return fmt.Sprint(u.Txs[i].Fee) })
	seq("U_TxVSize", func(i int) string { return fmt.Sprint(c.VSize[i]) })
	seq("U_TxSize", func(i int) string { return fmt.Sprint(c.Size[i]) })
	seq("U_TxRbf", func(i int) string { return tlaBool(u.Txs[i].Rbf) })
	seq("U_TxCls", func(i int) string { return fmt.Sprintf("%q", u.Txs[i].Cls) })
	seq("U_TxLock", func(i int) string { return fmt.Sprintf("%q", u.Txs[i].Lock) })
	seq("U_TxWit", func(i int) string { return tlaBool(u.HasWitness(i + 1)) })
	seq("U_TxWeight", func(i int) string { return fmt.Sprint(c.Weight[i]) })
	seq("U_TxSigCost", func(i int) string { return fmt.Sprint(c.SigCost[i]) })
	sp := make([]string, len(u.SlotParent))
	for i, p := range u.SlotParent {
		sp[i] = fmt.Sprint(p)
	}
	fmt.Fprintf(&sb, "U_SlotParent == << %s >>\n", strings.Join(sp, ", "))
	scr := make([]string, len(u.Scripted))
	for i, t := range u.Scripted {
		scr[i] = fmt.Sprintf("<<%d, %d>>", t[0], t[1])
	}
	fmt.Fprintf(&sb, "U_Script == << %s >>\n", strings.Join(scr, ", "))
	sb.WriteString(extraDefs)
	sb.WriteString("====\n")

	var cf strings.Builder
	cf.WriteString("CONSTANTS\n")
	fmt.Fprintf(&cf, " N = %d\n TxIns <- U_TxIns\n TxNOut <- U_TxNOut\n TxFee <- U_TxFee\n TxVSize <- U_TxVSize\n TxSize <- U_TxSize\n", len(u.Txs))
	cf.WriteString(" TxRbf <- U_TxRbf\n TxCls <- U_TxCls\n TxLock <- U_TxLock\n TxWit <- U_TxWit\n SlotParent <- U_SlotParent\n")
	fmt.Fprintf(&cf, " NFund = %d\n Maturity = %d\n RejectRepl = %s\n MaxOrphans = %d\n MaxOrphanSize = %d\n MinRelayFee = %d\n FreeLimit = %d\n MaxEvict = %d\n MaxBlockTxs = %d\n MaxReorgTxs = %d\n Standalone = %s\n DisconnectEvicts = %s\n Standard = %s\n",
		u.NFund, u.Maturity, tlaBool(u.RejectRepl), u.MaxOrphans, u.MaxOrphanSize, u.MinRelayFee, u.FreeLimit, u.MaxEvict, u.MaxBlockTxs, u.MaxReorgTxs, tlaBool(u.Standalone), tlaBool(!(u.LegacyDisconnect || os.Getenv("VERIF_LEGACY_DISCONNECT") != "")), tlaBool(u.Standard))
	cf.WriteString(" Script <- U_Script\n")
	cf.WriteString(cfgTail)
	return sb.String(), cf.String()
}

func fund(i int) Outpoint          { return Outpoint{0, i} }
func out(t, i int) Outpoint        { return Outpoint{t, i} }
func cb(slot int) Outpoint         { return Outpoint{-slot, 0} }
func baseCB() Outpoint             { return Outpoint{BaseCBSrc, 0} }
func ins(o ...Outpoint) []Outpoint { return o }

func defaults(u Universe) *Universe {
	if u.MinRelayFee == 0 {
		u.MinRelayFee = 1000
	}
	if u.FreeLimit == 0 {
		u.FreeLimit = 275
	}
	if u.MaxEvict == 0 {
		u.MaxEvict = 100
	}
	if u.MaxOrphanSize == 0 {
		u.MaxOrphanSize = 1000
	}
	if u.Maturity == 0 {
		u.Maturity = 1
	}
	for i := range u.Txs {
		if u.Txs[i].Cls == "" {
			u.Txs[i].Cls = "ok"
		}
		if u.Txs[i].Lock == "" {
			u.Txs[i].Lock = "none"
		}
		if u.Txs[i].Cls == "small" {
			u.Txs[i].VSize = AutoSize
		}
		if u.Txs[i].NOut == 0 {
			u.Txs[i].NOut = 1
		}
		if u.Txs[i].VSize == 0 {
			u.Txs[i].VSize = 100 // AutoSize (-1) keeps the natural size
		}
	}
	return &u
}

// BuiltinUniverses are the hand-written shapes every run explores.
func BuiltinUniverses() []*Universe {
	return []*Universe{
		// RBF: t1 signals and has a child t2 (inherits) and a two-parent child
		// t4; t3 replaces t1 (+descendants) paying just enough, t5 pays one
		// satoshi too little, t6 has the same fee rate as t1.
		defaults(Universe{Name: "rbf", NFund: 2, Maturity: 2, SlotParent: []int{0}, MaxOrphans: 1, MaxBlockTxs: 1, Standalone: true,
			Txs: []TxSpec{
				{Ins: ins(fund(0)), NOut: 2, Fee: 2000, Rbf: true},
				{Ins: ins(out(1, 1)), Fee: 1000},                    // child on an output index >= the parent's input count
				{Ins: ins(fund(0)), Fee: 3100},                      // = 2000+1000+minfee(100)
				{Ins: ins(fund(0)), Fee: 3099},                      // one short of the absolute fee rule
				{Ins: ins(fund(0), fund(1)), Fee: 4000, VSize: 200}, // fee rate 20000 = t1's rate, absolute fee sufficient
				{Ins: ins(baseCB()), Fee: 1000},                     // immature until a block is mined (maturity 2)
			}}),
		// RBF among transactions that carry about a hundred bytes of witness data
		// (fund coin 0 is P2WSH with a padded witness script), so fee per raw byte
		// and fee per virtual byte differ: t1 pays 20000/kvB; t2 pays 13500/kvB
		// (above t1's rate per raw byte, about 11900), t3 exactly t1's rate, t4 just above.
		defaults(Universe{Name: "rbfwit", NFund: 2, SlotParent: []int{0}, MaxOrphans: 1, MaxBlockTxs: 1, Standalone: false,
			WitCoins: map[Outpoint]bool{fund(0): true}, WitPad: map[Outpoint]int{fund(0): 100},
			Txs: []TxSpec{
				{Ins: ins(fund(0)), NOut: 2, Fee: 2400, VSize: 120, Rbf: true},
				{Ins: ins(fund(0)), Fee: 2700, VSize: 200},
				{Ins: ins(fund(0)), Fee: 4000, VSize: 200},
				{Ins: ins(fund(0)), Fee: 4020, VSize: 200},
				{Ins: ins(out(1, 1)), Fee: 500},
			}}),
		// A two-input transaction t4 that the pool does not hold is mined while each of
		// its inputs is spent by a different pooled transaction (t1; t2 with child t3):
		// every pooled conflict of every input has to be evicted.
		defaults(Universe{Name: "blockconflict", NFund: 2, SlotParent: []int{0}, MaxOrphans: 1, MaxBlockTxs: 1, Standalone: true,
			Txs: []TxSpec{
				{Ins: ins(fund(0)), Fee: 1000},
				{Ins: ins(fund(1)), Fee: 1000},
				{Ins: ins(out(2, 0)), Fee: 1000},
				{Ins: ins(fund(0), fund(1)), Fee: 500, VSize: 200},
			}}),
		// Orphans: a chain t1 -> t2 -> t3 with a conflicting spender t4 of t1's
		// output and an oversized orphan t5.
		defaults(Universe{Name: "orphans", NFund: 1, SlotParent: []int{0}, MaxOrphans: 2, MaxOrphanSize: 150, MaxBlockTxs: 1, Standalone: true,
			Txs: []TxSpec{
				{Ins: ins(fund(0)), Fee: 1000},
				{Ins: ins(out(1, 0)), Fee: 1000},
				{Ins: ins(out(2, 0)), Fee: 1000},
				{Ins: ins(out(1, 0)), Fee: 1500, Cls: "badscript"},
				{Ins: ins(out(2, 0)), Fee: 1000, VSize: 200},
			}}),
		// Reorganisation: t1 spends the coinbase of block slot 1, t2 a fund
		// coin, t3 spends t2; branch 2->3 replaces slot 1.
		defaults(Universe{Name: "reorg", NFund: 1, SlotParent: []int{0, 0, 2}, MaxOrphans: 1, MaxBlockTxs: 2, MaxReorgTxs: 1, Standalone: false,
			Txs: []TxSpec{
				{Ins: ins(cb(1)), Fee: 1000},
				{Ins: ins(fund(0)), Fee: 1000},
				{Ins: ins(out(2, 0)), Fee: 1000},
				{Ins: ins(fund(0)), Fee: 5000},
			}}),
		// Free transactions and the rate limiter, an immature coinbase spend
		// (maturity 2), a transaction spending more than its inputs.
		defaults(Universe{Name: "free", NFund: 2, Maturity: 2, SlotParent: []int{0}, MaxOrphans: 1, MaxBlockTxs: 1, Standalone: false,
			Txs: []TxSpec{
				{Ins: ins(fund(0)), Fee: 0},
				{Ins: ins(fund(1)), Fee: 50, VSize: 120},
				{Ins: ins(out(1, 0)), Fee: 0},
				{Ins: ins(baseCB()), Fee: 1000},
				{Ins: ins(out(2, 0)), Fee: 1000, Cls: "negfee"},
			}}),
		// Two-deep reorganisation: t1 and its child t2 can be confirmed in
		// successive blocks, t3 conflicts with t1; branch 3->4->5 replaces 1->2.
		defaults(Universe{Name: "reorg2", NFund: 1, SlotParent: []int{0, 1, 0, 3, 4}, MaxOrphans: 1, MaxBlockTxs: 1, MaxReorgTxs: 1, Standalone: false,
			Txs: []TxSpec{
				{Ins: ins(fund(0)), Fee: 1000},
				{Ins: ins(out(1, 0)), Fee: 1000},
				{Ins: ins(fund(0)), Fee: 3000},
			}}),
		// A block carries t1, which the pool always refuses (shorter than 65
		// bytes), and its child t2; t3, t4 descend from t2.  When the block is
		// disconnected t2 comes back with a missing parent.
		defaults(Universe{Name: "reorgsmall", NFund: 1, SlotParent: []int{0, 0, 2}, MaxOrphans: 1, MaxBlockTxs: 2, MaxReorgTxs: 0, Standalone: false,
			Txs: []TxSpec{
				{Ins: ins(fund(0)), Fee: 1000, Cls: "small"},
				{Ins: ins(out(1, 0)), Fee: 1000},
				{Ins: ins(out(2, 0)), Fee: 1000},
				{Ins: ins(out(3, 0)), Fee: 1000},
			}}),
		// Lock times with the standardness checks on (all scripts P2SH): a time
		// lock between the median time past and the wall clock, height locks
		// that become final after one block, past and future locks.
		defaults(Universe{Name: "locktime", NFund: 2, SlotParent: []int{0, 1}, MaxOrphans: 1, MaxBlockTxs: 1, Standalone: false, Standard: true,
			Txs: []TxSpec{
				{Ins: ins(fund(0)), Fee: 1000, VSize: 150, Lock: "tbetween"},
				{Ins: ins(fund(1)), Fee: 1000, VSize: 150, Lock: "h1"},
				{Ins: ins(out(2, 0)), Fee: 1000, VSize: 150, Lock: "tpast"},
				{Ins: ins(fund(0)), Fee: 2000, VSize: 150, Lock: "tfuture"},
				{Ins: ins(fund(0)), Fee: 1500, VSize: 150, Lock: "h0", Rbf: true},
			}}),
		// The same lock classes without the standardness checks (AcceptNonStd, the
		// regtest / simnet default), non-standard scripts.
		defaults(Universe{Name: "locknonstd", NFund: 2, SlotParent: []int{0, 1}, MaxOrphans: 1, MaxBlockTxs: 1, Standalone: false,
			Txs: []TxSpec{
				{Ins: ins(fund(0)), Fee: 1000, Lock: "tbetween"},
				{Ins: ins(fund(1)), Fee: 1000, Lock: "h1"},
				{Ins: ins(out(2, 0)), Fee: 1000},
				{Ins: ins(fund(0)), Fee: 2000, Lock: "tfuture"},
				{Ins: ins(fund(1)), Fee: 1500, Lock: "h2"},
			}}),
		// Mining shapes: a free transaction, witness transactions (fund coin 2 and
		// output 1 of t1 are P2WSH), a low fee rate, a dependency chain.
		defaults(Universe{Name: "mining", NFund: 3, SlotParent: []int{0}, MaxOrphans: 0, MaxBlockTxs: 1, Standalone: false,
			WitCoins: map[Outpoint]bool{fund(2): true, out(1, 1): true},
			Txs: []TxSpec{
				{Ins: ins(fund(0)), NOut: 2, Fee: 5000, VSize: 150},
				{Ins: ins(out(1, 0)), Fee: 0},
				{Ins: ins(out(1, 1)), Fee: 2000, VSize: 120},
				{Ins: ins(fund(2)), Fee: 300},
				{Ins: ins(fund(1)), Fee: 1000, Rbf: true},
			}}),
		// Signature operation limit: t1 (cost 40000) and t2 (39996) fill the block
		// up to a P2PKH coinbase (4); t3 spends a P2WSH coin whose witness script holds
		// one OP_CHECKSIG (cost 1) at a low fee rate, so it is the last candidate.
		// t4 spends a plain coin and then a P2SH coin whose redeem script holds three OP_CHECKSIG.
		defaults(Universe{Name: "sigops", NFund: 6, SlotParent: []int{0}, MaxOrphans: 0, MaxBlockTxs: 1, Standalone: false,
			WitCoins: map[Outpoint]bool{fund(3): true}, WitSigOps: map[Outpoint]int{fund(3): 1}, P2SHSigOps: map[Outpoint]int{fund(5): 3},
			Txs: []TxSpec{
				{Ins: ins(fund(0)), Fee: 9000, VSize: 700, SigOps: 500},
				{Ins: ins(fund(1)), Fee: 8000, VSize: 700, SigOps: 499, SigOpsCS: 19},
				{Ins: ins(fund(3)), Fee: 150},
				{Ins: ins(fund(4), fund(5)), Fee: 2000, VSize: 250},
			}}),
		// Subsidy halving every four blocks: the second block mined here (absolute
		// height 4) is a halving block, templates are made for heights 3, 4 and 5.
		defaults(Universe{Name: "halving", NFund: 1, SlotParent: []int{0, 1}, MaxOrphans: 0, MaxBlockTxs: 1, Standalone: false, SubsidyInterval: 4,
			Txs: []TxSpec{
				{Ins: ins(fund(0)), Fee: 1000},
				{Ins: ins(out(1, 0)), Fee: 2000},
			}}),
		// Required difficulty above the minimum on a ReduceMinDifficulty network
		// (retargeting every 20 blocks, base chain of 41 blocks): templates made and
		// refreshed on either side of the twenty-minute boundary.
		defaults(Universe{Name: "retarget", NFund: 1, SlotParent: []int{0}, MaxOrphans: 0, MaxBlockTxs: 1, Standalone: false, Retarget: true,
			Txs: []TxSpec{
				{Ins: ins(fund(0)), Fee: 1000},
				{Ins: ins(out(1, 0)), Fee: 2000},
			}}),
	}
}

// EvictionBoundary is the scripted scenario around MaxReplacementEvictions:
// t1 signals and has a hundred outputs, t2..t101 spend one each, t102
// replaces t1.  With 99 children pooled the replacement evicts exactly 100
// transactions (allowed), with 100 children it would evict 101 (refused).
func EvictionBoundary() *Universe {
	u := Universe{Name: "evict100", NFund: 1, SlotParent: []int{0}, MaxOrphans: 0, Standalone: true}
	u.Txs = append(u.Txs, TxSpec{Ins: ins(fund(0)), NOut: 100, Fee: 30000, VSize: AutoSize, Rbf: true})
	for i := 0; i < 100; i++ {
		u.Txs = append(u.Txs, TxSpec{Ins: ins(out(1, i)), Fee: 1000, VSize: AutoSize})
	}
	u.Txs = append(u.Txs, TxSpec{Ins: ins(fund(0)), Fee: 200000})
	const R = 102
	u.Scripted = append(u.Scripted, [2]int{1, 1})
	for t := 2; t <= 100; t++ {
		u.Scripted = append(u.Scripted, [2]int{1, t})
	}
	u.Scripted = append(u.Scripted, [2]int{2, R}, [2]int{1, 101}, [2]int{2, R}, [2]int{1, R}, [2]int{3, 101}, [2]int{1, R}, [2]int{2, 1}, [2]int{1, 2})
	return defaults(u)
}

// RandomUniverse draws a small universe from the seed.  Degenerate draws (no
// dependency and no conflict between the transactions) are redrawn.
func RandomUniverse(rng *rand.Rand, name string, n int) *Universe {
	for {
		u := randomUniverse(rng, name, n)
		deps, confl := 0, 0
		for i, tx := range u.Txs {
			for _, in := range tx.Ins {
				if in.Src > 0 {
					deps++
				}
				for j := 0; j < i; j++ {
					for _, in2 := range u.Txs[j].Ins {
						if in == in2 {
							confl++
						}
					}
				}
			}
		}
		if deps >= 1 && confl >= 1 {
			return u
		}
	}
}

func randomUniverse(rng *rand.Rand, name string, n int) *Universe {
	u := Universe{Name: name, NFund: 2, MaxBlockTxs: 1, MaxReorgTxs: 1, WitCoins: map[Outpoint]bool{}}
	switch rng.Intn(4) {
	case 0, 1:
		u.SlotParent = []int{0}
	case 2:
		u.SlotParent = []int{0, 1}
		u.Maturity = 2
	default:
		u.SlotParent = []int{0, 0, 2}
	}
	u.MaxOrphans = []int{0, 1, 1, 2, 2, 2}[rng.Intn(6)]
	u.RejectRepl = rng.Intn(6) == 0
	u.Standalone = rng.Intn(2) == 0
	u.Standard = rng.Intn(4) == 0 // standardness checks on: P2SH scripts, lock times
	locks := []string{"none", "none", "h0", "h1", "h2", "tpast", "tbetween", "tfuture"}
	if rng.Intn(3) == 0 {
		u.MaxOrphanSize = 180
	}
	fees := []int64{0, 50, 1000, 1500, 2000, 3100, 5000, 9000}
	for t := 1; t <= n; t++ {
		var cand []Outpoint
		for i := 0; i < u.NFund; i++ {
			cand = append(cand, fund(i), fund(i), fund(i))
		}
		if u.Maturity == 2 {
			cand = append(cand, baseCB())
		}
		if len(u.SlotParent) > 1 {
			cand = append(cand, cb(1))
		}
		for p := 1; p < t; p++ {
			for i := 0; i < u.Txs[p-1].NOut; i++ {
				cand = append(cand, out(p, i), out(p, i), out(p, i)) // prefer dependencies
			}
		}
		tx := TxSpec{NOut: 1 + rng.Intn(2), Fee: fees[rng.Intn(len(fees))], VSize: []int{150, 200, 250}[rng.Intn(3)], Rbf: rng.Intn(2) == 0}
		if u.Standard {
			tx.VSize += 100
		}
		if u.Standard || rng.Intn(3) == 0 {
			tx.Lock = locks[rng.Intn(len(locks))]
		}
		k := 1
		if rng.Intn(4) == 0 {
			k = 2
		}
		if t == 1 {
			cand, k = []Outpoint{fund(0)}, 1
		}
		seen := map[Outpoint]bool{}
		for len(tx.Ins) < k {
			c := cand[rng.Intn(len(cand))]
			if !seen[c] {
				seen[c] = true
				tx.Ins = append(tx.Ins, c)
			}
		}
		if t > 1 {
			switch rng.Intn(16) {
			case 0:
				if !u.Standard {
					tx.Cls = "badscript"
				}
			case 1:
				tx.Cls = "negfee"
			case 2:
				tx.Cls = "insane"
			}
		}
		u.Txs = append(u.Txs, tx)
	}
	r := defaults(u)
	for r.Validate() != nil && r.FreeLimit < 2000 {
		r.FreeLimit += 35
	}
	return r
}
