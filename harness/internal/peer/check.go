package peer

import (
	"bytes"
	"encoding/json"
	"fmt"
	"os"
	"os/exec"
	"path/filepath"
	"regexp"
	"sort"
	"strings"
	"sync"
	"time"

	"verif/harness/internal/tla"
	"verif/harness/internal/tlc"
	"verif/harness/internal/vrun"
)

const traceCfgFmt = `SPECIFICATION TraceSpec
CONSTANTS
  Senders <- TraceSenders
  Cap = 50
  Timers = FALSE
  MaxPings = 0
  Scenarios = {}
  FixEarly = %s
  FixStall = TRUE
  FixLatePut = %s
  Diag = %s
`

// Which repairs the tree under test contains (Peer.tla: Fix* constants): FixStall
// btcd 7c169cbd, FixEarly c5164f45, FixLatePut e9426a69.  The specification of the
// current tree therefore has none of the recorded defects any more: a
// recurrence is not a behaviour of the spec and is reported as a VIOLATION.
// VERIF_PEER_TREE_FIX=early,lateput only adds repairs (development switch).
var (
	treeFixEarly   = true
	treeFixLatePut = true
)

func init() {
	for _, f := range strings.Split(os.Getenv("VERIF_PEER_TREE_FIX"), ",") {
		switch strings.TrimSpace(f) {
		case "early":
			treeFixEarly = true
		case "lateput":
			treeFixLatePut = true
		}
	}
}

func traceCfg(diag string) string {
	return fmt.Sprintf(traceCfgFmt, tlaBool(treeFixEarly), tlaBool(treeFixLatePut), diag)
}

// stable keys of the violations this check can report
const (
	keyDoneLostEarly = "done-lost:queued-during-negotiation-then-handshake-aborted"
	// fixed in /repo (7c169cbd): the specification of the current tree (FixStall = TRUE)
	// no longer has this behaviour, so a recurrence is rejected by TracePeer and
	// reported as "leak:not-a-behaviour-of-the-spec"
	keyLeakStall   = "leak:stallhandler-exits-after-first-quit-channel"
	keyLeakLatePut = "leak:blocking-put-after-queuehandler-drain"
)

type tier struct {
	simScenarios int
	batch        int
	drivers      int
	mc           []mcRun
}

type mcRun struct {
	name      string
	scenarios string // operator of MCPeer.tla
	timers    bool
	pings     int
	fix       bool
	props     []string // temporal properties (liveness run)
	strict    bool     // expected to be violated (documents the recorded defects in the spec)
	timeout   time.Duration
	coverage  bool
}

var safetyInvs = []string{"TypeOK", "HandOff", "DoneAtMostOnce", "RejectDoneAtMostOnce", "NoEarlyCallback",
	"HandlersNeedHandshake", "NegotiatedMin", "RefusedNeverConnects", "BadTrafficEndsReading", "NonceRecordedBeforeWire", "FIFO", "FIFOPrefix", "QueuedBeforeDisconnectSignalled"}

func tierFor(ctx *vrun.Ctx) tier {
	if ctx.Thorough {
		return tier{simScenarios: 2400, batch: 80, drivers: 6, mc: []mcRun{
			{name: "safety", scenarios: "ScenariosSafetyThorough", timeout: 40 * time.Minute, coverage: true},
			{name: "safety-timers", scenarios: "ScenariosTimers", timers: true, pings: 1, timeout: 15 * time.Minute, coverage: true},
			{name: "liveness", scenarios: "ScenariosLiveThorough", props: []string{"Termination"}, timeout: 40 * time.Minute},
			{name: "repaired", scenarios: "ScenariosLiveQuick", fix: true, props: []string{"TerminationStrict"}, timeout: 15 * time.Minute},
		}}
	}
	return tier{simScenarios: 100, batch: 40, drivers: 4, mc: []mcRun{
		{name: "safety", scenarios: "ScenariosSafetyQuick", timeout: 6 * time.Minute},
		{name: "liveness", scenarios: "ScenariosLiveQuick", props: []string{"Termination"}, timeout: 6 * time.Minute},
	}}
}

func (m mcRun) cfg() string {
	var sb strings.Builder
	fmt.Fprintf(&sb, "SPECIFICATION Spec\nCONSTANTS\n  Senders <- MCSenders\n  Cap = 2\n  Timers = %s\n  MaxPings = %d\n  Scenarios <- %s\n",
		tlaBool(m.timers), m.pings, m.scenarios)
	// FixStall is part of the current tree (repaired in /repo by 7c169cbd); the
	// "repaired" configuration switches the remaining repairs on as well.
	early, late := treeFixEarly || m.fix, treeFixLatePut || m.fix
	fmt.Fprintf(&sb, "  FixEarly = %s\n  FixStall = TRUE\n  FixLatePut = %s\n", tlaBool(early), tlaBool(late))
	sb.WriteString("INVARIANTS\n")
	for _, inv := range safetyInvs {
		if early && inv == "QueuedBeforeDisconnectSignalled" {
			inv = "QueuedBeforeDisconnectSignalledStrict" // no excuse left
		}
		sb.WriteString("  " + inv + "\n")
	}
	if early && late {
		sb.WriteString("  EveryReturnedSendSignalled\n")
	}
	if len(m.props) > 0 {
		sb.WriteString("PROPERTIES\n")
		for _, p := range m.props {
			if late && p == "Termination" {
				p = "TerminationStrict" // no excuse left
			}
			sb.WriteString("  " + p + "\n")
		}
	}
	return sb.String()
}

// actions that only exist for the Timers / repair configurations
// actions that only exist with a repair switched on
var lateActions = map[string]bool{"IhRjEscape": true, "QmAfter": true, "IvEscape": true}
var earlyActions = map[string]bool{"StWaitQuit": true, "StDrain": true}

func runMC(ctx *vrun.Ctx, t tier) error {
	seenAction := map[string]int64{}
	audited := false
	var mu sync.Mutex
	var firstErr error
	sem := make(chan struct{}, 2)
	var wg sync.WaitGroup
	for _, m := range t.mc {
		wg.Add(1)
		sem <- struct{}{}
		go func(m mcRun) {
			defer wg.Done()
			defer func() { <-sem }()
			ctx.Logf("TLC %s (%s) ...", m.name, m.scenarios)
			res, err := tlc.Run(tlc.Opts{SpecDir: ctx.SpecDir("peer"), Module: "MCPeer", CfgText: m.cfg(), Workers: 3,
				Timeout: m.timeout, Scratch: ctx.Scratch, Coverage: m.coverage, HeapGB: 6})
			mu.Lock()
			defer mu.Unlock()
			if err != nil {
				if firstErr == nil {
					firstErr = fmt.Errorf("TLC %s: %w", m.name, err)
				}
				return
			}
			if !res.OK {
				if firstErr == nil {
					firstErr = fmt.Errorf("TLC %s: the specification violates %s %s (a counterexample of the specification alone is not a verdict about btcd; the spec or its known-defect excuses need attention)\n%s",
						m.name, res.ErrKind, res.ErrName, tail(res.Output, 2500))
				}
				return
			}
			ctx.Logf("TLC %s: %d distinct / %d generated states, %.0fs", m.name, res.Distinct, res.Generated, res.WallS)
			ctx.AddModel(res.Distinct, res.Generated)
			ctx.SetExtra("tlc_"+m.name, map[string]any{"distinct": res.Distinct, "generated": res.Generated, "depth": res.Depth, "wall_s": res.WallS})
			if m.coverage {
				audited = true
				for a, n := range actionCounts(res.Output) {
					seenAction[a] += n
				}
			}
		}(m)
	}
	wg.Wait()
	if firstErr != nil {
		return firstErr
	}
	if audited {
		var never []string
		for a, n := range seenAction {
			if n == 0 && !(lateActions[a] && !treeFixLatePut) && !(earlyActions[a] && !treeFixEarly) {
				never = append(never, a)
			}
		}
		sort.Strings(never)
		ctx.SetExtra("actions_never_taken", never)
		if len(never) > 0 {
			return fmt.Errorf("vacuity audit: actions of Peer.tla never taken in any configuration: %v", never)
		}
	}
	return nil
}

var reCov = regexp.MustCompile(`(?m)^<(\w+) line \d+, col \d+ to line \d+, col \d+ of module Peer(?: \([\d ]+\))?>: (\d+):(\d+)`)

// actionCounts sums TLC's per-action coverage (distinct states found through
// the action) over all instances of an action definition; the last coverage
// report TLC prints is the final one.
func actionCounts(out string) map[string]int64 {
	if i := strings.LastIndex(out, "The coverage statistics at"); i >= 0 {
		out = out[i:]
	}
	m := map[string]int64{}
	for _, g := range reCov.FindAllStringSubmatch(out, -1) {
		var n int64
		fmt.Sscan(g[3], &n)
		m[g[1]] += n
	}
	return m
}

func tail(s string, n int) string {
	if len(s) > n {
		return s[len(s)-n:]
	}
	return s
}

// scenario generation ------------------------------------------------------------

func scenarioFromState(st tla.State) (Scenario, error) {
	var sc Scenario
	defer func() { recover() }()
	v := st["scn"]
	sc.Dir = v.F("dir").Str()
	sc.LPV = v.F("lpv").Int()
	sc.RClose = v.F("rclose").Bool()
	sc.Net = v.F("net").Str()
	sc.Loop = v.F("loop").Bool()
	sc.Sib = v.F("sib").Bool()
	for _, m := range v.F("script").Seq() {
		sc.Script = append(sc.Script, RMsg{K: m.F("k").Str(), PV: m.F("pv").Int(), Self: m.F("self").Bool()})
	}
	sc.Plan = map[string][]int{}
	for _, s := range senderNames {
		if v.F("plan").Has(s) {
			sc.Plan[s] = v.F("plan").AtS(s).Ints()
		}
	}
	for _, k := range v.F("invs").Seq() {
		sc.Invs = append(sc.Invs, k.Str())
	}
	w := st["steer"]
	sc.Steer = Steer{Feed: w.F("feed").Str(), InvAt: w.F("invAt").Str(), DiscAt: w.F("discAt").Str(),
		Hold: w.F("hold").Bool(), StallRead: w.F("stallRead").Int(), SendAt: map[string]string{}}
	for _, s := range senderNames {
		if w.F("sendAt").Has(s) {
			sc.Steer.SendAt[s] = w.F("sendAt").AtS(s).Str()
		}
	}
	if sc.Dir == "" {
		return sc, fmt.Errorf("incomplete scenario state")
	}
	return sc, nil
}

func genScenarios(ctx *vrun.Ctx, t tier) ([]Scenario, error) {
	var out []Scenario
	core, err := tlc.Run(tlc.Opts{SpecDir: ctx.SpecDir("peer"), Module: "PeerScenarios", Config: "PeerScenarios_core.cfg",
		Workers: 1, DumpGraph: true, Timeout: 5 * time.Minute, Scratch: ctx.Scratch})
	if err != nil {
		return nil, fmt.Errorf("scenario enumeration (core): %w", err)
	}
	if !core.OK || core.Graph == nil {
		return nil, fmt.Errorf("scenario enumeration (core) failed:\n%s", tail(core.Output, 2000))
	}
	var coreScs []Scenario
	for _, n := range core.Graph.Order {
		if n.State["stage"].Str() != "done" {
			continue
		}
		sc, err := scenarioFromState(n.State)
		if err != nil {
			return nil, err
		}
		coreScs = append(coreScs, sc)
	}
	sort.Slice(coreScs, func(i, j int) bool {
		a, _ := json.Marshal(coreScs[i])
		b, _ := json.Marshal(coreScs[j])
		return string(a) < string(b)
	})
	ctx.AddModel(core.Distinct, core.Generated)
	sim, err := tlc.Run(tlc.Opts{SpecDir: ctx.SpecDir("peer"), Module: "PeerScenarios", Config: "PeerScenarios_sim.cfg",
		Sim: &tlc.Sim{Num: t.simScenarios, Depth: 12, Seed: ctx.Seed}, Timeout: 15 * time.Minute, Scratch: ctx.Scratch})
	if err != nil {
		return nil, fmt.Errorf("scenario simulation: %w", err)
	}
	ctx.AddModel(0, sim.Generated)
	out = append(out, coreScs...)
	for _, b := range sim.Behaviours {
		if len(b) == 0 {
			continue
		}
		last := b[len(b)-1].State
		if last["stage"].Str() != "done" {
			continue
		}
		sc, err := scenarioFromState(last)
		if err != nil {
			return nil, err
		}
		out = append(out, sc)
	}
	if len(out) < len(coreScs)+t.simScenarios/2 {
		return nil, fmt.Errorf("scenario generation produced only %d scenarios", len(out))
	}
	rng := ctx.Rand("peer-jitter")
	for i := range out {
		out[i].ID = i + 1
		out[i].Steer.Jitter = rng.Int63()
	}
	ctx.SetExtra("scenarios_core", len(coreScs))
	ctx.SetExtra("scenarios_simulated", len(out)-len(coreScs))
	return out, nil
}

// the race-instrumented driver ------------------------------------------------------

func buildDriver(ctx *vrun.Ctx) (string, bool, error) {
	hdir := filepath.Join(ctx.VerifDir, "harness")
	args := []string{"build", "-tags", "verif"}
	repo := os.Getenv("VERIF_REPO")
	if repo != "" && repo != "/repo" {
		b, err := os.ReadFile(filepath.Join(hdir, "go.mod"))
		if err != nil {
			return "", false, err
		}
		mod := strings.ReplaceAll(string(b), "=> /repo", "=> "+repo)
		mf := filepath.Join(ctx.Scratch, "drv.go.mod")
		if err := os.WriteFile(mf, []byte(mod), 0o644); err != nil {
			return "", false, err
		}
		sum, err := os.ReadFile(filepath.Join(hdir, "go.sum"))
		if err != nil {
			return "", false, err
		}
		if err := os.WriteFile(filepath.Join(ctx.Scratch, "drv.go.sum"), sum, 0o644); err != nil {
			return "", false, err
		}
		args = append(args, "-modfile="+mf)
	}
	out := filepath.Join(ctx.Scratch, "peerdrv")
	try := func(race bool) error {
		a := append([]string(nil), args...)
		if race {
			a = append(a, "-race")
		}
		a = append(a, "-o", out, "./cmd/peer")
		cmd := exec.Command("go", a...)
		cmd.Dir = hdir
		cmd.Env = append(os.Environ(), "GOFLAGS=-mod=mod", "GOPROXY=off")
		b, err := cmd.CombinedOutput()
		if err != nil {
			return fmt.Errorf("go %s: %v\n%s", strings.Join(a, " "), err, tail(string(b), 3000))
		}
		return nil
	}
	if err := try(true); err != nil {
		ctx.Logf("race build failed, falling back to a plain build: %v", err)
		if err2 := try(false); err2 != nil {
			return "", false, err2
		}
		return out, false, nil
	}
	return out, true, nil
}

type raceReport struct {
	Key  string
	Text string
}

var reFrame = regexp.MustCompile(`(?m)^  (\S+)\(\)$`)

func parseRaceLog(text string) (reports []raceReport, harnessOnly []string) {
	for _, blk := range strings.Split(text, "==================") {
		if !strings.Contains(blk, "WARNING: DATA RACE") {
			continue
		}
		// the access stacks are the first two paragraphs
		paras := strings.Split(strings.TrimSpace(blk), "\n\n")
		var fns []string
		for i, p := range paras {
			if i >= 2 {
				break
			}
			fn := ""
			for _, m := range reFrame.FindAllStringSubmatch(p, -1) {
				if strings.Contains(m[1], "github.com/btcsuite/btcd/") {
					fn = strings.TrimPrefix(m[1], "github.com/btcsuite/btcd/")
					break
				}
			}
			fns = append(fns, fn)
		}
		sort.Strings(fns)
		key := strings.Join(fns, "|")
		if strings.Trim(key, "|") == "" {
			harnessOnly = append(harnessOnly, blk)
			continue
		}
		reports = append(reports, raceReport{Key: "race:" + key, Text: blk})
	}
	return
}

func drive(ctx *vrun.Ctx, t tier, scs []Scenario) ([]*Trace, []raceReport, error) {
	drv, race, err := buildDriver(ctx)
	if err != nil {
		return nil, nil, err
	}
	if race {
		ctx.SetExtra("race_detector", "driver built with go build -race")
	} else {
		ctx.SetExtra("race_detector", "unavailable: plain build")
		ctx.Assume("go build -race was not available: the data-race clause was not checked in this run")
	}
	k := t.drivers
	if k > len(scs) {
		k = len(scs)
	}
	chunks := make([][]Scenario, k)
	for i, sc := range scs {
		chunks[i%k] = append(chunks[i%k], sc)
	}
	type res struct {
		traces []*Trace
		races  string
		err    error
	}
	results := make([]res, k)
	var wg sync.WaitGroup
	for i := range chunks {
		wg.Add(1)
		go func(i int) {
			defer wg.Done()
			in := filepath.Join(ctx.Scratch, fmt.Sprintf("scn.%d.json", i))
			outp := filepath.Join(ctx.Scratch, fmt.Sprintf("traces.%d.ndjson", i))
			b, _ := json.Marshal(chunks[i])
			if err := os.WriteFile(in, b, 0o644); err != nil {
				results[i].err = err
				return
			}
			cmd := exec.Command(drv, "--drive", in, outp)
			racelog := filepath.Join(ctx.Scratch, fmt.Sprintf("race.%d", i))
			cmd.Env = append(os.Environ(), "GORACE=log_path="+racelog+" halt_on_error=0 exitcode=0 history_size=3", "GOMAXPROCS=4")
			var stderr bytes.Buffer
			cmd.Stderr = &stderr
			cmd.Stdout = &stderr
			done := make(chan error, 1)
			if err := cmd.Start(); err != nil {
				results[i].err = err
				return
			}
			go func() { done <- cmd.Wait() }()
			select {
			case err := <-done:
				if err != nil {
					results[i].err = fmt.Errorf("driver %d: %v\n%s", i, err, tail(stderr.String(), 3000))
					return
				}
			case <-time.After(40 * time.Minute):
				cmd.Process.Kill()
				results[i].err = fmt.Errorf("driver %d timed out", i)
				return
			}
			trs, err := ReadTraces(outp)
			if err != nil {
				results[i].err = err
				return
			}
			results[i].traces = trs
			logs, _ := filepath.Glob(racelog + ".*")
			for _, l := range logs {
				b, _ := os.ReadFile(l)
				results[i].races += string(b)
			}
		}(i)
	}
	wg.Wait()
	var all []*Trace
	var reports []raceReport
	for i := range results {
		if results[i].err != nil {
			return nil, nil, results[i].err
		}
		all = append(all, results[i].traces...)
		rs, harnessOnly := parseRaceLog(results[i].races)
		if len(harnessOnly) > 0 {
			return nil, nil, fmt.Errorf("data race inside the harness itself:\n%s", tail(harnessOnly[0], 3000))
		}
		reports = append(reports, rs...)
	}
	sort.Slice(all, func(i, j int) bool { return all[i].Scn.ID < all[j].Scn.ID })
	if len(all) != len(scs) {
		return nil, nil, fmt.Errorf("drivers returned %d traces for %d scenarios", len(all), len(scs))
	}
	for _, tr := range all {
		if tr.Err != "" {
			return nil, nil, fmt.Errorf("driver failed on scenario %d (%s): %s", tr.Scn.ID, tr.Scn.Shape(), tr.Err)
		}
		for _, e := range tr.Events {
			if e.E == "harness-error" {
				return nil, nil, fmt.Errorf("driver failed on scenario %d: %s", tr.Scn.ID, e.B)
			}
		}
	}
	return all, reports, nil
}

// trace validation ------------------------------------------------------------------

type verdict struct {
	Refused, Started, VersionKnown, VerAck, Aborted, Stall, LatePut bool
	Nego, Wire                                                      int
	Lost, LostEarly                                                 []int
	Leak                                                            []string
	LeakAt                                                          map[string]string // process -> control point in the specification's explanation
}

// extractPrinted returns the values TLC printed that start with << "tag",
func extractPrinted(out, tag string) []tla.Value {
	var vals []tla.Value
	re := regexp.MustCompile(`<<\s*"` + tag + `"`)
	pos := 0
	for {
		loc := re.FindStringIndex(out[pos:])
		if loc == nil {
			break
		}
		start := pos + loc[0]
		depth := 0
		end := -1
		inStr := false
		for j := start; j < len(out); j++ {
			c := out[j]
			if inStr {
				if c == '\\' {
					j++
				} else if c == '"' {
					inStr = false
				}
				continue
			}
			switch {
			case c == '"':
				inStr = true
			case c == '<' && j+1 < len(out) && out[j+1] == '<':
				depth++
				j++
			case c == '>' && j+1 < len(out) && out[j+1] == '>':
				depth--
				j++
				if depth == 0 {
					end = j + 1
				}
			}
			if end >= 0 {
				break
			}
		}
		if end < 0 {
			break
		}
		if v, err := tla.ParseValue(out[start:end]); err == nil {
			vals = append(vals, v)
		}
		pos = end
	}
	return vals
}

func verdictOf(v tla.Value) verdict {
	var leak []string
	for _, x := range v.F("leak").Set() {
		leak = append(leak, x.Str())
	}
	sort.Strings(leak)
	at := map[string]string{}
	for _, x := range v.F("leakAt").Set() {
		at[x.Seq()[0].Str()] = x.Seq()[1].Str()
	}
	return verdict{LeakAt: at, Refused: v.F("refused").Bool(), Started: v.F("started").Bool(), VersionKnown: v.F("versionKnown").Bool(),
		VerAck: v.F("verAck").Bool(), Aborted: v.F("aborted").Bool(), Stall: v.F("stall").Bool(), LatePut: v.F("lateput").Bool(),
		Nego: v.F("nego").Int(), Wire: v.F("wire").Int(), Lost: v.F("lost").Ints(), LostEarly: v.F("lostEarly").Ints(), Leak: leak}
}

type batchResult struct {
	accepted  map[int]verdict // index in batch -> verdict
	states    int64
	generated int64
}

// validateBatch runs TracePeer over the chained traces (depth-first).
func validateBatch(ctx *vrun.Ctx, traces []*Trace, diag bool) (*batchResult, string, error) {
	res, err := tlc.Run(tlc.Opts{SpecDir: ctx.SpecDir("peer"), Module: "TracePeer", CfgText: traceCfg(tlaBool(diag)),
		Files: map[string][]byte{"TraceData.tla": []byte(TraceDataModule(traces))}, Workers: 1, DFS: !diag,
		Timeout: 20 * time.Minute, Scratch: ctx.Scratch, HeapGB: 3, KeepDir: os.Getenv("VERIF_PEER_KEEP") != ""})
	if err != nil {
		return nil, "", fmt.Errorf("TLC TracePeer: %w", err)
	}
	ctx.Logf("TracePeer batch of %d traces: %d states, %.0fs (%s)", len(traces), res.Distinct, res.WallS, res.Dir)
	if !res.OK {
		return nil, "", fmt.Errorf("TLC TracePeer failed: %s %s\n%s", res.ErrKind, res.ErrName, tail(res.Output, 3000))
	}
	br := &batchResult{accepted: map[int]verdict{}, states: res.Distinct, generated: res.Generated}
	for _, v := range extractPrinted(res.Output, "ACC") {
		el := v.Seq()
		if len(el) != 3 {
			continue
		}
		if _, dup := br.accepted[el[1].Int()-1]; !dup {
			br.accepted[el[1].Int()-1] = verdictOf(el[2])
		}
	}
	return br, res.Output, nil
}

// stuckAt returns the index (0-based) of the first event of the trace no
// explanation of the specification reaches.
func stuckAt(ctx *vrun.Ctx, tr *Trace) (int, error) {
	res, err := tlc.Run(tlc.Opts{SpecDir: ctx.SpecDir("peer"), Module: "TracePeer", CfgText: traceCfg("TRUE"),
		Files: map[string][]byte{"TraceData.tla": []byte(TraceDataModule([]*Trace{tr}))}, Workers: 1,
		Timeout: 20 * time.Minute, Scratch: ctx.Scratch, HeapGB: 3})
	if err != nil {
		return 0, fmt.Errorf("TLC TracePeer (diagnosis): %w", err)
	}
	max := 0
	for _, v := range extractPrinted(res.Output, "PROG") {
		el := v.Seq()
		if len(el) == 3 && el[2].Int() > max {
			max = el[2].Int()
		}
	}
	return max, nil
}

func eventsString(evs []Event) string {
	var parts []string
	for _, e := range evs {
		parts = append(parts, e.String())
	}
	return strings.Join(parts, " ")
}

func sameInts(a, b []int) bool {
	if len(a) != len(b) {
		return false
	}
	for i := range a {
		if a[i] != b[i] {
			return false
		}
	}
	return true
}

// judge turns one validated (or rejected) trace into verdicts.
func judge(ctx *vrun.Ctx, tr *Trace, v *verdict, stuck int) {
	replay := map[string]any{"scenario": tr.Scn, "events": eventsString(tr.Events), "leaks": tr.Leaks}
	dones := map[int]int{}
	qret := map[int]bool{}
	appCb, verackCb, wireMsg := 0, 0, 0
	var end Event
	for _, e := range tr.Events {
		switch e.E {
		case "done":
			dones[e.A]++
		case "qret":
			qret[e.A] = true
		case "cb":
			if e.B == "verack" {
				verackCb++
			} else if e.B != "version" && e.B != "sendaddrv2" {
				appCb++
			}
		case "wire":
			if e.B == "msg" || e.B == "inv" {
				wireMsg++
			}
		case "end":
			end = e
		}
	}
	ctx.AddEval(int64(len(tr.Events)))
	dup := false
	for m, n := range dones {
		if n > 1 {
			dup = true
			ctx.Violation("done-signalled-twice", fmt.Sprintf("scenario %d (%s): done channel of message %d signalled %d times", tr.Scn.ID, tr.Scn.Shape(), m, n), replay)
		}
	}
	if v == nil {
		if dup {
			return
		}
		ev := Event{E: "?"}
		if stuck < len(tr.Events) {
			ev = tr.Events[stuck]
		}
		key := "not-a-behaviour-of-the-spec:" + ev.E
		if ev.E == "wire" || ev.E == "cb" {
			key += ":" + ev.B
		}
		what := fmt.Sprintf("scenario %d (%s): the recorded events are not a behaviour of Peer.tla; no explanation gets past event #%d %s", tr.Scn.ID, tr.Scn.Shape(), stuck+1, ev)
		if ev.E == "end" {
			var missing []int
			for m := range qret {
				if dones[m] == 0 {
					missing = append(missing, m)
				}
			}
			sort.Ints(missing)
			switch {
			case len(end.L) > 0:
				key = "leak:not-a-behaviour-of-the-spec"
				what += fmt.Sprintf("; goroutines left: %v", tr.Leaks)
			case len(missing) > 0:
				key = "done-lost:not-a-behaviour-of-the-spec"
				what += fmt.Sprintf("; queued messages never signalled: %v", missing)
			default:
				what += fmt.Sprintf("; getters at the end: ProtocolVersion=%d flags=%s", end.A, end.B)
			}
		}
		replay["stuck_at"] = stuck + 1
		ctx.Violation(key, what, replay)
		return
	}
	// direct checks of the safety clauses against the specification's outcome
	ctx.AddEval(4)
	if v.Refused && (verackCb > 0 || appCb > 0 || wireMsg > 0 || strings.Contains(end.B, "A")) {
		ctx.Violation("refused-remote-connected", fmt.Sprintf("scenario %d (%s): the specification refuses this remote (self / obsolete / no version first) but the peer completed the handshake or delivered/sent application messages", tr.Scn.ID, tr.Scn.Shape()), replay)
	}
	if !v.Started && (appCb > 0 || wireMsg > 0) {
		ctx.Violation("traffic-before-handshake", fmt.Sprintf("scenario %d (%s): application callbacks or queued messages on the wire although the handlers never start in the specification", tr.Scn.ID, tr.Scn.Shape()), replay)
	}
	if end.A != v.Nego {
		ctx.Violation("negotiated-version", fmt.Sprintf("scenario %d (%s): ProtocolVersion()=%d, specification %d", tr.Scn.ID, tr.Scn.Shape(), end.A, v.Nego), replay)
	}
	if len(v.Leak) > 0 {
		// the shape comes from where the specification's explanation of the
		// trace has the goroutine blocked
		key := "leak:unexplained"
		for _, at := range v.LeakAt {
			switch at {
			case "sc", "sc1", "sc2", "sc3": // send on stallControl with stallHandler gone
				if v.Stall {
					key = keyLeakStall
				}
			case "rjwait", "rjput", "pongput", "put": // put / wait behind queueHandler's drain
				if v.LatePut && key != keyLeakStall {
					key = keyLeakLatePut
				}
			}
		}
		replay["blocked_at"] = v.LeakAt
		ctx.Violation(key, fmt.Sprintf("scenario %d (%s): goroutines of the peer never end after the disconnect: %v (specification: %v)", tr.Scn.ID, tr.Scn.Shape(), tr.Leaks, v.LeakAt), replay)
	}
	if len(v.Lost) > 0 {
		switch {
		case sameInts(v.Lost, v.LostEarly):
			ctx.Violation(keyDoneLostEarly, fmt.Sprintf("scenario %d (%s): QueueMessage returned before any disconnect request for messages %v, their done channels were never signalled (queued while the handshake was in progress, handlers never started)", tr.Scn.ID, tr.Scn.Shape(), v.Lost), replay)
		case len(v.Leak) > 0:
			// consequence of the goroutine left behind (reported above)
		default:
			ctx.Violation("done-lost:unexplained", fmt.Sprintf("scenario %d (%s): done channels of %v never signalled", tr.Scn.ID, tr.Scn.Shape(), v.Lost), replay)
		}
	}
}

func validateAll(ctx *vrun.Ctx, t tier, traces []*Trace) error {
	type job struct{ lo, hi int }
	var jobs []job
	for lo := 0; lo < len(traces); lo += t.batch {
		hi := lo + t.batch
		if hi > len(traces) {
			hi = len(traces)
		}
		jobs = append(jobs, job{lo, hi})
	}
	verdicts := make([]*verdict, len(traces))
	stuck := make([]int, len(traces))
	var mu sync.Mutex
	var firstErr error
	rejected := 0
	const maxRejected = 3 // every rejected trace is a violation already; do not spend the budget on more
	par := 5
	sem := make(chan struct{}, par)
	var wg sync.WaitGroup
	for _, j := range jobs {
		wg.Add(1)
		sem <- struct{}{}
		go func(j job) {
			defer wg.Done()
			defer func() { <-sem }()
			lo := j.lo
			for lo < j.hi {
				mu.Lock()
				stop := rejected >= maxRejected || firstErr != nil
				mu.Unlock()
				if stop {
					for ; lo < j.hi; lo++ {
						stuck[lo] = -1
					}
					return
				}
				br, _, err := validateBatch(ctx, traces[lo:j.hi], false)
				if err != nil {
					mu.Lock()
					if firstErr == nil {
						firstErr = err
					}
					mu.Unlock()
					return
				}
				ctx.AddModel(br.states, br.generated)
				n := 0
				for n < j.hi-lo {
					v, ok := br.accepted[n]
					if !ok {
						break
					}
					vv := v
					verdicts[lo+n] = &vv
					n++
				}
				lo += n
				if lo < j.hi {
					// traces[lo] has no explanation: find where it gets stuck, go on behind it
					k, err := stuckAt(ctx, traces[lo])
					if err != nil {
						mu.Lock()
						if firstErr == nil {
							firstErr = err
						}
						mu.Unlock()
						return
					}
					stuck[lo] = k
					lo++
					mu.Lock()
					rejected++
					mu.Unlock()
				}
			}
		}(j)
	}
	wg.Wait()
	if firstErr != nil {
		return firstErr
	}
	if err := negativeControls(ctx, traces, verdicts); err != nil {
		return err
	}
	accepted, skipped := 0, 0
	for i, tr := range traces {
		if verdicts[i] == nil && stuck[i] < 0 {
			skipped++
			continue
		}
		if verdicts[i] != nil {
			accepted++
		}
		judge(ctx, tr, verdicts[i], stuck[i])
	}
	if skipped > 0 {
		ctx.Logf("%d traces not validated: %d traces were already rejected by the specification", skipped, rejected)
		ctx.SetExtra("traces_not_validated_after_rejections", skipped)
	}
	ctx.AddTraces(int64(len(traces) - skipped))
	ctx.SetExtra("traces_accepted_by_spec", accepted)
	return nil
}

// negativeControls shows on every run that the binding is not vacuous: an
// accepted trace is corrupted in three ways (wrong negotiated version reported
// at the end, a done signal removed, two queued messages swapped on the wire)
// and TLC must reject each corrupted copy.
func negativeControls(ctx *vrun.Ctx, traces []*Trace, verdicts []*verdict) error {
	clone := func(t *Trace) *Trace {
		c := *t
		c.Events = append([]Event(nil), t.Events...)
		return &c
	}
	var controls []*Trace
	var names []string
	have := map[string]bool{}
	for i, tr := range traces {
		if verdicts[i] == nil || len(verdicts[i].Leak) > 0 {
			continue
		}
		var wires []int
		written := map[int]bool{}
		for k, e := range tr.Events {
			if e.E == "wire" && e.B == "msg" {
				wires = append(wires, k)
				written[e.A] = true
			}
		}
		if !have["nego"] && len(tr.Events) > 0 {
			c := clone(tr)
			c.Events[len(c.Events)-1].A++
			controls, names = append(controls, c), append(names, "nego")
			have["nego"] = true
		}
		if !have["done"] {
			for k, e := range tr.Events {
				if e.E == "done" && written[e.A] {
					c := clone(tr)
					c.Events = append(c.Events[:k:k], c.Events[k+1:]...)
					controls, names = append(controls, c), append(names, "done")
					have["done"] = true
					break
				}
			}
		}
		if !have["fifo"] && len(wires) >= 2 {
			// only a pair that was queued one after the other (the first call returned before the
			// second began) has a mandatory wire order; concurrent senders may legally be written either way
			qcall, qret := map[int]int{}, map[int]int{}
			for k, e := range tr.Events {
				if e.E == "qcall" {
					qcall[e.A] = k
				}
				if e.E == "qret" {
					qret[e.A] = k
				}
			}
			for j := 0; j+1 < len(wires); j++ {
				a, b := wires[j], wires[j+1]
				ra, okA := qret[tr.Events[a].A]
				cb, okB := qcall[tr.Events[b].A]
				if okA && okB && ra < cb {
					c := clone(tr)
					c.Events[a], c.Events[b] = c.Events[b], c.Events[a]
					controls, names = append(controls, c), append(names, "fifo")
					have["fifo"] = true
					break
				}
			}
		}
		if len(have) == 3 {
			break
		}
	}
	if len(controls) == 0 {
		return fmt.Errorf("negative controls: no accepted trace to corrupt")
	}
	errs := make([]error, len(controls))
	var wg sync.WaitGroup
	for i := range controls {
		wg.Add(1)
		go func(i int) {
			defer wg.Done()
			br, _, err := validateBatch(ctx, controls[i:i+1], false)
			if err != nil {
				errs[i] = err
				return
			}
			if _, ok := br.accepted[0]; ok {
				errs[i] = fmt.Errorf("negative control %q: TracePeer accepted a corrupted trace (%s): the binding is vacuous", names[i], eventsString(controls[i].Events))
			}
		}(i)
	}
	wg.Wait()
	for _, e := range errs {
		if e != nil {
			return e
		}
	}
	ctx.AddEval(int64(len(controls)))
	ctx.SetExtra("negative_controls_rejected", names)
	return nil
}

// RunC18 is the check.
func RunC18(ctx *vrun.Ctx) error {
	t := tierFor(ctx)
	ctx.Ev.Coverage.Rule = "scenarios = remote script (<= 4 messages after an optional valid handshake prefix, over version{208,209,60000,60001,70001,70002,70015,70016,70017,self}, verack, sendaddrv2, unknown, ping, getaddr, malformed, wrong-magic) x direction x local version x chain parameters {main, testnet3, nil, regtest, simnet} x remote address {127.0.0.1, routable} x remote close x 2 senders (<=3 messages; 6 senders x 10 messages against the full output queue in the flood scenarios) x inventory x steering of the schedule (sender start, disconnect point, held writes, held reader), sampled by TLC -simulate from PeerScenarios.tla plus its enumerated core list; each is run against a real peer.Peer (race build) and the recorded observable events are validated against Peer.tla by TLC (TracePeer.tla). distinct = distinct scenario shape + outcome class"
	ctx.Assume("v1 transport only (UsingV2Conn=false); BIP324 is property C19")
	ctx.Assume("wall-clock timers of the peer (negotiate 30s, idle 5min, stall 15s tick, ping 2min) never fire in the recorded runs; they are model-checked as nondeterministic steps only")
	ctx.Assume("handshake listeners (OnVersion, OnVerAck, OnSendAddrV2) and the raw OnRead/OnWrite observers are not 'protocol messages delivered to the application'")
	ctx.Assume("a send counts as queued before the disconnect request when QueueMessage returned before the disconnect flag was set by anyone (Disconnect call, remote close, protocol error)")

	var mcErr error
	var wg sync.WaitGroup
	wg.Add(1)
	go func() {
		defer wg.Done()
		mcErr = runMC(ctx, t)
	}()

	scs, err := genScenarios(ctx, t)
	if err != nil {
		wg.Wait()
		return err
	}
	ctx.Logf("%d scenarios generated by TLC", len(scs))
	traces, races, err := drive(ctx, t, scs)
	if err != nil {
		wg.Wait()
		return err
	}
	ctx.Logf("%d scenarios driven through the real peer, %d race reports", len(traces), len(races))
	// a done channel that fired twice is a violation on its face; such a trace is
	// reported at once and not handed to TLC (its rejection would only cost time)
	var clean []*Trace
	for _, tr := range traces {
		n := map[int]int{}
		dup := false
		for _, e := range tr.Events {
			if e.E == "done" {
				n[e.A]++
				dup = dup || n[e.A] > 1
			}
		}
		if dup {
			judge(ctx, tr, nil, 0)
		} else {
			clean = append(clean, tr)
		}
	}
	if err := validateAll(ctx, t, clean); err != nil {
		wg.Wait()
		return err
	}
	for _, r := range races {
		ctx.Violation(r.Key, "data race reported by the race detector", map[string]any{"report": r.Text})
	}
	for i, tr := range traces {
		cls := "ok"
		for _, e := range tr.Events {
			if e.E == "end" {
				cls = e.B + fmt.Sprint(len(e.L))
			}
		}
		ctx.Distinct(tr.Scn.Shape() + "|" + cls)
		if i%(len(traces)/4+1) == 0 {
			ctx.Sample(map[string]any{"scenario": tr.Scn, "events": eventsString(tr.Events)})
		}
	}
	wg.Wait()
	if mcErr != nil {
		return mcErr
	}
	return nil
}
