package peer

import (
	"bytes"
	"encoding/binary"
	"io"
	"net"
	"sync"
	"time"

	"github.com/btcsuite/btcd/chainhash/v2"
	"github.com/btcsuite/btcd/wire/v2"
)

// recorder owns the event log and the in-memory connection of one scenario.
// One mutex serialises the log and every state change of the conn, so the
// order of the logged conn events is the real order of those state changes.
type recorder struct {
	mu     sync.Mutex
	cond   *sync.Cond
	events []Event
	net    wire.BitcoinNet

	// remote -> peer
	in       []byte
	bounds   []int // absolute end offset of every fed message
	fedBytes int
	consumed int
	rdMsgs   int
	// peer -> remote
	out          []byte
	hold         bool
	remoteClosed bool
	localClosed  bool
	closeCalls   int
	versionNonce uint64
	haveVersion  bool
	silent       bool // donor connections: no events
	// sibling (donor) connections whose version write is kept in flight: the
	// Write call that carries the nonce does not return before release
	stick     bool
	released  bool
	onNonce   func() // called once (lock held) when the version nonce is on the wire
	lastEvent time.Time
}

func newRecorder(btcnet wire.BitcoinNet) *recorder {
	r := &recorder{net: btcnet, lastEvent: time.Now()}
	r.cond = sync.NewCond(&r.mu)
	return r
}

// logLocked appends an event; r.mu must be held.
func (r *recorder) logLocked(e Event) {
	if r.silent {
		r.cond.Broadcast()
		return
	}
	r.events = append(r.events, e)
	r.lastEvent = time.Now()
	r.cond.Broadcast()
}

func (r *recorder) log(e Event) {
	r.mu.Lock()
	r.logLocked(e)
	r.mu.Unlock()
}

// count returns the number of logged events matching f; r.mu must be held.
func (r *recorder) countLocked(f func(Event) bool) int {
	n := 0
	for _, e := range r.events {
		if f(e) {
			n++
		}
	}
	return n
}

// waitFor blocks until pred (evaluated under the lock) holds or max elapsed.
// Only used for steering the schedule, never for verdicts.
func (r *recorder) waitFor(max time.Duration, pred func() bool) bool {
	deadline := time.Now().Add(max)
	t := time.AfterFunc(max, func() {
		r.mu.Lock()
		r.cond.Broadcast()
		r.mu.Unlock()
	})
	defer t.Stop()
	r.mu.Lock()
	defer r.mu.Unlock()
	for !pred() {
		if !time.Now().Before(deadline) {
			return false
		}
		r.cond.Wait()
	}
	return true
}

// feed makes the bytes of the next script message readable by the peer.
func (r *recorder) feed(idx int, b []byte) bool {
	r.mu.Lock()
	defer r.mu.Unlock()
	if r.localClosed || r.remoteClosed {
		return false
	}
	r.in = append(r.in, b...)
	r.fedBytes += len(b)
	r.bounds = append(r.bounds, r.fedBytes)
	r.logLocked(Event{E: "feed", A: idx})
	return true
}

func (r *recorder) closeRemote() {
	r.mu.Lock()
	defer r.mu.Unlock()
	if r.remoteClosed {
		return
	}
	r.remoteClosed = true
	r.logLocked(Event{E: "rclose"})
}

func (r *recorder) setHold(h bool) {
	r.mu.Lock()
	r.hold = h
	r.cond.Broadcast()
	r.mu.Unlock()
}

// memConn is the peer's end of the connection.
type memConn struct {
	r     *recorder
	laddr net.Addr
	raddr net.Addr
}

var errClosed = io.ErrClosedPipe

func (c *memConn) Read(b []byte) (int, error) {
	r := c.r
	r.mu.Lock()
	defer r.mu.Unlock()
	for {
		if r.localClosed {
			return 0, errClosed
		}
		if len(b) == 0 {
			return 0, nil
		}
		if len(r.in) > 0 {
			n := copy(b, r.in)
			r.in = r.in[n:]
			r.consumed += n
			for r.rdMsgs < len(r.bounds) && r.consumed >= r.bounds[r.rdMsgs] {
				r.rdMsgs++
				r.logLocked(Event{E: "rd", A: r.rdMsgs})
			}
			return n, nil
		}
		if r.remoteClosed {
			return 0, io.EOF
		}
		r.cond.Wait()
	}
}

func (c *memConn) Write(b []byte) (int, error) {
	r := c.r
	r.mu.Lock()
	defer r.mu.Unlock()
	for r.hold && !r.localClosed && !r.remoteClosed {
		r.cond.Wait()
	}
	if r.localClosed || r.remoteClosed {
		return 0, errClosed
	}
	r.out = append(r.out, b...)
	if r.stick {
		// header (24) + version payload up to and including the nonce (80)
		if !r.haveVersion && len(r.out) >= wire.MessageHeaderSize+80 {
			r.versionNonce = binary.LittleEndian.Uint64(r.out[wire.MessageHeaderSize+72 : wire.MessageHeaderSize+80])
			r.haveVersion = true
			if r.onNonce != nil {
				r.onNonce()
			}
			r.cond.Broadcast()
			for !r.released && !r.localClosed {
				r.cond.Wait()
			}
		}
		return len(b), nil
	}
	for len(r.out) >= wire.MessageHeaderSize {
		plen := int(binary.LittleEndian.Uint32(r.out[16:20]))
		total := wire.MessageHeaderSize + plen
		if len(r.out) < total {
			break
		}
		r.logLocked(r.classify(r.out[:total]))
		r.out = r.out[total:]
	}
	return len(b), nil
}

func (c *memConn) Close() error {
	r := c.r
	r.mu.Lock()
	defer r.mu.Unlock()
	r.closeCalls++
	r.localClosed = true
	r.logLocked(Event{E: "connclose"})
	return nil
}

func (c *memConn) LocalAddr() net.Addr                { return c.laddr }
func (c *memConn) RemoteAddr() net.Addr               { return c.raddr }
func (c *memConn) SetDeadline(t time.Time) error      { return nil }
func (c *memConn) SetReadDeadline(t time.Time) error  { return nil }
func (c *memConn) SetWriteDeadline(t time.Time) error { return nil }

// Identity of the messages the harness queues: every queued message is an inv
// with one transaction vector whose hash carries a marker and the id.
const (
	markMsg = 0xAA // QueueMessage payloads
	markInv = 0xBB // QueueInventory vectors
)

func idHash(mark byte, id int) chainhash.Hash {
	var h chainhash.Hash
	h[31] = mark
	binary.LittleEndian.PutUint32(h[0:4], uint32(id))
	return h
}

func hashID(h *chainhash.Hash) (byte, int) {
	return h[31], int(binary.LittleEndian.Uint32(h[0:4]))
}

// classify turns one complete message written by the peer into a wire event.
func (r *recorder) classify(raw []byte) Event {
	m, _, err := wire.ReadMessage(bytes.NewReader(raw), wire.ProtocolVersion, r.net)
	if err != nil {
		cmd := string(bytes.TrimRight(raw[4:16], "\x00"))
		return Event{E: "wire", B: "undecodable-" + cmd}
	}
	switch v := m.(type) {
	case *wire.MsgVersion:
		r.versionNonce = v.Nonce
		r.haveVersion = true
		return Event{E: "wire", B: "version"}
	case *wire.MsgInv:
		if len(v.InvList) == 1 {
			if mk, id := hashID(&v.InvList[0].Hash); mk == markMsg {
				return Event{E: "wire", A: id, B: "msg"}
			}
		}
		mask := 0
		for _, iv := range v.InvList {
			mk, id := hashID(&iv.Hash)
			if mk != markInv {
				return Event{E: "wire", B: "inv-foreign"}
			}
			mask += 1 << uint(id-1)
		}
		return Event{E: "wire", A: mask, B: "inv"}
	default:
		return Event{E: "wire", B: m.Command()}
	}
}
