package peer

import (
	"bytes"
	"encoding/binary"
	"fmt"
	"math/rand"
	"net"
	"regexp"
	"runtime"
	"sort"
	"strings"
	"sync"
	"time"

	"github.com/btcsuite/btcd/chaincfg/v2"
	"github.com/btcsuite/btcd/chainhash/v2"
	btcpeer "github.com/btcsuite/btcd/peer"
	"github.com/btcsuite/btcd/wire/v2"
)

// netOf returns the chain parameters (nil: none given, the peer falls back to
// testnet3) and the magic of a scenario's network.
func netOf(name string) (*chaincfg.Params, wire.BitcoinNet) {
	switch name {
	case "main":
		p := chaincfg.MainNetParams
		return &p, wire.MainNet
	case "test3":
		p := chaincfg.TestNet3Params
		return &p, wire.TestNet3
	case "nil":
		return nil, wire.TestNet3
	case "regtest":
		p := chaincfg.RegressionNetParams
		return &p, wire.TestNet
	}
	p := chaincfg.SimNetParams
	return &p, wire.SimNet
}

// otherNet is a magic of a different network.
func otherNet(n wire.BitcoinNet) wire.BitcoinNet {
	if n == wire.MainNet {
		return wire.TestNet3
	}
	return wire.MainNet
}

func rawMessage(magic wire.BitcoinNet, cmd string, payload []byte, badChecksum bool) []byte {
	var b bytes.Buffer
	var hdr [24]byte
	binary.LittleEndian.PutUint32(hdr[0:4], uint32(magic))
	copy(hdr[4:16], cmd)
	binary.LittleEndian.PutUint32(hdr[16:20], uint32(len(payload)))
	sum := chainhash.DoubleHashB(payload)
	copy(hdr[20:24], sum[:4])
	if badChecksum {
		hdr[20] ^= 0xff
	}
	b.Write(hdr[:])
	b.Write(payload)
	return b.Bytes()
}

// encodeRemote concretises one script message as wire bytes.  pver is the
// protocol version the peer will decode it with.
func encodeRemote(btcNet wire.BitcoinNet, m RMsg, pver uint32, nonce uint64) ([]byte, error) {
	var msg wire.Message
	switch m.K {
	case "ver":
		me := wire.NewNetAddressIPPort(net.ParseIP("10.0.0.2"), 18555, 0)
		you := wire.NewNetAddressIPPort(net.ParseIP("10.0.0.1"), 18555, 0)
		v := wire.NewMsgVersion(me, you, nonce, 0)
		v.ProtocolVersion = int32(m.PV)
		_ = v.AddUserAgent("verif", "1.0.0")
		msg = v
		pver = wire.ProtocolVersion
	case "verack":
		msg = wire.NewMsgVerAck()
	case "sendaddrv2":
		// the encoder refuses pver < 70016; the remote sends it regardless
		return rawMessage(btcNet, wire.CmdSendAddrV2, nil, false), nil
	case "ping":
		msg = wire.NewMsgPing(7)
	case "getaddr":
		msg = wire.NewMsgGetAddr()
	case "unknown":
		return rawMessage(btcNet, "bogusmsg", []byte{1, 2, 3}, false), nil
	case "malformed":
		return rawMessage(btcNet, wire.CmdVerAck, nil, true), nil
	case "wrongmagic":
		return rawMessage(otherNet(btcNet), wire.CmdVerAck, nil, false), nil
	default:
		return nil, fmt.Errorf("unknown script message kind %q", m.K)
	}
	var b bytes.Buffer
	if err := wire.WriteMessage(&b, msg, pver, btcNet); err != nil {
		return nil, err
	}
	return b.Bytes(), nil
}

// goroutine census -----------------------------------------------------------

type gInfo struct {
	ID    string
	State string
	Entry string // entry function of the goroutine
	Top   string // innermost function
	Proc  string // Peer.tla process name ("" when not a goroutine of the peer package)
}

var reGoHdr = regexp.MustCompile(`^goroutine (\d+) \[([^\],]+)`)

const peerPkg = "github.com/btcsuite/btcd/peer."

func procOf(entry string) string {
	if !strings.Contains(entry, peerPkg) {
		return ""
	}
	switch {
	case strings.Contains(entry, ".inHandler"):
		return "ih"
	case strings.Contains(entry, ".outHandler"):
		return "oh"
	case strings.Contains(entry, ".queueHandler"):
		return "qh"
	case strings.Contains(entry, ".stallHandler"):
		return "sh"
	case strings.Contains(entry, ".pingHandler"):
		return "ph"
	case strings.Contains(entry, ".start.func"):
		return "ng"
	case strings.Contains(entry, ".AssociateConnection.func"):
		return "st"
	}
	i := strings.LastIndex(entry, "/")
	return "other:" + entry[i+1:]
}

func census() []gInfo {
	buf := make([]byte, 1<<20)
	for {
		n := runtime.Stack(buf, true)
		if n < len(buf) {
			buf = buf[:n]
			break
		}
		buf = make([]byte, 2*len(buf))
	}
	var out []gInfo
	for _, blk := range strings.Split(string(buf), "\n\n") {
		lines := strings.Split(strings.TrimSpace(blk), "\n")
		if len(lines) < 2 {
			continue
		}
		m := reGoHdr.FindStringSubmatch(lines[0])
		if m == nil {
			continue
		}
		g := gInfo{ID: m[1], State: m[2]}
		var funcs []string
		for _, l := range lines[1:] {
			if strings.HasPrefix(l, "\t") || strings.HasPrefix(l, "created by ") {
				continue
			}
			if i := strings.LastIndex(l, "("); i > 0 {
				l = l[:i]
			}
			funcs = append(funcs, l)
		}
		if len(funcs) == 0 {
			continue
		}
		g.Top = funcs[0]
		g.Entry = funcs[len(funcs)-1]
		g.Proc = procOf(g.Entry)
		out = append(out, g)
	}
	return out
}

func blockedState(s string) bool {
	switch s {
	case "chan send", "chan receive", "select", "sync.Cond.Wait", "semacquire", "sync.Mutex.Lock",
		"select (no cases)", "chan send (nil chan)", "chan receive (nil chan)", "sync.WaitGroup.Wait":
		return true
	}
	return false
}

// blockClass abstracts where a goroutine that never ends is blocked (TracePeer.tla: LocClass).
func blockClass(g gInfo) string {
	switch {
	case g.State == "chan receive" && strings.Contains(g.Top, ".PushRejectMsg"):
		return "wait"
	case g.State == "chan send" && strings.Contains(g.Top, ".QueueMessage"):
		return "put"
	case g.State == "chan send" && (strings.HasSuffix(g.Top, ".inHandler") || strings.HasSuffix(g.Top, ".outHandler")):
		return "sc"
	}
	return "other"
}

// peerGoroutines returns the goroutines of the btcd peer package that are
// not in the baseline.
func peerGoroutines(baseline map[string]bool) []gInfo {
	var out []gInfo
	for _, g := range census() {
		if g.Proc != "" && !baseline[g.ID] {
			out = append(out, g)
		}
	}
	sort.Slice(out, func(i, j int) bool { return out[i].ID < out[j].ID })
	return out
}

func snapshotKey(gs []gInfo) string {
	var sb strings.Builder
	for _, g := range gs {
		fmt.Fprintf(&sb, "%s|%s|%s|%s;", g.ID, g.State, g.Proc, g.Top)
	}
	return sb.String()
}

// waitPeerGoroutines waits until no goroutine of the peer package (beyond the
// baseline) is left, or until the remaining ones are all blocked and nothing
// changed between two looks (they can then only be woken by the harness, which
// is idle).  The grace period is generous and not part of any verdict.
func waitPeerGoroutines(baseline map[string]bool, max time.Duration) ([]gInfo, bool) {
	deadline := time.Now().Add(max)
	prev := ""
	stable := 0
	for {
		gs := peerGoroutines(baseline)
		if len(gs) == 0 {
			return nil, true
		}
		allBlocked := true
		for _, g := range gs {
			if !blockedState(g.State) {
				allBlocked = false
			}
		}
		key := snapshotKey(gs)
		if allBlocked && key == prev {
			stable++
		} else {
			stable = 0
		}
		prev = key
		if stable >= 4 {
			return gs, true
		}
		if time.Now().After(deadline) {
			return gs, false
		}
		time.Sleep(150 * time.Millisecond)
	}
}

// the driver ---------------------------------------------------------------

type driver struct {
	sc   Scenario
	rec  *recorder
	p    *btcpeer.Peer
	rng  *rand.Rand
	rmu  sync.Mutex
	stop chan struct{}

	stallArmed chan struct{}
	stallOnce  sync.Once
}

func (d *driver) jitter() {
	d.rmu.Lock()
	k := d.rng.Intn(6)
	us := d.rng.Intn(300)
	d.rmu.Unlock()
	switch k {
	case 0, 1:
	case 2, 3:
		runtime.Gosched()
	default:
		time.Sleep(time.Duration(us) * time.Microsecond)
	}
}

func (d *driver) has(kind, b string) bool {
	return d.rec.countLocked(func(e Event) bool { return e.E == kind && (b == "" || e.B == b) }) > 0
}

// hsDone (under lock): the handshake is over one way or the other.
func (d *driver) hsDone() bool {
	return d.has("cb", "verack") || d.has("connclose", "")
}

func (d *driver) cb(name string) {
	d.rec.log(Event{E: "cb", B: name})
}

func (d *driver) listeners() btcpeer.MessageListeners {
	return btcpeer.MessageListeners{
		OnVersion: func(p *btcpeer.Peer, m *wire.MsgVersion) *wire.MsgReject {
			d.cb("version")
			return nil
		},
		OnVerAck: func(p *btcpeer.Peer, m *wire.MsgVerAck) {
			d.rec.mu.Lock()
			d.rec.logLocked(Event{E: "cb", B: "verack"})
			if d.sc.Steer.Hold {
				d.rec.hold = true
			}
			d.rec.mu.Unlock()
		},
		OnSendAddrV2:   func(p *btcpeer.Peer, m *wire.MsgSendAddrV2) { d.cb("sendaddrv2") },
		OnPing:         func(p *btcpeer.Peer, m *wire.MsgPing) { d.cb("ping") },
		OnGetAddr:      func(p *btcpeer.Peer, m *wire.MsgGetAddr) { d.cb("getaddr") },
		OnPong:         func(p *btcpeer.Peer, m *wire.MsgPong) { d.cb("pong") },
		OnAddr:         func(p *btcpeer.Peer, m *wire.MsgAddr) { d.cb("addr") },
		OnAddrV2:       func(p *btcpeer.Peer, m *wire.MsgAddrV2) { d.cb("addrv2") },
		OnMemPool:      func(p *btcpeer.Peer, m *wire.MsgMemPool) { d.cb("mempool") },
		OnTx:           func(p *btcpeer.Peer, m *wire.MsgTx) { d.cb("tx") },
		OnBlock:        func(p *btcpeer.Peer, m *wire.MsgBlock, b []byte) { d.cb("block") },
		OnInv:          func(p *btcpeer.Peer, m *wire.MsgInv) { d.cb("inv") },
		OnHeaders:      func(p *btcpeer.Peer, m *wire.MsgHeaders) { d.cb("headers") },
		OnNotFound:     func(p *btcpeer.Peer, m *wire.MsgNotFound) { d.cb("notfound") },
		OnGetData:      func(p *btcpeer.Peer, m *wire.MsgGetData) { d.cb("getdata") },
		OnGetBlocks:    func(p *btcpeer.Peer, m *wire.MsgGetBlocks) { d.cb("getblocks") },
		OnGetHeaders:   func(p *btcpeer.Peer, m *wire.MsgGetHeaders) { d.cb("getheaders") },
		OnFeeFilter:    func(p *btcpeer.Peer, m *wire.MsgFeeFilter) { d.cb("feefilter") },
		OnFilterAdd:    func(p *btcpeer.Peer, m *wire.MsgFilterAdd) { d.cb("filteradd") },
		OnFilterClear:  func(p *btcpeer.Peer, m *wire.MsgFilterClear) { d.cb("filterclear") },
		OnFilterLoad:   func(p *btcpeer.Peer, m *wire.MsgFilterLoad) { d.cb("filterload") },
		OnMerkleBlock:  func(p *btcpeer.Peer, m *wire.MsgMerkleBlock) { d.cb("merkleblock") },
		OnReject:       func(p *btcpeer.Peer, m *wire.MsgReject) { d.cb("reject") },
		OnSendHeaders:  func(p *btcpeer.Peer, m *wire.MsgSendHeaders) { d.cb("sendheaders") },
		OnCFilter:      func(p *btcpeer.Peer, m *wire.MsgCFilter) { d.cb("cfilter") },
		OnCFHeaders:    func(p *btcpeer.Peer, m *wire.MsgCFHeaders) { d.cb("cfheaders") },
		OnCFCheckpt:    func(p *btcpeer.Peer, m *wire.MsgCFCheckpt) { d.cb("cfcheckpt") },
		OnGetCFilters:  func(p *btcpeer.Peer, m *wire.MsgGetCFilters) { d.cb("getcfilters") },
		OnGetCFHeaders: func(p *btcpeer.Peer, m *wire.MsgGetCFHeaders) { d.cb("getcfheaders") },
		OnGetCFCheckpt: func(p *btcpeer.Peer, m *wire.MsgGetCFCheckpt) { d.cb("getcfcheckpt") },
		OnRead: func(p *btcpeer.Peer, n int, m wire.Message, err error) {
			// Steering only: hold the reading goroutine right after it took
			// script message StallRead off the conn until the disconnect is
			// through (a legal schedule: the goroutine is simply slow here).
			k := d.sc.Steer.StallRead
			if k == 0 || err != nil {
				return
			}
			d.rec.mu.Lock()
			at := d.rec.rdMsgs
			d.rec.mu.Unlock()
			if at != k {
				return
			}
			d.stallOnce.Do(func() { close(d.stallArmed) })
			d.rec.waitFor(2*time.Second, func() bool {
				return d.has("dret", "") || (d.has("connclose", "") && d.sc.Steer.DiscAt != "stall")
			})
			// let the other goroutines of the peer finish first
			for i := 0; i < 40; i++ {
				busy := false
				for _, g := range census() {
					if g.Proc == "oh" || g.Proc == "qh" || g.Proc == "sh" {
						busy = true
					}
				}
				if !busy {
					break
				}
				time.Sleep(10 * time.Millisecond)
			}
		},
	}
}

func remoteIP(sc *Scenario) string {
	if sc.Loop {
		return "127.0.0.1"
	}
	return "10.0.0.2"
}

func newPeer(sc *Scenario, l btcpeer.MessageListeners) (*btcpeer.Peer, error) {
	params, _ := netOf(sc.Net)
	cfg := &btcpeer.Config{
		ChainParams:      params,
		ProtocolVersion:  uint32(sc.LPV),
		UserAgentName:    "verifpeer",
		UserAgentVersion: "1.0.0",
		TrickleInterval:  2 * time.Millisecond,
		Listeners:        l,
	}
	if sc.Dir == "in" {
		return btcpeer.NewInboundPeer(cfg), nil
	}
	return btcpeer.NewOutboundPeer(cfg, remoteIP(sc)+":18555")
}

func newConn(r *recorder, sc *Scenario) *memConn {
	return &memConn{r: r,
		laddr: &net.TCPAddr{IP: net.ParseIP("10.0.0.1"), Port: 18555},
		raddr: &net.TCPAddr{IP: net.ParseIP(remoteIP(sc)), Port: 18555}}
}

// selfNonce returns a nonce this process has recently put into a version
// message (peer.sentNonces), obtained from a throw-away outbound peer.
func selfNonce() (uint64, error) {
	sc := &Scenario{Dir: "out", LPV: int(wire.ProtocolVersion), Net: "sim"}
	p, err := newPeer(sc, btcpeer.MessageListeners{})
	if err != nil {
		return 0, err
	}
	r := newRecorder(wire.SimNet)
	r.silent = true
	p.AssociateConnection(newConn(r, sc))
	ok := r.waitFor(5*time.Second, func() bool { return r.haveVersion })
	r.mu.Lock()
	nonce := r.versionNonce
	r.mu.Unlock()
	p.Disconnect()
	p.WaitForDisconnect()
	if !ok {
		return 0, fmt.Errorf("donor peer wrote no version message")
	}
	return nonce, nil
}

// RunScenario drives one real peer.Peer through the scenario and records the
// externally observable events.
func RunScenario(sc Scenario) (tr *Trace) {
	tr = &Trace{Scn: sc}
	fail := func(f string, a ...any) *Trace {
		tr.Err = fmt.Sprintf(f, a...)
		return tr
	}
	_, btcNet := netOf(sc.Net)
	d := &driver{sc: sc, rec: newRecorder(btcNet), rng: rand.New(rand.NewSource(sc.Steer.Jitter)),
		stop: make(chan struct{}), stallArmed: make(chan struct{})}
	rec := d.rec

	// a nonce of our own for inbound self-connection scripts
	var donorNonce uint64
	needDonor := false
	hasSelf := false
	for _, m := range sc.Script {
		if m.K == "ver" && m.Self {
			hasSelf = true
			if sc.Dir == "in" {
				needDonor = true
			}
		}
	}
	if sc.Sib && hasSelf {
		needDonor = false
	}
	if needDonor {
		n, err := selfNonce()
		if err != nil {
			return fail("self nonce: %v", err)
		}
		donorNonce = n
	}
	baseline := map[string]bool{}
	// leftovers of earlier scenarios (leaks reported there) and of the donor
	for i := 0; i < 200; i++ {
		left := false
		for _, g := range census() {
			if g.Proc != "" && !blockedState(g.State) {
				left = true
			}
		}
		if !left {
			break
		}
		time.Sleep(5 * time.Millisecond)
	}
	for _, g := range census() {
		if g.Proc != "" {
			baseline[g.ID] = true
		}
	}

	p, err := newPeer(&sc, d.listeners())
	if err != nil {
		return fail("new peer: %v", err)
	}
	d.p = p

	// done channels and their watchers
	type qm struct {
		id int
		ch chan struct{}
	}
	var msgs []qm
	chOf := map[int]chan struct{}{}
	for _, s := range senderNames {
		for _, id := range sc.Plan[s] {
			ch := make(chan struct{}, 1)
			chOf[id] = ch
			msgs = append(msgs, qm{id, ch})
		}
	}
	var watchers sync.WaitGroup
	for _, m := range msgs {
		watchers.Add(1)
		go func(m qm) {
			defer watchers.Done()
			for {
				select {
				case <-m.ch:
					rec.log(Event{E: "done", A: m.id})
				case <-d.stop:
					return
				}
			}
		}(m)
	}

	// A node dialling itself: the sibling outbound peer of the same process is
	// started now and its version write is kept in flight (the nonce is on
	// the wire, the Write call has not returned) until the scenario is over.
	var sib *btcpeer.Peer
	var sibRec *recorder
	if sc.Sib && hasSelf {
		ssc := &Scenario{Dir: "out", LPV: int(wire.ProtocolVersion), Net: "sim"}
		sib, err = newPeer(ssc, btcpeer.MessageListeners{})
		if err != nil {
			return fail("sibling peer: %v", err)
		}
		sibRec = newRecorder(wire.SimNet)
		sibRec.silent = true
		sibRec.stick = true
		sibRec.onNonce = func() { rec.log(Event{E: "sibwire"}) }
		sib.AssociateConnection(newConn(sibRec, ssc))
	}
	releaseSib := func() {
		if sib == nil {
			return
		}
		sibRec.mu.Lock()
		sibRec.released = true
		sibRec.cond.Broadcast()
		sibRec.mu.Unlock()
		sib.Disconnect()
		sib.WaitForDisconnect()
	}

	// "gated" steering (verif hook of the peer package): every sender is held
	// between its Connected() test and its send on the output queue until the
	// disconnect is through, then between that send and its look at the quit
	// channel; one of them is let go first and finds the messages of the others
	// in the queue.  A gate only delays a goroutine.
	var gmu sync.Mutex
	gcond := sync.NewCond(&gmu)
	arrived1, arrived2, open1, open2 := 0, 0, false, 0
	if sc.Steer.DiscAt == "gated" {
		setGate(func(pp *btcpeer.Peer, point string) {
			if pp != p {
				return
			}
			gmu.Lock()
			defer gmu.Unlock()
			switch point {
			case "queue:checked":
				arrived1++
				gcond.Broadcast()
				for !open1 {
					gcond.Wait()
				}
			case "queue:queued":
				arrived2++
				gcond.Broadcast()
				for open2 == 0 {
					gcond.Wait()
				}
				if open2 > 0 {
					open2-- // a counted pass; negative: open for everybody
				}
			}
		})
		defer setGate(nil)
	}
	gateWait := func(max time.Duration, pred func() bool) {
		t := time.AfterFunc(max, func() { gmu.Lock(); gcond.Broadcast(); gmu.Unlock() })
		defer t.Stop()
		deadline := time.Now().Add(max)
		gmu.Lock()
		for !pred() && time.Now().Before(deadline) {
			gcond.Wait()
		}
		gmu.Unlock()
	}

	p.AssociateConnection(newConn(rec, &sc))

	var actors sync.WaitGroup
	var sendersWG sync.WaitGroup
	sendersDone := make(chan struct{})
	feederDone := make(chan struct{})

	waitTrigger := func(at string) {
		switch at {
		case "start":
		case "hs":
			rec.waitFor(300*time.Millisecond, d.hsDone)
		case "late":
			select {
			case <-feederDone:
			case <-time.After(300 * time.Millisecond):
			}
			rec.waitFor(20*time.Millisecond, func() bool {
				return rec.rdMsgs >= len(rec.bounds) || rec.localClosed
			})
		}
		d.jitter()
	}

	// wfd waiter
	wfd := make(chan struct{})
	go func() {
		p.WaitForDisconnect()
		rec.log(Event{E: "wfd"})
		close(wfd)
	}()

	// remote
	actors.Add(1)
	go func() {
		defer actors.Done()
		defer close(feederDone)
		pver := uint32(sc.LPV)
		for i := range tr.Scn.Script {
			m := &tr.Scn.Script[i]
			idx := i + 1
			if sc.Steer.Feed == "lockstep" && i > 0 {
				rec.waitFor(30*time.Millisecond, func() bool { return rec.rdMsgs >= i || rec.localClosed })
			}
			d.jitter()
			nonce := uint64(0x1000000 + sc.ID*16 + idx)
			if m.K == "ver" && m.Self {
				if sib != nil {
					// echo the nonce the sibling is writing right now
					ok := sibRec.waitFor(5*time.Second, func() bool { return sibRec.haveVersion })
					if !ok {
						rec.log(Event{E: "harness-error", B: "sibling peer wrote no version message"})
						return
					}
					sibRec.mu.Lock()
					nonce = sibRec.versionNonce
					sibRec.mu.Unlock()
				} else if sc.Dir == "in" {
					nonce = donorNonce
				} else {
					ok := rec.waitFor(time.Second, func() bool { return rec.haveVersion || rec.localClosed })
					rec.mu.Lock()
					have := rec.haveVersion
					if have {
						nonce = rec.versionNonce
					}
					rec.mu.Unlock()
					if !ok || !have {
						m.Self = false // no nonce of ours to echo: this is an ordinary version message
					}
				}
			}
			raw, err := encodeRemote(btcNet, *m, pver, nonce)
			if err != nil {
				rec.log(Event{E: "harness-error", B: err.Error()})
				return
			}
			if !rec.feed(idx, raw) {
				return
			}
			if idx == 1 && m.K == "ver" && !m.Self && uint32(m.PV) < pver {
				pver = uint32(m.PV)
			}
		}
		if sc.RClose {
			if sc.Steer.Feed == "lockstep" {
				rec.waitFor(30*time.Millisecond, func() bool { return rec.rdMsgs >= len(sc.Script) || rec.localClosed })
			}
			d.jitter()
			rec.closeRemote()
		}
	}()

	// senders
	for _, s := range senderNames {
		ids := sc.Plan[s]
		if len(ids) == 0 {
			continue
		}
		actors.Add(1)
		sendersWG.Add(1)
		go func(s string, ids []int) {
			defer actors.Done()
			defer sendersWG.Done()
			waitTrigger(sc.Steer.SendAt[s])
			for _, id := range ids {
				msg := wire.NewMsgInv()
				h := idHash(markMsg, id)
				_ = msg.AddInvVect(wire.NewInvVect(wire.InvTypeTx, &h))
				rec.log(Event{E: "qcall", A: id, B: s})
				p.QueueMessage(msg, chOf[id])
				rec.log(Event{E: "qret", A: id, B: s})
				if sc.Steer.DiscAt != "burst" {
					d.jitter()
				}
			}
		}(s, ids)
	}
	if len(sc.Invs) > 0 {
		actors.Add(1)
		sendersWG.Add(1)
		go func() {
			defer actors.Done()
			defer sendersWG.Done()
			waitTrigger(sc.Steer.InvAt)
			for i, k := range sc.Invs {
				h := idHash(markInv, i+1)
				t := wire.InvTypeTx
				if k == "block" {
					t = wire.InvTypeBlock
				}
				rec.log(Event{E: "icall", A: i + 1})
				p.QueueInventory(wire.NewInvVect(t, &h))
				rec.log(Event{E: "iret", A: i + 1})
				d.jitter()
			}
		}()
	}
	go func() { sendersWG.Wait(); close(sendersDone) }()

	disconnect := func() {
		rec.log(Event{E: "dcall"})
		p.Disconnect()
		rec.log(Event{E: "dret"})
	}

	// disconnector
	if sc.Steer.DiscAt != "none" && sc.Steer.DiscAt != "" {
		actors.Add(1)
		go func() {
			defer actors.Done()
			switch sc.Steer.DiscAt {
			case "start":
			case "hs":
				rec.waitFor(300*time.Millisecond, d.hsDone)
			case "mid":
				rec.waitFor(300*time.Millisecond, d.hsDone)
				rec.waitFor(15*time.Millisecond, func() bool { return d.has("wire", "msg") || d.has("qret", "") })
			case "late":
				select {
				case <-sendersDone:
				case <-time.After(time.Second):
				}
			case "gated":
				nsend := 0
				for _, s := range senderNames {
					if len(sc.Plan[s]) > 0 {
						nsend++
					}
				}
				qrets := func() int {
					rec.mu.Lock()
					defer rec.mu.Unlock()
					return rec.countLocked(func(e Event) bool { return e.E == "qret" })
				}
				gateWait(3*time.Second, func() bool { return arrived1 >= nsend })
				disconnect()
				// let start() finish its own drain of the (empty) queues
				for i := 0; i < 60; i++ {
					busy := false
					for _, g := range census() {
						if g.Proc == "st" || g.Proc == "ng" {
							busy = true
						}
					}
					if !busy {
						break
					}
					time.Sleep(5 * time.Millisecond)
				}
				gmu.Lock()
				open1 = true
				gcond.Broadcast()
				gmu.Unlock()
				// everybody has either taken the quit branch (returned) or queued its message
				for i := 0; i < 400; i++ {
					gmu.Lock()
					a2 := arrived2
					gmu.Unlock()
					if a2+qrets() >= nsend {
						break
					}
					time.Sleep(5 * time.Millisecond)
				}
				before := qrets()
				gmu.Lock()
				open2 = 1 // one caller goes on and empties the queue
				gcond.Broadcast()
				gmu.Unlock()
				for i := 0; i < 100 && qrets() == before; i++ {
					time.Sleep(2 * time.Millisecond)
				}
				gmu.Lock()
				open2 = -1
				gcond.Broadcast()
				gmu.Unlock()
				return
			case "burst":
				// in the middle of a burst of QueueMessage calls from all senders
				rec.waitFor(3*time.Second, func() bool {
					return rec.countLocked(func(e Event) bool { return e.E == "qret" }) >= 12
				})
			case "full":
				// the output queue (50) is full and every sender is parked on it
				rec.waitFor(3*time.Second, func() bool {
					return rec.countLocked(func(e Event) bool { return e.E == "qret" }) >= 50
				})
				time.Sleep(3 * time.Millisecond)
			case "stall":
				select {
				case <-d.stallArmed:
				case <-time.After(300 * time.Millisecond):
				}
			}
			d.jitter()
			disconnect()
		}()
	}

	// writes held after the handshake are released once the senders are
	// through, unless a disconnect is going to hit the backlog
	if sc.Steer.Hold {
		actors.Add(1)
		go func() {
			defer actors.Done()
			select {
			case <-sendersDone:
			case <-time.After(time.Second):
			}
			if sc.Steer.DiscAt == "none" || sc.Steer.DiscAt == "" {
				d.jitter()
				rec.setHold(false)
			}
		}()
	}

	actorsDone := make(chan struct{})
	go func() { actors.Wait(); close(actorsDone) }()
	select {
	case <-actorsDone:
	case <-time.After(30 * time.Second):
		close(d.stop)
		releaseSib()
		return fail("scenario actors stuck")
	}

	// settle, then make sure the peer is told to disconnect
	quiet := func(span, max time.Duration) {
		t0 := time.Now()
		for time.Since(t0) < max {
			rec.mu.Lock()
			idle := time.Since(rec.lastEvent)
			rec.mu.Unlock()
			if idle >= span {
				return
			}
			time.Sleep(span / 3)
		}
	}
	quiet(12*time.Millisecond, 500*time.Millisecond)
	rec.mu.Lock()
	closed := rec.localClosed
	rec.mu.Unlock()
	if !closed {
		disconnect()
	}
	rec.setHold(false)

	select {
	case <-wfd:
	case <-time.After(20 * time.Second):
		close(d.stop)
		return fail("WaitForDisconnect did not return 20s after the connection was closed")
	}

	releaseSib()
	left, settled := waitPeerGoroutines(baseline, 60*time.Second)
	if !settled {
		close(d.stop)
		return fail("goroutines of the peer still running after 60s: %v", left)
	}
	// every signal that was sent is in a buffered channel or already logged
	close(d.stop)
	watchers.Wait()
	for _, m := range msgs {
		for {
			select {
			case <-m.ch:
				rec.log(Event{E: "done", A: m.id})
				continue
			default:
			}
			break
		}
	}
	flags := "k"
	if p.VersionKnown() {
		flags = "K"
	}
	if p.VerAckReceived() {
		flags += "A"
	} else {
		flags += "a"
	}
	var leak []string
	for _, g := range left {
		leak = append(leak, g.Proc+":"+blockClass(g))
		tr.Leaks = append(tr.Leaks, fmt.Sprintf("%s [%s] in %s", g.Proc, g.State, strings.TrimPrefix(g.Top, "github.com/btcsuite/btcd/")))
	}
	sort.Strings(leak)
	rec.log(Event{E: "end", A: int(p.ProtocolVersion()), B: flags, L: leak})

	rec.mu.Lock()
	tr.Events = append([]Event(nil), rec.events...)
	rec.mu.Unlock()
	for _, e := range tr.Events {
		if e.E == "dcall" {
			tr.Scn.Disc = true
		}
	}
	return tr
}
