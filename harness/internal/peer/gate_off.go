//go:build !verif

package peer

import (
	btcpeer "github.com/btcsuite/btcd/peer"
)

// without the verif tag there is no gate: gated scenarios degrade to ungated ones
func setGate(f func(p *btcpeer.Peer, point string)) {}
