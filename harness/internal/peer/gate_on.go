//go:build verif

package peer

import (
	btcpeer "github.com/btcsuite/btcd/peer"
)

// setGate installs the scheduling gate of the peer package (verif hook).
func setGate(f func(p *btcpeer.Peer, point string)) { btcpeer.VerifSetGate(f) }
