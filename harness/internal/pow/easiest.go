package pow

import (
	"fmt"
	"os"
	"path/filepath"
	"sync"
	"time"

	"github.com/btcsuite/btcd/blockchain"
	"github.com/btcsuite/btcd/btcutil/v2"
	"github.com/btcsuite/btcd/chaincfg/v2"
	"github.com/btcsuite/btcd/chainhash/v2"
	"github.com/btcsuite/btcd/database"
	"github.com/btcsuite/btcd/txscript/v2"
	"github.com/btcsuite/btcd/wire/v2"

	"verif/harness/internal/tla"
	"verif/harness/internal/vrun"
)

// The checkpoint bound (calcEasiestDifficulty) is only reachable through
// ProcessBlock on a chain that has passed a checkpoint.  easyChain is a real
// chain on synthetic parameters whose block 1 is a checkpoint.

type easyChain struct {
	chain  *blockchain.BlockChain
	db     database.DB
	cpTime int64
	mu     sync.Mutex
}

func coinbaseBlock(prev chainhash.Hash, height int32, t int64, bits uint32, nonce uint32) *wire.MsgBlock {
	script, _ := txscript.NewScriptBuilder().AddInt64(int64(height)).AddInt64(int64(nonce)).Script()
	tx := wire.NewMsgTx(1)
	tx.AddTxIn(&wire.TxIn{PreviousOutPoint: *wire.NewOutPoint(&chainhash.Hash{}, wire.MaxPrevOutIndex),
		SignatureScript: script, Sequence: wire.MaxTxInSequenceNum})
	tx.AddTxOut(&wire.TxOut{Value: 50 * 100000000, PkScript: []byte{txscript.OP_TRUE}})
	blk := &wire.MsgBlock{Header: wire.BlockHeader{Version: headerVersion, PrevBlock: prev, MerkleRoot: tx.TxHash(),
		Timestamp: time.Unix(t, 0), Bits: bits, Nonce: nonce}}
	blk.AddTransaction(tx)
	return blk
}

func newEasyChain(scratch string, rec tla.Value) (*easyChain, error) {
	p := syntheticParams(rec)
	never := int32(1 << 30)
	p.BIP0034Height, p.BIP0065Height, p.BIP0066Height = never, never, never
	t0 := int64(rec.F("t0").Int())
	cpTime := t0 + int64(rec.F("spacing").Int())
	b1 := coinbaseBlock(*p.GenesisHash, 1, cpTime, compact(rec.F("genesisBits")), 0)
	h1 := b1.BlockHash()
	dir := filepath.Join(scratch, "db-easy-"+rec.F("name").Str())
	os.RemoveAll(dir)
	db, err := database.Create("ffldb", dir, p.Net)
	if err != nil {
		return nil, err
	}
	chain, err := blockchain.New(&blockchain.Config{DB: db, ChainParams: p, TimeSource: fixedTime{int64(rec.F("now").Int())},
		Checkpoints: []chaincfg.Checkpoint{{Height: 1, Hash: &h1}}})
	if err != nil {
		db.Close()
		return nil, err
	}
	main, orphan, err := chain.ProcessBlock(btcutil.NewBlock(b1), blockchain.BFNoPoWCheck)
	if err != nil || !main || orphan {
		db.Close()
		return nil, fmt.Errorf("easiest: cannot connect the checkpoint block on %s: main=%v orphan=%v err=%v", p.Name, main, orphan, err)
	}
	return &easyChain{chain: chain, db: db, cpTime: cpTime}, nil
}

type easyNets struct {
	scratch string
	mu      sync.Mutex
	m       map[string]*easyChain
}

func (e *easyNets) get(rec tla.Value) (*easyChain, error) {
	e.mu.Lock()
	defer e.mu.Unlock()
	name := rec.F("name").Str()
	if c := e.m[name]; c != nil {
		return c, nil
	}
	c, err := newEasyChain(e.scratch, rec)
	if err != nil {
		return nil, err
	}
	e.m[name] = c
	return c, nil
}

func (e *easyNets) close() {
	for _, c := range e.m {
		c.db.Close()
	}
}

// checkEasiest offers blocks `duration` seconds after the checkpoint with the
// candidate bits of the case; ProcessBlock must refuse with
// ErrDifficultyTooLow exactly those the specification calls too easy.
func checkEasiest(c *vrun.Ctx, en *easyNets, cs, ex tla.Value, seq uint32) error {
	rec := cs.F("net")
	ec, err := en.get(rec)
	if err != nil {
		return err
	}
	d := int64(cs.F("d").Int())
	for i, p := range ex.F("probes").Set() {
		b := compact(p.F("b"))
		tooLow := p.F("tooLow").Bool()
		var prev chainhash.Hash
		prev[0], prev[1], prev[2], prev[3], prev[31] = byte(seq), byte(seq>>8), byte(seq>>16), byte(i), 0xee // unknown parent: the block ends as an orphan
		blk := coinbaseBlock(prev, 2, ec.cpTime+d, b, seq<<8|uint32(i))
		ec.mu.Lock()
		_, _, perr := ec.chain.ProcessBlock(btcutil.NewBlock(blk), blockchain.BFNoPoWCheck)
		ec.mu.Unlock()
		c.AddEval(1)
		got := false
		cls := "accept"
		if perr != nil {
			re, ok := perr.(blockchain.RuleError)
			if !ok {
				return fmt.Errorf("easiest: ProcessBlock: %v", perr)
			}
			cls = re.ErrorCode.String()
			got = re.ErrorCode == blockchain.ErrDifficultyTooLow
			if !got {
				return fmt.Errorf("easiest: probe block refused for an unrelated reason %s (net %s, d %d, bits %08x)", cls, rec.F("name").Str(), d, b)
			}
		}
		if got != tooLow {
			c.Violation(fmt.Sprintf("easiest-difficulty:spec-toolow-%v/code-%s", tooLow, cls),
				fmt.Sprintf("block %d s after a checkpoint with bits %s offered with bits %08x: ProcessBlock = %s; specification: easiest allowed %s, too easy = %v (net %s)",
					d, compactStr(rec.F("genesisBits")), b, cls, compactStr(ex.F("easiest")), tooLow, rec.F("name").Str()),
				map[string]any{"net": rec.Go(), "duration": d, "bits": fmt.Sprintf("%08x", b), "expect": ex.Go()})
		}
	}
	c.Distinct(fmt.Sprintf("easiest|%s|%s", rec.F("name").Str(), compactStr(ex.F("easiest"))))
	return nil
}

// replayWithBlocks connects the history as real blocks (ProcessBlock, proof of
// work check off) on a fresh chain and asks the exported
// BlockChain.CalcNextRequiredDifficulty for the candidate timestamps of the
// state; the expected bits are those of the candidates the specification does
// not fault for their bits.
func replayWithBlocks(c *vrun.Ctx, n *netCtx, st tla.State, id uint64) error {
	p := syntheticParams(n.rec)
	never := int32(1 << 30)
	p.BIP0034Height, p.BIP0065Height, p.BIP0066Height = never, never, never
	dir := filepath.Join(c.Scratch, fmt.Sprintf("db-blocks-%s-%d", n.name, id))
	db, err := database.Create("ffldb", dir, p.Net)
	if err != nil {
		return err
	}
	defer func() {
		db.Close()
		os.RemoveAll(dir)
	}()
	chain, err := blockchain.New(&blockchain.Config{DB: db, ChainParams: p, TimeSource: fixedTime{n.now}})
	if err != nil {
		return err
	}
	blocks := st["chain"].Seq()
	prev := *p.GenesisHash
	rp := map[string]any{"net": n.name, "chain": st["chain"].Go()}
	for i := 1; i < len(blocks); i++ {
		blk := coinbaseBlock(prev, int32(i), int64(blocks[i].F("time").Int()), compact(blocks[i].F("bits")), uint32(i))
		main, orphan, err := chain.ProcessBlock(btcutil.NewBlock(blk), blockchain.BFNoPoWCheck)
		c.AddEval(1)
		if err != nil || !main || orphan {
			cls, _ := errClass(err)
			if _, isRule := err.(blockchain.RuleError); err != nil && !isRule {
				return fmt.Errorf("replayWithBlocks: ProcessBlock: %v", err)
			}
			c.Violation("process-block:valid-history-refused:"+cls,
				fmt.Sprintf("ProcessBlock refuses block %d of a history the specification accepts (net %s): %s main=%v orphan=%v", i, n.name, cls, main, orphan), rp)
			return nil
		}
		prev = blk.BlockHash()
	}
	if best := chain.BestSnapshot(); int(best.Height) != len(blocks)-1 || best.Bits != compact(blocks[len(blocks)-1].F("bits")) {
		c.Violation("process-block:tip", fmt.Sprintf("best chain tip %d/%08x after connecting the history, expected height %d", best.Height, best.Bits, len(blocks)-1), rp)
		return nil
	}
	pos := positionClass(n, int32(len(blocks)))
	for _, pr := range st["expect"].F("probes").Set() {
		if has(strSet(pr.F("viol")), "bad-diffbits") {
			continue
		}
		t, want := int64(pr.F("t").Int()), compact(pr.F("b"))
		got, err := chain.CalcNextRequiredDifficulty(time.Unix(t, 0))
		c.AddEval(1)
		if err != nil || got != want {
			c.Violation("calc-next-required:"+pos,
				fmt.Sprintf("BlockChain.CalcNextRequiredDifficulty(%d) = %08x (err %v), specification %08x (net %s, height %d)", t, got, err, want, n.name, len(blocks)), rp)
		}
	}
	return nil
}
