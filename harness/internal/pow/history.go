package pow

import (
	"fmt"
	"hash/fnv"
	"path/filepath"
	"strings"
	"sync"
	"sync/atomic"
	"time"

	"github.com/btcsuite/btcd/blockchain"
	"github.com/btcsuite/btcd/chainhash/v2"

	"verif/harness/internal/tla"
	"verif/harness/internal/tlc"
	"verif/harness/internal/vrun"
)

type histStats struct {
	states     int64
	probes     int64
	accepted   int64
	realProbe  int64
	withBlocks int64
	ruleSeen   sync.Map // rule name -> true (vacuity of the binding)
}

// runHistories model-checks Pow.tla and replays every reachable state.
func runHistories(c *vrun.Ctx) error {
	cfg := "Pow_quick.cfg"
	timeout := 8 * time.Minute
	if c.Thorough {
		cfg = "Pow_thorough.cfg"
		timeout = 25 * time.Minute
	}
	dump := filepath.Join(c.Scratch, "pow-graph")
	tlcWorkers := 3
	if c.Thorough {
		tlcWorkers = 6
	}
	res, err := tlc.Run(tlc.Opts{SpecDir: c.SpecDir("pow"), Module: "Pow", Config: cfg, Workers: tlcWorkers,
		Timeout: timeout, Coverage: c.Thorough, Scratch: c.Scratch,
		Extra: []string{"-dump", "dot,actionlabels", dump}})
	if err != nil {
		return err
	}
	if !res.OK {
		return fmt.Errorf("Pow.tla: TLC reports %s %s on the specification itself (not a verdict about btcd)", res.ErrKind, res.ErrName)
	}
	c.Logf("Pow.tla: %d distinct states, %d generated, depth %d, %.1fs", res.Distinct, res.Generated, res.Depth, res.WallS)
	c.AddModel(res.Distinct, res.Generated)
	if c.Thorough {
		// TLC labels the only action by its enclosing definition (Next == \E p : Extend(p))
		if res.ActionCount["Init"] == 0 || res.ActionCount["Next"]+res.ActionCount["Extend"] == 0 {
			return fmt.Errorf("Pow.tla: an action was never taken (coverage %v)", res.ActionCount)
		}
	}

	if c.Thorough {
		// the machine's optimised verdict (Required evaluated twice per history)
		// against the definition of PowDefs evaluated from scratch per candidate
		def, err := tlc.Run(tlc.Opts{SpecDir: c.SpecDir("pow"), Module: "Pow", Config: "Pow_def.cfg", Workers: 6,
			Timeout: 15 * time.Minute, Scratch: c.Scratch})
		if err != nil {
			return err
		}
		if !def.OK {
			return fmt.Errorf("Pow.tla/Pow_def.cfg: TLC reports %s %s on the specification itself", def.ErrKind, def.ErrName)
		}
		c.Logf("Pow.tla (Pow_def.cfg): %d distinct states, %.1fs", def.Distinct, def.WallS)
		c.AddModel(def.Distinct, def.Generated)
	}

	// real-chain (ProcessBlockHeader) replay is done for every state in the
	// quick tier and for a seed-chosen 1/8 of the histories in thorough
	realEvery := uint32(1)
	if c.Thorough {
		realEvery = 8
	}

	nets := map[string]*netCtx{}
	var netsMu sync.RWMutex
	defer func() {
		for _, n := range nets {
			n.close()
		}
	}()
	stats := &histStats{}

	type job struct{ st tla.State }
	workers := c.Workers
	if workers > 8 {
		workers = 8
	}
	jobs := make(chan job, 256)
	var wg sync.WaitGroup
	var firstErr atomic.Value
	for w := 0; w < workers; w++ {
		wg.Add(1)
		go func() {
			defer wg.Done()
			for j := range jobs {
				netsMu.RLock()
				n := nets[j.st["net"].Str()]
				netsMu.RUnlock()
				if n == nil {
					firstErr.CompareAndSwap(nil, fmt.Errorf("state of network %s before its initial state", j.st["net"].Str()))
					continue
				}
				st := j.st
				var err error
				if hp := guard(c, "history-replay", func() any { return map[string]any{"net": n.name, "chain": st["chain"].Go()} },
					func() { err = replayHistoryState(c, n, st, realEvery, stats) }); hp != nil {
					err = hp
				}
				if err != nil {
					firstErr.CompareAndSwap(nil, err)
				}
			}
		}()
	}
	var pending []tla.State
	nStates, err := dotStates(dump+".dot", func(st tla.State, init bool) error {
		if e := firstErr.Load(); e != nil {
			return e.(error)
		}
		ex := st["expect"]
		if ex.Has("params") {
			rec := ex.F("params")
			name := rec.F("name").Str()
			n, err := newNetCtx(c.Scratch, name, syntheticParams(rec), int64(rec.F("now").Int()))
			if err != nil {
				return err
			}
			n.rec = rec
			if err := checkDerived(c, n, rec, ex.F("derived")); err != nil {
				return err
			}
			netsMu.Lock()
			nets[name] = n
			netsMu.Unlock()
		}
		netsMu.RLock()
		_, ok := nets[st["net"].Str()]
		netsMu.RUnlock()
		if !ok {
			pending = append(pending, st)
			return nil
		}
		jobs <- job{st}
		return nil
	})
	for _, st := range pending {
		jobs <- job{st}
	}
	close(jobs)
	wg.Wait()
	if err != nil {
		return err
	}
	if e := firstErr.Load(); e != nil {
		return e.(error)
	}
	if int64(nStates) != res.Distinct {
		return fmt.Errorf("Pow.tla: dump has %d states, TLC reported %d", nStates, res.Distinct)
	}
	for _, r := range []string{"accept", "target-range", "time-too-new", "bad-diffbits", "time-too-old", "timewarp",
		"pos:interior", "pos:interior-reduce", "pos:boundary", "pos:boundary-bip94", "pos:noretarget", "mindiff-block", "walkback", "walkback-stops-at-first-block-at-limit"} {
		if _, ok := stats.ruleSeen.Load(r); !ok {
			return fmt.Errorf("Pow.tla replay is vacuous for %q: no state exercised it", r)
		}
	}
	c.SetExtra("history_states_replayed", stats.states)
	c.SetExtra("history_candidates_checked", stats.probes)
	c.SetExtra("history_candidates_accepted", stats.accepted)
	c.SetExtra("history_candidates_through_ProcessBlockHeader", stats.realProbe)
	c.SetExtra("histories_connected_as_blocks", stats.withBlocks)
	if stats.withBlocks == 0 {
		return fmt.Errorf("no history was replayed through ProcessBlock / CalcNextRequiredDifficulty")
	}
	c.Logf("histories: %d states, %d candidate headers (%d accepted), %d through a real chain", stats.states, stats.probes, stats.accepted, stats.realProbe)
	return nil
}

// checkDerived compares the retarget constants blockchain.New derived from the
// parameters with the specification's.
func checkDerived(c *vrun.Ctx, n *netCtx, rec, der tla.Value) error {
	want := [3]int64{int64(der.F("blocksPerRetarget").Int()), int64(der.F("minSpan").Int()), int64(der.F("maxSpan").Int())}
	got := [3]int64{int64(n.chain.BlocksPerRetarget()), n.chain.MinRetargetTimespan(), n.chain.MaxRetargetTimespan()}
	c.AddEval(3)
	if got != want {
		c.Violation("derived-constants", fmt.Sprintf("net %s: blocksPerRetarget/min/max timespan %v, specification %v", n.name, got, want),
			map[string]any{"net": rec.Go()})
	}
	return nil
}

func positionClass(n *netCtx, newHeight int32) string {
	N := n.chain.BlocksPerRetarget()
	switch {
	case n.params.PoWNoRetargeting:
		return "noretarget"
	case newHeight%N == 0 && n.params.EnforceBIP94:
		return "boundary-bip94"
	case newHeight%N == 0:
		return "boundary"
	case n.params.ReduceMinDifficulty:
		return "interior-reduce"
	}
	return "interior"
}

func replayHistoryState(c *vrun.Ctx, n *netCtx, st tla.State, realEvery uint32, stats *histStats) error {
	chain := st["chain"].Seq()
	ex := st["expect"]
	// the history as HeaderCtx nodes, and its header hashes on the real chain
	var tip *hnode
	hashes := make([]chainhash.Hash, len(chain))
	times := make([]int64, len(chain))
	bitsv := make([]uint32, len(chain))
	for i, b := range chain {
		times[i] = int64(b.F("time").Int())
		bitsv[i] = compact(b.F("bits"))
		tip = &hnode{height: int32(i), bits: bitsv[i], ts: times[i], parent: tip}
		if i == 0 {
			hashes[0] = n.genesis
		} else {
			hashes[i] = header(hashes[i-1], times[i], bitsv[i]).BlockHash()
		}
	}
	atomic.AddInt64(&stats.states, 1)
	c.AddTraces(1)
	newHeight := tip.height + 1
	pos := positionClass(n, newHeight)
	stats.ruleSeen.Store("pos:"+pos, true)
	replay := func(extra map[string]any) map[string]any {
		m := map[string]any{"net": n.name, "chain": st["chain"].Go(), "expect_mtp": ex.F("mtp").Go()}
		for k, v := range extra {
			m[k] = v
		}
		return m
	}

	// median time past
	c.AddEval(1)
	if got, want := blockchain.CalcPastMedianTime(tip).Unix(), int64(ex.F("mtp").Int()); got != want {
		c.Violation(fmt.Sprintf("mtp:count-%d", minInt(len(chain), 11)),
			fmt.Sprintf("CalcPastMedianTime = %d, specification MTP = %d (net %s, %d headers)", got, want, n.name, len(chain)), replay(nil))
	}

	// ProcessBlockHeader replay on a real chain for the selected histories
	hsh := fnv.New32a()
	hsh.Write(hashes[len(hashes)-1][:])
	doReal := (hsh.Sum32()+uint32(c.Seed))%realEvery == 0
	if doReal {
		n.mu.Lock()
		for i := 1; i < len(chain); i++ {
			if n.known[hashes[i]] {
				continue
			}
			_, err := n.chain.ProcessBlockHeader(header(hashes[i-1], times[i], bitsv[i]), blockchain.BFNoPoWCheck, true)
			c.AddEval(1)
			if err != nil {
				cls, _ := errClass(err)
				c.Violation("chain-header-rejected:"+pos+":"+cls,
					fmt.Sprintf("ProcessBlockHeader rejects header %d of a history the specification accepts (%s): %v", i, n.name, cls),
					replay(map[string]any{"index": i}))
				n.mu.Unlock()
				return nil
			}
			n.known[hashes[i]] = true
		}
		n.mu.Unlock()
	}

	for _, p := range ex.F("probes").Set() {
		t := int64(p.F("t").Int())
		b := compact(p.F("b"))
		viol := strSet(p.F("viol"))
		atomic.AddInt64(&stats.probes, 1)
		if len(viol) == 0 {
			atomic.AddInt64(&stats.accepted, 1)
			stats.ruleSeen.Store("accept", true)
			if b == n.params.PowLimitBits && pos == "interior-reduce" {
				stats.ruleSeen.Store("mindiff-block", true)
			}
			if pos == "interior-reduce" && tip.bits == n.params.PowLimitBits && b != n.params.PowLimitBits {
				stats.ruleSeen.Store("walkback", true)
			}
			// the limit as a genuine retarget result: a later block of that period,
			// not eligible for the minimum-difficulty exception, must get the
			// limit from the period's first block although the previous period
			// ended below the limit
			if N := n.chain.BlocksPerRetarget(); pos == "interior-reduce" && newHeight >= N {
				first := int(newHeight - newHeight%N)
				if bitsv[first] == n.params.PowLimitBits && bitsv[first-1] != n.params.PowLimitBits &&
					b == n.params.PowLimitBits && t <= tip.ts+int64(n.params.MinDiffReductionTime/time.Second) {
					stats.ruleSeen.Store("walkback-stops-at-first-block-at-limit", true)
				}
			}
		}
		for _, r := range viol {
			stats.ruleSeen.Store(r, true)
		}
		hdr := header(hashes[len(hashes)-1], t, b)
		c.Distinct(n.name + "|" + pos + "|" + fmt.Sprint(int(newHeight)%int(n.chain.BlocksPerRetarget())) + "|" + strings.Join(viol, ","))
		rp := func(got string) map[string]any {
			return replay(map[string]any{"candidate": map[string]any{"time": t, "bits": fmt.Sprintf("%08x", b)},
				"spec_violated_rules": viol, "code": got})
		}

		// context-free stage
		c.AddEval(1)
		serr := blockchain.CheckBlockHeaderSanity(hdr, n.params.PowLimit, fixedTime{n.now}, blockchain.BFNoPoWCheck)
		if sb := intersect(viol, sanityRules); !verdictOK(serr, sb) {
			cls, _ := errClass(serr)
			c.Violation("sanity:"+verdictKey(sb, cls),
				fmt.Sprintf("CheckBlockHeaderSanity(time %d, bits %08x) = %s; specification: breaks %v (net %s)", t, b, cls, sb, n.name), rp(cls))
		}
		// contextual stage: required bits, median time, time warp
		c.AddEval(1)
		cerr := blockchain.CheckBlockHeaderContext(hdr, tip, blockchain.BFNone, n.chain, true)
		if cb := intersect(viol, contextRules); !verdictOK(cerr, cb) {
			cls, _ := errClass(cerr)
			c.Violation("context:"+pos+":"+verdictKey(cb, cls),
				fmt.Sprintf("CheckBlockHeaderContext(height %d, time %d, bits %08x) = %s; specification: breaks %v (net %s)", newHeight, t, b, cls, cb, n.name), rp(cls))
		}
		// an accepted header adds work
		if len(viol) == 0 {
			c.AddEval(1)
			if blockchain.CalcWork(b).Sign() <= 0 {
				c.Violation("work:not-positive", fmt.Sprintf("CalcWork(%08x) is not positive for an accepted header", b), rp("work<=0"))
			}
		}
		if doReal {
			c.AddEval(1)
			atomic.AddInt64(&stats.realProbe, 1)
			n.mu.Lock()
			_, perr := n.chain.ProcessBlockHeader(hdr, blockchain.BFNoPoWCheck, true)
			if perr == nil {
				n.known[hdr.BlockHash()] = true
			}
			n.mu.Unlock()
			if !verdictOK(perr, viol) {
				cls, _ := errClass(perr)
				c.Violation("process-header:"+pos+":"+verdictKey(viol, cls),
					fmt.Sprintf("ProcessBlockHeader(height %d, time %d, bits %08x) = %s; specification: breaks %v (net %s)", newHeight, t, b, cls, viol, n.name), rp(cls))
			}
		}
	}
	// a seed-chosen share of the histories is also connected as full blocks
	if (uint64(hsh.Sum32())*2654435761+uint64(c.Seed))%uint64(blocksEvery(c)) == 0 && len(chain) > 1 {
		id := atomic.AddInt64(&stats.withBlocks, 1)
		if err := replayWithBlocks(c, n, st, uint64(id)); err != nil {
			return err
		}
	}
	if len(chain) >= 5 && (pos == "boundary" || pos == "boundary-bip94") {
		sampleOnce(c, "history-"+pos, map[string]any{"net": n.name, "chain": st["chain"].Go(), "expect": ex.Go()})
	}
	return nil
}

func blocksEvery(c *vrun.Ctx) int {
	if c.Thorough {
		return 1500
	}
	return 150
}

func verdictKey(broken []string, cls string) string {
	if len(broken) == 0 {
		return "spec-accepts/code-" + cls
	}
	return "spec-" + strings.Join(broken, "+") + "/code-" + cls
}

func minInt(a, b int) int {
	if a < b {
		return a
	}
	return b
}
