package pow

import (
	"fmt"
	"os"
	"path/filepath"
	"sync"
	"time"

	"github.com/btcsuite/btcd/blockchain"
	"github.com/btcsuite/btcd/chaincfg/v2"
	"github.com/btcsuite/btcd/chainhash/v2"
	"github.com/btcsuite/btcd/database"
	_ "github.com/btcsuite/btcd/database/ffldb"
	"github.com/btcsuite/btcd/wire/v2"

	"verif/harness/internal/tla"
)

const headerVersion = 0x20000000

// netCtx is one network of the specification bound to real objects: the
// chaincfg.Params built from the specification's record, and a real
// *blockchain.BlockChain created on those parameters, which serves as the
// ChainCtx of CheckBlockHeaderContext (so that the retarget constants derived
// in blockchain.New are the code's own) and as the header index that
// ProcessBlockHeader fills.
type netCtx struct {
	name    string
	rec     tla.Value // the specification's network record (synthetic networks)
	params  *chaincfg.Params
	chain   *blockchain.BlockChain
	db      database.DB
	now     int64
	genesis chainhash.Hash
	mu      sync.Mutex // serialises ProcessBlockHeader + known
	known   map[chainhash.Hash]bool
}

func (n *netCtx) close() {
	if n.db != nil {
		n.db.Close()
	}
}

// syntheticParams builds chain parameters from a network record of Pow.tla.
func syntheticParams(rec tla.Value) *chaincfg.Params {
	p := chaincfg.RegressionNetParams // copy
	p.Name = "verif-" + rec.F("name").Str()
	p.PowLimit = natBig(rec.F("limit"))
	p.PowLimitBits = compact(rec.F("limitBits"))
	p.PoWNoRetargeting = rec.F("noRetarget").Bool()
	p.EnforceBIP94 = rec.F("bip94").Bool()
	p.TargetTimespan = time.Duration(rec.F("timespan").Int()) * time.Second
	p.TargetTimePerBlock = time.Duration(rec.F("spacing").Int()) * time.Second
	p.RetargetAdjustmentFactor = int64(rec.F("factor").Int())
	p.ReduceMinDifficulty = rec.F("reduce").Bool()
	p.MinDiffReductionTime = time.Duration(rec.F("reduction").Int()) * time.Second
	p.Checkpoints = nil
	g := *chaincfg.RegressionNetParams.GenesisBlock // copy of the block, shares the txs
	g.Header.Timestamp = time.Unix(int64(rec.F("t0").Int()), 0)
	g.Header.Bits = compact(rec.F("genesisBits"))
	p.GenesisBlock = &g
	h := g.Header.BlockHash()
	p.GenesisHash = &h
	return &p
}

func newNetCtx(scratch, name string, params *chaincfg.Params, now int64) (*netCtx, error) {
	dir := filepath.Join(scratch, "db-"+name)
	os.RemoveAll(dir)
	db, err := database.Create("ffldb", dir, params.Net)
	if err != nil {
		return nil, fmt.Errorf("create db for %s: %w", name, err)
	}
	chain, err := blockchain.New(&blockchain.Config{
		DB:          db,
		ChainParams: params,
		TimeSource:  fixedTime{now},
	})
	if err != nil {
		db.Close()
		return nil, fmt.Errorf("blockchain.New for %s: %w", name, err)
	}
	return &netCtx{name: name, params: params, chain: chain, db: db, now: now,
		genesis: *params.GenesisHash, known: map[chainhash.Hash]bool{*params.GenesisHash: true}}, nil
}

func header(prev chainhash.Hash, t int64, bits uint32) *wire.BlockHeader {
	return &wire.BlockHeader{Version: headerVersion, PrevBlock: prev, Timestamp: time.Unix(t, 0), Bits: bits}
}

// realParams returns the chaincfg parameter sets of the real networks by the
// names used in PowCases.tla.
func realParams() map[string]*chaincfg.Params {
	return map[string]*chaincfg.Params{
		"mainnet":  &chaincfg.MainNetParams,
		"testnet3": &chaincfg.TestNet3Params,
		"testnet4": &chaincfg.TestNet4Params,
		"signet":   &chaincfg.SigNetParams,
		"regtest":  &chaincfg.RegressionNetParams,
		"simnet":   &chaincfg.SimNetParams,
	}
}
