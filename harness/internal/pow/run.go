package pow

import (
	"verif/harness/internal/vrun"
)

// Run is the C09 check.
func Run(c *vrun.Ctx) error {
	c.Ev.Coverage.Rule = "TLC enumerates (a) every header history of the synthetic networks of Pow.tla reachable with the configured timestamp alphabets, " +
		"each state carrying the specification's verdict (median time past, required bits, broken rules) on every candidate next header, and " +
		"(b,c) the input cases of PowCases.tla (compact words, wide integers, target pairs, hashes of real headers, halving epochs, real-network period scenarios); " +
		"every state is replayed into the exported btcd functions. distinct_nontrivial counts distinct (network, position in the retarget period, set of broken rules) " +
		"classes for histories and distinct (kind, exponent/length/sign/mantissa class, verdict) classes for cases."
	c.Assume("TLC evaluates the specification's operators correctly; the PowNat byte-sequence arithmetic is cross-checked inside TLC (Div against Mul, laws in PowCases)")
	c.Assume("synthetic networks (period 4-6 blocks) exercise the same code paths as the 2016-block networks; real parameter sets are covered by single-period scenarios, not by enumerated histories")
	c.Assume("block hashes cannot be chosen: the proof-of-work comparison is checked on hashes of real headers (two leading bytes matched to the target), never on hash = target exactly")
	if err := runCases(c); err != nil {
		return err
	}
	if err := runHistories(c); err != nil {
		return err
	}
	c.Ev.Coverage.Exhaustive = false
	return nil
}
