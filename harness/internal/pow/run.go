package pow

import (
	"verif/harness/internal/vrun"
)

// Run is the C09 check.
func Run(c *vrun.Ctx) error {
	c.Ev.Coverage.Rule = "TLC enumerates (a) every header history of the synthetic networks of Pow.tla reachable with the configured timestamp alphabets, " +
		"each state carrying the specification's verdict (median time past, required bits, broken rules) on every candidate next header, and " +
		"(b,c) the input cases of PowCases.tla (compact words, wide integers, target pairs, hashes of real headers, halving epochs, real-network period scenarios); " +
		"every state is replayed into the exported btcd functions. distinct_nontrivial counts distinct (network, position in the retarget period, set of broken rules) " +
		"classes for histories and distinct (kind, exponent/length/sign/mantissa class, verdict) classes for cases."
	c.Assume("TLC evaluates the specification's operators correctly; the PowNat byte-sequence arithmetic is cross-checked inside TLC (Div against Mul, laws in PowCases)")
	c.Assume("synthetic networks (period 4-6 blocks) exercise the same code paths as the 2016-block networks; real parameter sets are covered by single-period scenarios, not by enumerated histories")
	c.Assume("block hashes cannot be chosen: the proof-of-work comparison is checked on hashes of real headers (two leading bytes matched to the target), never on hash = target exactly")
	// the two specifications are checked and replayed side by side (TLC with 3
	// workers each in the quick tier, 6 for the large history run in thorough)
	errs := make(chan error, 2)
	part := func(site string, fn func(*vrun.Ctx) error) {
		var err error
		if hp := guard(c, site, nil, func() { err = fn(c) }); hp != nil {
			err = hp
		}
		errs <- err
	}
	go part("cases", runCases)
	go part("histories", runHistories)
	var first error
	for i := 0; i < 2; i++ {
		if err := <-errs; err != nil && first == nil {
			first = err
		}
	}
	if first != nil {
		return first
	}
	c.Ev.Coverage.Exhaustive = true
	c.Ev.Coverage.Explanation = "exhaustive means: TLC enumerated the complete reachable state space of Pow.tla for the tier's networks and timestamp alphabets and every case of PowCases.tla, " +
		"and every one of those states was replayed into the btcd code (the ProcessBlockHeader / ProcessBlock replays cover a seed-chosen share in the thorough tier). " +
		"It does not mean all header histories or all 256-bit targets."
	return nil
}
