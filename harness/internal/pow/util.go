// Package pow binds spec/pow (C09: target / work / retarget / median time /
// subsidy arithmetic) to the real btcd code.  TLC enumerates header histories
// and input cases together with what the protocol definitions say about them;
// every reachable state is turned into calls of the exported btcd functions
// and the results are compared with the state's `expect` value.
package pow

import (
	"bufio"
	"fmt"
	"io"
	"math/big"
	"os"
	"path/filepath"
	"runtime"
	"sort"
	"strings"
	"sync"
	"time"

	"github.com/btcsuite/btcd/blockchain"

	"verif/harness/internal/tla"
	"verif/harness/internal/vrun"
)

// compact turns the specification's <<exponent, sign, mantissa>> into the
// 32-bit word (pure change of representation).
func compact(v tla.Value) uint32 {
	s := v.Seq()
	return uint32(s[0].Int())<<24 | uint32(s[1].Int())<<23 | uint32(s[2].Int())
}

func compactStr(v tla.Value) string { return fmt.Sprintf("%08x", compact(v)) }

// natBytes returns the little-endian bytes of a PowNat number.
func natBytes(v tla.Value) []byte {
	s := v.Seq()
	b := make([]byte, len(s))
	for i, e := range s {
		b[i] = byte(e.Int())
	}
	return b
}

// natBig converts a PowNat number (base-256 digits, least significant first).
func natBig(v tla.Value) *big.Int {
	le := natBytes(v)
	be := make([]byte, len(le))
	for i := range le {
		be[len(le)-1-i] = le[i]
	}
	return new(big.Int).SetBytes(be)
}

func strSet(v tla.Value) []string {
	out := v.Strs()
	sort.Strings(out)
	return out
}

func has(set []string, s string) bool {
	for _, x := range set {
		if x == s {
			return true
		}
	}
	return false
}

// hnode is the harness implementation of blockchain.HeaderCtx: one header of
// a synthetic history.
type hnode struct {
	height int32
	bits   uint32
	ts     int64
	parent *hnode
}

func (n *hnode) Height() int32    { return n.height }
func (n *hnode) Bits() uint32     { return n.bits }
func (n *hnode) Timestamp() int64 { return n.ts }
func (n *hnode) Parent() blockchain.HeaderCtx {
	if n.parent == nil {
		return nil
	}
	return n.parent
}
func (n *hnode) RelativeAncestorCtx(distance int32) blockchain.HeaderCtx {
	if distance < 0 {
		return nil
	}
	it := n
	for i := int32(0); i < distance; i++ {
		if it.parent == nil {
			return nil
		}
		it = it.parent
	}
	return it
}

// fixedTime is the harness-owned blockchain.MedianTimeSource.
type fixedTime struct{ now int64 }

func (f fixedTime) AdjustedTime() time.Time         { return time.Unix(f.now, 0) }
func (f fixedTime) AddTimeSample(string, time.Time) {}
func (f fixedTime) Offset() time.Duration           { return 0 }

// errClass maps an error of the header checks to the rule names of the
// specification it may stand for (classes only, never message strings).
func errClass(err error) (string, []string) {
	if err == nil {
		return "accept", nil
	}
	re, ok := err.(blockchain.RuleError)
	if !ok {
		return "internal-error", nil
	}
	switch re.ErrorCode {
	case blockchain.ErrUnexpectedDifficulty:
		return "ErrUnexpectedDifficulty", []string{"target-range", "bad-diffbits"}
	case blockchain.ErrTimeTooNew:
		return "ErrTimeTooNew", []string{"time-too-new"}
	case blockchain.ErrTimeTooOld:
		return "ErrTimeTooOld", []string{"time-too-old"}
	case blockchain.ErrTimewarpAttack:
		return "ErrTimewarpAttack", []string{"timewarp"}
	case blockchain.ErrHighHash:
		return "ErrHighHash", []string{"high-hash"}
	}
	return "other-rule-" + re.ErrorCode.String(), nil
}

var (
	sanityRules  = []string{"target-range", "time-too-new"}
	contextRules = []string{"bad-diffbits", "time-too-old", "timewarp"}
)

func intersect(a, b []string) []string {
	var out []string
	for _, x := range a {
		if has(b, x) {
			out = append(out, x)
		}
	}
	return out
}

// verdictOK reports whether the real outcome err is one the specification
// allows when the rules `broken` (restricted to the stage under test) are
// violated: nil iff none is broken, otherwise a class naming a broken rule.
func verdictOK(err error, broken []string) bool {
	_, names := errClass(err)
	if err == nil {
		return len(broken) == 0
	}
	return len(intersect(names, broken)) > 0
}

// guard runs fn, which calls into btcd.  A panic raised inside the code under
// test is an outcome the property forbids and is reported as a VIOLATION with
// the key "panic:<site>"; a panic of the harness itself is handed on (it is an
// infrastructure failure, never a verdict).  input describes the case for the
// replay file.
func guard(c *vrun.Ctx, site string, input func() any, fn func()) (harnessPanic error) {
	defer func() {
		r := recover()
		if r == nil {
			return
		}
		pcs := make([]uintptr, 64)
		n := runtime.Callers(2, pcs)
		frames := runtime.CallersFrames(pcs[:n])
		var trace []string
		inBtcd, decided := false, false
		for {
			f, more := frames.Next()
			trace = append(trace, fmt.Sprintf("%s (%s:%d)", f.Function, filepath.Base(f.File), f.Line))
			if !decided {
				switch {
				case strings.HasPrefix(f.Function, "github.com/btcsuite/"):
					inBtcd, decided = true, true
				case strings.HasPrefix(f.Function, "verif/harness/"):
					decided = true
				}
			}
			if !more || len(trace) >= 24 {
				break
			}
		}
		if !inBtcd {
			harnessPanic = fmt.Errorf("panic in harness (%s): %v\n%s", site, r, strings.Join(trace, "\n"))
			return
		}
		var in any
		func() {
			defer func() { recover() }()
			if input != nil {
				in = input()
			}
		}()
		c.Violation("panic:"+site, fmt.Sprintf("the btcd code panicked during %s: %v", site, r),
			map[string]any{"input": in, "panic": fmt.Sprint(r), "stack": trace})
	}()
	fn()
	return nil
}

var sampled sync.Map

// sampleOnce records one written-out case per kind in the evidence.
func sampleOnce(c *vrun.Ctx, kind string, v map[string]any) {
	if _, dup := sampled.LoadOrStore(kind, true); dup {
		return
	}
	v["kind"] = kind
	c.Sample(v)
}

// dotStates streams the node lines of a TLC "-dump dot" file and calls fn
// with each parsed state, in file order, without keeping the graph.
func dotStates(path string, fn func(st tla.State, init bool) error) (int, error) {
	f, err := os.Open(path)
	if err != nil {
		return 0, err
	}
	defer f.Close()
	br := bufio.NewReaderSize(f, 1<<20)
	n := 0
	for {
		line, rerr := br.ReadString('\n')
		if len(line) > 0 {
			st, init, ok, perr := parseDotNode(strings.TrimRight(line, "\n"))
			if perr != nil {
				return n, perr
			}
			if ok {
				n++
				if err := fn(st, init); err != nil {
					return n, err
				}
			}
		}
		if rerr == io.EOF {
			break
		}
		if rerr != nil {
			return n, rerr
		}
	}
	return n, nil
}

func parseDotNode(line string) (tla.State, bool, bool, error) {
	if len(line) == 0 || !(line[0] == '-' || (line[0] >= '0' && line[0] <= '9')) {
		return nil, false, false, nil
	}
	sp := strings.IndexByte(line, ' ')
	if sp < 0 {
		return nil, false, false, nil
	}
	rest := line[sp+1:]
	if !strings.HasPrefix(rest, `[label="`) {
		return nil, false, false, nil
	}
	body := rest[8:]
	var sb strings.Builder
	end := -1
	for i := 0; i < len(body); i++ {
		c := body[i]
		if c == '\\' && i+1 < len(body) {
			i++
			switch body[i] {
			case 'n':
				sb.WriteByte('\n')
			case '"':
				sb.WriteByte('"')
			case '\\':
				sb.WriteByte('\\')
			default:
				sb.WriteByte('\\')
				sb.WriteByte(body[i])
			}
			continue
		}
		if c == '"' {
			end = i
			break
		}
		sb.WriteByte(c)
	}
	if end < 0 {
		return nil, false, false, fmt.Errorf("dot: unterminated label")
	}
	st, err := tla.ParseState(sb.String())
	if err != nil {
		return nil, false, false, err
	}
	return st, strings.HasPrefix(body[end+1:], ",style = filled"), true, nil
}
