package records

import (
	"context"
	"fmt"
	"os"
	"os/exec"
	"path/filepath"
	"sort"
	"strings"
	"sync"
	"time"

	"verif/harness/internal/vrun"
)

// intLaws are the invariants of RecordsInt.tla: the two arithmetic bijections
// over unbounded integers, split into classes small enough for the solver.
func intLaws() []string {
	var l []string
	for e := 0; e <= 9; e++ {
		l = append(l, fmt.Sprintf("AmountClass%d", e), fmt.Sprintf("CompressedClass%d", e))
	}
	return append(l, "MonetaryRangeFits", "VLQStepLaws", "VLQClass1", "VLQClass2", "VLQClass3")
}

// runApalache checks the laws of RecordsInt.tla symbolically (all 64-bit
// values, not classes).  A violated law is an error of the specification,
// not a verdict about btcd.
func runApalache(parent context.Context, c *vrun.Ctx) error {
	if _, err := exec.LookPath("apalache-mc"); err != nil {
		return fmt.Errorf("apalache-mc not found: %w", err)
	}
	dir, err := os.MkdirTemp(c.Scratch, "apalache-")
	if err != nil {
		return err
	}
	src, err := os.ReadFile(filepath.Join(c.SpecDir("records"), "RecordsInt.tla"))
	if err != nil {
		return err
	}
	if err := os.WriteFile(filepath.Join(dir, "RecordsInt.tla"), src, 0o644); err != nil {
		return err
	}
	laws := intLaws()
	errs := make([]error, len(laws))
	secs := make([]float64, len(laws))
	sem := make(chan struct{}, 3)
	var wg sync.WaitGroup
	t0 := time.Now()
	for i, law := range laws {
		wg.Add(1)
		go func(i int, law string) {
			defer wg.Done()
			sem <- struct{}{}
			defer func() { <-sem }()
			ctx, cancel := context.WithTimeout(parent, 12*time.Minute)
			defer cancel()
			out := filepath.Join(dir, "out-"+law)
			cmd := exec.CommandContext(ctx, "apalache-mc", "check", "--length=0", "--inv="+law, "--out-dir="+out, "--run-dir="+out, "RecordsInt.tla")
			cmd.Dir = dir
			cmd.Env = append(os.Environ(), "JVM_ARGS=-Xmx2g")
			ts := time.Now()
			b, err := cmd.CombinedOutput()
			secs[i] = time.Since(ts).Seconds()
			s := string(b)
			switch {
			case ctx.Err() != nil:
				errs[i] = fmt.Errorf("apalache timed out or was cancelled on %s", law)
			case strings.Contains(s, "EXITCODE: OK"):
			case strings.Contains(s, "violated"):
				errs[i] = fmt.Errorf("RecordsInt.tla: Apalache reports law %s violated on the specification itself (not a verdict about btcd)", law)
			default:
				if len(s) > 1500 {
					s = s[len(s)-1500:]
				}
				errs[i] = fmt.Errorf("apalache failed on %s: %v\n%s", law, err, s)
			}
		}(i, law)
	}
	wg.Wait()
	for _, e := range errs {
		if e != nil {
			return e
		}
	}
	sort.Strings(laws)
	c.SetExtra("apalache_laws_checked_over_unbounded_integers", laws)
	c.Logf("RecordsInt.tla: %d laws checked by Apalache over all 64-bit values, %.1fs", len(laws), time.Since(t0).Seconds())
	return nil
}
