package records

import (
	"bytes"
	"encoding/binary"
	"fmt"
	"math/big"
	"time"

	"github.com/btcsuite/btcd/blockchain"
	"github.com/btcsuite/btcd/btcec/v2"
	"github.com/btcsuite/btcd/btcutil/v2"
	"github.com/btcsuite/btcd/chainhash/v2"
	"github.com/btcsuite/btcd/database"
	"github.com/btcsuite/btcd/txscript/v2"
	"github.com/btcsuite/btcd/wire/v2"

	"verif/harness/internal/chainh"
	"verif/harness/internal/vrun"
)

// ---- representation changes ----

func seqOf(v any) []any {
	s, _ := v.([]any)
	return s
}
func recOf(v any) map[string]any { return v.(map[string]any) }
func intOf(v any) int {
	switch x := v.(type) {
	case int64:
		return int(x)
	case int:
		return x
	case float64:
		return int(x)
	}
	panic(fmt.Sprintf("records: not a number: %T", v))
}
func bytesOf(v any) []byte {
	s := seqOf(v)
	b := make([]byte, len(s))
	for i, e := range s {
		b[i] = byte(intOf(e))
	}
	return b
}

// natOf converts a RecNat number (base-128 digits, least significant first).
func natOf(v any) *big.Int {
	s := seqOf(v)
	n := new(big.Int)
	for i := len(s) - 1; i >= 0; i-- {
		n.Lsh(n, 7)
		n.Or(n, big.NewInt(int64(intOf(s[i]))))
	}
	return n
}

const easyBits = 0x207fffff

func solve(h *wire.BlockHeader) {
	target := blockchain.CompactToBig(h.Bits)
	for n := uint32(0); ; n++ {
		h.Nonce = n
		hash := h.BlockHash()
		if blockchain.HashToBig(&hash).Cmp(target) <= 0 {
			return
		}
	}
}

func coinbaseTx(height int32, id int, pkScript []byte, value int64) *wire.MsgTx {
	cb := wire.NewMsgTx(1)
	ss := []byte{4}
	ss = binary.LittleEndian.AppendUint32(ss, uint32(height))
	ss = append(ss, 4)
	ss = binary.LittleEndian.AppendUint32(ss, uint32(id))
	cb.AddTxIn(&wire.TxIn{PreviousOutPoint: *wire.NewOutPoint(&chainhash.Hash{}, wire.MaxPrevOutIndex), SignatureScript: ss, Sequence: wire.MaxTxInSequenceNum})
	cb.AddTxOut(&wire.TxOut{Value: value, PkScript: pkScript})
	return cb
}

func mkBlock(prev *btcutil.Block, height int32, txs []*wire.MsgTx) *btcutil.Block {
	blk := &wire.MsgBlock{Header: wire.BlockHeader{Version: 0x20000000, PrevBlock: *prev.Hash(), Bits: easyBits,
		Timestamp: prev.MsgBlock().Header.Timestamp.Add(1201 * time.Second)}}
	ub := make([]*btcutil.Tx, len(txs))
	for j, tx := range txs {
		blk.AddTransaction(tx)
		ub[j] = btcutil.NewTx(tx)
	}
	blk.Header.MerkleRoot = blockchain.CalcMerkleRoot(ub, false)
	solve(&blk.Header)
	b := btcutil.NewBlock(blk)
	b.SetHeight(height)
	return b
}

// signer knows how to spend the scripts of SpendableScripts.
type signer struct {
	tab *Table
}

func (s *signer) priv(i int) *btcec.PrivateKey {
	k, _ := btcec.PrivKeyFromBytes(s.tab.Points[i-1].Priv)
	return k
}

// sign fills the signature script of input idx spending pkScript of the named class.
func (s *signer) sign(tx *wire.MsgTx, idx int, name string, pkScript []byte) error {
	var sig []byte
	var err error
	p2pk := func(key int) {
		var raw []byte
		raw, err = txscript.RawTxInSignature(tx, idx, pkScript, txscript.SigHashAll, s.priv(key))
		if err == nil {
			sig, err = txscript.NewScriptBuilder().AddData(raw).Script()
		}
	}
	switch name {
	case "pkh":
		sig, err = txscript.SignatureScript(tx, idx, pkScript, txscript.SigHashAll, s.priv(3), true)
	case "pkh-u":
		sig, err = txscript.SignatureScript(tx, idx, pkScript, txscript.SigHashAll, s.priv(4), false)
	case "sh":
		sig, err = txscript.NewScriptBuilder().AddData([]byte{txscript.OP_TRUE}).Script()
	case "pkc":
		p2pk(3)
	case "pkc-b":
		p2pk(4)
	case "pku":
		p2pk(5)
	case "pku-b":
		p2pk(6)
	case "true", "nop121", "nop122":
		sig = nil
	default:
		return fmt.Errorf("records: no way to spend script class %q", name)
	}
	if err != nil {
		return err
	}
	tx.TxIn[idx].SignatureScript = sig
	return nil
}

type coinRef struct {
	op     wire.OutPoint
	amount int64
	script []byte
	name   string
}

// runChain realises one chain scenario and compares the database with the
// specification's expectation.
func runChain(c *vrun.Ctx, tab *Table, cs, ex map[string]any) error {
	sc := recOf(cs["c"])
	id := intOf(sc["id"])
	ha := int32(intOf(sc["ha"]))
	f := chainh.NewFactory(&chainh.Scenario{N: 0, Parent: []int{0}, Work: []int{0}, Flaw: []string{""}}, chainh.NetOpts{Maturity: 1}, c.Seed)
	node, err := chainh.NewNode(f, 100<<20)
	if err != nil {
		return err
	}
	defer node.Close()
	sg := &signer{tab}
	opTrue := []byte{txscript.OP_TRUE}
	const subsidy = 50 * 100000000

	deliver := func(b *btcutil.Block) error {
		isMain, isOrphan, err := node.Chain.ProcessBlock(btcutil.NewBlock(b.MsgBlock()), blockchain.BFNone)
		if err != nil || !isMain || isOrphan {
			return fmt.Errorf("chain scenario %d: block at height %d refused (main %v orphan %v): %v", id, b.Height(), isMain, isOrphan, err)
		}
		return nil
	}
	prev := f.Blocks[0]
	var cb1 *wire.MsgTx
	for h := int32(1); h < ha; h++ {
		cb := coinbaseTx(h, id, opTrue, subsidy)
		if h == 1 {
			cb1 = cb
		}
		b := mkBlock(prev, h, []*wire.MsgTx{cb})
		if err := deliver(b); err != nil {
			return err
		}
		prev = b
	}
	// block ha: coinbase paying cba, transaction T creating the outputs
	scriptOf := map[int][]byte{}
	coins := seqOf(ex["coins"])
	for _, x := range coins {
		m := recOf(x)
		scriptOf[intOf(m["ref"])] = bytesOf(m["script"])
	}
	cbA := coinbaseTx(ha, id, scriptOf[0], subsidy)
	T := wire.NewMsgTx(1)
	T.AddTxIn(&wire.TxIn{PreviousOutPoint: wire.OutPoint{Hash: cb1.TxHash(), Index: 0}, Sequence: wire.MaxTxInSequenceNum})
	outs := seqOf(sc["outs"])
	refs := map[int]coinRef{}
	for i, o := range outs {
		om := recOf(o)
		amt := natOf(om["amount"]).Int64()
		T.AddTxOut(&wire.TxOut{Value: amt, PkScript: scriptOf[i+1]})
	}
	th := T.TxHash()
	for i, o := range outs {
		om := recOf(o)
		refs[i+1] = coinRef{wire.OutPoint{Hash: th, Index: uint32(i)}, natOf(om["amount"]).Int64(), scriptOf[i+1], om["sname"].(string)}
	}
	refs[0] = coinRef{wire.OutPoint{Hash: cbA.TxHash(), Index: 0}, subsidy, scriptOf[0], sc["cba"].(string)}
	blockA := mkBlock(prev, ha, []*wire.MsgTx{cbA, T})
	if err := deliver(blockA); err != nil {
		return err
	}
	// block ha+1: the spending transactions
	txs := []*wire.MsgTx{coinbaseTx(ha+1, id, opTrue, subsidy)}
	var counts []int
	for ti, sp := range seqOf(sc["spends"]) {
		tx := wire.NewMsgTx(1)
		tx.LockTime = uint32(ti)
		var sum int64
		var ins []coinRef
		for _, r := range seqOf(sp) {
			cr := refs[intOf(r)]
			tx.AddTxIn(&wire.TxIn{PreviousOutPoint: cr.op, Sequence: wire.MaxTxInSequenceNum})
			sum += cr.amount
			ins = append(ins, cr)
		}
		tx.AddTxOut(&wire.TxOut{Value: sum, PkScript: opTrue})
		for i, cr := range ins {
			if err := sg.sign(tx, i, cr.name, cr.script); err != nil {
				return err
			}
		}
		txs = append(txs, tx)
		counts = append(counts, len(ins))
	}
	blockB := mkBlock(blockA, ha+1, txs)
	if err := deliver(blockB); err != nil {
		return err
	}
	if err := node.Flush("required"); err != nil {
		return fmt.Errorf("chain scenario %d: flush: %w", id, err)
	}
	if err := node.Reopen(); err != nil {
		return fmt.Errorf("chain scenario %d: reopen: %w", id, err)
	}
	rp := map[string]any{"kind": "chain", "scenario": sc}

	// raw buckets
	raw := map[string][]byte{}
	var journalRaw, bestRaw, rowRaw []byte
	rowKey := append(append([]byte{}, bytesOf(ex["rowkey"])...), blockB.Hash()[:]...)
	err = node.DB.View(func(tx database.Tx) error {
		ub := tx.Metadata().Bucket([]byte("utxosetv2"))
		jb := tx.Metadata().Bucket([]byte("spendjournal"))
		ib := tx.Metadata().Bucket([]byte("blockheaderidx"))
		if ub == nil || jb == nil || ib == nil {
			return fmt.Errorf("chain buckets missing")
		}
		for _, x := range coins {
			m := recOf(x)
			cr := refs[intOf(m["ref"])]
			key := append(append([]byte{}, cr.op.Hash[:]...), bytesOf(m["keytail"])...)
			if v := ub.Get(key); v != nil {
				raw[string(key)] = append([]byte{}, v...)
			}
		}
		journalRaw = append([]byte{}, jb.Get(blockB.Hash()[:])...)
		bestRaw = append([]byte{}, tx.Metadata().Get([]byte("chainstate"))...)
		rowRaw = append([]byte{}, ib.Get(rowKey)...)
		return nil
	})
	if err != nil {
		return err
	}
	for _, x := range coins {
		m := recOf(x)
		ref := intOf(m["ref"])
		cr := refs[ref]
		spent := m["spent"].(bool)
		key := append(append([]byte{}, cr.op.Hash[:]...), bytesOf(m["keytail"])...)
		en, err := node.Chain.FetchUtxoEntry(cr.op)
		if err != nil {
			return fmt.Errorf("chain scenario %d: FetchUtxoEntry: %w", id, err)
		}
		c.AddEval(2)
		view := recOf(m["view"])
		class := cr.name
		c.Distinct(fmt.Sprintf("chain|coin|%s|spent%v|h%d", class, spent, ha))
		if spent {
			if en != nil && !en.IsSpent() {
				c.Violation("e2e:spent-output-present", fmt.Sprintf("scenario %d: output %v (%s) was spent by block %d but FetchUtxoEntry still returns it after flush and reopen", id, cr.op, class, ha+1), rp)
			}
			if raw[string(key)] != nil {
				c.Violation("e2e:spent-output-present", fmt.Sprintf("scenario %d: output %v (%s) was spent but the utxo bucket still holds %x", id, cr.op, class, raw[string(key)]), rp)
			}
			continue
		}
		if !m["stored"].(bool) {
			// provably unspendable outputs never enter the utxo set
			if (en != nil && !en.IsSpent()) || raw[string(key)] != nil {
				c.Violation("e2e:unspendable-output-stored", fmt.Sprintf("scenario %d: output %v (%s) can never be spent but the utxo set holds it", id, cr.op, class), rp)
			}
			continue
		}
		if en == nil || en.IsSpent() {
			c.Violation("e2e:utxo-value:"+class, fmt.Sprintf("scenario %d: unspent output %v (%s) is not returned by FetchUtxoEntry after flush and reopen", id, cr.op, class), rp)
		} else if en.Amount() != cr.amount || !bytes.Equal(en.PkScript(), cr.script) || en.BlockHeight() != ha || en.IsCoinBase() != (ref == 0) ||
			uint64(en.Amount()) != natOf(view["amount"]).Uint64() || !bytes.Equal(en.PkScript(), bytesOf(view["script"])) ||
			uint64(uint32(en.BlockHeight())) != natOf(view["h32"]).Uint64() || en.IsCoinBase() != view["cb"].(bool) {
			c.Violation("e2e:utxo-value:"+class, fmt.Sprintf("scenario %d: output %v (%s) stored as (amount %d, script %x, height %d, coinbase %v) reads back as (amount %d, script %x, height %d, coinbase %v)",
				id, cr.op, class, cr.amount, cr.script, ha, ref == 0, en.Amount(), en.PkScript(), en.BlockHeight(), en.IsCoinBase()), rp)
		}
		if want := bytesOf(m["value"]); !bytes.Equal(raw[string(key)], want) {
			c.Violation("e2e:utxo-bytes:"+class, fmt.Sprintf("scenario %d: utxo bucket holds %x under key %x for output %v (%s), specification layout %x", id, raw[string(key)], key, cr.op, class, want), rp)
		}
	}
	// spend journal
	c.AddEval(2)
	c.Distinct(fmt.Sprintf("chain|journal|%v|h%d", counts, ha))
	j, err := node.Chain.FetchSpendJournal(blockB)
	if err != nil {
		c.Violation("e2e:journal-value", fmt.Sprintf("scenario %d: FetchSpendJournal fails after flush and reopen: %v", id, err), rp)
	} else {
		want := seqOf(ex["stxos"])
		bad := len(j) != len(want)
		for i := 0; !bad && i < len(j); i++ {
			w := recOf(want[i])
			bad = uint64(j[i].Amount) != natOf(w["amount"]).Uint64() || !bytes.Equal(j[i].PkScript, bytesOf(w["script"])) ||
				uint64(uint32(j[i].Height)) != natOf(w["h32"]).Uint64() || j[i].IsCoinBase != w["cb"].(bool)
		}
		if bad {
			c.Violation("e2e:journal-value", fmt.Sprintf("scenario %d: FetchSpendJournal returns %+v, the block spends (in order) %v", id, j, want), rp)
		}
	}
	if want := bytesOf(ex["journal"]); !bytes.Equal(journalRaw, want) {
		c.Violation("e2e:journal-bytes", fmt.Sprintf("scenario %d: spend journal bucket holds %x for block %d, specification layout %x", id, journalRaw, ha+1, want), rp)
	}
	// best state record: hash ++ height ++ total txns ++ len ++ work sum
	c.AddEval(2)
	best := recOf(ex["best"])
	work := new(big.Int)
	for _, b := range []*btcutil.Block{f.Blocks[0]} {
		work.Add(work, blockchain.CalcWork(b.MsgBlock().Header.Bits))
	}
	work.Add(work, new(big.Int).Mul(blockchain.CalcWork(easyBits), big.NewInt(int64(ha+1))))
	wantBest := append([]byte{}, blockB.Hash()[:]...)
	wantBest = append(wantBest, bytesOf(best["height"])...)
	wantBest = append(wantBest, bytesOf(best["txns"])...)
	wantBest = binary.LittleEndian.AppendUint32(wantBest, uint32(len(work.Bytes())))
	wantBest = append(wantBest, work.Bytes()...)
	if !bytes.Equal(bestRaw, wantBest) {
		c.Violation("e2e:best-bytes", fmt.Sprintf("scenario %d: chain state record %x, specification layout %x", id, bestRaw, wantBest), rp)
	}
	// block index row of the tip
	var hb bytes.Buffer
	hdr := blockB.MsgBlock().Header
	if err := hdr.Serialize(&hb); err != nil {
		return err
	}
	wantRow := append(hb.Bytes(), byte(intOf(ex["status"])))
	if !bytes.Equal(rowRaw, wantRow) {
		c.Violation("e2e:row-bytes", fmt.Sprintf("scenario %d: block index row %x under key %x, specification layout %x", id, rowRaw, rowKey, wantRow), rp)
	}
	snap := node.Chain.BestSnapshot()
	if snap.Height != ha+1 || snap.Hash != *blockB.Hash() {
		return fmt.Errorf("chain scenario %d: tip after reopen is %v at %d", id, snap.Hash, snap.Height)
	}
	return nil
}

func runChains(c *vrun.Ctx, tab *Table, cases []rawCase) error {
	var chains []specCase
	for _, rc := range cases {
		if rc.kind == "chain" {
			cs, err := rc.decode()
			if err != nil {
				return err
			}
			chains = append(chains, cs)
		}
	}
	t0 := time.Now()
	errs := make([]error, len(chains))
	w := c.Workers
	c.Workers = 4
	c.Parallel(len(chains), func(i int) {
		defer func() {
			if p := recover(); p != nil {
				errs[i] = fmt.Errorf("chain scenario %d: %v", i, p)
			}
		}()
		errs[i] = runChain(c, tab, chains[i].Case, chains[i].Expect)
		c.AddTraces(1)
	})
	c.Workers = w
	for _, e := range errs {
		if e != nil {
			return e
		}
	}
	if len(chains) > 0 {
		c.Sample(map[string]any{"kind": "chain", "scenario": recOf(chains[0].Case["c"])["spends"], "coins": len(seqOf(chains[0].Expect["coins"]))})
	}
	c.Logf("real-chain scenarios (connect, flush, reopen, read back): %d, %.1fs", len(chains), time.Since(t0).Seconds())
	return nil
}
