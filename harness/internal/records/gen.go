// Package records binds spec/records (C15: persisted chain-state record
// formats) to the real btcd code.  TLC enumerates the cases of
// RecordsCases.tla together with what the format definitions of Records.tla
// say about them (encoded bytes, sizes, what the reference decoder returns on
// every truncation / mutation); an in-package test injected with
// `go test -overlay` feeds every case to the unexported codecs of package
// blockchain, and a second binding stores the same entries through the public
// API on a real chain and reads the database back.
package records

import (
	"crypto/sha256"
	"encoding/hex"
	"fmt"
	"math/big"
	"math/rand"
	"strings"

	"github.com/btcsuite/btcd/address/v2"
)

// secp256k1 field prime and group order; the curve is y^2 = x^3 + 7.
var (
	fieldP, _ = new(big.Int).SetString("fffffffffffffffffffffffffffffffffffffffffffffffffffffffefffffc2f", 16)
	groupN, _ = new(big.Int).SetString("fffffffffffffffffffffffffffffffebaaedce6af48a03bbfd25e8cd0364141", 16)
	genX, _   = new(big.Int).SetString("79be667ef9dcbbac55a06295ce870b07029bfcdb2dce28d959f2815b16f81798", 16)
	genY, _   = new(big.Int).SetString("483ada7726a3c4655da4fbfc0e1108a8fd17b448a68554199c47d08ffb10d4b8", 16)
)

// onCurve is the curve equation in plain big-integer arithmetic (independent
// of btcec, which is what the code under test uses).
func onCurve(x, y *big.Int) bool {
	if x.Sign() < 0 || y.Sign() < 0 || x.Cmp(fieldP) >= 0 || y.Cmp(fieldP) >= 0 {
		return false
	}
	l := new(big.Int).Mul(y, y)
	l.Mod(l, fieldP)
	r := new(big.Int).Mul(x, x)
	r.Mul(r, x)
	r.Add(r, big.NewInt(7))
	r.Mod(r, fieldP)
	return l.Cmp(r) == 0
}

// hasPoint reports whether some y makes (x, y) a point (Euler's criterion).
func hasPoint(x *big.Int) bool {
	if x.Cmp(fieldP) >= 0 {
		return false
	}
	r := new(big.Int).Mul(x, x)
	r.Mul(r, x)
	r.Add(r, big.NewInt(7))
	r.Mod(r, fieldP)
	if r.Sign() == 0 {
		return true
	}
	e := new(big.Int).Rsh(new(big.Int).Sub(fieldP, big.NewInt(1)), 1)
	return new(big.Int).Exp(r, e, fieldP).Cmp(big.NewInt(1)) == 0
}

// affine secp256k1 arithmetic on big integers (only to derive public keys
// for the table from private scalars without asking btcec).
func ecAdd(x1, y1, x2, y2 *big.Int) (*big.Int, *big.Int) {
	if x1 == nil {
		return x2, y2
	}
	if x2 == nil {
		return x1, y1
	}
	var lam *big.Int
	if x1.Cmp(x2) == 0 {
		if new(big.Int).Mod(new(big.Int).Add(y1, y2), fieldP).Sign() == 0 {
			return nil, nil
		}
		num := new(big.Int).Mul(x1, x1)
		num.Mul(num, big.NewInt(3))
		den := new(big.Int).Mul(y1, big.NewInt(2))
		den.ModInverse(den, fieldP)
		lam = num.Mul(num, den)
	} else {
		num := new(big.Int).Sub(y2, y1)
		den := new(big.Int).Sub(x2, x1)
		den.Mod(den, fieldP)
		den.ModInverse(den, fieldP)
		lam = num.Mul(num, den)
	}
	lam.Mod(lam, fieldP)
	x3 := new(big.Int).Mul(lam, lam)
	x3.Sub(x3, x1)
	x3.Sub(x3, x2)
	x3.Mod(x3, fieldP)
	y3 := new(big.Int).Sub(x1, x3)
	y3.Mul(y3, lam)
	y3.Sub(y3, y1)
	y3.Mod(y3, fieldP)
	return x3, y3
}

func ecMul(k *big.Int) (*big.Int, *big.Int) {
	var rx, ry *big.Int
	ax, ay := genX, genY
	for i := 0; i < k.BitLen(); i++ {
		if k.Bit(i) == 1 {
			rx, ry = ecAdd(rx, ry, ax, ay)
		}
		ax, ay = ecAdd(ax, ay, ax, ay)
	}
	return rx, ry
}

// Point is one row of the key table handed to the specification.
type Point struct {
	X, Y, NY, BadY [32]byte
	Odd            bool
	Priv           []byte // nil for the two historical keys
	HC, HU         [20]byte
}

// Table is everything module RecordsGen holds.
type Table struct {
	Points     []Point
	OffX       [][32]byte
	RedeemHash [20]byte
}

func be32(v *big.Int) (out [32]byte) {
	v.FillBytes(out[:])
	return
}

func mkPoint(x, y *big.Int, priv []byte) (Point, error) {
	if !onCurve(x, y) {
		return Point{}, fmt.Errorf("records: (%x, %x) is not a curve point", x, y)
	}
	ny := new(big.Int).Sub(fieldP, y)
	p := Point{X: be32(x), Y: be32(y), NY: be32(ny), Odd: y.Bit(0) == 1, Priv: priv}
	// a y coordinate that is certainly wrong: flip the lowest bit
	bad := new(big.Int).Xor(y, big.NewInt(1))
	if onCurve(x, bad) {
		return Point{}, fmt.Errorf("records: flipped y still on the curve")
	}
	p.BadY = be32(bad)
	pfx := byte(2)
	if p.Odd {
		pfx = 3
	}
	comp := append([]byte{pfx}, p.X[:]...)
	unc := append(append([]byte{4}, p.X[:]...), p.Y[:]...)
	copy(p.HC[:], address.Hash160(comp))
	copy(p.HU[:], address.Hash160(unc))
	return p, nil
}

func mustHexBig(s string) *big.Int {
	v, ok := new(big.Int).SetString(s, 16)
	if !ok {
		panic("bad hex " + s)
	}
	return v
}

// NewTable builds the key table: the two public keys of the format
// documentation (coinbases of mainnet blocks 1 and 9) followed by keys derived
// from the seed.
func NewTable(seed int64, n int) (*Table, error) {
	t := &Table{}
	hist := [][2]string{
		{"96b538e853519c726a2c91e61ec11600ae1390813a627c66fb8be7947be63c52", "da7589379515d4e0a604f8141781e62294721166bf621e73a82cbf2342c858ee"},
		{"11db93e1dcdb8a016b49840f8c53bc1eb68a382e97b1482ecad7b148a6909a5c", "b2e0eaddfb84ccf9744464f82e160bfa9b8b64f9d4c03f999b8643f656b412a3"},
	}
	for _, h := range hist {
		p, err := mkPoint(mustHexBig(h[0]), mustHexBig(h[1]), nil)
		if err != nil {
			return nil, err
		}
		t.Points = append(t.Points, p)
	}
	rng := rand.New(rand.NewSource(seed*1000003 + 15))
	haveOdd, haveEven := false, false
	for len(t.Points) < 2+n {
		var kb [32]byte
		rng.Read(kb[:])
		k := new(big.Int).SetBytes(kb[:])
		k.Mod(k, groupN)
		if k.Sign() == 0 {
			continue
		}
		x, y := ecMul(k)
		// make sure both parities occur among the seeded keys
		left := 2 + n - len(t.Points)
		odd := y.Bit(0) == 1
		if left == 1 && ((odd && !haveEven) || (!odd && !haveOdd)) && n >= 2 {
			continue
		}
		p, err := mkPoint(x, y, be32s(k))
		if err != nil {
			return nil, err
		}
		haveOdd = haveOdd || odd
		haveEven = haveEven || !odd
		t.Points = append(t.Points, p)
	}
	for len(t.OffX) < 2 {
		var xb [32]byte
		rng.Read(xb[:])
		xb[0] &= 0x7f
		x := new(big.Int).SetBytes(xb[:])
		if hasPoint(x) {
			continue
		}
		t.OffX = append(t.OffX, xb)
	}
	// no table x may collide with an off-curve x (trivially true) and all x distinct
	seen := map[[32]byte]bool{}
	for _, p := range t.Points {
		if seen[p.X] {
			return nil, fmt.Errorf("records: duplicate x in key table")
		}
		seen[p.X] = true
	}
	copy(t.RedeemHash[:], address.Hash160([]byte{0x51}))
	return t, nil
}

func be32s(v *big.Int) []byte {
	b := be32(v)
	return b[:]
}

func tlaBytes(b []byte) string {
	var sb strings.Builder
	sb.WriteString("<<")
	for i, x := range b {
		if i > 0 {
			sb.WriteString(",")
		}
		fmt.Fprintf(&sb, "%d", x)
	}
	sb.WriteString(">>")
	return sb.String()
}

// Module renders RecordsGen.tla.
func (t *Table) Module() []byte {
	var sb strings.Builder
	sb.WriteString("----------------------------- MODULE RecordsGen -----------------------------\n")
	sb.WriteString("\\* Key table of the specification; rewritten by harness/internal/records before\n")
	sb.WriteString("\\* every TLC run (keys derive from VERIF_SEED).  Points: curve points of\n")
	sb.WriteString("\\* secp256k1 (x, y, ny = p - y, odd = parity of y, bady = a wrong y, hc / hu =\n")
	sb.WriteString("\\* HASH160 of the compressed / uncompressed key); the first two are the keys of\n")
	sb.WriteString("\\* the format documentation.  OffX: x coordinates without a point.  The\n")
	sb.WriteString("\\* binder checks the curve equation with plain big-integer arithmetic.\n")
	sb.WriteString("Points == <<\n")
	for i, p := range t.Points {
		if i > 0 {
			sb.WriteString(",\n")
		}
		fmt.Fprintf(&sb, "  [ x |-> %s,\n    y |-> %s,\n    ny |-> %s,\n    bady |-> %s,\n    odd |-> %s,\n    hc |-> %s,\n    hu |-> %s ]",
			tlaBytes(p.X[:]), tlaBytes(p.Y[:]), tlaBytes(p.NY[:]), tlaBytes(p.BadY[:]), strings.ToUpper(fmt.Sprint(p.Odd)), tlaBytes(p.HC[:]), tlaBytes(p.HU[:]))
	}
	sb.WriteString(" >>\nOffX == <<\n")
	for i, x := range t.OffX {
		if i > 0 {
			sb.WriteString(",\n")
		}
		sb.WriteString("  " + tlaBytes(x[:]))
	}
	sb.WriteString(" >>\n")
	fmt.Fprintf(&sb, "RedeemHash == %s\n", tlaBytes(t.RedeemHash[:]))
	sb.WriteString("=============================================================================\n")
	return []byte(sb.String())
}

// digest identifies a table in logs.
func (t *Table) digest() string {
	h := sha256.Sum256(t.Module())
	return hex.EncodeToString(h[:6])
}
