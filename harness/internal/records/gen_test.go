package records

import (
	"os"
	"testing"
)

// TestWriteDefaultGen writes the committed default of spec/records/RecordsGen.tla
// (VERIF_RECORDS_GEN_OUT=<path> go test ./internal/records -run TestWriteDefaultGen).
func TestWriteDefaultGen(t *testing.T) {
	out := os.Getenv("VERIF_RECORDS_GEN_OUT")
	tab, err := NewTable(1, 4)
	if err != nil {
		t.Fatal(err)
	}
	if len(tab.Points) != 6 || len(tab.OffX) != 2 {
		t.Fatalf("table has %d points, %d off-curve x", len(tab.Points), len(tab.OffX))
	}
	if out != "" {
		if err := os.WriteFile(out, tab.Module(), 0o644); err != nil {
			t.Fatal(err)
		}
	}
}
