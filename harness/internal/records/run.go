package records

import (
	"bufio"
	"bytes"
	"context"
	"encoding/json"
	"fmt"
	"os"
	"os/exec"
	"path/filepath"
	"sort"
	"strings"
	"time"

	"verif/harness/internal/tlc"
	"verif/harness/internal/vrun"
)

// specCase is one state of RecordsCases.tla.
type specCase struct {
	Case   map[string]any `json:"case"`
	Expect map[string]any `json:"expect"`
}

// actions of RecordsCases.tla and the kind of state each one produces
var actionKinds = map[string]string{
	"Group": "group", "PickVLQ": "vlq", "PickVLQDec": "vlqdec", "PickVLQRange": "vlqrange", "PickAmount": "amount",
	"PickCAmount": "camount", "PickAmtRange": "amtrange", "PickScript": "script", "PickCScript": "cscript", "PickCSize": "csize",
	"PickTxOut": "txout", "PickUtxo": "utxo", "PickKeyPair": "keypair", "PickStxo": "stxo", "PickJournal": "journal",
	"PickBest": "best", "PickRow": "row", "PickLegacy": "legacy", "PickChain": "chain",
}

const casePrefix = `"[\"CASE\",`

// rawCase is one emitted state: the JSON text TLC printed for it.
type rawCase struct {
	kind string
	json []byte // ["CASE", case, expect]
}

// parseEmitted extracts the states TLC printed through EmitCase (one JSON
// array per line, printed as a TLA+ string).
func parseEmitted(output string) ([]rawCase, error) {
	var out []rawCase
	sc := bufio.NewScanner(strings.NewReader(output))
	sc.Buffer(make([]byte, 1<<20), 1<<30)
	for sc.Scan() {
		l := sc.Text()
		if !strings.HasPrefix(l, casePrefix) {
			continue
		}
		if !strings.HasSuffix(l, `"`) {
			return nil, fmt.Errorf("emitted state %d is cut short", len(out))
		}
		l = l[1 : len(l)-1]
		l = strings.ReplaceAll(l, `\"`, `"`)
		l = strings.ReplaceAll(l, `\\`, `\`)
		var head []json.RawMessage
		if err := json.Unmarshal([]byte(l), &head); err != nil || len(head) != 3 {
			return nil, fmt.Errorf("emitted state %d: not a JSON triple: %v", len(out), err)
		}
		var k struct {
			Kind string `json:"kind"`
		}
		if err := json.Unmarshal(head[1], &k); err != nil || k.Kind == "" {
			return nil, fmt.Errorf("emitted state %d: case has no kind", len(out))
		}
		out = append(out, rawCase{k.Kind, []byte(l)})
	}
	return out, sc.Err()
}

func (r rawCase) decode() (specCase, error) {
	var parts []json.RawMessage
	var sc specCase
	if err := json.Unmarshal(r.json, &parts); err != nil {
		return sc, err
	}
	if err := json.Unmarshal(parts[1], &sc.Case); err != nil {
		return sc, err
	}
	err := json.Unmarshal(parts[2], &sc.Expect)
	return sc, err
}

type testOut struct {
	Cases      int            `json:"cases"`
	Evals      int64          `json:"evals"`
	ByKind     map[string]int `json:"by_kind"`
	Distinct   []string       `json:"distinct"`
	Violations []struct {
		Key    string `json:"key"`
		What   string `json:"what"`
		Replay any    `json:"replay"`
	} `json:"violations"`
	Samples   []any    `json:"samples"`
	Malformed int64    `json:"malformed_inputs"`
	Errors    []string `json:"errors"`
	Complete  bool     `json:"complete"`
}

func testTimeout(c *vrun.Ctx) string {
	if c.Thorough {
		return "25m"
	}
	return "8m"
}

func repoDir() string {
	if r := os.Getenv("VERIF_REPO"); r != "" {
		return r
	}
	return "/repo"
}

// runInPackage compiles the overlay test into package blockchain of the
// repository under test and runs it on the case file.
func runInPackage(c *vrun.Ctx, cases []rawCase) (*testOut, error) {
	casePath := filepath.Join(c.Scratch, "records-cases.json")
	outPath := filepath.Join(c.Scratch, "records-out.json")
	f, err := os.Create(casePath)
	if err != nil {
		return nil, err
	}
	w := bufio.NewWriterSize(f, 1<<20)
	n := 0
	for _, cs := range cases {
		switch cs.kind {
		case "root", "group", "chain":
			continue
		}
		w.Write(cs.json)
		w.WriteByte('\n')
		n++
	}
	if err := w.Flush(); err != nil {
		return nil, err
	}
	f.Close()
	if keep := os.Getenv("VERIF_RECORDS_KEEP_CASES"); keep != "" { // development aid
		if b, err := os.ReadFile(casePath); err == nil {
			os.WriteFile(keep, b, 0o644)
		}
	}

	repo := repoDir()
	harness := filepath.Join(c.VerifDir, "harness")
	ov := map[string]map[string]string{"Replace": {
		filepath.Join(repo, "blockchain", "zz_verif_records_test.go"): filepath.Join(harness, "internal", "records", "overlay", "zz_verif_records_test.go.txt"),
	}}
	ovPath := filepath.Join(c.Scratch, "records-overlay.json")
	b, _ := json.Marshal(ov)
	if err := os.WriteFile(ovPath, b, 0o644); err != nil {
		return nil, err
	}
	args := []string{"test", "-overlay", ovPath, "-run", "^TestVerifRecords$", "-count=1", "-vet=off", "-timeout", testTimeout(c), "-v"}
	if repo != "/repo" {
		// the harness module with its replace directives pointed at the scratch worktree
		mod, err := os.ReadFile(filepath.Join(harness, "go.mod"))
		if err != nil {
			return nil, err
		}
		sum, err := os.ReadFile(filepath.Join(harness, "go.sum"))
		if err != nil {
			return nil, err
		}
		md := filepath.Join(c.Scratch, "records-mod")
		if err := os.MkdirAll(md, 0o755); err != nil {
			return nil, err
		}
		mod = bytes.ReplaceAll(mod, []byte("=> /repo"), []byte("=> "+repo))
		if err := os.WriteFile(filepath.Join(md, "go.mod"), mod, 0o644); err != nil {
			return nil, err
		}
		if err := os.WriteFile(filepath.Join(md, "go.sum"), sum, 0o644); err != nil {
			return nil, err
		}
		args = append(args, "-modfile="+filepath.Join(md, "go.mod"))
	}
	args = append(args, "github.com/btcsuite/btcd/blockchain")
	cmd := exec.Command("go", args...)
	cmd.Dir = harness
	cmd.Env = append(os.Environ(), "GOFLAGS=-mod=mod", "GOPROXY=off", "GOMAXPROCS=8",
		"VERIF_RECORDS_CASES="+casePath, "VERIF_RECORDS_OUT="+outPath)
	t0 := time.Now()
	outB, err := cmd.CombinedOutput()
	if err != nil {
		// The test process died or stalled (a decoder that allocates or loops
		// without bound on a malformed input does that).  Findings made before
		// that are on disk: report them, then fail the run.
		if rb, rerr := os.ReadFile(outPath); rerr == nil {
			var to testOut
			if json.Unmarshal(rb, &to) == nil {
				for _, v := range to.Violations {
					c.Violation(v.Key, v.What, v.Replay)
				}
			}
		}
		tail := string(outB)
		if len(tail) > 4000 {
			tail = tail[len(tail)-4000:]
		}
		return nil, fmt.Errorf("in-package test run failed: %v\n%s", err, tail)
	}
	c.Logf("in-package replay (go test -overlay into %s/blockchain): %d cases, %.1fs", repo, n, time.Since(t0).Seconds())
	rb, err := os.ReadFile(outPath)
	if err != nil {
		return nil, fmt.Errorf("in-package test wrote no result: %w", err)
	}
	var to testOut
	if err := json.Unmarshal(rb, &to); err != nil {
		return nil, err
	}
	if len(to.Errors) > 0 {
		return nil, fmt.Errorf("in-package binder errors: %s", strings.Join(to.Errors, "; "))
	}
	if !to.Complete || to.Cases != n {
		return nil, fmt.Errorf("in-package test handled %d cases of %d", to.Cases, n)
	}
	return &to, nil
}

// Run is the C15 check.
func Run(c *vrun.Ctx) error {
	c.Ev.Coverage.Rule = "TLC enumerates the cases of RecordsCases.tla (values by digit-pattern / boundary class, dense ranges, script decision-table classes incl. near misses, " +
		"entries = height class x coinbase x amount class x script class, journals for every transaction shape <= 3 txs x <= 2 inputs, best-state and block-index rows by field class, " +
		"version-1 utxo entries by unspent-index set, the documented examples) with the reference layout, size and reference-decoder outcome for the encoding, each proper prefix and each listed mutation; " +
		"every state is replayed into the unexported codecs of package blockchain (go test -overlay) and the chain scenarios into a real chain on ffldb (connect, flush, reopen, read values and raw bucket bytes). " +
		"distinct_nontrivial counts distinct (kind, value/script/height/shape class, mutation class and outcome) combinations."
	c.Assume("TLC evaluates the specification's operators correctly; the base-128 digit arithmetic of RecNat is cross-checked inside TLC against native integers on the dense ranges and against the documented examples")
	c.Assume("curve membership is not modelled: the key table (RecordsGen.tla) is built by the binder and checked with plain big-integer arithmetic (y^2 = x^3 + 7 mod p), independently of btcec; key-shaped scripts of the cases only use table coordinates")
	c.Assume("decoders are exercised on model-derived inputs only (valid encodings, every proper prefix up to 300 bytes, the mutation classes the specification lists), not on all byte strings")

	tab, err := NewTable(c.Seed, 4)
	if err != nil {
		return err
	}
	// thorough tier: the arithmetic laws once more, symbolically, for every
	// 64-bit value (RecordsInt.tla, Apalache); runs beside TLC and the replay
	var apalache chan error
	if c.Thorough {
		apalache = make(chan error, 1)
		actx, cancel := context.WithCancel(context.Background())
		defer cancel() // an early return stops the solver processes
		go func() { apalache <- runApalache(actx, c) }()
	}
	cfg := "Records_quick.cfg"
	workers := 5
	if c.Thorough {
		cfg = "Records_thorough.cfg"
		workers = 6
	}
	res, err := tlc.Run(tlc.Opts{SpecDir: c.SpecDir("records"), Module: "RecordsCases", Config: cfg, Workers: workers,
		Timeout: 25 * time.Minute, Scratch: c.Scratch, HeapGB: 8,
		Files: map[string][]byte{"RecordsGen.tla": tab.Module()}})
	if err != nil {
		return err
	}
	if !res.OK {
		return fmt.Errorf("RecordsCases.tla: TLC reports %s %s on the specification itself (not a verdict about btcd)", res.ErrKind, res.ErrName)
	}
	c.Logf("RecordsCases.tla (key table %s): %d distinct states, %d generated, %.1fs", tab.digest(), res.Distinct, res.Generated, res.WallS)
	c.AddModel(res.Distinct, res.Generated)

	cases, err := parseEmitted(res.Output)
	if err != nil {
		return err
	}
	res.Output = ""
	if int64(len(cases)) != res.Distinct {
		return fmt.Errorf("RecordsCases.tla: %d states emitted, TLC reports %d distinct", len(cases), res.Distinct)
	}
	byKind := map[string]int{}
	for _, cs := range cases {
		byKind[cs.kind]++
	}
	// vacuity audit: every action of the specification produced at least one
	// state (each action produces states of exactly one kind)
	var never []string
	for a, k := range actionKinds {
		if byKind[k] == 0 {
			never = append(never, a)
		}
	}
	sort.Strings(never)
	if len(never) > 0 {
		return fmt.Errorf("RecordsCases.tla: actions never taken: %v", never)
	}
	c.SetExtra("actions_never_taken", []string{})
	c.SetExtra("states_by_kind", byKind)

	to, err := runInPackage(c, cases)
	if err != nil {
		return err
	}
	for k, n := range to.ByKind {
		if n != byKind[k] {
			return fmt.Errorf("in-package replay handled %d cases of kind %s, specification has %d", n, k, byKind[k])
		}
	}
	c.AddTraces(int64(to.Cases))
	c.AddEval(to.Evals)
	for _, d := range to.Distinct {
		c.Distinct(d)
	}
	for _, s := range to.Samples {
		c.Sample(s)
	}
	c.SetExtra("malformed_inputs_offered", to.Malformed)
	for _, v := range to.Violations {
		c.Violation(v.Key, v.What, v.Replay)
	}

	if err := runChains(c, tab, cases); err != nil {
		return err
	}

	if apalache != nil {
		if err := <-apalache; err != nil {
			return err
		}
	}

	// The enumerated case space is replayed completely, but it samples the
	// property's quantifier (every amount / script / byte string): not exhaustive.
	c.Ev.Coverage.Exhaustive = false
	c.Ev.Coverage.Explanation = "Every case TLC enumerated from RecordsCases.tla for this tier was replayed into the btcd code, including every listed truncation and mutation; " +
		"that case space samples the property's quantifier rather than exhausting it: integers are covered densely only up to 2^17 (quick) / 2^20 (thorough) and by boundary / digit-pattern classes up to 2^64-1; " +
		"scripts, heights, transaction shapes and malformed inputs by the classes the specification lists. In the thorough tier the arithmetic laws (amount compression is a bijection with recoverable exponent; " +
		"the VLQ encode/decode steps are inverse and lengths canonical) are additionally checked by Apalache for ALL 64-bit values on the specification (RecordsInt.tla), which the code is tied to only through the sampled replay."
	return nil
}
