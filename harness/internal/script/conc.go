package script

import (
	"bytes"
	"crypto/sha1"
	"crypto/sha256"
	"encoding/binary"
	"fmt"
	"sync"

	"github.com/btcsuite/btcd/btcec/v2"
	"github.com/btcsuite/btcd/btcec/v2/schnorr"
	"github.com/btcsuite/btcd/chainhash/v2"
	"github.com/btcsuite/btcd/txscript/v2"
	"golang.org/x/crypto/ripemd160"
)

// World holds what is shared by all concretisations of one run: the key pairs
// (derived from the seed) and memoised element bytes.
type World struct {
	seed  int64
	mu    sync.Mutex
	keys  map[string]*btcec.PrivateKey
	bytes sync.Map // *Elem -> []byte for context-free elements
}

func NewWorld(seed int64) *World {
	return &World{seed: seed, keys: map[string]*btcec.PrivateKey{}}
}

func (w *World) key(name string) *btcec.PrivateKey {
	w.mu.Lock()
	defer w.mu.Unlock()
	if k := w.keys[name]; k != nil {
		return k
	}
	for ctr := 0; ; ctr++ {
		h := sha256.Sum256([]byte(fmt.Sprintf("verif-script-key/%d/%s/%d", w.seed, name, ctr)))
		var s btcec.ModNScalar
		if overflow := s.SetByteSlice(h[:]); overflow || s.IsZero() {
			continue
		}
		k := btcec.PrivKeyFromScalar(&s)
		w.keys[name] = k
		return k
	}
}

// pubBytes serialises a public key in one of the forms of ScriptVM.tla KeyLen.
func pubBytes(pub *btcec.PublicKey, form int) ([]byte, error) {
	switch form {
	case 2:
		return pub.SerializeCompressed(), nil
	case 4:
		return pub.SerializeUncompressed(), nil
	case 6:
		u := pub.SerializeUncompressed()
		out := append([]byte{}, u...)
		if u[64]&1 == 1 {
			out[0] = 0x07
		} else {
			out[0] = 0x06
		}
		return out, nil
	case 32:
		return schnorr.SerializePubKey(pub), nil
	case 1:
		c := pub.SerializeCompressed()
		out := append([]byte{}, c...)
		out[0] = 0x05
		return out, nil
	case 31:
		return schnorr.SerializePubKey(pub)[:31], nil
	case 12:
		// 02 || x with x not on the curve: derived from the key, bumped until it does not parse
		out := append([]byte{}, pub.SerializeCompressed()...)
		out[0] = 0x02
		for i := 0; i < 1000; i++ {
			out[32]++
			if _, err := btcec.ParsePubKey(out); err != nil {
				return out, nil
			}
		}
		return nil, fmt.Errorf("no off-curve x found")
	case 14:
		// 04 || x || y+1: not on the curve
		out := append([]byte{}, pub.SerializeUncompressed()...)
		out[64] ^= 0x01
		if _, err := btcec.ParsePubKey(out); err == nil {
			return nil, fmt.Errorf("perturbed point still parses")
		}
		return out, nil
	}
	return nil, fmt.Errorf("unknown key form %d", form)
}

// ecdsaRS signs hash with a nonce chosen so that r and s are full 32-byte
// values with a clear top bit (both DER integers are exactly 32 bytes) and s
// is low.
func ecdsaRS(priv *btcec.PrivateKey, hash []byte, salt string) (r, s btcec.ModNScalar) {
	var z btcec.ModNScalar
	z.SetByteSlice(hash)
	for ctr := 0; ; ctr++ {
		kh := sha256.Sum256(append(append(priv.Serialize(), hash...), []byte(fmt.Sprintf("/%s/%d", salt, ctr))...))
		var k btcec.ModNScalar
		if overflow := k.SetByteSlice(kh[:]); overflow || k.IsZero() {
			continue
		}
		var R btcec.JacobianPoint
		btcec.ScalarBaseMultNonConst(&k, &R)
		R.ToAffine()
		xb := R.X.Bytes()
		if overflow := r.SetByteSlice(xb[:]); overflow || r.IsZero() {
			continue
		}
		// s = k^-1 (z + r d)
		var t btcec.ModNScalar
		t.Mul2(&r, &priv.Key).Add(&z)
		kinv := new(btcec.ModNScalar).InverseValNonConst(&k)
		s.Mul2(kinv, &t)
		if s.IsZero() {
			continue
		}
		if s.IsOverHalfOrder() {
			s.Negate()
		}
		rb, sb := r.Bytes(), s.Bytes()
		if rb[0]&0x80 != 0 || rb[0] == 0 || sb[0]&0x80 != 0 || sb[0] == 0 {
			continue
		}
		return r, s
	}
}

func derInt(b []byte, pad int) []byte {
	// strip leading zeros, add one when the top bit is set, then extra padding
	for len(b) > 1 && b[0] == 0 {
		b = b[1:]
	}
	if b[0]&0x80 != 0 {
		b = append([]byte{0}, b...)
	}
	for i := 0; i < pad; i++ {
		b = append([]byte{0}, b...)
	}
	return append([]byte{0x02, byte(len(b))}, b...)
}

// ecdsaSigBytes builds the signature encoding classes of ScriptVM.tla SigLen:
// 0 strict DER low S (70 bytes), 1 strict DER high S (71), 2 R padded with a
// needless zero byte (71): BER, not DER.  The hash type byte is appended.
func ecdsaSigBytes(priv *btcec.PrivateKey, hash []byte, cls int, ht byte, salt string) ([]byte, error) {
	r, s := ecdsaRS(priv, hash, salt)
	if cls == 1 {
		s.Negate()
	}
	rb, sb := r.Bytes(), s.Bytes()
	pad := 0
	if cls == 2 {
		pad = 1
	}
	body := append(derInt(rb[:], pad), derInt(sb[:], 0)...)
	sig := append([]byte{0x30, byte(len(body))}, body...)
	sig = append(sig, ht)
	want := map[int]int{0: 71, 1: 72, 2: 72}[cls]
	if len(sig) != want {
		return nil, fmt.Errorf("signature class %d has length %d, want %d", cls, len(sig), want)
	}
	return sig, nil
}

func hashBytes(kind string, in []byte) ([]byte, error) {
	switch kind {
	case "sha1":
		h := sha1.Sum(in)
		return h[:], nil
	case "sha256":
		h := sha256.Sum256(in)
		return h[:], nil
	case "hash256":
		return chainhash.DoubleHashB(in), nil
	case "ripemd160":
		r := ripemd160.New()
		r.Write(in)
		return r.Sum(nil), nil
	case "hash160":
		h := sha256.Sum256(in)
		r := ripemd160.New()
		r.Write(h[:])
		return r.Sum(nil), nil
	}
	return nil, fmt.Errorf("unknown hash kind %q", kind)
}

// Conc concretises the elements of one spend.
type Conc struct {
	w       *World
	scripts map[string][]byte             // "scr" name -> bytes
	ctrls   map[string][]byte             // "ctrl" element key -> bytes
	sigFn   func(e *Elem) ([]byte, error) // signature elements (context dependent)
	tapKey  []byte                        // x-only output key (key element "TAP")
}

func (c *Conc) elem(e *Elem) ([]byte, error) {
	switch e.T {
	case "raw":
		out := make([]byte, len(e.B))
		for i, b := range e.B {
			out[i] = byte(b)
		}
		return out, nil
	case "fill":
		return bytes.Repeat([]byte{byte(e.B[0])}, e.N), nil
	case "hash":
		in, err := c.elem(e.R[0])
		if err != nil {
			return nil, err
		}
		return hashBytes(e.K, in)
	case "key":
		if e.K == "TAP" {
			if c.tapKey == nil {
				return nil, fmt.Errorf("taproot output key used outside a taproot spend")
			}
			return c.tapKey, nil
		}
		return pubBytes(c.w.key(e.K).PubKey(), e.B[0])
	case "sig":
		if c.sigFn == nil {
			return nil, fmt.Errorf("signature element without signing context: %s", e.Short())
		}
		return c.sigFn(e)
	case "scr":
		b, ok := c.scripts[e.K]
		if !ok {
			return nil, fmt.Errorf("unknown script %q", e.K)
		}
		return b, nil
	case "ctrl":
		b, ok := c.ctrls[e.key]
		if !ok {
			return nil, fmt.Errorf("unknown control block %s", e.Short())
		}
		return b, nil
	}
	return nil, fmt.Errorf("unknown element type %q", e.T)
}

func (c *Conc) elems(es []*Elem) ([][]byte, error) {
	out := make([][]byte, len(es))
	for i, e := range es {
		b, err := c.elem(e)
		if err != nil {
			return nil, err
		}
		if len(b) != e.N {
			return nil, fmt.Errorf("element %s concretises to %d bytes, specification says %d", e.Short(), len(b), e.N)
		}
		out[i] = b
	}
	return out, nil
}

var opByName = func() map[string]byte {
	m := map[string]byte{}
	for k, v := range txscript.OpcodeByName {
		m[k] = v
	}
	return m
}()

// pushBytes encodes a data push with the given encoding.
func pushBytes(enc string, data []byte) ([]byte, error) {
	switch enc {
	case "d":
		if len(data) < 1 || len(data) > 75 {
			return nil, fmt.Errorf("direct push of %d bytes", len(data))
		}
		return append([]byte{byte(len(data))}, data...), nil
	case "p1":
		if len(data) > 255 {
			return nil, fmt.Errorf("OP_PUSHDATA1 of %d bytes", len(data))
		}
		return append([]byte{txscript.OP_PUSHDATA1, byte(len(data))}, data...), nil
	case "p2":
		if len(data) > 65535 {
			return nil, fmt.Errorf("OP_PUSHDATA2 of %d bytes", len(data))
		}
		h := []byte{txscript.OP_PUSHDATA2, 0, 0}
		binary.LittleEndian.PutUint16(h[1:], uint16(len(data)))
		return append(h, data...), nil
	case "p4":
		h := []byte{txscript.OP_PUSHDATA4, 0, 0, 0, 0}
		binary.LittleEndian.PutUint32(h[1:], uint32(len(data)))
		return append(h, data...), nil
	}
	return nil, fmt.Errorf("unknown push encoding %q", enc)
}

func (c *Conc) tok(t *Tok) ([]byte, error) {
	switch t.Op {
	case "PUSH":
		data, err := c.elem(t.E)
		if err != nil {
			return nil, err
		}
		if len(data) != t.E.N {
			return nil, fmt.Errorf("element %s concretises to %d bytes, specification says %d", t.E.Short(), len(data), t.E.N)
		}
		b, err := pushBytes(t.Enc, data)
		if err != nil {
			return nil, err
		}
		if t.Tr {
			if t.N == 1 {
				return b[:1], nil
			}
			return b[:len(b)-1], nil
		}
		return b, nil
	case "OP_N":
		if t.N < 1 || t.N > 16 {
			return nil, fmt.Errorf("OP_N with n=%d", t.N)
		}
		return []byte{byte(txscript.OP_1 + t.N - 1)}, nil
	case "OP_UNKNOWN":
		if t.N < 187 || t.N > 255 {
			return nil, fmt.Errorf("OP_UNKNOWN with n=%d", t.N)
		}
		return []byte{byte(t.N)}, nil
	}
	b, ok := opByName[t.Op]
	if !ok {
		return nil, fmt.Errorf("unknown opcode name %q", t.Op)
	}
	return []byte{b}, nil
}

// script returns the serialisation and the byte offset of every token (plus
// the total length as the last entry).
func (c *Conc) script(p []*Tok) ([]byte, []int, error) {
	var out []byte
	offs := make([]int, 0, len(p)+1)
	for _, t := range p {
		offs = append(offs, len(out))
		b, err := c.tok(t)
		if err != nil {
			return nil, nil, err
		}
		out = append(out, b...)
	}
	offs = append(offs, len(out))
	return out, offs, nil
}

// minPush is ScriptVM.tla MinPush on concrete bytes: the BIP62-minimal push.
func minPush(data []byte) []byte {
	switch {
	case len(data) == 0:
		return []byte{txscript.OP_0}
	case len(data) == 1 && data[0] >= 1 && data[0] <= 16:
		return []byte{txscript.OP_1 + data[0] - 1}
	case len(data) == 1 && data[0] == 0x81:
		return []byte{txscript.OP_1NEGATE}
	case len(data) <= 75:
		return append([]byte{byte(len(data))}, data...)
	case len(data) <= 255:
		return append([]byte{txscript.OP_PUSHDATA1, byte(len(data))}, data...)
	default:
		h := []byte{txscript.OP_PUSHDATA2, 0, 0}
		binary.LittleEndian.PutUint16(h[1:], uint16(len(data)))
		return append(h, data...)
	}
}
