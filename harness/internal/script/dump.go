package script

import (
	"bufio"
	"fmt"
	"io"
	"os"
	"strings"

	"verif/harness/internal/tla"
)

// readDump streams the states of a TLC "-dump <file>" text dump (blocks
// "State N:" followed by the conjuncts) to fn, in file order.
func readDump(path string, fn func(tla.State) error) (int, error) {
	f, err := os.Open(path)
	if err != nil {
		return 0, err
	}
	defer f.Close()
	br := bufio.NewReaderSize(f, 1<<20)
	var body strings.Builder
	n := 0
	flush := func() error {
		if body.Len() == 0 {
			return nil
		}
		st, err := tla.ParseState(body.String())
		body.Reset()
		if err != nil {
			return fmt.Errorf("dump state %d: %w", n, err)
		}
		return fn(st)
	}
	for {
		line, err := br.ReadString('\n')
		if len(line) > 0 {
			if strings.HasPrefix(line, "State ") && strings.HasSuffix(strings.TrimSpace(line), ":") {
				if ferr := flush(); ferr != nil {
					return n, ferr
				}
				n++
			} else {
				body.WriteString(line)
			}
		}
		if err == io.EOF {
			break
		}
		if err != nil {
			return n, err
		}
	}
	if ferr := flush(); ferr != nil {
		return n, ferr
	}
	return n, nil
}
