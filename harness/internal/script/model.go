// Package script is the binder of property C06 (spec/script): it concretises
// the abstract elements, tokens and spends of ScriptVM.tla / ScriptSeq.tla into
// real script bytes, keys, signatures and transactions, runs them through
// txscript.NewEngine + Step and compares with the specification's states.
package script

import (
	"fmt"
	"strings"
	"sync"

	"verif/harness/internal/tla"
)

// Elem is a stack element of the specification (ScriptVM.tla: [t, b, n, k, r]).
type Elem struct {
	T   string
	B   []int
	N   int
	K   string
	R   []*Elem
	key string // canonical text
}

// Tok is a script token of the specification ([op, n, enc, e, tr]).
type Tok struct {
	Op  string
	N   int
	Enc string
	E   *Elem
	Tr  bool
	key string
}

func (e *Elem) String() string { return e.key }
func (t *Tok) String() string  { return t.key }

// short human-readable forms for samples and messages
func (e *Elem) Short() string {
	switch e.T {
	case "raw":
		if e.N == 0 {
			return "<>"
		}
		var sb strings.Builder
		for _, b := range e.B {
			fmt.Fprintf(&sb, "%02x", b)
		}
		return sb.String()
	case "fill":
		return fmt.Sprintf("%02x*%d", e.B[0], e.N)
	case "hash":
		return e.K + "(" + e.R[0].Short() + ")"
	case "key":
		return fmt.Sprintf("key:%s/%d", e.K, e.B[0])
	case "sig":
		return fmt.Sprintf("sig:%s/ht%d/c%d/sv%d/cs%d", e.K, e.B[0], e.B[1], e.B[2], e.B[3])
	case "scr":
		return "script:" + e.K
	case "ctrl":
		return fmt.Sprintf("ctrl:%s/%d/%d/%d", e.K, e.B[0], e.B[1], e.N)
	}
	return e.key
}

func (t *Tok) Short() string {
	switch t.Op {
	case "PUSH":
		s := "push" + t.Enc + "(" + t.E.Short() + ")"
		if t.Tr {
			s += fmt.Sprintf("!trunc%d", t.N)
		}
		return s
	case "OP_N":
		return fmt.Sprintf("OP_%d", t.N)
	case "OP_UNKNOWN":
		return fmt.Sprintf("OP_UNKNOWN%d", t.N)
	}
	return t.Op
}

func shortStack(st []*Elem) string {
	p := make([]string, len(st))
	for i, e := range st {
		p[i] = e.Short()
	}
	return "[" + strings.Join(p, " ") + "]"
}

func shortProg(p []*Tok) string {
	s := make([]string, len(p))
	for i, t := range p {
		s[i] = t.Short()
	}
	return strings.Join(s, " ")
}

// interner shares parsed elements and tokens (there are few distinct ones).
type interner struct {
	mu    sync.Mutex
	elems map[string]*Elem
	toks  map[string]*Tok
}

func newInterner() *interner {
	return &interner{elems: map[string]*Elem{}, toks: map[string]*Tok{}}
}

func (in *interner) elem(v tla.Value) *Elem {
	k := v.String()
	in.mu.Lock()
	e := in.elems[k]
	in.mu.Unlock()
	if e != nil {
		return e
	}
	e = &Elem{T: v.F("t").Str(), N: v.F("n").Int(), K: v.F("k").Str(), key: k}
	for _, b := range v.F("b").Seq() {
		e.B = append(e.B, b.Int())
	}
	for _, r := range v.F("r").Seq() {
		e.R = append(e.R, in.elem(r))
	}
	in.mu.Lock()
	if old := in.elems[k]; old != nil {
		e = old
	} else {
		in.elems[k] = e
	}
	in.mu.Unlock()
	return e
}

func (in *interner) tok(v tla.Value) *Tok {
	k := v.String()
	in.mu.Lock()
	t := in.toks[k]
	in.mu.Unlock()
	if t != nil {
		return t
	}
	t = &Tok{Op: v.F("op").Str(), N: v.F("n").Int(), Enc: v.F("enc").Str(), E: in.elem(v.F("e")), Tr: v.F("tr").Bool(), key: k}
	in.mu.Lock()
	if old := in.toks[k]; old != nil {
		t = old
	} else {
		in.toks[k] = t
	}
	in.mu.Unlock()
	return t
}

func (in *interner) elems_(v tla.Value) []*Elem {
	s := v.Seq()
	out := make([]*Elem, len(s))
	for i, x := range s {
		out[i] = in.elem(x)
	}
	return out
}

func (in *interner) toks_(v tla.Value) []*Tok {
	s := v.Seq()
	out := make([]*Tok, len(s))
	for i, x := range s {
		out[i] = in.tok(x)
	}
	return out
}

// TxCtx is a transaction context of ScriptAlpha.tla.
type TxCtx struct {
	Ver  int32
	Lock uint32
	Seq  uint32 // sequence of the executing input
	NIn  int    // number of inputs (1 or 2)
	Idx  int    // index of the executing input
	OSeq uint32 // sequence of the other input
}

// Tables holds what TLC printed for the binder: contexts and flag sets.
type Tables struct {
	Ctx   map[string]TxCtx
	Flags map[string][]string
}

func pairVal(v tla.Value) uint32 {
	return uint32(v.F("hi").Int())<<24 | uint32(v.F("lo").Int())
}

// parseTables finds the <<"TABLES", ...>> value in TLC's output.
func parseTables(out string) (*Tables, error) {
	i := strings.Index(out, `<< "TABLES"`)
	if i < 0 {
		i = strings.Index(out, `<<"TABLES"`)
	}
	if i < 0 {
		return nil, fmt.Errorf("no TABLES value in TLC output")
	}
	rest := out[i:]
	lines := strings.SplitAfter(rest, "\n")
	var acc strings.Builder
	for _, l := range lines {
		acc.WriteString(l)
		if !strings.Contains(l, ">>") {
			continue
		}
		v, err := tla.ParseValue(strings.TrimSpace(acc.String()))
		if err != nil {
			continue
		}
		t := &Tables{Ctx: map[string]TxCtx{}, Flags: map[string][]string{}}
		cx := v.Seq()[1]
		for _, k := range cx.Domain() {
			r := cx.Apply(k)
			t.Ctx[k.Str()] = TxCtx{Ver: int32(r.F("ver").Int()), Lock: pairVal(r.F("lock")), Seq: pairVal(r.F("seq")),
				NIn: r.F("nin").Int(), Idx: r.F("idx").Int(), OSeq: pairVal(r.F("oseq"))}
		}
		fl := v.Seq()[2]
		for _, k := range fl.Domain() {
			t.Flags[k.Str()] = fl.Apply(k).Strs()
		}
		return t, nil
	}
	return nil, fmt.Errorf("TABLES value does not parse")
}
